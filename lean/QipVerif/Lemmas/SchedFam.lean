import QipVerif.Lemmas.SchedCtrl
import QipVerif.Lemmas.DecompDenEC
import QipVerif.Lemmas.RouteC
/-!
# The families on which the scheduler's commutation rule is sound, over ℂ (C05, hypothesis `H2`)

`safePair a b` is a decidable predicate on two gates of the circuit IR (`QipVerif.Gate`, with its
ordered qubit lists and its angle) saying that the pair belongs to one of the proved families:

1. the same one-qubit name of a self-commuting family (`X Y Z S T SNOT SQRTNOT IDLE RX RY RZ PHASEGATE`)
   on the same target — any two angles;
2. the same controlled name (`CNOT CSIGN CZ CY CS CT CRX CRY CRZ CPHASE`, one control, one target) with the
   same control (any targets) or the same target (any controls) — any two angles;
3. `CNOT` with `X` or `RX(θ)` on the CNOT's target;
4. `CNOT` with `Z` or `RZ(θ)` on the CNOT's control;
5. the same symmetric two-qubit name (`SWAP ISWAP SQRTSWAP SQRTISWAP BERKELEY`) on the same pair of targets,
   listed in the same or in the opposite order;
6. two `TOFFOLI` gates (two controls, one target) with the same target, or with the same two controls in either order.

`safePair_commute`: for such a pair the operators `semD N ρ a`, `semD N ρ b` on any register commute.
Not covered (so `safePair = false`): `FREDKIN`, and every name without complex semantics in
`compactC` (`SWAPalpha R QASMU MS RZX`, user gates) — among them the families for which the rule is unsound.
-/
namespace QipVerif
open Matrix Cyc
variable {N : ℕ}

/-! ## 2×2 matrices of the exact one-qubit gates -/

/-- the complex 2×2 matrix of an exact one-qubit matrix -/
noncomputable def dm2 (D : DMat) : Matrix (Fin 2) (Fin 2) ℂ :=
  ((1 : ℂ) / 2 ^ D.e) • !![toC (D.m.get 0 0), toC (D.m.get 0 1); toC (D.m.get 1 0), toC (D.m.get 1 1)]

/-- `D` is a 2×2 list matrix -/
def Is2 (D : DMat) : Prop := ∃ a b c d, D.m = [[a, b], [c, d]]

theorem toMatD_one_dm2 (D : DMat) (h : Is2 D) : toMatD 1 D = mat1 (dm2 D) := by
  obtain ⟨a, b, c, d, hm⟩ := h
  obtain ⟨e, m⟩ := D
  simp only at hm
  subst hm
  rw [toMatD_one_eq]
  rfl

theorem toMatD_ctrl_dm2 (D : DMat) (h : Is2 D) : toMatD 2 (GateE.ctrl D) = ctrl1 (dm2 D) := by
  have h1 := toMatD_one_dm2 D h
  obtain ⟨a, b, c, d, hm⟩ := h
  obtain ⟨e, m⟩ := D
  simp only at hm
  subst hm
  exact toMatD_ctrl e a b c d _ h1

/-! ## classification of names -/

/-- one-qubit names of self-commuting families -/
def oneQ : GName → Bool
  | .X | .Y | .Z | .S | .T | .SNOT | .SQRTNOT | .IDLE | .RX | .RY | .RZ | .PHASEGATE => true
  | _ => false

/-- controlled one-qubit operators (control first, then target) -/
def ctlQ : GName → Bool
  | .CNOT | .CSIGN | .CZ | .CY | .CS | .CT | .CRX | .CRY | .CRZ | .CPHASE => true
  | _ => false

/-- two-qubit names without parameter whose two same-name instances on the same ordered targets coincide -/
def symQ : GName → Bool
  | .SWAP | .ISWAP | .SQRTSWAP | .SQRTISWAP | .BERKELEY => true
  | _ => false

/-- the 2×2 matrix of a one-qubit name at angle θ -/
noncomputable def oneMat (n : GName) (θ : ℝ) : Matrix (Fin 2) (Fin 2) ℂ :=
  match n with
  | .RX => Gen.G.rx_ θ
  | .RY => Gen.G.ry_ θ
  | .RZ => Gen.G.rz_ θ
  | .PHASEGATE => Gen.G.phasegate_ θ
  | .X => dm2 GateE.x
  | .Y => dm2 GateE.y
  | .Z => dm2 GateE.zg
  | .S => dm2 GateE.s
  | .T => dm2 GateE.t
  | .SNOT => dm2 GateE.snot
  | .SQRTNOT => dm2 GateE.sqrtnot
  | _ => dm2 GateE.idle

theorem compactC_one (n : GName) (h : oneQ n = true) (θ : ℝ) :
    compactC n θ = some ⟨1, mat1 (oneMat n θ)⟩ := by
  cases n <;> simp only [oneQ] at h <;> first
    | rfl
    | (exfalso; exact Bool.false_ne_true h)
    | (simp only [compactC, gateE, oneMat]
       rw [toMatD_one_dm2 _ ⟨_, _, _, _, rfl⟩])

/-- the target matrix of a controlled name at angle θ -/
noncomputable def ctlMat (n : GName) (θ : ℝ) : Matrix (Fin 2) (Fin 2) ℂ :=
  match n with
  | .CRX => Gen.G.rx_ θ
  | .CRY => Gen.G.ry_ θ
  | .CRZ => Gen.G.rz_ θ
  | .CPHASE => Gen.G.phasegate_ θ
  | .CNOT => dm2 GateE.x
  | .CY => dm2 GateE.y
  | .CS => dm2 GateE.s
  | .CT => dm2 GateE.t
  | _ => dm2 GateE.zg

theorem cnot_ctrl : DMat.eqv GateE.cnot (GateE.ctrl GateE.x) = true := by decide +kernel
theorem csign_ctrl : DMat.eqv GateE.csign (GateE.ctrl GateE.zg) = true := by decide +kernel
theorem cy_ctrl : DMat.eqv GateE.cy (GateE.ctrl GateE.y) = true := by decide +kernel
theorem cs_ctrl : DMat.eqv GateE.cs (GateE.ctrl GateE.s) = true := by decide +kernel
theorem ct_ctrl : DMat.eqv GateE.ct (GateE.ctrl GateE.t) = true := by decide +kernel

theorem compactC_ctl (n : GName) (h : ctlQ n = true) (θ : ℝ) :
    compactC n θ = some ⟨2, ctrl1 (ctlMat n θ)⟩ := by
  cases n <;> simp only [ctlQ] at h <;> first
    | rfl
    | (exfalso; exact Bool.false_ne_true h)
    | (simp only [compactC, gateE, ctlMat]
       first
         | rw [eqv_sound 2 _ _ cnot_ctrl, toMatD_ctrl_dm2 _ ⟨_, _, _, _, rfl⟩]
         | rw [eqv_sound 2 _ _ csign_ctrl, toMatD_ctrl_dm2 _ ⟨_, _, _, _, rfl⟩]
         | rw [eqv_sound 2 _ _ cy_ctrl, toMatD_ctrl_dm2 _ ⟨_, _, _, _, rfl⟩]
         | rw [eqv_sound 2 _ _ cs_ctrl, toMatD_ctrl_dm2 _ ⟨_, _, _, _, rfl⟩]
         | rw [eqv_sound 2 _ _ ct_ctrl, toMatD_ctrl_dm2 _ ⟨_, _, _, _, rfl⟩])

theorem compactC_sym (n : GName) (h : symQ n = true) (θ θ' : ℝ) : compactC n θ = compactC n θ' := by
  cases n <;> simp only [symQ] at h <;> first
    | rfl
    | (exfalso; exact Bool.false_ne_true h)

theorem compactC_sym_arity (n : GName) (h : symQ n = true) (θ : ℝ) :
    ∃ U, compactC n θ = some ⟨2, U⟩ := by
  cases n <;> simp only [symQ] at h <;> first
    | exact ⟨_, rfl⟩
    | (exfalso; exact Bool.false_ne_true h)

/-! ## 2×2 commutations -/

theorem commute2 {A B : Matrix (Fin 2) (Fin 2) ℂ}
    (h00 : A 0 0 * B 0 0 + A 0 1 * B 1 0 = B 0 0 * A 0 0 + B 0 1 * A 1 0)
    (h01 : A 0 0 * B 0 1 + A 0 1 * B 1 1 = B 0 0 * A 0 1 + B 0 1 * A 1 1)
    (h10 : A 1 0 * B 0 0 + A 1 1 * B 1 0 = B 1 0 * A 0 0 + B 1 1 * A 1 0)
    (h11 : A 1 0 * B 0 1 + A 1 1 * B 1 1 = B 1 0 * A 0 1 + B 1 1 * A 1 1) : Commute A B := by
  unfold Commute SemiconjBy
  ext i j
  fin_cases i <;> fin_cases j <;> simp only [Matrix.mul_apply, Fin.sum_univ_two] <;> assumption

theorem rx_commute (a b : ℝ) : Commute (Gen.G.rx_ a) (Gen.G.rx_ b) := by
  rw [GateC.rx_eq, GateC.rx_eq]; apply commute2 <;> simp <;> ring

theorem ry_commute (a b : ℝ) : Commute (Gen.G.ry_ a) (Gen.G.ry_ b) := by
  rw [GateC.ry_eq, GateC.ry_eq]; apply commute2 <;> simp <;> ring

theorem rz_commute (a b : ℝ) : Commute (Gen.G.rz_ a) (Gen.G.rz_ b) := by
  rw [GateC.rz_eq, GateC.rz_eq]; apply commute2 <;> simp <;> ring

theorem phasegate_commute (a b : ℝ) : Commute (Gen.G.phasegate_ a) (Gen.G.phasegate_ b) := by
  unfold Gen.G.phasegate_; apply commute2 <;> simp <;> ring

theorem oneMat_commute (n : GName) (a b : ℝ) : Commute (oneMat n a) (oneMat n b) := by
  cases n <;> first
    | exact rx_commute a b
    | exact ry_commute a b
    | exact rz_commute a b
    | exact phasegate_commute a b
    | exact Commute.refl _

theorem ctlMat_commute (n : GName) (a b : ℝ) : Commute (ctlMat n a) (ctlMat n b) := by
  cases n <;> first
    | exact rx_commute a b
    | exact ry_commute a b
    | exact rz_commute a b
    | exact phasegate_commute a b
    | exact Commute.refl _

theorem x_def : GateE.x = ⟨0, [[Cyc.zero, Cyc.one], [Cyc.one, Cyc.zero]]⟩ := rfl
theorem zg_def : GateE.zg = ⟨0, [[Cyc.one, Cyc.zero], [Cyc.zero, Cyc.neg Cyc.one]]⟩ := rfl

theorem dm2_x : dm2 GateE.x = !![0, 1; 1, 0] := by
  rw [x_def]; unfold dm2
  ext i j; fin_cases i <;> fin_cases j <;> simp [CMat.get]

theorem dm2_zg : dm2 GateE.zg = !![1, 0; 0, -1] := by
  rw [zg_def]; unfold dm2
  ext i j; fin_cases i <;> fin_cases j <;> simp [CMat.get, toC_neg]

theorem x_commute_rx (θ : ℝ) : Commute (dm2 GateE.x) (Gen.G.rx_ θ) := by
  rw [dm2_x, GateC.rx_eq]; apply commute2 <;> simp

theorem P0_commute_zg : Commute P0 (dm2 GateE.zg) := by
  rw [dm2_zg]; unfold P0; apply commute2 <;> simp
theorem P1_commute_zg : Commute P1 (dm2 GateE.zg) := by
  rw [dm2_zg]; unfold P1; apply commute2 <;> simp
theorem P0_commute_rz (θ : ℝ) : Commute P0 (Gen.G.rz_ θ) := by
  rw [GateC.rz_eq]; unfold P0; apply commute2 <;> simp
theorem P1_commute_rz (θ : ℝ) : Commute P1 (Gen.G.rz_ θ) := by
  rw [GateC.rz_eq]; unfold P1; apply commute2 <;> simp

/-! ## the operator of a gate of a given shape -/

theorem tgL_single {t : ℕ} (qs : List ℕ) (hq : qs = [t]) (hm : qs.length = 1) (hn : qs.Nodup)
    (hr : ∀ q ∈ qs, q < N) (ht : t < N) : tgL N qs 1 hm hn hr = Tg.single ⟨t, ht⟩ := by
  subst hq
  apply Tg.ext'
  intro i
  fin_cases i
  rfl

theorem tgL_pair2 {a b : ℕ} (qs : List ℕ) (hq : qs = [a, b]) (hm : qs.length = 2) (hn : qs.Nodup)
    (hr : ∀ q ∈ qs, q < N) (hab : a ≠ b) (ha : a < N) (hb : b < N) :
    tgL N qs 2 hm hn hr = Tg.pair ⟨a, ha⟩ ⟨b, hb⟩ (fun e => hab (congrArg Fin.val e)) := by
  subst hq
  apply Tg.ext'
  intro i
  fin_cases i <;> rfl

variable (ρ : ℕ → ℝ)

/-- what `semD … = some A` says about a gate whose qubit list is `[t]` -/
theorem semD_one (g : Gate) {t : ℕ} (hq : g.qubits = [t]) (h : oneQ g.name = true)
    (A : Matrix (St N) (St N) ℂ) (hA : semD N ρ g = some A) :
    ∃ ht : t < N, A = one1 ⟨t, ht⟩ (oneMat g.name (g.arg.eval ρ)) := by
  obtain ⟨m, U, hm, hn, hr, hc, rfl⟩ := semD_inv N ρ g A hA
  rw [compactC_one g.name h] at hc
  cases hc
  have ht : t < N := hr t (by rw [hq]; simp)
  exact ⟨ht, by rw [tgL_single g.qubits hq hm hn hr ht]; rfl⟩

/-- … `[c, t]` with a controlled name -/
theorem semD_ctl (g : Gate) {c t : ℕ} (hq : g.qubits = [c, t]) (h : ctlQ g.name = true)
    (A : Matrix (St N) (St N) ℂ) (hA : semD N ρ g = some A) :
    ∃ (hc : c < N) (ht : t < N) (hne : (⟨c, hc⟩ : Fin N) ≠ ⟨t, ht⟩),
      A = (Tg.pair ⟨c, hc⟩ ⟨t, ht⟩ hne).embed (ctrl1 (ctlMat g.name (g.arg.eval ρ))) := by
  obtain ⟨m, U, hm, hn, hr, hcc, rfl⟩ := semD_inv N ρ g A hA
  rw [compactC_ctl g.name h] at hcc
  cases hcc
  have hc : c < N := hr c (by rw [hq]; simp)
  have ht : t < N := hr t (by rw [hq]; simp)
  have hct : c ≠ t := by
    rw [hq] at hn
    simpa using hn
  exact ⟨hc, ht, fun e => hct (congrArg Fin.val e), by rw [tgL_pair2 g.qubits hq hm hn hr hct hc ht]⟩

theorem semD_congr_sched (a b : Gate) (hq : a.qubits = b.qubits)
    (hc : compactC a.name (a.arg.eval ρ) = compactC b.name (b.arg.eval ρ)) : semD N ρ a = semD N ρ b := by
  rw [semD_eq, semD_eq, hc]
  cases compactC b.name (b.arg.eval ρ) with
  | none => rfl
  | some mU =>
    obtain ⟨m, U⟩ := mU
    simp only [hq]

/-! ## symmetric two-qubit gates and TOFFOLI -/

theorem compactC_symD (n : GName) (h : symQ n = true) (θ : ℝ) :
    ∃ D, compactC n θ = some ⟨2, toMatD 2 D⟩ ∧ SWAP2 * toMatD 2 D * SWAP2 = toMatD 2 D := by
  cases n
  case SWAP => exact ⟨GateE.swap, rfl, exch_swap⟩
  case ISWAP => exact ⟨GateE.iswap, rfl, exch_iswap⟩
  case SQRTSWAP => exact ⟨GateE.sqrtswap, rfl, exch_sqrtswap⟩
  case SQRTISWAP => exact ⟨GateE.sqrtiswap, rfl, exch_sqrtiswap⟩
  case BERKELEY => exact ⟨GateE.berkeley, rfl, exch_berkeley⟩
  all_goals (simp [symQ] at h)

/-- … `[a, b]` with any two-qubit compact matrix -/
theorem semD_two' (g : Gate) {a b : ℕ} (hq : g.qubits = [a, b]) (U : Matrix (St 2) (St 2) ℂ)
    (hc : compactC g.name (g.arg.eval ρ) = some ⟨2, U⟩) (A : Matrix (St N) (St N) ℂ) (hA : semD N ρ g = some A) :
    ∃ (ha : a < N) (hb : b < N) (hne : (⟨a, ha⟩ : Fin N) ≠ ⟨b, hb⟩), A = (Tg.pair ⟨a, ha⟩ ⟨b, hb⟩ hne).embed U := by
  obtain ⟨m, U', hm, hn, hr, hcc, rfl⟩ := semD_inv N ρ g A hA
  rw [hc] at hcc
  cases hcc
  have ha : a < N := hr a (by rw [hq]; simp)
  have hb : b < N := hr b (by rw [hq]; simp)
  have hab : a ≠ b := by
    rw [hq] at hn
    simpa using hn
  exact ⟨ha, hb, fun e => hab (congrArg Fin.val e), by rw [tgL_pair2 g.qubits hq hm hn hr hab ha hb]⟩

theorem enc_three_fn (x : St 3) : enc x = 4 * (x 0).val + 2 * (x 1).val + (x 2).val := by
  simp [enc, bitsL, Embed.undigits, Embed.prodL, List.ofFn_succ]
  ring

theorem toffoli_entries : ∀ a b c d e f : Fin 2,
    GateE.toffoli.m.get (4 * a.val + 2 * b.val + c.val) (4 * d.val + 2 * e.val + f.val) =
      if a = 1 ∧ b = 1 then (if d = 1 ∧ e = 1 ∧ f ≠ c then Cyc.one else Cyc.zero)
      else (if a = d ∧ b = e ∧ c = f then Cyc.one else Cyc.zero) := by decide

theorem isToffoli : IsToffoli (toMatD 3 GateE.toffoli) := by
  intro u v
  have he : GateE.toffoli.e = 0 := rfl
  simp only [toMatD, toMat, Matrix.smul_apply, smul_eq_mul, enc_three_fn, toffoli_entries, he, pow_zero, div_one, one_mul]
  split
  · split <;> simp
  · split <;> simp

theorem tgL_triple {a b c : ℕ} (qs : List ℕ) (hq : qs = [a, b, c]) (hm : qs.length = 3) (hn : qs.Nodup)
    (hr : ∀ q ∈ qs, q < N) (hab : a ≠ b) (hac : a ≠ c) (hbc : b ≠ c) (ha : a < N) (hb : b < N) (hc : c < N) :
    tgL N qs 3 hm hn hr = Tg.triple ⟨a, ha⟩ ⟨b, hb⟩ ⟨c, hc⟩ (fun e => hab (congrArg Fin.val e))
      (fun e => hac (congrArg Fin.val e)) (fun e => hbc (congrArg Fin.val e)) := by
  subst hq
  apply Tg.ext'
  intro i
  fin_cases i <;> rfl

/-- … `[c₁, c₂, t]` with the name TOFFOLI -/
theorem semD_toffoli (g : Gate) {a b c : ℕ} (hq : g.qubits = [a, b, c]) (hname : g.name = .TOFFOLI)
    (A : Matrix (St N) (St N) ℂ) (hA : semD N ρ g = some A) :
    ∃ (ha : a < N) (hb : b < N) (hc : c < N) (hab : (⟨a, ha⟩ : Fin N) ≠ ⟨b, hb⟩) (hac : (⟨a, ha⟩ : Fin N) ≠ ⟨c, hc⟩)
      (hbc : (⟨b, hb⟩ : Fin N) ≠ ⟨c, hc⟩),
      A = (Tg.triple ⟨a, ha⟩ ⟨b, hb⟩ ⟨c, hc⟩ hab hac hbc).embed (toMatD 3 GateE.toffoli) := by
  obtain ⟨m, U, hm, hn, hr, hcc, rfl⟩ := semD_inv N ρ g A hA
  rw [hname] at hcc
  have hcomp : compactC .TOFFOLI (g.arg.eval ρ) = some ⟨3, toMatD 3 GateE.toffoli⟩ := rfl
  rw [hcomp] at hcc
  cases hcc
  have ha : a < N := hr a (by rw [hq]; simp)
  have hb : b < N := hr b (by rw [hq]; simp)
  have hc : c < N := hr c (by rw [hq]; simp)
  have hnd : a ≠ b ∧ a ≠ c ∧ b ≠ c := by
    rw [hq] at hn
    simp only [List.nodup_cons, List.mem_cons, List.not_mem_nil, or_false, not_or, List.nodup_nil, and_true,
      not_false_eq_true] at hn
    exact ⟨hn.1.1, hn.1.2, hn.2⟩
  exact ⟨ha, hb, hc, fun e => hnd.1 (congrArg Fin.val e), fun e => hnd.2.1 (congrArg Fin.val e),
    fun e => hnd.2.2 (congrArg Fin.val e), by rw [tgL_triple g.qubits hq hm hn hr hnd.1 hnd.2.1 hnd.2.2 ha hb hc]⟩

/-! ## the decidable family predicate -/

def fam1 (a b : Gate) : Bool :=
  a.name == b.name && oneQ a.name && a.controls.isEmpty && b.controls.isEmpty && a.targets.length == 1 &&
    a.targets == b.targets

def fam2 (a b : Gate) : Bool :=
  a.name == b.name && ctlQ a.name && a.controls.length == 1 && a.targets.length == 1 &&
    b.controls.length == 1 && b.targets.length == 1 && (a.controls == b.controls || a.targets == b.targets)

/-- `a` is a CNOT and `b` an `X`/`RX` on its target -/
def cnotX (a b : Gate) : Bool :=
  a.name == .CNOT && a.controls.length == 1 && a.targets.length == 1 && (b.name == .X || b.name == .RX) &&
    b.controls.isEmpty && b.targets == a.targets

/-- `a` is a CNOT and `b` a `Z`/`RZ` on its control -/
def cnotZ (a b : Gate) : Bool :=
  a.name == .CNOT && a.controls.length == 1 && a.targets.length == 1 && (b.name == .Z || b.name == .RZ) &&
    b.controls.isEmpty && b.targets == a.controls

def fam5 (a b : Gate) : Bool :=
  a.name == b.name && symQ a.name && a.controls.isEmpty && b.controls.isEmpty && a.targets == b.targets

/-- the same symmetric two-qubit gate with its two targets listed in the opposite order -/
def fam5r (a b : Gate) : Bool :=
  a.name == b.name && symQ a.name && a.controls.isEmpty && b.controls.isEmpty && a.targets.length == 2 &&
    a.targets == b.targets.reverse

/-- two TOFFOLI gates with the same target, or the same two controls (in either order) -/
def famT (a b : Gate) : Bool :=
  a.name == .TOFFOLI && b.name == .TOFFOLI && a.controls.length == 2 && a.targets.length == 1 &&
    b.controls.length == 2 && b.targets.length == 1 &&
    (a.targets == b.targets || a.controls == b.controls || a.controls == b.controls.reverse)

/-- the pair belongs to a family for which commutation is proved -/
def safePair (a b : Gate) : Bool :=
  fam1 a b || fam2 a b || cnotX a b || cnotX b a || cnotZ a b || cnotZ b a || fam5 a b || fam5r a b || famT a b

theorem len1 {l : List ℕ} (h : l.length = 1) : ∃ t, l = [t] := List.length_eq_one_iff.mp h

theorem fam1_commute (a b : Gate) (A B : Matrix (St N) (St N) ℂ) (ha : semD N ρ a = some A)
    (hb : semD N ρ b = some B) (h : fam1 a b = true) : Commute A B := by
  simp only [fam1, Bool.and_eq_true, beq_iff_eq, List.isEmpty_iff] at h
  obtain ⟨⟨⟨⟨⟨hn, ho⟩, hac⟩, hbc⟩, hl⟩, ht⟩ := h
  obtain ⟨t, hat⟩ := len1 hl
  have hqa : a.qubits = [t] := by simp [Gate.qubits, hac, hat]
  have hqb : b.qubits = [t] := by simp [Gate.qubits, hbc, ← ht, hat]
  obtain ⟨ht1, rfl⟩ := semD_one ρ a hqa ho A ha
  obtain ⟨ht2, rfl⟩ := semD_one ρ b hqb (hn ▸ ho) B hb
  rw [← hn]
  exact one1_commute_same _ (oneMat_commute _ _ _)

theorem fam2_commute (a b : Gate) (A B : Matrix (St N) (St N) ℂ) (ha : semD N ρ a = some A)
    (hb : semD N ρ b = some B) (h : fam2 a b = true) : Commute A B := by
  simp only [fam2, Bool.and_eq_true, Bool.or_eq_true, beq_iff_eq] at h
  obtain ⟨⟨⟨⟨⟨⟨hn, ho⟩, hac⟩, hat⟩, hbc⟩, hbt⟩, hor⟩ := h
  obtain ⟨c1, hc1⟩ := len1 hac
  obtain ⟨t1, ht1⟩ := len1 hat
  obtain ⟨c2, hc2⟩ := len1 hbc
  obtain ⟨t2, ht2⟩ := len1 hbt
  have hqa : a.qubits = [c1, t1] := by simp [Gate.qubits, hc1, ht1]
  have hqb : b.qubits = [c2, t2] := by simp [Gate.qubits, hc2, ht2]
  obtain ⟨hc1N, ht1N, hne1, rfl⟩ := semD_ctl ρ a hqa ho A ha
  obtain ⟨hc2N, ht2N, hne2, rfl⟩ := semD_ctl ρ b hqb (hn ▸ ho) B hb
  rw [← hn]
  have n1 : c1 ≠ t1 := fun e => hne1 (Fin.ext e)
  have n2 : c2 ≠ t2 := fun e => hne2 (Fin.ext e)
  rw [hc1, hc2, ht1, ht2] at hor
  simp only [List.cons.injEq, and_true] at hor
  apply ctrl_commute _ _ _ _ hne1 hne2 _ _ _ _ (Or.inr (ctlMat_commute _ _ _))
  · intro e
    have e' : t1 = c2 := congrArg Fin.val e
    rcases hor with h1 | h1
    · exact n1 (h1.trans e'.symm)
    · exact n2 (e'.symm.trans h1)
  · intro e
    have e' : t2 = c1 := congrArg Fin.val e
    rcases hor with h1 | h1
    · exact n2 (h1.symm.trans e'.symm)
    · exact n1 (e'.symm.trans h1.symm)

theorem cnotX_commute (a b : Gate) (A B : Matrix (St N) (St N) ℂ) (ha : semD N ρ a = some A)
    (hb : semD N ρ b = some B) (h : cnotX a b = true) : Commute A B := by
  simp only [cnotX, Bool.and_eq_true, Bool.or_eq_true, beq_iff_eq, List.isEmpty_iff] at h
  obtain ⟨⟨⟨⟨⟨hn, hac⟩, hat⟩, hbn⟩, hbc⟩, hbt⟩ := h
  obtain ⟨c, hc⟩ := len1 hac
  obtain ⟨t, ht⟩ := len1 hat
  have hqa : a.qubits = [c, t] := by simp [Gate.qubits, hc, ht]
  have hqb : b.qubits = [t] := by simp [Gate.qubits, hbc, hbt, ht]
  obtain ⟨hcN, htN, hne, rfl⟩ := semD_ctl ρ a hqa (by rw [hn]; rfl) A ha
  have hob : oneQ b.name = true := by rcases hbn with e | e <;> rw [e] <;> rfl
  obtain ⟨htN', rfl⟩ := semD_one ρ b hqb hob B hb
  rw [hn]
  apply ctrl_commute_target
  rcases hbn with e | e <;> rw [e]
  · exact Commute.refl _
  · exact x_commute_rx _

theorem cnotZ_commute (a b : Gate) (A B : Matrix (St N) (St N) ℂ) (ha : semD N ρ a = some A)
    (hb : semD N ρ b = some B) (h : cnotZ a b = true) : Commute A B := by
  simp only [cnotZ, Bool.and_eq_true, Bool.or_eq_true, beq_iff_eq, List.isEmpty_iff] at h
  obtain ⟨⟨⟨⟨⟨hn, hac⟩, hat⟩, hbn⟩, hbc⟩, hbt⟩ := h
  obtain ⟨c, hc⟩ := len1 hac
  obtain ⟨t, ht⟩ := len1 hat
  have hqa : a.qubits = [c, t] := by simp [Gate.qubits, hc, ht]
  have hqb : b.qubits = [c] := by simp [Gate.qubits, hbc, hbt, hc]
  obtain ⟨hcN, htN, hne, rfl⟩ := semD_ctl ρ a hqa (by rw [hn]; rfl) A ha
  have hob : oneQ b.name = true := by rcases hbn with e | e <;> rw [e] <;> rfl
  obtain ⟨hcN', rfl⟩ := semD_one ρ b hqb hob B hb
  rcases hbn with e | e <;> rw [e]
  · exact ctrl_commute_control _ _ hne _ P0_commute_zg P1_commute_zg
  · exact ctrl_commute_control _ _ hne _ (P0_commute_rz _) (P1_commute_rz _)

theorem fam5_commute (a b : Gate) (A B : Matrix (St N) (St N) ℂ) (ha : semD N ρ a = some A)
    (hb : semD N ρ b = some B) (h : fam5 a b = true) : Commute A B := by
  simp only [fam5, Bool.and_eq_true, beq_iff_eq, List.isEmpty_iff] at h
  obtain ⟨⟨⟨⟨hn, ho⟩, hac⟩, hbc⟩, ht⟩ := h
  have hq : a.qubits = b.qubits := by simp [Gate.qubits, hac, hbc, ht]
  have hcc : compactC a.name (a.arg.eval ρ) = compactC b.name (b.arg.eval ρ) := by
    rw [← hn]; exact compactC_sym a.name ho _ _
  have := semD_congr_sched (N := N) ρ a b hq hcc
  rw [ha, hb] at this
  cases this
  exact Commute.refl _

theorem len2 {l : List ℕ} (h : l.length = 2) : ∃ x y, l = [x, y] := List.length_eq_two.mp h

theorem fam5r_commute (a b : Gate) (A B : Matrix (St N) (St N) ℂ) (ha : semD N ρ a = some A)
    (hb : semD N ρ b = some B) (h : fam5r a b = true) : Commute A B := by
  simp only [fam5r, Bool.and_eq_true, beq_iff_eq, List.isEmpty_iff] at h
  obtain ⟨⟨⟨⟨⟨hn, ho⟩, hac⟩, hbc⟩, hl⟩, ht⟩ := h
  obtain ⟨i, j, hij⟩ := len2 hl
  have hbt : b.targets = [j, i] := by
    have := congrArg List.reverse ht
    rw [List.reverse_reverse, hij] at this
    simpa using this.symm
  have hqa : a.qubits = [i, j] := by simp [Gate.qubits, hac, hij]
  have hqb : b.qubits = [j, i] := by simp [Gate.qubits, hbc, hbt]
  obtain ⟨D, hD, hex⟩ := compactC_symD a.name ho (a.arg.eval ρ)
  have hDb : compactC b.name (b.arg.eval ρ) = some ⟨2, toMatD 2 D⟩ := by
    rw [← hn, compactC_sym a.name ho _ (a.arg.eval ρ)]; exact hD
  obtain ⟨hi, hj, hne, rfl⟩ := semD_two' ρ a hqa _ hD A ha
  obtain ⟨hj', hi', hne', rfl⟩ := semD_two' ρ b hqb _ hDb B hb
  rw [embed_exchange_symm _ hex ⟨j, hj'⟩ ⟨i, hi'⟩ hne']

theorem famT_commute (a b : Gate) (A B : Matrix (St N) (St N) ℂ) (ha : semD N ρ a = some A)
    (hb : semD N ρ b = some B) (h : famT a b = true) : Commute A B := by
  simp only [famT, Bool.and_eq_true, Bool.or_eq_true, beq_iff_eq] at h
  obtain ⟨⟨⟨⟨⟨⟨hna, hnb⟩, hac⟩, hat⟩, hbc⟩, hbt⟩, hor⟩ := h
  obtain ⟨x1, x2, hx⟩ := len2 hac
  obtain ⟨t, ht⟩ := len1 hat
  obtain ⟨y1, y2, hy⟩ := len2 hbc
  obtain ⟨u, hu⟩ := len1 hbt
  have hqa : a.qubits = [x1, x2, t] := by simp [Gate.qubits, hx, ht]
  have hqb : b.qubits = [y1, y2, u] := by simp [Gate.qubits, hy, hu]
  obtain ⟨hx1, hx2, htN, n12, n1t, n2t, rfl⟩ := semD_toffoli ρ a hqa hna A ha
  obtain ⟨hy1, hy2, huN, m12, m1u, m2u, rfl⟩ := semD_toffoli ρ b hqb hnb B hb
  have e12 : x1 ≠ x2 := fun e => n12 (Fin.ext e)
  have e1t : x1 ≠ t := fun e => n1t (Fin.ext e)
  have e2t : x2 ≠ t := fun e => n2t (Fin.ext e)
  have f12 : y1 ≠ y2 := fun e => m12 (Fin.ext e)
  have f1u : y1 ≠ u := fun e => m1u (Fin.ext e)
  have f2u : y2 ≠ u := fun e => m2u (Fin.ext e)
  rw [hx, hy, ht, hu] at hor
  simp only [List.cons.injEq, and_true, List.reverse_cons, List.reverse_nil, List.nil_append, List.cons_append] at hor
  have key : t ≠ y1 ∧ t ≠ y2 ∧ u ≠ x1 ∧ u ≠ x2 := by
    rcases hor with (h1 | ⟨h1, h2⟩) | ⟨h1, h2⟩
    · subst h1
      exact ⟨Ne.symm f1u, Ne.symm f2u, Ne.symm e1t, Ne.symm e2t⟩
    · subst h1; subst h2
      exact ⟨Ne.symm e1t, Ne.symm e2t, Ne.symm f1u, Ne.symm f2u⟩
    · subst h1; subst h2
      exact ⟨Ne.symm e2t, Ne.symm e1t, Ne.symm f2u, Ne.symm f1u⟩
  apply toffoli_commute _ isToffoli
  · exact fun e => key.1 (congrArg Fin.val e)
  · exact fun e => key.2.1 (congrArg Fin.val e)
  · exact fun e => key.2.2.1 (congrArg Fin.val e)
  · exact fun e => key.2.2.2 (congrArg Fin.val e)

/-- **`H2` for the proved families**: the operators of a safe pair commute on every register. -/
theorem safePair_commute (a b : Gate) (A B : Matrix (St N) (St N) ℂ) (ha : semD N ρ a = some A)
    (hb : semD N ρ b = some B) (h : safePair a b = true) : Commute A B := by
  simp only [safePair, Bool.or_eq_true] at h
  rcases h with (((((((h | h) | h) | h) | h) | h) | h) | h) | h
  · exact fam1_commute ρ a b A B ha hb h
  · exact fam2_commute ρ a b A B ha hb h
  · exact cnotX_commute ρ a b A B ha hb h
  · exact (cnotX_commute ρ b a B A hb ha h).symm
  · exact cnotZ_commute ρ a b A B ha hb h
  · exact (cnotZ_commute ρ b a B A hb ha h).symm
  · exact fam5_commute ρ a b A B ha hb h
  · exact fam5r_commute ρ a b A B ha hb h
  · exact famT_commute ρ a b A B ha hb h

end QipVerif
