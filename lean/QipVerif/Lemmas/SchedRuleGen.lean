import QipVerif.Gen.SchedRule
import QipVerif.Lemmas.SchedComm
/-!
# The regenerated commutation rule is the rule of the model (C05, C11)

`Gen/SchedRule.lean` is rewritten from `scheduler.py` of the tree under test on every check:
`Gen.SchedRule.commutationRules` is the body of `Scheduler.commutation_rules` statement by statement,
`Gen.SchedRule.selfCommuting` the literal `_SELF_COMMUTING_GATES`.

`commRules_eq_gen`: on instructions whose flag `sc` is "the name is in the set of the tree"
(`TreeIns`), the hand-written `Sched.commRules` — the rule the scheduling model runs and all
theorems of `Props/C05.lean`, `Props/C11.lean` talk about — **is** the regenerated function.  An edit
of the rule in the source changes the regenerated definition and this proof no longer builds.
-/
namespace QipVerif.Sched
open QipVerif.Gen.SchedRule

/-- the instruction's flag `sc` is what the tree's rule asks of an instruction before it declares it commuting with a
gate of its own name (`Gen.SchedRule.flagged`, the conjunction of the negated guards of the same-name part): the name is
in `_SELF_COMMUTING_GATES` and, on a repaired tree, it is not a gate given by several non-interchangeable targets -/
def TreeIns (a : Ins) : Prop := a.sc = flagged a

instance (a : Ins) : Decidable (TreeIns a) := inferInstanceAs (Decidable (_ = _))

theorem contains_two (s u v : String) : [u, v].contains s = (s == u || s == v) := by
  simp only [List.contains, List.elem]
  cases s == u <;> cases s == v <;> rfl

theorem ite_tf (c : Bool) : (if c = true then true else false) = c := by cases c <;> rfl

/-- the cross-name part of the regenerated rule in the closed form of `SchedComm` -/
theorem gen_chain_eq_CX (x y : Ins) :
    (if ((x.name == "CNOT") && (["X", "RX"].contains y.name)) then
      (if (x.targets == y.targets) then true else false)
     else if ((x.name == "CNOT") && (["Z", "RZ"].contains y.name)) then
      (if (x.controls == y.targets) then true else false)
     else false) = CX x y := by
  rw [contains_two, contains_two, ite_tf, ite_tf, chain_eq_CX]

/-- **commRules_eq_gen.**  The model's rule is the regenerated rule (both variants of the same-name part: with and
without the guard on gates given by more than `lenBound` targets). -/
theorem commRules_eq_gen (a b : Ins) (ha : TreeIns a) (hb : TreeIns b) :
    commRules a b = commutationRules a b := by
  unfold TreeIns at ha hb
  rw [commRules_eq]
  unfold commutationRules
  by_cases hn : a.name = b.name
  · have hne : (a.name != b.name) = false := by simp [hn]
    rw [if_pos hn, if_neg (by rw [hne]; exact Bool.false_ne_true), ha, hb]
    unfold flagged
    rw [← hn]
    -- every guard is `if g a || g b then false`, `flagged` is the conjunction of the negated guards: Boolean case analysis
    -- Boolean identity in the atoms of the rule: every guard is `if g a || g b then false`, `flagged` is the conjunction of
    -- the negated guards.  The atoms that exist depend on the variant of the tree (no guard / `len > 2` / `len > 1` and not
    -- exchange-symmetric), hence the `try`s.
    generalize inSet a.name = I
    generalize (!a.controls.isEmpty && a.controls == b.controls) = C
    generalize (a.targets == b.targets) = T
    try generalize decide (a.targets.length > 1) = La1
    try generalize decide (b.targets.length > 1) = Lb1
    try generalize decide (a.targets.length > 2) = La2
    try generalize decide (b.targets.length > 2) = Lb2
    try generalize (a.targets.length != 1) = Na1
    try generalize (b.targets.length != 1) = Nb1
    try generalize namedSet_EXCHANGE_SYMMETRIC_GATES.contains a.name = S
    try generalize (!a.controls.isEmpty) = Ka
    try generalize (!b.controls.isEmpty) = Kb
    cases I <;> cases C <;> cases T <;> (try cases La1) <;> (try cases Lb1) <;> (try cases La2) <;> (try cases Lb2) <;>
      (try cases Na1) <;> (try cases Nb1) <;> (try cases S) <;> (try cases Ka) <;> (try cases Kb) <;> simp
  · have hne : (a.name != b.name) = true := by simpa using hn
    rw [if_neg hn, if_pos hne]
    by_cases hlt : b.name < a.name
    · simp only [hlt, if_true]
      rw [gen_chain_eq_CX, CX_false_of_lt hlt, Bool.false_or]
    · simp only [hlt, if_false]
      rw [gen_chain_eq_CX, CX_false_of_not_lt hlt, Bool.or_false]

/-- the instruction list handed to the model by the driver: every flag is computed from the regenerated set -/
def treeIns (name : String) (targets controls : List Nat) (dur : Int) : Ins :=
  ⟨name, targets, controls, dur, flagged ⟨name, targets, controls, dur, true⟩⟩

theorem treeIns_tree (name : String) (targets controls : List Nat) (dur : Int) :
    TreeIns (treeIns name targets controls dur) := rfl

end QipVerif.Sched
