import QipVerif.Model.QasmSpec
/-!
# Naturality of the standard's expansion `expandCall` (C04, C10)

`expandCall gates name ps qs` is natural in the qubit arguments (renaming them renames the qubits of
the built-ins) and in the parameter expressions (substituting into them substitutes into the
parameters of the built-ins), for well-formed definitions.  Hence every call is the image of the
*generic* expansion of the definition — formal parameters as identifiers, local qubits `0,1,…` —
under a substitution and a renaming.  Plus: definitions that are not looked at can be skipped.
-/
namespace QipVerif.Qasm

def Prim.mapQ (f : Nat → Nat) : Prim → Prim
  | .U a b c q => .U a b c (f q)
  | .CX a b => .CX (f a) (f b)

def Prim.substP (τ : List (Str × Expr)) : Prim → Prim
  | .U a b c q => .U (a.subst τ) (b.subst τ) (c.subst τ) q
  | .CX a b => .CX a b

/-! ## `expandCall` as a recursion over the body -/

def lookupQ (ρ : List (Str × Nat)) (a : Str) : Nat := ((ρ.find? (fun e => e.1 == a)).map (·.2)).getD 0

def expandG (rest : List GateDef) (σ : List (Str × Expr)) (q : Str → Nat) : GOp → Except SpecErr (List Prim)
  | .U a b l x => .ok [Prim.U (a.subst σ) (b.subst σ) (l.subst σ) (q x)]
  | .CX a b => .ok [Prim.CX (q a) (q b)]
  | .barrier _ => .ok []
  | .call nm ps' qs' => expandCall rest nm (ps'.map (Expr.subst σ)) (qs'.map q)

def expandBody (rest : List GateDef) (σ : List (Str × Expr)) (q : Str → Nat) : List GOp → Except SpecErr (List Prim)
  | [] => .ok []
  | g :: gs =>
    match expandG rest σ q g with
    | .error e => .error e
    | .ok a =>
      match expandBody rest σ q gs with
      | .error e => .error e
      | .ok b => .ok (a ++ b)

/-- the step function of the fold inside `expandCall` -/
def stepF (rest : List GateDef) (σ : List (Str × Expr)) (q : Str → Nat) (acc : List Prim) (g : GOp) :
    Except SpecErr (List Prim) :=
  match g with
  | .U a b l x => .ok (acc ++ [Prim.U (a.subst σ) (b.subst σ) (l.subst σ) (q x)])
  | .CX a b => .ok (acc ++ [Prim.CX (q a) (q b)])
  | .barrier _ => .ok acc
  | .call nm ps' qs' =>
    match expandCall rest nm (ps'.map (Expr.subst σ)) (qs'.map q) with
    | .error e => .error e
    | .ok inner => .ok (acc ++ inner)

theorem foldlM_expand (rest : List GateDef) (σ : List (Str × Expr)) (q : Str → Nat) (body : List GOp)
    (acc : List Prim) :
    body.foldlM (stepF rest σ q) acc =
      match expandBody rest σ q body with
      | .ok b => .ok (acc ++ b)
      | .error e => .error e := by
  induction body generalizing acc with
  | nil => simp [List.foldlM, expandBody, pure, Except.pure]
  | cons g gs ih =>
    rw [List.foldlM_cons]
    cases g with
    | U a b l x =>
      simp only [stepF, bind, Except.bind, expandBody, expandG]
      rw [ih]
      cases expandBody rest σ q gs <;> simp
    | CX a b =>
      simp only [stepF, bind, Except.bind, expandBody, expandG]
      rw [ih]
      cases expandBody rest σ q gs <;> simp
    | barrier qs =>
      simp only [stepF, bind, Except.bind, expandBody, expandG]
      rw [ih]
      cases expandBody rest σ q gs <;> simp
    | call nm ps' qs' =>
      simp only [stepF, bind, Except.bind, expandBody, expandG]
      cases expandCall rest nm (ps'.map (Expr.subst σ)) (qs'.map q) with
      | error e => rfl
      | ok inner =>
        simp only []
        rw [ih]
        cases expandBody rest σ q gs <;> simp

/-- unfolding of `expandCall` at a non-empty list of definitions -/
theorem expandCall_cons (d : GateDef) (rest : List GateDef) (name : Str) (ps : List Expr) (qs : List Nat) :
    expandCall (d :: rest) name ps qs =
      if d.name == name then
        if d.params.length ≠ ps.length || d.qargs.length ≠ qs.length then .error .arity
        else expandBody rest (d.params.zip ps) (lookupQ (d.qargs.zip qs)) d.body
      else expandCall rest name ps qs := by
  rw [expandCall]
  split
  · split
    · rfl
    · have := foldlM_expand rest (d.params.zip ps) (lookupQ (d.qargs.zip qs)) d.body []
      simp only [List.nil_append] at this
      refine Eq.trans ?_ (this.trans ?_)
      · show List.foldlM _ [] d.body = List.foldlM (stepF rest (d.params.zip ps) (lookupQ (d.qargs.zip qs))) [] d.body
        congr 1
        funext acc g
        cases g with
        | call nm ps' qs' =>
          simp only [stepF, bind, Except.bind]
          unfold lookupQ
          generalize expandCall rest nm _ _ = r
          cases r <;> rfl
        | _ => rfl
      · cases expandBody rest (d.params.zip ps) (lookupQ (d.qargs.zip qs)) d.body <;> rfl
  · rfl

/-- definitions with another name in front of the list are not looked at -/
theorem expandCall_skip (A B : List GateDef) (name : Str) (ps : List Expr) (qs : List Nat)
    (h : ∀ d ∈ A, (d.name == name) = false) : expandCall (A ++ B) name ps qs = expandCall B name ps qs := by
  induction A with
  | nil => rfl
  | cons d ds ih =>
    rw [List.cons_append, expandCall_cons, h d (by simp)]
    simpa using ih (fun x hx => h x (by simp [hx]))

/-! ## well-formed definitions -/

def gopQOk (qargs : List Str) : GOp → Bool
  | .U _ _ _ x => qargs.contains x
  | .CX a b => qargs.contains a && qargs.contains b
  | .call _ _ qs => qs.all qargs.contains
  | .barrier _ => true

def gopPOk (params : List Str) : GOp → Bool
  | .U a b c _ => a.closedIn params && b.closedIn params && c.closedIn params
  | .call _ ps _ => ps.all (Expr.closedIn params)
  | _ => true

/-- every body only mentions its own formal qubits and formal parameters, formal names distinct -/
def defWf (d : GateDef) : Bool :=
  d.body.all (gopQOk d.qargs) && d.body.all (gopPOk d.params) && decide d.params.Nodup && decide d.qargs.Nodup

/-! ## lookups in zipped lists -/

theorem find_zip_map {β γ : Type} (g : β → γ) (p : Str → Bool) :
    ∀ (ks : List Str) (vs : List β),
      ((ks.zip (vs.map g)).find? (fun e => p e.1)) = ((ks.zip vs).find? (fun e => p e.1)).map (fun e => (e.1, g e.2)) := by
  intro ks
  induction ks with
  | nil => intro vs; rfl
  | cons k ks ih =>
    intro vs
    cases vs with
    | nil => rfl
    | cons v vs =>
      simp only [List.map_cons, List.zip_cons_cons, List.find?_cons]
      cases p k
      · exact ih vs
      · rfl

theorem find_zip_isSome {β : Type} (a : Str) : ∀ (ks : List Str) (vs : List β), ks.contains a = true →
    ks.length ≤ vs.length → ((ks.zip vs).find? (fun e => e.1 == a)).isSome = true := by
  intro ks
  induction ks with
  | nil => intro vs h; simp at h
  | cons k ks ih =>
    intro vs h hl
    cases vs with
    | nil => simp at hl
    | cons v vs =>
      simp only [List.zip_cons_cons, List.find?_cons]
      cases hk : (k == a) with
      | true => rfl
      | false =>
        simp only []
        apply ih vs
        · simp only [List.contains_cons, Bool.or_eq_true] at h
          rcases h with h | h
          · have h1 : a = k := by simpa using h
            have h2 : k ≠ a := by simpa using hk
            exact absurd h1.symm h2
          · exact h
        · simpa using hl

theorem lookupQ_map (f : Nat → Nat) (ks : List Str) (vs : List Nat) (a : Str) (ha : ks.contains a = true)
    (hl : ks.length ≤ vs.length) : lookupQ (ks.zip (vs.map f)) a = f (lookupQ (ks.zip vs) a) := by
  unfold lookupQ
  rw [find_zip_map f (fun k => k == a) ks vs]
  have := find_zip_isSome a ks vs ha hl
  cases hf : (ks.zip vs).find? (fun e => e.1 == a) with
  | none => simp [hf] at this
  | some e => simp

/-! ## naturality in the qubits -/

theorem expandBody_mapQ (f : Nat → Nat) (rest : List GateDef)
    (ih : ∀ name ps qs, expandCall rest name ps (qs.map f) = (expandCall rest name ps qs).map (List.map (Prim.mapQ f)))
    (σ : List (Str × Expr)) (ks : List Str) (vs : List Nat) (hl : ks.length ≤ vs.length) :
    ∀ body : List GOp, body.all (gopQOk ks) = true →
      expandBody rest σ (lookupQ (ks.zip (vs.map f))) body =
        (expandBody rest σ (lookupQ (ks.zip vs)) body).map (List.map (Prim.mapQ f)) := by
  intro body
  induction body with
  | nil => intro _; rfl
  | cons g gs ihb =>
    intro hok
    simp only [List.all_cons, Bool.and_eq_true] at hok
    have hg : expandG rest σ (lookupQ (ks.zip (vs.map f))) g =
        (expandG rest σ (lookupQ (ks.zip vs)) g).map (List.map (Prim.mapQ f)) := by
      cases g with
      | U a b l x =>
        simp only [gopQOk] at hok
        simp [expandG, Except.map, Prim.mapQ, lookupQ_map f ks vs x hok.1 hl]
      | CX a b =>
        simp only [gopQOk, Bool.and_eq_true] at hok
        simp [expandG, Except.map, Prim.mapQ, lookupQ_map f ks vs a hok.1.1 hl, lookupQ_map f ks vs b hok.1.2 hl]
      | barrier qs => rfl
      | call nm ps' qs' =>
        simp only [gopQOk, List.all_eq_true] at hok
        simp only [expandG]
        have : qs'.map (lookupQ (ks.zip (vs.map f))) = (qs'.map (lookupQ (ks.zip vs))).map f := by
          rw [List.map_map]
          apply List.map_congr_left
          intro a ha
          exact lookupQ_map f ks vs a (hok.1 a ha) hl
        rw [this, ih]
    simp only [expandBody, hg, ihb hok.2]
    cases expandG rest σ (lookupQ (ks.zip vs)) g with
    | error e => rfl
    | ok a =>
      cases expandBody rest σ (lookupQ (ks.zip vs)) gs with
      | error e => rfl
      | ok b => simp [Except.map]

/-- **naturality in the qubit arguments** -/
theorem expandCall_mapQ (f : Nat → Nat) : ∀ (gates : List GateDef), gates.all defWf = true →
    ∀ name ps qs, expandCall gates name ps (qs.map f) = (expandCall gates name ps qs).map (List.map (Prim.mapQ f)) := by
  intro gates
  induction gates with
  | nil => intro _ name ps qs; rfl
  | cons d rest ih =>
    intro hwf name ps qs
    simp only [List.all_cons, Bool.and_eq_true] at hwf
    have ih' := ih hwf.2
    rw [expandCall_cons, expandCall_cons]
    by_cases hn : (d.name == name) = true
    · simp only [hn, if_true, List.length_map]
      split
      · rfl
      · rename_i har
        have hq : d.qargs.length ≤ qs.length := by
          simp only [Bool.or_eq_true, bne_iff_ne, ne_eq, decide_eq_true_eq, not_or, Decidable.not_not] at har
          omega
        have hb : d.body.all (gopQOk d.qargs) = true := by
          simp only [defWf, Bool.and_eq_true] at hwf
          exact hwf.1.1.1.1
        exact expandBody_mapQ f rest ih' _ d.qargs qs hq d.body hb
    · simp only [hn, Bool.false_eq_true, if_false]
      exact ih' name ps qs

/-! ## naturality in the parameters -/

theorem subst_zip_subst (τ : List (Str × Expr)) (ks : List Str) (es : List Expr) (hl : ks.length ≤ es.length) :
    ∀ a : Expr, a.closedIn ks = true →
      a.subst (ks.zip (es.map (Expr.subst τ))) = (a.subst (ks.zip es)).subst τ := by
  intro a
  induction a with
  | id s =>
    intro hc
    simp only [Expr.closedIn] at hc
    simp only [Expr.subst]
    rw [find_zip_map (Expr.subst τ) (fun k => k == s) ks es]
    have := find_zip_isSome s ks es hc hl
    cases hf : (ks.zip es).find? (fun e => e.1 == s) with
    | none => simp [hf] at this
    | some e => simp
  | pi => intro _; rfl
  | lit s => intro _; rfl
  | neg e ih => intro hc; simp only [Expr.closedIn] at hc; simp [Expr.subst, ih hc]
  | fn f e ih => intro hc; simp only [Expr.closedIn] at hc; simp [Expr.subst, ih hc]
  | add a b iha ihb | sub a b iha ihb | mul a b iha ihb | div a b iha ihb | pow a b iha ihb =>
    intro hc
    simp only [Expr.closedIn, Bool.and_eq_true] at hc
    simp [Expr.subst, iha hc.1, ihb hc.2]

theorem expandBody_substP (τ : List (Str × Expr)) (rest : List GateDef)
    (ih : ∀ name ps qs, expandCall rest name (ps.map (Expr.subst τ)) qs =
      (expandCall rest name ps qs).map (List.map (Prim.substP τ)))
    (q : Str → Nat) (ks : List Str) (es : List Expr) (hl : ks.length ≤ es.length) :
    ∀ body : List GOp, body.all (gopPOk ks) = true →
      expandBody rest (ks.zip (es.map (Expr.subst τ))) q body =
        (expandBody rest (ks.zip es) q body).map (List.map (Prim.substP τ)) := by
  intro body
  induction body with
  | nil => intro _; rfl
  | cons g gs ihb =>
    intro hok
    simp only [List.all_cons, Bool.and_eq_true] at hok
    have hg : expandG rest (ks.zip (es.map (Expr.subst τ))) q g =
        (expandG rest (ks.zip es) q g).map (List.map (Prim.substP τ)) := by
      cases g with
      | U a b l x =>
        simp only [gopPOk, Bool.and_eq_true] at hok
        simp [expandG, Except.map, Prim.substP, subst_zip_subst τ ks es hl a hok.1.1.1,
          subst_zip_subst τ ks es hl b hok.1.1.2, subst_zip_subst τ ks es hl l hok.1.2]
      | CX a b => rfl
      | barrier qs => rfl
      | call nm ps' qs' =>
        simp only [gopPOk, List.all_eq_true] at hok
        simp only [expandG]
        have : ps'.map (Expr.subst (ks.zip (es.map (Expr.subst τ)))) =
            (ps'.map (Expr.subst (ks.zip es))).map (Expr.subst τ) := by
          rw [List.map_map]
          apply List.map_congr_left
          intro a ha
          exact subst_zip_subst τ ks es hl a (hok.1 a ha)
        rw [this, ih]
    simp only [expandBody, hg, ihb hok.2]
    cases expandG rest (ks.zip es) q g with
    | error e => rfl
    | ok a =>
      cases expandBody rest (ks.zip es) q gs with
      | error e => rfl
      | ok b => simp [Except.map]

/-- **naturality in the parameter expressions** -/
theorem expandCall_substP (τ : List (Str × Expr)) : ∀ (gates : List GateDef), gates.all defWf = true →
    ∀ name ps qs, expandCall gates name (ps.map (Expr.subst τ)) qs =
      (expandCall gates name ps qs).map (List.map (Prim.substP τ)) := by
  intro gates
  induction gates with
  | nil => intro _ name ps qs; rfl
  | cons d rest ih =>
    intro hwf name ps qs
    simp only [List.all_cons, Bool.and_eq_true] at hwf
    have ih' := ih hwf.2
    rw [expandCall_cons, expandCall_cons]
    by_cases hn : (d.name == name) = true
    · simp only [hn, if_true, List.length_map]
      split
      · rfl
      · rename_i har
        have hp : d.params.length ≤ ps.length := by
          simp only [Bool.or_eq_true, bne_iff_ne, ne_eq, decide_eq_true_eq, not_or, Decidable.not_not] at har
          omega
        have hb : d.body.all (gopPOk d.params) = true := by
          simp only [defWf, Bool.and_eq_true] at hwf
          exact hwf.1.1.1.2
        exact expandBody_substP τ rest ih' _ d.params ps hp d.body hb
    · simp only [hn, Bool.false_eq_true, if_false]
      exact ih' name ps qs

/-! ## every call is an instance of the generic expansion -/

theorem map_id_subst_zip (ks : List Str) (hn : ks.Nodup) : ∀ (es : List Expr), ks.length = es.length →
    (ks.map Expr.id).map (Expr.subst (ks.zip es)) = es := by
  induction ks with
  | nil => intro es h; cases es <;> simp_all
  | cons k ks ih =>
    intro es h
    cases es with
    | nil => simp at h
    | cons e es =>
      have hnd := List.nodup_cons.mp hn
      have h' : ks.length = es.length := by simpa using h
      show Expr.subst ((k, e) :: ks.zip es) (Expr.id k) ::
        ((ks.map Expr.id).map (Expr.subst ((k, e) :: ks.zip es))) = e :: es
      congr 1
      · simp [Expr.subst]
      · refine Eq.trans ?_ (ih hnd.2 es h')
        rw [List.map_map, List.map_map]
        apply List.map_congr_left
        intro a ha
        have hne : (k == a) = false := by
          have : k ≠ a := fun e => hnd.1 (e ▸ ha)
          simpa using this
        simp [Function.comp, Expr.subst, List.find?_cons, hne]

theorem range_map_getD (qs : List Nat) : (List.range qs.length).map (fun i => qs.getD i 0) = qs := by
  apply List.ext_getElem
  · simp
  · intro i h1 h2
    simp [List.getD_eq_getElem?_getD, List.getElem?_eq_getElem h2]

/-- **instantiation**: a call with matching arity is the generic expansion of the definition —
formal parameters as identifiers, local qubits `0 … k−1` — with the actual parameters substituted
and the local qubits renamed to the actual ones -/
theorem expandCall_instance (gates : List GateDef) (hwf : gates.all defWf = true) (d : GateDef)
    (hd : gates.find? (fun x => x.name == name) = some d) (ps : List Expr) (qs : List Nat)
    (hp : d.params.length = ps.length) (hq : d.qargs.length = qs.length) :
    expandCall gates name ps qs =
      (expandCall gates name (d.params.map Expr.id) (List.range d.qargs.length)).map
        (List.map (fun p => Prim.mapQ (fun i => qs.getD i 0) (Prim.substP (d.params.zip ps) p))) := by
  have hdwf : defWf d = true := List.all_eq_true.mp hwf d (List.mem_of_find?_eq_some hd)
  simp only [defWf, Bool.and_eq_true, decide_eq_true_eq] at hdwf
  have e1 : ps = (d.params.map Expr.id).map (Expr.subst (d.params.zip ps)) :=
    (map_id_subst_zip d.params hdwf.1.2 ps hp).symm
  have e2 : qs = (List.range d.qargs.length).map (fun i => qs.getD i 0) := by
    rw [hq]; exact (range_map_getD qs).symm
  have e3 : expandCall gates name ps qs =
      expandCall gates name ((d.params.map Expr.id).map (Expr.subst (d.params.zip ps)))
        ((List.range d.qargs.length).map (fun i => qs.getD i 0)) := by rw [← e1, ← e2]
  rw [e3, expandCall_mapQ _ gates hwf, expandCall_substP _ gates hwf]
  cases expandCall gates name (d.params.map Expr.id) (List.range d.qargs.length) with
  | error e => rfl
  | ok l => simp [Except.map, List.map_map]

end QipVerif.Qasm
