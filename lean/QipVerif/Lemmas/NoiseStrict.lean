import QipVerif.Lemmas.NoiseVal
/-! The variant of `_T_to_list` that checks every entry of a list (fixes/C15-3.patch): which inputs it
rejects, that it agrees with the shipped code wherever it accepts, and that it never lets a
non-finite prefactor through (C15). Core Lean only. -/
namespace QipVerif.Noise

theorem tToListS_false (T : TSpec) (N : Nat) : tToListS false T N = tToList T N := by
  cases T <;> simp [tToListS, tToList]

/-- every entry is `None` or has a positive numerator -/
def EntriesOk (l : List (Option Frac)) : Prop := ∀ x ∈ l, ∀ a, x = some a → 0 < a.n

theorem entriesPos_iff (l : List (Option Frac)) : entriesPos l = true ↔ EntriesOk l := by
  simp only [entriesPos, List.all_eq_true, EntriesOk]
  constructor
  · intro h x hx a ha
    have := h x hx
    subst ha
    simpa [Frac.isPos] using this
  · intro h x hx
    cases x with
    | none => rfl
    | some a => simpa [Frac.isPos] using h _ hx a rfl

/-- whatever the strict `_T_to_list` accepts, the shipped one accepts with the same result -/
theorem tToListS_ok (strict : Bool) (T : TSpec) (N : Nat) (l : List (Option Frac))
    (h : tToListS strict T N = .ok l) : tToList T N = .ok l := by
  cases T with
  | none => simpa [tToListS] using h
  | scalar q => simpa [tToListS] using h
  | list l' =>
    simp only [tToListS] at h
    by_cases hl : l'.length = N
    · simp only [hl, ↓reduceIte] at h
      by_cases hs : (strict && !entriesPos l') = true
      · simp [hs] at h
      · simp only [hs, Bool.false_eq_true, ↓reduceIte] at h
        simpa [tToList, hl] using h
    · simp [hl] at h

/-- the lists the strict `_T_to_list` returns have only `None` or positive entries -/
theorem tToListS_entries (T : TSpec) (N : Nat) (l : List (Option Frac))
    (h : tToListS true T N = .ok l) : EntriesOk l := by
  cases T with
  | none =>
    simp only [tToListS, tToList] at h
    injection h with h; subst h
    intro x hx a ha
    rw [List.eq_of_mem_replicate hx] at ha; cases ha
  | scalar q =>
    simp only [tToListS, tToList] at h
    by_cases hq : q.isPos = true
    · simp only [hq, ↓reduceIte] at h
      injection h with h; subst h
      intro x hx a ha
      rw [List.eq_of_mem_replicate hx] at ha
      injection ha with ha; subst ha
      simpa [Frac.isPos] using hq
    · simp [hq] at h
  | list l' =>
    simp only [tToListS] at h
    by_cases hl : l'.length = N
    · simp only [hl, ↓reduceIte, Bool.true_and] at h
      by_cases hp : entriesPos l' = true
      · simp only [hp, Bool.not_true, Bool.false_eq_true, ↓reduceIte] at h
        injection h with h; subst h
        exact (entriesPos_iff _).mp hp
      · simp [hp] at h
    · simp [hl] at h

/-- with `None` or positive times one subsystem never gets a non-finite prefactor -/
theorem qubitOps_rates (fixed : Bool) (dim q : Nat) (t1 t2 : Option Frac)
    (h1 : ∀ a, t1 = some a → 0 < a.n) (h2 : ∀ b, t2 = some b → 0 < b.n) (ops : List COp)
    (h : qubitOps fixed dim q t1 t2 = .ok ops) : ∀ c ∈ ops, c.rate ≠ none := by
  cases t1 with
  | none =>
    cases t2 with
    | none => rw [qubitOps_none] at h; injection h with h; subst h; simp
    | some b =>
      rw [qubitOps_t2_only fixed dim q b (h2 b rfl)] at h
      injection h with h; subst h; simp
  | some a =>
    have ha := h1 a rfl
    cases t2 with
    | none =>
      rw [qubitOps_t1_only fixed dim q a ha] at h
      injection h with h; subst h; simp
    | some b =>
      have hb := h2 b rfl
      rcases Int.lt_trichotomy (delta a b) 0 with hd | hd | hd
      · rw [qubitOps_lt fixed dim q a b hd] at h; cases h
      · rw [qubitOps_eq fixed dim q a b ha hb hd] at h
        cases fixed
        · simp at h
        · simp only [↓reduceIte] at h; injection h with h; subst h; simp
      · rw [qubitOps_gt fixed dim q a b ha hb hd] at h
        injection h with h; subst h; simp

theorem loopTargets_rates (fixed : Bool) (dims : List Nat) (l1 l2 : List (Option Frac))
    (h1 : EntriesOk l1) (h2 : EntriesOk l2) (tg : List Nat) (ops : List COp)
    (h : loopTargets fixed dims l1 l2 tg = .ok ops) : ∀ c ∈ ops, c.rate ≠ none := by
  induction tg generalizing ops with
  | nil => simp only [loopTargets] at h; injection h with h; subst h; simp
  | cons q qs ih =>
    unfold loopTargets at h
    split at h
    · rename_i a b d ha hb hd
      split at h
      · cases h
      · rename_i ops1 hq
        split at h
        · cases h
        · rename_i rest hr
          injection h with h; subst h
          intro c hc
          rcases List.mem_append.mp hc with hc | hc
          · exact qubitOps_rates fixed d q a b
              (fun x hx => h1 a (List.mem_of_getElem? ha) x hx)
              (fun y hy => h2 b (List.mem_of_getElem? hb) y hy) ops1 hq c hc
          · exact ih rest hr c hc
    · cases h

end QipVerif.Noise
