import QipVerif.Lemmas.SimIdeal
import QipVerif.Lemmas.EmbedAlg
/-!
# Gates placed with `Tg.embed` (C08's specification) preserve the norm when the small operator is unitary
-/
namespace QipVerif.Sim
open Matrix

theorem embed_conjTranspose' {k N : ℕ} (t : Tg k N) (U : Matrix (St k) (St k) ℂ) :
    (t.embed U)ᴴ = t.embed Uᴴ := by
  ext x y
  rw [Matrix.conjTranspose_apply, Tg.embed_apply, Tg.embed_apply, Matrix.conjTranspose_apply]
  by_cases h : ∀ i, i ∉ Set.range t.f → y i = x i
  · rw [if_pos h, if_pos (fun i hi => (h i hi).symm)]; simp
  · rw [if_neg h, if_neg (fun h' => h (fun i hi => (h' i hi).symm))]; simp

/-- the `N`-qubit operator of a unitary `U` placed on any injective qubit list is unitary -/
theorem embed_unitary' {k N : ℕ} (t : Tg k N) (U : Matrix (St k) (St k) ℂ) (h : Uᴴ * U = 1) :
    (t.embed U)ᴴ * t.embed U = 1 := by
  rw [embed_conjTranspose', ← Tg.embed_mul, h, Tg.embed_one]

/-- … and therefore preserves `‖·‖²`: the hypothesis `hU` of `branch_prob` holds for every gate that is the
placement of a unitary -/
theorem embed_preserves_norm {k N : ℕ} (t : Tg k N) (U : Matrix (St k) (St k) ℂ) (h : Uᴴ * U = 1) (ψ : Vec N) :
    normSqV ((t.embed U : Matrix (Basis N) (Basis N) ℂ).mulVec ψ) = normSqV ψ :=
  unitary_isometry (t.embed U) (embed_unitary' t U h) ψ

end QipVerif.Sim
