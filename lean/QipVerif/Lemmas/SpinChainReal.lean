import QipVerif.Model.SpinChain
import QipVerif.Lemmas.GateC
import Mathlib.Data.Real.Sign
/-!
# C06: the generated formulas of the spin-chain compiler over ℝ; pulse calibration

`Arith ℝ` instantiates the regenerated formulas (`Gen.SC.rotArea`, `pulseCoeff`, `pulseDur`, `ctl*_coef`)
with real arithmetic and `Real.pi`.

**Trusted analytic facts, used as definitions** (DESIGN §4): the ideal propagator of a segment on which a
control Hamiltonian `c·P` is driven with the constant coefficient `u` for the time `T` is `exp(−i·φ·P)`,
`φ = u·T·c`, and

* for `P² = 1`:        `exp(−iφP) = cos φ · 1 − i sin φ · P`                                  (`segProp`)
* for `P = XX + YY`:   identity on `|00⟩, |11⟩`, `[[cos 2φ, −i sin 2φ], [−i sin 2φ, cos 2φ]]` on
                       `|01⟩, |10⟩`                                                            (`exchProp`)

Both are one-parameter groups (`segProp_add`, `exchProp_add`) with value `1` at `φ = 0`.
-/
namespace QipVerif.SpinChain
open QipVerif QipVerif.Gen QipVerif.Gen.SC Matrix Complex

noncomputable instance instArithReal : Arith ℝ where
  add := (· + ·)
  sub := (· - ·)
  mul := (· * ·)
  div := (· / ·)
  neg := fun x => -x
  abs := fun x => |x|
  sign := Real.sign
  ofFrac := fun n d => (n : ℝ) / (d : ℝ)
  isZero := fun x => @decide (x = 0) (Classical.propDecidable _)

theorem isZero_iff (x : ℝ) : Arith.isZero x = true ↔ x = 0 := by
  show @decide (x = 0) (Classical.propDecidable _) = true ↔ x = 0
  simp

/-- the Pauli matrices named by the generated tables -/
noncomputable def pauliMat : Pauli → Matrix (Fin 2) (Fin 2) ℂ
  | .x => G.x_gate_
  | .y => G.y_gate_
  | .z => G.z_gate_

/-- ideal propagator `exp(−iφP)` of a constant segment for `P² = 1` (trusted closed form) -/
noncomputable def segProp (P : Matrix (Fin 2) (Fin 2) ℂ) (φ : ℝ) : Matrix (Fin 2) (Fin 2) ℂ :=
  (Real.cos φ : ℂ) • (1 : Matrix (Fin 2) (Fin 2) ℂ) - (Complex.I * (Real.sin φ : ℂ)) • P

/-- ideal propagator `exp(−iφ(XX+YY))` of a constant segment (trusted closed form) -/
noncomputable def exchProp (φ : ℝ) : Matrix (Fin 4) (Fin 4) ℂ :=
  !![1, 0, 0, 0;
     0, (Real.cos (2 * φ) : ℂ), -Complex.I * (Real.sin (2 * φ) : ℂ), 0;
     0, -Complex.I * (Real.sin (2 * φ) : ℂ), (Real.cos (2 * φ) : ℂ), 0;
     0, 0, 0, 1]

theorem sign_mul_abs (a : ℝ) : Real.sign a * |a| = a := by
  rcases lt_trichotomy a 0 with h | h | h
  · rw [Real.sign_of_neg h, abs_of_neg h]; ring
  · subst h; simp
  · rw [Real.sign_of_pos h, abs_of_pos h]; ring

/-- **area of the rectangular pulse**: coefficient × duration = area, for every strength `Ω ≠ 0` -/
theorem pulse_area (Ω a : ℝ) (hΩ : Ω ≠ 0) : pulseCoeff Ω a * pulseDur Ω a = a := by
  have h : |Ω| ≠ 0 := abs_ne_zero.mpr hΩ
  show (1 : ℤ) / (1 : ℕ) * (|Ω| * Real.sign a) * ((1 : ℤ) / (1 : ℕ) * (|a| / |Ω|)) = a
  have := sign_mul_abs a
  field_simp
  push_cast
  linarith [this]

/-- the pulse of a zero area has zero duration -/
theorem pulse_dur_zero (Ω : ℝ) : pulseDur Ω (0 : ℝ) = 0 := by
  show (1 : ℤ) / (1 : ℕ) * (|(0 : ℝ)| / |Ω|) = 0
  simp

/-- the duration is never negative -/
theorem pulse_dur_nonneg (Ω a : ℝ) : 0 ≤ pulseDur Ω a := by
  show 0 ≤ ((1 : ℤ) : ℝ) / ((1 : ℕ) : ℝ) * (|a| / |Ω|)
  have : 0 ≤ |a| / |Ω| := div_nonneg (abs_nonneg a) (abs_nonneg Ω)
  simpa using this

/-- the rotation area: `θ/(4π)` -/
theorem rotArea_eq (θ : ℝ) : rotArea Real.pi θ = θ / (4 * Real.pi) := by
  show θ / ((2 : ℤ) / (1 : ℕ)) / Real.pi * ((1 : ℤ) / (2 : ℕ)) = θ / (4 * Real.pi)
  have := Real.pi_ne_zero
  field_simp
  push_cast
  ring

theorem ctlA_coef_eq : ctlA_coef Real.pi = 2 * Real.pi := by
  show ((2 : ℤ) : ℝ) / ((1 : ℕ) : ℝ) * Real.pi = 2 * Real.pi
  push_cast; ring
theorem ctlB_coef_eq : ctlB_coef Real.pi = 2 * Real.pi := by
  show ((2 : ℤ) : ℝ) / ((1 : ℕ) : ℝ) * Real.pi = 2 * Real.pi
  push_cast; ring
theorem ctlG_coef_eq : ctlG_coef Real.pi = 2 * Real.pi := by
  show ((2 : ℤ) : ℝ) / ((1 : ℕ) : ℝ) * Real.pi = 2 * Real.pi
  push_cast; ring

/-- phase angle of a rotation pulse: `u·T·c = θ/2` -/
theorem rot_phase (θ Ω c : ℝ) (hΩ : Ω ≠ 0) (hc : c = 2 * Real.pi) :
    pulseCoeff Ω (rotArea Real.pi θ) * pulseDur Ω (rotArea Real.pi θ) * c = θ / 2 := by
  rw [pulse_area Ω _ hΩ, rotArea_eq, hc]
  have := Real.pi_ne_zero
  field_simp
  ring

theorem ofReal_cos_half (θ : ℝ) : ((Real.cos (θ / 2) : ℝ) : ℂ) = GateC.hc θ := by
  unfold GateC.hc; rw [Complex.ofReal_cos]; push_cast; rfl
theorem ofReal_sin_half (θ : ℝ) : ((Real.sin (θ / 2) : ℝ) : ℂ) = GateC.hs θ := by
  unfold GateC.hs; rw [Complex.ofReal_sin]; push_cast; rfl

theorem segProp_x (θ : ℝ) : segProp G.x_gate_ (θ / 2) = G.rx_ θ := by
  rw [GateC.rx_eq, segProp, ofReal_cos_half, ofReal_sin_half]
  ext i j
  fin_cases i <;> fin_cases j <;> simp [G.x_gate_]

theorem segProp_z (θ : ℝ) : segProp G.z_gate_ (θ / 2) = G.rz_ θ := by
  rw [GateC.rz_eq, segProp, ofReal_cos_half, ofReal_sin_half]
  ext i j
  fin_cases i <;> fin_cases j <;> simp [G.z_gate_]

/-- the closed form is a one-parameter group (sanity of the trusted definition) -/
theorem segProp_zero (P : Matrix (Fin 2) (Fin 2) ℂ) : segProp P 0 = 1 := by
  simp [segProp]

theorem segProp_add (P : Matrix (Fin 2) (Fin 2) ℂ) (hP : P * P = 1) (φ ψ : ℝ) :
    segProp P (φ + ψ) = segProp P φ * segProp P ψ := by
  simp only [segProp, Real.cos_add, Real.sin_add]
  simp only [Matrix.sub_mul, Matrix.mul_sub, Matrix.smul_mul, Matrix.mul_smul, Matrix.one_mul, Matrix.mul_one, hP,
    smul_sub, smul_smul]
  have hI : Complex.I * Complex.I = -1 := Complex.I_mul_I
  push_cast
  ext i j
  simp only [Matrix.sub_apply, Matrix.smul_apply, smul_eq_mul]
  linear_combination (-(Complex.sin (φ : ℂ) * Complex.sin (ψ : ℂ) * (1 : Matrix (Fin 2) (Fin 2) ℂ) i j)) * hI

theorem segProp_comm (P : Matrix (Fin 2) (Fin 2) ℂ) (hP : P * P = 1) (φ ψ : ℝ) :
    segProp P φ * segProp P ψ = segProp P ψ * segProp P φ := by
  rw [← segProp_add P hP, ← segProp_add P hP, add_comm]

theorem exchProp_zero : exchProp 0 = 1 := by
  ext i j
  fin_cases i <;> fin_cases j <;> simp [exchProp]

theorem exchProp_add (φ ψ : ℝ) : exchProp (φ + ψ) = exchProp φ * exchProp ψ := by
  have hI : Complex.I * Complex.I = -1 := Complex.I_mul_I
  ext i j
  fin_cases i <;> fin_cases j <;>
    simp [exchProp, Matrix.mul_apply, Fin.sum_univ_four, mul_add, Real.cos_add, Real.sin_add] <;>
    (first | ring1 | linear_combination (-(Complex.sin (2 * (φ : ℂ)) * Complex.sin (2 * (ψ : ℂ)))) * hI)

theorem exchProp_comm (φ ψ : ℝ) : exchProp φ * exchProp ψ = exchProp ψ * exchProp φ := by
  rw [← exchProp_add, ← exchProp_add, add_comm]

/-- phase angle of an exchange pulse of area `a`: `u·T·c = 2π·a` -/
theorem exch_phase (a g c : ℝ) (hg : g ≠ 0) (hc : c = 2 * Real.pi) :
    pulseCoeff g a * pulseDur g a * c = 2 * Real.pi * a := by
  rw [pulse_area g _ hg, hc]; ring

theorem exchProp_iswap : exchProp (2 * Real.pi * (((-1 : ℤ) : ℝ) / ((8 : ℕ) : ℝ))) = G.iswap_ := by
  have e : 2 * (2 * Real.pi * (((-1 : ℤ) : ℝ) / ((8 : ℕ) : ℝ))) = -(Real.pi / 2) := by push_cast; ring
  unfold exchProp
  rw [e, Real.cos_neg, Real.sin_neg, Real.cos_pi_div_two, Real.sin_pi_div_two]
  ext i j
  fin_cases i <;> fin_cases j <;> simp [G.iswap_]

theorem exchProp_sqrtiswap : exchProp (2 * Real.pi * (((-1 : ℤ) : ℝ) / ((16 : ℕ) : ℝ))) = G.sqrtiswap_ := by
  have e : 2 * (2 * Real.pi * (((-1 : ℤ) : ℝ) / ((16 : ℕ) : ℝ))) = -(Real.pi / 4) := by push_cast; ring
  have hs : (Real.sqrt 2 : ℝ) ≠ 0 := by positivity
  have hsc : ((Real.sqrt 2 : ℝ) : ℂ) ≠ 0 := by exact_mod_cast hs
  have h2 : ((Real.sqrt 2 : ℝ) : ℂ) * ((Real.sqrt 2 : ℝ) : ℂ) = 2 := by
    rw [← Complex.ofReal_mul, Real.mul_self_sqrt (by norm_num)]; norm_num
  unfold exchProp
  rw [e, Real.cos_neg, Real.sin_neg, Real.cos_pi_div_four, Real.sin_pi_div_four]
  ext i j
  fin_cases i <;> fin_cases j <;> simp [G.sqrtiswap_] <;> field_simp <;> linear_combination (1:ℂ) * h2

end QipVerif.SpinChain
