import QipVerif.Lemmas.QasmExportLocal
import QipVerif.Lemmas.QasmImportFaithful
/-!
# Per-gate soundness of the importer's shortcuts on the embedding algebra (C04)

For every `qelib1.inc` gate: (S) what `_add_qiskit_gates` adds for one resolved instance — library gate,
controls and targets (together the call's qubits, in order), argument, classical controls; (M) the
generic expansion of the qelib1 body on its local qubits equals, for all parameter values and up to one
phase, the compact matrix `compactX` of that library gate.  Generated from the table; the matrix
identities are `shortcut_*` of Lemmas/QasmMat*.lean transported by Lemmas/QasmBridge*.lean.
-/
namespace QipVerif.Qasm.Import
open QipVerif QipVerif.Qasm QipVerif.Qasm.Export Matrix

/-- library / user gate name ↦ name of the circuit IR (user gates: `GName.other`) -/
def gnameI (n : Str) : GName :=
  if n == cs!"QASMU" then .QASMU else if n == cs!"RX" then .RX else if n == cs!"RY" then .RY
  else if n == cs!"RZ" then .RZ else if n == cs!"SNOT" then .SNOT else if n == cs!"X" then .X
  else if n == cs!"Y" then .Y else if n == cs!"Z" then .Z else if n == cs!"S" then .S
  else if n == cs!"T" then .T else if n == cs!"CNOT" then .CNOT else if n == cs!"CZ" then .CZ
  else if n == cs!"CY" then .CY else if n == cs!"CRZ" then .CRZ else if n == cs!"CPHASE" then .CPHASE
  else if n == cs!"TOFFOLI" then .TOFFOLI else .other (String.ofList n)

/-- real arguments of an imported gate -/
noncomputable def argsOfI : IArg → List ℝ
  | .none => []
  | .one e => [e.eval ρ0]
  | .many es => es.map (fun e => e.eval ρ0)

theorem argsOfI_normArgs (es : List Expr) : argsOfI (normArgs es) = es.map (fun e => e.eval ρ0) := by
  match es with
  | [] => rfl
  | [e] => rfl
  | e1 :: e2 :: r => rfl

/-- the imported gate as a gate of the specification `denX` -/
noncomputable def xOfI (g : IGate) : XGate := ⟨gnameI g.name, g.controls.getD [] ++ g.targets, argsOfI g.arg⟩

/-! user gates of `_get_qiskit_gates` -/

theorem snot_eq : Gen.G.snot_ = Hm := by
  unfold Gen.G.snot_ Hm
  ext i j
  fin_cases i <;> fin_cases j <;> simp

theorem cx_sdg : compactX (gnameI cs!"sdg") [] = some ⟨1, mat1 (RZm (-(Real.pi / 2)))⟩ := by
  have : gnameI cs!"sdg" = .other "sdg" := by decide
  rw [this]
  show userGateX "sdg" [] = _
  unfold userGateX
  rw [if_neg (by decide), if_pos rfl, rz_eq]
  congr 3; ring

theorem cx_tdg : compactX (gnameI cs!"tdg") [] = some ⟨1, mat1 (RZm (-(Real.pi / 4)))⟩ := by
  have : gnameI cs!"tdg" = .other "tdg" := by decide
  rw [this]
  show userGateX "tdg" [] = _
  unfold userGateX
  rw [if_neg (by decide), if_neg (by decide), if_pos rfl, rz_eq]
  congr 3; ring

theorem cx_u2 (φ l : ℝ) : compactX (gnameI cs!"u2") [φ, l] = some ⟨1, mat1 (QASMUm (Real.pi / 2) φ l)⟩ := by
  have : gnameI cs!"u2" = .other "u2" := by decide
  rw [this, qasmu_eq]
  simp [compactX, userGateX]

theorem cx_u3 (θ φ l : ℝ) : compactX (gnameI cs!"QASMU") [θ, φ, l] = some ⟨1, mat1 (QASMUm θ φ l)⟩ := by
  have : gnameI cs!"QASMU" = .QASMU := by decide
  rw [this, qasmu_eq]
  simp [compactX]

theorem cx_ch : compactX (gnameI cs!"ch") [] = some ⟨2, m2 (ctrl Hm)⟩ := by
  have : gnameI cs!"ch" = .other "ch" := by decide
  rw [this, ← ctrl1_eq, ← snot_eq]
  simp [compactX, userGateX]

theorem cx_cu3 (θ φ l : ℝ) : compactX (gnameI cs!"cu3") [θ, φ, l] = some ⟨2, m2 (ctrl (QASMUm θ φ l))⟩ := by
  have : gnameI cs!"cu3" = .other "cu3" := by decide
  rw [this, ← ctrl1_eq, qasmu_eq]
  simp [compactX, userGateX]

/-- **soundness of one shortcut** -/
def ImportSound (n : Str) : Prop :=
  ∃ d k lib, qelib1.reverse.find? (fun x => x.name == n) = some d ∧ d.qargs.length = k ∧
    -- (S) what the importer adds for one resolved instance
    (∀ (t : List Nat) (es : List Expr) (cc : Option (List Nat)) (cv : Option Nat),
      t.length = k → es.length = d.params.length → cvBad cc cv = false →
      ∃ g, addPredefined n t es cc cv = .ok [g] ∧ g.name = lib ∧ g.cctrl = cc ∧ g.cval = cv ∧
        g.controls.getD [] ++ g.targets = t ∧ argsOfI g.arg = es.map (fun e => e.eval ρ0)) ∧
    -- (M) the standard's body is the library gate
    (∀ vals : List ℝ, vals.length = d.params.length →
      ∃ prims0 M U, expandCall qelib1.reverse n (d.params.map Expr.id) (List.range k) = .ok prims0 ∧
        denPrims k (envOf (d.params.zip vals)) prims0 = some M ∧
        compactX (gnameI lib) vals = some ⟨k, U⟩ ∧ PhaseEqN M U)

theorem is_x : ImportSound cs!"x" := by
  refine ⟨_, 1, cs!"X", rfl, rfl, ?_, ?_⟩
  · intro t es cc cv ht hes hcv
    match t, ht, es, hes with
    | [a], _, [], _ =>
      have hs : sigOf cs!"x" = some (0, 1) := by decide
      have hr : Gen.shortcutRows.find? (fun r => r.1 == cs!"x") = some (cs!"x", cs!"X", .one 0, .none, true) := by decide
      refine ⟨⟨cs!"X", [a], none, normArgs [], cc, cv⟩, ?_, rfl, rfl, rfl, rfl, ?_⟩
      · simp [addPredefined, hs, hr, selTargets, hcv, normArgs] <;> decide
      · simp [argsOfI, normArgs]
  · intro vals hv
    match vals, hv with
    | [], _ =>
      exact ⟨ps_x, mat1 (den1 _ ps_x), _, by decide, denPrims_one _ _ (by decide), compactC_X 0,
        PhaseEq.toN1 (phase_of_shortcut (shortcut_x) expand_x)⟩

theorem is_y : ImportSound cs!"y" := by
  refine ⟨_, 1, cs!"Y", rfl, rfl, ?_, ?_⟩
  · intro t es cc cv ht hes hcv
    match t, ht, es, hes with
    | [a], _, [], _ =>
      have hs : sigOf cs!"y" = some (0, 1) := by decide
      have hr : Gen.shortcutRows.find? (fun r => r.1 == cs!"y") = some (cs!"y", cs!"Y", .one 0, .none, true) := by decide
      refine ⟨⟨cs!"Y", [a], none, normArgs [], cc, cv⟩, ?_, rfl, rfl, rfl, rfl, ?_⟩
      · simp [addPredefined, hs, hr, selTargets, hcv, normArgs] <;> decide
      · simp [argsOfI, normArgs]
  · intro vals hv
    match vals, hv with
    | [], _ =>
      exact ⟨ps_y, mat1 (den1 _ ps_y), _, by decide, denPrims_one _ _ (by decide), compactC_Y 0,
        PhaseEq.toN1 (phase_of_shortcut (shortcut_y) expand_y)⟩

theorem is_z : ImportSound cs!"z" := by
  refine ⟨_, 1, cs!"Z", rfl, rfl, ?_, ?_⟩
  · intro t es cc cv ht hes hcv
    match t, ht, es, hes with
    | [a], _, [], _ =>
      have hs : sigOf cs!"z" = some (0, 1) := by decide
      have hr : Gen.shortcutRows.find? (fun r => r.1 == cs!"z") = some (cs!"z", cs!"Z", .one 0, .none, true) := by decide
      refine ⟨⟨cs!"Z", [a], none, normArgs [], cc, cv⟩, ?_, rfl, rfl, rfl, rfl, ?_⟩
      · simp [addPredefined, hs, hr, selTargets, hcv, normArgs] <;> decide
      · simp [argsOfI, normArgs]
  · intro vals hv
    match vals, hv with
    | [], _ =>
      exact ⟨ps_z, mat1 (den1 _ ps_z), _, by decide, denPrims_one _ _ (by decide), compactC_Z 0,
        PhaseEq.toN1 (phase_of_shortcut (shortcut_z) expand_z)⟩

theorem is_h : ImportSound cs!"h" := by
  refine ⟨_, 1, cs!"SNOT", rfl, rfl, ?_, ?_⟩
  · intro t es cc cv ht hes hcv
    match t, ht, es, hes with
    | [a], _, [], _ =>
      have hs : sigOf cs!"h" = some (0, 1) := by decide
      have hr : Gen.shortcutRows.find? (fun r => r.1 == cs!"h") = some (cs!"h", cs!"SNOT", .one 0, .none, true) := by decide
      refine ⟨⟨cs!"SNOT", [a], none, normArgs [], cc, cv⟩, ?_, rfl, rfl, rfl, rfl, ?_⟩
      · simp [addPredefined, hs, hr, selTargets, hcv, normArgs] <;> decide
      · simp [argsOfI, normArgs]
  · intro vals hv
    match vals, hv with
    | [], _ =>
      exact ⟨ps_h, mat1 (den1 _ ps_h), _, by decide, denPrims_one _ _ (by decide), compactC_SNOT 0,
        PhaseEq.toN1 (phase_of_shortcut (shortcut_h) expand_h)⟩

theorem is_s : ImportSound cs!"s" := by
  refine ⟨_, 1, cs!"S", rfl, rfl, ?_, ?_⟩
  · intro t es cc cv ht hes hcv
    match t, ht, es, hes with
    | [a], _, [], _ =>
      have hs : sigOf cs!"s" = some (0, 1) := by decide
      have hr : Gen.shortcutRows.find? (fun r => r.1 == cs!"s") = some (cs!"s", cs!"S", .one 0, .none, true) := by decide
      refine ⟨⟨cs!"S", [a], none, normArgs [], cc, cv⟩, ?_, rfl, rfl, rfl, rfl, ?_⟩
      · simp [addPredefined, hs, hr, selTargets, hcv, normArgs] <;> decide
      · simp [argsOfI, normArgs]
  · intro vals hv
    match vals, hv with
    | [], _ =>
      exact ⟨ps_s, mat1 (den1 _ ps_s), _, by decide, denPrims_one _ _ (by decide), compactC_S 0,
        PhaseEq.toN1 (phase_of_shortcut (shortcut_s) expand_s)⟩

theorem is_t : ImportSound cs!"t" := by
  refine ⟨_, 1, cs!"T", rfl, rfl, ?_, ?_⟩
  · intro t es cc cv ht hes hcv
    match t, ht, es, hes with
    | [a], _, [], _ =>
      have hs : sigOf cs!"t" = some (0, 1) := by decide
      have hr : Gen.shortcutRows.find? (fun r => r.1 == cs!"t") = some (cs!"t", cs!"T", .one 0, .none, true) := by decide
      refine ⟨⟨cs!"T", [a], none, normArgs [], cc, cv⟩, ?_, rfl, rfl, rfl, rfl, ?_⟩
      · simp [addPredefined, hs, hr, selTargets, hcv, normArgs] <;> decide
      · simp [argsOfI, normArgs]
  · intro vals hv
    match vals, hv with
    | [], _ =>
      exact ⟨ps_t, mat1 (den1 _ ps_t), _, by decide, denPrims_one _ _ (by decide), compactC_T 0,
        PhaseEq.toN1 (phase_of_shortcut (shortcut_t) expand_t)⟩

theorem is_sdg : ImportSound cs!"sdg" := by
  refine ⟨_, 1, cs!"sdg", rfl, rfl, ?_, ?_⟩
  · intro t es cc cv ht hes hcv
    match t, ht, es, hes with
    | [a], _, [], _ =>
      have hs : sigOf cs!"sdg" = some (0, 1) := by decide
      have hr : Gen.shortcutRows.find? (fun r => r.1 == cs!"sdg") = some (cs!"sdg", cs!"sdg", .one 0, .none, true) := by decide
      refine ⟨⟨cs!"sdg", [a], none, normArgs [], cc, cv⟩, ?_, rfl, rfl, rfl, rfl, ?_⟩
      · simp [addPredefined, hs, hr, selTargets, hcv, normArgs] <;> decide
      · simp [argsOfI, normArgs]
  · intro vals hv
    match vals, hv with
    | [], _ =>
      exact ⟨ps_sdg, mat1 (den1 _ ps_sdg), _, by decide, denPrims_one _ _ (by decide), cx_sdg,
        PhaseEq.toN1 (phase_of_shortcut (shortcut_sdg) expand_sdg)⟩

theorem is_tdg : ImportSound cs!"tdg" := by
  refine ⟨_, 1, cs!"tdg", rfl, rfl, ?_, ?_⟩
  · intro t es cc cv ht hes hcv
    match t, ht, es, hes with
    | [a], _, [], _ =>
      have hs : sigOf cs!"tdg" = some (0, 1) := by decide
      have hr : Gen.shortcutRows.find? (fun r => r.1 == cs!"tdg") = some (cs!"tdg", cs!"tdg", .one 0, .none, true) := by decide
      refine ⟨⟨cs!"tdg", [a], none, normArgs [], cc, cv⟩, ?_, rfl, rfl, rfl, rfl, ?_⟩
      · simp [addPredefined, hs, hr, selTargets, hcv, normArgs] <;> decide
      · simp [argsOfI, normArgs]
  · intro vals hv
    match vals, hv with
    | [], _ =>
      exact ⟨ps_tdg, mat1 (den1 _ ps_tdg), _, by decide, denPrims_one _ _ (by decide), cx_tdg,
        PhaseEq.toN1 (phase_of_shortcut (shortcut_tdg) expand_tdg)⟩

theorem is_rx : ImportSound cs!"rx" := by
  refine ⟨_, 1, cs!"RX", rfl, rfl, ?_, ?_⟩
  · intro t es cc cv ht hes hcv
    match t, ht, es, hes with
    | [a], _, [e1], _ =>
      have hs : sigOf cs!"rx" = some (1, 1) := by decide
      have hr : Gen.shortcutRows.find? (fun r => r.1 == cs!"rx") = some (cs!"rx", cs!"RX", .one 0, .none, true) := by decide
      refine ⟨⟨cs!"RX", [a], none, normArgs [e1], cc, cv⟩, ?_, rfl, rfl, rfl, rfl, ?_⟩
      · simp [addPredefined, hs, hr, selTargets, hcv, normArgs] <;> decide
      · simp [argsOfI, normArgs]
  · intro vals hv
    match vals, hv with
    | [θ], _ =>
      exact ⟨ps_rx, mat1 (den1 _ ps_rx), _, by decide, denPrims_one _ _ (by decide), compactC_RX θ,
        PhaseEq.toN1 (phase_of_shortcut (shortcut_rx θ) expand_rx)⟩

theorem is_ry : ImportSound cs!"ry" := by
  refine ⟨_, 1, cs!"RY", rfl, rfl, ?_, ?_⟩
  · intro t es cc cv ht hes hcv
    match t, ht, es, hes with
    | [a], _, [e1], _ =>
      have hs : sigOf cs!"ry" = some (1, 1) := by decide
      have hr : Gen.shortcutRows.find? (fun r => r.1 == cs!"ry") = some (cs!"ry", cs!"RY", .one 0, .none, true) := by decide
      refine ⟨⟨cs!"RY", [a], none, normArgs [e1], cc, cv⟩, ?_, rfl, rfl, rfl, rfl, ?_⟩
      · simp [addPredefined, hs, hr, selTargets, hcv, normArgs] <;> decide
      · simp [argsOfI, normArgs]
  · intro vals hv
    match vals, hv with
    | [θ], _ =>
      exact ⟨ps_ry, mat1 (den1 _ ps_ry), _, by decide, denPrims_one _ _ (by decide), compactC_RY θ,
        PhaseEq.toN1 (phase_of_shortcut (shortcut_ry θ) expand_ry)⟩

theorem is_rz : ImportSound cs!"rz" := by
  refine ⟨_, 1, cs!"RZ", rfl, rfl, ?_, ?_⟩
  · intro t es cc cv ht hes hcv
    match t, ht, es, hes with
    | [a], _, [e1], _ =>
      have hs : sigOf cs!"rz" = some (1, 1) := by decide
      have hr : Gen.shortcutRows.find? (fun r => r.1 == cs!"rz") = some (cs!"rz", cs!"RZ", .one 0, .none, true) := by decide
      refine ⟨⟨cs!"RZ", [a], none, normArgs [e1], cc, cv⟩, ?_, rfl, rfl, rfl, rfl, ?_⟩
      · simp [addPredefined, hs, hr, selTargets, hcv, normArgs] <;> decide
      · simp [argsOfI, normArgs]
  · intro vals hv
    match vals, hv with
    | [θ], _ =>
      exact ⟨ps_rz, mat1 (den1 _ ps_rz), _, by decide, denPrims_one _ _ (by decide), compactC_RZ θ,
        PhaseEq.toN1 (phase_of_shortcut (shortcut_rz θ) expand_rz)⟩

theorem is_u1 : ImportSound cs!"u1" := by
  refine ⟨_, 1, cs!"RZ", rfl, rfl, ?_, ?_⟩
  · intro t es cc cv ht hes hcv
    match t, ht, es, hes with
    | [a], _, [e1], _ =>
      have hs : sigOf cs!"u1" = some (1, 1) := by decide
      have hr : Gen.shortcutRows.find? (fun r => r.1 == cs!"u1") = some (cs!"u1", cs!"RZ", .one 0, .none, true) := by decide
      refine ⟨⟨cs!"RZ", [a], none, normArgs [e1], cc, cv⟩, ?_, rfl, rfl, rfl, rfl, ?_⟩
      · simp [addPredefined, hs, hr, selTargets, hcv, normArgs] <;> decide
      · simp [argsOfI, normArgs]
  · intro vals hv
    match vals, hv with
    | [θ], _ =>
      exact ⟨ps_u1, mat1 (den1 _ ps_u1), _, by decide, denPrims_one _ _ (by decide), compactC_RZ θ,
        PhaseEq.toN1 (phase_of_shortcut (shortcut_u1 θ) expand_u1)⟩

theorem is_u2 : ImportSound cs!"u2" := by
  refine ⟨_, 1, cs!"u2", rfl, rfl, ?_, ?_⟩
  · intro t es cc cv ht hes hcv
    match t, ht, es, hes with
    | [a], _, [e1, e2], _ =>
      have hs : sigOf cs!"u2" = some (2, 1) := by decide
      have hr : Gen.shortcutRows.find? (fun r => r.1 == cs!"u2") = some (cs!"u2", cs!"u2", .one 0, .none, true) := by decide
      refine ⟨⟨cs!"u2", [a], none, normArgs [e1, e2], cc, cv⟩, ?_, rfl, rfl, rfl, rfl, ?_⟩
      · simp [addPredefined, hs, hr, selTargets, hcv, normArgs] <;> decide
      · simp [argsOfI, normArgs]
  · intro vals hv
    match vals, hv with
    | [θ, φ], _ =>
      exact ⟨ps_u2, mat1 (den1 _ ps_u2), _, by decide, denPrims_one _ _ (by decide), cx_u2 θ φ,
        PhaseEq.toN1 (phase_of_shortcut (shortcut_u2 θ φ) expand_u2)⟩

theorem is_u3 : ImportSound cs!"u3" := by
  refine ⟨_, 1, cs!"QASMU", rfl, rfl, ?_, ?_⟩
  · intro t es cc cv ht hes hcv
    match t, ht, es, hes with
    | [a], _, [e1, e2, e3], _ =>
      have hs : sigOf cs!"u3" = some (3, 1) := by decide
      have hr : Gen.shortcutRows.find? (fun r => r.1 == cs!"u3") = some (cs!"u3", cs!"QASMU", .one 0, .none, true) := by decide
      refine ⟨⟨cs!"QASMU", [a], none, normArgs [e1, e2, e3], cc, cv⟩, ?_, rfl, rfl, rfl, rfl, ?_⟩
      · simp [addPredefined, hs, hr, selTargets, hcv, normArgs] <;> decide
      · simp [argsOfI, normArgs]
  · intro vals hv
    match vals, hv with
    | [θ, φ, l], _ =>
      exact ⟨ps_u3, mat1 (den1 _ ps_u3), _, by decide, denPrims_one _ _ (by decide), cx_u3 θ φ l,
        PhaseEq.toN1 (phase_of_shortcut (shortcut_u3 θ φ l) expand_u3)⟩

theorem is_cx : ImportSound cs!"cx" := by
  refine ⟨_, 2, cs!"CNOT", rfl, rfl, ?_, ?_⟩
  · intro t es cc cv ht hes hcv
    match t, ht, es, hes with
    | [a, b], _, [], _ =>
      have hs : sigOf cs!"cx" = some (0, 2) := by decide
      have hr : Gen.shortcutRows.find? (fun r => r.1 == cs!"cx") = some (cs!"cx", cs!"CNOT", .one 1, .one 0, false) := by decide
      refine ⟨⟨cs!"CNOT", [b], some [a], .none, cc, cv⟩, ?_, rfl, rfl, rfl, rfl, ?_⟩
      · simp [addPredefined, hs, hr, selTargets, hcv, normArgs] <;> decide
      · simp [argsOfI, normArgs]
  · intro vals hv
    match vals, hv with
    | [], _ =>
      exact ⟨ps_cx, m2 (den2 _ ps_cx), _, by decide, denPrims_two _ _ (by decide), compactC_CNOT 0,
        PhaseEq.toN2 (phase_of_shortcut (shortcut_cx) expand_cx)⟩

theorem is_cz : ImportSound cs!"cz" := by
  refine ⟨_, 2, cs!"CZ", rfl, rfl, ?_, ?_⟩
  · intro t es cc cv ht hes hcv
    match t, ht, es, hes with
    | [a, b], _, [], _ =>
      have hs : sigOf cs!"cz" = some (0, 2) := by decide
      have hr : Gen.shortcutRows.find? (fun r => r.1 == cs!"cz") = some (cs!"cz", cs!"CZ", .one 1, .one 0, false) := by decide
      refine ⟨⟨cs!"CZ", [b], some [a], .none, cc, cv⟩, ?_, rfl, rfl, rfl, rfl, ?_⟩
      · simp [addPredefined, hs, hr, selTargets, hcv, normArgs] <;> decide
      · simp [argsOfI, normArgs]
  · intro vals hv
    match vals, hv with
    | [], _ =>
      exact ⟨ps_cz, m2 (den2 _ ps_cz), _, by decide, denPrims_two _ _ (by decide), compactC_CZ 0,
        PhaseEq.toN2 (phase_of_shortcut (shortcut_cz) expand_cz)⟩

theorem is_cy : ImportSound cs!"cy" := by
  refine ⟨_, 2, cs!"CY", rfl, rfl, ?_, ?_⟩
  · intro t es cc cv ht hes hcv
    match t, ht, es, hes with
    | [a, b], _, [], _ =>
      have hs : sigOf cs!"cy" = some (0, 2) := by decide
      have hr : Gen.shortcutRows.find? (fun r => r.1 == cs!"cy") = some (cs!"cy", cs!"CY", .one 1, .one 0, false) := by decide
      refine ⟨⟨cs!"CY", [b], some [a], .none, cc, cv⟩, ?_, rfl, rfl, rfl, rfl, ?_⟩
      · simp [addPredefined, hs, hr, selTargets, hcv, normArgs] <;> decide
      · simp [argsOfI, normArgs]
  · intro vals hv
    match vals, hv with
    | [], _ =>
      exact ⟨ps_cy, m2 (den2 _ ps_cy), _, by decide, denPrims_two _ _ (by decide), compactC_CY 0,
        PhaseEq.toN2 (phase_of_shortcut (shortcut_cy) expand_cy)⟩

theorem is_ch : ImportSound cs!"ch" := by
  refine ⟨_, 2, cs!"ch", rfl, rfl, ?_, ?_⟩
  · intro t es cc cv ht hes hcv
    match t, ht, es, hes with
    | [a, b], _, [], _ =>
      have hs : sigOf cs!"ch" = some (0, 2) := by decide
      have hr : Gen.shortcutRows.find? (fun r => r.1 == cs!"ch") = some (cs!"ch", cs!"ch", .all, .none, false) := by decide
      refine ⟨⟨cs!"ch", [a, b], none, .none, cc, cv⟩, ?_, rfl, rfl, rfl, rfl, ?_⟩
      · simp [addPredefined, hs, hr, selTargets, hcv, normArgs] <;> decide
      · simp [argsOfI, normArgs]
  · intro vals hv
    match vals, hv with
    | [], _ =>
      exact ⟨ps_ch, m2 (den2 _ ps_ch), _, by decide, denPrims_two _ _ (by decide), cx_ch,
        PhaseEq.toN2 (phase_of_shortcut (shortcut_ch) expand_ch)⟩

theorem is_crz : ImportSound cs!"crz" := by
  refine ⟨_, 2, cs!"CRZ", rfl, rfl, ?_, ?_⟩
  · intro t es cc cv ht hes hcv
    match t, ht, es, hes with
    | [a, b], _, [e1], _ =>
      have hs : sigOf cs!"crz" = some (1, 2) := by decide
      have hr : Gen.shortcutRows.find? (fun r => r.1 == cs!"crz") = some (cs!"crz", cs!"CRZ", .one 1, .one 0, true) := by decide
      refine ⟨⟨cs!"CRZ", [b], some [a], normArgs [e1], cc, cv⟩, ?_, rfl, rfl, rfl, rfl, ?_⟩
      · simp [addPredefined, hs, hr, selTargets, hcv, normArgs] <;> decide
      · simp [argsOfI, normArgs]
  · intro vals hv
    match vals, hv with
    | [θ], _ =>
      exact ⟨ps_crz, m2 (den2 _ ps_crz), _, by decide, denPrims_two _ _ (by decide), compactC_CRZ θ,
        PhaseEq.toN2 (phase_of_shortcut (shortcut_crz θ) expand_crz)⟩

theorem is_cu1 : ImportSound cs!"cu1" := by
  refine ⟨_, 2, cs!"CPHASE", rfl, rfl, ?_, ?_⟩
  · intro t es cc cv ht hes hcv
    match t, ht, es, hes with
    | [a, b], _, [e1], _ =>
      have hs : sigOf cs!"cu1" = some (1, 2) := by decide
      have hr : Gen.shortcutRows.find? (fun r => r.1 == cs!"cu1") = some (cs!"cu1", cs!"CPHASE", .one 1, .one 0, true) := by decide
      refine ⟨⟨cs!"CPHASE", [b], some [a], normArgs [e1], cc, cv⟩, ?_, rfl, rfl, rfl, rfl, ?_⟩
      · simp [addPredefined, hs, hr, selTargets, hcv, normArgs] <;> decide
      · simp [argsOfI, normArgs]
  · intro vals hv
    match vals, hv with
    | [θ], _ =>
      exact ⟨ps_cu1, m2 (den2 _ ps_cu1), _, by decide, denPrims_two _ _ (by decide), compactC_CPHASE θ,
        PhaseEq.toN2 (phase_of_shortcut (shortcut_cu1 θ) expand_cu1)⟩

theorem is_cu3 : ImportSound cs!"cu3" := by
  refine ⟨_, 2, cs!"cu3", rfl, rfl, ?_, ?_⟩
  · intro t es cc cv ht hes hcv
    match t, ht, es, hes with
    | [a, b], _, [e1, e2, e3], _ =>
      have hs : sigOf cs!"cu3" = some (3, 2) := by decide
      have hr : Gen.shortcutRows.find? (fun r => r.1 == cs!"cu3") = some (cs!"cu3", cs!"cu3", .many [0, 1], .none, true) := by decide
      refine ⟨⟨cs!"cu3", [a, b], none, normArgs [e1, e2, e3], cc, cv⟩, ?_, rfl, rfl, rfl, rfl, ?_⟩
      · simp [addPredefined, hs, hr, selTargets, hcv, normArgs] <;> decide
      · simp [argsOfI, normArgs]
  · intro vals hv
    match vals, hv with
    | [θ, φ, l], _ =>
      exact ⟨ps_cu3, m2 (den2 _ ps_cu3), _, by decide, denPrims_two _ _ (by decide), cx_cu3 θ φ l,
        PhaseEq.toN2 (phase_of_shortcut (shortcut_cu3 θ φ l) expand_cu3)⟩

theorem is_ccx : ImportSound cs!"ccx" := by
  refine ⟨_, 3, cs!"TOFFOLI", rfl, rfl, ?_, ?_⟩
  · intro t es cc cv ht hes hcv
    match t, ht, es, hes with
    | [a, b, c], _, [], _ =>
      have hs : sigOf cs!"ccx" = some (0, 3) := by decide
      have hr : Gen.shortcutRows.find? (fun r => r.1 == cs!"ccx") = some (cs!"ccx", cs!"TOFFOLI", .one 2, .pre 2, false) := by decide
      refine ⟨⟨cs!"TOFFOLI", [c], some [a, b], .none, cc, cv⟩, ?_, rfl, rfl, rfl, rfl, ?_⟩
      · simp [addPredefined, hs, hr, selTargets, hcv, normArgs] <;> decide
      · simp [argsOfI, normArgs]
  · intro vals hv
    match vals, hv with
    | [], _ =>
      exact ⟨ps_ccx, m3 (den3 _ ps_ccx), _, by decide, denPrims_three _ _ (by decide), compactC_TOFFOLI 0,
        PhaseEq.toN3 (phase_of_shortcut (shortcut_ccx) expand_ccx)⟩

/-- `id`: nothing is added, and the body is the identity -/
theorem is_id_S (t : List Nat) (cc : Option (List Nat)) (cv : Option Nat) (ht : t.length = 1) :
    addPredefined cs!"id" t [] cc cv = .ok [] := by
  match t, ht with
  | [a], _ =>
    have hs : sigOf cs!"id" = some (0, 1) := by decide
    have hr : Gen.shortcutRows.find? (fun r => r.1 == cs!"id") = none := by decide
    simp [addPredefined, hs, hr]

theorem is_id_M : ∃ prims0 M, expandCall qelib1.reverse cs!"id" [] (List.range 1) = .ok prims0 ∧
    denPrims 1 (envOf []) prims0 = some M ∧ PhaseEqN M 1 := by
  refine ⟨ps_id, mat1 (den1 _ ps_id), by decide, denPrims_one _ _ (by decide), ?_⟩
  have := PhaseEq.toN1 (phase_of_shortcut shortcut_id expand_id)
  rwa [mat1_one] at this

/-- **the table**: every `qelib1.inc` gate other than `id` -/
theorem import_sound_table : ∀ d ∈ qelib1, d.name ≠ cs!"id" → ImportSound d.name := by
  intro d hd hne
  simp only [qelib1, List.mem_cons, List.not_mem_nil, or_false] at hd
  rcases hd with rfl | rfl | rfl | rfl | rfl | rfl | rfl | rfl | rfl | rfl | rfl | rfl | rfl | rfl | rfl | rfl | rfl | rfl | rfl | rfl | rfl | rfl | rfl
  · exact is_u3
  · exact is_u2
  · exact is_u1
  · exact is_cx
  · exact absurd rfl hne
  · exact is_x
  · exact is_y
  · exact is_z
  · exact is_h
  · exact is_s
  · exact is_sdg
  · exact is_t
  · exact is_tdg
  · exact is_rx
  · exact is_ry
  · exact is_rz
  · exact is_cz
  · exact is_cy
  · exact is_ch
  · exact is_ccx
  · exact is_crz
  · exact is_cu1
  · exact is_cu3

end QipVerif.Qasm.Import
