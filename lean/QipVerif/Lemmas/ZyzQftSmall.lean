import QipVerif.Model.Qft

/-!
# C17 — QFT = DFT for N ≤ 4: FINITE INSTANCES, not the property

Exact arithmetic in ℤ[ζ], ζ = e^{2πi/16} (eight `Int` coefficients, ζ⁸ = −1), and a state-vector
semantics of the three gate kinds written here (qubit 0 = most significant bit):

* `SNOT q` **scaled by √2** (so no square roots are needed): `v'[x] = v[x|q←0] ± v[x|q←1]`
* `CPHASE c t (π/2^k)`: multiply the amplitudes with both bits set by `e^{iπ/2^k} = ζ^(8/2^k)`
* `SWAP a b`: exchange the two bits.

`qftCheck N` runs the gate list `Qft.gateSequence N true false` of the model on every basis vector and
compares with the column `x ↦ ω^{xy}`, `ω = e^{2πi/2^N} = ζ^(16/2^N)`, of `√(2^N)·DFT`.
The general-N identity is **not** proved.  This file has no bridge to the ℂ-matrices of
`ZyzGates.lean`; it is a kernel-evaluated test of the model's gate lists.
-/
namespace QipVerif.QftSmall
open QipVerif.Qft

structure Z16 where
  c0 : Int
  c1 : Int
  c2 : Int
  c3 : Int
  c4 : Int
  c5 : Int
  c6 : Int
  c7 : Int
deriving DecidableEq, Repr

namespace Z16
def zero : Z16 := ⟨0, 0, 0, 0, 0, 0, 0, 0⟩
def one : Z16 := ⟨1, 0, 0, 0, 0, 0, 0, 0⟩
def add (a b : Z16) : Z16 :=
  ⟨a.c0 + b.c0, a.c1 + b.c1, a.c2 + b.c2, a.c3 + b.c3, a.c4 + b.c4, a.c5 + b.c5, a.c6 + b.c6, a.c7 + b.c7⟩
def sub (a b : Z16) : Z16 :=
  ⟨a.c0 - b.c0, a.c1 - b.c1, a.c2 - b.c2, a.c3 - b.c3, a.c4 - b.c4, a.c5 - b.c5, a.c6 - b.c6, a.c7 - b.c7⟩
/-- multiplication by ζ (ζ⁸ = −1) -/
def mulZeta (a : Z16) : Z16 := ⟨-a.c7, a.c0, a.c1, a.c2, a.c3, a.c4, a.c5, a.c6⟩
/-- multiplication by ζ^n -/
def mulZetaPow : Nat → Z16 → Z16
  | 0, a => a
  | n + 1, a => mulZeta (mulZetaPow n a)
end Z16

def bit (N q x : Nat) : Bool := Nat.testBit x (N - 1 - q)
def setBit (N q x : Nat) (b : Bool) : Nat :=
  let m := 2 ^ (N - 1 - q)
  if b then (if bit N q x then x else x + m) else (if bit N q x then x - m else x)

def applyGate (N : Nat) (g : Gate) (v : List Z16) : Option (List Z16) :=
  let get := fun x => v.getD x Z16.zero
  match g.kind, g.targets, g.controls, g.ang with
  | .SNOT, [q], [], none =>
    some ((List.range (2 ^ N)).map fun x =>
      let a := get (setBit N q x false)
      let b := get (setBit N q x true)
      if bit N q x then Z16.sub a b else Z16.add a b)
  | .CPHASE, [t], [c], some ⟨1, k⟩ =>
    if k = 0 ∨ k > 3 then none else
    some ((List.range (2 ^ N)).map fun x =>
      if bit N c x && bit N t x then Z16.mulZetaPow (8 / 2 ^ k) (get x) else get x)
  | .SWAP, [a, b], [], none =>
    some ((List.range (2 ^ N)).map fun x =>
      get (setBit N a (setBit N b x (bit N a x)) (bit N b x)))
  | _, _, _, _ => none

def run (N : Nat) : List Gate → List Z16 → Option (List Z16)
  | [], v => some v
  | g :: gs, v => (applyGate N g v).bind (run N gs)

def basis (N y : Nat) : List Z16 := (List.range (2 ^ N)).map fun x => if x = y then Z16.one else Z16.zero

/-- column `y` of `√(2^N)·DFT`: `x ↦ ω^{xy}`, `ω = ζ^(16/2^N)` -/
def dftCol (N y : Nat) : List Z16 :=
  (List.range (2 ^ N)).map fun x => Z16.mulZetaPow ((x * y * (16 / 2 ^ N)) % 16) Z16.one

def qftCheck (N : Nat) : Bool :=
  match gateSequence N true false with
  | none => false
  | some gs => (List.range (2 ^ N)).all fun y => run N gs (basis N y) == some (dftCol N y)

/-- FINITE INSTANCES (N = 1, 2, 3, 4): the model's QFT circuit with swaps and native controlled phases
maps every basis vector to the DFT column (up to the factor √2 per Hadamard, i.e. √(2^N) overall). -/
theorem qft_eq_dft_le4 : qftCheck 1 = true ∧ qftCheck 2 = true ∧ qftCheck 3 = true ∧ qftCheck 4 = true := by
  decide +kernel

end QipVerif.QftSmall
