import QipVerif.Lemmas.SchedTopo
import Mathlib.Algebra.BigOperators.Group.List.Basic
import Mathlib.Algebra.Order.Group.Int
import Mathlib.Tactic.Linarith
/-!
# Longest-path distances (`_compute_distance_to_start`)

Generic over the graph `E`, the durations `dur` and the processing `order`:

* `distStart_rec`      along a duplicate-free order in which every predecessor comes first, the
                       computed distance satisfies `d y = max(0, max_{p → y} d p) + dur y` in terms of the
                       *final* table (the code's recurrence, independent of the processing order);
* `distStart_nonneg`, `distStart_le_sum`  bounds, for non-negative durations.
-/
namespace QipVerif.Sched

variable {n : Nat} {E : Nat → Nat → Bool} {dur : Nat → Int}

theorem Dist.get_cons (d : Dist) (i : Nat) (v : Int) (k : Nat) :
    Dist.get ((i, v) :: d) k = if k = i then v else d.get k := by
  unfold Dist.get
  rw [List.lookup_cons]
  by_cases h : k = i
  · subst h; simp
  · have : (k == i) = false := by simpa using h
    simp [this, h]

@[simp] theorem Dist.get_nil (k : Nat) : Dist.get [] k = 0 := rfl

/-! ## `max([...])` -/

theorem foldl_max_ge (g : Nat → Int) (l : List Nat) (a : Int) :
    a ≤ l.foldl (fun m x => max m (g x)) a ∧ ∀ x ∈ l, g x ≤ l.foldl (fun m x => max m (g x)) a := by
  induction l generalizing a with
  | nil => simp
  | cons y l ih =>
    simp only [List.foldl_cons, List.mem_cons]
    obtain ⟨h1, h2⟩ := ih (max a (g y))
    refine ⟨le_trans (le_max_left _ _) h1, ?_⟩
    rintro x (rfl | hx)
    · exact le_trans (le_max_right _ _) h1
    · exact h2 x hx

theorem foldl_max_le (g : Nat → Int) (l : List Nat) (a B : Int) (ha : a ≤ B) (hl : ∀ x ∈ l, g x ≤ B) :
    l.foldl (fun m x => max m (g x)) a ≤ B := by
  induction l generalizing a with
  | nil => simpa using ha
  | cons y l ih =>
    simp only [List.foldl_cons]
    exact ih _ (max_le ha (hl y (by simp))) (fun x hx => hl x (List.mem_cons_of_mem _ hx))

theorem maxOver_ge (d : Dist) {ps : List Nat} {p : Nat} (hp : p ∈ ps) : d.get p ≤ maxOver d ps := by
  cases ps with
  | nil => simp at hp
  | cons q qs =>
    simp only [maxOver]
    rcases List.mem_cons.mp hp with rfl | h
    · exact (foldl_max_ge d.get qs _).1
    · exact (foldl_max_ge d.get qs _).2 p h

theorem maxOver_le (d : Dist) (ps : List Nat) (B : Int) (hB : 0 ≤ B) (h : ∀ p ∈ ps, d.get p ≤ B) : maxOver d ps ≤ B := by
  cases ps with
  | nil => simpa [maxOver] using hB
  | cons q qs =>
    simp only [maxOver]
    exact foldl_max_le d.get qs _ B (h q (by simp)) (fun x hx => h x (List.mem_cons_of_mem _ hx))

theorem maxOver_nonneg (d : Dist) (ps : List Nat) (h : ∀ p ∈ ps, 0 ≤ d.get p) : 0 ≤ maxOver d ps := by
  cases ps with
  | nil => simp [maxOver]
  | cons q qs =>
    simp only [maxOver]
    exact le_trans (h q (by simp)) (foldl_max_ge d.get qs _).1

theorem maxOver_congr {d d' : Dist} {ps : List Nat} (h : ∀ p ∈ ps, d.get p = d'.get p) : maxOver d ps = maxOver d' ps := by
  cases ps with
  | nil => rfl
  | cons q qs =>
    simp only [maxOver]
    rw [h q (by simp)]
    have : ∀ (l : List Nat) (a : Int), (∀ x ∈ l, d.get x = d'.get x) →
        l.foldl (fun m x => max m (d.get x)) a = l.foldl (fun m x => max m (d'.get x)) a := by
      intro l
      induction l with
      | nil => intro a _; rfl
      | cons y l ih =>
        intro a hl
        simp only [List.foldl_cons]
        rw [hl y (by simp)]
        exact ih _ (fun x hx => hl x (List.mem_cons_of_mem _ hx))
    exact this qs _ (fun x hx => h x (List.mem_cons_of_mem _ hx))

/-! ## the fold -/

theorem distStep_get (d : Dist) (i k : Nat) :
    (distStep n E dur d i).get k = if k = i then maxOver d (predsOf n E i) + dur i else d.get k := by
  unfold distStep
  rw [Dist.get_cons]

theorem foldl_get_of_not_mem (post : List Nat) (d0 : Dist) (z : Nat) (hz : z ∉ post) :
    (post.foldl (distStep n E dur) d0).get z = d0.get z := by
  induction post generalizing d0 with
  | nil => rfl
  | cons y b ih =>
    simp only [List.foldl_cons]
    rw [ih _ (fun h => hz (List.mem_cons_of_mem _ h)), distStep_get]
    have : z ≠ y := fun h => hz (by simp [h])
    simp [this]

/-- the value of a node is fixed when it is processed -/
theorem distStart_get_split {a b : List Nat} {y : Nat} (hy : y ∉ b) :
    (distStart n E dur (a ++ y :: b)).get y = maxOver (a.foldl (distStep n E dur) []) (predsOf n E y) + dur y := by
  unfold distStart
  rw [List.foldl_append, List.foldl_cons, foldl_get_of_not_mem b _ y hy, distStep_get]
  simp

/-- `order` lists every predecessor of a node before the node -/
def TopoOrder (n : Nat) (E : Nat → Nat → Bool) (order : List Nat) : Prop :=
  ∀ a y b, order = a ++ y :: b → ∀ p, p < n → E p y = true → p ∈ a

/-- **the longest-path recurrence on the final table** -/
theorem distStart_rec {order : List Nat} (hnd : order.Nodup) (htopo : TopoOrder n E order) :
    ∀ y ∈ order, (distStart n E dur order).get y =
      maxOver (distStart n E dur order) (predsOf n E y) + dur y := by
  intro y hy
  obtain ⟨a, b, rfl⟩ := List.append_of_mem hy
  have hnd' := List.nodup_append.mp hnd
  have hyb : y ∉ b := (List.nodup_cons.mp hnd'.2.1).1
  rw [distStart_get_split hyb]
  congr 1
  apply maxOver_congr
  intro p hp
  have hpa : p ∈ a := htopo a y b rfl p (mem_predsOf.mp hp).1 (mem_predsOf.mp hp).2
  have hpn : p ∉ y :: b := fun h => hnd'.2.2 p hpa p h rfl
  unfold distStart
  rw [List.foldl_append, foldl_get_of_not_mem (y :: b) _ p hpn]

theorem distStart_get_of_not_mem {order : List Nat} {z : Nat} (hz : z ∉ order) :
    (distStart n E dur order).get z = 0 := by
  unfold distStart
  rw [foldl_get_of_not_mem order [] z hz]; rfl

/-- all distances are non-negative when the durations are -/
theorem distStart_nonneg (hdur : ∀ i, 0 ≤ dur i) (order : List Nat) : ∀ z, 0 ≤ (distStart n E dur order).get z := by
  have key : ∀ (post : List Nat) (d0 : Dist), (∀ z, 0 ≤ d0.get z) →
      ∀ z, 0 ≤ (post.foldl (distStep n E dur) d0).get z := by
    intro post
    induction post with
    | nil => intro d0 h z; exact h z
    | cons y b ih =>
      intro d0 h z
      simp only [List.foldl_cons]
      apply ih
      intro z
      rw [distStep_get]
      split
      · exact add_nonneg (maxOver_nonneg d0 _ (fun p _ => h p)) (hdur y)
      · exact h z
  exact key order [] (fun z => by simp)

/-- no distance exceeds the sum of the durations of the processed nodes -/
theorem distStart_le_sum (hdur : ∀ i, 0 ≤ dur i) (order : List Nat) :
    ∀ z, (distStart n E dur order).get z ≤ (order.map dur).sum := by
  have hsum : ∀ l : List Nat, 0 ≤ (l.map dur).sum := by
    intro l
    induction l with
    | nil => simp
    | cons y l ih => simpa using add_nonneg (hdur y) ih
  have key : ∀ (post : List Nat) (d0 : Dist) (S : Int), 0 ≤ S → (∀ z, d0.get z ≤ S) →
      ∀ z, (post.foldl (distStep n E dur) d0).get z ≤ S + (post.map dur).sum := by
    intro post
    induction post with
    | nil => intro d0 S _ h z; simpa using h z
    | cons y b ih =>
      intro d0 S hS h z
      simp only [List.foldl_cons, List.map_cons, List.sum_cons]
      have := ih (distStep n E dur d0 y) (S + dur y) (add_nonneg hS (hdur y)) (by
        intro z
        rw [distStep_get]
        split
        · have := maxOver_le d0 (predsOf n E y) S hS (fun p _ => h p)
          linarith
        · exact le_trans (h z) (le_add_of_nonneg_right (hdur y))) z
      linarith
  intro z
  have := key order [] 0 (le_refl 0) (fun z => by simp) z
  simpa [distStart] using this

end QipVerif.Sched
