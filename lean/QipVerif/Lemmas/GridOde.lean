import QipVerif.Lemmas.GridMerge
import QipVerif.Lemmas.TimeOrdered
/-!
# C14: the slice product of `run_analytically` is the solution operator of `dU/dt = −i H(t) U`

`Model/Grid.lean` gives the merged grid `T` and, per channel, the coefficient row on `T` (`fullCoeffsV`), and
`slices T rows` lists `(dt, column)` per slot as `run_analytically` walks them.  Here the slices are turned into
matrices — `H_k = drift + Σ_m column_k[m] · H_m`, `U_k = exp(−i·dt_k·H_k)` (Mathlib's matrix exponential) — and
tied to `Lemmas/TimeOrdered.lean`: the Hamiltonian of slot `k` is the stated `H(t) = drift + Σ_m c_m(t) H_m` for every
real `t` of the slot (`c_m` = the step function of channel `m` at a real time, `stepAtR`), and the ordered product
of the `U_k` is `TimeOrdered.prop` at the end of the grid.
-/
set_option linter.unusedSectionVars false
namespace QipVerif.Grid
open QipVerif.MatExp QipVerif.TimeOrdered Matrix

/-- the step function of a channel at a REAL time: `cs[i]` for `tl[i] ≤ t < tl[i+1]`, `0` outside the grid -/
noncomputable def stepAtR : List Rat → List Rat → ℝ → Rat
  | a :: b :: tl, c :: cs, t => if ((a : ℚ) : ℝ) ≤ t ∧ t < ((b : ℚ) : ℝ) then c else stepAtR (b :: tl) cs t
  | _, _, _ => 0

theorem stepAtR_cast (tl cs : List Rat) (q : Rat) : stepAtR tl cs ((q : ℚ) : ℝ) = stepAt tl cs q := by
  fun_induction stepAt tl cs q with
  | case1 a b tl c cs t hh =>
    unfold stepAtR
    rw [if_pos ⟨by exact_mod_cast hh.1, by exact_mod_cast hh.2⟩]
  | case2 a b tl c cs t hh ih =>
    unfold stepAtR
    rw [if_neg (by intro h; exact hh ⟨by exact_mod_cast h.1, by exact_mod_cast h.2⟩)]
    exact ih
  | case3 tl cs t h =>
    unfold stepAtR
    split
    · exact (h _ _ _ _ _ rfl rfl).elim
    · rfl

/-- **piecewise constancy at real times**: no grid point of the channel strictly between `a` and `b` ⇒ on
`[a, b)` the step function has its value at `a` -/
theorem stepAtR_const (tl cs : List Rat) (a b : Rat) (t : ℝ) (hno : ∀ p ∈ tl, p ≤ a ∨ b ≤ p)
    (hat : ((a : ℚ) : ℝ) ≤ t) (htb : t < ((b : ℚ) : ℝ)) : stepAtR tl cs t = stepAt tl cs a := by
  have hab : a < b := by exact_mod_cast lt_of_le_of_lt hat htb
  induction tl generalizing cs with
  | nil => simp [stepAt, stepAtR]
  | cons x tl ih =>
    match tl, cs with
    | [], _ => simp [stepAt, stepAtR]
    | y :: tl, [] => simp [stepAt, stepAtR]
    | y :: tl, c :: cs =>
      have hx := hno x (by simp)
      have hy := hno y (by simp)
      have hrec := ih cs (fun p hp => hno p (by simp [hp]))
      simp only [stepAt, stepAtR]
      have h1 : ((x : ℚ) : ℝ) ≤ t ↔ x ≤ a := by
        constructor
        · intro h
          rcases hx with hx | hx
          · exact hx
          · exfalso
            have : ((b : ℚ) : ℝ) ≤ ((x : ℚ) : ℝ) := by exact_mod_cast hx
            linarith
        · intro h
          have : ((x : ℚ) : ℝ) ≤ ((a : ℚ) : ℝ) := by exact_mod_cast h
          linarith
      have h2 : t < ((y : ℚ) : ℝ) ↔ a < y := by
        constructor
        · intro h
          rcases hy with hy | hy
          · exfalso
            have : ((y : ℚ) : ℝ) ≤ ((a : ℚ) : ℝ) := by exact_mod_cast hy
            linarith
          · exact lt_of_lt_of_le hab hy
        · intro h
          rcases hy with hy | hy
          · exact absurd h (not_lt.mpr hy)
          · have : ((b : ℚ) : ℝ) ≤ ((y : ℚ) : ℝ) := by exact_mod_cast hy
            linarith
      by_cases h : x ≤ a ∧ a < y
      · rw [if_pos ⟨h1.mpr h.1, h2.mpr h.2⟩, if_pos h]
      · rw [if_neg (fun h' => h ⟨h1.mp h'.1, h2.mp h'.2⟩), if_neg h]; exact hrec

/-! ## matrices of the slices -/

variable {ι : Type*} [Fintype ι] [DecidableEq ι]

/-- `drift + Σ_m c_m · H_m` -/
noncomputable def linComb (drift : Matrix ι ι ℂ) (ctrls : List (Matrix ι ι ℂ)) (cs : List Rat) : Matrix ι ι ℂ :=
  drift + (List.zipWith (fun (c : Rat) (H : Matrix ι ι ℂ) => (((c : ℚ) : ℝ) : ℂ) • H) cs ctrls).sum

/-- the Hamiltonians of the slices of `run_analytically`: `H_drift + Σ_m coeffs[m, n] · H_m` -/
noncomputable def sliceHams (drift : Matrix ι ι ℂ) (ctrls : List (Matrix ι ι ℂ)) (sl : List (Rat × List Rat)) :
    List (Matrix ι ι ℂ) := sl.map fun s => linComb drift ctrls s.2

/-- the list `U_list` of `run_analytically` (without initial state / global phase entry):
`(-1j * H * dt).expm()` per slice, with the matrix exponential of Mathlib -/
noncomputable def runAnalytically (drift : Matrix ι ι ℂ) (ctrls : List (Matrix ι ι ℂ)) (sl : List (Rat × List Rat)) :
    List (Matrix ι ι ℂ) := sl.map fun s => evolve (linComb drift ctrls s.2) ((s.1 : ℚ) : ℝ)

/-- product of a list of propagators in time order: later ones on the left -/
noncomputable def ordProdL : List (Matrix ι ι ℂ) → Matrix ι ι ℂ
  | [] => 1
  | U :: Us => ordProdL Us * U

/-- the real grid -/
noncomputable def gridR (T : List Rat) : List ℝ := T.map fun q => ((q : ℚ) : ℝ)

theorem gridR_pairwise {T : List Rat} (h : T.Pairwise (· < ·)) : (gridR T).Pairwise (· < ·) := by
  unfold gridR
  rw [List.pairwise_map]
  exact h.imp (fun h => by exact_mod_cast h)

/-- the rows of `get_full_coeffs` when every channel is sampled by a function on the merged grid -/
theorem slices_sampled {κ : Type} (chans : List κ) (f : κ → Rat → Rat) :
    ∀ T : List Rat, slices T (chans.map fun c => T.map (f c)) =
      match T with
      | a :: b :: rest => (b - a, chans.map fun c => f c a) :: slices (b :: rest) (chans.map fun c => (b :: rest).map (f c))
      | _ => []
  | [] => by simp [slices]
  | [a] => by simp [slices]
  | a :: b :: rest => by
    simp only [slices, List.map_map]
    congr 2

/-- **the product `run_analytically` multiplies up is the ordered product of the slice exponentials over the real
grid** -/
theorem ordProdL_runAnalytically {κ : Type} (drift : Matrix ι ι ℂ) (ctrls : List (Matrix ι ι ℂ)) (chans : List κ)
    (f : κ → Rat → Rat) : ∀ T : List Rat,
    ordProdL (runAnalytically drift ctrls (slices T (chans.map fun c => T.map (f c)))) =
      sliceProd (gridR T) (sliceHams drift ctrls (slices T (chans.map fun c => T.map (f c))))
  | [] => by simp [slices, runAnalytically, sliceHams, ordProdL, gridR, sliceProd]
  | [a] => by simp [slices, runAnalytically, sliceHams, ordProdL, gridR, sliceProd]
  | a :: b :: rest => by
    rw [slices_sampled]
    simp only [runAnalytically, sliceHams, List.map_cons, ordProdL, gridR, sliceProd]
    have ih := ordProdL_runAnalytically drift ctrls chans f (b :: rest)
    simp only [runAnalytically, sliceHams, gridR, List.map_cons] at ih
    rw [ih]
    congr 2
    push_cast
    rfl

/-- `p` is not strictly inside any slot of `T` -/
def NoBetween (p : Rat) : List Rat → Prop
  | a :: b :: rest => (p ≤ a ∨ b ≤ p) ∧ NoBetween p (b :: rest)
  | _ => True

theorem noBetween_of_le_head (p : Rat) : ∀ (a : Rat) (L : List Rat), (a :: L).Pairwise (· < ·) → p ≤ a → NoBetween p (a :: L)
  | a, [], _, _ => trivial
  | a, b :: rest, hs, h => by
    have hab : a < b := (List.pairwise_cons.mp hs).1 b (by simp)
    exact ⟨Or.inl h, noBetween_of_le_head p b rest (List.pairwise_cons.mp hs).2 (by grind)⟩

theorem noBetween_of_mem (p : Rat) : ∀ T : List Rat, T.Pairwise (· < ·) → p ∈ T → NoBetween p T
  | [], _, _ => trivial
  | [a], _, _ => trivial
  | a :: b :: rest, hs, hp => by
    have hab : a < b := (List.pairwise_cons.mp hs).1 b (by simp)
    have hs' := (List.pairwise_cons.mp hs).2
    rcases List.mem_cons.mp hp with rfl | hp
    · exact ⟨Or.inl (by grind), noBetween_of_le_head p b rest hs' (by grind)⟩
    · refine ⟨Or.inr ?_, noBetween_of_mem p (b :: rest) hs' hp⟩
      rcases List.mem_cons.mp hp with rfl | hp
      · grind
      · have := (List.pairwise_cons.mp hs').1 p hp; grind

theorem hamAt_of_ge_last : ∀ (L : List ℝ) (Hs : List (Matrix ι ι ℂ)) (t : ℝ), (∀ x ∈ L, x ≤ t) → hamAt L Hs t = 0
  | [], Hs, t, _ => hamAt_nil Hs t
  | [a], Hs, t, _ => hamAt_single a Hs t
  | a :: b :: T, [], t, _ => hamAt_noH _ t
  | a :: b :: T, H :: Hs, t, h => by
    rw [hamAt_cons, if_neg (fun hh => absurd (h b (by simp)) (not_le.mpr hh.2))]
    exact hamAt_of_ge_last (b :: T) Hs t (fun x hx => h x (List.mem_cons_of_mem _ hx))

/-- **the Hamiltonian of the slot containing `t` is the stated Hamiltonian at `t`**, for every real time inside the
merged grid -/
theorem hamAt_slices (drift : Matrix ι ι ℂ) (ctrls : List (Matrix ι ι ℂ)) (chans : List (List Rat × List Rat)) :
    ∀ (T : List Rat), T.Pairwise (· < ·) → (∀ c ∈ chans, ∀ p ∈ c.1, NoBetween p T) →
    ∀ (t : ℝ) (a : Rat), T.head? = some a → ((a : ℚ) : ℝ) ≤ t → (∃ z ∈ T, t < ((z : ℚ) : ℝ)) →
    hamAt (gridR T) (sliceHams drift ctrls (slices T (chans.map fun c => T.map (stepAt c.1 c.2)))) t =
      linComb drift ctrls (chans.map fun c => stepAtR c.1 c.2 t)
  | [], _, _, t, a, h, _, _ => by simp at h
  | [a], _, _, t, a', h, hat, ⟨z, hz, htz⟩ => by
    simp at h hz; subst h; subst hz; linarith
  | a :: b :: rest, hs, hno, t, a', h, hat, ⟨z, hz, htz⟩ => by
    simp only [List.head?_cons, Option.some.injEq] at h
    have hat : ((a : ℚ) : ℝ) ≤ t := by rw [h]; exact hat
    rw [slices_sampled]
    simp only [sliceHams, List.map_cons, gridR]
    rw [hamAt_cons]
    by_cases htb : t < ((b : ℚ) : ℝ)
    · rw [if_pos ⟨hat, htb⟩]
      congr 1
      apply List.map_congr_left
      intro c hc
      exact (stepAtR_const c.1 c.2 a b t (fun p hp => (hno c hc p hp).1) hat htb).symm
    · rw [if_neg (fun hh => htb hh.2)]
      have hs' := (List.pairwise_cons.mp hs).2
      have := hamAt_slices drift ctrls chans (b :: rest) hs' (fun c hc p hp => (hno c hc p hp).2) t b rfl
        (not_lt.mp htb) (by
          rcases List.mem_cons.mp hz with hza | hz
          · exfalso
            rw [hza] at htz
            have hab : a < b := (List.pairwise_cons.mp hs).1 b (by simp)
            have : ((a : ℚ) : ℝ) < ((b : ℚ) : ℝ) := by exact_mod_cast hab
            linarith [not_lt.mp htb]
          · exact ⟨z, hz, htz⟩)
      simp only [sliceHams, gridR] at this
      exact this


/-! ## the stated Hamiltonian and the solution operator -/

/-- **the stated Hamiltonian** `H(t) = drift + Σ_m c_m(t)·H_m` on `[0, Tend)`, `c_m` the step function of channel `m`
(zero once its grid has ended); no evolution outside `[0, Tend)` -/
noncomputable def statedHam (drift : Matrix ι ι ℂ) (ctrls : List (Matrix ι ι ℂ)) (chans : List (List Rat × List Rat))
    (Tend : Rat) (t : ℝ) : Matrix ι ι ℂ :=
  if 0 ≤ t ∧ t < ((Tend : ℚ) : ℝ) then linComb drift ctrls (chans.map fun c => stepAtR c.1 c.2 t) else 0

theorem le_getLast : ∀ (T : List Rat) (e : Rat), T.Pairwise (· < ·) → T.getLast? = some e → ∀ x ∈ T, x ≤ e
  | [], e, _, h, _, _ => by simp at h
  | [a], e, _, h, x, hx => by simp at h hx; subst h; subst hx; exact Rat.le_refl
  | a :: b :: rest, e, hs, h, x, hx => by
    rw [List.getLast?_cons_cons] at h
    have ih := le_getLast (b :: rest) e (List.pairwise_cons.mp hs).2 h
    rcases List.mem_cons.mp hx with rfl | hx
    · have hab : x < b := (List.pairwise_cons.mp hs).1 b (by simp)
      have := ih b (by simp)
      grind
    · exact ih x hx

theorem getLast_mem : ∀ (T : List Rat) (e : Rat), T.getLast? = some e → e ∈ T := by
  intro T e h
  exact List.mem_of_getLast? h

/-- the solution operator of the processor: the ordered product of the slice exponentials up to time `t` -/
noncomputable def solOp (drift : Matrix ι ι ℂ) (ctrls : List (Matrix ι ι ℂ)) (chans : List (List Rat × List Rat))
    (T : List Rat) : ℝ → Matrix ι ι ℂ :=
  prop (gridR T) (sliceHams drift ctrls (slices T (chans.map fun c => T.map (stepAt c.1 c.2))))

/-- the piecewise-constant Hamiltonian of the slices IS the stated Hamiltonian, at every real time -/
theorem hamAt_eq_stated (drift : Matrix ι ι ℂ) (ctrls : List (Matrix ι ι ℂ)) (chans : List (List Rat × List Rat))
    (T : List Rat) (hT : T.Pairwise (· < ·)) (h0 : T.head? = some 0) (Tend : Rat) (hlast : T.getLast? = some Tend)
    (hsub : ∀ c ∈ chans, ∀ p ∈ c.1, p ∈ T) (t : ℝ) :
    hamAt (gridR T) (sliceHams drift ctrls (slices T (chans.map fun c => T.map (stepAt c.1 c.2)))) t =
      statedHam drift ctrls chans Tend t := by
  unfold statedHam
  have hTR := gridR_pairwise hT
  by_cases h : 0 ≤ t ∧ t < ((Tend : ℚ) : ℝ)
  · rw [if_pos h]
    exact hamAt_slices drift ctrls chans T hT (fun c hc p hp => noBetween_of_mem p T hT (hsub c hc p hp)) t 0 h0
      (by simpa using h.1) ⟨Tend, getLast_mem T Tend hlast, h.2⟩
  · rw [if_neg h]
    rcases not_and_or.mp h with h1 | h2
    · match T, h0 with
      | a :: rest, h0 =>
        simp only [List.head?_cons, Option.some.injEq] at h0
        subst h0
        exact hamAt_of_lt_head _ _ _ t hTR (by simpa using not_le.mp h1)
    · apply hamAt_of_ge_last
      intro x hx
      unfold gridR at hx
      obtain ⟨q, hq, rfl⟩ := List.mem_map.mp hx
      have : ((q : ℚ) : ℝ) ≤ ((Tend : ℚ) : ℝ) := by exact_mod_cast le_getLast T Tend hT hlast q hq
      linarith [not_lt.mp h2]

theorem solOp_zero (drift : Matrix ι ι ℂ) (ctrls : List (Matrix ι ι ℂ)) (chans : List (List Rat × List Rat))
    (T : List Rat) (hT : T.Pairwise (· < ·)) (h0 : T.head? = some 0) : solOp drift ctrls chans T 0 = 1 := by
  match T, h0 with
  | a :: rest, h0 =>
    simp only [List.head?_cons, Option.some.injEq] at h0
    subst h0
    exact prop_of_le_head _ _ _ 0 (gridR_pairwise hT) (by simp)

theorem solOp_end (drift : Matrix ι ι ℂ) (ctrls : List (Matrix ι ι ℂ)) (chans : List (List Rat × List Rat))
    (T : List Rat) (hT : T.Pairwise (· < ·)) (Tend : Rat) (hlast : T.getLast? = some Tend) :
    solOp drift ctrls chans T ((Tend : ℚ) : ℝ) =
      ordProdL (runAnalytically drift ctrls (slices T (chans.map fun c => T.map (stepAt c.1 c.2)))) := by
  rw [ordProdL_runAnalytically]
  apply prop_of_ge_last _ _ _ (gridR_pairwise hT)
  intro x hx
  unfold gridR at hx
  obtain ⟨q, hq, rfl⟩ := List.mem_map.mp hx
  exact_mod_cast le_getLast T Tend hT hlast q hq

theorem solOp_continuous (drift : Matrix ι ι ℂ) (ctrls : List (Matrix ι ι ℂ)) (chans : List (List Rat × List Rat))
    (T : List Rat) : Continuous (solOp drift ctrls chans T) := continuous_prop _ _

/-- **the ODE, entry by entry** (no matrix norm in the statement): right derivative at every time, two-sided
derivative at every time that is not a grid point -/
theorem solOp_solves (drift : Matrix ι ι ℂ) (ctrls : List (Matrix ι ι ℂ)) (chans : List (List Rat × List Rat))
    (T : List Rat) (hT : T.Pairwise (· < ·)) (h0 : T.head? = some 0) (Tend : Rat) (hlast : T.getLast? = some Tend)
    (hsub : ∀ c ∈ chans, ∀ p ∈ c.1, p ∈ T) (t : ℝ) :
    (∀ i j, HasDerivWithinAt (fun s => solOp drift ctrls chans T s i j)
      (((-Complex.I) • (statedHam drift ctrls chans Tend t * solOp drift ctrls chans T t)) i j) (Set.Ici t) t) ∧
    ((∀ q ∈ T, ((q : ℚ) : ℝ) ≠ t) → ∀ i j, HasDerivAt (fun s => solOp drift ctrls chans T s i j)
      (((-Complex.I) • (statedHam drift ctrls chans Tend t * solOp drift ctrls chans T t)) i j) t) := by
  obtain ⟨h1, h2⟩ := hasDeriv_prop (gridR T)
    (sliceHams drift ctrls (slices T (chans.map fun c => T.map (stepAt c.1 c.2)))) (gridR_pairwise hT) t
  rw [hamAt_eq_stated drift ctrls chans T hT h0 Tend hlast hsub t] at h1 h2
  refine ⟨(hasDerivWithinAt_entry_iff _ _ _ _).mp h1, fun hoff => (hasDerivAt_entry_iff _ _ _).mp (h2 ?_)⟩
  intro hmem
  unfold gridR at hmem
  obtain ⟨q, hq, rfl⟩ := List.mem_map.mp hmem
  exact hoff q hq rfl

/-- **uniqueness, entry by entry** -/
theorem solOp_unique (drift : Matrix ι ι ℂ) (ctrls : List (Matrix ι ι ℂ)) (chans : List (List Rat × List Rat))
    (T : List Rat) (hT : T.Pairwise (· < ·)) (h0 : T.head? = some 0) (Tend : Rat) (hlast : T.getLast? = some Tend)
    (hsub : ∀ c ∈ chans, ∀ p ∈ c.1, p ∈ T) (V : ℝ → Matrix ι ι ℂ)
    (hc : ContinuousOn V (Set.Icc 0 ((Tend : ℚ) : ℝ))) (hV0 : V 0 = 1)
    (hV : ∀ t ∈ Set.Ico (0 : ℝ) ((Tend : ℚ) : ℝ), ∀ i j, HasDerivWithinAt (fun s => V s i j)
      (((-Complex.I) • (statedHam drift ctrls chans Tend t * V t)) i j) (Set.Ici t) t) :
    ∀ t ∈ Set.Icc (0 : ℝ) ((Tend : ℚ) : ℝ), V t = solOp drift ctrls chans T t := by
  apply prop_unique (gridR T) _ (gridR_pairwise hT) 0 _ V hc
  · intro t ht
    rw [hamAt_eq_stated drift ctrls chans T hT h0 Tend hlast hsub t]
    exact (hasDerivWithinAt_entry_iff _ _ _ _).mpr (hV t ht)
  · rw [hV0]; exact (solOp_zero drift ctrls chans T hT h0).symm

/-- **uniqueness in the larger class, entry by entry**: continuity on `[0, Tend]` and the two-sided derivative at the
times of `(0, Tend)` that are not merged grid points suffice -/
theorem solOp_unique_off_grid (drift : Matrix ι ι ℂ) (ctrls : List (Matrix ι ι ℂ)) (chans : List (List Rat × List Rat))
    (T : List Rat) (hT : T.Pairwise (· < ·)) (h0 : T.head? = some 0) (Tend : Rat) (hlast : T.getLast? = some Tend)
    (hsub : ∀ c ∈ chans, ∀ p ∈ c.1, p ∈ T) (V : ℝ → Matrix ι ι ℂ)
    (hc : ContinuousOn V (Set.Icc 0 ((Tend : ℚ) : ℝ))) (hV0 : V 0 = 1)
    (hV : ∀ t ∈ Set.Ioo (0 : ℝ) ((Tend : ℚ) : ℝ), (∀ q ∈ T, ((q : ℚ) : ℝ) ≠ t) → ∀ i j,
      HasDerivAt (fun s => V s i j) (((-Complex.I) • (statedHam drift ctrls chans Tend t * V t)) i j) t) :
    ∀ t ∈ Set.Icc (0 : ℝ) ((Tend : ℚ) : ℝ), V t = solOp drift ctrls chans T t := by
  apply prop_unique_off_grid (gridR T) _ (gridR_pairwise hT) 0 _ V hc
  · intro t ht hnot
    rw [hamAt_eq_stated drift ctrls chans T hT h0 Tend hlast hsub t]
    refine (hasDerivAt_entry_iff _ _ _).mpr (hV t ht ?_)
    intro q hq e
    exact hnot (by unfold gridR; exact List.mem_map.mpr ⟨q, hq, e⟩)
  · rw [hV0]; exact (solOp_zero drift ctrls chans T hT h0).symm

/-- the merged grid of channels that start at 0 starts at 0 -/
theorem head_sortU_zero (l : List Rat) (h0 : (0 : Rat) ∈ l) (hnn : ∀ x ∈ l, (0 : Rat) ≤ x) : (sortU l).head? = some 0 := by
  have hp := sortU_pairwise l
  have hmem : (0 : Rat) ∈ sortU l := mem_sortU.mpr h0
  match hs : sortU l, hmem with
  | a :: rest, hmem =>
    rw [hs] at hp
    simp only [List.head?_cons, Option.some.injEq]
    have ha : (0 : Rat) ≤ a := hnn a (mem_sortU.mp (by rw [hs]; simp))
    rcases List.mem_cons.mp hmem with h | h
    · exact h.symm
    · have := (List.pairwise_cons.mp hp).1 0 h
      grind

end QipVerif.Grid
