import QipVerif.Model.Embed
/-! Helper lemmas for C08 (list algorithm of `expand_operator`). Core Lean only. -/
namespace QipVerif.Embed

theorem assignSeq_length (ts : List Nat) (i : Nat) (ord : List Nat) :
    (assignSeq ts i ord).length = ord.length := by
  induction ts generalizing i ord with
  | nil => rfl
  | cons t ts ih => simp [assignSeq, ih]

theorem assignSeq_get (ts : List Nat) (i : Nat) (ord : List Nat) (hn : ts.Nodup) (p : Nat) :
    (assignSeq ts i ord)[p]? =
      if p ∈ ts then (if p < ord.length then some (i + ts.idxOf p) else none) else ord[p]? := by
  induction ts generalizing i ord with
  | nil => simp [assignSeq]
  | cons t ts ih =>
    simp only [assignSeq]
    rw [ih _ _ (List.nodup_cons.mp hn).2]
    have hnt : t ∉ ts := (List.nodup_cons.mp hn).1
    by_cases hp : p ∈ ts
    · have : p ≠ t := fun h => hnt (h ▸ hp)
      simp [hp, List.idxOf_cons, this]
      grind
    · by_cases hpt : p = t
      · subst hpt
        simp [hp, List.getElem?_set]
      · simp [hp, hpt, Ne.symm hpt]

theorem restPos_nodup (N : Nat) (ts : List Nat) : (restPos N ts).Nodup :=
  List.Nodup.sublist List.filter_sublist List.nodup_range

theorem mem_restPos {N : Nat} {ts : List Nat} {p : Nat} : p ∈ restPos N ts ↔ p < N ∧ p ∉ ts := by
  simp [restPos]

/-- closed form of `new_order` at every position -/
theorem newOrder_get (N : Nat) (ts : List Nat) (hn : ts.Nodup) (p : Nat) (hp : p < N) :
    (newOrder N ts)[p]? =
      some (if p ∈ ts then ts.idxOf p else ts.length + (restPos N ts).idxOf p) := by
  unfold newOrder
  rw [assignSeq_get _ _ _ (restPos_nodup N ts), assignSeq_length, assignSeq_get _ _ _ hn]
  by_cases h : p ∈ ts
  · have : p ∉ restPos N ts := fun h' => (mem_restPos.mp h').2 h
    simp [h, this, hp]
  · have : p ∈ restPos N ts := mem_restPos.mpr ⟨hp, h⟩
    simp [h, this, hp]

theorem newOrder_length (N : Nat) (ts : List Nat) : (newOrder N ts).length = N := by
  simp [newOrder, assignSeq_length]

end QipVerif.Embed

namespace QipVerif.Embed

/-- the inverse of `new_order` as a list: targets first, then the rest positions -/
def invOrder (N : Nat) (ts : List Nat) : List Nat := ts ++ restPos N ts

theorem invOrder_nodup (N : Nat) (ts : List Nat) (hn : ts.Nodup) : (invOrder N ts).Nodup := by
  unfold invOrder
  rw [List.nodup_append]
  refine ⟨hn, restPos_nodup N ts, ?_⟩
  intro a ha b hb hab
  subst hab
  exact (mem_restPos.mp hb).2 ha

theorem mem_invOrder {N : Nat} {ts : List Nat} (hr : ∀ t ∈ ts, t < N) {p : Nat} :
    p ∈ invOrder N ts ↔ p < N := by
  unfold invOrder
  rw [List.mem_append, mem_restPos]
  constructor
  · rintro (h | h)
    · exact hr p h
    · exact h.1
  · intro h
    by_cases hp : p ∈ ts
    · exact Or.inl hp
    · exact Or.inr ⟨h, hp⟩

theorem invOrder_perm (N : Nat) (ts : List Nat) (hn : ts.Nodup) (hr : ∀ t ∈ ts, t < N) :
    (invOrder N ts).Perm (List.range N) :=
  (List.perm_ext_iff_of_nodup (invOrder_nodup N ts hn) List.nodup_range).mpr
    (fun a => by rw [mem_invOrder hr, List.mem_range])

theorem invOrder_length (N : Nat) (ts : List Nat) (hn : ts.Nodup) (hr : ∀ t ∈ ts, t < N) :
    (invOrder N ts).length = N := by
  rw [(invOrder_perm N ts hn hr).length_eq, List.length_range]

theorem newOrder_get' (N : Nat) (ts : List Nat) (hn : ts.Nodup) (p : Nat) (hp : p < N) :
    (newOrder N ts)[p]? = some ((invOrder N ts).idxOf p) := by
  rw [newOrder_get N ts hn p hp]
  unfold invOrder
  by_cases h : p ∈ ts
  · simp [h, List.idxOf_append]
  · simp [h, List.idxOf_append, Nat.add_comm]

theorem newOrder_idxOf (N : Nat) (ts : List Nat) (hn : ts.Nodup) (hr : ∀ t ∈ ts, t < N)
    (j : Nat) (hj : j < N) :
    (newOrder N ts).idxOf j = (invOrder N ts)[j]'(by rw [invOrder_length N ts hn hr]; exact hj) := by
  have hlen := invOrder_length N ts hn hr
  have hjl : j < (invOrder N ts).length := by rw [hlen]; exact hj
  have hiN : (invOrder N ts)[j] < N := (mem_invOrder hr).mp (List.getElem_mem hjl)
  have hil : (invOrder N ts)[j] < (newOrder N ts).length := by rw [newOrder_length]; exact hiN
  unfold List.idxOf
  rw [List.findIdx_eq hil]
  constructor
  · have h := newOrder_get' N ts hn _ hiN
    rw [List.getElem?_eq_getElem hil] at h
    have h' := Option.some.inj h
    rw [h', (invOrder_nodup N ts hn).idxOf_getElem]
    simp
  · intro q hq
    have hqN : q < N := Nat.lt_trans hq hiN
    have hql : q < (newOrder N ts).length := by rw [newOrder_length]; exact hqN
    have h := newOrder_get' N ts hn q hqN
    rw [List.getElem?_eq_getElem hql] at h
    have h' := Option.some.inj h
    rw [h']
    have hqm : q ∈ invOrder N ts := (mem_invOrder hr).mpr hqN
    simp only [beq_eq_false_iff_ne, ne_eq]
    intro hc
    have : (invOrder N ts)[(invOrder N ts).idxOf q]'(List.idxOf_lt_length_of_mem hqm) = q :=
      List.getElem_idxOf _
    simp only [hc] at this
    omega

theorem unpermute_eq (N : Nat) (ts : List Nat) (hn : ts.Nodup) (hr : ∀ t ∈ ts, t < N) (x : List Nat) :
    unpermute (newOrder N ts) x = (invOrder N ts).map (fun p => x.getD p 0) := by
  have hlen := invOrder_length N ts hn hr
  apply List.ext_getElem
  · simp [unpermute, newOrder_length, hlen]
  · intro j h1 h2
    have hj : j < N := by simpa [unpermute, newOrder_length] using h1
    simp only [unpermute, List.getElem_map, List.getElem_range]
    rw [newOrder_idxOf N ts hn hr j hj]

end QipVerif.Embed
