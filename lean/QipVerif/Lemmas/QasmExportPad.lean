import QipVerif.Lemmas.QasmRoundtrip
import QipVerif.Lemmas.QasmPadTok
/-!
# The exporter prints its parameters with `_qasm_real` (C10)

`Export.exportCircuit c = Export.exportCore c.out`: the circuit is printed from the texts
`_qasm_real` gives (`Num.out`; the identity on a tree without `_qasm_real`).  This file shows that
printing changes nothing but the text:

* the real value of a number (`litVal_padExp`, `numVal_out`), hence the unitary `denX` / `denG`
  of the circuit (`filterMap_xOfOp_out`, `irList_out`, `paramAt_out`);
* the truthiness the model derives from a text, hence the exporter's presence test
  (`argPresent_out`) — printing `c.out` with `exportCore` takes the same branches as the code on `c`;
* names, qubits, shapes (`addedNames_out`, …).

and that on the repaired tree every number Python can print is printed as one token of the
standard: `goodCircuit_out_of_py`.
-/
namespace QipVerif.Qasm.Export
open QipVerif QipVerif.Qasm Matrix

/-! ## `_qasm_real` keeps the value -/

theorem litVal_minus (t : Str) : litVal ('-' :: t) = 0 := by
  have h : spanDigits ('-' :: t) = ([], '-' :: t) := by simp [spanDigits, isDigit]
  simp [litVal, h, digitsVal]

/-- **the padded text denotes the same real number** — for every text -/
theorem litVal_padExp (s : Str) : litVal (padExp s) = litVal s := by
  unfold padExp
  split
  · rename_i m rest hp
    have hs := partE_some hp
    simp only []
    split
    · rename_i hcond
      simp only [Bool.and_eq_true, Bool.not_eq_true'] at hcond
      rcases dropMinus_cases m with hd | ⟨m', rfl⟩
      · rw [hd] at hcond
        rw [hs]
        have h1 : spanDigits (m ++ 'e' :: rest) = (m, 'e' :: rest) :=
          spanDigits_append _ _ hcond.2 (Or.inr ⟨'e', rest, rfl, by decide⟩)
        have h2 : spanDigits (m ++ '.' :: '0' :: 'e' :: rest) = (m, '.' :: '0' :: 'e' :: rest) :=
          spanDigits_append _ _ hcond.2 (Or.inr ⟨'.', _, rfl, by decide⟩)
        have h3 : spanDigits ('0' :: 'e' :: rest) = (['0'], 'e' :: rest) :=
          spanDigits_append ['0'] _ (by decide) (Or.inr ⟨'e', rest, rfl, by decide⟩)
        simp only [litVal, h1, h2, h3]
        simp [digitsVal, digitVal]
      · rw [hs]
        simp only [List.cons_append]
        rw [litVal_minus, litVal_minus]
    · rfl
  · rfl

theorem numVal_out (x : Num) : numVal x.out = numVal x := by
  unfold Num.out
  split
  · cases hn : x.neg <;> simp [numVal, numExpr, hn, Expr.eval, litVal_padExp]
  · rfl

/-! ## `_qasm_real` keeps the truthiness derived from the text -/

theorem isPyNum_minus (t : Str) : isPyNum ('-' :: t) = false := by
  have h : spanDigits ('-' :: t) = ([], '-' :: t) := by simp [spanDigits, isDigit]
  simp [isPyNum, h]

theorem truthy_padExp (s : Str) :
    (isPyNum (padExp s) && pyNumIsZero (padExp s)) = (isPyNum s && pyNumIsZero s) := by
  unfold padExp
  split
  · rename_i m rest hp
    have hs := partE_some hp
    simp only []
    split
    · rename_i hcond
      simp only [Bool.and_eq_true, Bool.not_eq_true'] at hcond
      rcases dropMinus_cases m with hd | ⟨m', rfl⟩
      · rw [hd] at hcond
        rw [hs]
        have h1 : spanDigits (m ++ 'e' :: rest) = (m, 'e' :: rest) :=
          spanDigits_append _ _ hcond.2 (Or.inr ⟨'e', rest, rfl, by decide⟩)
        have h2 : spanDigits (m ++ '.' :: '0' :: 'e' :: rest) = (m, '.' :: '0' :: 'e' :: rest) :=
          spanDigits_append _ _ hcond.2 (Or.inr ⟨'.', _, rfl, by decide⟩)
        have h3 : spanDigits ('0' :: 'e' :: rest) = (['0'], 'e' :: rest) :=
          spanDigits_append ['0'] _ (by decide) (Or.inr ⟨'e', rest, rfl, by decide⟩)
        simp only [isPyNum, pyNumIsZero, h1, h2, h3]
        simp
      · rw [hs]
        simp only [List.cons_append]
        rw [isPyNum_minus, isPyNum_minus]
        rfl
    · rfl
  · rfl

theorem truthy_out (x : Num) : x.out.truthy = x.truthy := by
  unfold Num.out
  split
  · simp only [Num.truthy, truthy_padExp]
  · rfl

/-- **the presence test of `_qasm_str` gives the same answer on the printed value**: the code
tests the value before it prints it; the model may test the printed text -/
theorem argPresent_out (a : ArgVal) : argPresent a.out = argPresent a := by
  cases a with
  | none => rfl
  | num x => simp [ArgVal.out, argPresent, truthy_out]
  | seq k w xs =>
    simp only [ArgVal.out, argPresent]
    match xs with
    | [] => rfl
    | [x] => simp [truthy_out]
    | x :: y :: r => simp

theorem argNums_out (a : ArgVal) : argNums a.out = (argNums a).map Num.out := by
  cases a <;> simp [ArgVal.out, argNums]

theorem argOk_out (a : ArgVal) : argOk a.out = argOk a := by
  cases a with
  | none => rfl
  | num x =>
    have := argPresent_out (.num x)
    simp only [ArgVal.out] at this
    simp only [ArgVal.out, argOk, this]
  | seq k w xs =>
    have := argPresent_out (.seq k w xs)
    simp only [ArgVal.out] at this
    simp only [ArgVal.out, argOk, this, List.isEmpty_map]

/-! ## printing changes neither names nor qubits nor the unitary -/

theorem xOf_out (g : Gate) : xOf g.out = xOf g := by
  have : (argNums g.arg.out).map numVal = (argNums g.arg).map numVal := by
    rw [argNums_out, List.map_map]
    exact List.map_congr_left (fun x _ => numVal_out x)
  simp only [xOf, Gate.out, this]
  rfl

theorem xOfOp_out (op : Op) : xOfOp op.out = xOfOp op := by
  cases op with
  | gate g => simp [Op.out, xOfOp, xOf_out]
  | meas ts st => rfl

/-- the printed circuit has the gates (names, qubits, real parameters) of the circuit -/
theorem filterMap_xOfOp_out (ops : List Op) : (ops.map Op.out).filterMap xOfOp = ops.filterMap xOfOp := by
  rw [List.filterMap_map]
  exact List.filterMap_congr (fun op _ => xOfOp_out op)

theorem addedNames_out (ops : List Op) (m : List (Str × Str)) :
    addedNames (ops.map Op.out) m = addedNames ops m := by
  induction ops generalizing m with
  | nil => rfl
  | cons op ops ih =>
    cases op with
    | meas ts st => simpa [addedNames, Op.out] using ih m
    | gate g => simp [addedNames, Op.out, Gate.out, ih]

theorem irGate_out (g : Gate) (j : ℕ) : irGate g.out j = irGate g j := by
  have : (argNums g.arg.out).isEmpty = (argNums g.arg).isEmpty := by rw [argNums_out, List.isEmpty_map]
  simp only [irGate, Gate.out, this]
  rfl

theorem irList_out (ops : List Op) (j : ℕ) : irList (ops.map Op.out) j = irList ops j := by
  induction ops generalizing j with
  | nil => rfl
  | cons op ops ih =>
    cases op with
    | meas ts st => simpa [irList, Op.out] using ih (j + 1)
    | gate g => simp [irList, Op.out, irGate_out, ih]

theorem paramAt_out (ops : List Op) (i : ℕ) : paramAt (ops.map Op.out) i = paramAt ops i := by
  unfold paramAt
  rw [List.getElem?_map]
  cases ops[i]? with
  | none => rfl
  | some op =>
    cases op with
    | meas ts st => rfl
    | gate g =>
      have : (argNums g.arg.out).map numVal = (argNums g.arg).map numVal := by
        rw [argNums_out, List.map_map]
        exact List.map_congr_left (fun x _ => numVal_out x)
      simp only [Option.map_some, Op.out, Gate.out]
      exact congrArg (fun l => List.headD l 0) this

theorem mem_out {ops : List Op} {g : Gate} (h : Op.gate g ∈ ops.map Op.out) :
    ∃ g', Op.gate g' ∈ ops ∧ g = g'.out := by
  obtain ⟨op, hop, he⟩ := List.mem_map.mp h
  cases op with
  | meas ts st => cases he
  | gate g' => exact ⟨g', hop, by simpa [Op.out] using he.symm⟩

/-- without `_qasm_real` in the source the printed circuit is the circuit -/
theorem Circuit.out_eq_self (h : Gen.exportPadsExponent = false) (c : Circuit) : c.out = c := by
  have hn : ∀ x : Num, x.out = x := fun x => by simp [Num.out, h]
  have ha : ∀ a : ArgVal, a.out = a := fun a => by
    cases a with
    | none => rfl
    | num x => simp [ArgVal.out, hn]
    | seq k w xs =>
      have : xs.map Num.out = xs := by
        rw [List.map_congr_left (fun x _ => hn x)]; simp
      simp [ArgVal.out, h, this]
  have ho : ∀ op : Op, op.out = op := fun op => by
    cases op with
    | meas ts st => rfl
    | gate g => simp [Op.out, Gate.out, ha]
  cases c with
  | mk N M ops =>
    simp only [Circuit.out, Circuit.mk.injEq, true_and]
    rw [List.map_congr_left (fun x _ => ho x)]; simp

/-! ## the class of the repaired exporter: numbers as Python prints them -/

/-- a gate of the class, the numbers being *what Python prints* (`isPyOut`, on the text before
`_qasm_real`): exportable gate, right numbers of controls / targets / parameters on distinct
qubits of the register, every parameter a finite `int` or `float`, parameters passing the
exporter's presence test, no classical control -/
structure GoodGatePy (N : Nat) (g : Gate) : Prop where
  targets : g.targets.isSome = true
  shape : shapeOf g.name =
    some ((ctrlList g).length, (g.targets.getD []).length, (argNums g.arg).length)
  range : ∀ q ∈ qubitsOf g, q < N
  nodup : (qubitsOf g).Nodup
  nums : ∀ x ∈ argNums g.arg, isPyOut x.txt = true
  present : argOk g.arg = true
  noClassical : g.cctrl = none ∨ g.cctrl = some []
  ctrlOnes : cvOk g = true

def PyCircuit (c : Circuit) : Prop :=
  ∀ op ∈ c.ops, ∃ g, op = .gate g ∧ GoodGatePy c.N g

/-- with `_qasm_real` in the source, every gate of the class is printed as a gate of `GoodGate`:
each number is one token of the standard -/
theorem goodGate_out_of_py (hfix : Gen.exportPadsExponent = true) {N : Nat} {g : Gate}
    (h : GoodGatePy N g) : GoodGate N g.out where
  targets := h.targets
  shape := by
    have : (argNums g.out.arg).length = (argNums g.arg).length := by
      simp [Gate.out, argNums_out]
    rw [this]
    exact h.shape
  range := h.range
  nodup := h.nodup
  nums := by
    intro x hx
    simp only [Gate.out, argNums_out, List.mem_map] at hx
    obtain ⟨y, hy, rfl⟩ := hx
    simp only [Num.out, hfix, if_true]
    exact padExp_token (h.nums y hy)
  present := by
    simp only [Gate.out, argOk_out]
    exact h.present
  noClassical := h.noClassical
  ctrlOnes := by simpa [cvOk, Gate.out] using h.ctrlOnes

theorem goodCircuit_out_of_py (hfix : Gen.exportPadsExponent = true) {c : Circuit}
    (h : PyCircuit c) : GoodCircuit c.out := by
  intro op hop
  obtain ⟨op', hop', rfl⟩ := List.mem_map.mp hop
  obtain ⟨g, rfl, hg⟩ := h op' hop'
  exact ⟨g.out, rfl, goodGate_out_of_py hfix hg⟩

end QipVerif.Qasm.Export
