import QipVerif.Lemmas.QasmExportDen
import QipVerif.Lemmas.QasmBridge2
import QipVerif.Lemmas.QasmMat2
/-!
# Per-definition soundness on the state spaces of the embedding algebra (C10)

`LocalSound n` for every exportable library gate `n` other than `QASMU`: the matrix identities of
`Lemmas/QasmMat*.lean` (on `Fin 2`-product index types) transported to `St k` by `Lemmas/QasmBridge*.lean`.
-/
namespace QipVerif.Qasm.Export
open QipVerif QipVerif.Qasm Matrix

theorem localSound_mk1 (n : Str) {d : GateDef} (nc nt np : Nat)
    (hfind : (localGates n).find? (fun x => x.name == qasmName n) = some d)
    (hshape : shapeOf n = some (nc, nt, np)) (hnp : d.params.length = np) (hk : d.qargs.length = 1)
    (hsum : 1 = nc + nt)
    (h : ∀ vals : List ℝ, vals.length = np → ∃ ps Mdoc,
      expandCall (localGates n) (qasmName n) (d.params.map Expr.id) (List.range 1) = .ok ps ∧
      ps.all (primOk 1) = true ∧ PhaseEq (den1 (envOf (d.params.zip vals)) ps) Mdoc ∧
      compactX (gnameOf n) vals = some ⟨1, mat1 Mdoc⟩) : LocalSound n := by
  refine ⟨d, nc, nt, np, 1, hfind, hshape, hnp, hk, hsum, fun vals hv => ?_⟩
  obtain ⟨ps, Mdoc, h1, h2, h3, h4⟩ := h vals hv
  exact ⟨ps, _, _, h1, denPrims_one _ ps h2, h4, PhaseEq.toN1 h3⟩

theorem localSound_mk2 (n : Str) {d : GateDef} (nc nt np : Nat)
    (hfind : (localGates n).find? (fun x => x.name == qasmName n) = some d)
    (hshape : shapeOf n = some (nc, nt, np)) (hnp : d.params.length = np) (hk : d.qargs.length = 2)
    (hsum : 2 = nc + nt)
    (h : ∀ vals : List ℝ, vals.length = np → ∃ ps Mdoc,
      expandCall (localGates n) (qasmName n) (d.params.map Expr.id) (List.range 2) = .ok ps ∧
      ps.all (primOk 2) = true ∧ PhaseEq (den2 (envOf (d.params.zip vals)) ps) Mdoc ∧
      compactX (gnameOf n) vals = some ⟨2, m2 Mdoc⟩) : LocalSound n := by
  refine ⟨d, nc, nt, np, 2, hfind, hshape, hnp, hk, hsum, fun vals hv => ?_⟩
  obtain ⟨ps, Mdoc, h1, h2, h3, h4⟩ := h vals hv
  exact ⟨ps, _, _, h1, denPrims_two _ ps h2, h4, PhaseEq.toN2 h3⟩

theorem localSound_mk3 (n : Str) {d : GateDef} (nc nt np : Nat)
    (hfind : (localGates n).find? (fun x => x.name == qasmName n) = some d)
    (hshape : shapeOf n = some (nc, nt, np)) (hnp : d.params.length = np) (hk : d.qargs.length = 3)
    (hsum : 3 = nc + nt)
    (h : ∀ vals : List ℝ, vals.length = np → ∃ ps Mdoc,
      expandCall (localGates n) (qasmName n) (d.params.map Expr.id) (List.range 3) = .ok ps ∧
      ps.all (primOk 3) = true ∧ PhaseEq (den3 (envOf (d.params.zip vals)) ps) Mdoc ∧
      compactX (gnameOf n) vals = some ⟨3, m3 Mdoc⟩) : LocalSound n := by
  refine ⟨d, nc, nt, np, 3, hfind, hshape, hnp, hk, hsum, fun vals hv => ?_⟩
  obtain ⟨ps, Mdoc, h1, h2, h3, h4⟩ := h vals hv
  exact ⟨ps, _, _, h1, denPrims_three _ ps h2, h4, PhaseEq.toN3 h3⟩

/-- extraction of the witnesses of an existential soundness statement whose expansion is known -/
theorem phase_of_shortcut {gates : List GateDef} {name : Str} {ps0 : List Prim} {P : List Prim → Prop}
    (h : ∃ ps, expandDef gates name = .ok ps ∧ P ps) (he : expandDef gates name = .ok ps0) : P ps0 := by
  obtain ⟨ps, h1, h2⟩ := h
  rw [he] at h1
  cases h1
  exact h2

theorem phase_of_defn {gname : Str} {d0 : GateDef} {ps0 : List Prim} {P : List Prim → Prop}
    (h : ∃ d ps, exportDef gname = some d ∧ expandDef (d :: qelib1.reverse) d.name = .ok ps ∧ P ps)
    (hd : exportDef gname = some d0) (he : expandDef (d0 :: qelib1.reverse) d0.name = .ok ps0) : P ps0 := by
  obtain ⟨d, ps, h1, h2, h3⟩ := h
  rw [hd] at h1
  cases h1
  rw [he] at h2
  cases h2
  exact h3

theorem ls_X : LocalSound cs!"X" :=
  localSound_mk1 _ 0 1 0 (by rfl) (by decide) rfl rfl rfl (fun vals hv => by
    match vals, hv with
    | [], _ => exact ⟨ps_x, Xm, by decide, by decide, phase_of_shortcut shortcut_x expand_x, compactC_X 0⟩)

theorem ls_Y : LocalSound cs!"Y" :=
  localSound_mk1 _ 0 1 0 (by rfl) (by decide) rfl rfl rfl (fun vals hv => by
    match vals, hv with
    | [], _ => exact ⟨ps_y, Ym, by decide, by decide, phase_of_shortcut shortcut_y expand_y, compactC_Y 0⟩)

theorem ls_Z : LocalSound cs!"Z" :=
  localSound_mk1 _ 0 1 0 (by rfl) (by decide) rfl rfl rfl (fun vals hv => by
    match vals, hv with
    | [], _ => exact ⟨ps_z, Zm, by decide, by decide, phase_of_shortcut shortcut_z expand_z, compactC_Z 0⟩)

theorem ls_SNOT : LocalSound cs!"SNOT" :=
  localSound_mk1 _ 0 1 0 (by rfl) (by decide) rfl rfl rfl (fun vals hv => by
    match vals, hv with
    | [], _ => exact ⟨ps_h, Hm, by decide, by decide, phase_of_shortcut shortcut_h expand_h, compactC_SNOT 0⟩)

theorem ls_S : LocalSound cs!"S" :=
  localSound_mk1 _ 0 1 0 (by rfl) (by decide) rfl rfl rfl (fun vals hv => by
    match vals, hv with
    | [], _ => exact ⟨ps_s, Sm, by decide, by decide, phase_of_shortcut shortcut_s expand_s, compactC_S 0⟩)

theorem ls_T : LocalSound cs!"T" :=
  localSound_mk1 _ 0 1 0 (by rfl) (by decide) rfl rfl rfl (fun vals hv => by
    match vals, hv with
    | [], _ => exact ⟨ps_t, Tm, by decide, by decide, phase_of_shortcut shortcut_t expand_t, compactC_T 0⟩)

theorem ls_SQRTNOT : LocalSound cs!"SQRTNOT" :=
  localSound_mk1 _ 0 1 0 (by rfl) (by decide) rfl rfl rfl (fun vals hv => by
    match vals, hv with
    | [], _ => exact ⟨ps_SQRTNOT, SQRTNOTm, by decide, by decide, phase_of_defn defn_sound_SQRTNOT exportDef_SQRTNOT expand_SQRTNOT, compactC_SQRTNOT 0⟩)

theorem ls_RX : LocalSound cs!"RX" :=
  localSound_mk1 _ 0 1 1 (by rfl) (by decide) rfl rfl rfl (fun vals hv => by
    match vals, hv with
    | [θ], _ => exact ⟨ps_rx, RXm θ, by decide, by decide, phase_of_shortcut (shortcut_rx θ) expand_rx, compactC_RX θ⟩)

theorem ls_RY : LocalSound cs!"RY" :=
  localSound_mk1 _ 0 1 1 (by rfl) (by decide) rfl rfl rfl (fun vals hv => by
    match vals, hv with
    | [θ], _ => exact ⟨ps_ry, RYm θ, by decide, by decide, phase_of_shortcut (shortcut_ry θ) expand_ry, compactC_RY θ⟩)

theorem ls_RZ : LocalSound cs!"RZ" :=
  localSound_mk1 _ 0 1 1 (by rfl) (by decide) rfl rfl rfl (fun vals hv => by
    match vals, hv with
    | [θ], _ => exact ⟨ps_rz, RZm θ, by decide, by decide, phase_of_shortcut (shortcut_rz θ) expand_rz, compactC_RZ θ⟩)

theorem ls_CNOT : LocalSound cs!"CNOT" :=
  localSound_mk2 _ 1 1 0 (by rfl) (by decide) rfl rfl rfl (fun vals hv => by
    match vals, hv with
    | [], _ => exact ⟨ps_cx, ctrl Xm, by decide, by decide, phase_of_shortcut shortcut_cx expand_cx, compactC_CNOT 0⟩)

theorem ls_CS : LocalSound cs!"CS" :=
  localSound_mk2 _ 1 1 0 (by rfl) (by decide) rfl rfl rfl (fun vals hv => by
    match vals, hv with
    | [], _ => exact ⟨ps_CS, ctrl Sm, by decide, by decide, phase_of_defn defn_sound_CS exportDef_CS expand_CS, compactC_CS 0⟩)

theorem ls_CT : LocalSound cs!"CT" :=
  localSound_mk2 _ 1 1 0 (by rfl) (by decide) rfl rfl rfl (fun vals hv => by
    match vals, hv with
    | [], _ => exact ⟨ps_CT, ctrl Tm, by decide, by decide, phase_of_defn defn_sound_CT exportDef_CT expand_CT, compactC_CT 0⟩)

theorem ls_SWAP : LocalSound cs!"SWAP" :=
  localSound_mk2 _ 0 2 0 (by rfl) (by decide) rfl rfl rfl (fun vals hv => by
    match vals, hv with
    | [], _ => exact ⟨ps_SWAP, SWAPm, by decide, by decide, phase_of_defn defn_sound_SWAP exportDef_SWAP expand_SWAP, compactC_SWAP 0⟩)

theorem ls_CRX : LocalSound cs!"CRX" :=
  localSound_mk2 _ 1 1 1 (by rfl) (by decide) rfl rfl rfl (fun vals hv => by
    match vals, hv with
    | [θ], _ => exact ⟨ps_CRX, ctrl (RXm θ), by decide, by decide, phase_of_defn (defn_sound_CRX θ) exportDef_CRX expand_CRX, compactC_CRX θ⟩)

theorem ls_CRY : LocalSound cs!"CRY" :=
  localSound_mk2 _ 1 1 1 (by rfl) (by decide) rfl rfl rfl (fun vals hv => by
    match vals, hv with
    | [θ], _ => exact ⟨ps_CRY, ctrl (RYm θ), by decide, by decide, phase_of_defn (defn_sound_CRY θ) exportDef_CRY expand_CRY, compactC_CRY θ⟩)

theorem ls_CRZ : LocalSound cs!"CRZ" :=
  localSound_mk2 _ 1 1 1 (by rfl) (by decide) rfl rfl rfl (fun vals hv => by
    match vals, hv with
    | [θ], _ => exact ⟨ps_crz, ctrl (RZm θ), by decide, by decide, phase_of_shortcut (shortcut_crz θ) expand_crz, compactC_CRZ θ⟩)

theorem ls_TOFFOLI : LocalSound cs!"TOFFOLI" :=
  localSound_mk3 _ 2 1 0 (by rfl) (by decide) rfl rfl rfl (fun vals hv => by
    match vals, hv with
    | [], _ => exact ⟨ps_ccx, TOFFOLIm, by decide, by decide, phase_of_shortcut shortcut_ccx expand_ccx, compactC_TOFFOLI 0⟩)

theorem compactC_CSIGN (θ : ℝ) : compactC .CSIGN θ = some ⟨2, m2 (ctrl Zm)⟩ := by
  show some (⟨2, toMatD 2 GateE.csign⟩ : Σ m : ℕ, Matrix (St m) (St m) ℂ) = _
  rw [toMatD_csign]

/-- `CZ` and `CSIGN` on a tree that writes them as `cz`: the `qelib1.inc` gate `cz` is the controlled-Z matrix -/
theorem ls_late (n : Str) (g : GName) (hg : gnameOf n = g) (hc : compactX g [] = some ⟨2, m2 (ctrl Zm)⟩)
    (hd : defOf n = none) (hs : shapeOf n = some (1, 1, 0))
    (h : lookup Gen.gateNameToQasm n = some cs!"cz") : LocalSound n := by
  have hq : qasmName n = cs!"cz" := by simp [qasmName, h]
  have hl : localGates n = qelib1.reverse := by simp [localGates, hd]
  refine localSound_mk2 n (d := ⟨cs!"cz", [], [cs!"a", cs!"b"],
      [.call cs!"h" [] [cs!"b"], .call cs!"cx" [] [cs!"a", cs!"b"], .call cs!"h" [] [cs!"b"]]⟩) 1 1 0
    (by rw [hl, hq]; decide) hs rfl rfl rfl (fun vals hv => ?_)
  match vals, hv with
  | [], _ =>
    refine ⟨ps_cz, ctrl Zm, ?_, by decide, phase_of_shortcut shortcut_cz expand_cz, ?_⟩
    · rw [hl, hq]; decide
    · rw [hg]
      exact hc

/-- **the table**: every exportable gate other than `QASMU` -/
theorem local_sound_table : ∀ e ∈ exportShape, e.1 ≠ cs!"QASMU" → LocalSound e.1 := by
  intro e he hne
  rw [exportShape, List.mem_append] at he
  rcases he with he | he
  swap
  · obtain ⟨hrow, hlk⟩ := mem_lateShape he
    rcases hrow with rfl | rfl
    · exact ls_late _ .CSIGN (by decide) (compactC_CSIGN 0) (by decide)
        (by simp only [shapeOf]; rw [exportShape]; simp [List.find?_append, baseShape, he, lateShape, hlk] <;> decide) hlk
    · exact ls_late _ .CZ (by decide) (compactC_CZ 0) (by decide)
        (by simp only [shapeOf]; rw [exportShape]; simp [List.find?_append, baseShape, he, lateShape, hlk] <;> decide) hlk
  simp only [baseShape, List.mem_cons, List.not_mem_nil, or_false] at he
  rcases he with rfl | rfl | rfl | rfl | rfl | rfl | rfl | rfl | rfl | rfl | rfl | rfl | rfl | rfl | rfl | rfl | rfl | rfl | rfl
  · exact absurd rfl hne
  · exact ls_RX
  · exact ls_RY
  · exact ls_RZ
  · exact ls_SNOT
  · exact ls_X
  · exact ls_Y
  · exact ls_Z
  · exact ls_S
  · exact ls_T
  · exact ls_SQRTNOT
  · exact ls_CNOT
  · exact ls_CRX
  · exact ls_CRY
  · exact ls_CRZ
  · exact ls_CS
  · exact ls_CT
  · exact ls_SWAP
  · exact ls_TOFFOLI

end QipVerif.Qasm.Export
