import QipVerif.Lemmas.SimKetRun
import QipVerif.Props.C08
/-!
# C01 — lazy matrices of the model as complex matrices; density-matrix mode; propagators
-/
namespace QipVerif.SimKet
open Matrix QipVerif.Embed

/-- the complex matrix a lazy model matrix of dimension `2^N` holds -/
noncomputable def matOf (N : ℕ) (A : FMat ℂ) : Matrix (St N) (St N) ℂ := fun x y => A.get (enc x) (enc y)

theorem force_get (A : FMat ℂ) (i j : ℕ) (hi : i < A.n) (hj : j < A.n) : (FMat.force opsC A).get i j = A.get i j := by
  simp only [FMat.force, FMat.ofRows, FMat.rows, List.getD_eq_getElem?_getD, List.getElem?_map,
    List.getElem?_range hi, List.getElem?_range hj, Option.map_some, Option.getD_some]

@[simp] theorem force_n (A : FMat ℂ) : (FMat.force opsC A).n = A.n := rfl
@[simp] theorem mul_n (A B : FMat ℂ) : (FMat.mul opsC A B).n = A.n := rfl
@[simp] theorem mulF_n (A B : FMat ℂ) : (FMat.mulF opsC A B).n = A.n := rfl
@[simp] theorem dagger_n (A : FMat ℂ) : (FMat.dagger opsC A).n = A.n := rfl

theorem matOf_force (N : ℕ) (A : FMat ℂ) (h : A.n = 2 ^ N) : matOf N (FMat.force opsC A) = matOf N A := by
  ext x y
  exact force_get A _ _ (h ▸ enc_lt x) (h ▸ enc_lt y)

theorem matOf_mul (N : ℕ) (A B : FMat ℂ) (h : A.n = 2 ^ N) :
    matOf N (FMat.mul opsC A B) = matOf N A * matOf N B := by
  unfold FMat.mul
  rw [matOf_force N (⟨A.n, fun i j => sumL opsC ((List.range A.n).map fun k => opsC.mul (A.get i k) (B.get k j))⟩ : FMat ℂ) h]
  ext x y
  simp only [matOf, Matrix.mul_apply]
  rw [sumL_range, h, sum_range_eq_sum_St]
  rfl

theorem matOf_mulF (N : ℕ) (A B : FMat ℂ) (hA : A.n = 2 ^ N) (hB : B.n = 2 ^ N) :
    matOf N (FMat.mulF opsC A B) = matOf N A * matOf N B := by
  unfold FMat.mulF
  rw [matOf_mul N _ _ (by simpa using hA), matOf_force N A hA, matOf_force N B hB]

theorem matOf_dagger (N : ℕ) (A : FMat ℂ) : matOf N (FMat.dagger opsC A) = (matOf N A)ᴴ := by
  ext x y
  simp [matOf, FMat.dagger, opsC, Matrix.conjTranspose_apply]

theorem matOf_smul (N : ℕ) (c : ℂ) (A : FMat ℂ) : matOf N (FMat.smul opsC c A) = c • matOf N A := by
  ext x y; simp [matOf, FMat.smul, opsC]

theorem matOf_smulR (N : ℕ) (c : ℂ) (A : FMat ℂ) : matOf N (FMat.smulR opsC A c) = c • matOf N A := by
  ext x y; simp [matOf, FMat.smulR, opsC, mul_comm]

theorem matOf_ident (N : ℕ) : matOf N (FMat.ident opsC (2 ^ N)) = 1 := by
  ext x y
  simp only [matOf, FMat.ident, Matrix.one_apply]
  by_cases h : x = y
  · subst h; simp [opsC]
  · have : enc x ≠ enc y := fun e => h (enc_inj e)
    simp [h, this, opsC]

/-- the matrix given by rows, on `m` qubits -/
theorem matOf_ofRows_eq_gateMat (m : ℕ) (U : List (List ℂ)) (hU : ∀ r ∈ U, r.length = 2 ^ m) :
    matOf m (FMat.ofRows opsC (2 ^ m) U) = gateMat m U := by
  ext a b
  simp only [matOf, FMat.ofRows, gateMat, Tensor.get, gateTensor]
  have h2 : List.replicate (2 * m) 2 = List.replicate m 2 ++ List.replicate m 2 := by
    rw [List.replicate_append_replicate]; congr 1; omega
  rw [h2, undigits_append _ _ _ _ (by simp), prodL_replicate]
  exact (getD_flatten_uniform U (2 ^ m) hU (enc a) (enc b) (enc_lt b) opsC.zero).symm

/-- **`expand_operator` in the model is the embedding** (C08's `expand_eq_spec` + the bridge to `Tg.embed`). -/
theorem matOf_expandV (N : ℕ) (qs : List ℕ) (hn : qs.Nodup) (hr : ∀ q ∈ qs, q < N) (U : FMat ℂ) :
    ∃ E, expandV opsC N qs qs.length U = .ok E ∧ E.n = 2 ^ N ∧
      matOf N E = (tgOfList N qs hn hr).embed (matOf qs.length U) := by
  have hval : validate (List.replicate N 2) (qs.map Int.ofNat) (List.replicate qs.length 2) = .ok qs := by
    rw [C08.validate_ok_iff]
    refine ⟨rfl, hn, by simpa using hr, ?_⟩
    rw [List.eq_replicate_iff]
    refine ⟨by simp, ?_⟩
    intro d hd
    obtain ⟨q, hq, rfl⟩ := List.mem_map.mp hd
    simp [List.getD_eq_getElem?_getD, hr q hq]
  unfold expandV
  simp only [hval]
  refine ⟨_, rfl, rfl, ?_⟩
  ext x y
  rw [Tg.embed_apply]
  simp only [matOf]
  rw [digits_enc, digits_enc, C08.expand_eq_spec N qs _ _ hn hr]
  have hmap : ∀ z : St N, qs.map (fun t => (bitsL z).getD t 0) = bitsL (z ∘ (tgOfList N qs hn hr).f) := by
    intro z
    have := map_getD_bits qs hn hr z []
    simpa using this
  have hcond : ((List.range N).all (fun i => qs.contains i || (bitsL x).getD i 0 == (bitsL y).getD i 0) = true)
      ↔ (∀ i, i ∉ Set.range (tgOfList N qs hn hr).f → x i = y i) := by
    rw [List.all_eq_true]
    constructor
    · intro h i hi
      have := h i.val (List.mem_range.mpr i.isLt)
      simp only [Bool.or_eq_true, List.contains_iff_mem, beq_iff_eq] at this
      rcases this with hq | hq
      · exfalso; apply hi
        obtain ⟨j, hj⟩ := List.getElem_of_mem hq
        obtain ⟨hjl, hje⟩ := hj
        exact ⟨⟨j, hjl⟩, Fin.ext (by simp [tgOfList, hje])⟩
      · rw [bitsL_getD x i.val i.isLt, bitsL_getD y i.val i.isLt] at hq
        exact Fin.ext hq
    · intro h i hi
      have hik : i < N := List.mem_range.mp hi
      simp only [Bool.or_eq_true, List.contains_iff_mem, beq_iff_eq]
      by_cases hq : i ∈ qs
      · exact Or.inl hq
      · right
        rw [bitsL_getD x i hik, bitsL_getD y i hik]
        have := h ⟨i, hik⟩ (by
          rintro ⟨j, hj⟩
          apply hq
          have : qs[j.val] = i := by simpa [tgOfList] using congrArg Fin.val hj
          exact this ▸ List.getElem_mem j.isLt)
        rw [this]
  unfold specEntry
  by_cases hc : (List.range N).all (fun i => qs.contains i || (bitsL x).getD i 0 == (bitsL y).getD i 0) = true
  · rw [if_pos hc, if_pos (hcond.mp hc)]
    simp only [hmap, mul_one]
    rfl
  · rw [if_neg hc, if_neg (fun h => hc (hcond.mpr h))]
    simp [opsC]


/-! ## Density-matrix mode -/

/-- **One density-matrix step is conjugation by the embedded gate** (GLOBALPHASE: by the scalar). -/
theorem stepDm_spec (N : ℕ) (op : Op ℂ) (hw : WFOp N op) (ρ : FMat ℂ) (hρ : ρ.n = 2 ^ N) :
    ∃ ρ', stepDm opsC N op ρ = .ok ρ' ∧ ρ'.n = 2 ^ N ∧
      matOf N ρ' = (toPGate N op).den * matOf N ρ * ((toPGate N op).den)ᴴ := by
  cases op with
  | phase c =>
    refine ⟨_, rfl, hρ, ?_⟩
    rw [matOf_force N (FMat.smulR opsC (FMat.smul opsC c ρ) (opsC.conj c)) hρ, matOf_smulR, matOf_smul, toPGate_phase_den]
    ext x y
    simp [opsC, Matrix.mul_apply, Matrix.smul_apply, Matrix.one_apply, Matrix.conjTranspose_apply]
    ring
  | gate qs m U =>
    obtain ⟨hn, hr, hm, hU⟩ := hw
    subst hm
    obtain ⟨E, hE, hEn, hEm⟩ := matOf_expandV N qs hn hr (FMat.ofRows opsC (2 ^ qs.length) U)
    refine ⟨FMat.mulF opsC (FMat.mulF opsC E ρ) (FMat.dagger opsC E), by simp only [stepDm, hE],
      by simpa using hEn, ?_⟩
    rw [matOf_mulF N _ _ (by simpa using hEn) (by simpa using hEn), matOf_mulF N _ _ hEn hρ, matOf_dagger, hEm,
      matOf_ofRows_eq_gateMat _ U hU, toPGate_gate_den N qs qs.length U hn hr]

/-- **A whole density-matrix run**: `ρ ↦ D ρ D†` with `D` the ordered product. -/
theorem runDm_spec (N : ℕ) (ops : List (Op ℂ)) (hw : ∀ op ∈ ops, WFOp N op) (ρ : FMat ℂ) (hρ : ρ.n = 2 ^ N) :
    ∃ ρ', runDm opsC N ops ρ = .ok ρ' ∧ ρ'.n = 2 ^ N ∧
      matOf N ρ' = denP (ops.map (toPGate N)) * matOf N ρ * (denP (ops.map (toPGate N)))ᴴ := by
  induction ops generalizing ρ with
  | nil => exact ⟨ρ, rfl, hρ, by simp [denP]⟩
  | cons op ops ih =>
    obtain ⟨ρ1, h1, h2, h3⟩ := stepDm_spec N op (hw op (by simp)) ρ hρ
    obtain ⟨ρ', g1, g2, g3⟩ := ih (fun o ho => hw o (by simp [ho])) ρ1 h2
    refine ⟨ρ', by simp only [runDm, h1, g1], g2, ?_⟩
    rw [g3, h3, List.map_cons, denP, Matrix.conjTranspose_mul]
    simp only [Matrix.mul_assoc]

/-- `ket2dm` -/
theorem matOf_ket2dm (N : ℕ) (amps : List ℂ) :
    matOf N (ket2dm opsC (2 ^ N) amps) = fun x y => amps.getD (enc x) 0 * star (amps.getD (enc y) 0) := by
  unfold ket2dm
  rw [matOf_force N (⟨2 ^ N, fun i j => opsC.mul (amps.getD i opsC.zero) (opsC.conj (amps.getD j opsC.zero))⟩ : FMat ℂ) rfl]
  rfl

/-! ## Propagators and their left-to-right product -/

/-- ordered product of a list of matrices, first factor applied first -/
noncomputable def mprod {N : ℕ} : List (Matrix (St N) (St N) ℂ) → Matrix (St N) (St N) ℂ
  | [] => 1
  | M :: Ms => mprod Ms * M

theorem denP_eq_mprod {N : ℕ} (gs : List (PGate N)) : denP gs = mprod (gs.map PGate.den) := by
  induction gs with
  | nil => rfl
  | cons g gs ih => simp only [denP, List.map_cons, mprod, ih]

/-- `propagators(expand=True)`: the embedded gate matrices, in order -/
theorem propagators_expand (N : ℕ) (ops : List (Op ℂ)) (hw : ∀ op ∈ ops, WFOp N op) :
    ∃ l, propagators opsC N true ops = .ok l ∧ (∀ A ∈ l, A.n = 2 ^ N) ∧
      l.map (matOf N) = ops.map (fun op => (toPGate N op).den) := by
  induction ops with
  | nil => exact ⟨[], rfl, by simp, rfl⟩
  | cons op ops ih =>
    obtain ⟨l, h1, h2, h3⟩ := ih (fun o ho => hw o (by simp [ho]))
    cases op with
    | phase c =>
      refine ⟨FMat.smul opsC c (FMat.ident opsC (2 ^ N)) :: l, by simp only [propagators, h1], ?_, ?_⟩
      · intro A hA
        rcases List.mem_cons.mp hA with rfl | hA
        · rfl
        · exact h2 A hA
      · simp only [List.map_cons, h3, matOf_smul, matOf_ident, toPGate_phase_den]
    | gate qs m U =>
      obtain ⟨hn, hr, hm, hU⟩ := hw (.gate qs m U) (by simp)
      subst hm
      obtain ⟨E, hE, hEn, hEm⟩ := matOf_expandV N qs hn hr (FMat.ofRows opsC (2 ^ qs.length) U)
      refine ⟨E :: l, by simp only [propagators, if_true, hE, h1], ?_, ?_⟩
      · intro A hA
        rcases List.mem_cons.mp hA with rfl | hA
        · exact hEn
        · exact h2 A hA
      · simp only [List.map_cons, h3, hEm, matOf_ofRows_eq_gateMat _ U hU, toPGate_gate_den N qs qs.length U hn hr]

/-- `propagators(expand=False)`: the gates' own matrices (GLOBALPHASE: the full-register scalar matrix) -/
theorem propagators_compact (N : ℕ) (ops : List (Op ℂ)) :
    propagators opsC N false ops = .ok (ops.map fun
      | .phase c => FMat.smul opsC c (FMat.ident opsC (2 ^ N))
      | .gate _ m U => FMat.ofRows opsC (2 ^ m) U) := by
  induction ops with
  | nil => rfl
  | cons op ops ih => cases op <;> simp [propagators, ih]

theorem seqProduct_some (N : ℕ) (l : List (FMat ℂ)) (hl : ∀ A ∈ l, A.n = 2 ^ N) (A0 : FMat ℂ) (h0 : A0.n = 2 ^ N) :
    ∃ P, seqProduct opsC true (some A0) l = some P ∧ P.n = 2 ^ N ∧
      matOf N P = mprod (l.map (matOf N)) * matOf N A0 := by
  induction l generalizing A0 with
  | nil => exact ⟨A0, rfl, h0, by simp [mprod]⟩
  | cons U rest ih =>
    have hU := hl U (by simp)
    obtain ⟨P, h1, h2, h3⟩ := ih (fun A hA => hl A (by simp [hA])) (FMat.mulF opsC U A0) (by simpa using hU)
    refine ⟨P, by simpa [seqProduct] using h1, h2, ?_⟩
    rw [h3, matOf_mulF N _ _ hU h0, List.map_cons, mprod, Matrix.mul_assoc]

/-- **The expanded propagators multiplied left to right give the ordered product** (non-empty circuit;
for the empty circuit the code returns the integer 1). -/
theorem propagators_product (N : ℕ) (ops : List (Op ℂ)) (hw : ∀ op ∈ ops, WFOp N op) (hne : ops ≠ []) :
    ∃ l P, propagators opsC N true ops = .ok l ∧ seqProduct opsC true none l = some P ∧
      matOf N P = denP (ops.map (toPGate N)) := by
  obtain ⟨l, h1, h2, h3⟩ := propagators_expand N ops hw
  cases l with
  | nil =>
    cases ops with
    | nil => exact absurd rfl hne
    | cons o os => simp at h3
  | cons U rest =>
    obtain ⟨P, g1, _, g3⟩ := seqProduct_some N rest (fun A hA => h2 A (by simp [hA])) U (h2 U (by simp))
    refine ⟨U :: rest, P, h1, by simpa [seqProduct] using g1, ?_⟩
    rw [g3, denP_eq_mprod, List.map_map]
    have : (ops.map (PGate.den ∘ toPGate N)) = (U :: rest).map (matOf N) := by rw [h3]; rfl
    rw [this, List.map_cons, mprod]

end QipVerif.SimKet
