import QipVerif.Lemmas.QasmLex
import QipVerif.Model.QasmExport
/-!
# `_qasm_real` produces numeric tokens of OpenQASM 2.0 (C10)

`isPyOut s` — `s` is a text Python prints for an `int` or a finite `float` (unsigned part):
`digits` without a leading zero, `digits '.' digits* [e[+-]?digits]`, or `digits e[+-]?digits`.
`padExp_token`: after `_qasm_real` (`Export.padExp`) every such text is exactly one `real` or
`nninteger` token of the strict recogniser.
-/
namespace QipVerif.Qasm
open QipVerif.Qasm.Export

/-! ## `spanDigits` -/

theorem spanDigits_spec (s : Str) :
    s = (spanDigits s).1 ++ (spanDigits s).2 ∧ (spanDigits s).1.all isDigit = true ∧
      ((spanDigits s).2 = [] ∨ ∃ c r, (spanDigits s).2 = c :: r ∧ isDigit c = false) := by
  induction s with
  | nil => simp [spanDigits]
  | cons c cs ih =>
    by_cases hc : isDigit c = true
    · obtain ⟨h1, h2, h3⟩ := ih
      simp only [spanDigits, hc, if_true]
      refine ⟨?_, ?_, h3⟩
      · simp only [List.cons_append]; rw [← h1]
      · simp [hc, h2]
    · simp only [spanDigits, hc, Bool.false_eq_true, if_false]
      exact ⟨rfl, rfl, Or.inr ⟨c, cs, rfl, by simpa using hc⟩⟩

theorem spanDigits_append (a r : Str) (ha : a.all isDigit = true)
    (hr : r = [] ∨ ∃ c t, r = c :: t ∧ isDigit c = false) : spanDigits (a ++ r) = (a, r) := by
  induction a with
  | nil =>
    rcases hr with rfl | ⟨c, t, rfl, hc⟩
    · rfl
    · simp [spanDigits, hc]
  | cons d ds ih =>
    simp only [List.all_cons, Bool.and_eq_true] at ha
    simp only [List.cons_append, spanDigits, ha.1, if_true, ih ha.2]

/-! ## the lexer on fractions and exponents -/

theorem lex_frac_cont (acc w : Str) (hw : w.all isDigit = true) :
    Lex (.frac acc) w [] (.frac (w.reverse ++ acc)) := by
  induction w generalizing acc with
  | nil => exact Lex.nil _
  | cons c cs ih =>
    simp only [List.all_cons, Bool.and_eq_true] at hw
    have := Lex.cons (st := .frac acc) (c := c) (o1 := []) (st1 := .frac (c :: acc)) (by simp [lexStep, hw.1])
      (ih (c :: acc) hw.2)
    simpa using this

theorem lex_expD_cont (acc w : Str) (hw : w.all isDigit = true) :
    Lex (.expD acc) w [] (.expD (w.reverse ++ acc)) := by
  induction w generalizing acc with
  | nil => exact Lex.nil _
  | cons c cs ih =>
    simp only [List.all_cons, Bool.and_eq_true] at hw
    have := Lex.cons (st := .expD acc) (c := c) (o1 := []) (st1 := .expD (c :: acc)) (by simp [lexStep, hw.1])
      (ih (c :: acc) hw.2)
    simpa using this

/-- exponent part as Python prints it: `e[+-]?[0-9]+` (lower-case `e`) -/
def isExpLower (e : Str) : Bool :=
  match e with
  | 'e' :: _ => isExpPart e
  | _ => false

theorem isExpLower_cases {e : Str} (h : isExpLower e = true) :
    ∃ sg d ds, e = 'e' :: (sg ++ d :: ds) ∧ (sg = [] ∨ sg = ['-'] ∨ sg = ['+']) ∧
      isDigit d = true ∧ ds.all isDigit = true := by
  unfold isExpLower at h
  split at h
  · rename_i rest
    simp only [isExpPart, beq_self_eq_true, Bool.true_or, Bool.true_and] at h
    split at h
    · rename_i ds
      cases ds with
      | nil => simp at h
      | cons d ds =>
        simp only [List.isEmpty_cons, Bool.not_false, List.all_cons, Bool.true_and, Bool.and_eq_true] at h
        exact ⟨['-'], d, ds, rfl, Or.inr (Or.inl rfl), h.1, h.2⟩
    · rename_i ds
      cases ds with
      | nil => simp at h
      | cons d ds =>
        simp only [List.isEmpty_cons, Bool.not_false, List.all_cons, Bool.true_and, Bool.and_eq_true] at h
        exact ⟨['+'], d, ds, rfl, Or.inr (Or.inr rfl), h.1, h.2⟩
    · cases rest with
      | nil => simp at h
      | cons d ds =>
        simp only [List.isEmpty_cons, Bool.not_false, List.all_cons, Bool.true_and, Bool.and_eq_true] at h
        exact ⟨[], d, ds, rfl, Or.inl rfl, h.1, h.2⟩
  · cases h

/-- a mantissa with a decimal point followed by an exponent part -/
theorem lex_exp (m sg : Str) (d : Char) (ds : Str) (hsg : sg = [] ∨ sg = ['-'] ∨ sg = ['+'])
    (hd : isDigit d = true) (hds : ds.all isDigit = true) :
    Lex (.frac m) ('e' :: (sg ++ d :: ds)) [] (.expD (ds.reverse ++ d :: (sg.reverse ++ 'e' :: m))) := by
  have h0 : lexStep (.frac m) 'e' = some ([], .expE m 'e') := by simp [lexStep, isDigit]
  have hD := lex_expD_cont
  rcases hsg with rfl | rfl | rfl
  · have h1 : lexStep (.expE m 'e') d = some ([], .expD (d :: 'e' :: m)) := by simp [lexStep, hd]
    have := Lex.cons h0 (Lex.cons h1 (hD (d :: 'e' :: m) ds hds))
    simpa using this
  · have h1 : lexStep (.expE m 'e') '-' = some ([], .expS m 'e' '-') := by simp [lexStep, isDigit]
    have h2 : lexStep (.expS m 'e' '-') d = some ([], .expD (d :: '-' :: 'e' :: m)) := by simp [lexStep, hd]
    have := Lex.cons h0 (Lex.cons h1 (Lex.cons h2 (hD (d :: '-' :: 'e' :: m) ds hds)))
    simpa using this
  · have h1 : lexStep (.expE m 'e') '+' = some ([], .expS m 'e' '+') := by simp [lexStep, isDigit]
    have h2 : lexStep (.expS m 'e' '+') d = some ([], .expD (d :: '+' :: 'e' :: m)) := by simp [lexStep, hd]
    have := Lex.cons h0 (Lex.cons h1 (Lex.cons h2 (hD (d :: '+' :: 'e' :: m) ds hds)))
    simpa using this

/-- `digits '.' digits* [e[+-]?digits]` is read as one `real` -/
theorem lex_real (ip fp e : Str) (hne : ip ≠ []) (hip : ip.all isDigit = true) (hfp : fp.all isDigit = true)
    (he : e = [] ∨ isExpLower e = true) :
    ∃ st, Lex .idle (ip ++ '.' :: fp ++ e) [] st ∧ st.flush = some [.real (ip ++ '.' :: fp ++ e)] := by
  have h1 := lex_digits ip hne hip
  have h2 : Lex (.int ip.reverse) ['.'] ([] ++ []) (.frac ('.' :: ip.reverse)) :=
    Lex.cons (by simp [lexStep, isDigit]) (Lex.nil _)
  have h3 := lex_frac_cont ('.' :: ip.reverse) fp hfp
  have h123 : Lex .idle (ip ++ '.' :: fp) [] (.frac (fp.reverse ++ '.' :: ip.reverse)) := by
    have := Lex.append (Lex.append h1 h2) h3
    simpa using this
  rcases he with rfl | he
  · refine ⟨_, by simpa using h123, ?_⟩
    simp [LexSt.flush]
  · obtain ⟨sg, d, ds, rfl, hsg, hd, hds⟩ := isExpLower_cases he
    have h4 := lex_exp (fp.reverse ++ '.' :: ip.reverse) sg d ds hsg hd hds
    refine ⟨_, by simpa using Lex.append h123 h4, ?_⟩
    simp [LexSt.flush]

theorem isNumToken_of_real {s : Str} {st : LexSt} (h : Lex .idle s [] st)
    (hf : st.flush = some [.real s]) : isNumToken s = true := by
  unfold isNumToken
  rw [show lexRun .idle s = some ([], st) from h]
  simp [hf]

theorem isNumToken_of_nat {s : Str} {st : LexSt} (h : Lex .idle s [] st)
    (hf : st.flush = some [.nat s]) (hn : isNNInt s = true) : isNumToken s = true := by
  unfold isNumToken
  rw [show lexRun .idle s = some ([], st) from h]
  simp [hf, hn]

/-! ## `partE`, `padExp` -/

theorem isDigit_ne_e {c : Char} (h : isDigit c = true) : c ≠ 'e' := by
  rintro rfl; exact absurd h (by decide)

theorem partE_none (s : Str) (h : ∀ c ∈ s, c ≠ 'e') : partE s = (s, none) := by
  induction s with
  | nil => rfl
  | cons c cs ih =>
    have hc : (c == 'e') = false := by simpa using h c (by simp)
    simp [partE, hc, ih (fun x hx => h x (by simp [hx]))]

theorem partE_append (m rest : Str) (h : ∀ c ∈ m, c ≠ 'e') : partE (m ++ 'e' :: rest) = (m, some rest) := by
  induction m with
  | nil => simp [partE]
  | cons c cs ih =>
    have hc : (c == 'e') = false := by simpa using h c (by simp)
    simp [partE, hc, ih (fun x hx => h x (by simp [hx]))]

/-- `partition`: the pieces put together give the text back -/
theorem partE_some {s m rest : Str} (h : partE s = (m, some rest)) : s = m ++ 'e' :: rest := by
  induction s generalizing m with
  | nil => simp [partE] at h
  | cons c cs ih =>
    by_cases hc : (c == 'e') = true
    · have : c = 'e' := by simpa using hc
      subst this
      simp only [partE, beq_self_eq_true, if_true, Prod.mk.injEq, Option.some.injEq] at h
      obtain ⟨rfl, rfl⟩ := h
      rfl
    · simp only [partE, hc, Bool.false_eq_true, if_false, Prod.mk.injEq] at h
      obtain ⟨rfl, h2⟩ := h
      have := ih (m := (partE cs).1) (by rw [← h2])
      simp only [List.cons_append]
      rw [← this]

theorem dropMinus_cases (m : Str) : m.dropWhile (· == '-') = m ∨ ∃ m', m = '-' :: m' := by
  cases m with
  | nil => exact Or.inl rfl
  | cons c cs =>
    by_cases hc : (c == '-') = true
    · right; exact ⟨cs, by rw [show c = '-' by simpa using hc]⟩
    · left; simp [hc]

theorem mem_dropMinus {m : Str} {c : Char} (hc : c ∈ m) (hne : c ≠ '-') : c ∈ m.dropWhile (· == '-') := by
  induction m with
  | nil => cases hc
  | cons d ds ih =>
    by_cases hd : (d == '-') = true
    · simp only [List.dropWhile_cons, hd, if_true]
      rcases List.mem_cons.mp hc with h | h
      · subst h; exact absurd (by simpa using hd) hne
      · exact ih h
    · simpa [List.dropWhile_cons, hd] using hc

/-- a text whose mantissa has a character that is neither a digit nor `-` is left alone -/
theorem padExp_self_of_mem (m rest : Str) (c : Char) (hm : ∀ x ∈ m, x ≠ 'e') (hc : c ∈ m)
    (h1 : c ≠ '-') (h2 : isDigit c = false) : padExp (m ++ 'e' :: rest) = m ++ 'e' :: rest := by
  unfold padExp
  rw [partE_append m rest hm]
  have : (m.dropWhile (· == '-')).all isDigit = false := by
    rw [List.all_eq_false]
    exact ⟨c, mem_dropMinus hc h1, by simp [h2]⟩
  simp [this]

theorem padExp_self_of_none (s : Str) (h : ∀ c ∈ s, c ≠ 'e') : padExp s = s := by
  unfold padExp
  rw [partE_none s h]

/-- digits followed by an exponent part receive `.0` -/
theorem padExp_digits (m rest : Str) (hne : m ≠ []) (hm : m.all isDigit = true) :
    padExp (m ++ 'e' :: rest) = m ++ '.' :: '0' :: 'e' :: rest := by
  unfold padExp
  rw [partE_append m rest (fun c hc => isDigit_ne_e (List.all_eq_true.mp hm c hc))]
  have hd : m.dropWhile (· == '-') = m := by
    rcases dropMinus_cases m with h | ⟨m', rfl⟩
    · exact h
    · simp only [List.all_cons, Bool.and_eq_true] at hm
      exact absurd hm.1 (by decide)
  have : m.isEmpty = false := by cases m <;> simp_all
  simp [hd, hm, this]

/-! ## what Python prints -/

/-- unsigned text of `str(int)` / `repr(float)` of a finite number: `digits` without a leading
zero, or `digits '.' digits*` with an optional exponent part, or `digits` with an exponent part
(`1e-20`, `5e-324`, `1e+20`) -/
def isPyOut (s : Str) : Bool :=
  match (spanDigits s).2 with
  | [] => isNNInt s
  | '.' :: r' => !(spanDigits s).1.isEmpty && ((spanDigits r').2.isEmpty || isExpLower (spanDigits r').2)
  | e => !(spanDigits s).1.isEmpty && isExpLower e

theorem isNNInt_digits {s : Str} (h : isNNInt s = true) : s ≠ [] ∧ s.all isDigit = true := by
  unfold isNNInt at h
  split at h
  · cases h
  · exact ⟨by simp, by decide⟩
  · simp only [Bool.and_eq_true] at h
    exact ⟨by simp, by simp [h.1.1, h.2]⟩

/-- **`_qasm_real` gives a token of the standard**: for every text Python prints for an `int` or a
finite `float`, the padded text is exactly one `real` or `nninteger` of OpenQASM 2.0 -/
theorem padExp_token {s : Str} (h : isPyOut s = true) : isNumToken (padExp s) = true := by
  obtain ⟨hs, hip, hr3⟩ := spanDigits_spec s
  unfold isPyOut at h
  generalize hsp1 : (spanDigits s).1 = ip at *
  generalize hsp2 : (spanDigits s).2 = r at *
  split at h
  · -- an integer
    simp only [List.append_nil] at hs
    obtain ⟨hne, hd⟩ := isNNInt_digits h
    rw [padExp_self_of_none s (fun c hc => isDigit_ne_e (List.all_eq_true.mp hd c hc))]
    exact isNumToken_of_nat (lex_digits s hne hd) (by simp [LexSt.flush]) h
  · -- a decimal point
    rename_i r'
    simp only [Bool.and_eq_true, Bool.not_eq_true', Bool.or_eq_true, List.isEmpty_iff] at h
    obtain ⟨hne, he⟩ := h
    obtain ⟨hr, hfp, hr4⟩ := spanDigits_spec r'
    generalize (spanDigits r').1 = fp at *
    generalize (spanDigits r').2 = e at *
    have hne' : ip ≠ [] := by simpa [List.isEmpty_iff] using hne
    have hpad : padExp s = s := by
      rcases he with rfl | he
      · apply padExp_self_of_none
        intro c hc
        rw [hs, hr] at hc
        simp only [List.append_nil, List.mem_append, List.mem_cons] at hc
        rcases hc with hc | rfl | hc
        · exact isDigit_ne_e (List.all_eq_true.mp hip c hc)
        · decide
        · exact isDigit_ne_e (List.all_eq_true.mp hfp c hc)
      · obtain ⟨sg, d, ds, rfl, _, _, _⟩ := isExpLower_cases he
        have e1 : s = (ip ++ '.' :: fp) ++ 'e' :: (sg ++ d :: ds) := by rw [hs, hr]; simp
        rw [e1]
        apply padExp_self_of_mem _ _ '.' _ (by simp) (by decide) (by decide)
        intro c hc
        simp only [List.mem_append, List.mem_cons] at hc
        rcases hc with hc | rfl | hc
        · exact isDigit_ne_e (List.all_eq_true.mp hip c hc)
        · decide
        · exact isDigit_ne_e (List.all_eq_true.mp hfp c hc)
    rw [hpad]
    obtain ⟨st, hl, hf⟩ := lex_real ip fp e hne' hip hfp he
    have e2 : s = ip ++ '.' :: fp ++ e := by rw [hs, hr]; simp
    rw [← e2] at hl hf
    exact isNumToken_of_real hl hf
  · -- digits and an exponent part
    simp only [Bool.and_eq_true, Bool.not_eq_true'] at h
    obtain ⟨hne, he⟩ := h
    have hne' : ip ≠ [] := by simpa [List.isEmpty_iff] using hne
    obtain ⟨sg, d, ds, rfl, hsg, hd, hds⟩ := isExpLower_cases he
    rw [hs, padExp_digits ip _ hne' hip]
    obtain ⟨st, hl, hf⟩ := lex_real ip ['0'] ('e' :: (sg ++ d :: ds)) hne' hip (by decide) (Or.inr he)
    have e2 : ip ++ '.' :: ['0'] ++ 'e' :: (sg ++ d :: ds) = ip ++ '.' :: '0' :: 'e' :: (sg ++ d :: ds) := by simp
    rw [e2] at hl hf
    exact isNumToken_of_real hl hf

/-- the predicate on texts Python prints (and on some it never prints), and the token test before
and after `_qasm_real` -/
example : isPyOut cs!"1e-20" = true ∧ isPyOut cs!"5e-324" = true ∧ isPyOut cs!"1e+20" = true ∧
    isPyOut cs!"1.5e-07" = true ∧ isPyOut cs!"3.141592653589793" = true ∧ isPyOut cs!"0" = true ∧
    isPyOut cs!"12" = true ∧ isPyOut cs!"2.5" = true ∧ isPyOut cs!"inf" = false ∧ isPyOut cs!"nan" = false ∧
    isPyOut cs!"007" = false ∧ isNumToken cs!"1e-20" = false ∧ isNumToken (padExp cs!"1e-20") = true := by
  decide

end QipVerif.Qasm
