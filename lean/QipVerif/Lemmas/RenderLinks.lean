import QipVerif.Lemmas.RenderLabels3
/-! C20: `links_reach` — where the pieces of one iteration end up in the final picture. -/
namespace QipVerif.Render
variable {v : Variant}

/-- row `r` of a wire / of a piece: 0 = top, 1 = middle, 2 (or more) = bottom -/
def Wire.row (w : Wire) : Nat → Str
  | 0 => w.top
  | 1 => w.mid
  | _ => w.bot
def Seg.row (g : Seg) : Nat → Str
  | 0 => g.top
  | 1 => g.mid
  | _ => g.bot

/-- the character at column `x` of row `r` of wire `k` -/
def cell (st : St) (k r x : Nat) : Option Char := (st[k]?).bind fun w => (w.row r)[x]?

theorem getElem?_append_some {l l' : Str} {x : Nat} {ch : Char} (h : l[x]? = some ch) : (l ++ l')[x]? = some ch := by
  obtain ⟨hx, _⟩ := List.getElem?_eq_some_iff.mp h
  rw [List.getElem?_append_left hx]; exact h

/-- rows only grow at their right end: a character, once written, stays -/
theorem stable_cell (r x : Nat) (ch : Char) : Stable (fun w => (w.row r)[x]? = some ch) := by
  refine ⟨?_, ?_, ?_⟩
  · intro q X w h
    match r, h with
    | 0, h => exact getElem?_append_some h
    | 1, h => exact getElem?_append_some h
    | _ + 2, h => exact getElem?_append_some h
  · intro a b X w h
    obtain ⟨h1, h2, h3⟩ := manageWire_strs a b X w
    match r, h with
    | 0, h => simp only [Wire.row]; rw [h1]; exact h
    | 1, h => simp only [Wire.row]; rw [h2]; exact h
    | _ + 2, h => simp only [Wire.row]; rw [h3]; exact h
  · intro g w h
    match r, h with
    | 0, h => exact getElem?_append_some h
    | 1, h => exact getElem?_append_some h
    | _ + 2, h => exact getElem?_append_some h

theorem steps_append {sty : Style} {N C : Nat} {pre post : List Op} {op : Op} {st st' : St}
    (h : steps v sty N C st (pre ++ op :: post) = .ok st') :
    ∃ st1 st2, steps v sty N C st pre = .ok st1 ∧ step v sty N C st1 op = .ok st2 ∧ steps v sty N C st2 post = .ok st' := by
  induction pre generalizing st with
  | nil =>
    simp only [List.nil_append] at h
    unfold steps at h
    split at h
    · cases h
    · rename_i st2 h2
      exact ⟨st, st2, rfl, h2, h⟩
  | cons o pre ih =>
    simp only [List.cons_append] at h
    unfold steps at h
    split at h
    · cases h
    · rename_i sta ha
      obtain ⟨st1, st2, h1, h2, h3⟩ := ih h
      refine ⟨st1, st2, ?_, h2, h3⟩
      unfold steps
      rw [ha]; exact h1

/-- a cell of the state after some iteration is a cell of the final picture -/
theorem cell_final {sty : Style} {c : Circ} {st2 st1 : St} {post : List Op}
    (h3 : steps v sty c.N c.C st2 post = .ok st1) {k r x : Nat} {ch : Char} (hc : cell st2 k r x = some ch) :
    cell (finalPad sty c.N st1) k r x = some ch := by
  unfold cell at *
  cases hk : st2[k]? with
  | none => rw [hk] at hc; cases hc
  | some w =>
    rw [hk] at hc
    simp only [Option.bind_some] at hc
    obtain ⟨w1, hk1, hw1⟩ := steps_stable (stable_cell r x ch) h3 k w hk hc
    obtain ⟨w2, hk2, hw2⟩ := finalPad_stable (stable_cell r x ch) sty c.N st1 k w1 hk1 hw1
    rw [hk2]; exact hw2

section place
variable {align : Bool} {N C : Nat} {pl : Plan} {st : St}

/-- **where a piece lands**: in a covered iteration every piece starts at column `xskip` of its
wire (the wire was padded to exactly `xskip` before). -/
theorem place_cells (hinv : Inv N st) (hpl : PlanOk N C pl) (hN : ¬ (align = true ∧ N = 0))
    (hlen : st.length = N + C) (a : Nat × Seg) (ha : a ∈ pl.acts) (r i : Nat) (ch : Char)
    (hch : (a.2.row r)[i]? = some ch) :
    cell (place align N pl st) a.1 r ((getXskip align N st pl.wl (layerOf st pl.wl)).toNat + i) = some ch := by
  have hmem : a.1 ∈ pl.wl := hpl.acts_sub a ha
  have hlt : a.1 < st.length := by have := hpl.wl_lt a.1 hmem; omega
  have hk : st[a.1]? = some st[a.1] := List.getElem?_eq_getElem hlt
  have hfst : (pl.acts.map fun a => (a.1, appendSeg a.2)).map (·.1) = pl.acts.map (·.1) := by
    rw [List.map_map]; rfl
  have hX := sum_le_xskip hinv hpl hN hlen hk hmem
  have hw := hinv.aligned _ (List.mem_of_getElem? hk)
  obtain ⟨s1, s2, s3⟩ := padManage_spec (decide (a.1 < N)) _ pl.width (layerOf st pl.wl) st[a.1] hw
    (hinv.le _ (List.mem_of_getElem? hk)) hX (le_layerOf hk hmem)
  have hmem' : (a.1, appendSeg a.2) ∈ pl.acts.map fun a => (a.1, appendSeg a.2) := List.mem_map.mpr ⟨a, ha, rfl⟩
  have hcomp := compAt_nodup_mem _ (by rw [hfst]; exact hpl.acts_nodup) _ hmem'
  unfold cell
  simp only [place, applyActs_eq, manageLayers_eq, adjustPad_eq, modAll_getElem?, hk, Option.map_some,
    compAt_map_nodup _ _ _ hpl.wl_nodup, if_pos hmem, Option.bind_some]
  simp only [] at hcomp
  rw [hcomp]
  have hl0 : (manageWire pl.width (layerOf st pl.wl) (getXskip align N st pl.wl (layerOf st pl.wl))
      (padWire (decide (a.1 < N)) (getXskip align N st pl.wl (layerOf st pl.wl)) st[a.1])).top.length
      = (getXskip align N st pl.wl (layerOf st pl.wl)).toNat := by omega
  match r, hch with
  | 0, hch =>
    simp only [Wire.row, appendSeg]
    rw [List.getElem?_append_right (by omega), hl0, Nat.add_sub_cancel_left]; exact hch
  | 1, hch =>
    simp only [Wire.row, appendSeg]
    rw [List.getElem?_append_right (by rw [← s3.1]; omega), ← s3.1, hl0, Nat.add_sub_cancel_left]; exact hch
  | _ + 2, hch =>
    simp only [Wire.row, appendSeg]
    rw [List.getElem?_append_right (by rw [s3.2, ← s3.1]; omega), s3.2, ← s3.1, hl0, Nat.add_sub_cancel_left]; exact hch

end place

/-- **the general form of `links_reach`**: split a covered circuit at any element; every character of
every piece the element's iteration appends is found in the final picture on the piece's wire, at
the column `xskip + offset` — the same `xskip` for all wires of the element. -/
theorem piece_in_picture {sty : Style} {c : Circ} {st : St} (hc : circOk v sty c = true) (h : layoutSt v sty c = .ok st)
    {pre post : List Op} {op : Op} (hops : c.ops = pre ++ op :: post) :
    ∃ (xs : Nat) (pl : Plan), plan v sty.pad c.N c.C op = .ok pl ∧
      ∀ a ∈ pl.acts, ∀ r i ch, (a.2.row r)[i]? = some ch → cell st a.1 r (xs + i) = some ch := by
  simp only [circOk, Bool.and_eq_true, List.all_eq_true] at hc
  obtain ⟨st0, stf, h0, hsteps, rfl⟩ := layoutSt_ok h
  rw [hops] at hsteps
  obtain ⟨st1, st2, h1, h2, h3⟩ := steps_append hsteps
  have hpre : ∀ o ∈ pre, opOk v c.N o = true := fun o ho => hc.2 o (by rw [hops]; exact List.mem_append_left _ ho)
  have hop : opOk v c.N op = true := hc.2 op (by rw [hops]; simp)
  have hinv := steps_inv hpre h1 (labels_inv hc.1 h0)
  obtain ⟨pl, hpl, _, _, hN, rfl⟩ := step_ok h2
  refine ⟨(getXskip sty.align c.N st1 pl.wl (layerOf st1 pl.wl)).toNat, pl, hpl, fun a ha r i ch hch => ?_⟩
  exact cell_final h3 (place_cells hinv.1 (plan_ok hop hpl) hN hinv.2 a ha r i ch hch)

end QipVerif.Render
