import QipVerif.Lemmas.ConcatGap
import QipVerif.Lemmas.ConcatSrcEq
/-! The repaired `_concatenate_pulses` on **every** schedule, whatever the size of the idle gaps, and on schedules whose
start times carry the scheduler's rounding (C12).

`pureLoopT thr` is what the channel loop appends when the idle test is `start - last > thr`: the tolerance-free lists
with the idle stretch left out for every gap `≤ thr`.  `ChainR thr` is the hypothesis: well-formed waves, start times
sorted, every start at most `thr` before the previous end (`thr = 0`: exactly non-overlapping), the first point of every
instruction after the previous end. -/
namespace QipVerif.Concat
open QipVerif.Grid (stepAt stepAt_lt_head stepAt_ge_all mem_le_last)

/-- instructions of a channel whose start times may carry a rounding of at most `thr`: sorted by start, every start at
most `thr` before the end of the previous instruction, the first grid point of every instruction after that end -/
def ChainR (thr : Rat) : Rat → List (Rat × Wave) → Prop
  | _, [] => True
  | last, (s, w) :: rest =>
    WaveOK w ∧ last - thr ≤ s ∧ last < s + w.step ∧ (∀ sw ∈ rest, s ≤ sw.1) ∧ ChainR thr (s + w.dur) rest

theorem Chain.chainR {thr : Rat} (hthr : 0 ≤ thr) {instrs : List (Rat × Wave)} :
    ∀ {last : Rat}, Chain last instrs → ChainR thr last instrs := by
  induction instrs with
  | nil => intros; trivial
  | cons sw rest ih =>
    intro last hc
    obtain ⟨s, w⟩ := sw
    obtain ⟨hw, hls, hrest⟩ := hc
    have hp := proc_of_ok hw
    have hsp := hp.step_pos
    rw [hp.step_eq] at hsp
    have hdp := dur_pos hp
    refine ⟨hw, by grind, by grind, ?_, ih hrest⟩
    intro sw hsw
    have := chain_starts hrest sw hsw
    grind

theorem chainR_all_ok {thr : Rat} {instrs : List (Rat × Wave)} :
    ∀ {last : Rat}, ChainR thr last instrs → ∀ sw ∈ instrs, WaveOK sw.2 := by
  induction instrs with
  | nil => intro _ _ sw h; simp at h
  | cons a rest ih =>
    intro last hc sw h
    obtain ⟨s, w⟩ := a
    rcases List.mem_cons.mp h with rfl | h
    · exact hc.1
    · exact ih hc.2.2.2.2 sw h

/-- what the channel loop appends when the idle test is `start - last > thr` -/
def pureLoopT (thr : Rat) : Rat → List (Rat × Wave) → List Rat × List Rat
  | _, [] => ([], [])
  | last, (s, w) :: rest =>
    let p := w.proc
    let idl := if thr < s - last then idlePure p.mode s last p.step else []
    let r := pureLoopT thr (s + w.dur) rest
    (idl ++ (p.gt.map (· + s) ++ r.1), idl.map (fun _ => (0 : Rat)) ++ (p.cs ++ r.2))

theorem step_le_dur {w : Wave} {p : Proc} (hp : ProcOK w p) : w.step ≤ w.dur := by
  have hne := hp.gt_ne
  have hl := hp.last
  rw [List.getLast?_eq_some_getLast hne] at hl
  simp only [Option.getD_some] at hl
  have hmem : p.step ∈ p.gt := by
    have := hp.head
    cases hg : p.gt with
    | nil => exact absurd hg hne
    | cons g gs => rw [hg] at this; simp at this; simp [this]
  have := mem_le_last (List.pairwise_cons.mp hp.gt_inc).2 (List.getLast?_eq_some_getLast hne) p.step hmem
  rw [← hp.step_eq, ← hl]; exact this

theorem exec_after {w : Wave} {p : Proc} (hp : ProcOK w p) (s last : Rat) (h : last < s + w.step) :
    ∀ x ∈ p.gt.map (· + s), last < x := by
  intro x hx
  obtain ⟨y, hy, rfl⟩ := List.mem_map.mp hx
  have hh := hp.head
  have hinc := (List.pairwise_cons.mp hp.gt_inc).2
  rw [← hp.step_eq] at h
  cases hg : p.gt with
  | nil => rw [hg] at hy; simp at hy
  | cons g gs =>
    rw [hg] at hh hy hinc
    simp at hh
    rcases List.mem_cons.mp hy with rfl | hy
    · grind
    · have := (List.pairwise_cons.mp hinc).1 y hy; grind

theorem idlT_bounds {m : Mode} {thr s last step x : Rat} (hthr : 0 ≤ thr) (hs : 0 < step)
    (hx : x ∈ (if thr < s - last then idlePure m s last step else [])) : last < x ∧ x ≤ s := by
  by_cases hlt : thr < s - last
  · rw [if_pos hlt] at hx
    exact idl_bounds (m := m) hs (by rw [if_pos (by grind)]; exact hx)
  · rw [if_neg hlt] at hx; simp at hx

theorem bodyT_pairwise {w : Wave} {p : Proc} (hp : ProcOK w p) (thr s last : Rat) (hthr : 0 ≤ thr)
    (h2 : last < s + w.step) :
    (last :: ((if thr < s - last then idlePure p.mode s last p.step else []) ++ p.gt.map (· + s))).Pairwise (· < ·) := by
  by_cases hlt : thr < s - last
  · rw [if_pos hlt]
    have hls : last < s := by grind
    have := body_pairwise hp s last (Rat.le_of_lt hls)
    rw [if_pos hls] at this
    exact this
  · rw [if_neg hlt]
    simp only [List.nil_append]
    exact List.pairwise_cons.mpr ⟨exec_after hp s last h2, (List.pairwise_cons.mp (exec_pairwise hp s)).2⟩

theorem pureLoopT_struct (thr : Rat) (hthr : 0 ≤ thr) (instrs : List (Rat × Wave)) : ∀ last, ChainR thr last instrs →
    (last :: (pureLoopT thr last instrs).1).Pairwise (· < ·) ∧
    (pureLoopT thr last instrs).1.length = (pureLoopT thr last instrs).2.length ∧
    (last :: (pureLoopT thr last instrs).1).getLast? = some (endOf last instrs) ∧
    last ≤ endOf last instrs := by
  induction instrs with
  | nil => intro last _; simp [pureLoopT, endOf]
  | cons sw rest ih =>
    intro last hc
    obtain ⟨s, w⟩ := sw
    obtain ⟨hw, _, h2, _, hrest⟩ := hc
    have hp := proc_of_ok hw
    obtain ⟨ih1, ih2, ih3, ih4⟩ := ih (s + w.dur) hrest
    have hbody := bodyT_pairwise hp thr s last hthr h2
    have hbl := body_last hw s last (if thr < s - last then idlePure w.proc.mode s last w.proc.step else [])
    have hsd := step_le_dur hp
    simp only [pureLoopT, endOf]
    refine ⟨?_, ?_, ?_, by grind⟩
    · have := pairwise_join hbody hbl ih1
      simpa [List.append_assoc] using this
    · simp [hp.len, ih2]
    · rw [← List.append_assoc, ← List.cons_append]
      cases hr : (pureLoopT thr (s + w.dur) rest).1 with
      | nil => rw [hr] at ih3; simp only [List.getLast?_singleton] at ih3; rw [List.append_nil, hbl, ih3]
      | cons b B =>
        rw [hr] at ih3
        rw [getLast?_append_ne (by simp)]
        rw [List.getLast?_cons_of_ne_nil (by simp)] at ih3
        exact ih3

theorem chainR_ends {thr : Rat} (hthr : 0 ≤ thr) {instrs : List (Rat × Wave)} : ∀ {last : Rat}, ChainR thr last instrs →
    ∀ sw ∈ instrs, sw.1 + sw.2.dur ≤ endOf last instrs := by
  induction instrs with
  | nil => intro _ _ sw h; simp at h
  | cons a rest ih =>
    intro last hc sw h
    obtain ⟨s, w⟩ := a
    simp only [endOf]
    rcases List.mem_cons.mp h with rfl | h
    · exact (pureLoopT_struct thr hthr rest _ hc.2.2.2.2).2.2.2
    · exact ih hc.2.2.2.2 sw h

/-- **Meaning of the lists, for every channel (any mix of pulse kinds) and any gap sizes.** -/
theorem pureLoopT_points (thr : Rat) (hthr : 0 ≤ thr) (instrs : List (Rat × Wave)) : ∀ last, ChainR thr last instrs →
    (∀ xv ∈ (pureLoopT thr last instrs).1.zip (pureLoopT thr last instrs).2, last < xv.1 ∧ PointExplained instrs xv) ∧
    (∀ sw ∈ instrs, ∀ yc ∈ sw.2.points,
      (sw.1 + yc.1, yc.2) ∈ (pureLoopT thr last instrs).1.zip (pureLoopT thr last instrs).2) := by
  induction instrs with
  | nil => intro last _; simp [pureLoopT]
  | cons a rest ih =>
    intro last hc
    obtain ⟨s, w⟩ := a
    obtain ⟨hw, _, h2, hsorted, hrest⟩ := hc
    have hp := proc_of_ok hw
    have hdp := dur_pos hp
    obtain ⟨ihA, ihB⟩ := ih (s + w.dur) hrest
    have hpts := points_eq hw
    have hzip : (pureLoopT thr last ((s, w) :: rest)).1.zip (pureLoopT thr last ((s, w) :: rest)).2 =
        (if thr < s - last then idlePure w.proc.mode s last w.proc.step else []).zip
          ((if thr < s - last then idlePure w.proc.mode s last w.proc.step else []).map (fun _ => (0 : Rat))) ++
        ((w.proc.gt.map (· + s)).zip w.proc.cs ++
          (pureLoopT thr (s + w.dur) rest).1.zip (pureLoopT thr (s + w.dur) rest).2) := by
      simp only [pureLoopT]
      rw [List.zip_append (by simp), List.zip_append (by simp [hp.len])]
    have hexec : ∀ xv, xv ∈ (w.proc.gt.map (· + s)).zip w.proc.cs ↔ ∃ yc ∈ w.points, xv = (yc.1 + s, yc.2) := by
      intro xv
      rw [List.zip_map_left, List.mem_map, hpts]
      constructor
      · rintro ⟨yc, hyc, rfl⟩; exact ⟨yc, hyc, rfl⟩
      · rintro ⟨yc, hyc, rfl⟩; exact ⟨yc, hyc, rfl⟩
    have hpt_mem : ∀ yc ∈ w.points, yc.1 ∈ w.proc.gt := by
      intro yc hyc
      rw [← hpts] at hyc; exact (List.of_mem_zip hyc).1
    constructor
    · intro xv hxv
      rw [hzip] at hxv
      rcases List.mem_append.mp hxv with h | h
      · obtain ⟨hx, hv⟩ := mem_zip_zeros h
        obtain ⟨h1, h2'⟩ := idlT_bounds hthr hp.step_pos hx
        refine ⟨h1, Or.inr ⟨?_, hv⟩⟩
        intro sw hsw
        rcases List.mem_cons.mp hsw with rfl | hsw
        · simp only; grind
        · have := hsorted sw hsw; grind
      · rcases List.mem_append.mp h with h | h
        · obtain ⟨yc, hyc, rfl⟩ := (hexec xv).mp h
          have hg := hpt_mem yc hyc
          have hpos := gt_pos hp yc.1 hg
          have hafter := exec_after hp s last h2 (yc.1 + s) (List.mem_map.mpr ⟨yc.1, hg, rfl⟩)
          have hle : yc.1 ≤ w.dur := by
            have hne := hp.gt_ne
            have hl := hp.last
            rw [List.getLast?_eq_some_getLast hne] at hl
            simp only [Option.getD_some] at hl
            have := mem_le_last (List.pairwise_cons.mp hp.gt_inc).2 (List.getLast?_eq_some_getLast hne) yc.1 hg
            grind
          refine ⟨hafter, Or.inl ⟨(s, w), by simp, by simp only; grind, by simp only; grind, ?_⟩⟩
          simp only
          have : yc.1 + s - s = yc.1 := by grind
          rw [this]; exact hyc
        · obtain ⟨h1, hE⟩ := ihA xv h
          have hsd := step_le_dur hp
          refine ⟨by grind, ?_⟩
          rcases hE with ⟨sw, hsw, hin⟩ | ⟨hno, hv⟩
          · exact Or.inl ⟨sw, by simp [hsw], hin⟩
          · refine Or.inr ⟨?_, hv⟩
            intro sw hsw
            rcases List.mem_cons.mp hsw with rfl | hsw
            · simp only; grind
            · exact hno sw hsw
    · intro sw hsw yc hyc
      rw [hzip]
      rcases List.mem_cons.mp hsw with rfl | hsw
      · apply List.mem_append_right; apply List.mem_append_left
        simp only
        rw [hexec]
        exact ⟨yc, hyc, by simp only [Prod.mk.injEq, and_true]; grind⟩
      · apply List.mem_append_right; apply List.mem_append_right
        exact ihB sw hsw yc hyc

/-- **Refinement of the channel loop, every gap size, rounded start times.** -/
theorem chanLoopG_refinesT (thr : Rat) (hthr : 0 ≤ thr) (instrs : List (Rat × Wave)) :
    ∀ (isFirst : Bool) (last : Rat), ChainR thr last instrs →
      chanLoopG thr isFirst last instrs =
        .ok ((headChunk isFirst instrs).1 ++ (pureLoopT thr last instrs).1,
             (headChunk isFirst instrs).2 ++ (pureLoopT thr last instrs).2, endOf last instrs) := by
  induction instrs with
  | nil => intro isFirst last _; simp [chanLoopG, headChunk, pureLoopT, endOf]
  | cons sw rest ih =>
    intro isFirst last hv
    obtain ⟨s, w⟩ := sw
    obtain ⟨hw, h1, _, _, hrest⟩ := hv
    obtain ⟨p, hpp, hp⟩ := procPulse_ok w hw
    have hproc := proc_eq hpp
    have hidle : (if absR (s - last) > thr then idle p.mode s last p.step else .ok []) =
        .ok (if thr < s - last then idlePure p.mode s last p.step else []) := by
      by_cases hg : thr < s - last
      · have hls' : last < s := by grind
        have : absR (s - last) > thr := by rw [absR_nonneg_eq (by grind)]; exact hg
        rw [if_pos this, if_pos hg]
        obtain ⟨l, hl, _, _⟩ := idle_ok p.mode s last p.step hp.step_pos hls'
        simp [idlePure, hl]
      · have : ¬ (absR (s - last) > thr) := by
          unfold absR
          by_cases h0 : 0 ≤ s - last
          · rw [if_pos h0]; exact hg
          · rw [if_neg h0]; grind
        rw [if_neg this, if_neg hg]
    have hlast := exec_last hp s last
    have hrec := ih false (s + w.dur) hrest
    have hhc : headChunk false rest = ([], []) := by
      cases rest with
      | nil => rfl
      | cons a b => obtain ⟨s', w'⟩ := a; simp [headChunk, zeroChunk]
    unfold chanLoopG
    simp only [hpp, hidle, hlast, hrec, hhc, List.nil_append]
    simp only [headChunk, pureLoopT, endOf, hproc, hp.mode_eq]

/-- the closed form of one compiled channel when gaps `≤ thr` get no idle stretch -/
def closedChannelT (thr τ : Rat) (pm : Mode) (final ms : Rat) (instrs : List (Rat × Wave)) : List Rat × List Rat :=
  ((headChunk true instrs).1 ++ (pureLoopT thr 0 instrs).1 ++ padPts τ pm final ms (endOf 0 instrs),
   (headChunk true instrs).2 ++ (pureLoopT thr 0 instrs).2 ++ (padPts τ pm final ms (endOf 0 instrs)).map (fun _ => (0 : Rat)))

/-- **`_concatenate_pulses` (repaired shape) on every schedule**: no hypothesis on the size of the idle gaps. -/
theorem concatenateH_all (thr τ : Rat) (hthr : 0 ≤ thr) (hτ : 0 < τ) (chans : List (List (Rat × Wave)))
    (hne : chans ≠ []) (hch : ∀ ch ∈ chans, ch ≠ [] ∧ ChainR thr 0 ch) :
    ∃ (pm : Mode) (final ms : Rat), 0 < ms ∧ (∀ ch ∈ chans, endOf 0 ch ≤ final) ∧
      concatenateH thr τ chans = .ok (chans.map fun ch => some (closedChannelT thr τ pm final ms ch)) := by
  let g : List (Rat × Wave) → List Rat × List Rat × Rat := fun ch =>
    ((headChunk true ch).1 ++ (pureLoopT thr 0 ch).1, (headChunk true ch).2 ++ (pureLoopT thr 0 ch).2, endOf 0 ch)
  have hloop : mapMExcept (chanLoopG thr true 0) chans = .ok (chans.map g) :=
    mapMExcept_ok' _ g chans (fun ch hc => chanLoopG_refinesT _ hthr ch true 0 (hch ch hc).2)
  obtain ⟨final, hfinal, hfle⟩ := maxList_spec ((chans.map g).map (·.2.2)) (by simpa using hne)
  have hprocs_ne : procs chans ≠ [] := by
    obtain ⟨ch, rest, rfl⟩ : ∃ ch rest, chans = ch :: rest := by
      cases chans with
      | nil => exact absurd rfl hne
      | cons a b => exact ⟨a, b, rfl⟩
    obtain ⟨hcne, hcv⟩ := hch ch (by simp)
    cases ch with
    | nil => exact absurd rfl hcne
    | cons sw r =>
      obtain ⟨p, hpp, _⟩ := procPulse_ok sw.2 hcv.1
      simp [procs, hpp]
  have hprocs_pos : ∀ p ∈ procs chans, 0 < p.step := by
    intro p hp
    simp only [procs, List.mem_filterMap, List.mem_flatten] at hp
    obtain ⟨sw, ⟨ch, hch', hsw⟩, hp⟩ := hp
    have hw := chainR_all_ok (hch ch hch').2 sw hsw
    obtain ⟨p', hpp, hpo⟩ := procPulse_ok sw.2 hw
    rw [hpp] at hp
    cases hp
    exact hpo.step_pos
  obtain ⟨ms, hms, hmspos⟩ := minStep_spec (procs chans) hprocs_ne hprocs_pos
  obtain ⟨lastp, hlastp⟩ : ∃ lp, (procs chans).getLast? = some lp :=
    ⟨_, List.getLast?_eq_some_getLast hprocs_ne⟩
  have hends : ∀ ch ∈ chans, endOf 0 ch ≤ final := by
    intro ch hc
    apply hfle
    simp only [List.map_map, List.mem_map, Function.comp]
    exact ⟨ch, hc, rfl⟩
  have hnonempty : ∀ r ∈ chans.map g, r.1.isEmpty = false := by
    intro r hr
    obtain ⟨ch, hc, rfl⟩ := List.mem_map.mp hr
    have := (hch ch hc).1
    cases ch with
    | nil => exact absurd rfl this
    | cons sw rest => obtain ⟨s', w'⟩ := sw; simp [g, headChunk, zeroChunk]
  have hfilter : (chans.map g).filter (fun r => !r.1.isEmpty) = chans.map g := by
    rw [List.filter_eq_self]; intro r hr; simp [hnonempty r hr]
  refine ⟨lastp.mode, final, ms, hmspos, hends, ?_⟩
  unfold concatenateH
  rw [hloop]
  simp only [hfilter, hfinal, Option.getD_some, hms, hlastp]
  rw [mapMExcept_ok' (padChanO τ lastp.mode final ms)
    (fun r : List Rat × List Rat × Rat =>
      some (r.1 ++ padPts τ lastp.mode final ms r.2.2, r.2.1 ++ (padPts τ lastp.mode final ms r.2.2).map (fun _ => (0 : Rat))))
    (chans.map g) (by
      intro r hr
      obtain ⟨ch, hc, rfl⟩ := List.mem_map.mp hr
      have h1 := hnonempty (g ch) hr
      unfold padChanO
      simp only [h1, Bool.false_eq_true, if_false]
      rw [padChan_eq τ hτ lastp.mode final ms hmspos _ _ _ (hends ch hc)])]
  rw [List.map_map]
  rfl

/-- **The closed form meets the structural and the point-level clauses on every schedule** (rounded start times included):
grid from 0 strictly increasing, length fits the kind of the first instruction, every (grid point, coefficient) pair is
explained by the schedule and every point of every instruction is present. -/
theorem closedChannelT_is_schedule (thr τ : Rat) (hthr : 0 ≤ thr) (hτ : 0 < τ) (pm : Mode) (final ms : Rat) (hms : 0 < ms)
    (s : Rat) (w : Wave) (rest : List (Rat × Wave)) (h0 : 0 ≤ s) (hc : ChainR thr 0 ((s, w) :: rest)) :
    let gc := closedChannelT thr τ pm final ms ((s, w) :: rest)
    gc.1.head? = some 0 ∧ gc.1.Pairwise (· < ·) ∧
    (w.mode = .discrete → gc.2.length + 1 = gc.1.length) ∧ (w.mode = .continuous → gc.2.length = gc.1.length) ∧
    (∀ xv ∈ pairsOf w.mode gc.1 gc.2, PointExplained ((s, w) :: rest) xv) ∧
    (∀ sw ∈ (s, w) :: rest, ∀ yc ∈ sw.2.points, (sw.1 + yc.1, yc.2) ∈ pairsOf w.mode gc.1 gc.2) := by
  intro gc
  obtain ⟨hs1, hs2, hs3, hs4⟩ := pureLoopT_struct thr hthr ((s, w) :: rest) 0 hc
  obtain ⟨hA, hB⟩ := pureLoopT_points thr hthr ((s, w) :: rest) 0 hc
  have hgrid : ((0 : Rat) :: ((pureLoopT thr 0 ((s, w) :: rest)).1 ++ padPts τ pm final ms (endOf 0 ((s, w) :: rest)))).Pairwise (· < ·) :=
    pairwise_join hs1 hs3 (padPts_pairwise τ hτ pm final ms _ hms)
  have hstart : ∀ sw ∈ (s, w) :: rest, 0 ≤ sw.1 := by
    intro sw hsw
    rcases List.mem_cons.mp hsw with rfl | hsw
    · exact h0
    · have := hc.2.2.2.1 sw hsw; grind
  have hcore : ∀ xv ∈ (pureLoopT thr 0 ((s, w) :: rest)).1.zip (pureLoopT thr 0 ((s, w) :: rest)).2 ++
      (padPts τ pm final ms (endOf 0 ((s, w) :: rest))).zip ((padPts τ pm final ms (endOf 0 ((s, w) :: rest))).map (fun _ => (0 : Rat))),
      PointExplained ((s, w) :: rest) xv := by
    intro xv hxv
    rcases List.mem_append.mp hxv with h | h
    · exact (hA xv h).2
    · obtain ⟨hx, hv⟩ := mem_zip_zeros h
      have hgt := (List.pairwise_cons.mp (padPts_pairwise τ hτ pm final ms (endOf 0 ((s, w) :: rest)) hms)).1 xv.1 hx
      refine Or.inr ⟨?_, hv⟩
      intro sw hsw
      have := chainR_ends hthr hc sw hsw
      grind
  refine ⟨rfl, ?_, ?_, ?_, ?_⟩
  · simp only [gc, closedChannelT, headChunk_fst, List.append_assoc]; exact hgrid
  · intro hm; simp [gc, closedChannelT, headChunk, zeroChunk, hm, hs2]
  · intro hm; simp [gc, closedChannelT, headChunk, zeroChunk, hm, hs2]
  · cases hm : w.mode with
    | discrete =>
      have hz : headChunk true ((s, w) :: rest) = ([0], []) := by simp [headChunk, zeroChunk, hm]
      have hpairs : pairsOf .discrete gc.1 gc.2 = (pureLoopT thr 0 ((s, w) :: rest)).1.zip (pureLoopT thr 0 ((s, w) :: rest)).2 ++
          (padPts τ pm final ms (endOf 0 ((s, w) :: rest))).zip ((padPts τ pm final ms (endOf 0 ((s, w) :: rest))).map (fun _ => (0 : Rat))) := by
        simp only [pairsOf, gc, closedChannelT, hz, List.cons_append, List.nil_append, List.tail_cons]
        rw [List.zip_append hs2]
      rw [hpairs]
      exact ⟨hcore, fun sw hsw yc hyc => List.mem_append_left _ (hB sw hsw yc hyc)⟩
    | continuous =>
      have hz : headChunk true ((s, w) :: rest) = ([0], [0]) := by simp [headChunk, zeroChunk, hm]
      have hpairs : pairsOf .continuous gc.1 gc.2 = (0, 0) :: ((pureLoopT thr 0 ((s, w) :: rest)).1.zip (pureLoopT thr 0 ((s, w) :: rest)).2 ++
          (padPts τ pm final ms (endOf 0 ((s, w) :: rest))).zip ((padPts τ pm final ms (endOf 0 ((s, w) :: rest))).map (fun _ => (0 : Rat)))) := by
        simp only [pairsOf, gc, closedChannelT, hz, List.cons_append, List.nil_append, List.zip_cons_cons]
        rw [List.zip_append hs2]
      rw [hpairs]
      refine ⟨?_, fun sw hsw yc hyc => List.mem_cons_of_mem _ (List.mem_append_left _ (hB sw hsw yc hyc))⟩
      intro xv hxv
      rcases List.mem_cons.mp hxv with rfl | hxv
      · refine Or.inr ⟨?_, rfl⟩
        intro sw hsw
        have := hstart sw hsw
        simp only; grind
      · exact hcore xv hxv

/-! ### discrete channels: the step function, outside the gaps that are below the tolerance -/

/-- `t` lies in an idle gap of length `≤ thr` (a gap the code does not resolve) -/
def SmallGap (thr : Rat) : Rat → List (Rat × Wave) → Rat → Prop
  | _, [], _ => False
  | last, (s, w) :: rest, t => (s - last ≤ thr ∧ last ≤ t ∧ t < s) ∨ SmallGap thr (s + w.dur) rest t

theorem stepAt_head_move (a s b : Rat) (g : List Rat) (c : Rat) (cs : List Rat) (t : Rat)
    (has : a ≤ s) (hn : ¬ (a ≤ t ∧ t < s)) :
    stepAt (a :: b :: g) (c :: cs) t = stepAt (s :: b :: g) (c :: cs) t := by
  simp only [stepAt]
  have : (a ≤ t ∧ t < b) ↔ (s ≤ t ∧ t < b) := by grind
  by_cases h : a ≤ t ∧ t < b
  · rw [if_pos h, if_pos (this.mp h)]
  · rw [if_neg h, if_neg (fun h' => h (this.mpr h'))]

theorem pureLoopT_discrete (thr : Rat) (hthr : 0 ≤ thr) (instrs : List (Rat × Wave)) : ∀ last, Chain last instrs →
    (∀ sw ∈ instrs, sw.2.mode = .discrete) →
    ∀ t, ¬ SmallGap thr last instrs t →
      stepAt (last :: (pureLoopT thr last instrs).1) (pureLoopT thr last instrs).2 t = specAt instrs t := by
  induction instrs with
  | nil => intro last _ _ t _; simp [pureLoopT, specAt, stepAt]
  | cons sw rest ih =>
    intro last hc hmode t hns
    obtain ⟨s, w⟩ := sw
    have hchain := hc
    obtain ⟨hw, hls, hrest⟩ := hc
    have hm : w.mode = .discrete := hmode (s, w) (by simp)
    have hp := proc_of_ok hw
    have hdp := dur_pos hp
    have hns' : ¬ SmallGap thr (s + w.dur) rest t := fun h => hns (Or.inr h)
    have ihr := ih (s + w.dur) hrest (fun sw h => hmode sw (by simp [h])) t hns'
    obtain ⟨hs1, hs2, hs3, hs4⟩ := pureLoopT_struct thr hthr rest (s + w.dur) (Chain.chainR hthr hrest)
    have hpm : w.proc.mode = .discrete := by rw [hp.mode_eq]; exact hm
    have hexec : stepAt (s :: (w.proc.gt.map (· + s) ++ (pureLoopT thr (s + w.dur) rest).1))
        (w.proc.cs ++ (pureLoopT thr (s + w.dur) rest).2) t =
        if t < s + w.dur then waveAt w (t - s) else specAt rest t := by
      have hbl := body_last hw s s ([] : List Rat)
      simp only [List.nil_append] at hbl
      have hpw : (s :: (w.proc.gt.map (· + s) ++ (pureLoopT thr (s + w.dur) rest).1)).Pairwise (· < ·) :=
        pairwise_join (exec_pairwise hp s) hbl hs1
      rw [stepAt_split s _ _ _ _ (s + w.dur) t (by simp [hp.len]) hpw hbl, body_value hw hm, ihr]
    have hspec : specAt ((s, w) :: rest) t = if t < s + w.dur then waveAt w (t - s) else specAt rest t := by
      simp only [specAt]
      by_cases h1 : t < s + w.dur
      · rw [if_pos h1]
        by_cases h2 : s ≤ t
        · rw [if_pos ⟨h2, h1⟩]
        · rw [if_neg (by grind), waveAt_outside hw _ (by grind)]
          exact specAt_before rest (s + w.dur) hrest t h1
      · rw [if_neg h1, if_neg (by grind)]
    rw [hspec]
    simp only [pureLoopT, hpm, idlePure_discrete]
    by_cases hlt : thr < s - last
    · rw [if_pos hlt]
      simp only [List.cons_append, List.nil_append, List.map_cons, List.map_nil, stepAt]
      by_cases hin : last ≤ t ∧ t < s
      · rw [if_pos hin, if_pos (by grind), waveAt_outside hw _ (by grind)]
      · rw [if_neg hin]; exact hexec
    · rw [if_neg hlt]
      simp only [List.nil_append, List.map_nil]
      have hgap : ¬ (last ≤ t ∧ t < s) := fun h => hns (Or.inl ⟨by grind, h.1, h.2⟩)
      -- the instruction's lists are not empty
      obtain ⟨g0, gs, hg⟩ : ∃ g0 gs, w.proc.gt = g0 :: gs := by
        cases hgt : w.proc.gt with
        | nil => exact absurd hgt hp.gt_ne
        | cons a b => exact ⟨a, b, rfl⟩
      obtain ⟨c0, cs', hcs⟩ : ∃ c0 cs', w.proc.cs = c0 :: cs' := by
        have hl := hp.len
        rw [hg] at hl
        cases hcc : w.proc.cs with
        | nil => rw [hcc] at hl; simp at hl
        | cons a b => exact ⟨a, b, rfl⟩
      rw [hg, hcs] at hexec ⊢
      simp only [List.map_cons, List.cons_append] at hexec ⊢
      rw [stepAt_head_move last s _ _ _ _ t hls hgap]
      exact hexec

/-- with every gap `0` or `> thr` nothing is left out: the lists are the tolerance-free ones -/
theorem pureLoopT_eq_of_validG (thr : Rat) (hthr : 0 ≤ thr) (instrs : List (Rat × Wave)) :
    ∀ last, ValidG thr last instrs → pureLoopT thr last instrs = pureLoop last instrs := by
  induction instrs with
  | nil => intro _ _; rfl
  | cons sw rest ih =>
    intro last hv
    obtain ⟨s, w⟩ := sw
    obtain ⟨_, hls, hgap, hrest⟩ := hv
    have : (thr < s - last) ↔ (last < s) := by grind
    simp only [pureLoopT, pureLoop, ih _ hrest]
    by_cases h : last < s
    · rw [if_pos h, if_pos (this.mpr h)]
    · rw [if_neg h, if_neg (fun h' => h (this.mp h'))]

theorem no_smallGap_of_validG (thr : Rat) (_hthr : 0 ≤ thr) (instrs : List (Rat × Wave)) :
    ∀ last, ValidG thr last instrs → ∀ t, ¬ SmallGap thr last instrs t := by
  induction instrs with
  | nil => intro _ _ t h; exact h
  | cons sw rest ih =>
    intro last hv t h
    obtain ⟨s, w⟩ := sw
    obtain ⟨_, hls, hgap, hrest⟩ := hv
    rcases h with h | h
    · grind
    · exact ih _ hrest t h

end QipVerif.Concat
