import QipVerif.Lemmas.SchedGate
import QipVerif.Lemmas.SchedDist
/-!
# The pulse schedule of a concrete instruction list (assembly for C11)

The returned start times are `d i - dur i` where `d` is the longest-path table over the final graph
(dependency edges + recorded conflict edges, original orientation) computed along the returned
cycles; the cycles are a topological order of that graph, so `d` satisfies the recurrence
(`SchedDist.distStart_rec`) and the timetable clauses follow.
-/
namespace QipVerif.Sched
open Relation

variable (alap allowPerm : Bool) (ns : List Ins)
variable (O2 : Nat → List Nat → List Nat)

theorem finalOrder_eq : finalOrder alap allowPerm ns O2 = (cyclesGen alap allowPerm ns O2).flatten := by
  unfold finalOrder cyclesGen
  simp only
  split <;> rfl

/-- the start time the model returns for instruction `i` -/
def startOf (i : Nat) : Int :=
  (distStart ns.length (finalEdges alap allowPerm ns O2).has (durIdx ns) (finalOrder alap allowPerm ns O2)).get i - durIdx ns i

theorem startsGen_getD {i : Nat} (hi : i < ns.length) :
    (startsGen alap allowPerm ns O2).getD i 0 = startOf alap allowPerm ns O2 i := by
  simp [startsGen, startOf, List.getD_eq_getElem?_getD, hi]

theorem startsGen_length : (startsGen alap allowPerm ns O2).length = ns.length := by simp [startsGen]

theorem depEdges_sub_final {x y : Nat} (h : (x, y) ∈ depEdges allowPerm ns) : (x, y) ∈ finalEdges alap allowPerm ns O2 := by
  unfold finalEdges passEdges
  simp only
  cases alap with
  | false => simpa using Or.inl h
  | true =>
    simp only [if_true]
    rw [Edges.mem_rev]
    exact List.mem_append_left _ (Edges.mem_rev.mpr h)

/-- a topological order from strictly increasing cycle positions along the edges -/
theorem topoOrder_of_pos {n : Nat} {E : Nat → Nat → Bool} {cs : List (List Nat)} (hnd : cs.flatten.Nodup)
    (hmem : ∀ p, p < n → p ∈ cs.flatten)
    (h : ∀ p y, p < n → E p y = true → posOf cs p < posOf cs y) : TopoOrder n E cs.flatten := by
  intro a y b he p hp hpy
  by_contra hpa
  have hpos := h p y hp hpy
  have hpm := hmem p hp
  rw [he] at hpm
  rcases List.mem_append.mp hpm with h1 | h1
  · exact hpa h1
  · rcases List.mem_cons.mp h1 with h2 | h2
    · subst h2; omega
    · have hsub : [y, p].Sublist cs.flatten := by
        rw [he]
        apply List.sublist_append_of_sublist_right
        exact List.Sublist.cons_cons y (List.singleton_sublist.mpr h2)
      have := posOf_le_of_sublist hnd hsub
      omega

section main
variable (hO : ∀ r l, (O2 r l).Perm l)
include hO

theorem finalOrder_perm : (finalOrder alap allowPerm ns O2).Perm (List.range ns.length) := by
  rw [finalOrder_eq]; exact cyclesGen_perm alap allowPerm ns O2 hO

/-- every edge of the final graph goes from a strictly earlier cycle to a later one -/
theorem finalEdges_pos {x y : Nat} (h : (x, y) ∈ finalEdges alap allowPerm ns O2) :
    posOf (cyclesGen alap allowPerm ns O2) x < posOf (cyclesGen alap allowPerm ns O2) y ∧
      x < ns.length ∧ y < ns.length := by
  have hkey := fun (a : Bool) (i j : Nat) (hi : i < ns.length) (hj : j < ns.length) h =>
    passEdges_key a allowPerm ns (i := i) (j := j) hi hj h
  unfold finalEdges at h
  simp only at h
  cases alap with
  | false =>
    simp only [Bool.false_eq_true, if_false] at h
    rcases List.mem_append.mp h with h1 | h1
    · have h1' : (x, y) ∈ depEdges allowPerm ns := by simpa [passEdges] using h1
      have := depEdges_forward allowPerm ns h1'
      exact ⟨cyclesGen_edge_pos false allowPerm ns O2 hO h1', by omega, this.2⟩
    · have := topo_conflict_pos (sh := shareIdx ns) O2 hO true (passKey false ns.length) (hkey false) h1
      exact ⟨by simpa [cyclesGen, pass2] using this.1, this.2.1, this.2.2.1⟩
  | true =>
    simp only [if_true] at h
    rw [Edges.mem_rev] at h
    rcases List.mem_append.mp h with h1 | h1
    · have h1' : (x, y) ∈ depEdges allowPerm ns := by
        simp only [passEdges, if_true] at h1
        exact Edges.mem_rev.mp h1
      have := depEdges_forward allowPerm ns h1'
      exact ⟨cyclesGen_edge_pos true allowPerm ns O2 hO h1', by omega, this.2⟩
    · have hc := topo_conflict_pos (sh := shareIdx ns) O2 hO true (passKey true ns.length) (hkey true) h1
      have hnd := topo_nodup (sh := shareIdx ns) O2 hO true (passKey true ns.length) (hkey true)
      have hmx := topo_mem (sh := shareIdx ns) O2 hO true (passKey true ns.length) (hkey true) hc.2.2.1
      have hmy := topo_mem (sh := shareIdx ns) O2 hO true (passKey true ns.length) (hkey true) hc.2.1
      refine ⟨?_, hc.2.2.1, hc.2.1⟩
      simp only [cyclesGen, if_true]
      unfold pass2
      rw [posOf_reverse hnd hmx, posOf_reverse hnd hmy]
      have := posOf_lt_length hmx
      have := hc.1
      omega

theorem finalOrder_topo :
    TopoOrder ns.length (finalEdges alap allowPerm ns O2).has (finalOrder alap allowPerm ns O2) := by
  rw [finalOrder_eq]
  apply topoOrder_of_pos (cyclesGen_nodup alap allowPerm ns O2 hO)
  · intro p hp
    exact (cyclesGen_perm alap allowPerm ns O2 hO).mem_iff.mpr (List.mem_range.mpr hp)
  · intro p y _ hpy
    exact (finalEdges_pos alap allowPerm ns O2 hO (Edges.has_iff.mp hpy)).1

/-- the recurrence of the returned table -/
theorem final_rec {y : Nat} (hy : y < ns.length) :
    (distStart ns.length (finalEdges alap allowPerm ns O2).has (durIdx ns) (finalOrder alap allowPerm ns O2)).get y =
      maxOver (distStart ns.length (finalEdges alap allowPerm ns O2).has (durIdx ns) (finalOrder alap allowPerm ns O2))
        (predsOf ns.length (finalEdges alap allowPerm ns O2).has y) + durIdx ns y := by
  have hp := finalOrder_perm alap allowPerm ns O2 hO
  apply distStart_rec ((List.Perm.nodup_iff hp).mpr List.nodup_range) (finalOrder_topo alap allowPerm ns O2 hO)
  exact hp.mem_iff.mpr (List.mem_range.mpr hy)

/-- along an edge of the final graph the target starts after the source has finished -/
theorem edge_ineq {x y : Nat} (h : (x, y) ∈ finalEdges alap allowPerm ns O2) :
    startOf alap allowPerm ns O2 x + durIdx ns x ≤ startOf alap allowPerm ns O2 y := by
  obtain ⟨_, hx, hy⟩ := finalEdges_pos alap allowPerm ns O2 hO h
  unfold startOf
  rw [final_rec alap allowPerm ns O2 hO hy]
  have : x ∈ predsOf ns.length (finalEdges alap allowPerm ns O2).has y := mem_predsOf.mpr ⟨hx, Edges.has_iff.mpr h⟩
  have := maxOver_ge (distStart ns.length (finalEdges alap allowPerm ns O2).has (durIdx ns)
    (finalOrder alap allowPerm ns O2)) this
  linarith

theorem path_ineq (hdur : ∀ i, 0 ≤ durIdx ns i) {x y : Nat}
    (h : TransGen (fun a b => (a, b) ∈ finalEdges alap allowPerm ns O2) x y) :
    startOf alap allowPerm ns O2 x + durIdx ns x ≤ startOf alap allowPerm ns O2 y := by
  induction h with
  | single h1 => exact edge_ineq alap allowPerm ns O2 hO h1
  | @tail b c _ h2 ih =>
    have := edge_ineq alap allowPerm ns O2 hO h2
    have := hdur b
    linarith

theorem startOf_nonneg (hdur : ∀ i, 0 ≤ durIdx ns i) {i : Nat} (hi : i < ns.length) :
    0 ≤ startOf alap allowPerm ns O2 i := by
  unfold startOf
  rw [final_rec alap allowPerm ns O2 hO hi]
  have := maxOver_nonneg (distStart ns.length (finalEdges alap allowPerm ns O2).has (durIdx ns)
    (finalOrder alap allowPerm ns O2)) (predsOf ns.length (finalEdges alap allowPerm ns O2).has i)
    (fun p _ => distStart_nonneg hdur _ p)
  linarith

/-- some instruction starts at time 0 -/
theorem exists_start_zero (hne : ns ≠ []) : ∃ i, i < ns.length ∧ startOf alap allowPerm ns O2 i = 0 := by
  have hp := finalOrder_perm alap allowPerm ns O2 hO
  have hlen : 0 < ns.length := List.length_pos_of_ne_nil hne
  -- the first node of the order has no predecessor
  cases ho : finalOrder alap allowPerm ns O2 with
  | nil =>
    have := hp.length_eq
    simp [ho] at this
    omega
  | cons y b =>
    have hy : y < ns.length := List.mem_range.mp (hp.mem_iff.mp (by simp [ho]))
    refine ⟨y, hy, ?_⟩
    have htopo := finalOrder_topo alap allowPerm ns O2 hO
    have hnp : predsOf ns.length (finalEdges alap allowPerm ns O2).has y = [] := by
      apply List.eq_nil_iff_forall_not_mem.mpr
      intro p hp'
      have := htopo [] y b (by simpa using ho) p (mem_predsOf.mp hp').1 (mem_predsOf.mp hp').2
      simp at this
    unfold startOf
    rw [final_rec alap allowPerm ns O2 hO hy, hnp]
    simp [maxOver]

theorem finish_le_sum (hdur : ∀ i, 0 ≤ durIdx ns i) (i : Nat) :
    startOf alap allowPerm ns O2 i + durIdx ns i ≤ (ns.map Ins.dur).sum := by
  have hp := finalOrder_perm alap allowPerm ns O2 hO
  have h1 := distStart_le_sum (n := ns.length) (E := (finalEdges alap allowPerm ns O2).has) hdur
    (finalOrder alap allowPerm ns O2) i
  have h2 : ((finalOrder alap allowPerm ns O2).map (durIdx ns)).sum = ((List.range ns.length).map (durIdx ns)).sum :=
    (hp.map _).sum_eq
  have h3 : (List.range ns.length).map (durIdx ns) = ns.map Ins.dur := by
    have : durIdx ns = Ins.dur ∘ getIns ns := rfl
    rw [this, ← List.map_map, map_getIns_range]
  unfold startOf
  rw [h2, h3] at h1
  linarith

/-- a dependency path forces the later instruction to wait -/
theorem dep_ineq (hdur : ∀ i, 0 ≤ durIdx ns i) {i j : Nat} (hij : i < j) (hj : j < ns.length)
    (hs : shareIdx ns i j = true) (hc : commIdx allowPerm ns j i = false) :
    startOf alap allowPerm ns O2 i + durIdx ns i ≤ startOf alap allowPerm ns O2 j := by
  rcases depEdges_order allowPerm ns hij hj hs with h | h
  · rw [hc] at h; exact absurd h (by simp)
  · exact path_ineq alap allowPerm ns O2 hO hdur
      (tg_mono (fun a b hab => depEdges_sub_final alap allowPerm ns O2 hab) h)

end main

theorem durIdx_nonneg (hdur : ∀ a ∈ ns, 0 ≤ a.dur) : ∀ i, 0 ≤ durIdx ns i := by
  intro i
  unfold durIdx getIns
  by_cases hi : i < ns.length
  · simp only [List.getD_eq_getElem?_getD, hi, List.getElem?_eq_getElem, Option.getD_some]
    exact hdur _ (List.getElem_mem hi)
  · simp only [List.getD_eq_getElem?_getD, List.getElem?_eq_none (by omega : ns.length ≤ i), Option.getD_none]
    decide

theorem noOverlap_iff (st : List Int) : noOverlap ns st = true ↔
    ∀ i, i < ns.length → ∀ j, j < ns.length → i ≠ j → overlaps ns st i j = false := by
  simp only [noOverlap, List.all_eq_true, List.mem_range, Bool.or_eq_true, beq_iff_eq, Bool.not_eq_true']
  constructor
  · intro h i hi j hj hij
    rcases h i hi j hj with h1 | h1
    · exact absurd h1 hij
    · exact h1
  · intro h i hi j hj
    by_cases hij : i = j
    · exact Or.inl hij
    · exact Or.inr (h i hi j hj hij)

end QipVerif.Sched
