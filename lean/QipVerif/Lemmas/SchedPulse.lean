import QipVerif.Lemmas.SchedGate
import QipVerif.Lemmas.SchedDist
/-!
# The pulse schedule of a concrete instruction list (assembly for C11)

The returned start times are `d i - dur i` where `d` is the longest-path table over the final graph
(dependency edges + recorded conflict edges, original orientation) computed along the returned
cycles; the cycles are a topological order of that graph, so `d` satisfies the recurrence
(`SchedDist.distStart_rec`) and the timetable clauses follow.
-/
namespace QipVerif.Sched
open Relation

variable (alap allowPerm fx : Bool) (ns : List Ins)
variable (O2 : Nat → List Nat → List Nat)

theorem finalOrder_eq : finalOrder alap allowPerm ns O2 = (cyclesGen alap allowPerm ns O2).flatten := by
  unfold finalOrder cyclesGen
  simp only
  split <;> rfl

/-- the start time the model returns for instruction `i` -/
def startOf (i : Nat) : Int :=
  (distStart ns.length (finalEdges alap allowPerm fx ns O2).has (durIdx ns) (finalOrder alap allowPerm ns O2)).get i - durIdx ns i

theorem startsGen_getD {i : Nat} (hi : i < ns.length) :
    (startsGen alap allowPerm fx ns O2).getD i 0 = startOf alap allowPerm fx ns O2 i := by
  simp [startsGen, startOf, List.getD_eq_getElem?_getD, hi]

theorem startsGen_length : (startsGen alap allowPerm fx ns O2).length = ns.length := by simp [startsGen]

theorem depEdges_sub_final {x y : Nat} (h : (x, y) ∈ depEdges allowPerm ns) : (x, y) ∈ finalEdges alap allowPerm fx ns O2 := by
  unfold finalEdges passEdges
  simp only
  cases alap with
  | false =>
    simp only [Bool.false_eq_true, if_false]
    exact List.mem_append_left _ (List.mem_append_left _ h)
  | true =>
    simp only [if_true]
    rw [Edges.mem_rev]
    exact List.mem_append_left _ (List.mem_append_left _ (Edges.mem_rev.mpr h))

/-- a topological order from strictly increasing cycle positions along the edges -/
theorem topoOrder_of_pos {n : Nat} {E : Nat → Nat → Bool} {cs : List (List Nat)} (hnd : cs.flatten.Nodup)
    (hmem : ∀ p, p < n → p ∈ cs.flatten)
    (h : ∀ p y, p < n → E p y = true → posOf cs p < posOf cs y) : TopoOrder n E cs.flatten := by
  intro a y b he p hp hpy
  by_contra hpa
  have hpos := h p y hp hpy
  have hpm := hmem p hp
  rw [he] at hpm
  rcases List.mem_append.mp hpm with h1 | h1
  · exact hpa h1
  · rcases List.mem_cons.mp h1 with h2 | h2
    · subst h2; omega
    · have hsub : [y, p].Sublist cs.flatten := by
        rw [he]
        apply List.sublist_append_of_sublist_right
        exact List.Sublist.cons_cons y (List.singleton_sublist.mpr h2)
      have := posOf_le_of_sublist hnd hsub
      omega

/-! ## the additional edges of the repaired code -/

theorem mem_crossEdges_cons {sh : Nat → Nat → Bool} {c : List Nat} {cs : List (List Nat)} {x y : Nat} :
    (x, y) ∈ crossEdges sh (c :: cs) ↔ (x ∈ c ∧ y ∈ cs.flatten ∧ sh y x = true) ∨ (x, y) ∈ crossEdges sh cs := by
  simp only [crossEdges, List.mem_append, List.mem_flatMap, List.mem_map, List.mem_filter, Prod.mk.injEq]
  constructor
  · rintro (⟨i1, h1, i2, ⟨h2, h3⟩, rfl, rfl⟩ | h)
    · exact Or.inl ⟨h1, h2, h3⟩
    · exact Or.inr h
  · rintro (⟨h1, h2, h3⟩ | h)
    · exact Or.inl ⟨x, h1, y, ⟨h2, h3⟩, rfl, rfl⟩
    · exact Or.inr h

/-- a cross edge goes from a strictly earlier cycle to a later one -/
theorem crossEdges_pos {sh : Nat → Nat → Bool} {cs : List (List Nat)} (hnd : cs.flatten.Nodup) {x y : Nat}
    (h : (x, y) ∈ crossEdges sh cs) :
    posOf cs x < posOf cs y ∧ x ∈ cs.flatten ∧ y ∈ cs.flatten ∧ sh y x = true := by
  induction cs with
  | nil => simp [crossEdges] at h
  | cons c cs ih =>
    rw [List.flatten_cons] at hnd
    have hnd' := List.nodup_append.mp hnd
    rcases mem_crossEdges_cons.mp h with ⟨h1, h2, h3⟩ | h'
    · have hyc : y ∉ c := fun hc => hnd'.2.2 y hc y h2 rfl
      rw [posOf_cons_of_mem h1, posOf_cons_of_not_mem hyc]
      exact ⟨Nat.succ_pos _, by simp [h1], by simp [h2], h3⟩
    · obtain ⟨hp, hx, hy, hs⟩ := ih hnd'.2.1 h'
      have hxc : x ∉ c := fun hc => hnd'.2.2 x hc x hx rfl
      have hyc : y ∉ c := fun hc => hnd'.2.2 y hc y hy rfl
      rw [posOf_cons_of_not_mem hxc, posOf_cons_of_not_mem hyc]
      exact ⟨Nat.succ_lt_succ hp, by simp [hx], by simp [hy], hs⟩

/-- every qubit-sharing pair sitting in different cycles is a cross edge -/
theorem crossEdges_of_pos {sh : Nat → Nat → Bool} {cs : List (List Nat)} {x y : Nat}
    (hx : x ∈ cs.flatten) (hy : y ∈ cs.flatten) (hp : posOf cs x < posOf cs y) (hs : sh y x = true) :
    (x, y) ∈ crossEdges sh cs := by
  induction cs with
  | nil => simp at hx
  | cons c cs ih =>
    rw [mem_crossEdges_cons]
    by_cases hxc : x ∈ c
    · left
      rw [posOf_cons_of_mem hxc] at hp
      have hyc : y ∉ c := fun hc => by rw [posOf_cons_of_mem hc] at hp; omega
      rw [List.flatten_cons, List.mem_append] at hy
      exact ⟨hxc, hy.resolve_left hyc, hs⟩
    · right
      rw [posOf_cons_of_not_mem hxc] at hp
      have hyc : y ∉ c := fun hc => by rw [posOf_cons_of_mem hc] at hp; omega
      rw [posOf_cons_of_not_mem hyc] at hp
      rw [List.flatten_cons, List.mem_append] at hx hy
      exact ih (hx.resolve_left hxc) (hy.resolve_left hyc) (by omega)

section main
variable (hO : ∀ r l, (O2 r l).Perm l)
include hO

theorem finalOrder_perm : (finalOrder alap allowPerm ns O2).Perm (List.range ns.length) := by
  rw [finalOrder_eq]; exact cyclesGen_perm alap allowPerm ns O2 hO

/-- every edge of the final graph goes from a strictly earlier cycle to a later one -/
theorem finalEdges_pos {x y : Nat} (h : (x, y) ∈ finalEdges alap allowPerm fx ns O2) :
    posOf (cyclesGen alap allowPerm ns O2) x < posOf (cyclesGen alap allowPerm ns O2) y ∧
      x < ns.length ∧ y < ns.length := by
  have hkey := fun (a : Bool) (i j : Nat) (hi : i < ns.length) (hj : j < ns.length) h =>
    passEdges_key a allowPerm ns (i := i) (j := j) hi hj h
  unfold finalEdges at h
  simp only at h
  cases alap with
  | false =>
    simp only [Bool.false_eq_true, if_false] at h
    rcases List.mem_append.mp h with h0 | hx
    · rcases List.mem_append.mp h0 with h1 | h1
      · have h1' : (x, y) ∈ depEdges allowPerm ns := by simpa [passEdges] using h1
        have := depEdges_forward allowPerm ns h1'
        exact ⟨cyclesGen_edge_pos false allowPerm ns O2 hO h1', by omega, this.2⟩
      · have := topo_conflict_pos (sh := shareIdx ns) O2 hO true (passKey false ns.length) (hkey false) h1
        exact ⟨by simpa [cyclesGen, pass2] using this.1, this.2.1, this.2.2.1⟩
    · cases fx with
      | false => simp at hx
      | true =>
        simp only [if_true] at hx
        have hnd := topo_nodup (sh := shareIdx ns) O2 hO true (passKey false ns.length) (hkey false)
        obtain ⟨hp, hmx, hmy, _⟩ := crossEdges_pos (sh := shareIdx ns) hnd hx
        exact ⟨by simpa [cyclesGen, pass2] using hp,
          topo_lt (sh := shareIdx ns) O2 hO true (passKey false ns.length) (hkey false) hmx,
          topo_lt (sh := shareIdx ns) O2 hO true (passKey false ns.length) (hkey false) hmy⟩
  | true =>
    simp only [if_true] at h
    rw [Edges.mem_rev] at h
    have hnd := topo_nodup (sh := shareIdx ns) O2 hO true (passKey true ns.length) (hkey true)
    -- an edge `y → x` of the pass graph whose ends sit in pass cycles `pos y < pos x`
    have fin : posOf (pass2 true allowPerm ns O2).1 y < posOf (pass2 true allowPerm ns O2).1 x → x < ns.length →
        y < ns.length → posOf (cyclesGen true allowPerm ns O2) x < posOf (cyclesGen true allowPerm ns O2) y ∧
          x < ns.length ∧ y < ns.length := by
      intro hp hx hy
      have hmx := topo_mem (sh := shareIdx ns) O2 hO true (passKey true ns.length) (hkey true) hx
      have hmy := topo_mem (sh := shareIdx ns) O2 hO true (passKey true ns.length) (hkey true) hy
      refine ⟨?_, hx, hy⟩
      simp only [cyclesGen, if_true]
      unfold pass2 at hp ⊢
      rw [posOf_reverse hnd hmx, posOf_reverse hnd hmy]
      have := posOf_lt_length hmx
      omega
    rcases List.mem_append.mp h with h0 | hx
    · rcases List.mem_append.mp h0 with h1 | h1
      · have h1' : (x, y) ∈ depEdges allowPerm ns := by
          simp only [passEdges, if_true] at h1
          exact Edges.mem_rev.mp h1
        have := depEdges_forward allowPerm ns h1'
        exact ⟨cyclesGen_edge_pos true allowPerm ns O2 hO h1', by omega, this.2⟩
      · have hc := topo_conflict_pos (sh := shareIdx ns) O2 hO true (passKey true ns.length) (hkey true) h1
        exact fin (by simpa [pass2] using hc.1) hc.2.2.1 hc.2.1
    · cases fx with
      | false => simp at hx
      | true =>
        simp only [if_true] at hx
        obtain ⟨hp, hmy, hmx, _⟩ := crossEdges_pos (sh := shareIdx ns) hnd hx
        exact fin (by simpa [pass2] using hp)
          (topo_lt (sh := shareIdx ns) O2 hO true (passKey true ns.length) (hkey true) hmx)
          (topo_lt (sh := shareIdx ns) O2 hO true (passKey true ns.length) (hkey true) hmy)

theorem finalOrder_topo :
    TopoOrder ns.length (finalEdges alap allowPerm fx ns O2).has (finalOrder alap allowPerm ns O2) := by
  rw [finalOrder_eq]
  apply topoOrder_of_pos (cyclesGen_nodup alap allowPerm ns O2 hO)
  · intro p hp
    exact (cyclesGen_perm alap allowPerm ns O2 hO).mem_iff.mpr (List.mem_range.mpr hp)
  · intro p y _ hpy
    exact (finalEdges_pos alap allowPerm fx ns O2 hO (Edges.has_iff.mp hpy)).1

/-- the recurrence of the returned table -/
theorem final_rec {y : Nat} (hy : y < ns.length) :
    (distStart ns.length (finalEdges alap allowPerm fx ns O2).has (durIdx ns) (finalOrder alap allowPerm ns O2)).get y =
      maxOver (distStart ns.length (finalEdges alap allowPerm fx ns O2).has (durIdx ns) (finalOrder alap allowPerm ns O2))
        (predsOf ns.length (finalEdges alap allowPerm fx ns O2).has y) + durIdx ns y := by
  have hp := finalOrder_perm alap allowPerm ns O2 hO
  apply distStart_rec ((List.Perm.nodup_iff hp).mpr List.nodup_range) (finalOrder_topo alap allowPerm fx ns O2 hO)
  exact hp.mem_iff.mpr (List.mem_range.mpr hy)

/-- along an edge of the final graph the target starts after the source has finished -/
theorem edge_ineq {x y : Nat} (h : (x, y) ∈ finalEdges alap allowPerm fx ns O2) :
    startOf alap allowPerm fx ns O2 x + durIdx ns x ≤ startOf alap allowPerm fx ns O2 y := by
  obtain ⟨_, hx, hy⟩ := finalEdges_pos alap allowPerm fx ns O2 hO h
  unfold startOf
  rw [final_rec alap allowPerm fx ns O2 hO hy]
  have : x ∈ predsOf ns.length (finalEdges alap allowPerm fx ns O2).has y := mem_predsOf.mpr ⟨hx, Edges.has_iff.mpr h⟩
  have := maxOver_ge (distStart ns.length (finalEdges alap allowPerm fx ns O2).has (durIdx ns)
    (finalOrder alap allowPerm ns O2)) this
  linarith

theorem path_ineq (hdur : ∀ i, 0 ≤ durIdx ns i) {x y : Nat}
    (h : TransGen (fun a b => (a, b) ∈ finalEdges alap allowPerm fx ns O2) x y) :
    startOf alap allowPerm fx ns O2 x + durIdx ns x ≤ startOf alap allowPerm fx ns O2 y := by
  induction h with
  | single h1 => exact edge_ineq alap allowPerm fx ns O2 hO h1
  | @tail b c _ h2 ih =>
    have := edge_ineq alap allowPerm fx ns O2 hO h2
    have := hdur b
    linarith

theorem startOf_nonneg (hdur : ∀ i, 0 ≤ durIdx ns i) {i : Nat} (hi : i < ns.length) :
    0 ≤ startOf alap allowPerm fx ns O2 i := by
  unfold startOf
  rw [final_rec alap allowPerm fx ns O2 hO hi]
  have := maxOver_nonneg (distStart ns.length (finalEdges alap allowPerm fx ns O2).has (durIdx ns)
    (finalOrder alap allowPerm ns O2)) (predsOf ns.length (finalEdges alap allowPerm fx ns O2).has i)
    (fun p _ => distStart_nonneg hdur _ p)
  linarith

/-- some instruction starts at time 0 -/
theorem exists_start_zero (hne : ns ≠ []) : ∃ i, i < ns.length ∧ startOf alap allowPerm fx ns O2 i = 0 := by
  have hp := finalOrder_perm alap allowPerm ns O2 hO
  have hlen : 0 < ns.length := List.length_pos_of_ne_nil hne
  -- the first node of the order has no predecessor
  cases ho : finalOrder alap allowPerm ns O2 with
  | nil =>
    have := hp.length_eq
    simp [ho] at this
    omega
  | cons y b =>
    have hy : y < ns.length := List.mem_range.mp (hp.mem_iff.mp (by simp [ho]))
    refine ⟨y, hy, ?_⟩
    have htopo := finalOrder_topo alap allowPerm fx ns O2 hO
    have hnp : predsOf ns.length (finalEdges alap allowPerm fx ns O2).has y = [] := by
      apply List.eq_nil_iff_forall_not_mem.mpr
      intro p hp'
      have := htopo [] y b (by simpa using ho) p (mem_predsOf.mp hp').1 (mem_predsOf.mp hp').2
      simp at this
    unfold startOf
    rw [final_rec alap allowPerm fx ns O2 hO hy, hnp]
    simp [maxOver]

theorem finish_le_sum (hdur : ∀ i, 0 ≤ durIdx ns i) (i : Nat) :
    startOf alap allowPerm fx ns O2 i + durIdx ns i ≤ (ns.map Ins.dur).sum := by
  have hp := finalOrder_perm alap allowPerm ns O2 hO
  have h1 := distStart_le_sum (n := ns.length) (E := (finalEdges alap allowPerm fx ns O2).has) hdur
    (finalOrder alap allowPerm ns O2) i
  have h2 : ((finalOrder alap allowPerm ns O2).map (durIdx ns)).sum = ((List.range ns.length).map (durIdx ns)).sum :=
    (hp.map _).sum_eq
  have h3 : (List.range ns.length).map (durIdx ns) = ns.map Ins.dur := by
    have : durIdx ns = Ins.dur ∘ getIns ns := rfl
    rw [this, ← List.map_map, map_getIns_range]
  unfold startOf
  rw [h2, h3] at h1
  linarith

/-- a dependency path forces the later instruction to wait -/
theorem dep_ineq (hdur : ∀ i, 0 ≤ durIdx ns i) {i j : Nat} (hij : i < j) (hj : j < ns.length)
    (hs : shareIdx ns i j = true) (hc : commIdx allowPerm ns j i = false) :
    startOf alap allowPerm fx ns O2 i + durIdx ns i ≤ startOf alap allowPerm fx ns O2 j := by
  rcases depEdges_order allowPerm ns hij hj hs with h | h
  · rw [hc] at h; exact absurd h (by simp)
  · exact path_ineq alap allowPerm fx ns O2 hO hdur
      (tg_mono (fun a b hab => depEdges_sub_final alap allowPerm fx ns O2 hab) h)

/-- with the repaired recording, every qubit-sharing pair sitting in different returned cycles is an edge
of the final graph, directed from the earlier to the later cycle -/
theorem final_edge_of_share {i j : Nat} (hi : i < ns.length) (hj : j < ns.length) (hs : shareIdx ns i j = true)
    (hp : posOf (cyclesGen alap allowPerm ns O2) i < posOf (cyclesGen alap allowPerm ns O2) j) :
    (i, j) ∈ finalEdges alap allowPerm true ns O2 := by
  have hkey := fun (a : Bool) (i j : Nat) (hi : i < ns.length) (hj : j < ns.length) h =>
    passEdges_key a allowPerm ns (i := i) (j := j) hi hj h
  have hs' : shareIdx ns j i = true := by rw [shareIdx, share_symm]; exact hs
  unfold finalEdges
  simp only [if_true]
  cases alap with
  | false =>
    simp only [Bool.false_eq_true, if_false]
    apply List.mem_append_right
    have hmi := topo_mem (sh := shareIdx ns) O2 hO true (passKey false ns.length) (hkey false) hi
    have hmj := topo_mem (sh := shareIdx ns) O2 hO true (passKey false ns.length) (hkey false) hj
    exact crossEdges_of_pos (sh := shareIdx ns) (by simpa [pass2] using hmi) (by simpa [pass2] using hmj)
      (by simpa [cyclesGen] using hp) hs'
  | true =>
    simp only [if_true]
    rw [Edges.mem_rev]
    apply List.mem_append_right
    have hnd := topo_nodup (sh := shareIdx ns) O2 hO true (passKey true ns.length) (hkey true)
    have hmi := topo_mem (sh := shareIdx ns) O2 hO true (passKey true ns.length) (hkey true) hi
    have hmj := topo_mem (sh := shareIdx ns) O2 hO true (passKey true ns.length) (hkey true) hj
    simp only [cyclesGen, if_true] at hp
    unfold pass2 at hp
    rw [posOf_reverse hnd hmi, posOf_reverse hnd hmj] at hp
    have := posOf_lt_length hmj
    exact crossEdges_of_pos (sh := shareIdx ns) (by simpa [pass2] using hmj) (by simpa [pass2] using hmi)
      (by simp only [pass2]; omega) hs

/-- two instructions with the same position in the returned cycles list sit in one cycle -/
theorem same_cycle_of_pos {i j : Nat} (hi : i < ns.length) (hj : j < ns.length)
    (hp : posOf (cyclesGen alap allowPerm ns O2) i = posOf (cyclesGen alap allowPerm ns O2) j) :
    ∃ c ∈ cyclesGen alap allowPerm ns O2, i ∈ c ∧ j ∈ c := by
  have hperm := cyclesGen_perm alap allowPerm ns O2 hO
  obtain ⟨c, hc, hic⟩ := mem_getElem_posOf (hperm.mem_iff.mpr (List.mem_range.mpr hi))
  obtain ⟨c', hc', hjc⟩ := mem_getElem_posOf (hperm.mem_iff.mpr (List.mem_range.mpr hj))
  rw [hp, hc'] at hc
  have hcc : c' = c := Option.some.inj hc
  subst hcc
  exact ⟨c', List.mem_iff_getElem?.mpr ⟨_, hc'⟩, hic, hjc⟩

end main

theorem durIdx_nonneg (hdur : ∀ a ∈ ns, 0 ≤ a.dur) : ∀ i, 0 ≤ durIdx ns i := by
  intro i
  unfold durIdx getIns
  by_cases hi : i < ns.length
  · simp only [List.getD_eq_getElem?_getD, hi, List.getElem?_eq_getElem, Option.getD_some]
    exact hdur _ (List.getElem_mem hi)
  · simp only [List.getD_eq_getElem?_getD, List.getElem?_eq_none (by omega : ns.length ≤ i), Option.getD_none]
    decide

theorem noOverlap_iff (st : List Int) : noOverlap ns st = true ↔
    ∀ i, i < ns.length → ∀ j, j < ns.length → i ≠ j → overlaps ns st i j = false := by
  simp only [noOverlap, List.all_eq_true, List.mem_range, Bool.or_eq_true, beq_iff_eq, Bool.not_eq_true']
  constructor
  · intro h i hi j hj hij
    rcases h i hi j hj with h1 | h1
    · exact absurd h1 hij
    · exact h1
  · intro h i hi j hj
    by_cases hij : i = j
    · exact Or.inl hij
    · exact Or.inr (h i hi j hj hij)

end QipVerif.Sched
