import QipVerif.Lemmas.ComposeTop
import QipVerif.Model.SpinChainSched
import QipVerif.Props.C11
/-!
# C06: the schedule the pipeline model produces satisfies the hypotheses of `end_to_end_pulses_partial`

`modelStarts` (`Model/SpinChainSched.lean`, what `drv_spinchain` runs) is, for ASAP / ALAP, `Sched.pulseStarts` on the
instructions with integer durations over the common denominator; C11's `timetable_valid_tree` (start ≥ 0, dependencies
respected, no overlap on a shared qubit) is transported back to the rational start times; without scheduling the
cumulative sums satisfy the same facts trivially.
-/
set_option linter.unusedSectionVars false
namespace QipVerif.SpinChain
open QipVerif QipVerif.Gen QipVerif.Gen.SC QipVerif.Compose

/-! ## the common denominator -/

theorem lcmNat_eq (a b : ℕ) : lcmNat a b = Nat.lcm a b := by
  unfold lcmNat Nat.lcm
  by_cases h : a = 0 ∨ b = 0
  · rw [if_pos h]
    rcases h with rfl | rfl <;> simp
  · rw [if_neg h]
    have ha : a ≠ 0 := fun e => h (Or.inl e)
    rw [Nat.div_mul_right_comm (Nat.gcd_dvd_left a b)]

theorem foldl_lcm (is : List (Instr Rat)) : ∀ d0 : ℕ, 0 < d0 →
    0 < is.foldl (fun d i => lcmNat d i.dur.den) d0 ∧ d0 ∣ is.foldl (fun d i => lcmNat d i.dur.den) d0 ∧
    ∀ i ∈ is, i.dur.den ∣ is.foldl (fun d i => lcmNat d i.dur.den) d0 := by
  induction is with
  | nil => intro d0 h; exact ⟨h, dvd_rfl, fun i hi => absurd hi (by simp)⟩
  | cons x rest ih =>
    intro d0 h
    simp only [List.foldl_cons]
    have hl : 0 < lcmNat d0 x.dur.den := by
      rw [lcmNat_eq]; exact Nat.lcm_pos h x.dur.den_pos
    obtain ⟨h1, h2, h3⟩ := ih _ hl
    refine ⟨h1, ?_, ?_⟩
    · exact dvd_trans (by rw [lcmNat_eq]; exact Nat.dvd_lcm_left _ _) h2
    · intro i hi
      rcases List.mem_cons.mp hi with rfl | hi
      · exact dvd_trans (by rw [lcmNat_eq]; exact Nat.dvd_lcm_right _ _) h2
      · exact h3 i hi

theorem durDen_pos (is : List (Instr Rat)) : 0 < durDen is := (foldl_lcm is 1 Nat.one_pos).1
theorem den_dvd_durDen (is : List (Instr Rat)) : ∀ i ∈ is, i.dur.den ∣ durDen is := (foldl_lcm is 1 Nat.one_pos).2.2

/-- a rational times a multiple of its denominator is the integer its numerator says -/
theorem num_scale (q : Rat) (D : ℕ) (h : q.den ∣ D) : (((q * (D : Rat)).num : ℤ) : Rat) = q * (D : Rat) := by
  obtain ⟨k, rfl⟩ := h
  have hq : q * ((q.den * k : ℕ) : Rat) = ((q.num * (k : ℤ) : ℤ) : Rat) := by
    have hd : (q.den : Rat) ≠ 0 := by exact_mod_cast q.den_nz
    push_cast
    calc q * ((q.den : Rat) * (k : Rat)) = (q * (q.den : Rat)) * k := by ring
      _ = (q.num : Rat) * k := by rw [Rat.mul_den_eq_num]
  rw [hq, Rat.num_intCast]

/-! ## cumulative start times -/

theorem cumQ_length (l : List (Instr Rat)) : ∀ acc, (cumQ acc l).length = l.length := by
  induction l with
  | nil => intro _; rfl
  | cons i rest ih => intro acc; simp [cumQ, ih]

theorem cumStarts_toC (enc : String × Int → ℕ) (l : List (Instr Rat)) : ∀ acc,
    Concat.cumStarts acc (l.map (toC enc)) = cumQ acc l := by
  induction l with
  | nil => intro _; rfl
  | cons i rest ih => intro acc; simp only [List.map_cons, Concat.cumStarts, cumQ, toC_duration, ih]

theorem cumQ_ge (l : List (Instr Rat)) (hd : ∀ i ∈ l, 0 ≤ i.dur) : ∀ acc, ∀ x ∈ cumQ acc l, acc ≤ x := by
  induction l with
  | nil => intro acc x hx; simp [cumQ] at hx
  | cons i rest ih =>
    intro acc x hx
    simp only [cumQ, List.mem_cons] at hx
    rcases hx with rfl | hx
    · exact le_rfl
    · have := ih (fun j hj => hd j (by simp [hj])) _ x hx
      have := hd i (by simp)
      linarith

/-- without scheduling every instruction starts after all earlier ones have ended -/
theorem cumQ_seq (l : List (Instr Rat)) (hd : ∀ i ∈ l, 0 ≤ i.dur) : ∀ acc (a b : ℕ) (hab : a < b) (hb : b < l.length),
    (cumQ acc l).getD a 0 + (l[a]'(by omega)).dur ≤ (cumQ acc l).getD b 0 := by
  induction l with
  | nil => intro acc a b _ hb; simp at hb
  | cons i rest ih =>
    intro acc a b hab hb
    cases b with
    | zero => omega
    | succ b =>
      have hb' : b < rest.length := by simpa using hb
      cases a with
      | zero =>
        simp only [cumQ, List.getD_cons_zero, List.getD_cons_succ, List.getElem_cons_zero]
        apply cumQ_ge rest (fun j hj => hd j (by simp [hj]))
        rw [List.getD_eq_getElem?_getD, List.getElem?_eq_getElem (by rw [cumQ_length]; exact hb')]
        exact List.getElem_mem _
      | succ a =>
        simp only [cumQ, List.getD_cons_succ, List.getElem_cons_succ]
        exact ih (fun j hj => hd j (by simp [hj])) _ a b (by omega) hb'

/-! ## gates of compiled instructions -/

/-- the gate of an instruction of a transpiled spin-chain circuit: one of the five pulse-producing native names, no
controls -/
def NatInstr (g : Gate) : Prop :=
  g.controls = [] ∧ (g.name = .RX ∨ g.name = .RZ ∨ g.name = .IDLE ∨ g.name = .ISWAP ∨ g.name = .SQRTISWAP)

theorem compileGate_natInstr (circular : Bool) (N : ℕ) (ρ : ℕ → ℝ) (P : Params ℝ) (g : Gate)
    (hg : NativeOK circular N g) (i : Instr ℝ)
    (h : compileGate Real.pi (Ang.eval ρ) N P g = .ok (.instr i)) : NatInstr i.gate := by
  rcases hg with ⟨t, a, ht, rfl | rfl | rfl⟩ | ⟨a, b, ang, ha, hb, hab, hadj, rfl | rfl⟩ | ⟨ang, rfl⟩
  · unfold compileGate at h; rw [lookup_RX] at h
    simp only [List.head?_cons, get_sx] at h
    split at h <;> cases h
    exact ⟨rfl, Or.inl rfl⟩
  · unfold compileGate at h; rw [lookup_RZ] at h
    simp only [List.head?_cons, get_sz] at h
    split at h <;> cases h
    exact ⟨rfl, Or.inr (Or.inl rfl)⟩
  · unfold compileGate at h; rw [lookup_IDLE] at h
    cases h
    exact ⟨rfl, Or.inr (Or.inr (Or.inl rfl))⟩
  · unfold compileGate at h; rw [lookup_ISWAP] at h
    simp only [get_sxsy] at h
    split at h <;> cases h
    exact ⟨rfl, Or.inr (Or.inr (Or.inr (Or.inl rfl)))⟩
  · unfold compileGate at h; rw [lookup_SQRTISWAP] at h
    simp only [get_sxsy] at h
    split at h <;> cases h
    exact ⟨rfl, Or.inr (Or.inr (Or.inr (Or.inr rfl)))⟩
  · unfold compileGate at h; rw [lookup_GLOBALPHASE] at h
    cases h

theorem compile_natInstr (circular : Bool) (N : ℕ) (ρ : ℕ → ℝ) (P : Params ℝ) (phase0 : ℝ) (gs : List Gate)
    (hnat : ∀ g ∈ gs, NativeOK circular N g) (is : List (Instr ℝ)) (φ : ℝ)
    (h : compile Real.pi (Ang.eval ρ) N P phase0 gs = .ok (is, φ)) : ∀ i ∈ is, NatInstr i.gate := by
  intro i hi
  unfold compile at h
  obtain ⟨g, hg, hc⟩ := compileLoop_instr_mem _ N ρ P gs _ is φ h i hi
  exact compileGate_natInstr circular N ρ P g (hnat g hg) i hc

/-! ## the scheduler's relations on the instructions -/

theorem share_schedIns (D : ℕ) (i j : Instr Rat) :
    Sched.share (schedIns D i) (schedIns D j) = true ↔ Shares i.gate j.gate := by
  unfold Sched.share Shares Sched.Ins.used schedIns Gate.qubits
  simp only [List.any_eq_true, List.contains_iff_mem, List.mem_eraseDups, List.mem_append, List.mem_mergeSort]
  constructor
  · rintro ⟨q, h1, h2⟩; exact ⟨q, h1.symm, h2.symm⟩
  · rintro ⟨q, h1, h2⟩; exact ⟨q, h1.symm, h2.symm⟩

/-- for the pulse-producing native gates the scheduler's commutation rule is "same name, same set of targets" -/
theorem commRules_schedIns (D : ℕ) (i j : Instr Rat) (hi : NatInstr i.gate) (hj : NatInstr j.gate)
    (h : Sched.commRules (schedIns D j) (schedIns D i) = true) : SameChan i.gate j.gate := by
  obtain ⟨hci, hni⟩ := hi
  obtain ⟨hcj, hnj⟩ := hj
  have key : i.gate.name = j.gate.name ∧ j.gate.targets.mergeSort = i.gate.targets.mergeSort := by
    unfold Sched.commRules schedIns at h
    simp only [hci, hcj] at h
    rcases hni with e | e | e | e | e <;> rcases hnj with e' | e' | e' | e' | e' <;> rw [e, e'] at h ⊢ <;>
      first
        | (simp [GName.toString] at h; done)
        | (refine ⟨rfl, ?_⟩; simpa [GName.toString, List.mergeSort, Gen.SchedRule.inSet, Gen.SchedRule.selfCommuting] using h)
  refine ⟨key.1, ?_⟩
  have h1 := List.mergeSort_perm i.gate.targets (fun a b => decide (a ≤ b))
  have h2 := List.mergeSort_perm j.gate.targets (fun a b => decide (a ≤ b))
  exact h1.symm.trans (key.2 ▸ h2)

/-! ## what the pipeline's schedule satisfies -/

/-- the facts about start times `st0` (compile order) that the composition theorem needs -/
structure SchedFacts (isQ : List (Instr Rat)) (st0 : List Rat) : Prop where
  len : st0.length = isQ.length
  nonneg : ∀ k, k < isQ.length → 0 ≤ st0.getD k 0
  disjoint : GateDisjoint isQ st0
  dep : ∀ (i j : ℕ) (_ : i < j) (hj : j < isQ.length), Shares (isQ[i]'(by omega)).gate isQ[j].gate →
    ¬ SameChan (isQ[i]'(by omega)).gate isQ[j].gate → st0.getD i 0 + (isQ[i]'(by omega)).dur ≤ st0.getD j 0

theorem getIns_map (D : ℕ) (isQ : List (Instr Rat)) (k : ℕ) (hk : k < isQ.length) :
    Sched.getIns (isQ.map (schedIns D)) k = schedIns D isQ[k] := by
  unfold Sched.getIns
  rw [List.getD_eq_getElem?_getD, List.getElem?_map, List.getElem?_eq_getElem hk]; rfl

/-- **the schedule of the pipeline model is a valid timetable for the composition theorem** (every mode) -/
theorem modelStarts_facts (mode : Option Bool) (isQ : List (Instr Rat)) (st0 : List Rat)
    (h : modelStarts mode isQ = some st0) (hpos : ∀ i ∈ isQ, 0 < i.dur) (hnat : ∀ i ∈ isQ, NatInstr i.gate) :
    SchedFacts isQ st0 := by
  cases mode with
  | none =>
    simp only [modelStarts, Option.some.injEq] at h
    subst h
    have hd : ∀ i ∈ isQ, 0 ≤ i.dur := fun i hi => (hpos i hi).le
    refine ⟨cumQ_length isQ 0, ?_, ?_, ?_⟩
    · intro k hk
      apply cumQ_ge isQ hd 0
      rw [List.getD_eq_getElem?_getD, List.getElem?_eq_getElem (by rw [cumQ_length]; exact hk)]
      exact List.getElem_mem _
    · intro a b ha hb hab _
      rcases Nat.lt_or_gt_of_ne hab with hlt | hlt
      · exact Or.inl (cumQ_seq isQ hd 0 a b hlt hb)
      · exact Or.inr (cumQ_seq isQ hd 0 b a hlt ha)
    · intro i j hij hj _ _
      exact cumQ_seq isQ hd 0 i j hij hj
  | some alap =>
    simp only [modelStarts] at h
    by_cases he : (isQ.map (schedIns (durDen isQ))).isEmpty = true
    · rw [if_pos he] at h
      have hnil : isQ = [] := by simpa using he
      cases h
      subst hnil
      exact ⟨rfl, fun k hk => absurd hk (by simp), fun a b ha => absurd ha (by simp),
        fun i j _ hj => absurd hj (by simp)⟩
    rw [if_neg he] at h
    split at h
    · cases h
    simp only [Option.some.injEq] at h
    subst h
    set D := durDen isQ with hD
    set ns := isQ.map (schedIns D) with hns
    have hDpos : (0 : Rat) < (D : Rat) := by exact_mod_cast durDen_pos isQ
    have hlen : ns.length = isQ.length := by simp [hns]
    have hdurI : ∀ k (hk : k < isQ.length), ((Sched.durIdx ns k : ℤ) : Rat) = isQ[k].dur * (D : Rat) := by
      intro k hk
      unfold Sched.durIdx
      rw [getIns_map D isQ k hk]
      exact num_scale _ _ (den_dvd_durDen isQ _ (List.getElem_mem hk))
    have hdur : ∀ a ∈ ns, 0 ≤ a.dur := by
      intro a ha
      obtain ⟨i, hi, rfl⟩ := List.mem_map.mp ha
      show 0 ≤ (i.dur * (D : Rat)).num
      rw [Rat.num_nonneg]
      exact mul_nonneg (hpos i hi).le hDpos.le
    obtain ⟨t1, _, t3, _, t5⟩ := C11.timetable_valid_tree ns (schedCfg alap) rfl hdur
    have hSlen : (Sched.pulseStarts (schedCfg alap) ns).length = ns.length := by
      rw [C11.pulseStarts_eq]; exact C11.starts_length _ _ _ _ _
    have hget : ∀ k, k < isQ.length →
        ((Sched.pulseStarts (schedCfg alap) ns).map fun (s : Int) => ((s : Rat) / (D : Rat))).getD k 0 =
          (((Sched.pulseStarts (schedCfg alap) ns).getD k 0 : ℤ) : Rat) / (D : Rat) := by
      intro k hk
      have hk' : k < (Sched.pulseStarts (schedCfg alap) ns).length := by rw [hSlen, hlen]; exact hk
      rw [List.getD_eq_getElem?_getD, List.getElem?_map, List.getElem?_eq_getElem hk',
        List.getD_eq_getElem?_getD, List.getElem?_eq_getElem hk']
      rfl
    -- an inequality between integers, read as rationals over the common denominator
    have scale : ∀ (x y : ℤ) (d : Rat), ((x : Rat) / D + d ≤ (y : Rat) / D) ↔ ((x : Rat) + d * D ≤ (y : Rat)) := by
      intro x y d
      rw [div_add' _ _ _ hDpos.ne', div_le_div_iff_of_pos_right hDpos]
    refine ⟨by simp [hSlen, hlen], ?_, ?_, ?_⟩
    · intro k hk
      rw [hget k hk]
      exact div_nonneg (by exact_mod_cast t1 k (by rw [hlen]; exact hk)) hDpos.le
    · intro a b ha hb hab hsh
      rw [hget a ha, hget b hb, scale, scale, ← hdurI a ha, ← hdurI b hb]
      have hov := (Sched.noOverlap_iff ns _).mp t5 a (by rw [hlen]; exact ha) b (by rw [hlen]; exact hb) hab
      unfold Sched.overlaps at hov
      have hs : Sched.shareIdx ns a b = true := by
        unfold Sched.shareIdx
        rw [getIns_map D isQ a ha, getIns_map D isQ b hb]
        exact (share_schedIns D _ _).mpr hsh
      rw [hs] at hov
      simp only [Bool.true_and, Bool.and_eq_false_iff, decide_eq_false_iff_not, not_lt] at hov
      rcases hov with hov | hov
      · right; exact_mod_cast hov
      · left; exact_mod_cast hov
    · intro i j hij hj hsh hns'
      have hi : i < isQ.length := by omega
      rw [hget i hi, hget j hj, scale, ← hdurI i hi]
      have hs : Sched.shareIdx ns i j = true := by
        unfold Sched.shareIdx
        rw [getIns_map D isQ i hi, getIns_map D isQ j hj]
        exact (share_schedIns D _ _).mpr hsh
      have hc : Sched.commIdx (schedCfg alap).allowPerm ns j i = false := by
        unfold Sched.commIdx
        rw [getIns_map D isQ i hi, getIns_map D isQ j hj]
        cases hcr : Sched.commRules (schedIns D isQ[j]) (schedIns D isQ[i]) with
        | false => simp
        | true =>
          exact absurd (commRules_schedIns D _ _ (hnat _ (List.getElem_mem hi)) (hnat _ (List.getElem_mem hj)) hcr) hns'
      have := t3 i j hij (by rw [hlen]; exact hj) hs hc
      exact_mod_cast this

end QipVerif.SpinChain
