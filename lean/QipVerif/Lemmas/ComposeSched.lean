import QipVerif.Lemmas.ComposeTop
import QipVerif.Model.SpinChainSched
import QipVerif.Props.C11
/-!
# C06: the schedule the pipeline model produces satisfies the hypotheses of `end_to_end_pulses_partial`

`modelStarts` (`Model/SpinChainSched.lean`, what `drv_spinchain` runs) is, for ASAP / ALAP, `Sched.pulseStarts` on the
instructions with integer durations over the common denominator; C11's `timetable_valid_tree` (start ≥ 0, dependencies
respected, no overlap on a shared qubit) is transported back to the rational start times; without scheduling the
cumulative sums satisfy the same facts trivially.
-/
set_option linter.unusedSectionVars false
namespace QipVerif.SpinChain
open QipVerif QipVerif.Gen QipVerif.Gen.SC QipVerif.Compose

/-! ## the common denominator -/

theorem lcmNat_eq (a b : ℕ) : lcmNat a b = Nat.lcm a b := by
  unfold lcmNat Nat.lcm
  by_cases h : a = 0 ∨ b = 0
  · rw [if_pos h]
    rcases h with rfl | rfl <;> simp
  · rw [if_neg h]
    have ha : a ≠ 0 := fun e => h (Or.inl e)
    rw [Nat.div_mul_right_comm (Nat.gcd_dvd_left a b)]

theorem foldl_lcm (is : List (Instr Rat)) : ∀ d0 : ℕ, 0 < d0 →
    0 < is.foldl (fun d i => lcmNat d i.dur.den) d0 ∧ d0 ∣ is.foldl (fun d i => lcmNat d i.dur.den) d0 ∧
    ∀ i ∈ is, i.dur.den ∣ is.foldl (fun d i => lcmNat d i.dur.den) d0 := by
  induction is with
  | nil => intro d0 h; exact ⟨h, dvd_rfl, fun i hi => absurd hi (by simp)⟩
  | cons x rest ih =>
    intro d0 h
    simp only [List.foldl_cons]
    have hl : 0 < lcmNat d0 x.dur.den := by
      rw [lcmNat_eq]; exact Nat.lcm_pos h x.dur.den_pos
    obtain ⟨h1, h2, h3⟩ := ih _ hl
    refine ⟨h1, ?_, ?_⟩
    · exact dvd_trans (by rw [lcmNat_eq]; exact Nat.dvd_lcm_left _ _) h2
    · intro i hi
      rcases List.mem_cons.mp hi with rfl | hi
      · exact dvd_trans (by rw [lcmNat_eq]; exact Nat.dvd_lcm_right _ _) h2
      · exact h3 i hi

theorem durDen_pos (is : List (Instr Rat)) : 0 < durDen is := (foldl_lcm is 1 Nat.one_pos).1
theorem den_dvd_durDen (is : List (Instr Rat)) : ∀ i ∈ is, i.dur.den ∣ durDen is := (foldl_lcm is 1 Nat.one_pos).2.2

/-- a rational times a multiple of its denominator is the integer its numerator says -/
theorem num_scale (q : Rat) (D : ℕ) (h : q.den ∣ D) : (((q * (D : Rat)).num : ℤ) : Rat) = q * (D : Rat) := by
  obtain ⟨k, rfl⟩ := h
  have hq : q * ((q.den * k : ℕ) : Rat) = ((q.num * (k : ℤ) : ℤ) : Rat) := by
    have hd : (q.den : Rat) ≠ 0 := by exact_mod_cast q.den_nz
    push_cast
    calc q * ((q.den : Rat) * (k : Rat)) = (q * (q.den : Rat)) * k := by ring
      _ = (q.num : Rat) * k := by rw [Rat.mul_den_eq_num]
  rw [hq, Rat.num_intCast]

/-! ## cumulative start times -/

theorem cumQ_length (l : List (Instr Rat)) : ∀ acc, (cumQ acc l).length = l.length := by
  induction l with
  | nil => intro _; rfl
  | cons i rest ih => intro acc; simp [cumQ, ih]

theorem cumStarts_toC (enc : String × Int → ℕ) (l : List (Instr Rat)) : ∀ acc,
    Concat.cumStarts acc (l.map (toC enc)) = cumQ acc l := by
  induction l with
  | nil => intro _; rfl
  | cons i rest ih => intro acc; simp only [List.map_cons, Concat.cumStarts, cumQ, toC_duration, ih]

theorem cumQ_ge (l : List (Instr Rat)) (hd : ∀ i ∈ l, 0 ≤ i.dur) : ∀ acc, ∀ x ∈ cumQ acc l, acc ≤ x := by
  induction l with
  | nil => intro acc x hx; simp [cumQ] at hx
  | cons i rest ih =>
    intro acc x hx
    simp only [cumQ, List.mem_cons] at hx
    rcases hx with rfl | hx
    · exact le_rfl
    · have := ih (fun j hj => hd j (by simp [hj])) _ x hx
      have := hd i (by simp)
      linarith

/-- without scheduling every instruction starts after all earlier ones have ended -/
theorem cumQ_seq (l : List (Instr Rat)) (hd : ∀ i ∈ l, 0 ≤ i.dur) : ∀ acc (a b : ℕ) (hab : a < b) (hb : b < l.length),
    (cumQ acc l).getD a 0 + (l[a]'(by omega)).dur ≤ (cumQ acc l).getD b 0 := by
  induction l with
  | nil => intro acc a b _ hb; simp at hb
  | cons i rest ih =>
    intro acc a b hab hb
    cases b with
    | zero => omega
    | succ b =>
      have hb' : b < rest.length := by simpa using hb
      cases a with
      | zero =>
        simp only [cumQ, List.getD_cons_zero, List.getD_cons_succ, List.getElem_cons_zero]
        apply cumQ_ge rest (fun j hj => hd j (by simp [hj]))
        rw [List.getD_eq_getElem?_getD, List.getElem?_eq_getElem (by rw [cumQ_length]; exact hb')]
        exact List.getElem_mem _
      | succ a =>
        simp only [cumQ, List.getD_cons_succ, List.getElem_cons_succ]
        exact ih (fun j hj => hd j (by simp [hj])) _ a b (by omega) hb'

/-! ## gates of compiled instructions -/

/-- the gate of an instruction of a transpiled spin-chain circuit: one of the five pulse-producing native names, no
controls -/
def NatInstr (g : Gate) : Prop :=
  g.controls = [] ∧ (g.name = .RX ∨ g.name = .RZ ∨ g.name = .IDLE ∨ g.name = .ISWAP ∨ g.name = .SQRTISWAP)

theorem compileGate_natInstr (circular : Bool) (N : ℕ) (ρ : ℕ → ℝ) (P : Params ℝ) (g : Gate)
    (hg : NativeOK circular N g) (i : Instr ℝ)
    (h : compileGate Real.pi (Ang.eval ρ) N P g = .ok (.instr i)) : NatInstr i.gate := by
  rcases hg with ⟨t, a, ht, rfl | rfl | rfl⟩ | ⟨a, b, ang, ha, hb, hab, hadj, rfl | rfl⟩ | ⟨ang, rfl⟩
  · unfold compileGate at h; rw [lookup_RX] at h
    simp only [List.head?_cons, get_sx] at h
    split at h <;> cases h
    exact ⟨rfl, Or.inl rfl⟩
  · unfold compileGate at h; rw [lookup_RZ] at h
    simp only [List.head?_cons, get_sz] at h
    split at h <;> cases h
    exact ⟨rfl, Or.inr (Or.inl rfl)⟩
  · unfold compileGate at h; rw [lookup_IDLE] at h
    cases h
    exact ⟨rfl, Or.inr (Or.inr (Or.inl rfl))⟩
  · unfold compileGate at h; rw [lookup_ISWAP] at h
    simp only [get_sxsy] at h
    split at h <;> cases h
    exact ⟨rfl, Or.inr (Or.inr (Or.inr (Or.inl rfl)))⟩
  · unfold compileGate at h; rw [lookup_SQRTISWAP] at h
    simp only [get_sxsy] at h
    split at h <;> cases h
    exact ⟨rfl, Or.inr (Or.inr (Or.inr (Or.inr rfl)))⟩
  · unfold compileGate at h; rw [lookup_GLOBALPHASE] at h
    cases h

theorem compile_natInstr (circular : Bool) (N : ℕ) (ρ : ℕ → ℝ) (P : Params ℝ) (phase0 : ℝ) (gs : List Gate)
    (hnat : ∀ g ∈ gs, NativeOK circular N g) (is : List (Instr ℝ)) (φ : ℝ)
    (h : compile Real.pi (Ang.eval ρ) N P phase0 gs = .ok (is, φ)) : ∀ i ∈ is, NatInstr i.gate := by
  intro i hi
  unfold compile at h
  obtain ⟨g, hg, hc⟩ := compileLoop_instr_mem _ N ρ P gs _ is φ h i hi
  exact compileGate_natInstr circular N ρ P g (hnat g hg) i hc

/-! ## the scheduler's relations on the instructions -/

theorem share_schedIns (D : ℕ) (i j : Instr Rat) :
    Sched.share (schedIns D i) (schedIns D j) = true ↔ Shares i.gate j.gate := by
  unfold Sched.share Shares Sched.Ins.used schedIns Gate.qubits
  simp only [List.any_eq_true, List.contains_iff_mem, List.mem_eraseDups, List.mem_append, List.mem_mergeSort]
  constructor
  · rintro ⟨q, h1, h2⟩; exact ⟨q, h1.symm, h2.symm⟩
  · rintro ⟨q, h1, h2⟩; exact ⟨q, h1.symm, h2.symm⟩

/-- for the pulse-producing native gates the scheduler's commutation rule is "same name, same set of targets" -/
theorem commRules_schedIns (D : ℕ) (i j : Instr Rat) (hi : NatInstr i.gate) (hj : NatInstr j.gate)
    (h : Sched.commRules (schedIns D j) (schedIns D i) = true) : SameChan i.gate j.gate := by
  obtain ⟨hci, hni⟩ := hi
  obtain ⟨hcj, hnj⟩ := hj
  have key : i.gate.name = j.gate.name ∧ j.gate.targets.mergeSort = i.gate.targets.mergeSort := by
    unfold Sched.commRules schedIns at h
    simp only [hci, hcj] at h
    rcases hni with e | e | e | e | e <;> rcases hnj with e' | e' | e' | e' | e' <;> rw [e, e'] at h ⊢ <;>
      first
        | (simp [GName.toString] at h; done)
        | (refine ⟨rfl, ?_⟩; simpa [GName.toString, List.mergeSort, Gen.SchedRule.inSet, Gen.SchedRule.selfCommuting] using h)
  refine ⟨key.1, ?_⟩
  have h1 := List.mergeSort_perm i.gate.targets (fun a b => decide (a ≤ b))
  have h2 := List.mergeSort_perm j.gate.targets (fun a b => decide (a ≤ b))
  exact h1.symm.trans (key.2 ▸ h2)

/-! ## what the pipeline's schedule satisfies -/

/-- the facts about start times `st0` (compile order) that the composition theorem needs -/
structure SchedFacts (isQ : List (Instr Rat)) (st0 : List Rat) : Prop where
  len : st0.length = isQ.length
  nonneg : ∀ k, k < isQ.length → 0 ≤ st0.getD k 0
  disjoint : GateDisjoint isQ st0
  dep : ∀ (i j : ℕ) (_ : i < j) (hj : j < isQ.length), Shares (isQ[i]'(by omega)).gate isQ[j].gate →
    ¬ SameChan (isQ[i]'(by omega)).gate isQ[j].gate → st0.getD i 0 + (isQ[i]'(by omega)).dur ≤ st0.getD j 0

theorem getIns_map (D : ℕ) (isQ : List (Instr Rat)) (k : ℕ) (hk : k < isQ.length) :
    Sched.getIns (isQ.map (schedIns D)) k = schedIns D isQ[k] := by
  unfold Sched.getIns
  rw [List.getD_eq_getElem?_getD, List.getElem?_map, List.getElem?_eq_getElem hk]; rfl

/-- **the schedule of the pipeline model is a valid timetable for the composition theorem** (every mode) -/
theorem modelStarts_facts (mode : Option Bool) (isQ : List (Instr Rat)) (st0 : List Rat)
    (h : modelStarts mode isQ = some st0) (hpos : ∀ i ∈ isQ, 0 < i.dur) (hnat : ∀ i ∈ isQ, NatInstr i.gate) :
    SchedFacts isQ st0 := by
  cases mode with
  | none =>
    simp only [modelStarts, Option.some.injEq] at h
    subst h
    have hd : ∀ i ∈ isQ, 0 ≤ i.dur := fun i hi => (hpos i hi).le
    refine ⟨cumQ_length isQ 0, ?_, ?_, ?_⟩
    · intro k hk
      apply cumQ_ge isQ hd 0
      rw [List.getD_eq_getElem?_getD, List.getElem?_eq_getElem (by rw [cumQ_length]; exact hk)]
      exact List.getElem_mem _
    · intro a b ha hb hab _
      rcases Nat.lt_or_gt_of_ne hab with hlt | hlt
      · exact Or.inl (cumQ_seq isQ hd 0 a b hlt hb)
      · exact Or.inr (cumQ_seq isQ hd 0 b a hlt ha)
    · intro i j hij hj _ _
      exact cumQ_seq isQ hd 0 i j hij hj
  | some alap =>
    simp only [modelStarts] at h
    by_cases he : (isQ.map (schedIns (durDen isQ))).isEmpty = true
    · rw [if_pos he] at h
      have hnil : isQ = [] := by simpa using he
      cases h
      subst hnil
      exact ⟨rfl, fun k hk => absurd hk (by simp), fun a b ha => absurd ha (by simp),
        fun i j _ hj => absurd hj (by simp)⟩
    rw [if_neg he] at h
    split at h
    · cases h
    simp only [Option.some.injEq] at h
    subst h
    set D := durDen isQ with hD
    set ns := isQ.map (schedIns D) with hns
    have hDpos : (0 : Rat) < (D : Rat) := by exact_mod_cast durDen_pos isQ
    have hlen : ns.length = isQ.length := by simp [hns]
    have hdurI : ∀ k (hk : k < isQ.length), ((Sched.durIdx ns k : ℤ) : Rat) = isQ[k].dur * (D : Rat) := by
      intro k hk
      unfold Sched.durIdx
      rw [getIns_map D isQ k hk]
      exact num_scale _ _ (den_dvd_durDen isQ _ (List.getElem_mem hk))
    have hdur : ∀ a ∈ ns, 0 ≤ a.dur := by
      intro a ha
      obtain ⟨i, hi, rfl⟩ := List.mem_map.mp ha
      show 0 ≤ (i.dur * (D : Rat)).num
      rw [Rat.num_nonneg]
      exact mul_nonneg (hpos i hi).le hDpos.le
    obtain ⟨t1, _, t3, _, t5⟩ := C11.timetable_valid_tree ns (schedCfg alap) rfl hdur
    have hSlen : (Sched.pulseStarts (schedCfg alap) ns).length = ns.length := by
      rw [C11.pulseStarts_eq]; exact C11.starts_length _ _ _ _ _
    have hget : ∀ k, k < isQ.length →
        ((Sched.pulseStarts (schedCfg alap) ns).map fun (s : Int) => ((s : Rat) / (D : Rat))).getD k 0 =
          (((Sched.pulseStarts (schedCfg alap) ns).getD k 0 : ℤ) : Rat) / (D : Rat) := by
      intro k hk
      have hk' : k < (Sched.pulseStarts (schedCfg alap) ns).length := by rw [hSlen, hlen]; exact hk
      rw [List.getD_eq_getElem?_getD, List.getElem?_map, List.getElem?_eq_getElem hk',
        List.getD_eq_getElem?_getD, List.getElem?_eq_getElem hk']
      rfl
    -- an inequality between integers, read as rationals over the common denominator
    have scale : ∀ (x y : ℤ) (d : Rat), ((x : Rat) / D + d ≤ (y : Rat) / D) ↔ ((x : Rat) + d * D ≤ (y : Rat)) := by
      intro x y d
      rw [div_add' _ _ _ hDpos.ne', div_le_div_iff_of_pos_right hDpos]
    refine ⟨by simp [hSlen, hlen], ?_, ?_, ?_⟩
    · intro k hk
      rw [hget k hk]
      exact div_nonneg (by exact_mod_cast t1 k (by rw [hlen]; exact hk)) hDpos.le
    · intro a b ha hb hab hsh
      rw [hget a ha, hget b hb, scale, scale, ← hdurI a ha, ← hdurI b hb]
      have hov := (Sched.noOverlap_iff ns _).mp t5 a (by rw [hlen]; exact ha) b (by rw [hlen]; exact hb) hab
      unfold Sched.overlaps at hov
      have hs : Sched.shareIdx ns a b = true := by
        unfold Sched.shareIdx
        rw [getIns_map D isQ a ha, getIns_map D isQ b hb]
        exact (share_schedIns D _ _).mpr hsh
      rw [hs] at hov
      simp only [Bool.true_and, Bool.and_eq_false_iff, decide_eq_false_iff_not, not_lt] at hov
      rcases hov with hov | hov
      · right; exact_mod_cast hov
      · left; exact_mod_cast hov
    · intro i j hij hj hsh hns'
      have hi : i < isQ.length := by omega
      rw [hget i hi, hget j hj, scale, ← hdurI i hi]
      have hs : Sched.shareIdx ns i j = true := by
        unfold Sched.shareIdx
        rw [getIns_map D isQ i hi, getIns_map D isQ j hj]
        exact (share_schedIns D _ _).mpr hsh
      have hc : Sched.commIdx (schedCfg alap).allowPerm ns j i = false := by
        unfold Sched.commIdx
        rw [getIns_map D isQ i hi, getIns_map D isQ j hj]
        cases hcr : Sched.commRules (schedIns D isQ[j]) (schedIns D isQ[i]) with
        | false => simp
        | true =>
          exact absurd (commRules_schedIns D _ _ (hnat _ (List.getElem_mem hi)) (hnat _ (List.getElem_mem hj)) hcr) hns'
      have := t3 i j hij (by rw [hlen]; exact hj) hs hc
      exact_mod_cast this

/-! ## the channels of the scheduled pulses are chains; the grouping loop succeeds -/

/-- the gap clause of C12's `ValidG` alone: every idle gap of the channel is `0` or above `thr` -/
def GapOK (thr : Rat) : Rat → List (Rat × Concat.Wave) → Prop
  | _, [] => True
  | last, (s, w) :: rest => (s - last = 0 ∨ s - last > thr) ∧ GapOK thr (s + w.dur) rest

theorem validG_of_chain_gap (thr : Rat) (ch : List (Rat × Concat.Wave)) : ∀ last, Concat.Chain last ch → GapOK thr last ch →
    Concat.ValidG thr last ch := by
  induction ch with
  | nil => intro _ _ _; trivial
  | cons sw rest ih =>
    intro last hc hg
    obtain ⟨s, w⟩ := sw
    exact ⟨hc.1, hc.2.1, hg.1, ih _ hc.2.2 hg.2⟩

theorem chain_of_pairwise (L : List (Rat × Concat.Wave)) : ∀ last, (∀ u ∈ L, Concat.WaveOK u.2) → (∀ u ∈ L, last ≤ u.1) →
    L.Pairwise (fun u v => u.1 + u.2.dur ≤ v.1) → Concat.Chain last L := by
  induction L with
  | nil => intro _ _ _ _; trivial
  | cons x rest ih =>
    intro last hw hl hp
    obtain ⟨s, w⟩ := x
    obtain ⟨h1, h2⟩ := List.pairwise_cons.mp hp
    exact ⟨hw (s, w) (by simp), hl (s, w) (by simp),
      ih _ (fun u hu => hw u (by simp [hu])) (fun u hu => h1 u hu) h2⟩

/-- what the compiled instructions satisfy: the Hamiltonian of the channel acts on qubits of the gate, and the label
names a control of the model -/
def ChanOK (circular : Bool) (N : ℕ) (isQ : List (Instr Rat)) : Prop :=
  ∀ i ∈ isQ, (∀ q ∈ chanQubits circular N i, q ∈ i.gate.qubits) ∧
    (∀ pn, i.chan = some pn → (control? circular N pn.1 pn.2).isSome = true)

theorem ham_qubits_ne (h : Ham) : h.qubits ≠ [] := by cases h <;> simp [Ham.qubits]

/-- two instructions on the same channel use a common qubit -/
theorem shares_of_same_chan (circular : Bool) (N : ℕ) (i j : Instr Rat) (pn : String × Int)
    (hi : i.chan = some pn) (hj : j.chan = some pn)
    (hci : ∀ q ∈ chanQubits circular N i, q ∈ i.gate.qubits) (hcj : ∀ q ∈ chanQubits circular N j, q ∈ j.gate.qubits)
    (hctl : (control? circular N pn.1 pn.2).isSome = true) : Shares i.gate j.gate := by
  obtain ⟨h, hh⟩ := Option.isSome_iff_exists.mp hctl
  obtain ⟨pre, k⟩ := pn
  have e1 : chanQubits circular N i = h.qubits.map Int.toNat := by simp only [chanQubits, hi, hh]
  have e2 : chanQubits circular N j = h.qubits.map Int.toNat := by simp only [chanQubits, hj, hh]
  obtain ⟨q, rest, hq⟩ := List.exists_cons_of_ne_nil (ham_qubits_ne h)
  refine ⟨q.toNat, hci _ ?_, hcj _ ?_⟩
  · rw [e1, hq]; simp
  · rw [e2, hq]; simp

/-- **every channel of the scheduled pulses is a chain**: sorted by start, non-overlapping, first start ≥ 0, positive
durations — from the schedule facts -/
theorem chain_chanJ (circular : Bool) (N : ℕ) (enc : String × Int → ℕ) (henc : Function.Injective enc)
    (isQ : List (Instr Rat)) (st0 : List Rat) (σ : List ℕ) (hσ : σ.Perm (List.range isQ.length))
    (hsorted : (σ.map fun k => st0.getD k 0).Pairwise (· ≤ ·)) (hpos : ∀ i ∈ isQ, 0 < i.dur)
    (hok : ChanOK circular N isQ) (hf : SchedFacts isQ st0) (l : ℕ) :
    Concat.Chain 0 (chanJ l (schedJ enc isQ st0 σ)) := by
  apply chain_of_pairwise
  · intro u hu
    obtain ⟨j, hj, _, rfl⟩ := mem_chanJ hu
    unfold schedJ at hj
    obtain ⟨k, hk, rfl⟩ := List.mem_map.mp hj
    have hk' : k < isQ.length := List.mem_range.mp (hσ.subset hk)
    have ek : isQ.getD k dfltI = isQ[k] := by
      rw [List.getD_eq_getElem?_getD, List.getElem?_eq_getElem hk']; rfl
    show (0 : Rat) < (toRI enc (isQ.getD k dfltI) _).d
    rw [ek]; exact hpos _ (List.getElem_mem hk')
  · intro u hu
    obtain ⟨j, hj, _, rfl⟩ := mem_chanJ hu
    unfold schedJ at hj
    obtain ⟨k, hk, rfl⟩ := List.mem_map.mp hj
    exact hf.nonneg k (List.mem_range.mp (hσ.subset hk))
  · unfold chanJ schedJ
    refine List.Pairwise.filterMap _ ?_ (List.pairwise_map.mpr ?_)
      (R := fun u v : RI => u.chan = some l → v.chan = some l → u.s + u.d ≤ v.s)
    · intro u v huv b hb b' hb'
      by_cases h1 : u.chan = some l
      · by_cases h2 : v.chan = some l
        · rw [if_pos h1] at hb; rw [if_pos h2] at hb'
          cases Option.mem_def.mp hb; cases Option.mem_def.mp hb'
          exact huv h1 h2
        · rw [if_neg h2] at hb'; cases hb'
      · rw [if_neg h1] at hb; cases hb
    · have hnd : σ.Nodup := hσ.nodup_iff.mpr List.nodup_range
      have hs' : σ.Pairwise fun a b => st0.getD a 0 ≤ st0.getD b 0 := List.pairwise_map.mp hsorted
      refine List.Pairwise.imp_of_mem ?_ (hnd.and hs')
      intro a b ha hb hab h1 h2
      obtain ⟨hne, hle⟩ := hab
      have ha' : a < isQ.length := List.mem_range.mp (hσ.subset ha)
      have hb' : b < isQ.length := List.mem_range.mp (hσ.subset hb)
      have ea : isQ.getD a dfltI = isQ[a] := by
        rw [List.getD_eq_getElem?_getD, List.getElem?_eq_getElem ha']; rfl
      have eb : isQ.getD b dfltI = isQ[b] := by
        rw [List.getD_eq_getElem?_getD, List.getElem?_eq_getElem hb']; rfl
      rw [ea] at h1 ⊢; rw [eb] at h2 ⊢
      simp only [toRI] at h1 h2 ⊢
      obtain ⟨pa, hpa, hea⟩ := Option.map_eq_some_iff.mp h1
      obtain ⟨pb, hpb, heb⟩ := Option.map_eq_some_iff.mp h2
      have hpp : pa = pb := henc (hea.trans heb.symm)
      subst hpp
      have hsh := shares_of_same_chan circular N isQ[a] isQ[b] pa hpa hpb
        (hok _ (List.getElem_mem ha')).1 (hok _ (List.getElem_mem hb')).1 ((hok _ (List.getElem_mem ha')).2 pa hpa)
      rcases hf.disjoint a b ha' hb' hne hsh with h | h
      · exact h
      · exfalso
        have := hpos isQ[b] (List.getElem_mem hb')
        linarith

/-- the grouping loop of `compile` never leaves the model on rectangular pulses -/
theorem groupPulses_some (J : List RI) : ∀ acc, ∃ out, Concat.groupPulses (J.map fun j => (j.toInstr, j.s)) acc = some out := by
  induction J with
  | nil => intro acc; exact ⟨acc, rfl⟩
  | cons j J ih =>
    intro acc
    obtain ⟨ch, s, d, c⟩ := j
    cases ch with
    | none =>
      obtain ⟨out, ho⟩ := ih acc
      exact ⟨out, by simpa [Concat.groupPulses, RI.toInstr] using ho⟩
    | some l =>
      obtain ⟨out, ho⟩ := ih (Concat.addPulse l (s, Concat.Wave.scalar d c) acc)
      exact ⟨out, by simpa [Concat.groupPulses, RI.toInstr, Concat.groupOne, Concat.mkWave] using ho⟩

/-! ## the composition with the pipeline's own schedule -/

/-- what the scheduler stage hands to `_schedule`: nothing without scheduling, else the start times and the answer `perm`
of `np.argsort` (any sorting permutation — numpy's sort is not stable) -/
def schOf (mode : Option Bool) (st0 : List Rat) (perm : List ℕ) : Option (List Rat × List ℕ) :=
  match mode with
  | none => none
  | some _ => some (st0, perm)

/-- **the resolution hypothesis** (cannot be dropped: `C12.tolerance_counterexample`): on every channel the grouping loop
builds, an idle gap is `0` or larger than the `time_tol` of the source -/
def GapsResolved (pairs : List (Concat.Instr × Rat)) : Prop :=
  ∀ groups, Concat.groupPulses pairs [] = some groups →
    ∀ g ∈ groups, GapOK (Gen.concatSrc.timeTol (groups.map (·.2))) 0 g.2

theorem schedStarts_schOf (enc : String × Int → ℕ) (mode : Option Bool) (isQ : List (Instr Rat)) (st0 : List Rat)
    (perm : List ℕ) (hst : modelStarts mode isQ = some st0) :
    schedStarts (isQ.map (toC enc)) (schOf mode st0 perm) = st0 := by
  cases mode with
  | none =>
    simp only [modelStarts, Option.some.injEq] at hst
    simp only [schOf, schedStarts, cumStarts_toC, hst]
  | some alap => rfl

theorem instrPropExp_control (circular : Bool) (N : ℕ) (i : Instr ℝ) (A : Matrix (St N) (St N) ℂ)
    (h : instrPropExp circular N i = some A) (pn : String × Int) (hpn : i.chan = some pn) :
    (control? circular N pn.1 pn.2).isSome = true := by
  unfold instrPropExp at h
  obtain ⟨pre, k⟩ := pn
  rw [hpn] at h
  simp only at h
  cases hc : control? circular N pre k with
  | none => rw [hc] at h; cases h
  | some hm => rfl

/-- `ChanOK` for a rational list whose cast has propagators and Hamiltonians on the qubits of the gates -/
theorem chanOK_of_cast (circular : Bool) (N : ℕ) (isQ : List (Instr Rat)) (ws : List (Matrix (St N) (St N) ℂ))
    (hws : (isQ.map castI).mapM (instrPropExp circular N) = some ws)
    (hq : ∀ i ∈ isQ.map castI, ∀ q ∈ chanQubits circular N i, q ∈ i.gate.qubits) : ChanOK circular N isQ := by
  intro i hi
  refine ⟨fun q hqq => hq (castI i) (List.mem_map.mpr ⟨i, hi, rfl⟩) q hqq, ?_⟩
  intro pn hpn
  obtain ⟨k, hk, rfl⟩ := List.getElem_of_mem hi
  obtain ⟨hlen, hget⟩ := mapM_some_get _ (isQ.map castI) ws hws
  rw [List.length_map] at hlen
  have := hget k (by rw [List.length_map]; exact hk) (by omega)
  rw [List.getElem_map] at this
  exact instrPropExp_control circular N (castI isQ[k]) _ this pn hpn

/-- **pulses_product_sched.**  `pulses_product` for the schedule the pipeline model itself produces (`modelStarts`, every
mode): the hypotheses about the schedule are discharged by C11's `timetable_valid_tree` (`modelStarts_facts`) — what
remains is the resolution hypothesis `GapsResolved`, `SepAll`, and that at least one instruction carries a pulse. -/
theorem pulses_product_sched (circular : Bool) (N : ℕ) (enc : String × Int → ℕ) (henc : Function.Injective enc)
    (tol : Rat) (htol : 0 ≤ tol) (isQ : List (Instr Rat)) (ws : List (Matrix (St N) (St N) ℂ))
    (hws : (isQ.map castI).mapM (instrPropExp circular N) = some ws) (hpos : ∀ i ∈ isQ, 0 < i.dur)
    (hnat : ∀ i ∈ isQ, NatInstr i.gate) (hok : ChanOK circular N isQ)
    (mode : Option Bool) (st0 : List Rat) (hst : modelStarts mode isQ = some st0) (perm : List ℕ)
    (cis : List Concat.Instr) (st : List Rat)
    (hs : Concat.schedule (isQ.map (toC enc)) (schOf mode st0 perm) = .ok (cis, st))
    (hpulse : ∃ i ∈ isQ, i.chan.isSome = true) (hgap : GapsResolved (cis.zip st)) :
    SchedFacts isQ st0 ∧
    ∃ (groups : List (ℕ × List (Rat × Concat.Wave))) (chans : List (List Rat × List Rat)),
      Concat.groupPulses (cis.zip st) [] = some groups ∧
      Concat.compileS Gen.concatSrc (isQ.map (toC enc)) (schOf mode st0 perm) =
        some (.ok (some ((groups.map (·.1)).zip (chans.map some)))) ∧
      (Grid.SepAll tol (chans.map (·.1)) → ∃ (T : List Rat) (rows : List (List Rat)),
        (∀ zl w : Bool, Grid.fullCoeffsVW zl w tol (chans.map fun c => Grid.Chan.arr c.1 c.2) = .ok (T, rows)) ∧
        Grid.ordProdL (Grid.runAnalytically 0 ((groups.map (·.1)).map (labelHam circular N enc)) (Grid.slices T rows)) =
          ordProd ((schedOrder isQ.length (schOf mode st0 perm)).map fun k => ws.getD k 1) ∧
        ∀ (all : List ℕ), all.Nodup → (∀ g ∈ groups, g.1 ∈ all) → ∃ rows' : List (List Rat),
          (∀ zl w : Bool, Grid.fullCoeffsVW zl w tol
            (all.map fun l => optChan (((groups.map (·.1)).zip chans).lookup l)) = .ok (T, rows')) ∧
          Grid.ordProdL (Grid.runAnalytically 0 (all.map (labelHam circular N enc)) (Grid.slices T rows')) =
            ordProd ((schedOrder isQ.length (schOf mode st0 perm)).map fun k => ws.getD k 1)) := by
  have hf := modelStarts_facts mode isQ st0 hst hpos hnat
  refine ⟨hf, ?_⟩
  obtain ⟨hσ, hzip, hsorted⟩ := schedule_pairs enc isQ _ cis st (fun i hi => (hpos i hi).le) hs
  rw [schedStarts_schOf enc mode isQ st0 perm hst] at hzip hsorted
  set σ := schedOrder isQ.length (schOf mode st0 perm) with hσdef
  set J := schedJ enc isQ st0 σ with hJdef
  obtain ⟨groups, hg⟩ : ∃ groups, Concat.groupPulses (cis.zip st) [] = some groups := by
    rw [hzip]; exact groupPulses_some J []
  obtain ⟨g1, g2, _⟩ := Concat.groupPulses_spec (cis.zip st) [] groups hg
  have hnd := g2 (by simp)
  have hchan : ∀ g ∈ groups, g.2 = chanJ g.1 J := by
    intro g hgm
    rw [← Concat.chanLookup_of_mem hnd hgm, g1 g.1, hzip, chanOf_map_toInstr]
    simp [Concat.chanLookup]
  have hgn : groups ≠ [] := by
    rintro rfl
    obtain ⟨i, hi, hic⟩ := hpulse
    obtain ⟨pn, hpn⟩ := Option.isSome_iff_exists.mp hic
    obtain ⟨k, hk, rfl⟩ := List.getElem_of_mem hi
    have hkσ : k ∈ σ := hσ.symm.subset (List.mem_range.mpr hk)
    have ek : isQ.getD k dfltI = isQ[k] := by
      rw [List.getD_eq_getElem?_getD, List.getElem?_eq_getElem hk]; rfl
    have hjJ : toRI enc isQ[k] (st0.getD k 0) ∈ J := by
      rw [hJdef]; unfold schedJ
      exact List.mem_map.mpr ⟨k, hkσ, by rw [ek]⟩
    have := chanJ_mem hjJ (show (toRI enc isQ[k] (st0.getD k 0)).chan = some (enc pn) by simp [toRI, hpn])
    have h1 := g1 (enc pn)
    rw [hzip, chanOf_map_toInstr] at h1
    simp only [Concat.chanLookup, List.nil_append] at h1
    rw [← h1] at this
    simp at this
  have hvalid : ∀ g ∈ groups, Concat.ValidG (Gen.concatSrc.timeTol (groups.map (·.2))) 0 g.2 := by
    intro g hgm
    apply validG_of_chain_gap
    · rw [hchan g hgm]
      exact chain_chanJ circular N enc henc isQ st0 σ hσ hsorted hpos hok hf g.1
    · exact hgap groups hg g hgm
  have hdisj : PulseDisjoint circular N isQ (schedStarts (isQ.map (toC enc)) (schOf mode st0 perm)) := by
    rw [schedStarts_schOf enc mode isQ st0 perm hst]
    exact pulseDisjoint_of_gateDisjoint circular N isQ st0 (fun i hi => (hok i hi).1) hf.disjoint
  obtain ⟨chans, hc, _, hprod⟩ := pulses_product circular N enc henc tol htol isQ ws hws hpos _ cis st groups hs hg hgn
    hvalid hdisj
  exact ⟨groups, chans, hg, hc, hprod⟩

end QipVerif.SpinChain
