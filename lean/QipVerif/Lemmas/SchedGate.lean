import QipVerif.Lemmas.SchedTopo
import QipVerif.Lemmas.SchedDep
import QipVerif.Lemmas.SchedComm
import QipVerif.Lemmas.Trace
import Mathlib.Data.List.Pairwise
/-!
# The gate schedule of a concrete instruction list (assembly for C05)

`depEdges` is a DAG (`passKey`), the second pass is a `topo` run, hence partition, exclusivity
and order of the returned cycles for every permutation-valued oracle, ASAP and ALAP.
-/
namespace QipVerif.Sched
open Relation

variable (alap allowPerm : Bool) (ns : List Ins)

theorem depEdges_forward {a b : Nat} (h : (a, b) ∈ depEdges allowPerm ns) : a < b ∧ b < ns.length :=
  depEdgesOf_forward (fun i => (getIns ns i).used) (fun _ => used_nodup _) ns.length (numQubits ns) h

/-- dependency path or declared commuting, for two instructions sharing a qubit -/
theorem depEdges_order {i j : Nat} (hij : i < j) (hj : j < ns.length) (hs : shareIdx ns i j = true) :
    commIdx allowPerm ns j i = true ∨ TransGen (fun a b => (a, b) ∈ depEdges allowPerm ns) i j := by
  obtain ⟨q, hqi, hqj⟩ := share_iff.mp hs
  exact depEdgesOf_order (fun i => (getIns ns i).used) (fun _ => used_nodup _) ns.length (numQubits ns)
    (fun x hx q hq => used_lt_numQubits hx hq) hij hj hqi hqj

/-- rank function witnessing that the graph the passes run on is acyclic -/
def passKey (alap : Bool) (n : Nat) (i : Nat) : Nat := if alap then n - i else i

theorem passEdges_key {i j : Nat} (hi : i < ns.length) (_hj : j < ns.length)
    (h : (passEdges alap allowPerm ns).has i j = true) : passKey alap ns.length i < passKey alap ns.length j := by
  unfold passEdges at h
  unfold passKey
  cases alap with
  | false =>
    simp only [Bool.false_eq_true, if_false] at h ⊢
    exact (depEdges_forward allowPerm ns (Edges.has_iff.mp h)).1
  | true =>
    simp only [if_true] at h ⊢
    rw [Edges.rev_has] at h
    have := depEdges_forward allowPerm ns (Edges.has_iff.mp h)
    omega

/-! ## positions under reversal of the cycles list -/

theorem posOf_lt_length {cs : List (List Nat)} {x : Nat} (h : x ∈ cs.flatten) : posOf cs x < cs.length := by
  obtain ⟨c, hc, hxc⟩ := List.mem_flatten.mp h
  exact List.findIdx_lt_length.mpr ⟨c, hc, by simpa using hxc⟩

theorem mem_getElem_posOf {cs : List (List Nat)} {x : Nat} (h : x ∈ cs.flatten) :
    ∃ c, cs[posOf cs x]? = some c ∧ x ∈ c := by
  have hlt := posOf_lt_length h
  refine ⟨cs[posOf cs x], by simp [hlt], ?_⟩
  have hlt' : List.findIdx (fun c => c.contains x) cs < cs.length := hlt
  have := List.findIdx_getElem (p := fun c => c.contains x) (xs := cs) (w := hlt')
  simpa [posOf] using this

theorem posOf_reverse {cs : List (List Nat)} (hnd : cs.flatten.Nodup) {x : Nat} (h : x ∈ cs.flatten) :
    posOf cs.reverse x = cs.length - 1 - posOf cs x := by
  obtain ⟨c, hc, hxc⟩ := mem_getElem_posOf h
  have hlt := posOf_lt_length h
  have hnd' : cs.reverse.flatten.Nodup := (List.Perm.nodup_iff (List.reverse_perm cs).flatten).mpr hnd
  apply posOf_of_mem hnd' (c := c) _ hxc
  rw [List.getElem?_reverse (by omega)]
  have : cs.length - 1 - (cs.length - 1 - posOf cs x) = posOf cs x := by omega
  rw [this]; exact hc

theorem posOf_cons_of_mem {c : List Nat} {cs : List (List Nat)} {x : Nat} (h : x ∈ c) : posOf (c :: cs) x = 0 := by
  simp [posOf, List.findIdx_cons, h]

theorem posOf_cons_of_not_mem {c : List Nat} {cs : List (List Nat)} {x : Nat} (h : x ∉ c) :
    posOf (c :: cs) x = posOf cs x + 1 := by
  simp [posOf, List.findIdx_cons, h]

/-- if `x` is listed before `y` in the flattened cycles then `x`'s cycle is not later than `y`'s -/
theorem posOf_le_of_sublist {cs : List (List Nat)} (hnd : cs.flatten.Nodup) {x y : Nat}
    (h : [x, y].Sublist cs.flatten) : posOf cs x ≤ posOf cs y := by
  induction cs with
  | nil => simp at h
  | cons c cs ih =>
    rw [List.flatten_cons] at h hnd
    obtain ⟨l1, l2, he, h1, h2⟩ := List.sublist_append_iff.mp h
    have hnd' := List.nodup_append.mp hnd
    match l1, he with
    | [], he =>
      simp only [List.nil_append] at he
      subst he
      have hx : x ∈ cs.flatten := h2.subset (by simp)
      have hy : y ∈ cs.flatten := h2.subset (by simp)
      have hxc : x ∉ c := fun hc => hnd'.2.2 x hc x hx rfl
      have hyc : y ∉ c := fun hc => hnd'.2.2 y hc y hy rfl
      rw [posOf_cons_of_not_mem hxc, posOf_cons_of_not_mem hyc]
      exact Nat.succ_le_succ (ih hnd'.2.1 h2)
    | [a], he =>
      simp only [List.cons_append, List.nil_append, List.cons.injEq] at he
      obtain ⟨rfl, _⟩ := he
      rw [posOf_cons_of_mem (h1.subset (by simp))]
      exact Nat.zero_le _
    | [a, b], he =>
      simp only [List.cons_append, List.cons.injEq] at he
      obtain ⟨rfl, _, _⟩ := he
      rw [posOf_cons_of_mem (h1.subset (by simp))]
      exact Nat.zero_le _
    | a :: b :: c' :: l, he =>
      have := congrArg List.length he
      simp at this

/-! ## the returned cycles -/

section cycles
variable (O2 : Nat → List Nat → List Nat) (hO : ∀ r l, (O2 r l).Perm l)
include hO

theorem pass2_perm : (pass2 alap allowPerm ns O2).1.flatten.Perm (List.range ns.length) :=
  topo_perm O2 hO true (passKey alap ns.length) (fun _ _ hi hj h => passEdges_key alap allowPerm ns hi hj h)

/-- **(a) partition** -/
theorem cyclesGen_perm : (cyclesGen alap allowPerm ns O2).flatten.Perm (List.range ns.length) := by
  have h := pass2_perm alap allowPerm ns O2 hO
  unfold cyclesGen
  simp only
  split
  · exact (List.reverse_perm _).flatten.trans h
  · exact h

theorem cyclesGen_nodup : (cyclesGen alap allowPerm ns O2).flatten.Nodup :=
  (List.Perm.nodup_iff (cyclesGen_perm alap allowPerm ns O2 hO)).mpr List.nodup_range

omit hO in
/-- **(b) exclusivity** -/
theorem cyclesGen_disjoint : ∀ c ∈ cyclesGen alap allowPerm ns O2, ∀ i ∈ c, ∀ j ∈ c, i ≠ j → shareIdx ns i j = false := by
  intro c hc
  have hc' : c ∈ (pass2 alap allowPerm ns O2).1 := by
    unfold cyclesGen at hc
    simp only at hc
    split at hc
    · exact List.mem_reverse.mp hc
    · exact hc
  have hp := topo_pairwise (n := ns.length) (E := (passEdges alap allowPerm ns).has) (sh := shareIdx ns) O2 c
    (by simpa [pass2] using hc')
  have : Std.Symm (fun a b => shareIdx ns b a = false) :=
    ⟨fun a b hab => by rw [shareIdx, share_symm]; exact hab⟩
  intro i hi j hj hij
  have := hp.forall hi hj hij
  rw [shareIdx, share_symm]; exact this

/-- a dependency edge puts its source in a strictly earlier cycle of the *returned* list (ASAP and ALAP) -/
theorem cyclesGen_edge_pos {x y : Nat} (h : (x, y) ∈ depEdges allowPerm ns) :
    posOf (cyclesGen alap allowPerm ns O2) x < posOf (cyclesGen alap allowPerm ns O2) y := by
  obtain ⟨hxy, hy⟩ := depEdges_forward allowPerm ns h
  have hx : x < ns.length := by omega
  have hkey := fun (i j : Nat) (hi : i < ns.length) (hj : j < ns.length) h =>
    passEdges_key alap allowPerm ns (i := i) (j := j) hi hj h
  unfold cyclesGen
  simp only
  cases alap with
  | false =>
    simp only [Bool.false_eq_true, if_false]
    apply topo_edge_pos O2 hO true (passKey false ns.length) hkey hx hy
    simpa [passEdges] using Edges.has_iff.mpr h
  | true =>
    simp only [if_true]
    have hnd := topo_nodup (sh := shareIdx ns) O2 hO true (passKey true ns.length) hkey
    have hmx := topo_mem (sh := shareIdx ns) O2 hO true (passKey true ns.length) hkey hx
    have hmy := topo_mem (sh := shareIdx ns) O2 hO true (passKey true ns.length) hkey hy
    have hpos := topo_edge_pos (sh := shareIdx ns) O2 hO true (passKey true ns.length) hkey hy hx
      (by simp only [passEdges, if_true]; rw [Edges.rev_has]; exact Edges.has_iff.mpr h)
    unfold pass2
    rw [posOf_reverse hnd hmx, posOf_reverse hnd hmy]
    have := posOf_lt_length hmx
    omega

theorem cyclesGen_path_pos {x y : Nat} (h : TransGen (fun a b => (a, b) ∈ depEdges allowPerm ns) x y) :
    posOf (cyclesGen alap allowPerm ns O2) x < posOf (cyclesGen alap allowPerm ns O2) y := by
  induction h with
  | single h1 => exact cyclesGen_edge_pos alap allowPerm ns O2 hO h1
  | tail _ h2 ih => exact Nat.lt_trans ih (cyclesGen_edge_pos alap allowPerm ns O2 hO h2)

/-- **(c) order**: `i < j` share a qubit and are not declared commuting ⇒ `cycle i < cycle j` -/
theorem cyclesGen_order {i j : Nat} (hij : i < j) (hj : j < ns.length) (hs : shareIdx ns i j = true)
    (hc : commIdx allowPerm ns j i = false) :
    posOf (cyclesGen alap allowPerm ns O2) i < posOf (cyclesGen alap allowPerm ns O2) j := by
  rcases depEdges_order allowPerm ns hij hj hs with h | h
  · rw [hc] at h; exact absurd h (by simp)
  · exact cyclesGen_path_pos alap allowPerm ns O2 hO h

end cycles

/-! ## same product -/

theorem map_getIns_range : (List.range ns.length).map (getIns ns) = ns := by
  apply List.ext_getElem
  · simp
  · intro i h1 h2
    simp [getIns, List.getD_eq_getElem?_getD, h2]

theorem before_range {n i j : Nat} (h : Before (List.range n) i j) : i < j ∧ j < n := by
  unfold Before at h
  have hp : ([i, j] : List Nat).Pairwise (· < ·) := List.Pairwise.sublist h List.pairwise_lt_range
  have hj : j ∈ List.range n := h.subset (by simp)
  simp only [List.pairwise_cons, List.mem_singleton, forall_eq] at hp
  exact ⟨hp.1, List.mem_range.mp hj⟩

/-- **(e)** over any monoid: with H1 (instructions on disjoint qubits commute) and H2 (pairs declared
commuting by the rule commute), the scheduled order has the same product as the original order. -/
theorem cyclesGen_prod {M : Type*} [Monoid M] (g : Nat → M)
    (O2 : Nat → List Nat → List Nat) (hO : ∀ r l, (O2 r l).Perm l)
    (H1 : ∀ i j, i < ns.length → j < ns.length → shareIdx ns i j = false → Commute (g i) (g j))
    (H2 : ∀ i j, i < j → j < ns.length → shareIdx ns i j = true → commIdx allowPerm ns j i = true →
      Commute (g i) (g j)) :
    ((cyclesGen alap allowPerm ns O2).flatten.map g).prod = ((List.range ns.length).map g).prod := by
  symm
  apply trace_lemma g _ _ (cyclesGen_perm alap allowPerm ns O2 hO).symm
  intro i j hb hb'
  obtain ⟨hij, hj⟩ := before_range hb
  by_cases hs : shareIdx ns i j = true
  · by_cases hc : commIdx allowPerm ns j i = true
    · exact H2 i j hij hj hs hc
    · exfalso
      have h1 := cyclesGen_order alap allowPerm ns O2 hO hij hj hs (by simpa using hc)
      have h2 := posOf_le_of_sublist (cyclesGen_nodup alap allowPerm ns O2 hO) hb'
      omega
  · exact H1 i j (by omega) hj (by simpa using hs)

end QipVerif.Sched
