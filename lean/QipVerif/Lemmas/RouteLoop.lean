import QipVerif.Lemmas.RouteBasic
/-!
# C07: closed form of the routing loop

`loop mk mk s e (e - s) s = swaps S ++ mk lo (lo+1) :: swaps S.reverse` where `S` is the
swap ladder (plus, for an even distance, one extra step of the lower qubit), for every `s < e`.
Three phases of the `while` loop: swap-in (`loop_in`), the routed gate, swap-out (`loop_out`).
-/
namespace QipVerif.Route

variable (mkA mkB : Nat → Nat → Gate)

theorem loop_succ (s e fuel i : Nat) :
    loop mkA mkB s e (fuel + 1) i =
      if i < e then
        if s + e - i - i = 1 ∧ (e - s + 1) % 2 = 0 then
          mkA i (i + 1) :: loop mkA mkB s e fuel (i + 1)
        else if s + e - i - i = 2 ∧ (e - s + 1) % 2 = 1 then
          swapG i (i + 1) :: mkB (i + 1) (i + 2) :: swapG i (i + 1) :: loop mkA mkB s e fuel (i + 2)
        else
          swapG i (i + 1) :: swapG (s + e - i - 1) (s + e - i) :: loop mkA mkB s e fuel (i + 1)
      else [] := rfl

/-- the loop has ended -/
theorem loop_done (s e fuel i : Nat) (h : e ≤ i) : loop mkA mkB s e fuel i = [] := by
  cases fuel with
  | zero => rfl
  | succ f => rw [loop_succ, if_neg (by omega)]

/-- swap-in: `k` levels starting at level `j`, while the two qubits are at least 3 apart -/
theorem loop_in (s e : Nat) (k j f : Nat) (h : s + 2 * (j + k) + 1 ≤ e) :
    loop mkA mkB s e (f + k) (s + j) = swaps (ladder s e j k) ++ loop mkA mkB s e f (s + j + k) := by
  induction k generalizing j with
  | zero => simp [ladder, swaps]
  | succ k ih =>
    have e1 : f + (k + 1) = (f + k) + 1 := by omega
    rw [e1, loop_succ, if_pos (by omega), if_neg (by omega), if_neg (by omega)]
    have e2 : s + e - (s + j) - 1 = e - j - 1 := by omega
    have e3 : s + e - (s + j) = e - j := by omega
    have e4 : s + j + 1 = s + (j + 1) := by omega
    have e5 : s + j + (k + 1) = s + (j + 1) + k := by omega
    rw [e2, e3, e4, ih (j + 1) (by omega), e5]
    simp [ladder, swaps, Nat.add_assoc]

/-- swap-out: once past the middle, the last `k` iterations undo the first `k` levels -/
theorem loop_out (s e : Nat) (k f : Nat) (hk : k ≤ e - s) (h : s + e ≤ 2 * (e - k)) :
    loop mkA mkB s e (f + k) (e - k) = swaps (ladder s e 0 k).reverse := by
  induction k with
  | zero => simp [ladder, swaps, loop_done]
  | succ k ih =>
    have e1 : f + (k + 1) = (f + k) + 1 := by omega
    rw [e1, loop_succ, if_pos (by omega), if_neg (by omega), if_neg (by omega)]
    have e2 : s + e - (e - (k + 1)) - 1 = s + k := by omega
    have e3 : s + e - (e - (k + 1)) = s + k + 1 := by omega
    have e4 : e - (k + 1) + 1 = e - k := by omega
    rw [e2, e3, e4, ih (by omega) (by omega), ladder_snoc]
    have e5 : e - (k + 1) = e - k - 1 := by omega
    simp [swaps, e5]

/-- odd distance `2m+1`: `m` levels in, the gate on `(s+m, s+m+1)`, `m` levels out -/
theorem loop_odd (s e m : Nat) (h : e = s + 2 * m + 1) :
    loop mkA mkB s e (e - s) s =
      swaps (ladder s e 0 m) ++ mkA (s + m) (s + m + 1) :: swaps (ladder s e 0 m).reverse := by
  have e1 : e - s = (m + 1) + m := by omega
  have := loop_in mkA mkB s e m 0 (m + 1) (by omega)
  simp only [Nat.add_zero] at this
  rw [e1, this, loop_succ, if_pos (by omega), if_pos (by omega)]
  have e2 : s + m + 1 = e - m := by omega
  have := loop_out mkA mkB s e m 0 (by omega) (by omega)
  simp only [Nat.zero_add] at this
  rw [e2, this]

/-- even distance `2m+2`: `m` levels in, one more step of the lower qubit, the gate on
`(s+m+1, s+m+2)`, and back -/
theorem loop_even (s e m : Nat) (h : e = s + 2 * m + 2) :
    loop mkA mkB s e (e - s) s =
      swaps (ladder s e 0 m ++ [(s + m, s + m + 1)]) ++ mkB (s + m + 1) (s + m + 2)
        :: swaps (ladder s e 0 m ++ [(s + m, s + m + 1)]).reverse := by
  have e1 : e - s = (m + 2) + m := by omega
  have := loop_in mkA mkB s e m 0 (m + 2) (by omega)
  simp only [Nat.add_zero] at this
  rw [e1, this]
  have e2 : m + 2 = (1 + m) + 1 := by omega
  rw [e2, loop_succ, if_pos (by omega), if_neg (by omega), if_pos (by omega)]
  have e3 : s + m + 2 = e - m := by omega
  have := loop_out mkA mkB s e m 1 (by omega) (by omega)
  rw [e3, this]
  simp [swaps]

/-- **Closed form of the loop** for one gate builder: swap-in `S`, the routed gate on the
neighbours `(lo, lo+1)`, the mirrored swap-out; `S` moves `s` to `lo` and `e` to `lo+1` and
consists of swaps of consecutive positions inside `[s, e]`. -/
theorem loop_closed (mk : Nat → Nat → Gate) (s e : Nat) (h : s < e) :
    ∃ S lo, loop mk mk s e (e - s) s = swaps S ++ mk lo (lo + 1) :: swaps S.reverse ∧
      track S s = lo ∧ track S e = lo + 1 ∧ s ≤ lo ∧ lo + 1 ≤ e ∧
      ∀ p ∈ S, s ≤ p.1 ∧ p.2 = p.1 + 1 ∧ p.2 ≤ e := by
  obtain ⟨m, hm | hm⟩ : ∃ m, e - s = 2 * m ∨ e - s = 2 * m + 1 := ⟨(e - s) / 2, by omega⟩
  · -- e - s = 2 * m, m ≥ 1
    obtain ⟨m, rfl⟩ : ∃ m', m = m' + 1 := ⟨m - 1, by omega⟩
    have he : e = s + 2 * m + 2 := by omega
    have tl := track_ladder (s := s) (e := e) (j := 0) (k := m) (by omega)
    simp only [Nat.add_zero, Nat.sub_zero] at tl
    refine ⟨ladder s e 0 m ++ [(s + m, s + m + 1)], s + m + 1, loop_even mk mk s e m he, ?_, ?_,
      by omega, by omega, ?_⟩
    · rw [track_append, tl.1]; simp [track, swapAt]
    · rw [track_append, tl.2]
      simp only [track]
      rw [swapAt_of_ne (by omega) (by omega)]; omega
    · intro p hp
      rcases List.mem_append.mp hp with hp | hp
      · exact mem_ladder (by omega) hp
      · simp only [List.mem_singleton] at hp; subst hp; simp; omega
  · have he : e = s + 2 * m + 1 := by omega
    have tl := track_ladder (s := s) (e := e) (j := 0) (k := m) (by omega)
    simp only [Nat.add_zero, Nat.sub_zero] at tl
    refine ⟨ladder s e 0 m, s + m, loop_odd mk mk s e m he, tl.1, ?_, by omega, by omega, ?_⟩
    · rw [tl.2]; omega
    · intro p hp; exact mem_ladder (by omega) hp

end QipVerif.Route
