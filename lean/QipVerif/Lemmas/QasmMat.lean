import QipVerif.Lemmas.QasmDen
import Mathlib.Tactic.Ring
import Mathlib.Tactic.FinCases
import Mathlib.Tactic.LinearCombination
import Mathlib.Tactic.NormNum
import Mathlib.Tactic.FieldSimp
/-!
# Matrix identities behind the OpenQASM exporter definitions and importer shortcuts (C10, C04)

For every gate definition the exporter emits (`Gen.qasmDefns`) and every `qelib1.inc` gate the
importer replaces by a library gate, the definition is expanded by the standard (`expandDef`) to
the built-ins `U`, `CX`, evaluated in ℂ (`den1/den2`) **for all real parameters**, and shown
equal to the documented library matrix up to one global phase (`PhaseEq`).

* `defn_sound_CRY/CRX/SQRTNOT/CS/CT/SWAP`  — exporter definitions (C10 "definitions_sound")
* `shortcut_x … shortcut_cu3`              — importer shortcuts (C04 "shortcut_sound")
  (`shortcut_ch`, `shortcut_ccx` are in `QasmMat2.lean`)

Method: two-qubit operators with the first qubit as control are block diagonal (`blk A B`), so
every identity reduces to 2×2 identities about `Rz`, `Ry`, `Xm`, `Hm`; phases are `ph a = e^{ia}`.
The witnesses `def_*`, `ps_*` are the values of `exportDef` / `expandDef` (checked by `decide`).
-/
namespace QipVerif.Qasm
open Matrix Complex
set_option linter.unusedSimpArgs false

/-! ## literals and environments -/

theorem lit0 : litVal cs!"0" = 0 := by simp [litVal, spanDigits, isDigit, digitsVal, digitVal, expVal]
theorem lit2 : litVal cs!"2" = 2 := by simp [litVal, spanDigits, isDigit, digitsVal, digitVal, expVal]
theorem lit4 : litVal cs!"4" = 4 := by simp [litVal, spanDigits, isDigit, digitsVal, digitVal, expVal]

theorem env1 (k : Str) (v : ℝ) : envOf [(k, v)] k = v := by simp [envOf]
theorem env_theta3 (θ φ l : ℝ) : envOf [(cs!"theta", θ), (cs!"phi", φ), (cs!"lambda", l)] cs!"theta" = θ := by
  simp [envOf]
theorem env_phi3 (θ φ l : ℝ) : envOf [(cs!"theta", θ), (cs!"phi", φ), (cs!"lambda", l)] cs!"phi" = φ := by
  simp [envOf]
theorem env_lambda3 (θ φ l : ℝ) : envOf [(cs!"theta", θ), (cs!"phi", φ), (cs!"lambda", l)] cs!"lambda" = l := by
  simp [envOf]
theorem env_phi2 (φ l : ℝ) : envOf [(cs!"phi", φ), (cs!"lambda", l)] cs!"phi" = φ := by
  simp [envOf]
theorem env_lambda2 (φ l : ℝ) : envOf [(cs!"phi", φ), (cs!"lambda", l)] cs!"lambda" = l := by
  simp [envOf]

/-! ## two-qubit operators that are block diagonal in the first qubit -/

/-- block-diagonal in the first qubit -/
def blk (A B : M1) : M2 := Matrix.of fun x y =>
  if x.1 = y.1 then (if x.1 = 0 then A x.2 y.2 else B x.2 y.2) else 0

theorem blk_mul (A B C D : M1) : blk A B * blk C D = blk (A * C) (B * D) := by
  ext ⟨a, b⟩ ⟨c, d⟩
  fin_cases a <;> fin_cases c <;>
    simp [Matrix.mul_apply, Fintype.sum_prod_type, Fin.sum_univ_two, blk]

theorem on1_eq (A : M1) : on1 A = blk A A := by
  ext ⟨a, b⟩ ⟨c, d⟩
  fin_cases a <;> fin_cases c <;> simp [on1, blk]

theorem ctrl_eq (A : M1) : ctrl A = blk 1 A := by
  ext ⟨a, b⟩ ⟨c, d⟩
  fin_cases a <;> fin_cases c <;> fin_cases b <;> fin_cases d <;> simp [ctrl, blk]

theorem on0_diag (a b : ℂ) : on0 !![a, 0; 0, b] = blk (a • 1) (b • 1) := by
  ext ⟨i, j⟩ ⟨k, m⟩
  fin_cases i <;> fin_cases k <;> fin_cases j <;> fin_cases m <;> simp [on0, blk]

theorem smul_blk (c : ℂ) (A B : M1) : c • blk A B = blk (c • A) (c • B) := by
  ext ⟨i, j⟩ ⟨k, m⟩
  fin_cases i <;> fin_cases k <;> simp [blk]

theorem one_eq_blk : (1 : M2) = blk 1 1 := by
  ext ⟨i, j⟩ ⟨k, m⟩
  fin_cases i <;> fin_cases k <;> fin_cases j <;> fin_cases m <;> simp [blk]

/-! ## algebra of `Rz`, `Ry`, `Xm` -/

theorem Rz_mul (a b : ℝ) : Rz a * Rz b = Rz (a + b) := by
  ext i j
  fin_cases i <;> fin_cases j <;> simp [Rz, Matrix.mul_apply, Fin.sum_univ_two, ← Complex.exp_add] <;> ring_nf

theorem Rz_zero : Rz 0 = 1 := by
  ext i j
  fin_cases i <;> fin_cases j <;> simp [Rz]

theorem Ry_zero : Ry 0 = 1 := by
  ext i j
  fin_cases i <;> fin_cases j <;> simp [Ry]

theorem Ry_mul (a b : ℝ) : Ry a * Ry b = Ry (a + b) := by
  ext i j
  fin_cases i <;> fin_cases j <;>
    simp [Ry, Matrix.mul_apply, Fin.sum_univ_two, add_div, Real.cos_add, Real.sin_add] <;> ring

theorem Xm_mul_Xm : Xm * Xm = 1 := by
  ext i j
  fin_cases i <;> fin_cases j <;> simp [Xm, Matrix.mul_apply, Fin.sum_univ_two]

theorem X_Rz_X (a : ℝ) : Xm * Rz a * Xm = Rz (-a) := by
  ext i j
  fin_cases i <;> fin_cases j <;> simp [Xm, Rz, Matrix.mul_apply, Fin.sum_univ_two] <;> ring_nf

theorem X_Ry_X (a : ℝ) : Xm * Ry a * Xm = Ry (-a) := by
  ext i j
  fin_cases i <;> fin_cases j <;> simp [Xm, Ry, Matrix.mul_apply, Fin.sum_univ_two, neg_div]

theorem Umat_00 (l : ℝ) : Umat 0 0 l = Rz l := by simp [Umat, Rz_zero, Ry_zero]

theorem PhaseEq.of_eq {n : Type} {A B : Matrix n n ℂ} (h : A = B) : PhaseEq A B := ⟨0, by simp [h]⟩

theorem Rz_mul' (a b : ℝ) (M : M1) : Rz a * (Rz b * M) = Rz (a + b) * M := by rw [← mul_assoc, Rz_mul]
theorem Ry_mul' (a b : ℝ) (M : M1) : Ry a * (Ry b * M) = Ry (a + b) * M := by rw [← mul_assoc, Ry_mul]
theorem X_Rz (a : ℝ) : Xm * Rz a = Rz (-a) * Xm := by
  rw [← X_Rz_X, mul_assoc, Xm_mul_Xm, mul_one]
theorem X_Ry (a : ℝ) : Xm * Ry a = Ry (-a) * Xm := by
  rw [← X_Ry_X, mul_assoc, Xm_mul_Xm, mul_one]
theorem X_Rz' (a : ℝ) (M : M1) : Xm * (Rz a * M) = Rz (-a) * (Xm * M) := by
  rw [← mul_assoc, X_Rz, mul_assoc]
theorem X_Ry' (a : ℝ) (M : M1) : Xm * (Ry a * M) = Ry (-a) * (Xm * M) := by
  rw [← mul_assoc, X_Ry, mul_assoc]
theorem X_X' (M : M1) : Xm * (Xm * M) = M := by rw [← mul_assoc, Xm_mul_Xm, one_mul]

theorem cu3_gen (a b c d θ φ l : ℝ) (ha : a = θ / 2) (hb : b = -θ / 2) (hc : c = -(φ + l) / 2)
    (hd : d = (l - φ) / 2) :
    on1 (Umat a φ 0) * (ctrl Xm * (on1 (Umat b 0 c) * (ctrl Xm * on1 (Umat 0 0 d)))) =
      ctrl (Umat θ φ l) := by
  subst ha hb hc hd
  simp only [on1_eq, ctrl_eq, blk_mul, Umat, Rz_zero, Ry_zero, mul_one, one_mul, mul_assoc,
    Rz_mul, Ry_mul, Rz_mul', Ry_mul', X_Rz, X_Ry, X_Rz', X_Ry', X_X', Xm_mul_Xm]
  ring_nf
  simp [Rz_mul, Ry_mul, Rz_zero, Ry_zero]

/-! ## the values of `exportDef` and `expandDef` (printed by `#eval`, checked by `decide`) -/

def def_CRY : GateDef :=
  ⟨cs!"cry", [cs!"theta"], [cs!"a", cs!"b"],
    [.call cs!"cu3" [(.id cs!"theta"), (.lit cs!"0"), (.lit cs!"0")] [cs!"a", cs!"b"]]⟩
theorem exportDef_CRY : exportDef cs!"CRY" = some def_CRY := by decide
def ps_CRY : List Prim :=
  [.U (.lit cs!"0") (.lit cs!"0") (.div (.sub (.lit cs!"0") (.lit cs!"0")) (.lit cs!"2")) 1,
   .CX 0 1,
   .U (.div (.neg (.id cs!"theta")) (.lit cs!"2")) (.lit cs!"0") (.div (.neg (.add (.lit cs!"0") (.lit cs!"0"))) (.lit cs!"2")) 1,
   .CX 0 1,
   .U (.div (.id cs!"theta") (.lit cs!"2")) (.lit cs!"0") (.lit cs!"0") 1]
theorem expand_CRY : expandDef (def_CRY :: qelib1.reverse) def_CRY.name = .ok ps_CRY := by decide

def def_CRX : GateDef :=
  ⟨cs!"crx", [cs!"theta"], [cs!"a", cs!"b"],
    [.call cs!"cu3" [(.id cs!"theta"), (.div (.neg .pi) (.lit cs!"2")), (.div .pi (.lit cs!"2"))] [cs!"a", cs!"b"]]⟩
theorem exportDef_CRX : exportDef cs!"CRX" = some def_CRX := by decide
def ps_CRX : List Prim :=
  [.U (.lit cs!"0") (.lit cs!"0") (.div (.sub (.div .pi (.lit cs!"2")) (.div (.neg .pi) (.lit cs!"2"))) (.lit cs!"2")) 1,
   .CX 0 1,
   .U (.div (.neg (.id cs!"theta")) (.lit cs!"2")) (.lit cs!"0") (.div (.neg (.add (.div (.neg .pi) (.lit cs!"2")) (.div .pi (.lit cs!"2")))) (.lit cs!"2")) 1,
   .CX 0 1,
   .U (.div (.id cs!"theta") (.lit cs!"2")) (.div (.neg .pi) (.lit cs!"2")) (.lit cs!"0") 1]
theorem expand_CRX : expandDef (def_CRX :: qelib1.reverse) def_CRX.name = .ok ps_CRX := by decide

def def_SQRTNOT : GateDef :=
  ⟨cs!"sqrtnot", [], [cs!"a"],
    [.call cs!"h" [] [cs!"a"],
   .call cs!"u1" [(.div .pi (.lit cs!"2"))] [cs!"a"],
   .call cs!"h" [] [cs!"a"]]⟩
theorem exportDef_SQRTNOT : exportDef cs!"SQRTNOT" = some def_SQRTNOT := by decide
def ps_SQRTNOT : List Prim :=
  [.U (.div .pi (.lit cs!"2")) (.lit cs!"0") .pi 0,
   .U (.lit cs!"0") (.lit cs!"0") (.div .pi (.lit cs!"2")) 0,
   .U (.div .pi (.lit cs!"2")) (.lit cs!"0") .pi 0]
theorem expand_SQRTNOT : expandDef (def_SQRTNOT :: qelib1.reverse) def_SQRTNOT.name = .ok ps_SQRTNOT := by decide

def def_CS : GateDef :=
  ⟨cs!"cs", [], [cs!"a", cs!"b"],
    [.call cs!"cu1" [(.div .pi (.lit cs!"2"))] [cs!"a", cs!"b"]]⟩
theorem exportDef_CS : exportDef cs!"CS" = some def_CS := by decide
def ps_CS : List Prim :=
  [.U (.lit cs!"0") (.lit cs!"0") (.div (.div .pi (.lit cs!"2")) (.lit cs!"2")) 0,
   .CX 0 1,
   .U (.lit cs!"0") (.lit cs!"0") (.div (.neg (.div .pi (.lit cs!"2"))) (.lit cs!"2")) 1,
   .CX 0 1,
   .U (.lit cs!"0") (.lit cs!"0") (.div (.div .pi (.lit cs!"2")) (.lit cs!"2")) 1]
theorem expand_CS : expandDef (def_CS :: qelib1.reverse) def_CS.name = .ok ps_CS := by decide

def def_CT : GateDef :=
  ⟨cs!"ct", [], [cs!"a", cs!"b"],
    [.call cs!"cu1" [(.div .pi (.lit cs!"4"))] [cs!"a", cs!"b"]]⟩
theorem exportDef_CT : exportDef cs!"CT" = some def_CT := by decide
def ps_CT : List Prim :=
  [.U (.lit cs!"0") (.lit cs!"0") (.div (.div .pi (.lit cs!"4")) (.lit cs!"2")) 0,
   .CX 0 1,
   .U (.lit cs!"0") (.lit cs!"0") (.div (.neg (.div .pi (.lit cs!"4"))) (.lit cs!"2")) 1,
   .CX 0 1,
   .U (.lit cs!"0") (.lit cs!"0") (.div (.div .pi (.lit cs!"4")) (.lit cs!"2")) 1]
theorem expand_CT : expandDef (def_CT :: qelib1.reverse) def_CT.name = .ok ps_CT := by decide

def def_SWAP : GateDef :=
  ⟨cs!"swap", [], [cs!"a", cs!"b"],
    [.call cs!"cx" [] [cs!"a", cs!"b"],
   .call cs!"cx" [] [cs!"b", cs!"a"],
   .call cs!"cx" [] [cs!"a", cs!"b"]]⟩
theorem exportDef_SWAP : exportDef cs!"SWAP" = some def_SWAP := by decide
def ps_SWAP : List Prim :=
  [.CX 0 1,
   .CX 1 0,
   .CX 0 1]
theorem expand_SWAP : expandDef (def_SWAP :: qelib1.reverse) def_SWAP.name = .ok ps_SWAP := by decide

def ps_x : List Prim :=
  [.U .pi (.lit cs!"0") .pi 0]
theorem expand_x : expandDef qelib1.reverse cs!"x" = .ok ps_x := by decide

def ps_y : List Prim :=
  [.U .pi (.div .pi (.lit cs!"2")) (.div .pi (.lit cs!"2")) 0]
theorem expand_y : expandDef qelib1.reverse cs!"y" = .ok ps_y := by decide

def ps_z : List Prim :=
  [.U (.lit cs!"0") (.lit cs!"0") .pi 0]
theorem expand_z : expandDef qelib1.reverse cs!"z" = .ok ps_z := by decide

def ps_h : List Prim :=
  [.U (.div .pi (.lit cs!"2")) (.lit cs!"0") .pi 0]
theorem expand_h : expandDef qelib1.reverse cs!"h" = .ok ps_h := by decide

def ps_s : List Prim :=
  [.U (.lit cs!"0") (.lit cs!"0") (.div .pi (.lit cs!"2")) 0]
theorem expand_s : expandDef qelib1.reverse cs!"s" = .ok ps_s := by decide

def ps_sdg : List Prim :=
  [.U (.lit cs!"0") (.lit cs!"0") (.div (.neg .pi) (.lit cs!"2")) 0]
theorem expand_sdg : expandDef qelib1.reverse cs!"sdg" = .ok ps_sdg := by decide

def ps_t : List Prim :=
  [.U (.lit cs!"0") (.lit cs!"0") (.div .pi (.lit cs!"4")) 0]
theorem expand_t : expandDef qelib1.reverse cs!"t" = .ok ps_t := by decide

def ps_tdg : List Prim :=
  [.U (.lit cs!"0") (.lit cs!"0") (.div (.neg .pi) (.lit cs!"4")) 0]
theorem expand_tdg : expandDef qelib1.reverse cs!"tdg" = .ok ps_tdg := by decide

def ps_id : List Prim :=
  [.U (.lit cs!"0") (.lit cs!"0") (.lit cs!"0") 0]
theorem expand_id : expandDef qelib1.reverse cs!"id" = .ok ps_id := by decide

def ps_rx : List Prim :=
  [.U (.id cs!"theta") (.div (.neg .pi) (.lit cs!"2")) (.div .pi (.lit cs!"2")) 0]
theorem expand_rx : expandDef qelib1.reverse cs!"rx" = .ok ps_rx := by decide

def ps_ry : List Prim :=
  [.U (.id cs!"theta") (.lit cs!"0") (.lit cs!"0") 0]
theorem expand_ry : expandDef qelib1.reverse cs!"ry" = .ok ps_ry := by decide

def ps_rz : List Prim :=
  [.U (.lit cs!"0") (.lit cs!"0") (.id cs!"phi") 0]
theorem expand_rz : expandDef qelib1.reverse cs!"rz" = .ok ps_rz := by decide

def ps_u1 : List Prim :=
  [.U (.lit cs!"0") (.lit cs!"0") (.id cs!"lambda") 0]
theorem expand_u1 : expandDef qelib1.reverse cs!"u1" = .ok ps_u1 := by decide

def ps_u2 : List Prim :=
  [.U (.div .pi (.lit cs!"2")) (.id cs!"phi") (.id cs!"lambda") 0]
theorem expand_u2 : expandDef qelib1.reverse cs!"u2" = .ok ps_u2 := by decide

def ps_u3 : List Prim :=
  [.U (.id cs!"theta") (.id cs!"phi") (.id cs!"lambda") 0]
theorem expand_u3 : expandDef qelib1.reverse cs!"u3" = .ok ps_u3 := by decide

def ps_cx : List Prim :=
  [.CX 0 1]
theorem expand_cx : expandDef qelib1.reverse cs!"cx" = .ok ps_cx := by decide

def ps_cz : List Prim :=
  [.U (.div .pi (.lit cs!"2")) (.lit cs!"0") .pi 1,
   .CX 0 1,
   .U (.div .pi (.lit cs!"2")) (.lit cs!"0") .pi 1]
theorem expand_cz : expandDef qelib1.reverse cs!"cz" = .ok ps_cz := by decide

def ps_cy : List Prim :=
  [.U (.lit cs!"0") (.lit cs!"0") (.div (.neg .pi) (.lit cs!"2")) 1,
   .CX 0 1,
   .U (.lit cs!"0") (.lit cs!"0") (.div .pi (.lit cs!"2")) 1]
theorem expand_cy : expandDef qelib1.reverse cs!"cy" = .ok ps_cy := by decide

def ps_ch : List Prim :=
  [.U (.div .pi (.lit cs!"2")) (.lit cs!"0") .pi 1,
   .U (.lit cs!"0") (.lit cs!"0") (.div (.neg .pi) (.lit cs!"2")) 1,
   .CX 0 1,
   .U (.div .pi (.lit cs!"2")) (.lit cs!"0") .pi 1,
   .U (.lit cs!"0") (.lit cs!"0") (.div .pi (.lit cs!"4")) 1,
   .CX 0 1,
   .U (.lit cs!"0") (.lit cs!"0") (.div .pi (.lit cs!"4")) 1,
   .U (.div .pi (.lit cs!"2")) (.lit cs!"0") .pi 1,
   .U (.lit cs!"0") (.lit cs!"0") (.div .pi (.lit cs!"2")) 1,
   .U .pi (.lit cs!"0") .pi 1,
   .U (.lit cs!"0") (.lit cs!"0") (.div .pi (.lit cs!"2")) 0]
theorem expand_ch : expandDef qelib1.reverse cs!"ch" = .ok ps_ch := by decide

def ps_crz : List Prim :=
  [.U (.lit cs!"0") (.lit cs!"0") (.div (.id cs!"lambda") (.lit cs!"2")) 1,
   .CX 0 1,
   .U (.lit cs!"0") (.lit cs!"0") (.div (.neg (.id cs!"lambda")) (.lit cs!"2")) 1,
   .CX 0 1]
theorem expand_crz : expandDef qelib1.reverse cs!"crz" = .ok ps_crz := by decide

def ps_cu1 : List Prim :=
  [.U (.lit cs!"0") (.lit cs!"0") (.div (.id cs!"lambda") (.lit cs!"2")) 0,
   .CX 0 1,
   .U (.lit cs!"0") (.lit cs!"0") (.div (.neg (.id cs!"lambda")) (.lit cs!"2")) 1,
   .CX 0 1,
   .U (.lit cs!"0") (.lit cs!"0") (.div (.id cs!"lambda") (.lit cs!"2")) 1]
theorem expand_cu1 : expandDef qelib1.reverse cs!"cu1" = .ok ps_cu1 := by decide

def ps_cu3 : List Prim :=
  [.U (.lit cs!"0") (.lit cs!"0") (.div (.sub (.id cs!"lambda") (.id cs!"phi")) (.lit cs!"2")) 1,
   .CX 0 1,
   .U (.div (.neg (.id cs!"theta")) (.lit cs!"2")) (.lit cs!"0") (.div (.neg (.add (.id cs!"phi") (.id cs!"lambda"))) (.lit cs!"2")) 1,
   .CX 0 1,
   .U (.div (.id cs!"theta") (.lit cs!"2")) (.id cs!"phi") (.lit cs!"0") 1]
theorem expand_cu3 : expandDef qelib1.reverse cs!"cu3" = .ok ps_cu3 := by decide

def ps_ccx : List Prim :=
  [.U (.div .pi (.lit cs!"2")) (.lit cs!"0") .pi 2,
   .CX 1 2,
   .U (.lit cs!"0") (.lit cs!"0") (.div (.neg .pi) (.lit cs!"4")) 2,
   .CX 0 2,
   .U (.lit cs!"0") (.lit cs!"0") (.div .pi (.lit cs!"4")) 2,
   .CX 1 2,
   .U (.lit cs!"0") (.lit cs!"0") (.div (.neg .pi) (.lit cs!"4")) 2,
   .CX 0 2,
   .U (.lit cs!"0") (.lit cs!"0") (.div .pi (.lit cs!"4")) 1,
   .U (.lit cs!"0") (.lit cs!"0") (.div .pi (.lit cs!"4")) 2,
   .U (.div .pi (.lit cs!"2")) (.lit cs!"0") .pi 2,
   .CX 0 1,
   .U (.lit cs!"0") (.lit cs!"0") (.div .pi (.lit cs!"4")) 0,
   .U (.lit cs!"0") (.lit cs!"0") (.div (.neg .pi) (.lit cs!"4")) 1,
   .CX 0 1]
theorem expand_ccx : expandDef qelib1.reverse cs!"ccx" = .ok ps_ccx := by decide



theorem defn_sound_CRY (θ : ℝ) : ∃ d ps, exportDef cs!"CRY" = some d ∧
    expandDef (d :: qelib1.reverse) d.name = .ok ps ∧
    PhaseEq (den2 (envOf [(cs!"theta", θ)]) ps) (ctrl (RYm θ)) := by
  refine ⟨_, _, exportDef_CRY, expand_CRY, PhaseEq.of_eq ?_⟩
  simp only [ps_CRY, den2, List.foldl, Prim.mat2, Expr.eval, env1, lit0, lit2, mul_one]
  rw [cu3_gen _ _ _ _ θ 0 0 rfl (by ring) (by ring) (by ring)]
  simp [Umat, Rz_zero, RYm]

/-- `e^{ia}` -/
noncomputable def ph (a : ℝ) : ℂ := exp (I * a)
theorem ph_add (a b : ℝ) : ph (a + b) = ph a * ph b := by simp [ph, mul_add, Complex.exp_add]
theorem ph_zero : ph 0 = 1 := by simp [ph]
theorem ph_eq (a : ℝ) : ph a = Real.cos a + Real.sin a * I := by
  rw [ph, mul_comm, Complex.exp_mul_I]; simp
theorem Rz_ph (a : ℝ) : Rz a = !![ph (-a / 2), 0; 0, ph (a / 2)] := by
  simp only [Rz, ph]; congr <;> (push_cast; ring_nf)


theorem ph_mul_eq {a b c : ℝ} (h : a + b = c) : ph a * ph b = ph c := by rw [← h, ph_add]
theorem ph_pi_div_two : ph (Real.pi / 2) = I := by simp [ph_eq]
theorem ph_neg_pi_div_two : ph (-(Real.pi / 2)) = -I := by simp [ph_eq]
theorem ph_pi : ph Real.pi = -1 := by simp [ph_eq]
theorem ph_neg_pi : ph (-Real.pi) = -1 := by simp [ph_eq]

theorem rx_core (θ : ℝ) : Umat θ (-Real.pi / 2) (Real.pi / 2) = RXm θ := by
  have h1 : ph (-(-Real.pi / 2) / 2) * ph (-(Real.pi / 2) / 2) = 1 := by
    rw [ph_mul_eq (c := 0) (by ring), ph_zero]
  have h2 : ph (-(-Real.pi / 2) / 2) * ph (Real.pi / 2 / 2) = I := by
    rw [ph_mul_eq (c := Real.pi / 2) (by ring), ph_pi_div_two]
  have h3 : ph (-Real.pi / 2 / 2) * ph (-(Real.pi / 2) / 2) = -I := by
    rw [ph_mul_eq (c := -(Real.pi / 2)) (by ring), ph_neg_pi_div_two]
  have h4 : ph (-Real.pi / 2 / 2) * ph (Real.pi / 2 / 2) = 1 := by
    rw [ph_mul_eq (c := 0) (by ring), ph_zero]
  ext i j
  fin_cases i <;> fin_cases j <;>
    simp [Umat, Rz_ph, Ry, RXm, Matrix.mul_apply, Fin.sum_univ_two]
  · linear_combination (cos (θ / 2 : ℂ)) * h1
  · linear_combination (sin (θ / 2 : ℂ)) * h2
  · linear_combination (sin (θ / 2 : ℂ)) * h3
  · linear_combination (cos (θ / 2 : ℂ)) * h4

theorem defn_sound_CRX (θ : ℝ) : ∃ d ps, exportDef cs!"CRX" = some d ∧
    expandDef (d :: qelib1.reverse) d.name = .ok ps ∧
    PhaseEq (den2 (envOf [(cs!"theta", θ)]) ps) (ctrl (RXm θ)) := by
  refine ⟨_, _, exportDef_CRX, expand_CRX, PhaseEq.of_eq ?_⟩
  simp only [ps_CRX, den2, List.foldl, Prim.mat2, Expr.eval, env1, lit0, lit2, mul_one]
  rw [cu3_gen _ _ _ _ θ (-Real.pi / 2) (Real.pi / 2) rfl (by ring) (by ring) (by ring), rx_core]

theorem Rz_eq_smul (a : ℝ) : Rz a = ph (-a / 2) • !![1, 0; 0, ph a] := by
  rw [Rz_ph]
  ext i j
  fin_cases i <;> fin_cases j <;> simp
  rw [ph_mul_eq (c := a / 2) (by ring)]

/-! one-qubit shortcuts -/
theorem shortcut_x : ∃ ps, expandDef qelib1.reverse cs!"x" = .ok ps ∧ PhaseEq (den1 (envOf []) ps) Xm := by
  refine ⟨_, expand_x, -(Real.pi / 2), ?_⟩
  simp only [ps_x, den1, List.foldl, Prim.mat1, Expr.eval, lit0, lit2, lit4, mul_one]
  rw [← ph]
  ext i j
  fin_cases i <;> fin_cases j <;>
    simp [Umat, Rz_ph, Ry, Xm, Matrix.mul_apply, Fin.sum_univ_two, Rz_zero, ph_zero, ph_neg_pi_div_two, ph_pi_div_two, neg_div]

theorem shortcut_y : ∃ ps, expandDef qelib1.reverse cs!"y" = .ok ps ∧ PhaseEq (den1 (envOf []) ps) Ym := by
  refine ⟨_, expand_y, -(Real.pi / 2), ?_⟩
  simp only [ps_y, den1, List.foldl, Prim.mat1, Expr.eval, lit0, lit2, lit4, mul_one]
  rw [← ph]
  have h1 : ph (-(Real.pi / 2) / 2) * ph (Real.pi / 2 / 2) = 1 := by
    rw [ph_mul_eq (c := 0) (by ring), ph_zero]
  have h2 : ph (Real.pi / 2 / 2) * ph (-(Real.pi / 2) / 2) = 1 := by
    rw [ph_mul_eq (c := 0) (by ring), ph_zero]
  ext i j
  fin_cases i <;> fin_cases j <;>
    simp [Umat, Rz_ph, Ry, Ym, Matrix.mul_apply, Fin.sum_univ_two, ph_neg_pi_div_two, h1, h2]

theorem shortcut_z : ∃ ps, expandDef qelib1.reverse cs!"z" = .ok ps ∧ PhaseEq (den1 (envOf []) ps) Zm := by
  refine ⟨_, expand_z, -(Real.pi / 2), ?_⟩
  simp only [ps_z, den1, List.foldl, Prim.mat1, Expr.eval, lit0, lit2, lit4, mul_one]
  rw [← ph, Umat_00, Rz_eq_smul, neg_div, ph_pi]
  congr 1


theorem sqrt2_mul_self : (Real.sqrt 2 : ℂ) * (Real.sqrt 2 : ℂ) = 2 := by
  rw [← Complex.ofReal_mul, Real.mul_self_sqrt (by norm_num)]; simp

theorem half_sqrt2 : ((Real.sqrt 2 / 2 : ℝ) : ℂ) = 1 / (Real.sqrt 2 : ℂ) := by
  have h : (Real.sqrt 2 : ℂ) ≠ 0 := by
    intro h0; have := sqrt2_mul_self; rw [h0] at this; norm_num at this
  push_cast; field_simp; rw [← sqrt2_mul_self]; ring

theorem Ry_pi_div_two : Ry (Real.pi / 2) =
    !![1 / (Real.sqrt 2 : ℂ), -(1 / (Real.sqrt 2 : ℂ)); 1 / (Real.sqrt 2 : ℂ), 1 / (Real.sqrt 2 : ℂ)] := by
  have h : Real.pi / 2 / 2 = Real.pi / 4 := by ring
  simp only [Ry, h, Real.cos_pi_div_four, Real.sin_pi_div_four, half_sqrt2]

/-- `h` of qelib1 is `u2(0,π)`; its matrix is `-i·H` -/
theorem h_core : Umat (Real.pi / 2) 0 Real.pi = ph (-(Real.pi / 2)) • Hm := by
  rw [Umat, Ry_pi_div_two, Rz_zero, one_mul, Rz_ph]
  ext i j
  fin_cases i <;> fin_cases j <;>
    simp [Hm, Matrix.mul_apply, Fin.sum_univ_two, ph_neg_pi_div_two, ph_pi_div_two, neg_div] <;> ring

theorem shortcut_h : ∃ ps, expandDef qelib1.reverse cs!"h" = .ok ps ∧ PhaseEq (den1 (envOf []) ps) Hm := by
  refine ⟨_, expand_h, -(Real.pi / 2), ?_⟩
  simp only [ps_h, den1, List.foldl, Prim.mat1, Expr.eval, lit0, lit2, lit4, mul_one]
  rw [← ph, h_core]

theorem Tm_eq : Tm = !![1, 0; 0, ph (Real.pi / 4)] := by
  have : exp (I * Real.pi / 4) = ph (Real.pi / 4) := by rw [ph]; congr 1; push_cast; ring
  rw [Tm, this]

theorem shortcut_s : ∃ ps, expandDef qelib1.reverse cs!"s" = .ok ps ∧ PhaseEq (den1 (envOf []) ps) Sm := by
  refine ⟨_, expand_s, -(Real.pi / 2) / 2, ?_⟩
  simp only [ps_s, den1, List.foldl, Prim.mat1, Expr.eval, lit0, lit2, lit4, mul_one]
  rw [← ph, Umat_00, Rz_eq_smul, ph_pi_div_two, Sm]

theorem shortcut_sdg : ∃ ps, expandDef qelib1.reverse cs!"sdg" = .ok ps ∧
    PhaseEq (den1 (envOf []) ps) (RZm (-(Real.pi / 2))) := by
  refine ⟨_, expand_sdg, PhaseEq.of_eq ?_⟩
  simp only [ps_sdg, den1, List.foldl, Prim.mat1, Expr.eval, lit0, lit2, lit4, mul_one]
  rw [Umat_00, neg_div, RZm]

theorem shortcut_t : ∃ ps, expandDef qelib1.reverse cs!"t" = .ok ps ∧ PhaseEq (den1 (envOf []) ps) Tm := by
  refine ⟨_, expand_t, -(Real.pi / 4) / 2, ?_⟩
  simp only [ps_t, den1, List.foldl, Prim.mat1, Expr.eval, lit0, lit2, lit4, mul_one]
  rw [← ph, Umat_00, Rz_eq_smul, Tm_eq]

theorem shortcut_tdg : ∃ ps, expandDef qelib1.reverse cs!"tdg" = .ok ps ∧
    PhaseEq (den1 (envOf []) ps) (RZm (-(Real.pi / 4))) := by
  refine ⟨_, expand_tdg, PhaseEq.of_eq ?_⟩
  simp only [ps_tdg, den1, List.foldl, Prim.mat1, Expr.eval, lit0, lit2, lit4, mul_one]
  rw [Umat_00, neg_div, RZm]

theorem shortcut_id : ∃ ps, expandDef qelib1.reverse cs!"id" = .ok ps ∧
    PhaseEq (den1 (envOf []) ps) (1 : M1) := by
  refine ⟨_, expand_id, PhaseEq.of_eq ?_⟩
  simp only [ps_id, den1, List.foldl, Prim.mat1, Expr.eval, lit0, lit2, lit4, mul_one]
  rw [Umat_00, Rz_zero]

theorem shortcut_rx (θ : ℝ) : ∃ ps, expandDef qelib1.reverse cs!"rx" = .ok ps ∧
    PhaseEq (den1 (envOf [(cs!"theta", θ)]) ps) (RXm θ) := by
  refine ⟨_, expand_rx, PhaseEq.of_eq ?_⟩
  simp only [ps_rx, den1, List.foldl, Prim.mat1, Expr.eval, env1, lit0, lit2, lit4, mul_one]
  rw [rx_core]

theorem shortcut_ry (θ : ℝ) : ∃ ps, expandDef qelib1.reverse cs!"ry" = .ok ps ∧
    PhaseEq (den1 (envOf [(cs!"theta", θ)]) ps) (RYm θ) := by
  refine ⟨_, expand_ry, PhaseEq.of_eq ?_⟩
  simp only [ps_ry, den1, List.foldl, Prim.mat1, Expr.eval, env1, lit0, lit2, lit4, mul_one]
  simp [Umat, Rz_zero, RYm]

theorem shortcut_rz (φ : ℝ) : ∃ ps, expandDef qelib1.reverse cs!"rz" = .ok ps ∧
    PhaseEq (den1 (envOf [(cs!"phi", φ)]) ps) (RZm φ) := by
  refine ⟨_, expand_rz, PhaseEq.of_eq ?_⟩
  simp only [ps_rz, den1, List.foldl, Prim.mat1, Expr.eval, env1, lit0, lit2, lit4, mul_one]
  rw [Umat_00, RZm]

theorem shortcut_u1 (l : ℝ) : ∃ ps, expandDef qelib1.reverse cs!"u1" = .ok ps ∧
    PhaseEq (den1 (envOf [(cs!"lambda", l)]) ps) (RZm l) := by
  refine ⟨_, expand_u1, PhaseEq.of_eq ?_⟩
  simp only [ps_u1, den1, List.foldl, Prim.mat1, Expr.eval, env1, lit0, lit2, lit4, mul_one]
  rw [Umat_00, RZm]

theorem shortcut_u2 (φ l : ℝ) : ∃ ps, expandDef qelib1.reverse cs!"u2" = .ok ps ∧
    PhaseEq (den1 (envOf [(cs!"phi", φ), (cs!"lambda", l)]) ps) (QASMUm (Real.pi / 2) φ l) := by
  refine ⟨_, expand_u2, PhaseEq.of_eq ?_⟩
  simp only [ps_u2, den1, List.foldl, Prim.mat1, Expr.eval, env_phi2, env_lambda2, lit0, lit2, lit4, mul_one]
  rfl

theorem shortcut_u3 (θ φ l : ℝ) : ∃ ps, expandDef qelib1.reverse cs!"u3" = .ok ps ∧
    PhaseEq (den1 (envOf [(cs!"theta", θ), (cs!"phi", φ), (cs!"lambda", l)]) ps) (QASMUm θ φ l) := by
  refine ⟨_, expand_u3, PhaseEq.of_eq ?_⟩
  simp only [ps_u3, den1, List.foldl, Prim.mat1, Expr.eval, env_theta3, env_phi3, env_lambda3, mul_one]
  rfl


theorem ph_congr (a b : ℝ) (k : ℤ) (h : a = b + k * (2 * Real.pi)) : ph a = ph b := by
  have h2 : I * (a : ℂ) = I * b + k * (2 * Real.pi * I) := by rw [h]; push_cast; ring
  rw [ph, ph, h2, Complex.exp_add, Complex.exp_int_mul_two_pi_mul_I, mul_one]

theorem sqrt2_sq : (Real.sqrt 2 : ℂ) ^ 2 = 2 := by rw [pow_two, sqrt2_mul_self]

theorem H_S_H : Hm * !![1, 0; 0, I] * Hm = SQRTNOTm := by
  have h : (Real.sqrt 2 : ℂ) ≠ 0 := by
    intro h0; have := sqrt2_mul_self; rw [h0] at this; norm_num at this
  ext i j
  fin_cases i <;> fin_cases j <;>
    simp [Hm, SQRTNOTm, Matrix.mul_apply, Fin.sum_univ_two] <;> field_simp <;>
    rw [← sqrt2_mul_self] <;> ring

theorem defn_sound_SQRTNOT : ∃ d ps, exportDef cs!"SQRTNOT" = some d ∧
    expandDef (d :: qelib1.reverse) d.name = .ok ps ∧ PhaseEq (den1 (envOf []) ps) SQRTNOTm := by
  refine ⟨_, _, exportDef_SQRTNOT, expand_SQRTNOT, 3 * Real.pi / 4, ?_⟩
  simp only [ps_SQRTNOT, den1, List.foldl, Prim.mat1, Expr.eval, lit0, lit2, lit4, mul_one]
  rw [← ph, h_core, Umat_00, Rz_eq_smul, ph_pi_div_two, ← H_S_H]
  simp only [Matrix.smul_mul, Matrix.mul_smul, smul_smul, Matrix.mul_assoc, ← ph_add]
  congr 1
  exact ph_congr _ _ (-1) (by push_cast; ring)

theorem defn_sound_SWAP : ∃ d ps, exportDef cs!"SWAP" = some d ∧
    expandDef (d :: qelib1.reverse) d.name = .ok ps ∧ PhaseEq (den2 (envOf []) ps) SWAPm := by
  refine ⟨_, _, exportDef_SWAP, expand_SWAP, PhaseEq.of_eq ?_⟩
  simp only [ps_SWAP, den2, List.foldl, Prim.mat2, mul_one]
  ext ⟨a, b⟩ ⟨c, d⟩
  fin_cases a <;> fin_cases b <;> fin_cases c <;> fin_cases d <;>
    simp [ctrl, ctrlRev, Xm, SWAPm, Matrix.mul_apply, Fintype.sum_prod_type, Fin.sum_univ_two]

theorem cu1_gen (a b c l : ℝ) (ha : a = l / 2) (hb : b = -l / 2) (hc : c = l / 2) :
    on1 (Umat 0 0 c) * (ctrl Xm * (on1 (Umat 0 0 b) * (ctrl Xm * on0 (Umat 0 0 a)))) =
      ph (-l / 4) • CPHASEm l := by
  subst ha hb hc
  simp only [Umat_00]
  have h0 : on0 (Rz (l / 2)) = blk (ph (-(l / 2) / 2) • 1) (ph (l / 2 / 2) • 1) := by rw [Rz_ph, on0_diag]
  rw [h0]
  simp only [on1_eq, ctrl_eq, blk_mul, CPHASEm, smul_blk, mul_one, one_mul, mul_assoc,
    Rz_mul, Ry_mul, Rz_mul', Ry_mul', X_Rz, X_Ry, X_Rz', X_Ry', X_X', Xm_mul_Xm, Matrix.mul_smul]
  congr 1
  · rw [show l / 2 + -l / 2 = 0 by ring, Rz_zero, show -(l / 2) / 2 = -l / 4 by ring]
  · rw [show l / 2 + -(-l / 2) = l by ring, Rz_eq_smul, smul_smul, ph_mul_eq (c := -l / 4) (by ring), ← ph]


theorem defn_sound_CS : ∃ d ps, exportDef cs!"CS" = some d ∧
    expandDef (d :: qelib1.reverse) d.name = .ok ps ∧ PhaseEq (den2 (envOf []) ps) (ctrl Sm) := by
  refine ⟨_, _, exportDef_CS, expand_CS, -(Real.pi / 2) / 4, ?_⟩
  simp only [ps_CS, den2, List.foldl, Prim.mat2, Expr.eval, lit0, lit2, lit4, mul_one]
  rw [cu1_gen _ _ _ (Real.pi / 2) rfl (by ring) rfl, ← ph, CPHASEm, ← ph, ph_pi_div_two, Sm, neg_div]

theorem defn_sound_CT : ∃ d ps, exportDef cs!"CT" = some d ∧
    expandDef (d :: qelib1.reverse) d.name = .ok ps ∧ PhaseEq (den2 (envOf []) ps) (ctrl Tm) := by
  refine ⟨_, _, exportDef_CT, expand_CT, -(Real.pi / 4) / 4, ?_⟩
  simp only [ps_CT, den2, List.foldl, Prim.mat2, Expr.eval, lit0, lit2, lit4, mul_one]
  rw [cu1_gen _ _ _ (Real.pi / 4) rfl (by ring) rfl, ← ph, CPHASEm, ← ph, Tm_eq, neg_div]

theorem shortcut_cx : ∃ ps, expandDef qelib1.reverse cs!"cx" = .ok ps ∧
    PhaseEq (den2 (envOf []) ps) (ctrl Xm) := by
  refine ⟨_, expand_cx, PhaseEq.of_eq ?_⟩
  simp only [ps_cx, den2, List.foldl, Prim.mat2, mul_one]

theorem H_H : Hm * Hm = 1 := by
  have h : (Real.sqrt 2 : ℂ) ≠ 0 := by
    intro h0; have := sqrt2_mul_self; rw [h0] at this; norm_num at this
  ext i j
  fin_cases i <;> fin_cases j <;>
    simp [Hm, Matrix.mul_apply, Fin.sum_univ_two] <;> field_simp <;>
    (try rw [sqrt2_sq]) <;> ring

theorem H_X_H : Hm * (Xm * Hm) = Zm := by
  have h : (Real.sqrt 2 : ℂ) ≠ 0 := by
    intro h0; have := sqrt2_mul_self; rw [h0] at this; norm_num at this
  ext i j
  fin_cases i <;> fin_cases j <;>
    simp [Hm, Xm, Zm, Matrix.mul_apply, Fin.sum_univ_two] <;> field_simp <;>
    (try rw [sqrt2_sq]) <;> ring

theorem shortcut_cz : ∃ ps, expandDef qelib1.reverse cs!"cz" = .ok ps ∧
    PhaseEq (den2 (envOf []) ps) (ctrl Zm) := by
  refine ⟨_, expand_cz, -Real.pi, ?_⟩
  simp only [ps_cz, den2, List.foldl, Prim.mat2, Expr.eval, lit0, lit2, lit4, mul_one]
  rw [← ph, h_core]
  simp only [on1_eq, ctrl_eq, blk_mul, smul_blk, mul_one, one_mul, Matrix.smul_mul, Matrix.mul_smul,
    smul_smul, ← ph_add, H_H, H_X_H]
  congr 2 <;> ring_nf

theorem shortcut_cy : ∃ ps, expandDef qelib1.reverse cs!"cy" = .ok ps ∧
    PhaseEq (den2 (envOf []) ps) (ctrl Ym) := by
  refine ⟨_, expand_cy, PhaseEq.of_eq ?_⟩
  simp only [ps_cy, den2, List.foldl, Prim.mat2, Expr.eval, lit0, lit2, lit4, mul_one]
  simp only [Umat_00, on1_eq, ctrl_eq, blk_mul, mul_one, one_mul, Rz_mul]
  congr 1
  · rw [show Real.pi / 2 + -Real.pi / 2 = 0 by ring, Rz_zero]
  · ext i j
    fin_cases i <;> fin_cases j <;>
      simp [Rz_ph, Xm, Ym, Matrix.mul_apply, Fin.sum_univ_two]
    · rw [ph_mul_eq (c := -(Real.pi / 2)) (by ring), ph_neg_pi_div_two]
    · rw [ph_mul_eq (c := Real.pi / 2) (by ring), ph_pi_div_two]

theorem shortcut_crz (l : ℝ) : ∃ ps, expandDef qelib1.reverse cs!"crz" = .ok ps ∧
    PhaseEq (den2 (envOf [(cs!"lambda", l)]) ps) (ctrl (RZm l)) := by
  refine ⟨_, expand_crz, PhaseEq.of_eq ?_⟩
  simp only [ps_crz, den2, List.foldl, Prim.mat2, Expr.eval, env1, lit0, lit2, lit4, mul_one]
  simp only [Umat_00, on1_eq, ctrl_eq, blk_mul, mul_one, one_mul, mul_assoc, RZm,
    Rz_mul, Rz_mul', X_Rz, X_Rz', X_X', Xm_mul_Xm]
  congr 1
  · rw [show -l / 2 + l / 2 = 0 by ring, Rz_zero]
  · congr 1; ring

theorem shortcut_cu1 (l : ℝ) : ∃ ps, expandDef qelib1.reverse cs!"cu1" = .ok ps ∧
    PhaseEq (den2 (envOf [(cs!"lambda", l)]) ps) (CPHASEm l) := by
  refine ⟨_, expand_cu1, -l / 4, ?_⟩
  simp only [ps_cu1, den2, List.foldl, Prim.mat2, Expr.eval, env1, lit0, lit2, lit4, mul_one]
  rw [cu1_gen _ _ _ l rfl rfl rfl, ← ph]

theorem shortcut_cu3 (θ φ l : ℝ) : ∃ ps, expandDef qelib1.reverse cs!"cu3" = .ok ps ∧
    PhaseEq (den2 (envOf [(cs!"theta", θ), (cs!"phi", φ), (cs!"lambda", l)]) ps) (ctrl (QASMUm θ φ l)) := by
  refine ⟨_, expand_cu3, PhaseEq.of_eq ?_⟩
  simp only [ps_cu3, den2, List.foldl, Prim.mat2, Expr.eval, env_theta3, env_phi3, env_lambda3,
    lit0, lit2, lit4, mul_one]
  rw [cu3_gen _ _ _ _ θ φ l rfl rfl rfl rfl]
  rfl

end QipVerif.Qasm
