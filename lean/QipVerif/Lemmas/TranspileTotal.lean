import QipVerif.Lemmas.TranspileTop
/-!
# C13: acceptance — a circuit of library gates the device can express is never refused

`acceptedName b n`: the dispatch of `resolve_gates` (after the Pauli substitution) has a way to
handle a gate named `n` in basis `b` — a decidable fact about the regenerated tables.  On shaped
gates with accepted names no stage raises: the rule bodies instantiate (`ruleOk`), the router is
total on well-formed gates (C07), and everything the earlier stages emit is again shaped and
accepted.
-/
namespace QipVerif.Transpile
open QipVerif QipVerif.Decomp QipVerif.Gen

/-- the gate name after the Pauli substitution at the top of the loop of `resolve_gates` -/
def pauliName (n : GName) : GName :=
  if n = .X then .RX else if n = .Y then .RY else if n = .Z then .RZ else n

/-- `_resolve_to_universal` + the KeyError handler do not raise for this name -/
def dispatchOk (b2 : List GName) (inB : GName → Bool) (n : GName) : Bool :=
  b2.contains n || (n == .SWAP && b2.contains .ISWAP) ||
    match gateRule n with
    | .ignored => true
    | .notImplemented => false
    | .missing => inB n
    | .templ _ => true

/-- the device (basis `b`) can express a gate of this name -/
def acceptedName (b : BasisSpec) (n : GName) : Bool :=
  match splitBasis b with
  | .ok (_, b2, inB) => dispatchOk b2 inB (pauliName n)
  | .error _ => false

theorem pauliSub_name (g : Gate) : (pauliSub g).2.name = pauliName g.name := by
  unfold pauliSub pauliName
  split
  · rfl
  · split
    · rfl
    · split <;> rfl

theorem dispatch_total {N : Nat} {b2 : List GName} {inB : GName → Bool} {g : Gate}
    (hg : shapedB N g = true) (hok : dispatchOk b2 inB g.name = true) :
    ∃ out, dispatch tables b2 inB g = .ok out := by
  unfold dispatch
  split
  · exact ⟨_, rfl⟩
  · rename_i h1
    split
    · exact ⟨_, rfl⟩
    · rename_i h2
      have h1' : b2.contains g.name = false := by simpa using h1
      have h2' : (g.name == .SWAP && b2.contains .ISWAP) = false := by
        cases hs : (g.name == GName.SWAP) <;> cases hi : b2.contains GName.ISWAP <;> simp_all
      simp only [dispatchOk, h1', h2', Bool.false_or] at hok
      have ht : tables.gateRule g.name = gateRule g.name := rfl
      rw [ht]
      cases hr : gateRule g.name with
      | ignored => exact ⟨_, rfl⟩
      | notImplemented => rw [hr] at hok; cases hok
      | missing => rw [hr] at hok; simp only at hok; simp [hok]
      | templ body =>
        obtain ⟨out, ho⟩ := instBody_some (ruleOk_all hg (gateRule_ok g.name body hr))
        exact ⟨out, by simp only [ho]⟩

theorem resolveOne_total {N : Nat} {b2 : List GName} {inB : GName → Bool} {g0 : Gate}
    (hg : shapedB N g0 = true) (hok : dispatchOk b2 inB (pauliName g0.name) = true) :
    ∃ p r, resolveOne tables b2 inB g0 = .ok (p, r) := by
  have hsh : shapedB N (pauliSub g0).2 = true := ((shapedRel N).pauli g0).1.2 hg
  obtain ⟨out, ho⟩ := dispatch_total (b2 := b2) (inB := inB) hsh (by rw [pauliSub_name]; exact hok)
  exact ⟨(pauliSub g0).1, out, by simp only [resolveOne, ho]⟩

theorem resolveAll_total {N : Nat} {b2 : List GName} {inB : GName → Bool} : ∀ (gs : List Gate),
    (∀ g ∈ gs, shapedB N g = true) → (∀ g ∈ gs, dispatchOk b2 inB (pauliName g.name) = true) →
    ∃ ps rs, resolveAll tables b2 inB gs = .ok (ps, rs) := by
  intro gs
  induction gs with
  | nil => intro _ _; exact ⟨[], [], rfl⟩
  | cons g gs ih =>
    intro hsh hok
    obtain ⟨p, r, h1⟩ := resolveOne_total (b2 := b2) (inB := inB) (hsh g (List.mem_cons_self ..))
      (hok g (List.mem_cons_self ..))
    obtain ⟨ps, rs, h2⟩ := ih (fun x hx => hsh x (List.mem_cons_of_mem _ hx))
      (fun x hx => hok x (List.mem_cons_of_mem _ hx))
    exact ⟨p ++ ps, r ++ rs, by simp only [resolveAll, h1, h2]⟩

theorem basisPass_total {N : Nat} (y : GName) : ∀ (temp : List Gate), (∀ g ∈ temp, shapedB N g = true) →
    ∃ out, basisPass tables y temp = .ok out := by
  intro temp
  induction temp with
  | nil => intro _; exact ⟨[], rfl⟩
  | cons g gs ih =>
    intro hsh
    obtain ⟨rest, hrest⟩ := ih (fun x hx => hsh x (List.mem_cons_of_mem _ hx))
    have ht : tables.basisRule y g.name = basisRule y g.name := rfl
    cases hb : basisRule y g.name with
    | none => exact ⟨g :: rest, by simp only [basisPass, hrest, ht, hb]⟩
    | some body =>
      obtain ⟨out, ho⟩ := instBody_some (ruleOk_all (hsh g (List.mem_cons_self ..)) (basisRule_ok y g.name body hb))
      exact ⟨out ++ rest, by simp only [basisPass, hrest, ht, hb, ho]⟩

/-- **`resolve_gates` never raises on shaped gates with accepted names** (valid basis specification) -/
theorem resolve_total {N : Nat} (keep : Bool) (b : BasisSpec) (gs : List Gate)
    {b1 b2 : List GName} {inB : GName → Bool} (hs : splitBasis b = .ok (b1, b2, inB))
    (hsh : ∀ g ∈ gs, shapedB N g = true) (hok : ∀ g ∈ gs, dispatchOk b2 inB (pauliName g.name) = true) :
    ∃ out, resolve tables keep b gs = .ok out := by
  unfold resolve
  rw [hs]
  simp only
  obtain ⟨ps, rs, hra⟩ := resolveAll_total (N := N) (b2 := b2) (inB := inB) gs hsh hok
  rw [hra]
  simp only
  have hrs : ∀ x ∈ rs, shapedB N x = true := by
    intro x hx
    obtain ⟨g, hg, hr⟩ := (resolveAll_rel (shapedRel N) hra).2 x hx
    exact hr.2 (hsh g hg)
  cases hf : [GName.CSIGN, .ISWAP, .SQRTSWAP, .SQRTISWAP].find? b2.contains with
  | none => exact ⟨_, rfl⟩
  | some y =>
    obtain ⟨o, ho⟩ := basisPass_total (N := N) y rs hrs
    simp only [ho]
    exact ⟨_, rfl⟩

theorem acceptedName_iff {b : BasisSpec} {b1 b2 : List GName} {inB : GName → Bool}
    (hs : splitBasis b = .ok (b1, b2, inB)) (n : GName) :
    acceptedName b n = dispatchOk b2 inB (pauliName n) := by
  simp only [acceptedName, hs]

/-! ## the composed stages never raise -/

/-- names the stages themselves introduce (pre-decomposition: CNOT + rotations + markers; router: SWAP) -/
def stageNames : List GName := [.CNOT, .RX, .RY, .RZ, .GLOBALPHASE, .IDLE, .SWAP]

/-- a gate of the class on more than two qubits is a TOFFOLI or a FREDKIN -/
theorem big_name {N : Nat} {g : Gate} (hg : InClass N g) (hb : g.qubits.length > 2) :
    g.name = .TOFFOLI ∨ g.name = .FREDKIN := by
  have ha := shaped_arity hg.1
  rw [ha] at hb
  have hr := hg.2
  revert hr hb
  cases g.name <;> simp [resolvable, arity, shapeOf]

theorem expandOne_total {N : Nat} {g : Gate} (hg : InClass N g) : ∃ a, expandOne tables g = .ok a := by
  unfold expandOne
  split
  · rename_i hb
    obtain ⟨inB, hs⟩ := splitBasis_strCNOT
    apply resolve_total (N := N) true cnotBasis [g] hs
    · intro x hx; rw [List.mem_singleton.mp hx]; exact hg.1
    · intro x hx
      rw [List.mem_singleton.mp hx]
      rcases big_name hg hb with h | h <;> rw [h] <;> simp [dispatchOk, pauliName, gateRule]
  · exact ⟨_, rfl⟩

theorem preExpand_total {N : Nat} : ∀ (gs : List Gate), (∀ g ∈ gs, InClass N g) →
    ∃ out, preExpand tables gs = .ok out := by
  intro gs
  induction gs with
  | nil => intro _; exact ⟨[], rfl⟩
  | cons g gs ih =>
    intro hg
    obtain ⟨a, ha⟩ := expandOne_total (hg g (List.mem_cons_self ..))
    obtain ⟨b, hb⟩ := ih (fun x hx => hg x (List.mem_cons_of_mem _ hx))
    exact ⟨a ++ b, by simp only [preExpand, ha, hb]⟩

/-- what the pre-decomposition of one gate emits: the gate itself, or CNOT / rotations / markers -/
theorem expandOne_names {N : Nat} {g : Gate} (hg : InClass N g) {a : List Gate}
    (h : expandOne tables g = .ok a) : ∀ x ∈ a, x = g ∨ x.name ∈ stageNames := by
  unfold expandOne at h
  split at h
  · obtain ⟨inB, hsb⟩ := splitBasis_strCNOT
    have hnames := resolve_names_core true cnotBasis [g] a _ _ inB hsb (by simp) (by decide)
      (by decide) (by decide) (by simpa using hg.2) h
    intro x hx
    have hn := (List.all_eq_true.mp hnames) x hx
    right
    revert hn; cases x.name <;> simp [allowedOk, stageNames]
  · cases h
    intro x hx
    exact Or.inl (List.mem_singleton.mp hx)

/-- **acceptance, repaired composition**: shaped gates with names the native stage accepts ⇒ no stage raises -/
theorem transpileV_total {spec : DeviceSpec} {b b1 b2 : List GName} {inB : GName → Bool}
    (hb : spec.native = some b) (hs : splitBasis (.list b) = .ok (b1, b2, inB)) (ht : TopoOK spec)
    (hstage : ∀ n ∈ stageNames, dispatchOk b2 inB (pauliName n) = true)
    (N : Nat) (gs : List Gate) (hg : ∀ g ∈ gs, InClass N g)
    (hacc : ∀ g ∈ gs, dispatchOk b2 inB (pauliName g.name) = true) :
    ∃ out, transpileV tables true spec N gs = .ok out := by
  have hn : spec.native.isSome = true := by rw [hb]; rfl
  -- stage 0
  obtain ⟨g0, hpe⟩ := preExpand_total (N := N) gs hg
  have h0 : preStage tables true spec gs = .ok g0 := by
    simp only [preStage, hn, Bool.and_self, if_true, hpe]
  have hsm0 := preStage_small hn hg h0
  have hacc0 : ∀ x ∈ g0, dispatchOk b2 inB (pauliName x.name) = true := by
    intro x hx
    obtain ⟨g, hgm, a, ha, hxa⟩ := preExpand_mem hpe x hx
    rcases expandOne_names (hg g hgm) ha x hxa with rfl | hst
    · exact hacc x hgm
    · exact hstage _ hst
  -- stage 1
  have h1 : ∃ g1, topoStage spec N g0 = .ok g1 := by
    unfold topoStage
    split
    · exact ⟨_, rfl⟩
    · rename_i s hsome
      obtain ⟨o, ho⟩ := routeStage_total N s (linCirc hsome ht) g0 (fun g hgm => (hsm0 g hgm).1)
      exact ⟨o, by simp only [ho]⟩
  obtain ⟨g1, h1⟩ := h1
  have hcls1 := topoStage_small ht hsm0 h1
  have hacc1 : ∀ x ∈ g1, dispatchOk b2 inB (pauliName x.name) = true := by
    rcases topoStage_ok ht (fun g hgm => (hsm0 g hgm).1) h1 with ⟨_, rfl⟩ | ⟨s, _, hs', ho⟩
    · exact hacc0
    · intro x hx
      rcases routeStage_mem N s hs' g0 g1 (fun g hgm _ => (hsm0 g hgm).1) ho x hx with ⟨hxm, _⟩ | hr
      · exact hacc0 x hxm
      · obtain ⟨g, hgm, _, hnm⟩ := hr.from_handled
        rcases hnm with h | h
        · rw [h]; exact hacc0 g hgm
        · rw [h]; exact hstage _ (by simp [stageNames])
  -- stage 2
  obtain ⟨out, ho⟩ := resolve_total (N := N) true (.list b) g1 hs (fun x hx => (hcls1 x hx).1.1) hacc1
  exact ⟨out, by simp only [transpileV, h0, h1, nativeStage, hb, ho]⟩

/-- on a valid list basis a name is accepted iff it is not refused -/
theorem accepted_iff_not_refused {b b1 b2 : List GName} {inB : GName → Bool}
    (hs : splitBasis (.list b) = .ok (b1, b2, inB)) (n : GName) :
    acceptedName (.list b) n = !refusedName b n := by
  simp only [acceptedName, refusedName, hs, dispatchOk]
  by_cases hx : n = .X
  · subst hx; simp [pauliName, gateRule]
  by_cases hy : n = .Y
  · subst hy; simp [pauliName, gateRule]
  by_cases hz : n = .Z
  · subst hz; simp [pauliName, gateRule]
  have hp : pauliName n = n := by simp [pauliName, hx, hy, hz]
  rw [hp]
  cases hr : gateRule n <;> cases b2.contains n <;> cases (n == GName.SWAP && b2.contains GName.ISWAP) <;>
    cases inB n <;> simp [hx, hy, hz]

end QipVerif.Transpile
