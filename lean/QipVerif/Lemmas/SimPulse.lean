import QipVerif.Model.SimPulse
import QipVerif.Lemmas.SimLift
/-!
# `get_noisy_pulses` works on copies: the pulses a processor holds keep their values, the result is a function of
those values (property C16)

The noisy pulses live in a part of the store created by the call (`Lay`: pulse `i` of the working list owns the
lists `B + 2i`, `B + 2i + 1`), every append of a noise object goes there (`applyAct_rep`: the store-level append is
the value-level append `actVal`), the older part of the store is untouched (`Frame`).
-/
namespace QipVerif.Sim
open QipVerif.Heap

/-! ## Store facts -/

theorem ne_ref {a b : Nat} (h : a ≠ b) : (a : Ref) ≠ b := h

theorem appendTo_pulses (w : PWorld) (r : Ref) (t : Int) : (appendTo w r t).pulses = w.pulses := rfl

theorem appendTo_pulse? (w : PWorld) (r : Ref) (t : Int) (x : Ref) : (appendTo w r t).pulse? x = w.pulse? x := rfl

theorem appendTo_size (w : PWorld) (r : Ref) (t : Int) : (appendTo w r t).lists.size = w.lists.size :=
  Heap.size_put _ _ _

theorem appendTo_get_other (w : PWorld) (r r' : Ref) (t : Int) (h : r' ≠ r) :
    (appendTo w r t).lists.get r' = w.lists.get r' := Heap.get_put_other _ _ _ _ h

theorem appendTo_get_same (w : PWorld) (r : Ref) (t : Int) (h : r < w.lists.size) :
    (appendTo w r t).lists.get r = w.lists.get r ++ [t] := Heap.get_put_same _ _ _ h

theorem heap_get_append_left (cells extra : List (List Int)) (r : Nat) (hr : r < cells.length) :
    (Heap.mk (cells ++ extra)).get r = (Heap.mk cells).get r := by
  simp only [Heap.get, List.getD_eq_getElem?_getD]
  rw [List.getElem?_append_left hr]

/-- the older part of the store is as it was: old pulse objects, old lists -/
structure Frame (w0 w : PWorld) : Prop where
  pulses : ∃ ps, w.pulses = w0.pulses ++ ps
  size : w0.lists.size ≤ w.lists.size
  get : ∀ r, r < w0.lists.size → w.lists.get r = w0.lists.get r

theorem Frame.refl (w : PWorld) : Frame w w := ⟨⟨[], by simp⟩, Nat.le_refl _, fun _ _ => rfl⟩

theorem Frame.trans {a b c : PWorld} (h1 : Frame a b) (h2 : Frame b c) : Frame a c := by
  obtain ⟨p1, hp1⟩ := h1.pulses
  obtain ⟨p2, hp2⟩ := h2.pulses
  exact ⟨⟨p1 ++ p2, by rw [hp2, hp1, List.append_assoc]⟩, Nat.le_trans h1.size h2.size,
    fun r hr => by rw [h2.get r (Nat.lt_of_lt_of_le hr h1.size), h1.get r hr]⟩

theorem Frame.pulses_le {a b : PWorld} (h : Frame a b) : a.pulses.length ≤ b.pulses.length := by
  obtain ⟨p, hp⟩ := h.pulses; simp [hp]

theorem Frame.pulse? {a b : PWorld} (h : Frame a b) (r : Nat) (hr : r < a.pulses.length) : b.pulse? r = a.pulse? r := by
  obtain ⟨p, hp⟩ := h.pulses
  simp only [PWorld.pulse?, hp]
  rw [List.getElem?_append_left hr]

/-- a pulse object that exists, with existing lists -/
def WFP (w : PWorld) (r : Ref) : Prop :=
  ∃ p, w.pulse? r = some p ∧ p.coh < w.lists.size ∧ p.lind < w.lists.size

theorem WFP.lt {w : PWorld} {r : Ref} (h : WFP w r) : r < w.pulses.length := by
  obtain ⟨p, hp, _⟩ := h
  unfold PWorld.pulse? at hp
  exact (List.getElem?_eq_some_iff.mp hp).1

theorem Frame.wfp {a b : PWorld} (h : Frame a b) {r : Ref} (hr : WFP a r) : WFP b r := by
  obtain ⟨p, hp, h1, h2⟩ := hr
  exact ⟨p, by rw [h.pulse? r (WFP.lt ⟨p, hp, h1, h2⟩)]; exact hp, Nat.lt_of_lt_of_le h1 h.size,
    Nat.lt_of_lt_of_le h2 h.size⟩

/-- **an old pulse keeps its value** -/
theorem Frame.pulseVal {a b : PWorld} (h : Frame a b) {r : Ref} (hr : WFP a r) : pulseVal b r = pulseVal a r := by
  have hlt := hr.lt
  obtain ⟨p, hp, h1, h2⟩ := hr
  unfold Sim.pulseVal
  rw [h.pulse? r hlt, hp]
  simp only [Option.map_some, Option.some.injEq, PVal.mk.injEq, true_and]
  exact ⟨h.get _ h1, h.get _ h2⟩

theorem Frame.pulsesVal {a b : PWorld} (h : Frame a b) (rs : List Ref) (hr : ∀ r ∈ rs, WFP a r) :
    pulsesVal b rs = pulsesVal a rs := by
  unfold Sim.pulsesVal
  exact List.map_congr_left fun r hrm => h.pulseVal (hr r hrm)

theorem allocPulse_frame (w : PWorld) (i : Int) (c l : List Int) : Frame w (allocPulse w i c l).1 :=
  ⟨⟨_, rfl⟩, by simp [allocPulse, Heap.size], fun r hr => heap_get_append_left _ _ r hr⟩

/-! ## The working list: pulse `i` owns the lists `B + 2i`, `B + 2i + 1` -/

structure Lay (w : PWorld) (noisy : List Ref) (B : Nat) (vals : List PVal) : Prop where
  len : noisy.length = vals.length
  obj : ∀ i (h : i < vals.length), (noisy[i]?).bind w.pulse? = some ⟨vals[i].ideal, B + 2 * i, B + 2 * i + 1⟩
  coh : ∀ i (h : i < vals.length), w.lists.get (B + 2 * i) = vals[i].coh
  lind : ∀ i (h : i < vals.length), w.lists.get (B + 2 * i + 1) = vals[i].lind
  size : B + 2 * vals.length ≤ w.lists.size

structure SysLay (w : PWorld) (sys : Ref) (S : Nat) (v : PVal) : Prop where
  obj : w.pulse? sys = some ⟨v.ideal, S, S + 1⟩
  coh : w.lists.get S = v.coh
  lind : w.lists.get (S + 1) = v.lind
  size : S + 2 ≤ w.lists.size

theorem Lay.out_of_range {w : PWorld} {noisy : List Ref} {B : Nat} {vals : List PVal} (h : Lay w noisy B vals) (i : Nat)
    (hi : ¬ i < vals.length) : (noisy[i]?).bind w.pulse? = Option.none := by
  have : noisy[i]? = Option.none := by
    rw [List.getElem?_eq_none_iff, h.len]; exact Nat.le_of_not_lt hi
  rw [this]; rfl

/-- the value seen through the working list -/
theorem Lay.pulsesVal {w : PWorld} {noisy : List Ref} {B : Nat} {vals : List PVal} (h : Lay w noisy B vals) :
    pulsesVal w noisy = vals.map some := by
  apply List.ext_getElem
  · simp [Sim.pulsesVal, h.len]
  · intro i h1 h2
    have hi : i < vals.length := by simpa using h2
    have hn : i < noisy.length := by rw [h.len]; exact hi
    have ho := h.obj i hi
    rw [List.getElem?_eq_getElem hn] at ho
    simp only [Option.bind_some] at ho
    simp only [Sim.pulsesVal, List.getElem_map, Sim.pulseVal, ho, Option.map_some, h.coh i hi, h.lind i hi]

/-- the store below `B` and the pulse objects are not touched -/
structure Low (B : Nat) (w w' : PWorld) : Prop where
  pulses : w'.pulses = w.pulses
  size : w'.lists.size = w.lists.size
  get : ∀ r, r < B → w'.lists.get r = w.lists.get r

theorem Low.refl (B : Nat) (w : PWorld) : Low B w w := ⟨rfl, rfl, fun _ _ => rfl⟩

theorem Low.trans {B : Nat} {a b c : PWorld} (h1 : Low B a b) (h2 : Low B b c) : Low B a c :=
  ⟨by rw [h2.pulses, h1.pulses], by rw [h2.size, h1.size], fun r hr => by rw [h2.get r hr, h1.get r hr]⟩

theorem appendTo_low (B : Nat) (w : PWorld) (r : Ref) (t : Int) (h : B ≤ r) : Low B w (appendTo w r t) :=
  ⟨rfl, appendTo_size _ _ _, fun x hx => appendTo_get_other _ _ _ _ (ne_ref (by omega))⟩

/-- the store and the values describe the same working list -/
structure Rep (noisy : List Ref) (sys : Ref) (B S : Nat) (s : NState) (v : VState) : Prop where
  lay : Lay s.w noisy B v.vals
  sys : SysLay s.w sys S v.sys
  rng : s.rng = v.rng
  sep : B + 2 * v.vals.length ≤ S

theorem PVal.addCoh_ideal (v : PVal) (t : Int) : (v.addCoh t).ideal = v.ideal := rfl
theorem PVal.addLind_ideal (v : PVal) (t : Int) : (v.addLind t).ideal = v.ideal := rfl

/-- appending to the coherent-noise list of working pulse `i` -/
theorem rep_addCoh {noisy : List Ref} {sys : Ref} {B S : Nat} {s : NState} {v : VState}
    (h : Rep noisy sys B S s v) (i : Nat) (hi : i < v.vals.length) (t : Int) (rng' : List Int) :
    Rep noisy sys B S ⟨appendTo s.w (B + 2 * i) t, rng'⟩ ⟨v.vals.set i (v.vals[i].addCoh t), v.sys, rng'⟩ := by
  have hsz : B + 2 * i < s.w.lists.size := by have := h.lay.size; omega
  refine ⟨⟨by simp [h.lay.len], ?_, ?_, ?_, by simpa [appendTo_size] using h.lay.size⟩,
    ⟨h.sys.obj, ?_, ?_, by simpa [appendTo_size] using h.sys.size⟩, rfl, by simpa using h.sep⟩
  · intro j hj
    have hj' : j < v.vals.length := by simpa using hj
    show (noisy[j]?).bind s.w.pulse? = _
    rw [h.lay.obj j hj']
    by_cases hij : i = j
    · subst hij; simp [PVal.addCoh_ideal]
    · simp [List.getElem_set_ne hij]
  · intro j hj
    have hj' : j < v.vals.length := by simpa using hj
    by_cases hij : i = j
    · subst hij
      show (appendTo s.w (B + 2 * i) t).lists.get (B + 2 * i) = _
      rw [appendTo_get_same _ _ _ hsz, h.lay.coh i hi]; simp [PVal.addCoh]
    · show (appendTo s.w (B + 2 * i) t).lists.get (B + 2 * j) = _
      rw [appendTo_get_other _ _ _ _ (ne_ref (by omega)), h.lay.coh j hj']; simp [List.getElem_set_ne hij]
  · intro j hj
    have hj' : j < v.vals.length := by simpa using hj
    show (appendTo s.w (B + 2 * i) t).lists.get (B + 2 * j + 1) = _
    rw [appendTo_get_other _ _ _ _ (ne_ref (by omega)), h.lay.lind j hj']
    by_cases hij : i = j
    · subst hij; simp [PVal.addCoh]
    · simp [List.getElem_set_ne hij]
  · show (appendTo s.w (B + 2 * i) t).lists.get S = _
    have := h.sep
    rw [appendTo_get_other _ _ _ _ (ne_ref (by omega))]; exact h.sys.coh
  · show (appendTo s.w (B + 2 * i) t).lists.get (S + 1) = _
    have := h.sep
    rw [appendTo_get_other _ _ _ _ (ne_ref (by omega))]; exact h.sys.lind

/-- appending to the Lindblad-noise list of working pulse `i` -/
theorem rep_addLind {noisy : List Ref} {sys : Ref} {B S : Nat} {s : NState} {v : VState}
    (h : Rep noisy sys B S s v) (i : Nat) (hi : i < v.vals.length) (t : Int) :
    Rep noisy sys B S ⟨appendTo s.w (B + 2 * i + 1) t, s.rng⟩ ⟨v.vals.set i (v.vals[i].addLind t), v.sys, v.rng⟩ := by
  have hsz : B + 2 * i + 1 < s.w.lists.size := by have := h.lay.size; omega
  refine ⟨⟨by simp [h.lay.len], ?_, ?_, ?_, by simpa [appendTo_size] using h.lay.size⟩,
    ⟨h.sys.obj, ?_, ?_, by simpa [appendTo_size] using h.sys.size⟩, h.rng, by simpa using h.sep⟩
  · intro j hj
    have hj' : j < v.vals.length := by simpa using hj
    show (noisy[j]?).bind s.w.pulse? = _
    rw [h.lay.obj j hj']
    by_cases hij : i = j
    · subst hij; simp [PVal.addLind_ideal]
    · simp [List.getElem_set_ne hij]
  · intro j hj
    have hj' : j < v.vals.length := by simpa using hj
    show (appendTo s.w (B + 2 * i + 1) t).lists.get (B + 2 * j) = _
    rw [appendTo_get_other _ _ _ _ (ne_ref (by omega)), h.lay.coh j hj']
    by_cases hij : i = j
    · subst hij; simp [PVal.addLind]
    · simp [List.getElem_set_ne hij]
  · intro j hj
    have hj' : j < v.vals.length := by simpa using hj
    by_cases hij : i = j
    · subst hij
      show (appendTo s.w (B + 2 * i + 1) t).lists.get (B + 2 * i + 1) = _
      rw [appendTo_get_same _ _ _ hsz, h.lay.lind i hi]; simp [PVal.addLind]
    · show (appendTo s.w (B + 2 * i + 1) t).lists.get (B + 2 * j + 1) = _
      rw [appendTo_get_other _ _ _ _ (ne_ref (by omega)), h.lay.lind j hj']; simp [List.getElem_set_ne hij]
  · show (appendTo s.w (B + 2 * i + 1) t).lists.get S = _
    have := h.sep
    rw [appendTo_get_other _ _ _ _ (ne_ref (by omega))]; exact h.sys.coh
  · show (appendTo s.w (B + 2 * i + 1) t).lists.get (S + 1) = _
    have := h.sep
    rw [appendTo_get_other _ _ _ _ (ne_ref (by omega))]; exact h.sys.lind

/-- appending to a list of the `systematic_noise` pulse (`lindQ`: its Lindblad list) -/
theorem rep_addSys {noisy : List Ref} {sys : Ref} {B S : Nat} {s : NState} {v : VState}
    (h : Rep noisy sys B S s v) (lindQ : Bool) (t : Int) :
    Rep noisy sys B S ⟨appendTo s.w (if lindQ then S + 1 else S) t, s.rng⟩
      ⟨v.vals, if lindQ then v.sys.addLind t else v.sys.addCoh t, v.rng⟩ := by
  have hS := h.sys.size
  have hsep := h.sep
  have hS0 : S < s.w.lists.size := by omega
  have hS1 : S + 1 < s.w.lists.size := by omega
  cases lindQ with
  | false =>
    simp only [Bool.false_eq_true, ↓reduceIte]
    refine ⟨⟨h.lay.len, fun j hj => h.lay.obj j hj, fun j (hj : j < v.vals.length) => ?_, fun j (hj : j < v.vals.length) => ?_,
      by simpa [appendTo_size] using h.lay.size⟩, ⟨h.sys.obj, ?_, ?_, by simpa [appendTo_size] using hS⟩, h.rng, hsep⟩
    · show (appendTo s.w S t).lists.get (B + 2 * j) = _
      rw [appendTo_get_other _ _ _ _ (ne_ref (by omega))]; exact h.lay.coh j hj
    · show (appendTo s.w S t).lists.get (B + 2 * j + 1) = _
      rw [appendTo_get_other _ _ _ _ (ne_ref (by omega))]; exact h.lay.lind j hj
    · show (appendTo s.w S t).lists.get S = _
      rw [appendTo_get_same s.w S t hS0, h.sys.coh]; rfl
    · show (appendTo s.w S t).lists.get (S + 1) = _
      rw [appendTo_get_other _ _ _ _ (ne_ref (by omega))]; exact h.sys.lind
  | true =>
    simp only [↓reduceIte]
    refine ⟨⟨h.lay.len, fun j hj => h.lay.obj j hj, fun j (hj : j < v.vals.length) => ?_, fun j (hj : j < v.vals.length) => ?_,
      by simpa [appendTo_size] using h.lay.size⟩, ⟨h.sys.obj, ?_, ?_, by simpa [appendTo_size] using hS⟩, h.rng, hsep⟩
    · show (appendTo s.w (S + 1) t).lists.get (B + 2 * j) = _
      rw [appendTo_get_other _ _ _ _ (ne_ref (by omega))]; exact h.lay.coh j hj
    · show (appendTo s.w (S + 1) t).lists.get (B + 2 * j + 1) = _
      rw [appendTo_get_other _ _ _ _ (ne_ref (by omega))]; exact h.lay.lind j hj
    · show (appendTo s.w (S + 1) t).lists.get S = _
      rw [appendTo_get_other _ _ _ _ (ne_ref (by omega))]; exact h.sys.coh
    · show (appendTo s.w (S + 1) t).lists.get (S + 1) = _
      rw [appendTo_get_same s.w (S + 1) t hS1, h.sys.lind]; rfl

/-- **one append of a noise object on the store is the append on values**, and nothing below `B` is touched -/
theorem applyAct_rep {noisy : List Ref} {sys : Ref} {B S : Nat} {s : NState} {v : VState}
    (h : Rep noisy sys B S s v) (a : Act) :
    Rep noisy sys B S (applyAct noisy sys s a).1 (actVal v a).1 ∧ (applyAct noisy sys s a).2 = (actVal v a).2 ∧
    Low B s.w (applyAct noisy sys s a).1.w := by
  obtain ⟨w, rng⟩ := s
  obtain ⟨vals, sv, vr⟩ := v
  have hr : rng = vr := h.rng
  subst hr
  have hsep : B + 2 * vals.length ≤ S := h.sep
  cases a with
  | amp i c =>
    by_cases hi : i < vals.length
    · have ho := h.lay.obj i hi
      have hv : vals[i]? = some vals[i] := List.getElem?_eq_getElem hi
      simp only [applyAct, actVal, ho, hv]
      exact ⟨rep_addCoh h i hi _ rng, trivial, appendTo_low B w _ _ (by omega)⟩
    · have ho := h.lay.out_of_range i hi
      have hv : vals[i]? = none := List.getElem?_eq_none_iff.mpr (Nat.le_of_not_lt hi)
      simp only [applyAct, actVal, ho, hv]
      exact ⟨h, trivial, Low.refl _ _⟩
  | rand i =>
    by_cases hi : i < vals.length
    · have ho := h.lay.obj i hi
      have hv : vals[i]? = some vals[i] := List.getElem?_eq_getElem hi
      simp only [applyAct, actVal, ho, hv]
      exact ⟨rep_addCoh h i hi _ rng.tail, trivial, appendTo_low B w _ _ (by omega)⟩
    · have ho := h.lay.out_of_range i hi
      have hv : vals[i]? = none := List.getElem?_eq_none_iff.mpr (Nat.le_of_not_lt hi)
      simp only [applyAct, actVal, ho, hv]
      exact ⟨h, trivial, Low.refl _ _⟩
  | coh i tok =>
    by_cases hi : i < vals.length
    · have ho := h.lay.obj i hi
      have hv : vals[i]? = some vals[i] := List.getElem?_eq_getElem hi
      simp only [applyAct, actVal, ho, hv]
      exact ⟨rep_addCoh h i hi _ rng, trivial, appendTo_low B w _ _ (by omega)⟩
    · have ho := h.lay.out_of_range i hi
      have hv : vals[i]? = none := List.getElem?_eq_none_iff.mpr (Nat.le_of_not_lt hi)
      simp only [applyAct, actVal, ho, hv]
      exact ⟨h, trivial, Low.refl _ _⟩
  | lind i tok =>
    by_cases hi : i < vals.length
    · have ho := h.lay.obj i hi
      have hv : vals[i]? = some vals[i] := List.getElem?_eq_getElem hi
      simp only [applyAct, actVal, ho, hv]
      exact ⟨rep_addLind h i hi _, trivial, appendTo_low B w _ _ (by omega)⟩
    · have ho := h.lay.out_of_range i hi
      have hv : vals[i]? = none := List.getElem?_eq_none_iff.mpr (Nat.le_of_not_lt hi)
      simp only [applyAct, actVal, ho, hv]
      exact ⟨h, trivial, Low.refl _ _⟩
  | sysCoh tok =>
    have ho := h.sys.obj
    simp only [applyAct, actVal, ho]
    exact ⟨rep_addSys h false tok, trivial, appendTo_low B w _ _ (by omega)⟩
  | sysLind tok =>
    have ho := h.sys.obj
    simp only [applyAct, actVal, ho]
    exact ⟨rep_addSys h true tok, trivial, appendTo_low B w _ _ (by omega)⟩

/-- all appends of a call -/
theorem applyActs_rep {noisy : List Ref} {sys : Ref} {B S : Nat} : ∀ (acts : List Act) {s : NState} {v : VState},
    Rep noisy sys B S s v →
    Rep noisy sys B S (applyActs noisy sys s acts).1 (actsVal v acts).1 ∧
    (applyActs noisy sys s acts).2 = (actsVal v acts).2 ∧ Low B s.w (applyActs noisy sys s acts).1.w := by
  intro acts
  induction acts with
  | nil => intro s v h; exact ⟨h, rfl, Low.refl _ _⟩
  | cons a as ih =>
    intro s v h
    obtain ⟨h1, h2, h3⟩ := applyAct_rep h a
    unfold applyActs actsVal
    cases hA : applyAct noisy sys s a with
    | mk s' e =>
      cases hV : actVal v a with
      | mk v' e' =>
        rw [hA] at h1 h2 h3
        rw [hV] at h1 h2
        simp only at h1 h2 h3
        subst h2
        cases e with
        | none =>
          obtain ⟨i1, i2, i3⟩ := ih h1
          exact ⟨i1, i2, h3.trans i3⟩
        | some err => exact ⟨h1, rfl, h3⟩

/-! ## Copies -/

theorem valsOf_cons (w : PWorld) (r : Ref) (rs : List Ref) (v : PVal) (h : pulseVal w r = some v) :
    valsOf w (r :: rs) = v :: valsOf w rs := by
  simp [valsOf, h]

theorem Frame.valsOf {a b : PWorld} (h : Frame a b) (rs : List Ref) (hr : ∀ r ∈ rs, WFP a r) :
    valsOf b rs = valsOf a rs := by
  induction rs with
  | nil => rfl
  | cons r rs ih =>
    have h1 := h.pulseVal (hr r (List.mem_cons_self ..))
    have ih' := ih (fun x hx => hr x (List.mem_cons_of_mem _ hx))
    simp only [Sim.valsOf, List.filterMap_cons, h1] at ih' ⊢
    rw [ih']

theorem pulsesVal_valsOf (w : PWorld) (rs : List Ref) (hr : ∀ r ∈ rs, WFP w r) :
    pulsesVal w rs = (valsOf w rs).map some := by
  induction rs with
  | nil => rfl
  | cons r rs ih =>
    obtain ⟨p, hp, _, _⟩ := hr r (List.mem_cons_self ..)
    have hv : pulseVal w r = some ⟨p.ideal, w.lists.get p.coh, w.lists.get p.lind⟩ := by
      simp [pulseVal, hp]
    rw [valsOf_cons w r rs _ hv]
    simp only [pulsesVal, List.map_cons, hv, List.cons.injEq, true_and]
    exact ih (fun x hx => hr x (List.mem_cons_of_mem _ hx))

theorem valsOf_length (w : PWorld) (rs : List Ref) (hr : ∀ r ∈ rs, WFP w r) : (valsOf w rs).length = rs.length := by
  have := congrArg List.length (pulsesVal_valsOf w rs hr)
  simpa [pulsesVal] using this.symm

/-- a layout survives an extension of the store -/
theorem Lay.frame {w w' : PWorld} {noisy : List Ref} {B : Nat} {vals : List PVal} (h : Lay w noisy B vals)
    (hf : Frame w w') : Lay w' noisy B vals := by
  refine ⟨h.len, fun i hi => ?_, fun i hi => ?_, fun i hi => ?_, Nat.le_trans h.size hf.size⟩
  · have ho := h.obj i hi
    have hn : i < noisy.length := by rw [h.len]; exact hi
    rw [List.getElem?_eq_getElem hn] at ho ⊢
    simp only [Option.bind_some] at ho ⊢
    have hlt : noisy[i] < w.pulses.length := by
      unfold PWorld.pulse? at ho; exact (List.getElem?_eq_some_iff.mp ho).1
    rw [hf.pulse? _ hlt]; exact ho
  · rw [hf.get _ (by have := h.size; omega)]; exact h.coh i hi
  · rw [hf.get _ (by have := h.size; omega)]; exact h.lind i hi

theorem Lay.cons {w : PWorld} {noisy : List Ref} {B : Nat} {vals : List PVal} (h : Lay w noisy (B + 2) vals) (r : Ref)
    (v : PVal) (ho : w.pulse? r = some ⟨v.ideal, B, B + 1⟩) (hc : w.lists.get B = v.coh)
    (hl : w.lists.get (B + 1) = v.lind) : Lay w (r :: noisy) B (v :: vals) := by
  refine ⟨by simp [h.len], fun i hi => ?_, fun i hi => ?_, fun i hi => ?_, by have := h.size; simp; omega⟩
  · cases i with
    | zero => simpa using ho
    | succ j =>
      have hj : j < vals.length := by simpa using hi
      have e : B + 2 * (j + 1) = B + 2 + 2 * j := by omega
      rw [e]
      simpa using h.obj j hj
  · cases i with
    | zero => simpa using hc
    | succ j =>
      have hj : j < vals.length := by simpa using hi
      have e : B + 2 * (j + 1) = B + 2 + 2 * j := by omega
      rw [e]
      simpa using h.coh j hj
  · cases i with
    | zero => simpa using hl
    | succ j =>
      have hj : j < vals.length := by simpa using hi
      have e : B + 2 * (j + 1) = B + 2 + 2 * j := by omega
      rw [e]
      simpa using h.lind j hj

theorem heap_get_alloc2 (cells : List (List Int)) (c l : List Int) :
    (Heap.mk (cells ++ [c, l])).get cells.length = c ∧ (Heap.mk (cells ++ [c, l])).get (cells.length + 1) = l := by
  simp [Heap.get, List.getD_eq_getElem?_getD]

/-- **`deepcopy(pulses)`**: new pulse objects with new lists, laid out from the old end of the store, holding the
values of the originals; nothing old is touched -/
theorem copyDeep_spec : ∀ (rs : List Ref) (w : PWorld), (∀ r ∈ rs, WFP w r) →
    Frame w (copyPulses .deep w rs).1 ∧
    Lay (copyPulses .deep w rs).1 (copyPulses .deep w rs).2 w.lists.size (valsOf w rs) ∧
    (∀ x ∈ (copyPulses .deep w rs).2, w.pulses.length ≤ x) := by
  intro rs
  induction rs with
  | nil =>
    intro w _
    refine ⟨Frame.refl w, ⟨rfl, ?_, ?_, ?_, ?_⟩, fun x hx => by cases hx⟩
    · intro i hi; simp [valsOf] at hi
    · intro i hi; simp [valsOf] at hi
    · intro i hi; simp [valsOf] at hi
    · simp [valsOf, copyPulses]
  | cons r rs ih =>
    intro w hwf
    obtain ⟨p, hp, hc, hl⟩ := hwf r (List.mem_cons_self ..)
    have hv : pulseVal w r = some ⟨p.ideal, w.lists.get p.coh, w.lists.get p.lind⟩ := by simp [pulseVal, hp]
    let a := allocPulse w p.ideal (w.lists.get p.coh) (w.lists.get p.lind)
    have hfa : Frame w a.1 := allocPulse_frame _ _ _ _
    have hwf1 : ∀ x ∈ rs, WFP a.1 x := fun x hx => hfa.wfp (hwf x (List.mem_cons_of_mem _ hx))
    obtain ⟨i1, i2, i3⟩ := ih a.1 hwf1
    have hcp : copyPulses .deep w (r :: rs) = ((copyPulses .deep a.1 rs).1, a.2 :: (copyPulses .deep a.1 rs).2) := by
      simp only [copyPulses, copyPulse, hp]; rfl
    rw [hcp]
    have hsz : a.1.lists.size = w.lists.size + 2 := by simp [a, allocPulse, Heap.size]
    have hpl : a.1.pulses.length = w.pulses.length + 1 := by simp [a, allocPulse]
    have ha2 : a.2 = w.pulses.length := rfl
    refine ⟨hfa.trans i1, ?_, ?_⟩
    · rw [valsOf_cons w r rs _ hv]
      rw [hsz, hfa.valsOf rs (fun x hx => hwf x (List.mem_cons_of_mem _ hx))] at i2
      apply Lay.cons i2
      · rw [i1.pulse? _ (by rw [ha2, hpl]; omega)]
        simp [a, allocPulse, PWorld.pulse?]
      · rw [i1.get _ (by rw [hsz]; omega)]
        exact (heap_get_alloc2 w.lists.cells _ _).1
      · rw [i1.get _ (by rw [hsz]; omega)]
        exact (heap_get_alloc2 w.lists.cells _ _).2
    · intro x hx
      rcases List.mem_cons.mp hx with rfl | hx
      · exact Nat.le_of_eq ha2.symm
      · have := i3 x hx; omega

/-- **`[copy(p) for p in pulses]`**: new pulse objects holding the SAME lists -/
theorem copyShallow_spec : ∀ (rs : List Ref) (w : PWorld), (∀ r ∈ rs, (w.pulse? r).isSome = true) →
    (copyPulses .shallow w rs).1.lists = w.lists ∧ (∃ ps, (copyPulses .shallow w rs).1.pulses = w.pulses ++ ps) ∧
    (copyPulses .shallow w rs).2.length = rs.length ∧
    (∀ i : Nat, ((copyPulses .shallow w rs).2[i]?).bind (copyPulses .shallow w rs).1.pulse? = (rs[i]?).bind w.pulse?) ∧
    (∀ x ∈ (copyPulses .shallow w rs).2, w.pulses.length ≤ x) := by
  intro rs
  induction rs with
  | nil => intro w _; exact ⟨rfl, ⟨[], by simp [copyPulses]⟩, rfl, fun i => by simp [copyPulses], fun x hx => by cases hx⟩
  | cons r rs ih =>
    intro w hv
    have hr := hv r (List.mem_cons_self ..)
    obtain ⟨p, hp⟩ := Option.isSome_iff_exists.mp hr
    let w1 : PWorld := { w with pulses := w.pulses ++ [p] }
    have hold : ∀ x, x < w.pulses.length → w1.pulse? x = w.pulse? x := by
      intro x hx; simp only [PWorld.pulse?, w1]; rw [List.getElem?_append_left hx]
    have hlt : ∀ x, (w.pulse? x).isSome = true → x < w.pulses.length := by
      intro x hx
      obtain ⟨q, hq⟩ := Option.isSome_iff_exists.mp hx
      unfold PWorld.pulse? at hq; exact (List.getElem?_eq_some_iff.mp hq).1
    have hv1 : ∀ x ∈ rs, (w1.pulse? x).isSome = true := by
      intro x hx
      have := hv x (List.mem_cons_of_mem _ hx)
      rw [hold x (hlt x this)]; exact this
    obtain ⟨i1, ⟨ps, i2⟩, i3, i4, i5⟩ := ih w1 hv1
    have hcp : copyPulses .shallow w (r :: rs) =
        ((copyPulses .shallow w1 rs).1, w.pulses.length :: (copyPulses .shallow w1 rs).2) := by
      simp only [copyPulses, copyPulse, hp]; rfl
    rw [hcp]
    refine ⟨i1, ⟨[p] ++ ps, by rw [i2]; simp [w1]⟩, by simp [i3], ?_, ?_⟩
    · intro i
      cases i with
      | zero =>
        simp only [List.getElem?_cons_zero, Option.bind_some, hp]
        simp only [PWorld.pulse?, i2, w1]
        rw [List.getElem?_append_left (by simp)]
        simp
      | succ j =>
        simp only [List.getElem?_cons_succ]
        rw [i4 j]
        cases hj : rs[j]? with
        | none => rfl
        | some x =>
          simp only [Option.bind_some]
          have hx : x ∈ rs := List.mem_of_getElem? hj
          exact hold x (hlt x (hv x (List.mem_cons_of_mem _ hx)))
    · intro x hx
      rcases List.mem_cons.mp hx with rfl | hx
      · exact Nat.le_refl _
      · have := i5 x hx; simp [w1] at this; omega

theorem copyAlias_spec : ∀ (rs : List Ref) (w : PWorld), copyPulses .alias w rs = (w, rs) := by
  intro rs
  induction rs with
  | nil => intro w; rfl
  | cons r rs ih => intro w; simp [copyPulses, copyPulse, ih]

/-- a layout seen through other references to the same pulse objects -/
theorem Lay.transfer {w w' : PWorld} {noisy noisy' : List Ref} {B : Nat} {vals : List PVal} (h : Lay w noisy B vals)
    (hl : w'.lists = w.lists) (hlen : noisy'.length = noisy.length)
    (hb : ∀ i : Nat, (noisy'[i]?).bind w'.pulse? = (noisy[i]?).bind w.pulse?) : Lay w' noisy' B vals :=
  ⟨by rw [hlen, h.len], fun i hi => by rw [hb i]; exact h.obj i hi, fun i hi => by rw [hl]; exact h.coh i hi,
    fun i hi => by rw [hl]; exact h.lind i hi, by rw [hl]; exact h.size⟩

theorem Lay.isSome {w : PWorld} {noisy : List Ref} {B : Nat} {vals : List PVal} (h : Lay w noisy B vals) :
    ∀ r ∈ noisy, (w.pulse? r).isSome = true := by
  intro r hr
  obtain ⟨i, hi, rfl⟩ := List.getElem_of_mem hr
  have ho := h.obj i (by rw [← h.len]; exact hi)
  rw [List.getElem?_eq_getElem hi] at ho
  simp only [Option.bind_some] at ho
  rw [ho]; rfl

theorem Lay.wfp {w : PWorld} {noisy : List Ref} {B : Nat} {vals : List PVal} (h : Lay w noisy B vals) :
    ∀ r ∈ noisy, WFP w r := by
  intro r hr
  obtain ⟨i, hi, rfl⟩ := List.getElem_of_mem hr
  have hi' : i < vals.length := by rw [← h.len]; exact hi
  have ho := h.obj i hi'
  rw [List.getElem?_eq_getElem hi] at ho
  simp only [Option.bind_some] at ho
  have := h.size
  exact ⟨_, ho, by show B + 2 * i < _; omega, by show B + 2 * i + 1 < _; omega⟩

theorem Lay.valsOf {w : PWorld} {noisy : List Ref} {B : Nat} {vals : List PVal} (h : Lay w noisy B vals) :
    valsOf w noisy = vals := by
  have h1 := pulsesVal_valsOf w noisy h.wfp
  rw [h.pulsesVal] at h1
  exact ((List.map_inj_right (fun x y hxy => Option.some.inj hxy)).mp h1).symm

/-! ## One call -/

/-- what a call leaves behind and returns: the older store as it was, the value `noisyVal` of the held pulses'
values, only new objects -/
structure CallSpec (w0 : PWorld) (vals : List PVal) (noise : List Noise) (dn : Bool) (rng : List Int) (s' : NState)
    (res : Except Err (List Ref)) : Prop where
  frame : Frame w0 s'.w
  val : retVal s'.w res = (noisyVal vals noise dn rng).1
  rng : s'.rng = (noisyVal vals noise dn rng).2
  fresh : ∀ rs, res = .ok rs → ∀ x ∈ rs, w0.pulses.length ≤ x ∧
    ∃ p, s'.w.pulse? x = some p ∧ w0.lists.size ≤ p.coh ∧ w0.lists.size ≤ p.lind

theorem Frame.low {w0 a b : PWorld} {B : Nat} (h : Frame w0 a) (hl : Low B a b) (hB : w0.lists.size ≤ B) : Frame w0 b := by
  obtain ⟨ps, hps⟩ := h.pulses
  exact ⟨⟨ps, by rw [hl.pulses, hps]⟩, by rw [hl.size]; exact h.size,
    fun r hr => by rw [hl.get r (Nat.lt_of_lt_of_le hr hB), h.get r hr]⟩

theorem SysLay.pulseVal {w : PWorld} {sys : Ref} {S : Nat} {v : PVal} (h : SysLay w sys S v) : pulseVal w sys = some v := by
  simp only [Sim.pulseVal, h.obj, Option.map_some, h.coh, h.lind]

theorem process_core (w0 w1 : PWorld) (noisy : List Ref) (B : Nat) (vals : List PVal) (hf : Frame w0 w1)
    (hl : Lay w1 noisy B vals) (hB : w0.lists.size ≤ B) (hnew : ∀ x ∈ noisy, w0.pulses.length ≤ x)
    (rng : List Int) (noise : List Noise) (dn : Bool) :
    CallSpec w0 vals noise dn rng
      (applyActs noisy (allocPulse w1 0 [] []).2 ⟨(allocPulse w1 0 [] []).1, rng⟩ (allActs noisy.length dn noise)).1
      (match (applyActs noisy (allocPulse w1 0 [] []).2 ⟨(allocPulse w1 0 [] []).1, rng⟩
          (allActs noisy.length dn noise)).2 with
        | none => .ok (noisy ++ (if dn then [(allocPulse w1 0 [] []).2] else []))
        | some e => .error e) := by
  have hfa : Frame w1 (allocPulse w1 0 [] []).1 := allocPulse_frame _ _ _ _
  have hsz : (allocPulse w1 0 [] []).1.lists.size = w1.lists.size + 2 := by simp [allocPulse, Heap.size]
  have hrep0 : Rep noisy (allocPulse w1 0 [] []).2 B w1.lists.size ⟨(allocPulse w1 0 [] []).1, rng⟩
      ⟨vals, ⟨0, [], []⟩, rng⟩ := by
    refine ⟨hl.frame hfa, ⟨?_, ?_, ?_, ?_⟩, rfl, hl.size⟩
    · simp [allocPulse, PWorld.pulse?]
    · exact (heap_get_alloc2 w1.lists.cells _ _).1
    · exact (heap_get_alloc2 w1.lists.cells _ _).2
    · show w1.lists.size + 2 ≤ _; rw [hsz]; exact Nat.le_refl _
  obtain ⟨hR, hE, hLow⟩ := applyActs_rep (allActs noisy.length dn noise) hrep0
  have hfr : Frame w0 (applyActs noisy (allocPulse w1 0 [] []).2 ⟨(allocPulse w1 0 [] []).1, rng⟩
      (allActs noisy.length dn noise)).1.w := (hf.trans hfa).low hLow hB
  have hnv : noisyVal vals noise dn rng =
      (match (actsVal ⟨vals, ⟨0, [], []⟩, rng⟩ (allActs noisy.length dn noise)).2 with
        | none => .ok (((actsVal ⟨vals, ⟨0, [], []⟩, rng⟩ (allActs noisy.length dn noise)).1.vals ++
            (if dn then [(actsVal ⟨vals, ⟨0, [], []⟩, rng⟩ (allActs noisy.length dn noise)).1.sys] else [])).map some)
        | some e => .error e,
       (actsVal ⟨vals, ⟨0, [], []⟩, rng⟩ (allActs noisy.length dn noise)).1.rng) := by
    rw [hl.len]; rfl
  refine ⟨hfr, ?_, ?_, ?_⟩
  · rw [hnv, hE]
    cases (actsVal ⟨vals, ⟨0, [], []⟩, rng⟩ (allActs noisy.length dn noise)).2 with
    | some e => rfl
    | none =>
      simp only [retVal, Sim.pulsesVal, List.map_append]
      congr 1
      have h1 := hR.lay.pulsesVal
      simp only [Sim.pulsesVal] at h1
      rw [h1]
      cases dn with
      | false => simp
      | true => simp [hR.sys.pulseVal]
  · rw [hnv]; exact hR.rng
  · intro rs hrs x hx
    cases hErr : (applyActs noisy (allocPulse w1 0 [] []).2 ⟨(allocPulse w1 0 [] []).1, rng⟩
        (allActs noisy.length dn noise)).2 with
    | some e => rw [hErr] at hrs; cases hrs
    | none =>
      rw [hErr] at hrs
      simp only [Except.ok.injEq] at hrs
      subst hrs
      rcases List.mem_append.mp hx with hx | hx
      · refine ⟨hnew x hx, ?_⟩
        obtain ⟨i, hi, rfl⟩ := List.getElem_of_mem hx
        have hi' := hi
        rw [hR.lay.len] at hi'
        have ho := hR.lay.obj i hi'
        rw [List.getElem?_eq_getElem hi] at ho
        simp only [Option.bind_some] at ho
        exact ⟨_, ho, by show _ ≤ B + 2 * i; omega, by show _ ≤ B + 2 * i + 1; omega⟩
      · cases dn with
        | false => simp at hx
        | true =>
          simp only [↓reduceIte, List.mem_singleton] at hx
          subst hx
          have := hf.size
          exact ⟨by show _ ≤ w1.pulses.length; exact hf.pulses_le, _, hR.sys.obj,
            by show _ ≤ w1.lists.size; omega, by show _ ≤ w1.lists.size + 1; omega⟩

theorem processNoise_eq (cfg : PCfg) (s : NState) (pulses : List Ref) (noise : List Noise) (dn : Bool) :
    processNoise cfg s pulses noise dn =
      ((applyActs (copyPulses cfg.noiseCopy s.w pulses).2 (allocPulse (copyPulses cfg.noiseCopy s.w pulses).1 0 [] []).2
          ⟨(allocPulse (copyPulses cfg.noiseCopy s.w pulses).1 0 [] []).1, s.rng⟩
          (allActs (copyPulses cfg.noiseCopy s.w pulses).2.length dn noise)).1,
       match (applyActs (copyPulses cfg.noiseCopy s.w pulses).2 (allocPulse (copyPulses cfg.noiseCopy s.w pulses).1 0 [] []).2
          ⟨(allocPulse (copyPulses cfg.noiseCopy s.w pulses).1 0 [] []).1, s.rng⟩
          (allActs (copyPulses cfg.noiseCopy s.w pulses).2.length dn noise)).2 with
        | none => .ok ((copyPulses cfg.noiseCopy s.w pulses).2 ++
            (if dn then [(allocPulse (copyPulses cfg.noiseCopy s.w pulses).1 0 [] []).2] else []))
        | some e => .error e) := rfl

/-- `process_noise` that deep-copies what it is given -/
theorem processNoise_deep (cfg : PCfg) (hd : cfg.noiseCopy = .deep) (w0 : PWorld) (s : NState) (pulses : List Ref)
    (hf : Frame w0 s.w) (hwf : ∀ r ∈ pulses, WFP s.w r) (noise : List Noise) (dn : Bool) :
    CallSpec w0 (valsOf s.w pulses) noise dn s.rng (processNoise cfg s pulses noise dn).1
      (processNoise cfg s pulses noise dn).2 := by
  rw [processNoise_eq, hd]
  obtain ⟨c1, c2, c3⟩ := copyDeep_spec pulses s.w hwf
  exact process_core w0 _ _ s.w.lists.size _ (hf.trans c1) c2 hf.size
    (fun x hx => Nat.le_trans hf.pulses_le (c3 x hx)) s.rng noise dn

/-- `process_noise` given pulses that are already private copies (whatever it does with them) -/
theorem processNoise_lay (cfg : PCfg) (w0 : PWorld) (s : NState) (pulses : List Ref) (B : Nat) (vals : List PVal)
    (hf : Frame w0 s.w) (hl : Lay s.w pulses B vals) (hB : w0.lists.size ≤ B)
    (hnew : ∀ x ∈ pulses, w0.pulses.length ≤ x) (noise : List Noise) (dn : Bool) :
    CallSpec w0 vals noise dn s.rng (processNoise cfg s pulses noise dn).1 (processNoise cfg s pulses noise dn).2 := by
  cases hk : cfg.noiseCopy with
  | deep =>
    have := processNoise_deep cfg hk w0 s pulses hf hl.wfp noise dn
    rw [hl.valsOf] at this; exact this
  | shallow =>
    rw [processNoise_eq, hk]
    obtain ⟨c1, ⟨ps, c2⟩, c3, c4, c5⟩ := copyShallow_spec pulses s.w hl.isSome
    have hfc : Frame s.w (copyPulses .shallow s.w pulses).1 :=
      ⟨⟨ps, c2⟩, by rw [c1]; exact Nat.le_refl _, fun r _ => by rw [c1]⟩
    exact process_core w0 _ _ B vals (hf.trans hfc) (hl.transfer c1 c3 c4) hB
      (fun x hx => Nat.le_trans hf.pulses_le (c5 x hx)) s.rng noise dn
  | alias =>
    rw [processNoise_eq, hk, copyAlias_spec]
    exact process_core w0 _ _ B vals hf hl hB hnew s.rng noise dn

/-- the code makes a private deep copy somewhere between `Processor.pulses` and the noise objects -/
def PCfg.Good (cfg : PCfg) : Prop := cfg.procCopy = true ∨ cfg.noiseCopy = .deep

/-- **`get_noisy_pulses` on a processor**: the store that existed is untouched, the value returned is `noisyVal` of
the held pulses' values, everything returned is new -/
theorem getNoisy_spec (cfg : PCfg) (hg : cfg.Good) (st : PState) (hwf : ∀ r ∈ st.held, WFP st.w r) (dn : Bool) :
    CallSpec st.w (valsOf st.w st.held) st.noise dn st.rng
      ⟨(getNoisy cfg st dn).1.w, (getNoisy cfg st dn).1.rng⟩ (getNoisy cfg st dn).2 ∧
    (getNoisy cfg st dn).1.held = st.held ∧ (getNoisy cfg st dn).1.noise = st.noise := by
  refine ⟨?_, rfl, rfl⟩
  by_cases hp : cfg.procCopy = true
  · obtain ⟨c1, c2, c3⟩ := copyDeep_spec st.held st.w hwf
    have := processNoise_lay cfg st.w ⟨(copyPulses .deep st.w st.held).1, st.rng⟩ (copyPulses .deep st.w st.held).2
      st.w.lists.size (valsOf st.w st.held) c1 c2 (Nat.le_refl _) c3 st.noise dn
    simp only [getNoisy, hp, ↓reduceIte]
    exact this
  · have hd : cfg.noiseCopy = .deep := by
      rcases hg with h | h
      · exact absurd h hp
      · exact h
    have := processNoise_deep cfg hd st.w ⟨st.w, st.rng⟩ st.held (Frame.refl _) hwf st.noise dn
    simp only [getNoisy, hp]
    exact this

/-! ## Histories -/

theorem getNoisyAll_frame (cfg : PCfg) (hg : cfg.Good) : ∀ (dns : List Bool) (st : PState),
    (∀ r ∈ st.held, WFP st.w r) →
    Frame st.w (getNoisyAll cfg st dns).w ∧ (getNoisyAll cfg st dns).held = st.held ∧
    (getNoisyAll cfg st dns).noise = st.noise := by
  intro dns
  induction dns with
  | nil => intro st _; exact ⟨Frame.refl _, rfl, rfl⟩
  | cons dn dns ih =>
    intro st hwf
    obtain ⟨hs, hh, hn⟩ := getNoisy_spec cfg hg st hwf dn
    have hwf1 : ∀ r ∈ (getNoisy cfg st dn).1.held, WFP (getNoisy cfg st dn).1.w r := by
      rw [hh]; exact fun r hr => hs.frame.wfp (hwf r hr)
    obtain ⟨i1, i2, i3⟩ := ih (getNoisy cfg st dn).1 hwf1
    exact ⟨hs.frame.trans i1, by rw [← hh]; exact i2, by rw [← hn]; exact i3⟩

/-! ## The list of noise objects -/

theorem getNoisyT_spec (cfg : PCfg) (hg : cfg.Good) (lcopy : Bool) (relax : Option (List Int)) (st : PState)
    (hwf : ∀ r ∈ st.held, WFP st.w r) (dn : Bool) :
    CallSpec st.w (valsOf st.w st.held) (usedNoise st.noise relax) dn st.rng
      ⟨(getNoisyT cfg lcopy relax st dn).1.w, (getNoisyT cfg lcopy relax st dn).1.rng⟩
      (getNoisyT cfg lcopy relax st dn).2 ∧
    (getNoisyT cfg lcopy relax st dn).1.held = st.held ∧
    (getNoisyT cfg lcopy relax st dn).1.noise = if lcopy then st.noise else usedNoise st.noise relax := by
  have h := (getNoisy_spec cfg hg { st with noise := usedNoise st.noise relax } hwf dn).1
  exact ⟨h, rfl, rfl⟩

theorem getNoisyTAll_frame (cfg : PCfg) (hg : cfg.Good) (relax : Option (List Int)) : ∀ (dns : List Bool) (st : PState),
    (∀ r ∈ st.held, WFP st.w r) →
    Frame st.w (getNoisyTAll cfg true relax st dns).w ∧ (getNoisyTAll cfg true relax st dns).held = st.held ∧
    (getNoisyTAll cfg true relax st dns).noise = st.noise := by
  intro dns
  induction dns with
  | nil => intro st _; exact ⟨Frame.refl _, rfl, rfl⟩
  | cons dn dns ih =>
    intro st hwf
    obtain ⟨hs, hh, hn⟩ := getNoisyT_spec cfg hg true relax st hwf dn
    simp only [↓reduceIte] at hn
    have hwf1 : ∀ r ∈ (getNoisyT cfg true relax st dn).1.held, WFP (getNoisyT cfg true relax st dn).1.w r := by
      rw [hh]; exact fun r hr => hs.frame.wfp (hwf r hr)
    obtain ⟨i1, i2, i3⟩ := ih (getNoisyT cfg true relax st dn).1 hwf1
    exact ⟨hs.frame.trans i1, by rw [← hh]; exact i2, by rw [← hn]; exact i3⟩

/-! ## Deterministic noise objects never read the generator -/

def Act.noRand : Act → Bool
  | .rand _ => false
  | _ => true

theorem actsVal_noRand : ∀ (acts : List Act), acts.all Act.noRand = true → ∀ (s : VState) (r' : List Int),
    actsVal { s with rng := r' } acts = ({ (actsVal s acts).1 with rng := r' }, (actsVal s acts).2) := by
  intro acts
  induction acts with
  | nil => intro _ s r'; rfl
  | cons a as ih =>
    intro h s r'
    simp only [List.all_cons, Bool.and_eq_true] at h
    obtain ⟨ha, has⟩ := h
    have step : actVal { s with rng := r' } a = ({ (actVal s a).1 with rng := r' }, (actVal s a).2) := by
      cases a with
      | rand i => cases ha
      | amp i c => simp only [actVal]; split <;> rfl
      | coh i t => simp only [actVal]; split <;> rfl
      | lind i t => simp only [actVal]; split <;> rfl
      | sysCoh t => rfl
      | sysLind t => rfl
    unfold actsVal
    rw [step]
    cases hA : actVal s a with
    | mk s1 e =>
      cases e with
      | none => simp only; exact ih has s1 r'
      | some err => rfl

theorem Noise.det_acts (k : Nat) (dn : Bool) (n : Noise) (h : n.det = true) : (n.acts k dn).all Act.noRand = true := by
  cases n with
  | amp idx c => simp [Noise.acts, Act.noRand]
  | random idx => cases h
  | relax toks => simp only [Noise.acts]; split <;> simp [Act.noRand]
  | deco toks => simp only [Noise.acts]; split <;> simp [Act.noRand]
  | zz toks => simp [Noise.acts, Act.noRand]
  | user acts =>
    simp only [Noise.det, List.all_eq_true] at h
    simp only [Noise.acts, List.all_eq_true]
    intro a ha
    have := h a ha
    cases a <;> simp_all [Act.noRand]

/-- deterministic noise objects: the value returned does not depend on the generator's state -/
theorem noisyVal_det (vals : List PVal) (noise : List Noise) (dn : Bool) (h : noise.all Noise.det = true)
    (rng rng' : List Int) : (noisyVal vals noise dn rng).1 = (noisyVal vals noise dn rng').1 := by
  have hall : (allActs vals.length dn noise).all Act.noRand = true := by
    simp only [allActs, List.all_flatMap, List.all_eq_true] at h ⊢
    intro n hn
    exact List.all_eq_true.mp (Noise.det_acts _ _ n (h n hn))
  have e := actsVal_noRand _ hall ⟨vals, ⟨0, [], []⟩, rng⟩ rng'
  simp only [noisyVal]
  have e' : actsVal ⟨vals, ⟨0, [], []⟩, rng'⟩ (allActs vals.length dn noise) =
      ({ (actsVal ⟨vals, ⟨0, [], []⟩, rng⟩ (allActs vals.length dn noise)).1 with rng := rng' },
       (actsVal ⟨vals, ⟨0, [], []⟩, rng⟩ (allActs vals.length dn noise)).2) := e
  rw [e']

end QipVerif.Sim
