import QipVerif.Model.QasmImport
/-!
# Rejections of the importer model (C04)

Error propagation through `finalPass` / `importProgram`, and the statement-level reasons for
a refusal: undeclared gate, undeclared register, index out of range, wrong arity.
-/
namespace QipVerif.Qasm.Import
open QipVerif.Qasm

/-- what `_final_pass` does with one statement -/
def stepStmt (st : Init) (known : List (Str × List IGate)) (s : Stmt) :
    Except Err (List IOp × List (Str × List IGate)) :=
  match s with
  | .qop op => qopAdd st known none none false op
  | .ifc c k op =>
    match regFind st.cregs c with
    | none => .error .key
    | some (s0, n) =>
      if condSkipped n k then (qopAdd st known none none true op).map (fun r => ([], r.2))
      else qopAdd st known (some ((List.range n).map (s0 + ·))) (some (condValue n k)) true op
  | .barrier qs => if Gen.barrierChecked then (barrierCheck st qs).map (fun _ => ([], known)) else .error .syntax
  | _ => .error .syntax

def IsErr {α} (r : Except Err α) : Prop := ∃ e, r = .error e

theorem finalPass_cons (st : Init) (s : Stmt) (ss : List Stmt) (known : List (Str × List IGate)) :
    finalPass st (s :: ss) known =
      match stepStmt st known s with
      | .error e => .error e
      | .ok (ops, known') =>
        match finalPass st ss known' with
        | .error e => .error e
        | .ok l => .ok (ops ++ l) := by
  cases s <;> rfl

/-- a statement that is refused whatever user gates are already known makes the pass fail -/
theorem finalPass_error (st : Init) (ss : List Stmt) (s : Stmt) (hs : s ∈ ss)
    (h : ∀ known, IsErr (stepStmt st known s)) : ∀ known, IsErr (finalPass st ss known) := by
  induction ss with
  | nil => cases hs
  | cons t ts ih =>
    intro known
    rw [finalPass_cons]
    rcases List.mem_cons.mp hs with rfl | hmem
    · obtain ⟨e, he⟩ := h known
      exact ⟨e, by rw [he]⟩
    · cases hstep : stepStmt st known t with
      | error e => exact ⟨e, rfl⟩
      | ok r =>
        obtain ⟨ops, known'⟩ := r
        obtain ⟨e, he⟩ := ih hmem known'
        exact ⟨e, by simp [he]⟩

/-- **propagation**: if the initial pass succeeds and one of the remaining statements is refused,
`read_qasm` raises -/
theorem importProgram_error (rest : List Stmt) (st : Init) (hi : initPass rest {} = .ok st)
    (s : Stmt) (hs : s ∈ st.rest) (h : ∀ known, IsErr (stepStmt st known s)) :
    IsErr (importProgram (.version :: rest)) := by
  obtain ⟨e, he⟩ := finalPass_error st st.rest s hs h initialKnown
  exact ⟨e, by simp [importProgram, hi, he]⟩

/-! ## statement-level refusals -/

/-- a register argument that cannot be resolved makes `_regs_processor` raise -/
theorem resolveQs_error (st : Init) (chk : Bool) (args : List Arg) (a : Arg) (ha : a ∈ args)
    (h : IsErr (resolveQ st a)) : ∀ ex, IsErr (resolveQs st chk args ex) := by
  induction args with
  | nil => cases ha
  | cons b bs ih =>
    intro ex
    rcases List.mem_cons.mp ha with rfl | hmem
    · obtain ⟨e, he⟩ := h
      exact ⟨e, by simp [resolveQs, he]⟩
    · cases hb : resolveQ st b with
      | error e => exact ⟨e, by simp [resolveQs, hb]⟩
      | ok r =>
        cases r with
        | inl q =>
          obtain ⟨e, he⟩ := ih hmem ex
          exact ⟨e, by simp [resolveQs, hb, he]⟩
        | inr l =>
          simp only [resolveQs, hb]
          split
          · exact ⟨.value, rfl⟩
          · obtain ⟨e, he⟩ := ih hmem (exAfter l.length)
            exact ⟨e, by simp [he]⟩

theorem regSet_error (st : Init) (args : List Arg) (a : Arg) (ha : a ∈ args)
    (h : IsErr (resolveQ st a)) : IsErr (regSet st args) := by
  obtain ⟨e, he⟩ := resolveQs_error st true args a ha h none
  exact ⟨e, by simp [regSet, he]⟩

theorem gateAdd_error_of_regSet (st : Init) (known : List (Str × List IGate)) (name : Str) (ps : List Expr)
    (args : List Arg) (cc : Option (List Nat)) (cv : Option Nat) (h : IsErr (regSet st args)) :
    IsErr (gateAdd st known name ps args cc cv) := by
  obtain ⟨e, he⟩ := h
  unfold IsErr gateAdd
  rw [he]
  cases e
  case type =>
    simp only []
    repeat' split
    all_goals exact ⟨_, rfl⟩
  all_goals exact ⟨_, rfl⟩

/-- undeclared register -/
theorem resolveQ_undeclared (st : Init) (a : Arg) (r : Str) (ha : a = .whole r ∨ ∃ i, a = .idx r i)
    (h : regFind st.qregs r = none) : resolveQ st a = .error .key := by
  rcases ha with rfl | ⟨i, rfl⟩ <;> simp [resolveQ, h]

/-- index out of range -/
theorem resolveQ_range (st : Init) (r : Str) (i s n : Nat) (h : regFind st.qregs r = some (s, n)) (hi : n ≤ i) :
    resolveQ st (.idx r i) = .error .value := by
  have : ¬ i < n := by omega
  simp [resolveQ, h, this]

/-- wrong arity of a built-in / `qelib1.inc` gate on one resolved tuple of qubits -/
theorem addPredefined_arity (name : Str) (regs : List Nat) (args : List Expr) (cc : Option (List Nat))
    (cv : Option Nat) (np nq : Nat) (hs : sigOf name = some (np, nq)) (h : args.length ≠ np ∨ regs.length ≠ nq) :
    addPredefined name regs args cc cv = .error .value := by
  have : ¬ (args.length = np ∧ regs.length = nq) := by
    rintro ⟨h1, h2⟩; rcases h with h | h <;> contradiction
  simp [addPredefined, hs, this]

end QipVerif.Qasm.Import
