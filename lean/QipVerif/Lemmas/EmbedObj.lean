import QipVerif.Model.EmbedObj
/-! Helper lemmas for histories on objects that embed operators (C08). Core Lean only. -/
namespace QipVerif.EmbedObj

theorem run_append (es : List Elem) (ops1 ops2 : List Op) :
    run es (ops1 ++ ops2) = run es ops1 ++ run (ops1.foldl applyOp es) ops2 := by
  induction ops1 generalizing es with
  | nil => simp [run]
  | cons op ops ih =>
    cases op with
    | get d => simp [run, ih, applyOp]
    | setTargets i t => simp [run, ih]
    | setOper i od oid => simp [run, ih]

end QipVerif.EmbedObj
