import Mathlib.LinearAlgebra.Matrix.Kronecker
import Mathlib.Logic.Equiv.Prod
import Mathlib.Logic.Equiv.Fin.Basic
import Mathlib.Data.Complex.Basic
import Mathlib.Logic.Equiv.Set
import Mathlib.Tactic.Ring

/-! Operator-embedding algebra over ℂ for qubit registers (used by C08, C01, C03, C05, C07). -/
namespace QipVerif
open Matrix
variable {N k m : ℕ}
abbrev St (n : ℕ) := Fin n → Fin 2
structure Tg (k N : ℕ) where
  f : Fin k → Fin N
  inj : Function.Injective f
namespace Tg
variable (t : Tg k N)
abbrev Rest := {i : Fin N // ¬ i ∈ Set.range t.f}
noncomputable def split : St N ≃ (St k) × (t.Rest → Fin 2) :=
  (Equiv.piEquivPiSubtypeProd (fun i => i ∈ Set.range t.f) (fun _ => Fin 2)).trans
    (Equiv.prodCongr (Equiv.piCongrLeft' (fun _ => Fin 2) (Equiv.ofInjective t.f t.inj).symm) (Equiv.refl _))
noncomputable def embed (U : Matrix (St k) (St k) ℂ) : Matrix (St N) (St N) ℂ :=
  Matrix.reindex t.split.symm t.split.symm (kroneckerMap (· * ·) U (1 : Matrix (t.Rest → Fin 2) (t.Rest → Fin 2) ℂ))
theorem embed_apply (U : Matrix (St k) (St k) ℂ) (x y : St N) :
    t.embed U x y = U (x ∘ t.f) (y ∘ t.f) * (if ∀ i, i ∉ Set.range t.f → x i = y i then 1 else 0) := by
  unfold embed
  simp only [Matrix.reindex_apply, Matrix.submatrix_apply, Equiv.symm_symm, kroneckerMap_apply, Matrix.one_apply]
  have h1 : ∀ z : St N, (t.split z).1 = z ∘ t.f := by
    intro z; funext j
    simp [split, Equiv.piCongrLeft', Equiv.piEquivPiSubtypeProd, Equiv.ofInjective]
  have h2 : ∀ z w : St N, ((t.split z).2 = (t.split w).2) ↔ ∀ i, i ∉ Set.range t.f → z i = w i := by
    intro z w
    simp [split, Equiv.piEquivPiSubtypeProd, funext_iff]
  rw [h1 x, h1 y]
  congr 1
  by_cases hh : (t.split x).2 = (t.split y).2
  · rw [if_pos hh, if_pos ((h2 x y).1 hh)]
  · rw [if_neg hh, if_neg (fun h => hh ((h2 x y).2 h))]

theorem embed_mul (U V : Matrix (St k) (St k) ℂ) : t.embed (U * V) = t.embed U * t.embed V := by
  unfold embed
  rw [Matrix.reindex_apply, Matrix.reindex_apply, Matrix.reindex_apply, Matrix.submatrix_mul_equiv,
    ← Matrix.mul_kronecker_mul]
  simp

theorem embed_one : t.embed (1 : Matrix (St k) (St k) ℂ) = 1 := by
  ext x y
  rw [embed_apply]
  by_cases h : x = y
  · subst h; simp
  · rw [Matrix.one_apply_ne h]
    by_cases h2 : ∀ i, i ∉ Set.range t.f → x i = y i
    · have : x ∘ t.f ≠ y ∘ t.f := by
        intro hc
        apply h
        funext i
        by_cases hi : i ∈ Set.range t.f
        · obtain ⟨j, rfl⟩ := hi
          exact congrFun hc j
        · exact h2 i hi
      simp [Matrix.one_apply_ne this]
    · rw [if_neg h2]; simp

theorem embed_smul (c : ℂ) (U : Matrix (St k) (St k) ℂ) : t.embed (c • U) = c • t.embed U := by
  ext x y
  simp [embed_apply]

theorem embed_add (U V : Matrix (St k) (St k) ℂ) : t.embed (U + V) = t.embed U + t.embed V := by
  ext x y
  simp only [embed_apply, Matrix.add_apply]; ring

def comp (q : Tg k N) (s : Tg m k) : Tg m N := ⟨q.f ∘ s.f, q.inj.comp s.inj⟩

/-- embedding of an embedding = embedding along the composed placement (localisation lemma core) -/
theorem embed_comp (q : Tg k N) (s : Tg m k) (U : Matrix (St m) (St m) ℂ) :
    q.embed (s.embed U) = (q.comp s).embed U := by
  ext x y
  rw [embed_apply, embed_apply, embed_apply]
  have hcomp : ∀ z : St N, (z ∘ q.f) ∘ s.f = z ∘ (q.comp s).f := fun z => rfl
  rw [hcomp x, hcomp y, mul_assoc]
  congr 1
  have key : ((∀ i, i ∉ Set.range s.f → (x ∘ q.f) i = (y ∘ q.f) i) ∧ (∀ i, i ∉ Set.range q.f → x i = y i))
      ↔ (∀ i, i ∉ Set.range (q.comp s).f → x i = y i) := by
    constructor
    · rintro ⟨h1, h2⟩ i hi
      by_cases hq : i ∈ Set.range q.f
      · obtain ⟨j, rfl⟩ := hq
        apply h1 j
        rintro ⟨l, rfl⟩
        exact hi ⟨l, rfl⟩
      · exact h2 i hq
    · intro h
      refine ⟨fun j hj => h (q.f j) ?_, fun i hi => h i ?_⟩
      · rintro ⟨l, hl⟩
        exact hj ⟨l, q.inj hl⟩
      · rintro ⟨l, hl⟩
        exact hi ⟨s.f l, hl⟩
  by_cases hA : (∀ i, i ∉ Set.range s.f → (x ∘ q.f) i = (y ∘ q.f) i)
  · by_cases hB : (∀ i, i ∉ Set.range q.f → x i = y i)
    · rw [if_pos hA, if_pos hB, if_pos (key.1 ⟨hA, hB⟩)]; simp
    · rw [if_neg hB, if_neg (fun h => hB (key.2 h).2)]; simp
  · rw [if_neg hA, if_neg (fun h => hA (key.2 h).1)]; simp
end Tg
end QipVerif
