import QipVerif.Lemmas.NoiseSol
import Mathlib.Analysis.Matrix.Normed
import Mathlib.Analysis.Calculus.Deriv.Prod
/-! `Solves` (entrywise `HasDerivAt`) is the derivative of the matrix-valued function (C15). -/
namespace QipVerif.Noise
open Matrix
section
attribute [local instance] Matrix.normedAddCommGroup Matrix.normedSpace

/-- the entrywise notion is the derivative of the matrix-valued function (entrywise sup norm; all
norms on the finite-dimensional space of matrices give the same derivative) -/
theorem solves_iff_hasDerivAt {n : Type} [Fintype n] (L : Matrix n n ℂ → Matrix n n ℂ)
    (ρ : ℝ → Matrix n n ℂ) : Solves L ρ ↔ ∀ t, HasDerivAt ρ (L (ρ t)) t := by
  unfold Solves
  refine forall_congr' fun t => ?_
  rw [show HasDerivAt ρ (L (ρ t)) t ↔ ∀ i, HasDerivAt (fun s => ρ s i) (L (ρ t) i) t from hasDerivAt_pi]
  refine forall_congr' fun i => ?_
  exact hasDerivAt_pi.symm
end
end QipVerif.Noise
