import QipVerif.Model.EmbedNum
/-! Helper lemmas for the typed-number layer of `expand_operator`'s arguments (C08). Core Lean only. -/
namespace QipVerif.EmbedNum
open QipVerif.Embed QipVerif.EmbedArgs

/-- a coercion never changes the value -/
theorem coerce_eq (p : Pos) (x : Num) (v : Int) (h : coerce p x = some v) : v = x.v := by
  obtain ⟨ty, w⟩ := x
  cases p <;> cases ty <;> simp only [coerce] at h <;> first
    | (exact (Option.some.inj h).symm)
    | (split at h <;> first | exact (Option.some.inj h).symm | exact absurd h (by simp))
    | exact absurd h (by simp)

theorem coerce_int (p : Pos) (v : Int) : coerce p ⟨.int, v⟩ = some v := by
  cases p <;> rfl

theorem coerceAll_int (p : Pos) (l : List Int) : coerceAll p (l.map (fun (v : Int) => (⟨.int, v⟩ : Num))) = some l := by
  induction l with
  | nil => rfl
  | cons a as ih => simp [coerceAll, coerce_int, ih]

theorem lowerDimsList_int (ts : List Int) (n i : Nat) (d : List Nat) :
    lowerDimsList ts n i (d.map (fun (k : Nat) => (⟨.int, (k : Int)⟩ : Num))) = some d := by
  induction d generalizing i with
  | nil => rfl
  | cons a as ih =>
    simp only [List.map_cons, lowerDimsList, coerce_int, ih]
    have : ¬ ((a : Int) < 0) := by omega
    simp [this]

/-- the plain request written with Python ints -/
def ofTArg : TArg → TArgT
  | .none => .none
  | .int t => .scalar ⟨.int, t⟩
  | .list ts => .list (ts.map (fun (v : Int) => (⟨.int, v⟩ : Num)))

def ofArgs (a : Args) : ArgsT :=
  ⟨a.N.map (fun (n : Nat) => (⟨.int, (n : Int)⟩ : Num)),
   match a.dims with | none => .none | some d => .list (d.map (fun (k : Nat) => (⟨.int, (k : Int)⟩ : Num))),
   ofTArg a.targets, a.opL, a.opR, a.cyclic⟩

theorem lower_ofArgs (a : Args) : lower (ofArgs a) = some a := by
  obtain ⟨N, dims, targets, opL, opR, cyclic⟩ := a
  have ht : lowerTargets (ofTArg targets) = some targets := by
    cases targets with
    | none => rfl
    | int t => simp [ofTArg, lowerTargets, coerce_int]
    | list ts => simp [ofTArg, lowerTargets, coerceAll_int]
  unfold lower ofArgs
  simp only [ht]
  cases N with
  | none =>
    cases dims with
    | none => rfl
    | some d => simp [lowerDimsList_int]
  | some n =>
    have hn : sizeNat .size ⟨.int, (n : Int)⟩ = some n := by
      simp [sizeNat, coerce_int]
    cases dims with
    | none => simp [hn]
    | some d => simp [hn, lowerDimsList_int]

end QipVerif.EmbedNum
