import QipVerif.Model.QasmTok
import QipVerif.Lemmas.QasmLex
/-!
# String primitives of the tokenizer model (C04): `strip`, `split`, `replace`

Lemmas about `Tok.stripL/stripR/strip`, `splitBy` (`str.split()`), `splitOn` (`str.split(",")`),
`replaceChar` / `padLine` used by `Lemmas/QasmTokRender.lean`.
-/
namespace QipVerif.Qasm.Tok
open QipVerif.Qasm

/-! ## characters -/

theorem isWs_space : isWs ' ' = true := by decide
theorem isWs_nl : isWs '\n' = true := by decide

theorem plain_not_ws {c : Char} (h : plain c = true) : isWs c = false := by
  simp only [plain, Bool.and_eq_true, Bool.not_eq_true'] at h; exact h.1

theorem plain_not_special {c : Char} (h : plain c = true) : special c = false := by
  simp only [plain, Bool.and_eq_true, Bool.not_eq_true'] at h; exact h.2

theorem special_false_iff {c : Char} : special c = false ↔
    c ≠ '(' ∧ c ≠ ')' ∧ c ≠ '[' ∧ c ≠ ']' ∧ c ≠ '{' ∧ c ≠ '}' ∧ c ≠ ';' ∧ c ≠ ',' := by
  simp only [special, Bool.or_eq_false_iff, beq_eq_false_iff_ne, ne_eq]
  constructor
  · rintro ⟨⟨⟨⟨⟨⟨⟨a, b⟩, c⟩, d⟩, e⟩, f⟩, g⟩, h⟩; exact ⟨a, b, c, d, e, f, g, h⟩
  · rintro ⟨a, b, c, d, e, f, g, h⟩; exact ⟨⟨⟨⟨⟨⟨⟨a, b⟩, c⟩, d⟩, e⟩, f⟩, g⟩, h⟩

theorem plain_ne {c : Char} (h : plain c = true) :
    c ≠ '(' ∧ c ≠ ')' ∧ c ≠ '[' ∧ c ≠ ']' ∧ c ≠ '{' ∧ c ≠ '}' ∧ c ≠ ';' ∧ c ≠ ',' ∧ c ≠ ' ' ∧ c ≠ '\n' := by
  have h1 := special_false_iff.mp (plain_not_special h)
  have h2 := plain_not_ws h
  refine ⟨h1.1, h1.2.1, h1.2.2.1, h1.2.2.2.1, h1.2.2.2.2.1, h1.2.2.2.2.2.1, h1.2.2.2.2.2.2.1,
    h1.2.2.2.2.2.2.2, ?_, ?_⟩
  · rintro rfl; simp [isWs_space] at h2
  · rintro rfl; simp [isWs_nl] at h2

theorem plain_of_digit {c : Char} (h : isDigit c = true) : plain c = true := by
  have h' := (isDigit_iff c).mp h
  have h1 : isWs c = false := by
    simp only [isWs, Bool.or_eq_false_iff, Bool.and_eq_false_iff, decide_eq_false_iff_not,
      beq_eq_false_iff_ne, ne_eq]
    omega
  have h2 : special c = false := by
    simp only [special, Bool.or_eq_false_iff, beq_eq_false_iff_ne, ne_eq, char_eq_iff]; simp; omega
  simp [plain, h1, h2]

theorem all_plain_of_digits {s : Str} (h : s.all isDigit = true) : s.all plain = true := by
  simp only [List.all_eq_true] at h ⊢
  exact fun c hc => plain_of_digit (h c hc)

theorem natDigits_plain (n : Nat) : (natDigits n).all plain = true :=
  all_plain_of_digits (natDigits_all n)

theorem natDigits_isWord (n : Nat) : isWord (natDigits n) = true := by
  have := natDigits_ne_nil n
  simp only [isWord, natDigits_plain, Bool.and_true, Bool.not_eq_true', List.isEmpty_eq_false_iff]
  exact this

theorem isWord_iff {s : Str} : isWord s = true ↔ s ≠ [] ∧ ∀ c ∈ s, plain c = true := by
  simp [isWord, List.isEmpty_eq_false_iff]

/-! ## `strip` -/

/-- all characters are whitespace -/
def allWs (s : Str) : Bool := s.all isWs

@[simp] theorem stripL_nil : stripL [] = [] := rfl
theorem stripL_cons_ws {c : Char} (cs : Str) (h : isWs c = true) : stripL (c :: cs) = stripL cs := by
  simp [stripL, h]
theorem stripL_cons_nws {c : Char} (cs : Str) (h : isWs c = false) : stripL (c :: cs) = c :: cs := by
  simp [stripL, h]

theorem stripL_ws_append (w t : Str) (hw : allWs w = true) : stripL (w ++ t) = stripL t := by
  induction w with
  | nil => rfl
  | cons c cs ih =>
    simp only [allWs, List.all_cons, Bool.and_eq_true] at hw
    rw [List.cons_append, stripL_cons_ws _ hw.1]; exact ih hw.2

theorem stripL_allWs (w : Str) (hw : allWs w = true) : stripL w = [] := by
  have := stripL_ws_append w [] hw; simpa using this

@[simp] theorem stripR_nil : stripR [] = [] := rfl

theorem stripR_allWs (w : Str) (hw : allWs w = true) : stripR w = [] := by
  induction w with
  | nil => rfl
  | cons c cs ih =>
    simp only [allWs, List.all_cons, Bool.and_eq_true] at hw
    simp [stripR, ih hw.2, hw.1]

theorem stripR_append_ws (t w : Str) (hw : allWs w = true) : stripR (t ++ w) = stripR t := by
  induction t with
  | nil => simpa using stripR_allWs w hw
  | cons c cs ih => simp only [List.cons_append, stripR, ih]

theorem stripR_snoc_nws (t : Str) {c : Char} (h : isWs c = false) : stripR (t ++ [c]) = t ++ [c] := by
  induction t with
  | nil => simp [stripR, h]
  | cons d ds ih =>
    simp only [List.cons_append, stripR, ih]
    cases ds <;> simp

/-- a string without whitespace at its ends is a fixed point -/
theorem stripR_noWs (s : Str) (h : ∀ c ∈ s, isWs c = false) : stripR s = s := by
  induction s with
  | nil => rfl
  | cons c cs ih =>
    have hc := h c (by simp)
    have ih' := ih (fun d hd => h d (by simp [hd]))
    simp only [stripR, ih']
    cases cs <;> simp [hc]

theorem strip_noWs (s : Str) (h : ∀ c ∈ s, isWs c = false) : strip s = s := by
  unfold strip
  cases s with
  | nil => rfl
  | cons c cs => rw [stripL_cons_nws _ (h c (by simp))]; exact stripR_noWs _ h

theorem stripL_append_ws_right (y w : Str) (hw : allWs w = true) :
    stripR (stripL (y ++ w)) = stripR (stripL y) := by
  induction y with
  | nil => simp [stripL_allWs w hw]
  | cons c cs ih =>
    by_cases hc : isWs c = true
    · simp only [List.cons_append, stripL_cons_ws _ hc]; exact ih
    · have hc' : isWs c = false := by simpa using hc
      simp only [List.cons_append, stripL_cons_nws _ hc']
      exact stripR_append_ws (c :: cs) w hw

/-- `strip` ignores whitespace added at both ends -/
theorem strip_pad (w1 y w2 : Str) (h1 : allWs w1 = true) (h2 : allWs w2 = true) :
    strip (w1 ++ y ++ w2) = strip y := by
  unfold strip
  rw [List.append_assoc, stripL_ws_append _ _ h1, stripL_append_ws_right _ _ h2]

/-- text that starts and ends with a non-blank character, padded by whitespace -/
theorem strip_core (w1 w2 m : Str) (a b : Char) (h1 : allWs w1 = true) (h2 : allWs w2 = true)
    (ha : isWs a = false) (hb : isWs b = false) :
    strip (w1 ++ (a :: m ++ [b]) ++ w2) = a :: m ++ [b] := by
  rw [strip_pad _ _ _ h1 h2]
  unfold strip
  rw [List.cons_append, stripL_cons_nws _ ha, ← List.cons_append]
  exact stripR_snoc_nws _ hb

/-! ## `splitBy` (`str.split()`) -/

/-- the text is empty or starts with a separator -/
def startsSep (p : Char → Bool) : Str → Bool
  | [] => true
  | c :: _ => p c

theorem splitByAux_fst (p : Char → Bool) (s : Str) :
    (splitByAux p s).1 = (match s with | [] => false | c :: _ => !p c) := by
  cases s with
  | nil => rfl
  | cons c cs =>
    simp only [splitByAux]
    by_cases hc : p c = true
    · simp [hc]
    · have hc' : p c = false := by simpa using hc
      simp only [hc', Bool.false_eq_true, if_false]
      split <;> simp
      split <;> simp

theorem splitByAux_snd_ne_nil (p : Char → Bool) (s : Str) (h : (splitByAux p s).1 = true) :
    (splitByAux p s).2 ≠ [] := by
  cases s with
  | nil => simp [splitByAux] at h
  | cons c cs =>
    simp only [splitByAux] at h ⊢
    by_cases hc : p c = true
    · simp [hc] at h
    · have hc' : p c = false := by simpa using hc
      simp only [hc', Bool.false_eq_true, if_false]
      split
      · split <;> simp
      · simp

@[simp] theorem splitBy_nil (p : Char → Bool) : splitBy p [] = [] := rfl

theorem splitByAux_cons_sep (p : Char → Bool) {c : Char} (cs : Str) (h : p c = true) :
    splitByAux p (c :: cs) = (false, (splitByAux p cs).2) := by
  simp [splitByAux, h]

theorem splitByAux_cons_nsep (p : Char → Bool) {c : Char} (cs : Str) (h : p c = false) :
    splitByAux p (c :: cs) =
      if (splitByAux p cs).1 = true then
        match (splitByAux p cs).2 with
        | w :: ws => (true, (c :: w) :: ws)
        | [] => (true, [[c]])
      else (true, [c] :: (splitByAux p cs).2) := by
  simp only [splitByAux, h, Bool.false_eq_true, if_false]
  split
  · split <;> rename_i heq <;> simp [heq]
  · rfl

theorem splitBy_sep (p : Char → Bool) {c : Char} (cs : Str) (h : p c = true) :
    splitBy p (c :: cs) = splitBy p cs := by
  simp [splitBy, splitByAux, h]

/-- a word followed by a separator (or the end) is the next token -/
theorem splitBy_word (p : Char → Bool) (w rest : Str) (hne : w ≠ [])
    (hw : ∀ c ∈ w, p c = false) (hr : startsSep p rest = true) :
    splitBy p (w ++ rest) = w :: splitBy p rest := by
  induction w with
  | nil => exact absurd rfl hne
  | cons c cs ih =>
    have hc : p c = false := hw c (by simp)
    cases cs with
    | nil =>
      have hf : (splitByAux p rest).1 = false := by
        rw [splitByAux_fst]
        cases rest with
        | nil => rfl
        | cons d ds => simp only [startsSep] at hr; simp [hr]
      simp [splitBy, splitByAux, hc, hf]
    | cons d ds =>
      have ih' := ih (by simp) (fun x hx => hw x (by simp [hx]))
      have hd : p d = false := hw d (by simp)
      have hf : (splitByAux p (d :: ds ++ rest)).1 = true := by
        rw [splitByAux_fst]; simp [hd]
      unfold splitBy at ih' ⊢
      simp only [List.cons_append] at ih' hf ⊢
      rw [splitByAux]
      simp only [hc, Bool.false_eq_true, if_false, hf, if_true, ih']

theorem splitBy_word_end (p : Char → Bool) (w : Str) (hne : w ≠ []) (hw : ∀ c ∈ w, p c = false) :
    splitBy p w = [w] := by
  have := splitBy_word p w [] hne hw rfl
  simpa using this

theorem splitBy_allSep (p : Char → Bool) (w : Str) (hw : w.all p = true) : splitBy p w = [] := by
  induction w with
  | nil => rfl
  | cons c cs ih =>
    simp only [List.all_cons, Bool.and_eq_true] at hw
    rw [splitBy_sep p cs hw.1]; exact ih hw.2

theorem splitBy_seps_append (p : Char → Bool) (w rest : Str) (hw : w.all p = true) :
    splitBy p (w ++ rest) = splitBy p rest := by
  induction w with
  | nil => rfl
  | cons c cs ih =>
    simp only [List.all_cons, Bool.and_eq_true] at hw
    rw [List.cons_append, splitBy_sep p _ hw.1]; exact ih hw.2

/-- tokens of `split()` contain no separator and are not empty -/
theorem mem_splitByAux (p : Char → Bool) (s : Str) :
    ∀ t ∈ (splitByAux p s).2, t ≠ [] ∧ ∀ c ∈ t, p c = false := by
  induction s with
  | nil => intro t ht; simp [splitByAux] at ht
  | cons c cs ih =>
    intro t ht
    simp only [splitByAux] at ht
    by_cases hc : p c = true
    · simp only [hc, if_true] at ht; exact ih t ht
    · have hc' : p c = false := by simpa using hc
      simp only [hc', Bool.false_eq_true, if_false] at ht
      split at ht
      · rename_i hflag
        split at ht
        · rename_i w ws hw
          simp only [List.mem_cons] at ht
          rcases ht with rfl | ht
          · have := ih w (by rw [hw]; simp)
            refine ⟨by simp, ?_⟩
            intro x hx
            simp only [List.mem_cons] at hx
            rcases hx with rfl | hx
            · exact hc'
            · exact this.2 x hx
          · exact ih t (by rw [hw]; simp [ht])
        · simp only [List.mem_cons, List.not_mem_nil, or_false] at ht
          subst ht; exact ⟨by simp, by simpa using hc'⟩
      · simp only [List.mem_cons] at ht
        rcases ht with rfl | ht
        · exact ⟨by simp, by simpa using hc'⟩
        · exact ih t ht

theorem mem_splitBy (p : Char → Bool) (s : Str) {t : Str} (ht : t ∈ splitBy p s) :
    t ≠ [] ∧ ∀ c ∈ t, p c = false := mem_splitByAux p s t ht

/-! ## `splitOn` (`str.split(",")`) -/

theorem splitOn_ne_nil (d : Char) (s : Str) : splitOn d s ≠ [] := by
  cases s with
  | nil => simp [splitOn]
  | cons c cs =>
    simp only [splitOn]
    split
    · simp
    · split <;> simp

theorem splitOn_cons_ne (d : Char) {c : Char} (cs : Str) (h : c ≠ d) :
    splitOn d (c :: cs) = (c :: (splitOn d cs).headD []) :: (splitOn d cs).tail := by
  have hne := splitOn_ne_nil d cs
  rw [splitOn]
  simp only [beq_iff_eq, h, if_false]
  cases hs : splitOn d cs with
  | nil => exact absurd hs hne
  | cons w ws => simp

theorem splitOn_none (d : Char) (s : Str) (h : d ∉ s) : splitOn d s = [s] := by
  induction s with
  | nil => rfl
  | cons c cs ih =>
    have hc : c ≠ d := fun e => h (by simp [e])
    have ih' := ih (fun hm => h (by simp [hm]))
    rw [splitOn]
    simp [hc, ih']

theorem splitOn_append (d : Char) (a b : Str) (h : d ∉ a) :
    splitOn d (a ++ d :: b) = a :: splitOn d b := by
  induction a with
  | nil => simp [splitOn]
  | cons c cs ih =>
    have hc : c ≠ d := fun e => h (by simp [e])
    have ih' := ih (fun hm => h (by simp [hm]))
    rw [List.cons_append, splitOn]
    simp [hc, ih']

/-- first branch of `_tokenize_line`: splitting at commas and then at whitespace is splitting at
both; the tokens need no `strip` -/
def sepC (c : Char) : Bool := isWs c || c == ','

theorem sepC_space : sepC ' ' = true := by decide
theorem sepC_comma : sepC ',' = true := by decide

theorem splitOn_comma_splitWs (s : Str) :
    splitByAux sepC s =
      ((splitByAux isWs ((splitOn ',' s).headD [])).1,
       (splitByAux isWs ((splitOn ',' s).headD [])).2 ++
         (splitOn ',' s).tail.flatMap splitWs) := by
  induction s with
  | nil => simp [splitOn, splitByAux]
  | cons c cs ih =>
    by_cases hc : c = ','
    · subst hc
      have e : splitOn ',' (',' :: cs) = [] :: splitOn ',' cs := by simp [splitOn]
      have hne := splitOn_ne_nil ',' cs
      simp only [e, List.headD_cons, List.tail_cons]
      rw [splitByAux_cons_sep sepC cs sepC_comma, ih]
      cases hs : splitOn ',' cs with
      | nil => exact absurd hs hne
      | cons w ws => simp [splitByAux, splitWs, splitBy]
    · have e := splitOn_cons_ne ',' cs hc
      have hne := splitOn_ne_nil ',' cs
      have hsep : sepC c = isWs c := by simp [sepC, hc]
      cases hs : splitOn ',' cs with
      | nil => exact absurd hs hne
      | cons w ws =>
        simp only [hs, List.headD_cons, List.tail_cons] at e ih
        simp only [e, List.headD_cons, List.tail_cons]
        rw [splitByAux, ih, hsep]
        by_cases hw : isWs c = true
        · simp [splitByAux, hw]
        · have hw' : isWs c = false := by simpa using hw
          simp only [hw', Bool.false_eq_true, if_false]
          rw [splitByAux]
          simp only [hw', Bool.false_eq_true, if_false]
          by_cases hf : (splitByAux isWs w).1 = true
          · have hne2 := splitByAux_snd_ne_nil isWs w hf
            simp only [hf, if_true]
            cases h2 : (splitByAux isWs w).2 with
            | nil => exact absurd h2 hne2
            | cons t ts => simp
          · have hf' : (splitByAux isWs w).1 = false := by simpa using hf
            simp [hf']

theorem plainTokens_eq (cmd : Str) : plainTokens cmd = splitBy sepC cmd := by
  have h := splitOn_comma_splitWs cmd
  have hne := splitOn_ne_nil ',' cmd
  have e : (splitOn ',' cmd).flatMap splitWs = splitBy sepC cmd := by
    unfold splitBy
    rw [h]
    cases hs : splitOn ',' cmd with
    | nil => exact absurd hs hne
    | cons w ws => simp [splitWs, splitBy]
  unfold plainTokens
  rw [e]
  have : ∀ t ∈ splitBy sepC cmd, strip t = t := by
    intro t ht
    apply strip_noWs
    intro c hc
    have := (mem_splitBy sepC cmd ht).2 c hc
    simp only [sepC, Bool.or_eq_false_iff] at this
    exact this.1
  calc (splitBy sepC cmd).map strip = (splitBy sepC cmd).map id :=
        List.map_congr_left this
    _ = _ := by simp

theorem plain_not_sepC {c : Char} (h : plain c = true) : sepC c = false := by
  have := plain_ne h
  simp [sepC, plain_not_ws h, this.2.2.2.2.2.2.2.1]

/-! ## `replace` / `padLine` -/

/-- what the six `replace` passes make of one character -/
def padChar (c : Char) : Str :=
  if c == '[' || c == ']' || c == '(' || c == ')' then [' ', c, ' ']
  else if c == '{' || c == '}' then [' ', ';', ' ', c, ' ', ';', ' ']
  else [c]

theorem replaceChar_append (c : Char) (r a b : Str) :
    replaceChar c r (a ++ b) = replaceChar c r a ++ replaceChar c r b := by
  simp [replaceChar]

theorem padLine_append (a b : Str) : padLine (a ++ b) = padLine a ++ padLine b := by
  simp only [padLine, replaceChar_append]

theorem padLine_single (c : Char) : padLine [c] = padChar c := by
  by_cases h1 : c = '['
  · subst h1; rfl
  by_cases h2 : c = ']'
  · subst h2; rfl
  by_cases h3 : c = '('
  · subst h3; rfl
  by_cases h4 : c = ')'
  · subst h4; rfl
  by_cases h5 : c = '{'
  · subst h5; rfl
  by_cases h6 : c = '}'
  · subst h6; rfl
  simp [padLine, replaceChar, padChar, h1, h2, h3, h4, h5, h6]

@[simp] theorem padLine_nil : padLine [] = [] := rfl

theorem padLine_cons (c : Char) (cs : Str) : padLine (c :: cs) = padChar c ++ padLine cs := by
  have := padLine_append [c] cs
  simpa [padLine_single] using this

theorem padLine_eq_flatMap (s : Str) : padLine s = s.flatMap padChar := by
  induction s with
  | nil => rfl
  | cons c cs ih => rw [padLine_cons, ih]; simp

theorem padChar_plain {c : Char} (h : plain c = true) : padChar c = [c] := by
  have := plain_ne h
  simp [padChar, this]

theorem padLine_plain (s : Str) (h : s.all plain = true) : padLine s = s := by
  induction s with
  | nil => rfl
  | cons c cs ih =>
    simp only [List.all_cons, Bool.and_eq_true] at h
    rw [padLine_cons, padChar_plain h.1, ih h.2]; rfl

/-- the characters of a padded line: those of the line, blanks, and `;` only next to braces -/
theorem mem_padLine {s : Str} {c : Char} (h : c ∈ padLine s) :
    c ∈ s ∨ c = ' ' ∨ (c = ';' ∧ ('{' ∈ s ∨ '}' ∈ s)) := by
  induction s with
  | nil => simp at h
  | cons d ds ih =>
    rw [padLine_cons, List.mem_append] at h
    rcases h with h | h
    · unfold padChar at h
      split at h
      · simp only [List.mem_cons, List.not_mem_nil, or_false] at h
        rcases h with rfl | rfl | rfl <;> simp
      · split at h
        · rename_i hb
          simp only [Bool.or_eq_true, beq_iff_eq] at hb
          simp only [List.mem_cons, List.not_mem_nil, or_false] at h
          rcases h with rfl | rfl | rfl | rfl | rfl | rfl | rfl <;> simp <;>
            (rcases hb with rfl | rfl <;> simp)
        · simp only [List.mem_cons, List.not_mem_nil, or_false] at h; subst h; simp
    · rcases ih h with h | h | ⟨h, h'⟩
      · simp [h]
      · simp [h]
      · right; right; refine ⟨h, ?_⟩
        rcases h' with h' | h' <;> simp [h']

theorem mem_padLine_of_mem {s : Str} {c : Char} (h : c ∈ s) : c ∈ padLine s := by
  induction s with
  | nil => simp at h
  | cons d ds ih =>
    rw [padLine_cons, List.mem_append]
    simp only [List.mem_cons] at h
    rcases h with rfl | h
    · left; unfold padChar; split
      · simp
      · split <;> simp
    · exact Or.inr (ih h)

end QipVerif.Qasm.Tok
