import QipVerif.Lemmas.DecompDenTables
/-!
# C03 — the parametric stages of `resolve_gates`, for every angle and every placement

Pauli substitution, the symbolic rules `_gate_PHASEGATE` / `_gate_GLOBALPHASE`, and the elimination
of the rotation that is not in a two-rotation basis: each denotes exactly the operator of the gate
it replaces (parametric 2×2 identities of `GateC.lean`, lifted by `mat1_mul`, `Tg.embed_mul`,
`Tg.embed_smul`).
-/
namespace QipVerif
open Matrix Complex

/-! ## angles -/
theorem Ang.eval_pi8 (ρ : ℕ → ℝ) (n : ℤ) : (Ang.pi8 n).eval ρ = (n : ℝ) * (Real.pi / 8) := by
  simp [Ang.eval, Ang.pi8]

namespace Decomp

theorem eval_inst_same (ρ : ℕ → ℝ) (a : Ang) : (TAng.inst ⟨1, 1, 0⟩ a).eval ρ = a.eval ρ := by
  simp only [TAng.inst, Ang.eval]
  cases a.sym <;> simp

theorem eval_inst_half (ρ : ℕ → ℝ) (a : Ang) (h : a.p8 % 2 = 0) :
    (TAng.inst ⟨1, 2, 0⟩ a).eval ρ = a.eval ρ / 2 := by
  have h2 : a.p8 = 2 * (a.p8 / 2) := by omega
  have h3 : (a.p8 : ℝ) = 2 * ((a.p8 / 2 : ℤ) : ℝ) := by exact_mod_cast congrArg (fun z : ℤ => (z : ℝ)) h2
  simp only [TAng.inst, Ang.eval]
  cases a.sym with
  | none => simp; rw [h3]; ring
  | some j => simp; rw [h3]; ring

end Decomp

/-! ## gates sharing a placement -/

/-- a gate with the qubits of a well placed gate is well placed on the same placement -/
theorem semD_same_place (N : ℕ) (ρ : ℕ → ℝ) (g : Gate) (M : Matrix (St N) (St N) ℂ)
    (hM : semD N ρ g = some M) (m : ℕ) (U : Matrix (St m) (St m) ℂ)
    (hc : compactC g.name (g.arg.eval ρ) = some ⟨m, U⟩) :
    ∃ t : Tg m N, M = t.embed U ∧
      ∀ (g' : Gate) (U' : Matrix (St m) (St m) ℂ), g'.qubits = g.qubits →
        compactC g'.name (g'.arg.eval ρ) = some ⟨m, U'⟩ → semD N ρ g' = some (t.embed U') := by
  obtain ⟨m', U₁, hm, hn, hr, hc₁, rfl⟩ := semD_inv N ρ g M hM
  rw [hc] at hc₁
  cases hc₁
  refine ⟨tgL N g.qubits m hm hn hr, rfl, ?_⟩
  intro g' U' hq hc'
  rw [semD_of N ρ g' m U' hc' (hq ▸ hm) (hq ▸ hn) (hq ▸ hr)]
  congr 2
  apply Tg.ext'
  intro i
  apply Fin.ext
  simp only [tgL, hq]

theorem x_def : GateE.x = ⟨0, [[Cyc.zero, Cyc.one], [Cyc.one, Cyc.zero]]⟩ := rfl
theorem y_def : GateE.y = ⟨0, [[Cyc.zero, Cyc.neg Cyc.I], [Cyc.I, Cyc.zero]]⟩ := rfl
theorem zg_def : GateE.zg = ⟨0, [[Cyc.one, Cyc.zero], [Cyc.zero, Cyc.neg Cyc.one]]⟩ := rfl

theorem toMatD_x : toMatD 1 GateE.x = mat1 Gen.G.x_gate_ := by
  rw [x_def, toMatD_one_eq]; congr 1
  ext i j; fin_cases i <;> fin_cases j <;> simp [Gen.G.x_gate_]
theorem toMatD_y : toMatD 1 GateE.y = mat1 Gen.G.y_gate_ := by
  rw [y_def, toMatD_one_eq]; congr 1
  ext i j; fin_cases i <;> fin_cases j <;> simp [Gen.G.y_gate_, Cyc.toC_neg, Cyc.toC_I]
theorem toMatD_z : toMatD 1 GateE.zg = mat1 Gen.G.z_gate_ := by
  rw [zg_def, toMatD_one_eq]; congr 1
  ext i j; fin_cases i <;> fin_cases j <;> simp [Gen.G.z_gate_, Cyc.toC_neg]

namespace Decomp
open GateC

/-- rotations and Paulis: one-qubit gates that `resolve_gates` rebuilds from `gate.targets` alone -/
def rotXYZ : List GName := [.RX, .RY, .RZ, .X, .Y, .Z]

/-- the one-qubit rotations and Paulis carry their qubit in `targets` and have no control
(what the constructor of `SingleQubitGate` enforces) -/
def wf1 (g : Gate) : Bool := !(rotXYZ.contains g.name) || g.controls.isEmpty

theorem eval_halfPi (ρ : ℕ → ℝ) : halfPi.eval ρ = Real.pi / 2 := by
  rw [halfPi, Ang.eval_pi8]; push_cast; ring

theorem denG_marker (N : ℕ) (ρ : ℕ → ℝ) (a : Ang) :
    denG N ρ [⟨.GLOBALPHASE, [], [], a⟩] = some (phase (a.eval ρ) • 1) := by
  rw [denG_single, semD_gphase N ρ _ rfl rfl]

/-- Pauli substitution, generic in the Pauli/rotation pair -/
theorem pauli_generic (N : ℕ) (ρ : ℕ → ℝ) (g0 : Gate) (M : Matrix (St N) (St N) ℂ)
    (hctl : g0.controls = []) (hM : semD N ρ g0 = some M)
    (P : Matrix (Fin 2) (Fin 2) ℂ) (R : ℝ → Matrix (Fin 2) (Fin 2) ℂ) (rn : GName)
    (hcP : compactC g0.name (g0.arg.eval ρ) = some ⟨1, mat1 P⟩)
    (hcR : ∀ θ, compactC rn θ = some ⟨1, mat1 (R θ)⟩)
    (hid : phase (Real.pi / 2) • R Real.pi = P) :
    ∃ M1, semD N ρ ⟨rn, g0.targets, [], .pi8 8⟩ = some M1 ∧ phase (Real.pi / 2) • M1 = M := by
  obtain ⟨t, hMt, hall⟩ := semD_same_place N ρ g0 M hM 1 (mat1 P) hcP
  refine ⟨t.embed (mat1 (R Real.pi)), ?_, ?_⟩
  · apply hall
    · simp [Gate.qubits, hctl]
    · rw [hcR]
      have : (Ang.pi8 8).eval ρ = Real.pi := by rw [Ang.eval_pi8]; push_cast; ring
      simp only [this]
  · rw [hMt, ← hid, mat1_smul, Tg.embed_smul]

theorem pauliSub_den (N : ℕ) (ρ : ℕ → ℝ) (g0 : Gate) (M : Matrix (St N) (St N) ℂ)
    (hw : wf1 g0 = true) (hM : semD N ρ g0 = some M) :
    ∃ (c : ℂ) (M1 : Matrix (St N) (St N) ℂ), denG N ρ (pauliSub g0).1 = some (c • 1) ∧
      semD N ρ (pauliSub g0).2 = some M1 ∧ c • M1 = M := by
  unfold pauliSub
  split
  · rename_i hname
    have hctl : g0.controls = [] := by simpa [wf1, rotXYZ, hname] using hw
    obtain ⟨M1, h1, h2⟩ := pauli_generic N ρ g0 M hctl hM Gen.G.x_gate_ Gen.G.rx_ .RX
      (by rw [hname, ← toMatD_x]; rfl) (fun θ => rfl) pauli_X
    exact ⟨phase (Real.pi / 2), M1, by rw [denG_marker, eval_halfPi], h1, h2⟩
  · split
    · rename_i hname
      have hctl : g0.controls = [] := by simpa [wf1, rotXYZ, hname] using hw
      obtain ⟨M1, h1, h2⟩ := pauli_generic N ρ g0 M hctl hM Gen.G.y_gate_ Gen.G.ry_ .RY
        (by rw [hname, ← toMatD_y]; rfl) (fun θ => rfl) pauli_Y
      exact ⟨phase (Real.pi / 2), M1, by rw [denG_marker, eval_halfPi], h1, h2⟩
    · split
      · rename_i hname
        have hctl : g0.controls = [] := by simpa [wf1, rotXYZ, hname] using hw
        obtain ⟨M1, h1, h2⟩ := pauli_generic N ρ g0 M hctl hM Gen.G.z_gate_ Gen.G.rz_ .RZ
          (by rw [hname, ← toMatD_z]; rfl) (fun θ => rfl) pauli_Z
        exact ⟨phase (Real.pi / 2), M1, by rw [denG_marker, eval_halfPi], h1, h2⟩
      · exact ⟨1, M, by simp [denG_nil], hM, by simp⟩

theorem pauliSub_wf (g0 : Gate) (hw : wf1 g0 = true) : wf1 (pauliSub g0).2 = true := by
  unfold pauliSub
  split
  · simp [wf1]
  · split
    · simp [wf1]
    · split
      · simp [wf1]
      · exact hw

/-- elimination of a rotation, generic in the triple of rotations -/
theorem elim_generic (N : ℕ) (ρ : ℕ → ℝ) (g : Gate) (M : Matrix (St N) (St N) ℂ)
    (hctl : g.controls = []) (hM : semD N ρ g = some M)
    (R A B : ℝ → Matrix (Fin 2) (Fin 2) ℂ) (na nb : GName)
    (hcR : compactC g.name (g.arg.eval ρ) = some ⟨1, mat1 (R (g.arg.eval ρ))⟩)
    (hcA : ∀ θ, compactC na θ = some ⟨1, mat1 (A θ)⟩) (hcB : ∀ θ, compactC nb θ = some ⟨1, mat1 (B θ)⟩)
    (hid : ∀ θ, A (Real.pi / 2) * B θ * A (-(Real.pi / 2)) = R θ) :
    denG N ρ [⟨na, g.targets, [], .pi8 (-4)⟩, ⟨nb, g.targets, [], g.arg⟩, ⟨na, g.targets, [], .pi8 4⟩]
      = some M := by
  obtain ⟨t, hMt, hall⟩ := semD_same_place N ρ g M hM 1 _ hcR
  have hq : ∀ (n : GName) (a : Ang), (Gate.mk n g.targets [] a).qubits = g.qubits := by
    intro n a; simp [Gate.qubits, hctl]
  have e1 : (Ang.pi8 (-4)).eval ρ = -(Real.pi / 2) := by rw [Ang.eval_pi8]; push_cast; ring
  have e2 : (Ang.pi8 4).eval ρ = Real.pi / 2 := by rw [Ang.eval_pi8]; push_cast; ring
  have h1 := hall ⟨na, g.targets, [], .pi8 (-4)⟩ (mat1 (A (-(Real.pi / 2)))) (hq _ _) (by rw [hcA]; simp only [e1])
  have h2 := hall ⟨nb, g.targets, [], g.arg⟩ (mat1 (B (g.arg.eval ρ))) (hq _ _) (by rw [hcB])
  have h3 := hall ⟨na, g.targets, [], .pi8 4⟩ (mat1 (A (Real.pi / 2))) (hq _ _) (by rw [hcA]; simp only [e2])
  rw [denG_cons_some N ρ _ _ _ _ h1 (denG_cons_some N ρ _ _ _ _ h2 (denG_cons_some N ρ _ _ _ _ h3 (denG_nil N ρ)))]
  rw [hMt, ← hid, mat1_mul, mat1_mul, Tg.embed_mul, Tg.embed_mul, Matrix.one_mul]

theorem elim1q_den (N : ℕ) (ρ : ℕ → ℝ) (b1 : List GName) (g : Gate) (M : Matrix (St N) (St N) ℂ)
    (hw : wf1 g = true) (hM : semD N ρ g = some M) : denG N ρ (elim1q b1 g) = some M := by
  unfold elim1q
  split
  · rename_i h
    have hctl : g.controls = [] := by simpa [wf1, rotXYZ, h.1] using hw
    exact elim_generic N ρ g M hctl hM Gen.G.rx_ Gen.G.ry_ Gen.G.rz_ .RY .RZ (by rw [h.1]; rfl)
      (fun _ => rfl) (fun _ => rfl) elim_RX
  · split
    · rename_i h
      have hctl : g.controls = [] := by simpa [wf1, rotXYZ, h.1] using hw
      exact elim_generic N ρ g M hctl hM Gen.G.ry_ Gen.G.rz_ Gen.G.rx_ .RZ .RX (by rw [h.1]; rfl)
        (fun _ => rfl) (fun _ => rfl) elim_RY
    · split
      · rename_i h
        have hctl : g.controls = [] := by simpa [wf1, rotXYZ, h.1] using hw
        exact elim_generic N ρ g M hctl hM Gen.G.rz_ Gen.G.rx_ Gen.G.ry_ .RX .RY (by rw [h.1]; rfl)
          (fun _ => rfl) (fun _ => rfl) elim_RZ
      · rw [denG_single]; exact hM

/-! ## the two symbolic rules of the table -/
section
open QipVerif.Gen

/-- `_gate_PHASEGATE` for every angle (symbolic, or fixed at an even multiple of π/8: the model's
template halves a fixed angle by integer division) -/
theorem phasegate_rule_den (N : ℕ) (ρ : ℕ → ℝ) (g : Gate) (M : Matrix (St N) (St N) ℂ)
    (hname : g.name = .PHASEGATE) (heven : g.arg.p8 % 2 = 0) (hM : semD N ρ g = some M)
    (out : List Gate) (hi : instBody g gate_PHASEGATE = some out) : denG N ρ out = some M := by
  have hc : compactC g.name (g.arg.eval ρ) = some ⟨1, mat1 (G.phasegate_ (g.arg.eval ρ))⟩ := by
    rw [hname]; rfl
  obtain ⟨_, _, hm, _, _, hc', _⟩ := semD_inv N ρ g M hM
  rw [hc] at hc'
  cases hc'
  obtain ⟨t, hMt, hall⟩ := semD_same_place N ρ g M hM 1 _ hc
  simp only [gate_PHASEGATE, instBody, List.mapM_cons, List.mapM_nil, TGate.inst, Sel.get] at hi
  cases h0 : g.targets[0]? with
  | none => simp [h0] at hi
  | some t0 =>
    simp [h0] at hi
    subst hi
    have hlt := (List.getElem?_eq_some_iff.mp h0).1
    have hq : g.qubits = [t0] := by
      simp only [Gate.qubits, List.length_append] at hm
      have hc0 : g.controls = [] := List.length_eq_zero_iff.mp (by omega)
      have ht1 : g.targets.length = 1 := by omega
      simp only [Gate.qubits, hc0, List.nil_append]
      obtain ⟨x, hx⟩ := List.length_eq_one_iff.mp ht1
      rw [hx] at h0 ⊢
      simpa using h0
    have h2 := hall ⟨.RZ, [t0], [], TAng.inst ⟨1, 1, 0⟩ g.arg⟩ (mat1 (G.rz_ (g.arg.eval ρ)))
      (by rw [hq]; rfl) (by simp only [eval_inst_same]; rfl)
    rw [denG_cons_some N ρ _ _ _ _ (semD_gphase N ρ _ rfl rfl) (by rw [denG_single]; exact h2)]
    simp only [eval_inst_half ρ g.arg heven]
    rw [hMt, ← rule_PHASEGATE, mat1_smul, Tg.embed_smul, Matrix.mul_smul, Matrix.mul_one]

/-- `_gate_GLOBALPHASE` copies the marker -/
theorem globalphase_rule_den (N : ℕ) (ρ : ℕ → ℝ) (g : Gate) (M : Matrix (St N) (St N) ℂ)
    (hname : g.name = .GLOBALPHASE) (hM : semD N ρ g = some M)
    (out : List Gate) (hi : instBody g gate_GLOBALPHASE = some out) : denG N ρ out = some M := by
  obtain ⟨_, rfl⟩ := semD_gphase_inv N ρ g hname M hM
  simp [gate_GLOBALPHASE, instBody, TGate.inst] at hi
  subst hi
  rw [denG_single, semD_gphase N ρ _ rfl rfl]
  simp only [eval_inst_same]

end

end Decomp
end QipVerif
