import QipVerif.Lemmas.QasmImportLocal
import QipVerif.Lemmas.QasmFlatWf
import QipVerif.Lemmas.QasmExportTop
/-!
# The imported circuit has the standard's unitary (C04) — whole programs of W₀

For every flat operation of an accepted program of W₀ the standard's expansion down to `U`/`CX`
denotes, on the `N`-qubit register, the operator `denX` of the library gates the importer adds, up
to one phase (`flat_import_den`).  Whole programs: the standard's operation list and the imported
operation list are related segment by segment (`SegRel`): same conditions (classical bits, value),
same measurements in the same places, and between them gate segments with the same unitary up to a
phase.  Without conditions and measurements this is one unitary and one global phase
(`segRel_unitary`).
-/
namespace QipVerif.Qasm.Import
open QipVerif QipVerif.Qasm QipVerif.Qasm.Export Matrix

noncomputable def xOfIOp : IOp → Option XGate
  | .gate g => some (xOfI g)
  | _ => none

theorem denX_single (N : ℕ) (g : XGate) (G : PGate N) (h : semX N g = some G) : denX N [g] = some G.den := by
  have := denX_cons N g [] G 1 h (denX_nil N)
  simpa using this

theorem denPrims_single (N : ℕ) (ρ : Str → ℝ) (p : Prim) (g : PGate N) (h : primPG N ρ p = some g) :
    denPrims N ρ [p] = some g.den := by
  simp [denPrims, List.mapM_cons, h, denP]

theorem denX_append (N : ℕ) (a b : List XGate) (A B : Matrix (St N) (St N) ℂ)
    (ha : denX N a = some A) (hb : denX N b = some B) : denX N (a ++ b) = some (B * A) := by
  simp only [denX, Option.map_eq_some_iff] at ha hb ⊢
  obtain ⟨la, hla, rfl⟩ := ha
  obtain ⟨lb, hlb, rfl⟩ := hb
  refine ⟨la ++ lb, ?_, denP_append la lb⟩
  rw [List.mapM_append, hla, hlb]
  rfl

/-! ## one flat operation -/

/-- the built-in `U` -/
theorem flat_import_U (N : ℕ) (c : Option Cond) (a b l : Expr) (q : ℕ) (hq : q < N) :
    ∃ A B, denPrims N ρ0 [Prim.U a b l q] = some A ∧
      denX N [xOfI ⟨cs!"QASMU", [q], none, .many [a, b, l], ccOf c, cvOf c⟩] = some B ∧ PhaseEqN A B := by
  have hden := qasmu_den N q hq a b l
  have hcx : compactX (xOfI ⟨cs!"QASMU", [q], none, .many [a, b, l], ccOf c, cvOf c⟩).name
      (xOfI ⟨cs!"QASMU", [q], none, .many [a, b, l], ccOf c, cvOf c⟩).args =
      some ⟨1, mat1 (Gen.G.qasmu_gate_ (a.eval ρ0) (b.eval ρ0) (l.eval ρ0))⟩ := by
    have := cx_u3 (a.eval ρ0) (b.eval ρ0) (l.eval ρ0)
    rw [qasmu_eq] at this
    exact this
  have hsem := semX_of N (xOfI ⟨cs!"QASMU", [q], none, .many [a, b, l], ccOf c, cvOf c⟩) 1 _ hcx rfl
    (by simp [xOfI]) (by simpa [xOfI] using hq)
  exact ⟨_, _, hden, denX_single N _ _ hsem, PhaseEqN.refl _⟩

/-- the built-in `CX` -/
theorem flat_import_CX (N : ℕ) (c : Option Cond) (a b : ℕ) (ha : a < N) (hb : b < N) (hab : a ≠ b) :
    ∃ A B, denPrims N ρ0 [Prim.CX a b] = some A ∧
      denX N [xOfI ⟨cs!"CNOT", [b], some [a], .none, ccOf c, cvOf c⟩] = some B ∧ PhaseEqN A B := by
  have hp : primPG N ρ0 (Prim.CX a b) = some ⟨2, tgL N [a, b] 2 rfl (by simpa using hab) (by
      intro q hq
      simp only [List.mem_cons, List.not_mem_nil, or_false] at hq
      rcases hq with rfl | rfl
      · exact ha
      · exact hb), CX2⟩ := by
    simp only [primPG]
    rw [dif_pos ⟨ha, hb, hab⟩]
  have hcx : compactX (xOfI ⟨cs!"CNOT", [b], some [a], .none, ccOf c, cvOf c⟩).name
      (xOfI ⟨cs!"CNOT", [b], some [a], .none, ccOf c, cvOf c⟩).args = some ⟨2, CX2⟩ := by
    have h1 : gnameI cs!"CNOT" = .CNOT := by decide
    show compactX (gnameI cs!"CNOT") [] = _
    rw [h1]
    show compactC .CNOT (([] : List ℝ).headD 0) = _
    rw [compactC_CNOT, CX2, ctrl1_eq]
  have hsem := semX_of N (xOfI ⟨cs!"CNOT", [b], some [a], .none, ccOf c, cvOf c⟩) 2 _ hcx rfl
    (by simpa [xOfI] using hab) (by
      intro q hq
      simp only [xOfI, Option.getD_some, List.cons_append, List.nil_append, List.mem_cons,
        List.not_mem_nil, or_false] at hq
      rcases hq with rfl | rfl
      · exact ha
      · exact hb)
  exact ⟨_, _, denPrims_single N ρ0 _ _ hp, denX_single N _ _ hsem, PhaseEqN.refl _⟩

theorem qelib_wf : qelib1.reverse.all defWf = true := by decide

/-- a call of a `qelib1.inc` gate other than `id` -/
theorem flat_import_call (N : ℕ) (c : Option Cond) (n : Str) (ps : List Expr) (t : List ℕ)
    (hs : ImportSound n) (d : GateDef) (hd : qelib1.reverse.find? (fun x => x.name == n) = some d)
    (htl : t.length = d.qargs.length) (hpl : ps.length = d.params.length) (hn : t.Nodup)
    (hr : ∀ q ∈ t, q < N) (hcv : cvBad (ccOf c) (cvOf c) = false) :
    ∃ prims g A B, expandCall qelib1.reverse n ps t = .ok prims ∧
      addPredefined n t ps (ccOf c) (cvOf c) = .ok [g] ∧ g.cctrl = ccOf c ∧ g.cval = cvOf c ∧
      denPrims N ρ0 prims = some A ∧ denX N [xOfI g] = some B ∧ PhaseEqN A B := by
  obtain ⟨d', k, lib, hd', hk, hS, hM⟩ := hs
  rw [hd] at hd'
  cases hd'
  subst hk
  obtain ⟨g, hadd, hlib, hcc, hcval, hqt, harg⟩ := hS t ps (ccOf c) (cvOf c) htl hpl hcv
  subst hqt
  obtain ⟨prims0, M, U, h0, hden0, hcx, hph⟩ := hM (ps.map (fun e => e.eval ρ0)) (by simp [hpl])
  obtain ⟨prims, hex, hden⟩ := call_den qelib1.reverse qelib_wf n d hd ps _ hpl.symm htl N hn hr prims0 h0 M hden0
  have hcx' : compactX (xOfI g).name (xOfI g).args = some ⟨d.qargs.length, U⟩ := by
    show compactX (gnameI g.name) (argsOfI g.arg) = _
    rw [hlib, harg]
    exact hcx
  have hsem := semX_of N (xOfI g) d.qargs.length U hcx' htl hn hr
  exact ⟨prims, g, _, _, hex, hadd, hcc, hcval, hden, denX_single N _ _ hsem, PhaseEqN.embed _ hph⟩

/-- a call of `id`: no gate, and the body is the identity up to a phase -/
theorem flat_import_id (N : ℕ) (c : Option Cond) (ps : List Expr) (t : List ℕ) (d : GateDef)
    (hd : qelib1.reverse.find? (fun x => x.name == cs!"id") = some d)
    (htl : t.length = d.qargs.length) (hpl : ps.length = d.params.length) (hn : t.Nodup)
    (hr : ∀ q ∈ t, q < N) :
    ∃ prims A, expandCall qelib1.reverse cs!"id" ps t = .ok prims ∧
      addPredefined cs!"id" t ps (ccOf c) (cvOf c) = .ok [] ∧
      denPrims N ρ0 prims = some A ∧ PhaseEqN A 1 := by
  have hdd : qelib1.reverse.find? (fun x => x.name == cs!"id") =
      some ⟨cs!"id", [], [cs!"a"], [.U (.lit cs!"0") (.lit cs!"0") (.lit cs!"0") cs!"a"]⟩ := by decide
  rw [hdd] at hd
  cases hd
  have hps : ps = [] := List.eq_nil_of_length_eq_zero hpl
  subst hps
  obtain ⟨prims0, M, h0, hden0, hph⟩ := is_id_M
  obtain ⟨prims, hex, hden⟩ := call_den qelib1.reverse qelib_wf cs!"id" _ hdd [] t rfl htl N hn hr prims0 h0 M hden0
  refine ⟨prims, _, hex, is_id_S t _ _ htl, hden, ?_⟩
  have := PhaseEqN.embed (tgL N t 1 htl hn hr) hph
  rwa [Tg.embed_one] at this

/-! ## whole programs -/

/-- **segment-wise correspondence** between the standard's fully expanded operations and the
operations of the imported circuit: gate segments with equal conditions and equal unitaries up to a
phase; the same measurements; barriers have no counterpart -/
inductive SegRel (N : ℕ) : List Qasm.Op → List IOp → Prop where
  | nil : SegRel N [] []
  | gates (c : Option Cond) (prims : List Prim) (gs : List IGate) (A B : Matrix (St N) (St N) ℂ)
      (rest : List Qasm.Op) (rest' : List IOp) :
      denPrims N ρ0 prims = some A → denX N (gs.map xOfI) = some B → PhaseEqN A B →
      (∀ g ∈ gs, g.cctrl = ccOf c ∧ g.cval = cvOf c) → SegRel N rest rest' →
      SegRel N (prims.map (Qasm.Op.prim c) ++ rest) (gs.map IOp.gate ++ rest')
  /-- repaired importer: built-ins under a condition that NO classical state satisfies (`k ≥ 2^n`) have no
  counterpart in the circuit -/
  | skipped (c : Cond) (prims : List Prim) (rest : List Qasm.Op) (rest' : List IOp) :
      (∀ st : ℕ → Bool, c.holds st = false) → SegRel N rest rest' →
      SegRel N (prims.map (Qasm.Op.prim (some c)) ++ rest) rest'
  | meas (q b : ℕ) (rest : List Qasm.Op) (rest' : List IOp) :
      SegRel N rest rest' → SegRel N (.measure none q b :: rest) (.meas q b :: rest')
  | barrier (qs : List ℕ) (rest : List Qasm.Op) (rest' : List IOp) :
      SegRel N rest rest' → SegRel N (.barrier qs :: rest) rest'

theorem import_sound_of_find {n : Str} {d : GateDef}
    (hd : qelib1.reverse.find? (fun x => x.name == n) = some d) (hne : n ≠ cs!"id") : ImportSound n := by
  have hmem : d ∈ qelib1 := by simpa using List.mem_of_find?_eq_some hd
  have hname : d.name = n := by simpa using List.find?_some hd
  subst hname
  exact import_sound_table d hmem hne

/-- a condition the repaired importer skips never holds -/
theorem condUnsat_never (c : Option Cond) (h : condUnsat c = true) :
    ∃ c', c = some c' ∧ ∀ st : ℕ → Bool, c'.holds st = false := by
  cases c with
  | none => simp [condUnsat] at h
  | some c' =>
    refine ⟨c', rfl, fun st => ?_⟩
    simp only [condUnsat, condSkipped, Bool.and_eq_true, decide_eq_true_eq] at h
    exact QipVerif.C04.cond_never_holds c'.bits c'.k h.2 st

theorem condWf_cvBad {c : Option Cond} (h : CondWf c) (hun : ¬ condUnsat c = true) :
    cvBad (ccOf c) (cvOf c) = false := by
  rcases h with h | h
  · exact absurd h hun
  · exact h

/-- all flat operations of a well-formed list -/
theorem flats_import_den (N : ℕ) : ∀ fl : List FlatOp, (∀ f ∈ fl, FlatWf N f) →
    ∃ ops, expandOps qelib1.reverse fl = .ok ops ∧ SegRel N ops (fl.flatMap gatesOf) := by
  intro fl
  induction fl with
  | nil => intro _; exact ⟨[], rfl, SegRel.nil⟩
  | cons f fl ih =>
    intro hall
    obtain ⟨ops, hops, hrel⟩ := ih (fun g hg => hall g (by simp [hg]))
    have hw := hall f (by simp)
    cases f with
    | U c a b l q =>
      obtain ⟨hq, hcv⟩ := hw
      obtain ⟨A, B, h1, h2, h3⟩ := flat_import_U N c a b l q hq
      refine ⟨[Prim.U a b l q].map (Qasm.Op.prim c) ++ ops, ?_, ?_⟩
      · simp [expandOps, expandOp, hops, bind, Except.bind]
      · by_cases hun : condUnsat c = true
        · obtain ⟨c', rfl, hnever⟩ := condUnsat_never c hun
          have := SegRel.skipped c' [Prim.U a b l q] ops _ hnever hrel
          simpa [List.flatMap_cons, gatesOf, hun] using this
        · have := SegRel.gates c [Prim.U a b l q] [⟨cs!"QASMU", [q], none, .many [a, b, l], ccOf c, cvOf c⟩]
            A B ops _ h1 h2 h3 (by simp) hrel
          simpa [List.flatMap_cons, gatesOf, hun] using this
    | CX c a b =>
      obtain ⟨ha, hb, hab, hcv⟩ := hw
      obtain ⟨A, B, h1, h2, h3⟩ := flat_import_CX N c a b ha hb hab
      refine ⟨[Prim.CX a b].map (Qasm.Op.prim c) ++ ops, ?_, ?_⟩
      · simp [expandOps, expandOp, hops, bind, Except.bind]
      · by_cases hun : condUnsat c = true
        · obtain ⟨c', rfl, hnever⟩ := condUnsat_never c hun
          have := SegRel.skipped c' [Prim.CX a b] ops _ hnever hrel
          simpa [List.flatMap_cons, gatesOf, hun] using this
        · have := SegRel.gates c [Prim.CX a b] [⟨cs!"CNOT", [b], some [a], .none, ccOf c, cvOf c⟩]
            A B ops _ h1 h2 h3 (by simp) hrel
          simpa [List.flatMap_cons, gatesOf, hun] using this
    | call c n ps t =>
      obtain ⟨⟨d, hd, htl, hpl⟩, hn, hr, hcv⟩ := hw
      by_cases hun : condUnsat c = true
      · -- skipped by the repaired importer: only the standard's expansion is needed
        obtain ⟨c', rfl, hnever⟩ := condUnsat_never c hun
        obtain ⟨prims, h1⟩ : ∃ prims, expandCall qelib1.reverse n ps t = .ok prims := by
          by_cases hid : n = cs!"id"
          · subst hid
            obtain ⟨prims, _, h1, _⟩ := flat_import_id N none ps t d hd htl hpl hn hr
            exact ⟨prims, h1⟩
          · obtain ⟨prims, _, _, _, h1, _⟩ :=
              flat_import_call N none n ps t (import_sound_of_find hd hid) d hd htl hpl hn hr (by simp [cvBad, ccOf, cvOf])
            exact ⟨prims, h1⟩
        refine ⟨prims.map (Qasm.Op.prim (some c')) ++ ops, ?_, ?_⟩
        · simp [expandOps, expandOp, hops, h1, bind, Except.bind]
        · have := SegRel.skipped c' prims ops _ hnever hrel
          simpa [List.flatMap_cons, gatesOf, hun] using this
      · have hcv := condWf_cvBad hcv hun
        by_cases hid : n = cs!"id"
        · subst hid
          obtain ⟨prims, A, h1, h2, h3, h4⟩ := flat_import_id N c ps t d hd htl hpl hn hr
          refine ⟨prims.map (Qasm.Op.prim c) ++ ops, ?_, ?_⟩
          · simp [expandOps, expandOp, hops, h1, bind, Except.bind]
          · have := SegRel.gates c prims [] A 1 ops _ h3 (denX_nil N) h4 (by simp) hrel
            simpa [List.flatMap_cons, gatesOf, h2, hun] using this
        · obtain ⟨prims, g, A, B, h1, h2, hcc, hcval, h3, h4, h5⟩ :=
            flat_import_call N c n ps t (import_sound_of_find hd hid) d hd htl hpl hn hr hcv
          refine ⟨prims.map (Qasm.Op.prim c) ++ ops, ?_, ?_⟩
          · simp [expandOps, expandOp, hops, h1, bind, Except.bind]
          · have := SegRel.gates c prims [g] A B ops _ h3 h4 h5 (by simp [hcc, hcval]) hrel
            simpa [List.flatMap_cons, gatesOf, h2, hun] using this
    | measure c q b =>
      have hc : c = none := hw
      subst hc
      refine ⟨Qasm.Op.measure none q b :: ops, ?_, ?_⟩
      · simp [expandOps, expandOp, hops, bind, Except.bind]
      · simpa [List.flatMap_cons, gatesOf] using SegRel.meas q b ops _ hrel
    | barrier qs =>
      refine ⟨Qasm.Op.barrier qs :: ops, ?_, ?_⟩
      · simp [expandOps, expandOp, hops, bind, Except.bind]
      · simpa [List.flatMap_cons, gatesOf] using SegRel.barrier qs ops _ hrel

/-! ## no condition, no measurement: one unitary -/

theorem opsPrims_append_inv (a b : List Qasm.Op) (p : List Prim) (h : opsPrims (a ++ b) = some p) :
    ∃ pa pb, opsPrims a = some pa ∧ opsPrims b = some pb ∧ p = pa ++ pb := by
  induction a generalizing p with
  | nil => exact ⟨[], p, rfl, by simpa using h, rfl⟩
  | cons o r ih =>
    cases o with
    | prim c g =>
      cases c with
      | none =>
        simp only [List.cons_append, opsPrims, Option.map_eq_some_iff] at h
        obtain ⟨l, hl, rfl⟩ := h
        obtain ⟨pa, pb, h1, h2, rfl⟩ := ih l hl
        exact ⟨g :: pa, pb, by simp [opsPrims, h1], h2, rfl⟩
      | some c => simp [opsPrims] at h
    | barrier qs =>
      simp only [List.cons_append, opsPrims] at h
      obtain ⟨pa, pb, h1, h2, rfl⟩ := ih p h
      exact ⟨pa, pb, by simp [opsPrims, h1], h2, rfl⟩
    | measure c q b => simp [opsPrims] at h

theorem opsPrims_map_inv (c : Option Cond) (prims pa : List Prim)
    (h : opsPrims (prims.map (Qasm.Op.prim c)) = some pa) : pa = prims := by
  cases c with
  | none => rw [opsPrims_map] at h; cases h; rfl
  | some c =>
    cases prims with
    | nil => simp [opsPrims] at h; exact h
    | cons p r => simp [opsPrims] at h

/-- **one unitary**: when the standard's expansion has neither conditions nor measurements, its
product of built-ins equals the `denX` of the imported gates up to ONE global phase -/
theorem segRel_unitary (N : ℕ) (ops : List Qasm.Op) (iops : List IOp) (h : SegRel N ops iops) :
    ∀ prims, opsPrims ops = some prims →
      ∃ A B, denPrims N ρ0 prims = some A ∧ denX N (iops.filterMap xOfIOp) = some B ∧ PhaseEqN A B := by
  induction h with
  | nil =>
    intro prims hp
    simp only [opsPrims, Option.some.injEq] at hp
    subst hp
    exact ⟨1, 1, denPrims_nil _ _, denX_nil _, PhaseEqN.refl _⟩
  | gates c prims gs A B rest rest' h1 h2 h3 _ _ ih =>
    intro p hp
    obtain ⟨pa, pb, k1, k2, rfl⟩ := opsPrims_append_inv _ _ _ hp
    have := opsPrims_map_inv c prims pa k1
    subst this
    obtain ⟨A2, B2, j1, j2, j3⟩ := ih pb k2
    refine ⟨A2 * A, B2 * B, denPrims_append _ _ _ _ _ _ h1 j1, ?_, PhaseEqN.mul j3 h3⟩
    have hf : (gs.map IOp.gate ++ rest').filterMap xOfIOp = gs.map xOfI ++ rest'.filterMap xOfIOp := by
      simp [List.filterMap_append, List.filterMap_map, Function.comp_def, xOfIOp]
    rw [hf]
    exact denX_append N _ _ _ _ h2 j2
  | skipped c prims rest rest' _ _ ih =>
    intro p hp
    obtain ⟨pa, pb, k1, k2, rfl⟩ := opsPrims_append_inv _ _ _ hp
    have := opsPrims_map_inv (some c) prims pa k1
    subst this
    cases pa with
    | nil => simpa using ih pb k2
    | cons x r => simp [opsPrims] at k1
  | meas q b rest rest' _ _ =>
    intro p hp
    simp [opsPrims] at hp
  | barrier qs rest rest' _ ih =>
    intro p hp
    simp only [opsPrims] at hp
    exact ih p hp

end QipVerif.Qasm.Import
