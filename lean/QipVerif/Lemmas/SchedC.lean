import QipVerif.Lemmas.EmbedPerm
import QipVerif.Lemmas.SchedComm
/-!
# C05: hypothesis `H1` ("gates on disjoint qubit sets commute") for complex matrices

The scheduler's instruction record `Sched.Ins` keeps only the *sorted* qubit lists of a gate, so the
operator of a gate is not a function of its `Ins`; the C05 theorems therefore interpret gates by
position, `g : ℕ → M`.  For `M = Matrix (St N) (St N) ℂ` the only thing `H1` needs is that `g i`
**acts on the used qubits of instruction `i` only**: `SupportedOn (g i) (usedSet N (ns[i]))`, i.e.
`g i = t.embed U` for some placement `t` into the used qubits and some compact matrix `U`
(any order of the qubits, any arity, any parameters).  Two such operators on disjoint sets commute
(`Tg.embed_comm_of_disjoint`).
-/
namespace QipVerif
open Matrix
variable {N : ℕ}

/-- `A` acts on the qubits in `S` only: it is some operator embedded along a placement into `S` -/
def SupportedOn (A : Matrix (St N) (St N) ℂ) (S : Set (Fin N)) : Prop :=
  ∃ (k : ℕ) (t : Tg k N) (U : Matrix (St k) (St k) ℂ), Set.range t.f ⊆ S ∧ A = t.embed U

theorem SupportedOn.embed {k : ℕ} (t : Tg k N) (U : Matrix (St k) (St k) ℂ) {S : Set (Fin N)}
    (h : Set.range t.f ⊆ S) : SupportedOn (t.embed U) S := ⟨k, t, U, h, rfl⟩

theorem SupportedOn.mono {A : Matrix (St N) (St N) ℂ} {S T : Set (Fin N)} (h : SupportedOn A S)
    (hST : S ⊆ T) : SupportedOn A T := by
  obtain ⟨k, t, U, hs, rfl⟩ := h
  exact ⟨k, t, U, hs.trans hST, rfl⟩

/-- the identity (an idle qubit, a gate the compiler drops) is supported on every set -/
theorem SupportedOn.one (S : Set (Fin N)) : SupportedOn (1 : Matrix (St N) (St N) ℂ) S := by
  refine ⟨0, ⟨Fin.elim0, fun a => a.elim0⟩, 1, ?_, (Tg.embed_one _).symm⟩
  rintro _ ⟨a, -⟩
  exact a.elim0

theorem SupportedOn.smul {A : Matrix (St N) (St N) ℂ} {S : Set (Fin N)} (c : ℂ) (h : SupportedOn A S) :
    SupportedOn (c • A) S := by
  obtain ⟨k, t, U, hs, rfl⟩ := h
  exact ⟨k, t, c • U, hs, (Tg.embed_smul t c U).symm⟩

/-- **Operators supported on disjoint sets of qubits commute.** -/
theorem SupportedOn.commute {A B : Matrix (St N) (St N) ℂ} {S T : Set (Fin N)}
    (hA : SupportedOn A S) (hB : SupportedOn B T) (hd : Disjoint S T) : Commute A B := by
  obtain ⟨k, s, U, hs, rfl⟩ := hA
  obtain ⟨m, t, V, ht, rfl⟩ := hB
  exact Tg.commute_embed_of_disjoint s t (Set.disjoint_of_subset hs ht hd) U V

namespace Sched

/-- `used_qubits` of an instruction as a set of qubits of the `N`-qubit register -/
def usedSet (N : ℕ) (a : Ins) : Set (Fin N) := {q | q.val ∈ a.used}

/-- `qubit_constraint` answers `True` (no shared qubit) ⇒ the used sets are disjoint -/
theorem disjoint_usedSet_of_share {a b : Ins} (h : share a b = false) :
    Disjoint (usedSet N a) (usedSet N b) := by
  rw [Set.disjoint_left]
  intro q hq hq'
  have : share a b = true := share_iff.mpr ⟨q.val, hq, hq'⟩
  rw [h] at this
  exact absurd this (by simp)

/-- **`H1` over ℂ**: operators supported on the used qubits of two instructions that share no
qubit commute. -/
theorem commute_of_share_false {a b : Ins} {A B : Matrix (St N) (St N) ℂ}
    (hA : SupportedOn A (usedSet N a)) (hB : SupportedOn B (usedSet N b)) (h : share a b = false) :
    Commute A B :=
  hA.commute hB (disjoint_usedSet_of_share h)

end Sched
end QipVerif
