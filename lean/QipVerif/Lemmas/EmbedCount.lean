import QipVerif.Lemmas.EmbedList
import Batteries.Data.List.Perm
namespace QipVerif.Embed

theorem filter_mem_length_le (N : Nat) (nn : List Nat) :
    ((List.range N).filter (fun q => nn.contains q)).length ≤ nn.length := by
  have hnd : ((List.range N).filter (fun q => nn.contains q)).Nodup :=
    List.Nodup.sublist List.filter_sublist List.nodup_range
  have hsub : ((List.range N).filter (fun q => nn.contains q)) ⊆ nn := by
    intro a ha; simpa using (List.mem_filter.mp ha).2
  exact (List.subperm_of_subset hnd hsub).length_le

theorem restPos_length (N : Nat) (nn : List Nat) :
    (restPos N nn).length + ((List.range N).filter (fun q => nn.contains q)).length = N := by
  have := (List.filter_append_perm (fun q => nn.contains q) (List.range N)).length_eq
  simp only [List.length_append, List.length_range] at this
  unfold restPos
  have h2 : (List.filter (fun q => !nn.contains q) (List.range N))
      = (List.filter (fun x => !(fun q => nn.contains q) x) (List.range N)) := rfl
  omega

/-- if the rest positions are not more than `N - |nn|`, then `nn` is duplicate-free -/
theorem nodup_of_restPos_le (N : Nat) (nn : List Nat) (hr : ∀ t ∈ nn, t < N)
    (h : (restPos N nn).length + nn.length ≤ N) : nn.Nodup := by
  have h1 := restPos_length N nn
  have h2 := filter_mem_length_le N nn
  have hnd : ((List.range N).filter (fun q => nn.contains q)).Nodup :=
    List.Nodup.sublist List.filter_sublist List.nodup_range
  have hsub : ((List.range N).filter (fun q => nn.contains q)) ⊆ nn := by
    intro a ha; simpa using (List.mem_filter.mp ha).2
  have hp := (List.subperm_of_subset hnd hsub).perm_of_length_le (by omega)
  exact hp.nodup hnd

theorem restPos_length_of_nodup (N : Nat) (nn : List Nat) (hn : nn.Nodup) (hr : ∀ t ∈ nn, t < N) :
    (restPos N nn).length + nn.length = N := by
  have := invOrder_length N nn hn hr
  simp only [invOrder, List.length_append] at this
  omega
theorem pyGetAll_ofNat (dims : List Nat) (ts : List Nat) (hr : ∀ t ∈ ts, t < dims.length) :
    pyGetAll dims (ts.map Int.ofNat) = some (ts.map (fun t => dims.getD t 0)) := by
  induction ts with
  | nil => rfl
  | cons t ts ih =>
    have h1 : t < dims.length := hr t (by simp)
    have h2 := ih (fun a ha => hr a (by simp [ha]))
    simp only [List.map_cons, pyGetAll, h2]
    have : pyGet dims (Int.ofNat t) = some (dims.getD t 0) := by
      simp [pyGet, h1]
    rw [this]

theorem nonneg_ofNat (ts : List Nat) : nonneg (ts.map Int.ofNat) = ts := by
  induction ts with
  | nil => rfl
  | cons t ts ih => simp [nonneg, ih]

theorem nonneg_length_le (ts : List Int) : (nonneg ts).length ≤ ts.length := by
  induction ts with
  | nil => simp [nonneg]
  | cons t ts ih => simp only [nonneg]; split <;> simp <;> omega

theorem nonneg_full (ts : List Int) (h : ts.length ≤ (nonneg ts).length) :
    ts = (nonneg ts).map Int.ofNat := by
  induction ts with
  | nil => rfl
  | cons t ts ih =>
    have hl := nonneg_length_le ts
    simp only [nonneg] at h ⊢
    split
    · rename_i h0
      simp only [h0, ↓reduceIte, List.length_cons] at h
      have := ih (by omega)
      simp only [List.map_cons, Int.ofNat_eq_natCast]
      rw [Int.toNat_of_nonneg h0]
      congr 1
    · rename_i h0
      simp only [h0, ↓reduceIte, List.length_cons] at h
      omega

theorem nonneg_lt (ts : List Int) (N : Nat) (h : ∀ t ∈ ts, t < (N : Int)) : ∀ t ∈ nonneg ts, t < N := by
  induction ts with
  | nil => simp [nonneg]
  | cons t ts ih =>
    intro a ha
    simp only [nonneg] at ha
    have ht := h t (by simp)
    have ih' := ih (fun b hb => h b (by simp [hb]))
    split at ha
    · rcases List.mem_cons.mp ha with rfl | h'
      · omega
      · exact ih' a h'
    · exact ih' a ha


end QipVerif.Embed
