import QipVerif.Model.QasmSpec
/-!
# Lexer lemmas for the strict OpenQASM 2.0 recogniser (C10)

`Lex st s out st'` — reading the text `s` from lexer state `st` completes the tokens `out`
and reaches the state `st'`.  Lemmas for concatenation, words, decimal numerals, one numeric
token, and the delimiters that follow them.
-/
namespace QipVerif.Qasm

/-! ## character classes -/

theorem char_le_iff (a c : Char) : a ≤ c ↔ a.toNat ≤ c.toNat := by
  rw [Char.le_def, UInt32.le_iff_toNat_le]; rfl
theorem isDigit_iff (c : Char) : isDigit c = true ↔ 48 ≤ c.toNat ∧ c.toNat ≤ 57 := by
  simp only [isDigit, Bool.and_eq_true, decide_eq_true_eq, char_le_iff]; rfl
theorem isLower_iff (c : Char) : isLower c = true ↔ 97 ≤ c.toNat ∧ c.toNat ≤ 122 := by
  simp only [isLower, Bool.and_eq_true, decide_eq_true_eq, char_le_iff]; rfl
theorem isUpper_iff (c : Char) : isUpper c = true ↔ 65 ≤ c.toNat ∧ c.toNat ≤ 90 := by
  simp only [isUpper, Bool.and_eq_true, decide_eq_true_eq, char_le_iff]; rfl
theorem char_eq_iff (a c : Char) : a = c ↔ a.toNat = c.toNat :=
  ⟨fun h => by rw [h], fun h => Char.toNat_inj.mp h⟩
theorem isAlpha_iff (c : Char) :
    isAlpha c = true ↔ (97 ≤ c.toNat ∧ c.toNat ≤ 122) ∨ (65 ≤ c.toNat ∧ c.toNat ≤ 90) := by
  simp only [isAlpha, Bool.or_eq_true, isLower_iff, isUpper_iff]
theorem isIdChar_iff (c : Char) :
    isIdChar c = true ↔ (97 ≤ c.toNat ∧ c.toNat ≤ 122) ∨ (65 ≤ c.toNat ∧ c.toNat ≤ 90) ∨
      (48 ≤ c.toNat ∧ c.toNat ≤ 57) ∨ c.toNat = 95 := by
  simp only [isIdChar, Bool.or_eq_true, isAlpha_iff, isDigit_iff, beq_iff_eq, char_eq_iff]
  simp; omega

/-- what `lexDelim` does with a letter / a digit -/
theorem lexDelim_alpha (p : List Tok) (c : Char) (h : isAlpha c = true) :
    lexDelim (some p) c = some (p, .word [c]) := by
  have h' := (isAlpha_iff c).mp h
  have h1 : isSpace c = false := by
    simp only [isSpace, Bool.or_eq_false_iff, beq_eq_false_iff_ne, ne_eq, char_eq_iff]; simp; omega
  have h2 : (c == '/') = false := by
    simp only [beq_eq_false_iff_ne, ne_eq, char_eq_iff]; simp; omega
  have h3 : isSymChar c = false := by
    simp only [isSymChar, Bool.or_eq_false_iff, beq_eq_false_iff_ne, ne_eq, char_eq_iff]; simp; omega
  simp [lexDelim, h1, h2, h3, h]

theorem lexDelim_digit (p : List Tok) (c : Char) (h : isDigit c = true) :
    lexDelim (some p) c = some (p, .int [c]) := by
  have h' := (isDigit_iff c).mp h
  have h1 : isSpace c = false := by
    simp only [isSpace, Bool.or_eq_false_iff, beq_eq_false_iff_ne, ne_eq, char_eq_iff]; simp; omega
  have h2 : (c == '/') = false := by
    simp only [beq_eq_false_iff_ne, ne_eq, char_eq_iff]; simp; omega
  have h3 : isSymChar c = false := by
    simp only [isSymChar, Bool.or_eq_false_iff, beq_eq_false_iff_ne, ne_eq, char_eq_iff]; simp; omega
  have h4 : isAlpha c = false := by
    cases hh : isAlpha c
    · rfl
    · have := (isAlpha_iff c).mp hh; omega
  simp [lexDelim, h1, h2, h3, h4, h]

/-! ## the relation `Lex` -/

def Lex (st : LexSt) (s : Str) (out : List Tok) (st' : LexSt) : Prop :=
  lexRun st s = some (out, st')

theorem Lex.nil (st : LexSt) : Lex st [] [] st := rfl

theorem Lex.cons {st st1 st2 : LexSt} {c : Char} {cs : Str} {o1 o2 : List Tok}
    (h1 : lexStep st c = some (o1, st1)) (h2 : Lex st1 cs o2 st2) :
    Lex st (c :: cs) (o1 ++ o2) st2 := by
  simp only [Lex, lexRun, h1] at *
  simp [h2]

theorem Lex.append {st st1 st2 : LexSt} {a b : Str} {o1 o2 : List Tok}
    (h1 : Lex st a o1 st1) (h2 : Lex st1 b o2 st2) : Lex st (a ++ b) (o1 ++ o2) st2 := by
  induction a generalizing st o1 with
  | nil =>
    simp only [Lex, lexRun, Option.some.injEq, Prod.mk.injEq] at h1
    obtain ⟨rfl, rfl⟩ := h1
    simpa using h2
  | cons c cs ih =>
    simp only [Lex, lexRun] at h1
    cases hs : lexStep st c with
    | none => simp [hs] at h1
    | some r =>
      obtain ⟨o, s1⟩ := r
      simp only [hs] at h1
      cases hr : lexRun s1 cs with
      | none => simp [hr] at h1
      | some r2 =>
        obtain ⟨o', s2⟩ := r2
        simp only [hr, Option.map_some, Option.some.injEq, Prod.mk.injEq] at h1
        obtain ⟨rfl, rfl⟩ := h1
        have := Lex.cons hs (ih (st := s1) (o1 := o') hr)
        simpa [List.append_assoc] using this

theorem lexGo_of_Lex {st st' : LexSt} {s : Str} {out p : List Tok}
    (h : Lex st s out st') (hf : st'.flush = some p) : lexGo st s = some (out ++ p) := by
  induction s generalizing st out with
  | nil =>
    simp only [Lex, lexRun, Option.some.injEq, Prod.mk.injEq] at h
    obtain ⟨rfl, rfl⟩ := h
    simp [lexGo, hf]
  | cons c cs ih =>
    simp only [Lex, lexRun] at h
    cases hs : lexStep st c with
    | none => simp [hs] at h
    | some r =>
      obtain ⟨o, s1⟩ := r
      simp only [hs] at h
      cases hr : lexRun s1 cs with
      | none => simp [hr] at h
      | some r2 =>
        obtain ⟨o', s2⟩ := r2
        simp only [hr, Option.map_some, Option.some.injEq, Prod.mk.injEq] at h
        obtain ⟨rfl, rfl⟩ := h
        simp [lexGo, hs, ih (st := s1) (out := o') hr, List.append_assoc]

/-- a line that is lexed completely, ending between tokens -/
theorem lexLine_of_Lex {s : Str} {out : List Tok} (h : Lex .idle s out .idle) :
    lexLine s = some out := by
  have := lexGo_of_Lex h (p := []) rfl
  simpa [lexLine] using this

/-! ## comments -/

theorem lex_comment (s : Str) : Lex .comment s [] .comment := by
  induction s with
  | nil => rfl
  | cons c cs ih => exact Lex.cons (c := c) (o1 := []) (by simp [lexStep]) ih

/-- a line starting with `//` has no tokens -/
theorem lexLine_comment (s : Str) : lexLine ('/' :: '/' :: s) = some [] := by
  have h : Lex .idle ('/' :: '/' :: s) ([] ++ ([] ++ [])) .comment :=
    Lex.cons (st1 := .slash) (by decide) (Lex.cons (st1 := .comment) (by decide) (lex_comment s))
  simpa [lexLine] using lexGo_of_Lex h (p := []) rfl

/-! ## words -/

/-- `[A-Za-z][A-Za-z0-9_]*` -/
def isWordStr : Str → Bool
  | [] => false
  | c :: cs => isAlpha c && cs.all isIdChar

theorem lex_word_cont (acc w : Str) (hw : w.all isIdChar = true) :
    Lex (.word acc) w [] (.word (w.reverse ++ acc)) := by
  induction w generalizing acc with
  | nil => exact Lex.nil _
  | cons c cs ih =>
    simp only [List.all_cons, Bool.and_eq_true] at hw
    have := Lex.cons (st := .word acc) (c := c) (o1 := []) (st1 := .word (c :: acc)) (by simp [lexStep, hw.1])
      (ih (c :: acc) hw.2)
    simpa using this

theorem lex_word (w : Str) (h : isWordStr w = true) : Lex .idle w [] (.word w.reverse) := by
  match w, h with
  | c :: cs, h =>
    simp only [isWordStr, Bool.and_eq_true] at h
    have := Lex.cons (st := .idle) (c := c) (o1 := []) (st1 := .word [c])
      (by simp [lexStep, lexDelim_alpha _ _ h.1]) (lex_word_cont [c] cs h.2)
    simpa using this

/-! ## decimal numerals -/

theorem digitChar_isDigit (d : Nat) : isDigit (digitChar d) = true := by
  unfold digitChar
  split <;> decide

theorem natDigitsAux_all (f n : Nat) (acc : Str) (h : acc.all isDigit = true) :
    (natDigitsAux f n acc).all isDigit = true := by
  induction f generalizing n acc with
  | zero => simpa [natDigitsAux] using h
  | succ f ih =>
    simp only [natDigitsAux]
    split
    · simp [digitChar_isDigit, h]
    · exact ih _ _ (by simp [digitChar_isDigit, h])

theorem natDigits_all (n : Nat) : (natDigits n).all isDigit = true :=
  natDigitsAux_all _ _ _ rfl

theorem natDigitsAux_ne_nil (f n : Nat) (acc : Str) : natDigitsAux (f + 1) n acc ≠ [] := by
  induction f generalizing n acc with
  | zero => simp [natDigitsAux]
  | succ f ih =>
    rw [natDigitsAux]
    split
    · simp
    · exact ih _ _

theorem natDigits_ne_nil (n : Nat) : natDigits n ≠ [] := natDigitsAux_ne_nil _ _ _

theorem lex_int_cont (acc w : Str) (hw : w.all isDigit = true) :
    Lex (.int acc) w [] (.int (w.reverse ++ acc)) := by
  induction w generalizing acc with
  | nil => exact Lex.nil _
  | cons c cs ih =>
    simp only [List.all_cons, Bool.and_eq_true] at hw
    have := Lex.cons (st := .int acc) (c := c) (o1 := []) (st1 := .int (c :: acc)) (by simp [lexStep, hw.1])
      (ih (c :: acc) hw.2)
    simpa using this

/-- a non-empty digit string read between tokens -/
theorem lex_digits (w : Str) (hne : w ≠ []) (hw : w.all isDigit = true) :
    Lex .idle w [] (.int w.reverse) := by
  match w, hne, hw with
  | c :: cs, _, hw =>
    simp only [List.all_cons, Bool.and_eq_true] at hw
    have := Lex.cons (st := .idle) (c := c) (o1 := []) (st1 := .int [c])
      (by simp [lexStep, lexDelim_digit _ _ hw.1]) (lex_int_cont [c] cs hw.2)
    simpa using this

theorem lex_natDigits (n : Nat) : Lex .idle (natDigits n) [] (.int (natDigits n).reverse) :=
  lex_digits _ (natDigits_ne_nil n) (natDigits_all n)

/-! ## the value of a decimal numeral -/

theorem digitVal_digitChar (d : Nat) (h : d < 10) : digitVal (digitChar d) = d := by
  have : d = 0 ∨ d = 1 ∨ d = 2 ∨ d = 3 ∨ d = 4 ∨ d = 5 ∨ d = 6 ∨ d = 7 ∨ d = 8 ∨ d = 9 := by omega
  rcases this with rfl | rfl | rfl | rfl | rfl | rfl | rfl | rfl | rfl | rfl <;> decide

theorem digitsVal_append_foldl (a : Nat) (s : Str) :
    s.foldl (fun a c => a * 10 + digitVal c) a = a * 10 ^ s.length + digitsVal s := by
  induction s generalizing a with
  | nil => simp [digitsVal]
  | cons c cs ih =>
    simp only [List.foldl_cons, digitsVal, List.length_cons]
    rw [ih, ih (0 * 10 + digitVal c)]
    simp [Nat.pow_succ, Nat.add_mul, Nat.mul_assoc, Nat.mul_comm 10, Nat.add_assoc]

theorem digitsVal_cons (c : Char) (s : Str) :
    digitsVal (c :: s) = digitVal c * 10 ^ s.length + digitsVal s := by
  have := digitsVal_append_foldl (digitVal c) s
  simpa [digitsVal] using this

theorem natDigitsAux_val (f n : Nat) (acc : Str) (hf : n < 10 ^ f) :
    digitsVal (natDigitsAux f n acc) = n * 10 ^ acc.length + digitsVal acc := by
  induction f generalizing n acc with
  | zero => simp at hf; subst hf; simp [natDigitsAux]
  | succ f ih =>
    simp only [natDigitsAux]
    have hmod : n % 10 < 10 := Nat.mod_lt _ (by omega)
    split
    · rename_i h0
      have h1 : n % 10 = n := by omega
      rw [digitsVal_cons, digitVal_digitChar _ hmod, h1]
    · have hlt : n / 10 < 10 ^ f := by
        rw [Nat.div_lt_iff_lt_mul (by omega)]; rw [Nat.pow_succ] at hf; omega
      rw [ih _ _ hlt, digitsVal_cons, digitVal_digitChar _ hmod]
      simp only [List.length_cons, Nat.pow_succ]
      have := Nat.div_add_mod n 10
      calc n / 10 * (10 ^ acc.length * 10) + (n % 10 * 10 ^ acc.length + digitsVal acc)
          = (10 * (n / 10) + n % 10) * 10 ^ acc.length + digitsVal acc := by
            simp [Nat.add_mul, Nat.mul_assoc, Nat.mul_comm, Nat.mul_left_comm, Nat.add_assoc]
        _ = n * 10 ^ acc.length + digitsVal acc := by rw [this]

theorem lt_ten_pow_succ (n : Nat) : n < 10 ^ (n + 1) := by
  induction n with
  | zero => decide
  | succ n ih => rw [Nat.pow_succ]; omega

/-- the numeral denotes the number -/
theorem digitsVal_natDigits (n : Nat) : digitsVal (natDigits n) = n := by
  have := natDigitsAux_val (n + 1) n [] (lt_ten_pow_succ n)
  simpa [natDigits, digitsVal] using this

/-- no leading zero: `natDigits n` is an `nninteger` -/
theorem natDigitsAux_head (f n : Nat) (acc : Str) (hf : n < 10 ^ f) (hn : 0 < n) :
    ∃ c cs, natDigitsAux f n acc = c :: cs ∧ isDigit c = true ∧ c ≠ '0' ∧
      cs.all isDigit = acc.all isDigit := by
  induction f generalizing n acc with
  | zero => simp at hf; omega
  | succ f ih =>
    simp only [natDigitsAux]
    split
    · rename_i h0
      refine ⟨digitChar (n % 10), acc, rfl, digitChar_isDigit _, ?_, rfl⟩
      have h1 : n % 10 = n := by omega
      have : n = 1 ∨ n = 2 ∨ n = 3 ∨ n = 4 ∨ n = 5 ∨ n = 6 ∨ n = 7 ∨ n = 8 ∨ n = 9 := by omega
      rw [h1]
      rcases this with rfl | rfl | rfl | rfl | rfl | rfl | rfl | rfl | rfl <;> decide
    · rename_i h0
      have hlt : n / 10 < 10 ^ f := by
        rw [Nat.div_lt_iff_lt_mul (by omega)]; rw [Nat.pow_succ] at hf; omega
      obtain ⟨c, cs, h1, h2, h3, h4⟩ := ih (n / 10) (digitChar (n % 10) :: acc) hlt (by omega)
      exact ⟨c, cs, h1, h2, h3, by simp [h4, digitChar_isDigit]⟩

theorem natDigits_isNNInt (n : Nat) : isNNInt (natDigits n) = true := by
  by_cases hn : n = 0
  · subst hn; decide
  · obtain ⟨c, cs, h1, h2, h3, h4⟩ := natDigitsAux_head (n + 1) n [] (lt_ten_pow_succ n) (by omega)
    have h1' : natDigits n = c :: cs := h1
    rw [h1']
    simp only [List.all_nil] at h4
    cases cs with
    | nil =>
      have : c ≠ '0' := h3
      simp only [isNNInt]
      split
      · simp_all
      · simp_all
      · simp_all
    | cons d ds =>
      simp only [isNNInt]
      simp [h2, h3, h4]

/-! ## delimiters after a pending token -/

/-- a pending numeral closed by `]`, `,`, `)` or `;` -/
theorem lexStep_int_sym (a : Str) (c : Char) (hc : c = ']' ∨ c = ',' ∨ c = ')' ∨ c = ';') :
    lexStep (.int a) c = some ([.nat a.reverse, .sym c], .idle) := by
  rcases hc with rfl | rfl | rfl | rfl <;>
    simp [lexStep, lexDelim, LexSt.flush, isDigit, isSpace, isSymChar]

/-- a pending word closed by a symbol or a blank -/
theorem lexStep_word_sym (a : Str) (c : Char) (hc : c = '[' ∨ c = ',' ∨ c = '(' ∨ c = ';') :
    lexStep (.word a) c = some ([.word a.reverse, .sym c], .idle) := by
  rcases hc with rfl | rfl | rfl | rfl <;> simp [lexStep, lexDelim, LexSt.flush, isIdChar, isAlpha, isLower,
    isUpper, isDigit, isSpace, isSymChar]

theorem lexStep_word_space (a : Str) :
    lexStep (.word a) ' ' = some ([.word a.reverse], .idle) := by
  simp [lexStep, lexDelim, LexSt.flush, isIdChar, isAlpha, isLower, isUpper, isDigit, isSpace]

/-- one numeric token: the state reached and what closes it -/
theorem numToken_state {s : Str} (h : isNumToken s = true) :
    ∃ st, Lex .idle s [] st ∧ (st.flush = some [.real s] ∨ (st.flush = some [.nat s] ∧ isNNInt s = true)) := by
  unfold isNumToken at h
  split at h
  · rename_i st heq
    refine ⟨st, heq, ?_⟩
    simp only [Bool.or_eq_true, Bool.and_eq_true, beq_iff_eq] at h
    exact h
  · cases h

/-- a state whose pending token is one number is closed by `,` or `)` -/
theorem lexStep_num_close (st : LexSt) (t : Tok) (hf : st.flush = some [t])
    (ht : (∃ s, t = .real s) ∨ (∃ s, t = .nat s)) (c : Char) (hc : c = ',' ∨ c = ')') :
    lexStep st c = some ([t, .sym c], .idle) := by
  cases st with
  | int a =>
    simp only [LexSt.flush, Option.some.injEq, List.cons.injEq, and_true] at hf
    subst hf
    exact lexStep_int_sym a c (by rcases hc with rfl | rfl <;> simp)
  | frac a =>
    simp only [LexSt.flush, Option.some.injEq, List.cons.injEq, and_true] at hf
    subst hf
    rcases hc with rfl | rfl <;>
      simp [lexStep, lexDelim, LexSt.flush, isDigit, isSpace, isSymChar]
  | expD a =>
    simp only [LexSt.flush, Option.some.injEq, List.cons.injEq, and_true] at hf
    subst hf
    rcases hc with rfl | rfl <;>
      simp [lexStep, lexDelim, LexSt.flush, isDigit, isSpace, isSymChar]
  | word a =>
    simp only [LexSt.flush, Option.some.injEq, List.cons.injEq, and_true] at hf
    subst hf
    rcases ht with ⟨s, hs⟩ | ⟨s, hs⟩ <;> cases hs
  | minus =>
    simp only [LexSt.flush, Option.some.injEq, List.cons.injEq, and_true] at hf
    subst hf
    rcases ht with ⟨s, hs⟩ | ⟨s, hs⟩ <;> cases hs
  | slash =>
    simp only [LexSt.flush, Option.some.injEq, List.cons.injEq, and_true] at hf
    subst hf
    rcases ht with ⟨s, hs⟩ | ⟨s, hs⟩ <;> cases hs
  | idle => simp [LexSt.flush] at hf
  | comment => simp [LexSt.flush] at hf
  | dot => simp [LexSt.flush] at hf
  | str a => simp [LexSt.flush] at hf
  | eq => simp [LexSt.flush] at hf
  | expE m e => simp [LexSt.flush] at hf
  | expS m e s => simp [LexSt.flush] at hf

/-- reading a text after a minus sign: the sign is completed first -/
theorem lex_after_minus {s : Str} {o : List Tok} {st : LexSt} (h : Lex .idle s o st)
    (hne : s ≠ []) (hgt : s.head? ≠ some '>') : Lex .minus s (.sym '-' :: o) st := by
  match s, hne with
  | c :: cs, _ =>
    simp only [Lex, lexRun] at h ⊢
    have hc : (c == '>') = false := by
      simp only [List.head?_cons, ne_eq, Option.some.injEq] at hgt
      simpa using hgt
    have e1 : lexStep .minus c = lexDelim (some [.sym '-']) c := by simp [lexStep, hc, LexSt.flush]
    have e2 : lexStep .idle c = lexDelim (some []) c := by simp [lexStep]
    rw [e1]; rw [e2] at h
    -- lexDelim with a pending prefix just prepends it
    have key : ∀ p : List Tok, lexDelim (some p) c = (lexDelim (some []) c).map (fun r => (p ++ r.1, r.2)) := by
      intro p
      simp only [lexDelim]
      repeat' split
      all_goals simp
    rw [key [.sym '-']]
    cases hd : lexDelim (some []) c with
    | none => simp [hd] at h
    | some r =>
      obtain ⟨o1, s1⟩ := r
      simp only [hd, Option.map_some] at h ⊢
      cases hr : lexRun s1 cs with
      | none => simp [hr] at h
      | some r2 =>
        obtain ⟨o2, s2⟩ := r2
        simp only [hr, Option.map_some, Option.some.injEq, Prod.mk.injEq] at h ⊢
        obtain ⟨rfl, rfl⟩ := h
        simp

end QipVerif.Qasm
