import QipVerif.Lemmas.DecompDenTop
import Mathlib.Analysis.SpecialFunctions.Complex.Log
/-! C03 — helpers for the non-vacuity example and the two witnesses showing that the side
conditions of `resolve_den_partial` are needed. -/
namespace QipVerif.Decomp
open QipVerif Matrix

/-- the denotation of a fixed-angle circuit exists as soon as its exact denotation does -/
theorem denG_isSome_of_denE (k : ℕ) (ρ : ℕ → ℝ) (gs : List Gate) (hok : gs.all ecOK = true)
    (h : (denE k gs).isSome = true) : ∃ U, denG k ρ gs = some U := by
  obtain ⟨D, hD⟩ := Option.isSome_iff_exists.mp h
  exact ⟨_, (den_EC k ρ gs D (fun g hg => List.all_eq_true.mp hok g hg) hD).1⟩

theorem exp_sixteenth_ne_one : Complex.exp (-Complex.I * ((Real.pi / 8 : ℝ) : ℂ) / 2) ≠ 1 := by
  intro h
  obtain ⟨n, hn⟩ := Complex.exp_eq_one_iff.mp h
  have hpi : (Real.pi : ℂ) ≠ 0 := by exact_mod_cast Real.pi_ne_zero
  have h1 : (32 : ℂ) * (n : ℂ) = -1 := by
    have h2 : (Real.pi : ℂ) * Complex.I * (32 * (n : ℂ) + 1) = 0 := by
      have := congrArg (fun z => 16 * z) hn
      push_cast at this
      linear_combination (-1 : ℂ) * this
    rcases mul_eq_zero.mp h2 with h3 | h3
    · exact absurd h3 (mul_ne_zero hpi Complex.I_ne_zero)
    · linear_combination h3
  have h4 : (32 : ℤ) * n = -1 := by exact_mod_cast h1
  omega

end QipVerif.Decomp
