import QipVerif.Lemmas.EmbedPerm
import QipVerif.Lemmas.MatBridge
import QipVerif.Lemmas.RouteDen
import QipVerif.Gen.GateDefs
import QipVerif.Gen.GateExtra
/-!
# C07: the interpretation of the router's gates as complex matrices, and `SwapLaws` for it

`interpC N α oth : Route.Gate → Matrix (St N) (St N) ℂ`

* a handled gate (CNOT, CSIGN; SWAP, ISWAP, SQRTSWAP, SQRTISWAP, BERKELEY, SWAPalpha) denotes
  `Tg.embed` of its compact 4×4 matrix on the ordered pair (control, target) resp.
  (first target, second target).  The compact matrices are the **exact library matrices**
  `GateE.cnot … GateE.berkeley` of `Model/Circuit.lean` (ℤ[ζ₁₆][1/2]), mapped to ℂ by `toMatD 2`
  (first qubit most significant); SWAPalpha is the generated `Gen.G.swapalpha_ (α a)` re-indexed
  to `St 2` (`mat2`), `α : ℕ → ℝ` being a valuation of the opaque `arg` labels.
  A malformed placement (wrong numbers of controls/targets, equal qubits, a qubit `≥ N`) denotes `1`;
* an unhandled gate (`other k`, `meas k`) denotes `oth g`, an **arbitrary** operator family.

`swapLaws_interpH` / `swapLaws_interpC`: the hypothesis structure `SwapLaws` of `Lemmas/RouteDen.lean`
holds (for `interpC` under the covariance of `oth` on two-qubit gates, which `SwapLaws.swap_conj`
demands of *every* two-qubit gate); `routeGate_den_C`, `toChain_den_C`: the routed circuit has the same
product of complex matrices, for every `oth` whatsoever.
-/
namespace QipVerif
open Matrix

/-! ## two-qubit compact matrices on `St 2` -/

/-- flat index of a two-qubit basis state, first qubit most significant -/
def idx2 (x : St 2) : Fin 4 :=
  if x 0 = 0 then (if x 1 = 0 then 0 else 1) else (if x 1 = 0 then 2 else 3)

/-- a 4×4 matrix as an operator on two qubits -/
noncomputable def mat2 (M : Matrix (Fin 4) (Fin 4) ℂ) : Matrix (St 2) (St 2) ℂ :=
  fun x y => M (idx2 x) (idx2 y)

theorem St2_eta (x : St 2) : x = ![x 0, x 1] := by
  funext l; fin_cases l <;> rfl

theorem enc_two (a b : Fin 2) : enc (![a, b] : St 2) = 2 * a.val + b.val := by
  simp [enc, bitsL, Embed.undigits, Embed.prodL, List.ofFn_succ]
  omega

theorem toMatD_two_apply (D : DMat) (a b c d : Fin 2) :
    toMatD 2 D ![a, b] ![c, d] =
      (1 / 2 ^ D.e) * Cyc.toC (D.m.get (2 * a.val + b.val) (2 * c.val + d.val)) := by
  simp only [toMatD, toMat, Matrix.smul_apply, smul_eq_mul, enc_two]

theorem swap_entries : ∀ a b c d : Fin 2,
    GateE.swap.m.get (2 * a.val + b.val) (2 * c.val + d.val) =
      if a = d ∧ b = c then Cyc.one else Cyc.zero := by decide

/-- the exact library SWAP is the swap matrix `SWAP2` of `Lemmas/EmbedPerm.lean` -/
theorem toMatD_swap : toMatD 2 GateE.swap = SWAP2 := by
  have key : ∀ a b c d : Fin 2, toMatD 2 GateE.swap ![a, b] ![c, d] = SWAP2 ![a, b] ![c, d] := by
    intro a b c d
    rw [toMatD_two_apply, swap_entries]
    show _ = if a = d ∧ b = c then (1 : ℂ) else 0
    have he : GateE.swap.e = 0 := rfl
    rw [he]
    by_cases h : a = d ∧ b = c
    · rw [if_pos h, if_pos h]; simp
    · rw [if_neg h, if_neg h]; simp
  ext x y
  rw [St2_eta x, St2_eta y]
  exact key _ _ _ _

instance (n : ℕ) (A : CMat) : Decidable (WF n A) := by unfold WF; infer_instance

/-- exchange symmetry decided in exact arithmetic transfers to ℂ -/
theorem exch_of_eqv (D : DMat) (hwf : WF (2 ^ 2) D.m)
    (h : DMat.eqv (DMat.mul (2 ^ 2) (DMat.mul (2 ^ 2) GateE.swap D) GateE.swap) D = true) :
    SWAP2 * toMatD 2 D * SWAP2 = toMatD 2 D := by
  have hs : WF (2 ^ 2) GateE.swap.m := by decide
  rw [← toMatD_swap, ← toMatD_mul 2 _ _ hs hwf, ← toMatD_mul 2 _ _ (WF_mul _ _ _ hs) hs]
  exact eqv_sound 2 _ _ h

theorem exch_swap : SWAP2 * toMatD 2 GateE.swap * SWAP2 = toMatD 2 GateE.swap :=
  exch_of_eqv _ (by decide) (by decide +kernel)
theorem exch_iswap : SWAP2 * toMatD 2 GateE.iswap * SWAP2 = toMatD 2 GateE.iswap :=
  exch_of_eqv _ (by decide) (by decide +kernel)
theorem exch_sqrtswap : SWAP2 * toMatD 2 GateE.sqrtswap * SWAP2 = toMatD 2 GateE.sqrtswap :=
  exch_of_eqv _ (by decide) (by decide +kernel)
theorem exch_sqrtiswap : SWAP2 * toMatD 2 GateE.sqrtiswap * SWAP2 = toMatD 2 GateE.sqrtiswap :=
  exch_of_eqv _ (by decide) (by decide +kernel)
theorem exch_berkeley : SWAP2 * toMatD 2 GateE.berkeley * SWAP2 = toMatD 2 GateE.berkeley :=
  exch_of_eqv _ (by decide) (by decide +kernel)

theorem idx2_swap (a b : Fin 2) : idx2 ((![a, b] : St 2) ∘ Equiv.swap (0 : Fin 2) 1) = idx2 ![b, a] := by
  simp [idx2]

/-- SWAPalpha is exchange-symmetric for every real `alpha` -/
theorem exch_swapalpha (alpha : ℝ) :
    SWAP2 * mat2 (Gen.G.swapalpha_ alpha) * SWAP2 = mat2 (Gen.G.swapalpha_ alpha) := by
  ext x y
  rw [SWAP2_conj_apply, St2_eta x, St2_eta y]
  simp only [mat2, idx2_swap]
  generalize x 0 = a, x 1 = b, y 0 = c, y 1 = d
  fin_cases a <;> fin_cases b <;> fin_cases c <;> fin_cases d <;> simp [idx2, Gen.G.swapalpha_]


/-! ## the interpretation -/
namespace Route
variable {N : ℕ}

/-- a two-qubit operator placed on the ordered pair of qubits `(a, b)` of an `N`-qubit register;
a malformed placement (equal qubits, a qubit `≥ N`) denotes `1` -/
noncomputable def place2 (N a b : ℕ) (U : Matrix (St 2) (St 2) ℂ) : Matrix (St N) (St N) ℂ :=
  if h : a ≠ b ∧ a < N ∧ b < N then
    (Tg.pair ⟨a, h.2.1⟩ ⟨b, h.2.2⟩ (fun e => h.1 (congrArg Fin.val e))).embed U
  else 1

theorem place2_ok {a b : ℕ} (hab : a ≠ b) (ha : a < N) (hb : b < N) (U : Matrix (St 2) (St 2) ℂ) :
    place2 N a b U = (Tg.pair ⟨a, ha⟩ ⟨b, hb⟩ (fun e => hab (congrArg Fin.val e))).embed U := by
  simp only [place2]
  rw [dif_pos ⟨hab, ha, hb⟩]

/-- compact matrix on `St 2` (controls first, then targets) of a handled gate name; `α` is the
valuation of the opaque `arg` labels (only SWAPalpha uses it) -/
noncomputable def cmp2 (α : ℕ → ℝ) (nm : GName) (arg : ℕ) : Matrix (St 2) (St 2) ℂ :=
  match nm with
  | .CNOT => toMatD 2 GateE.cnot
  | .CSIGN => toMatD 2 GateE.csign
  | .SWAP => toMatD 2 GateE.swap
  | .ISWAP => toMatD 2 GateE.iswap
  | .SQRTSWAP => toMatD 2 GateE.sqrtswap
  | .SQRTISWAP => toMatD 2 GateE.sqrtiswap
  | .BERKELEY => toMatD 2 GateE.berkeley
  | .SWAPalpha => mat2 (Gen.G.swapalpha_ (α arg))
  | .RZX => mat2 (Gen.G.cls_RZX_ (α arg))
  | .other _ => 1
  | .meas _ => 1

/-- the six exchange-type matrices are invariant under conjugation by SWAP -/
theorem cmp2_exch (α : ℕ → ℝ) (nm : GName) (arg : ℕ) (h : nm.isSwp = true) :
    SWAP2 * cmp2 α nm arg * SWAP2 = cmp2 α nm arg := by
  cases nm <;> simp only [GName.isSwp, Bool.false_eq_true] at h
  · exact exch_swap
  · exact exch_iswap
  · exact exch_sqrtiswap
  · exact exch_sqrtswap
  · exact exch_berkeley
  · exact exch_swapalpha _

/-- the expected number of controls of a gate with this name -/
def nCtl (nm : GName) : ℕ := if nm.isCtl then 1 else 0

/-- **Interpretation of the handled gates** (everything else, and every malformed gate, is `1`). -/
noncomputable def interpH (N : ℕ) (α : ℕ → ℝ) (g : Gate) : Matrix (St N) (St N) ℂ :=
  if g.controls.length = nCtl g.name then
    match g.qubits with
    | [a, b] => place2 N a b (cmp2 α g.name g.arg)
    | _ => 1
  else 1

/-- **Interpretation of the router's gates over ℂ**: handled gates by `interpH`, unhandled gates
(`other k`, `meas k`) by an arbitrary family `oth`. -/
noncomputable def interpC (N : ℕ) (α : ℕ → ℝ) (oth : Gate → Matrix (St N) (St N) ℂ) (g : Gate) :
    Matrix (St N) (St N) ℂ :=
  if Handled g then interpH N α g else oth g

/-- … for the router that also routes the ordered two-target gates (RZX, `fixes/C13-3.patch`): RZX is
`Tg.embed` of the matrix of the gate class (`Gen.G.cls_RZX_`, generated from the source) on its two
targets in the listed order -/
noncomputable def interpCV (rz : Bool) (N : ℕ) (α : ℕ → ℝ) (oth : Gate → Matrix (St N) (St N) ℂ) (g : Gate) :
    Matrix (St N) (St N) ℂ :=
  if HandledV rz g then interpH N α g else oth g

theorem interpCV_false (α : ℕ → ℝ) (oth : Gate → Matrix (St N) (St N) ℂ) :
    interpCV false N α oth = interpC N α oth := by
  funext g
  by_cases h : Handled g
  · simp only [interpCV, interpC, if_pos h, if_pos ((handledV_false g).mpr h)]
  · simp only [interpCV, interpC, if_neg h, if_neg (fun hv => h ((handledV_false g).mp hv))]

theorem interpH_two (α : ℕ → ℝ) {g : Gate} {a b : ℕ} (hc : g.controls.length = nCtl g.name)
    (hq : g.qubits = [a, b]) : interpH N α g = place2 N a b (cmp2 α g.name g.arg) := by
  simp only [interpH, if_pos hc, hq]

theorem interpH_bad (α : ℕ → ℝ) {g : Gate} (hc : ¬ g.controls.length = nCtl g.name) :
    interpH N α g = 1 := by
  simp only [interpH, if_neg hc]

/-- the SWAP gate the router emits -/
theorem interpH_swapG (α : ℕ → ℝ) (i j : ℕ) : interpH N α (swapG i j) = place2 N i j SWAP2 := by
  rw [interpH_two α (a := i) (b := j) rfl rfl]
  simp only [swapG, cmp2, toMatD_swap]

theorem interpH_ctl (α : ℕ → ℝ) (nm : GName) (h : nm.isCtl = true) (c t a x : ℕ) :
    interpH N α ⟨nm, [c], [t], a, x⟩ = place2 N c t (cmp2 α nm a) :=
  interpH_two α (by simp [nCtl, h]) rfl

theorem interpH_swp (α : ℕ → ℝ) (nm : GName) (h : nm.isSwp = true) (t0 t1 a x : ℕ) :
    interpH N α ⟨nm, [], [t0, t1], a, x⟩ = place2 N t0 t1 (cmp2 α nm a) :=
  interpH_two α (by simp [nCtl, isCtl_false_of_isSwp h]) rfl

/-- on the two-qubit register, the placement on `(0, 1)` is the identity: the interpretation of a
gate there *is* its compact matrix (sanity of the conventions) -/
theorem pair_embed_self (U : Matrix (St 2) (St 2) ℂ) (h : (0 : Fin 2) ≠ 1) :
    (Tg.pair (0 : Fin 2) 1 h).embed U = U := by
  ext x y
  rw [Tg.embed_apply]
  have e : ∀ z : St 2, z ∘ (Tg.pair (0 : Fin 2) 1 h).f = z := by
    intro z; funext l; fin_cases l <;> rfl
  have hc : ∀ i : Fin 2, i ∉ Set.range (Tg.pair (0 : Fin 2) 1 h).f → x i = y i := by
    intro i hi
    exfalso; apply hi
    rw [Tg.mem_range_pair]
    fin_cases i
    · exact Or.inl rfl
    · exact Or.inr rfl
  rw [e x, e y, if_pos hc, mul_one]

theorem interpH_cnot_two (α : ℕ → ℝ) : interpH 2 α ⟨.CNOT, [0], [1], 0, 0⟩ = toMatD 2 GateE.cnot := by
  rw [interpH_ctl α .CNOT rfl, place2_ok (by decide) (by decide) (by decide)]
  exact pair_embed_self _ _

/-! ## `SwapLaws` -/

theorem swapAt_fin {i j x : ℕ} (hi : i < N) (hj : j < N) (hx : x < N) :
    (⟨swapAt i j x, swapAt_lt hi hj hx⟩ : Fin N) = Equiv.swap (⟨i, hi⟩ : Fin N) ⟨j, hj⟩ ⟨x, hx⟩ := by
  rw [Equiv.swap_apply_def]
  unfold swapAt
  simp only [Fin.mk.injEq]
  split_ifs <;> rfl

theorem Tg.pair_congr {a b a' b' : Fin N} (h : a ≠ b) (ha : a = a') (hb : b = b') :
    Tg.pair a b h = Tg.pair a' b' (ha ▸ hb ▸ h) := by
  subst ha; subst hb; rfl

theorem place2_swap_sq {i j : ℕ} (hi : i < N) (hj : j < N) (hij : i ≠ j) :
    place2 N i j SWAP2 * place2 N i j SWAP2 = 1 := by
  rw [place2_ok hij hi hj, embed_swap_sq]

/-- conjugation by the placed SWAP relabels a placed two-qubit operator by the transposition -/
theorem place2_swap_conj {i j x y : ℕ} (hi : i < N) (hj : j < N) (hij : i ≠ j)
    (hx : x < N) (hy : y < N) (hxy : x ≠ y) (U : Matrix (St 2) (St 2) ℂ) :
    place2 N i j SWAP2 * place2 N x y U * place2 N i j SWAP2 =
      place2 N (swapAt i j x) (swapAt i j y) U := by
  rw [place2_ok hij hi hj, place2_ok hxy hx hy,
    place2_ok (fun e => hxy (swapAt_inj e)) (swapAt_lt hi hj hx) (swapAt_lt hi hj hy),
    embed_swap_conj, Tg.pair_map]
  congr 1
  exact (Tg.pair_congr _ (swapAt_fin hi hj hx) (swapAt_fin hi hj hy)).symm

/-- **`SwapLaws` holds for the complex interpretation of the handled gates.** -/
theorem swapLaws_interpH (N : ℕ) (α : ℕ → ℝ) : SwapLaws N (interpH N α) where
  swap_sq := by
    intro i j hi hj hij
    rw [interpH_swapG, place2_swap_sq hi hj hij]
  swap_conj := by
    intro i j hi hj hij g hg
    obtain ⟨x, y, hq, hxy, hx, hy⟩ := hg
    have hq' : (g.relabel (swapAt i j)).qubits = [swapAt i j x, swapAt i j y] := by
      rw [relabel_qubits, hq]; rfl
    have hl : (g.relabel (swapAt i j)).controls.length = g.controls.length := by
      simp [Gate.relabel]
    rw [interpH_swapG]
    by_cases hc : g.controls.length = nCtl g.name
    · rw [interpH_two α hc hq, interpH_two α (g := g.relabel (swapAt i j)) (by rw [hl]; exact hc) hq']
      exact place2_swap_conj hi hj hij hx hy hxy _
    · rw [interpH_bad α hc, interpH_bad α (g := g.relabel (swapAt i j)) (by rw [hl]; exact hc), mul_one,
        place2_swap_sq hi hj hij]
  exch_symm := by
    intro nm x y a k hnm hx hy hxy
    rw [interpH_swp α nm hnm, interpH_swp α nm hnm, place2_ok hxy hx hy, place2_ok hxy.symm hy hx]
    exact embed_exchange_symm _ (cmp2_exch α nm a hnm) _ _ _

/-- `SwapLaws` for the full interpretation, if the family of the unhandled gates is covariant on
two-qubit gates (`SwapLaws.swap_conj` speaks about every two-qubit gate, handled or not; the
routing theorems below do not need this). -/
theorem swapLaws_interpC (N : ℕ) (α : ℕ → ℝ) (oth : Gate → Matrix (St N) (St N) ℂ)
    (hoth : ∀ i j, i < N → j < N → i ≠ j → ∀ g, ¬ Handled g → TwoQ N g →
      place2 N i j SWAP2 * oth g * place2 N i j SWAP2 = oth (g.relabel (swapAt i j))) :
    SwapLaws N (interpC N α oth) where
  swap_sq := by
    intro i j hi hj hij
    have : Handled (swapG i j) := Or.inr rfl
    simp only [interpC, if_pos this]
    exact (swapLaws_interpH N α).swap_sq i j hi hj hij
  swap_conj := by
    intro i j hi hj hij g hg
    have hsw : Handled (swapG i j) := Or.inr rfl
    have hrel : Handled (g.relabel (swapAt i j)) ↔ Handled g := Iff.rfl
    by_cases hh : Handled g
    · simp only [interpC, if_pos hsw, if_pos hh, if_pos (hrel.mpr hh)]
      exact (swapLaws_interpH N α).swap_conj i j hi hj hij g hg
    · simp only [interpC, if_pos hsw, if_neg hh, if_neg (fun h => hh (hrel.mp h)), interpH_swapG]
      exact hoth i j hi hj hij g hh hg
  exch_symm := by
    intro nm x y a k hnm hx hy hxy
    have h1 : Handled ⟨nm, [], [x, y], a, k⟩ := Or.inr hnm
    have h2 : Handled ⟨nm, [], [y, x], a, k⟩ := Or.inr hnm
    simp only [interpC, if_pos h1, if_pos h2]
    exact (swapLaws_interpH N α).exch_symm nm x y a k hnm hx hy hxy

/-! ## the routed circuit has the same product of complex matrices -/

theorem den_congr {M : Type} [Monoid M] (f f' : Gate → M) (l : List Gate) (h : ∀ g ∈ l, f g = f' g) :
    den f l = den f' l := by
  induction l with
  | nil => rfl
  | cons g l ih =>
    simp only [den]
    rw [ih (fun g hg => h g (List.mem_cons_of_mem _ hg)), h g (List.mem_cons_self ..)]

/-- **One handled gate, over ℂ**: the product of the matrices of the routed gates is the matrix of
the gate — for every register size, every `setup`, every valuation `α`, every family `oth` and every
valuation `fire` of the classical conditions (`condInterp`; `fire = fun _ => true` is the plain
interpretation).  `cc = false` (conditions dropped by the router) needs a gate without condition. -/
theorem routeGateV_den_C (α : ℕ → ℝ) (oth : Gate → Matrix (St N) (St N) ℂ) (fire : ℕ → Bool) (cc rz : Bool)
    (setup : Setup) (g : Gate) (hw : WellFormedV rz N g) (hh : HandledV rz g)
    (hp : PlainArg g) (hx : cc = false → g.extra = 0) (out : List Gate)
    (ho : routeGateV (.rep cc rz) N setup g = .ok out) :
    den (condInterp fire (interpCV rz N α oth)) out = condInterp fire (interpCV rz N α oth) g := by
  have hall := routeGateV_out_handled cc rz N setup g hw hh out ho
  have hcong : ∀ h, HandledV rz h → condInterp fire (interpCV rz N α oth) h = condInterp fire (interpH N α) h := by
    intro h hh'
    simp only [condInterp, interpCV, if_pos hh']
  rw [den_congr _ (condInterp fire (interpH N α)) out (fun h hm => hcong h (hall h hm)),
    routeGateV_den ((swapLaws_interpH N α).cond fire) cc rz setup g hw hh hp hx out ho]
  exact (hcong g hh).symm

/-- **A whole circuit, over ℂ**, under every valuation of the classical conditions. -/
theorem toChainV_den_C (α : ℕ → ℝ) (oth : Gate → Matrix (St N) (St N) ℂ) (fire : ℕ → Bool) (cc rz : Bool)
    (setup : Setup) (gs : List Gate) (hw : ∀ g ∈ gs, WellFormedV rz N g)
    (hp : ∀ g ∈ gs, HandledV rz g → PlainArg g) (hx : cc = false → ∀ g ∈ gs, HandledV rz g → g.extra = 0)
    (out : List Gate) (ho : toChainV (.rep cc rz) N setup gs = .ok out) :
    den (condInterp fire (interpCV rz N α oth)) out = den (condInterp fire (interpCV rz N α oth)) gs := by
  induction gs generalizing out with
  | nil =>
    have : out = [] := toChainV_nil ho
    rw [this]
  | cons g gs ih =>
    obtain ⟨a, b, ha, hb, rfl⟩ := (toChainV_cons ..).mp ho
    have hb' := ih (fun g hg => hw g (List.mem_cons_of_mem _ hg))
      (fun g hg => hp g (List.mem_cons_of_mem _ hg))
      (fun h g hg => hx h g (List.mem_cons_of_mem _ hg)) b hb
    rw [den_append, hb', den]
    congr 1
    by_cases hh : HandledV rz g
    · exact routeGateV_den_C α oth fire cc rz setup g (hw g (List.mem_cons_self ..)) hh
        (hp g (List.mem_cons_self ..) hh) (fun h => hx h g (List.mem_cons_self ..) hh) a ha
    · rw [routeGateV_other hh] at ha; cases ha
      simp [den]

theorem condInterp_true {M : Type} [Monoid M] (interp : Gate → M) :
    condInterp (fun _ => true) interp = interp := by
  funext g; simp [condInterp]

/-- the instances for `routeGate` / `toChain` (`Variant.fixed`), the two documented setups and the
plain interpretation -/
theorem routeGate_den_C (α : ℕ → ℝ) (oth : Gate → Matrix (St N) (St N) ℂ) (setup : Setup)
    (_hs : setup = .linear ∨ setup = .circular) (g : Gate) (hw : WellFormed N g) (hh : Handled g)
    (hp : Plain g) (out : List Gate) (ho : routeGate N setup g = .ok out) :
    den (interpC N α oth) out = interpC N α oth g := by
  have := routeGateV_den_C α oth (fun _ => true) false false setup g ((wellFormedV_false N g).mpr hw)
    ((handledV_false g).mpr hh) hp.2 (fun _ => hp.1) out ho
  rwa [condInterp_true, interpCV_false] at this

theorem toChain_den_C (α : ℕ → ℝ) (oth : Gate → Matrix (St N) (St N) ℂ) (setup : Setup)
    (_hs : setup = .linear ∨ setup = .circular) (gs : List Gate) (hw : ∀ g ∈ gs, WellFormed N g)
    (hp : ∀ g ∈ gs, Handled g → Plain g) (out : List Gate) (ho : toChain N setup gs = .ok out) :
    den (interpC N α oth) out = den (interpC N α oth) gs := by
  have := toChainV_den_C α oth (fun _ => true) false false setup gs
    (fun g hg => (wellFormedV_false N g).mpr (hw g hg)) (fun g hg hh => (hp g hg ((handledV_false g).mp hh)).2)
    (fun _ g hg hh => (hp g hg ((handledV_false g).mp hh)).1) out ho
  rwa [condInterp_true, interpCV_false] at this

end Route
end QipVerif
