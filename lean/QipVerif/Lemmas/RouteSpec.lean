import QipVerif.Lemmas.RouteLoop
/-!
# C07: what the (repaired) router emits for one handled gate

`Routed setup N a b out S G`: `out = swaps S ++ G :: swaps S.reverse`, every swap of `S` is in
range and acts on neighbours of the topology, and the images of `a`, `b` under `S` are neighbours.
`routeCtl_specV` / `routeSwp_specV` establish it for every `N`, every `setup` (any string other than
"linear" is routed on the ring, `Setup.eff`), every ordered pair of distinct in-range qubits, every
handled name, and both values of the flag `ccFix` (`fixes/C07-5.patch`: the routed gate keeps the
classical condition); `routeCtl_spec` / `routeSwp_spec` are the instances for the two documented
setups and `Variant.fixed`.
-/
namespace QipVerif.Route

/-- shape and side conditions of a routed two-qubit gate on qubits `a`, `b` -/
structure Routed (setup : Setup) (N a b : Nat) (out : List Gate) (S : List (Nat × Nat)) (G : Gate) : Prop where
  out_eq : out = swaps S ++ G :: swaps S.reverse
  swaps_ok : ∀ p ∈ S, p.1 < N ∧ p.2 < N ∧ p.1 ≠ p.2 ∧ Adj setup N p.1 p.2
  adj : Adj setup N (track S a) (track S b)

theorem Adj.symm {setup : Setup} {N i j : Nat} (h : Adj setup N i j) : Adj setup N j i := by
  unfold Adj at *
  rcases h with h | h | ⟨hc, h | h⟩
  · exact Or.inr (Or.inl h)
  · exact Or.inl h
  · exact Or.inr (Or.inr ⟨hc, Or.inr h⟩)
  · exact Or.inr (Or.inr ⟨hc, Or.inl h⟩)

theorem Routed.symm {setup : Setup} {N a b : Nat} {out : List Gate} {S : List (Nat × Nat)} {G : Gate}
    (h : Routed setup N a b out S G) : Routed setup N b a out S G :=
  ⟨h.out_eq, h.swaps_ok, h.adj.symm⟩

/-! ## forward path -/

theorem fwd_spec (setup : Setup) (N : Nat) (mk : Nat → Nat → Gate) (s e : Nat) (hse : s < e) (heN : e < N) :
    ∃ S, fwd mk mk s e = swaps S ++ mk (track S s) (track S e) :: swaps S.reverse ∧
      track S e = track S s + 1 ∧
      ∀ p ∈ S, p.1 < N ∧ p.2 < N ∧ p.1 ≠ p.2 ∧ Adj setup N p.1 p.2 := by
  obtain ⟨S, lo, h1, h2, h3, -, -, h6⟩ := loop_closed mk s e hse
  refine ⟨S, ?_, by omega, ?_⟩
  · rw [h2, h3]; exact h1
  · intro p hp
    have := h6 p hp
    unfold Adj
    omega

/-! ## backward path around the ring -/

theorem reidxFrom_append (f : Nat → Gate → Gate) (j : Nat) (l₁ l₂ : List Gate) :
    reidxFrom f j (l₁ ++ l₂) = reidxFrom f j l₁ ++ reidxFrom f (j + l₁.length) l₂ := by
  induction l₁ generalizing j with
  | nil => simp [reidxFrom]
  | cons g l ih =>
    have : j + (l.length + 1) = j + 1 + l.length := by omega
    simp [reidxFrom, ih, this]

theorem reidxFrom_swaps (f : Nat → Gate → Gate) (φ : Nat → Nat)
    (hf : ∀ j a b, f j (swapG a b) = swapG (φ a) (φ b)) (j : Nat) (T : List (Nat × Nat)) :
    reidxFrom f j (swaps T) = swaps (T.map (fun p => (φ p.1, φ p.2))) := by
  induction T generalizing j with
  | nil => rfl
  | cons p T ih => simp [swaps, reidxFrom, hf] at ih ⊢; exact ih _

/-- `(e + q) % N` for `e, q < N` without `%` -/
theorem add_mod_small {N e q : Nat} (he : e < N) (hq : q < N) :
    (e + q) % N = if e + q < N then e + q else e + q - N := by
  split
  · exact Nat.mod_eq_of_lt ‹_›
  · rw [Nat.mod_eq_sub_mod (by omega), Nat.mod_eq_of_lt (by omega)]

theorem bwd_spec (N : Nat) (mk mk' : Nat → Nat → Gate) (f : Nat → Gate → Gate) (s e : Nat)
    (hse : s < e) (heN : e < N)
    (hf_swap : ∀ j a b, f j (swapG a b) = swapG ((e + a) % N) ((e + b) % N))
    (hf_mk : ∀ j lo hi, f j (mk lo hi) = mk' ((e + lo) % N) ((e + hi) % N)) :
    ∃ S, reidxFrom f 0 (tempCirc mk mk (N + s - e)) = swaps S ++ mk' (track S e) (track S s) :: swaps S.reverse ∧
      Adj .circular N (track S e) (track S s) ∧
      ∀ p ∈ S, p.1 < N ∧ p.2 < N ∧ p.1 ≠ p.2 ∧ Adj .circular N p.1 p.2 := by
  obtain ⟨T, lo, h1, h2, h3, -, h5, h6⟩ := loop_closed mk 0 (N + s - e) (by omega)
  obtain ⟨φ, hdef⟩ : ∃ φ : Nat → Nat, ∀ q, φ q = (e + q) % N := ⟨_, fun _ => rfl⟩
  have hf_swap' : ∀ j a b, f j (swapG a b) = swapG (φ a) (φ b) := by
    intro j a b; rw [hdef, hdef]; exact hf_swap j a b
  have hf_mk' : ∀ j lo hi, f j (mk lo hi) = mk' (φ lo) (φ hi) := by
    intro j lo hi; rw [hdef, hdef]; exact hf_mk j lo hi
  have hφ : ∀ q, q ≤ N + s - e → φ q = if e + q < N then e + q else e + q - N := by
    intro q hq; rw [hdef]; exact add_mod_small heN (by omega)
  have hinj : ∀ x y, x ≤ N + s - e → y ≤ N + s - e → φ x = φ y → x = y := by
    intro x y hx hy h
    rw [hφ x hx, hφ y hy] at h
    split at h <;> split at h <;> omega
  have hT : ∀ p ∈ T, p.1 ≤ N + s - e ∧ p.2 ≤ N + s - e := by
    intro p hp; have := h6 p hp; omega
  have t0 := track_map φ (· ≤ N + s - e) hinj T hT 0 (by omega)
  have tL := track_map φ (· ≤ N + s - e) hinj T hT (N + s - e) (by omega)
  have e0 : φ 0 = e := by rw [hφ 0 (by omega)]; simp [heN]
  have eL : φ (N + s - e) = s := by rw [hφ _ (by omega)]; split <;> omega
  rw [e0, h2] at t0
  rw [eL, h3] at tL
  refine ⟨T.map (fun p => (φ p.1, φ p.2)), ?_, ?_, ?_⟩
  · simp only [tempCirc, Nat.sub_zero] at h1 ⊢
    rw [h1, reidxFrom_append, reidxFrom_swaps f φ hf_swap', t0.1, tL.1]
    simp only [reidxFrom, hf_mk', Nat.zero_add]
    rw [← List.map_reverse, reidxFrom_swaps f φ hf_swap']
  · rw [t0.1, tL.1, hφ lo (by omega), hφ (lo + 1) (by omega)]
    unfold Adj
    simp only [eq_self, true_and]
    split <;> split <;> omega
  · intro p hp
    obtain ⟨q, hq, rfl⟩ := List.mem_map.mp hp
    have := h6 q hq
    simp only
    rw [hφ q.1 (by omega), hφ q.2 (by omega)]
    unfold Adj
    simp only [eq_self, true_and]
    split <;> split <;> omega

/-! ## re-indexing in the repaired code does not depend on the counter `j` -/

theorem rep_modFix (cc rz : Bool) : (Variant.rep cc rz).modFix = true := rfl
theorem rep_roleFix (cc rz : Bool) : (Variant.rep cc rz).roleFix = true := rfl
theorem rep_argFix (cc rz : Bool) : (Variant.rep cc rz).argFix = true := rfl
theorem rep_measFix (cc rz : Bool) : (Variant.rep cc rz).measFix = true := rfl
theorem rep_cond (cc rz : Bool) (g : Gate) : (Variant.rep cc rz).cond g = if cc then g.extra else 0 := rfl
theorem rep_rzFix (cc rz : Bool) : (Variant.rep cc rz).rzFix = rz := rfl
theorem fixed_cond (g : Gate) : Variant.fixed.cond g = 0 := rfl

theorem reidxCtl1_swapG (cc rz : Bool) (N e j a b : Nat) :
    reidxCtl1 (.rep cc rz) N e j (swapG a b) = swapG ((e + a) % N) ((e + b) % N) := by
  cases cc <;> simp [reidxCtl1, swapG, GName.isCtl, lowIdx, Variant.rep, Variant.cond]

/-- the copy of the routed gate keeps its condition `x` (`x = 0` when conditions are dropped) -/
theorem reidxCtl1_mkCtl (cc rz : Bool) (N e j : Nat) (nm : GName) (hnm : nm.isCtl = true) (x : Nat)
    (hx : cc = false → x = 0) (b : Bool) (lo hi : Nat) :
    reidxCtl1 (.rep cc rz) N e j (mkCtl nm x b lo hi) = mkCtl nm x b ((e + lo) % N) ((e + hi) % N) := by
  cases cc
  · have := hx rfl; subst this
    cases b <;> simp [reidxCtl1, mkCtl, hnm, lowIdx, Variant.rep, Variant.cond]
  · cases b <;> simp [reidxCtl1, mkCtl, hnm, lowIdx, Variant.rep, Variant.cond]

theorem reidxSwp1_swapG (cc rz : Bool) (N e j a b : Nat) :
    reidxSwp1 (.rep cc rz) N e j (swapG a b) = swapG ((e + a) % N) ((e + b) % N) := by
  cases cc <;> simp [reidxSwp1, swapG, lowIdx, Variant.rep, Variant.cond]

theorem reidxSwp1_mkSwp (cc rz : Bool) (N e j : Nat) (nm : GName) (a x : Nat) (hx : cc = false → x = 0)
    (lo hi : Nat) :
    reidxSwp1 (.rep cc rz) N e j (mkSwp nm a x lo hi) = mkSwp nm a x ((e + lo) % N) ((e + hi) % N) := by
  cases cc
  · have := hx rfl; subst this
    simp [reidxSwp1, mkSwp, lowIdx, Variant.rep, Variant.cond]
  · simp [reidxSwp1, mkSwp, lowIdx, Variant.rep, Variant.cond]

theorem reidxSwp1_mkOrd (cc rz : Bool) (N e j : Nat) (nm : GName) (a x : Nat) (hx : cc = false → x = 0)
    (fl : Bool) (lo hi : Nat) :
    reidxSwp1 (.rep cc rz) N e j (mkOrd nm a x fl lo hi) = mkOrd nm a x fl ((e + lo) % N) ((e + hi) % N) := by
  cases cc
  · have := hx rfl; subst this
    cases fl <;> simp [reidxSwp1, mkOrd, lowIdx, Variant.rep, Variant.cond]
  · cases fl <;> simp [reidxSwp1, mkOrd, lowIdx, Variant.rep, Variant.cond]

theorem cond_zero_of_not_cc (cc rz : Bool) (g : Gate) : cc = false → (Variant.rep cc rz).cond g = 0 := by
  intro h; subst h; rfl

/-! ## the two kinds of handled gates -/

/-- The topology on which a `setup` string is routed: `"linear"` on the open chain, `"circular"` on
the ring — and **any other string** on the ring too, always through the wrap-around pair (the
conditions `setup == "linear"` / `setup == "circular"` of the forward path are both false). -/
def Setup.eff : Setup → Setup
  | .linear => .linear
  | _ => .circular

theorem Setup.eff_of_doc {setup : Setup} (hs : setup = .linear ∨ setup = .circular) : setup.eff = setup := by
  rcases hs with rfl | rfl <;> rfl

theorem fixed_modFix : Variant.fixed.modFix = true := rfl
theorem fixed_roleFix : Variant.fixed.roleFix = true := rfl
theorem fixed_argFix : Variant.fixed.argFix = true := rfl
theorem fixed_measFix : Variant.fixed.measFix = true := rfl

/-- CNOT / CSIGN with control `c`, target `t`: the routed gate keeps the roles (and, with C07-5, the
classical condition).  Every `setup`. -/
theorem routeCtl_specV (cc rz : Bool) (N : Nat) (setup : Setup)
    (g : Gate) (c t : Nat) (hnm : g.name.isCtl = true) (hC : g.controls = [c]) (hT : g.targets = [t])
    (hct : c ≠ t) (hc : c < N) (ht : t < N) :
    ∃ out S, routeCtl (.rep cc rz) N setup g c t = .ok out ∧
      Routed setup.eff N c t out S ⟨g.name, [track S c], [track S t], 0, (Variant.rep cc rz).cond g⟩ := by
  -- the two orientations
  obtain ⟨s, e, ce, hmin, hmax, hce, hse, heN, hr⟩ :
      ∃ s e ce, min t c = s ∧ max t c = e ∧ (e == c) = ce ∧ s < e ∧ e < N ∧
        ((ce = true ∧ e = c ∧ s = t) ∨ (ce = false ∧ s = c ∧ e = t)) := by
    rcases Nat.lt_or_gt_of_ne hct with h | h
    · refine ⟨c, t, false, by omega, by omega, ?_, h, ht, Or.inr ⟨rfl, rfl, rfl⟩⟩
      simp; omega
    · exact ⟨t, c, true, by omega, by omega, by simp, h, hc, Or.inl ⟨rfl, rfl, rfl⟩⟩
  generalize hx : (Variant.rep cc rz).cond g = x
  have hx0 : cc = false → x = 0 := fun h => by rw [← hx]; exact cond_zero_of_not_cc cc rz g h
  simp only [routeCtl, hmin, hmax, hce, rep_roleFix, if_true, hx]
  by_cases hfw : setup = .linear ∨ (setup = .circular ∧ e - s ≤ N / 2)
  · rw [if_pos hfw]
    obtain ⟨S, h1, h2, h3⟩ := fwd_spec setup.eff N (mkCtl g.name x ce) s e hse heN
    refine ⟨_, S, rfl, ?_⟩
    rcases hr with ⟨rfl, rfl, rfl⟩ | ⟨rfl, rfl, rfl⟩
    · exact ⟨by rw [h1]; rfl, h3, by unfold Adj; omega⟩
    · exact ⟨by rw [h1]; rfl, h3, by unfold Adj; omega⟩
  · rw [if_neg hfw]
    have hcirc : setup.eff = .circular := by
      cases setup
      · exact absurd (Or.inl rfl) hfw
      · rfl
      · rfl
    rw [hcirc]
    by_cases hlt : e - s + 1 < N
    · rw [if_pos hlt]
      obtain ⟨S, h1, h2, h3⟩ := bwd_spec N (mkCtl g.name x (!ce)) (mkCtl g.name x (!ce)) (reidxCtl1 (.rep cc rz) N e) s e
        hse heN (reidxCtl1_swapG cc rz N e) (fun j lo hi => reidxCtl1_mkCtl cc rz N e j g.name hnm x hx0 (!ce) lo hi)
      refine ⟨_, S, rfl, ?_⟩
      rcases hr with ⟨rfl, rfl, rfl⟩ | ⟨rfl, rfl, rfl⟩
      · exact ⟨by rw [h1]; rfl, h3, h2⟩
      · exact ⟨by rw [h1]; rfl, h3, h2.symm⟩
    · rw [if_neg hlt, if_pos (by omega), hC, hT]
      refine ⟨_, [], rfl, ⟨rfl, by simp, ?_⟩⟩
      simp only [track]
      unfold Adj
      simp only [eq_self, true_and]
      rcases hr with ⟨-, rfl, rfl⟩ | ⟨-, rfl, rfl⟩ <;> omega

/-- exchange-type gate — or, with C13-3, an ordered two-target gate (RZX) — on targets `[t0, t1]`: the
routed gate acts on the images of the two qubits; an ordered gate lists them in the order of its
targets, an exchange-type gate in one of the two orders.  Every `setup`. -/
theorem routeSwp_specV (cc rz : Bool) (N : Nat) (setup : Setup)
    (g : Gate) (t0 t1 : Nat) (h01 : t0 ≠ t1) (h0 : t0 < N) (h1 : t1 < N) :
    ∃ S p q, Routed setup.eff N t0 t1 (routeSwp (.rep cc rz) N setup g t0 t1) S
        ⟨g.name, [], [p, q], g.arg, (Variant.rep cc rz).cond g⟩ ∧
      ((p = track S t0 ∧ q = track S t1) ∨
        ((rz && g.name.isOrd) = false ∧ p = track S t1 ∧ q = track S t0)) := by
  obtain ⟨s, e, hmin, hmax, hse, heN, hr⟩ :
      ∃ s e, min t0 t1 = s ∧ max t0 t1 = e ∧ s < e ∧ e < N ∧ ((s = t0 ∧ e = t1) ∨ (s = t1 ∧ e = t0)) := by
    rcases Nat.lt_or_gt_of_ne h01 with h | h
    · exact ⟨t0, t1, by omega, by omega, h, h1, Or.inl ⟨rfl, rfl⟩⟩
    · exact ⟨t1, t0, by omega, by omega, h, h0, Or.inr ⟨rfl, rfl⟩⟩
  generalize hx : (Variant.rep cc rz).cond g = x
  have hx0 : cc = false → x = 0 := fun h => by rw [← hx]; exact cond_zero_of_not_cc cc rz g h
  generalize hord : (rz && g.name.isOrd) = ord
  simp only [routeSwp, hmin, hmax, rep_argFix, rep_rzFix, if_true, hx, hord]
  by_cases hfw : setup = .linear ∨ (setup = .circular ∧ e - s ≤ N / 2)
  · rw [if_pos hfw]
    obtain ⟨S, e1, e2, e3⟩ := fwd_spec setup.eff N (mkOrd g.name g.arg x (ord && (t0 == e))) s e hse heN
    rcases hr with ⟨rfl, rfl⟩ | ⟨rfl, rfl⟩
    · have hf : (ord && (s == e)) = false := by
        have : (s == e) = false := by simp; omega
        simp [this]
      rw [hf] at e1 ⊢
      exact ⟨S, track S s, track S e, ⟨by rw [e1]; rfl, e3, by unfold Adj; omega⟩, Or.inl ⟨rfl, rfl⟩⟩
    · have hf : (ord && (e == e)) = ord := by simp
      rw [hf] at e1 ⊢
      cases ord
      · exact ⟨S, track S s, track S e, ⟨by rw [e1]; rfl, e3, by unfold Adj; omega⟩, Or.inr ⟨rfl, rfl, rfl⟩⟩
      · exact ⟨S, track S e, track S s, ⟨by rw [e1]; rfl, e3, by unfold Adj; omega⟩, Or.inl ⟨rfl, rfl⟩⟩
  · rw [if_neg hfw]
    have hcirc : setup.eff = .circular := by
      cases setup
      · exact absurd (Or.inl rfl) hfw
      · rfl
      · rfl
    rw [hcirc]
    obtain ⟨S, e1, e2, e3⟩ := bwd_spec N (mkOrd g.name g.arg x (ord && (t0 == s))) (mkOrd g.name g.arg x (ord && (t0 == s)))
      (reidxSwp1 (.rep cc rz) N e) s e
      hse heN (reidxSwp1_swapG cc rz N e) (fun j lo hi => reidxSwp1_mkOrd cc rz N e j g.name g.arg x hx0 _ lo hi)
    rcases hr with ⟨rfl, rfl⟩ | ⟨rfl, rfl⟩
    · have hf : (ord && (s == s)) = ord := by simp
      rw [hf] at e1 ⊢
      cases ord
      · exact ⟨S, track S e, track S s, ⟨by rw [e1]; rfl, e3, e2.symm⟩, Or.inr ⟨rfl, rfl, rfl⟩⟩
      · exact ⟨S, track S s, track S e, ⟨by rw [e1]; rfl, e3, e2.symm⟩, Or.inl ⟨rfl, rfl⟩⟩
    · have hf : (ord && (e == s)) = false := by
        have : (e == s) = false := by simp; omega
        simp [this]
      rw [hf] at e1 ⊢
      exact ⟨S, track S e, track S s, ⟨by rw [e1]; rfl, e3, e2⟩, Or.inl ⟨rfl, rfl⟩⟩

/-! ### the two documented setups, conditions dropped (`Variant.fixed`) -/

theorem routeCtl_spec (N : Nat) (setup : Setup) (hs : setup = .linear ∨ setup = .circular)
    (g : Gate) (c t : Nat) (hnm : g.name.isCtl = true) (hC : g.controls = [c]) (hT : g.targets = [t])
    (hct : c ≠ t) (hc : c < N) (ht : t < N) :
    ∃ out S, routeCtl .fixed N setup g c t = .ok out ∧
      Routed setup N c t out S ⟨g.name, [track S c], [track S t], 0, 0⟩ := by
  have := routeCtl_specV false false N setup g c t hnm hC hT hct hc ht
  rwa [Setup.eff_of_doc hs] at this

theorem routeSwp_spec (N : Nat) (setup : Setup) (hs : setup = .linear ∨ setup = .circular)
    (g : Gate) (t0 t1 : Nat) (h01 : t0 ≠ t1) (h0 : t0 < N) (h1 : t1 < N) :
    ∃ S p q, Routed setup N t0 t1 (routeSwp .fixed N setup g t0 t1) S ⟨g.name, [], [p, q], g.arg, 0⟩ ∧
      ((p = track S t0 ∧ q = track S t1) ∨ (p = track S t1 ∧ q = track S t0)) := by
  obtain ⟨S, p, q, h2, h3⟩ := routeSwp_specV false false N setup g t0 t1 h01 h0 h1
  rw [Setup.eff_of_doc hs] at h2
  refine ⟨S, p, q, h2, ?_⟩
  rcases h3 with h | ⟨-, h⟩
  · exact Or.inl h
  · exact Or.inr h

end QipVerif.Route
