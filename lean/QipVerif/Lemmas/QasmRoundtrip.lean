import QipVerif.Lemmas.QasmImportTop
/-!
# Export then import (C10): circuits whose gates all have a `qelib1.inc` name or `U`

For such a circuit the exporter emits no gate definition, the exported program is a program of the
class W₀ of C04, and `export_den_ops` composed with the import theorem gives: the re-imported gate
list has the unitary of the original circuit up to one global phase.
-/
namespace QipVerif.Qasm.Export
open QipVerif QipVerif.Qasm QipVerif.Qasm.Import Matrix

theorem PhaseEqN.symm {N : ℕ} {A B : Matrix (St N) (St N) ℂ} (h : PhaseEqN A B) : PhaseEqN B A := by
  obtain ⟨α, rfl⟩ := h
  refine ⟨-α, ?_⟩
  rw [smul_smul, ← Complex.exp_add]
  have : Complex.I * ((-α : ℝ) : ℂ) + Complex.I * (α : ℂ) = 0 := by push_cast; ring
  rw [this, Complex.exp_zero, one_smul]

theorem divZero_numExpr (x : Num) : divZero (numExpr x) = false := by
  unfold numExpr; split <;> rfl

theorem isOp_stmtOf (g : Gate) : isOp (stmtOf g) = true := by
  unfold stmtOf
  simp only []
  split <;> rfl

theorem paramsOf_stmtOf (g : Gate) : ∀ e ∈ paramsOf (stmtOf g), divZero e = false := by
  intro e he
  unfold stmtOf at he
  simp only [] at he
  split at he
  · simp only [paramsOf, List.mem_cons, List.not_mem_nil, or_false] at he
    have hpi : divZero Expr.pi = false := rfl
    have key : ∀ i, divZero ((List.map numExpr (argNums g.arg)).getD i Expr.pi) = false := by
      intro i
      rw [List.getD_eq_getElem?_getD]
      cases hx : (List.map numExpr (argNums g.arg))[i]? with
      | none => exact hpi
      | some y =>
        have hm := List.mem_of_getElem? hx
        obtain ⟨x, _, rfl⟩ := List.mem_map.mp hm
        exact divZero_numExpr x
    rcases he with rfl | rfl | rfl <;> exact key _
  · simp only [paramsOf] at he
    obtain ⟨x, _, rfl⟩ := List.mem_map.mp he
    exact divZero_numExpr x

/-- the exported program of a circuit without emitted definitions is a program of W₀ -/
theorem programOf_W0 (c : Circuit) (hN : 0 < c.N) (hb : addedNames c.ops Gen.gateNameToQasm = []) :
    W0 (programOf c) := by
  have hshape : programOf c = .version :: .incl cs!"qelib1.inc" ::
      ((.qreg cs!"q" c.N :: (if c.numCbits ≠ 0 then [.creg cs!"c" c.numCbits] else [])) ++
        c.ops.filterMap stmtOfOp) := by
    simp [programOf, hb]
  have hops : ∀ s ∈ c.ops.filterMap stmtOfOp, ∃ g, s = stmtOf g := by
    intro s hs
    obtain ⟨op, _, hop⟩ := List.mem_filterMap.mp hs
    cases op with
    | gate g => exact ⟨g, by simpa [stmtOfOp] using hop.symm⟩
    | _ => simp [stmtOfOp] at hop
  refine ⟨⟨_, _, hshape, ?_, ?_⟩, ?_⟩
  · by_cases hM : c.numCbits = 0
    · simp [hM, isDecl, hN]
    · simp [hM, isDecl, hN]
  · rw [List.all_eq_true]
    intro s hs
    obtain ⟨g, rfl⟩ := hops s hs
    exact isOp_stmtOf g
  · intro s hs e he
    rw [hshape] at hs
    simp only [List.mem_cons, List.mem_append] at hs
    rcases hs with rfl | rfl | (rfl | hs) | hs
    · cases he
    · cases he
    · cases he
    · by_cases hM : c.numCbits = 0
      · simp [hM] at hs
      · simp only [hM, ne_eq, not_false_eq_true, if_true, List.mem_singleton] at hs
        subst hs; cases he
    · obtain ⟨g, rfl⟩ := hops s hs
      exact paramsOf_stmtOf g e he

theorem programOf_ifRange (c : Circuit) (hb : addedNames c.ops Gen.gateNameToQasm = []) (env : Env) :
    ∀ s ∈ programOf c, ifRangeOk env s := by
  intro s hs
  have hshape : programOf c = .version :: .incl cs!"qelib1.inc" ::
      ((.qreg cs!"q" c.N :: (if c.numCbits ≠ 0 then [.creg cs!"c" c.numCbits] else [])) ++
        c.ops.filterMap stmtOfOp) := by
    simp [programOf, hb]
  rw [hshape] at hs
  simp only [List.mem_cons, List.mem_append] at hs
  rcases hs with rfl | rfl | (rfl | hs) | hs
  · trivial
  · trivial
  · trivial
  · by_cases hM : c.numCbits = 0
    · simp [hM] at hs
    · simp only [hM, ne_eq, not_false_eq_true, if_true, List.mem_singleton] at hs
      subst hs; trivial
  · obtain ⟨op, _, hop⟩ := List.mem_filterMap.mp hs
    cases op with
    | gate g =>
      have : s = stmtOf g := by simpa [stmtOfOp] using hop.symm
      subst this
      unfold stmtOf
      simp only []
      split <;> trivial
    | _ => simp [stmtOfOp] at hop

/-- **Export, then import: the same unitary.**  Circuits of the exportable class whose gates all carry
a name of the exporter's base table (no definition is emitted), on at least one qubit. -/
theorem roundtrip_den_base (c : Circuit) (hc : GoodCircuit c) (hN : 0 < c.N)
    (hb : addedNames c.ops Gen.gateNameToQasm = []) :
    ∃ lines P iops A B, exportCore c = .ok lines ∧ parseLines lines = some P ∧
      importProgram P = .ok (c.N, (cregsOf c.numCbits).total, iops) ∧
      denX c.N (c.ops.filterMap xOfOp) = some A ∧ denX c.N (iops.filterMap xOfIOp) = some B ∧
      PhaseEqN B A := by
  obtain ⟨lines, P, ops, A0, B0, h1, h2, h3, h4, h5, h6⟩ := export_den_ops c hc
  have hP : P = programOf c := by
    obtain ⟨lines', k1, k2⟩ := export_parse c hc
    rw [h1] at k1; cases k1
    rw [h2] at k2; cases k2; rfl
  subst hP
  have hfl := flatten_programOf c hc
  obtain ⟨prims, hp, _⟩ : ∃ prims, opsPrims ops = some prims ∧ denPrims c.N ρ0 prims = some A0 := by
    simp only [denOps] at h4
    cases hpp : opsPrims ops with
    | none => simp [hpp] at h4
    | some prims => exact ⟨prims, rfl, by simpa [hpp] using h4⟩
  have hw := programOf_W0 c hN hb
  have hk := programOf_ifRange c hb (finalEnv c)
  have hflat : flatten (programOf c) = .ok (finalEnv c, c.ops.filterMap flatOfOp) := hfl
  obtain ⟨ops', iops, hd', hi, hrel⟩ : ∃ ops' iops,
      denote (programOf c) = .ok ((finalEnv c).qregs.total, (finalEnv c).cregs.total, ops') ∧
      importProgram (programOf c) = .ok ((finalEnv c).qregs.total, (finalEnv c).cregs.total, iops) ∧
      SegRel (finalEnv c).qregs.total ops' iops := by
    obtain ⟨hg, hwf⟩ := flatten_wf _ hw _ _ hflat hk
    obtain ⟨ops', hops, hrel⟩ := flats_import_den (finalEnv c).qregs.total _ hwf
    refine ⟨ops', _, ?_, import_refines _ hw _ _ hflat hk, hrel⟩
    simp only [denote, hflat, bind, Except.bind, hg, hops]
  have hNq : (finalEnv c).qregs.total = c.N := by simp [finalEnv, qregsOf]
  have hNc : (finalEnv c).cregs.total = (cregsOf c.numCbits).total := rfl
  rw [hNq, hNc] at hd' hi
  rw [hNq] at hrel
  rw [h3] at hd'
  simp only [Except.ok.injEq, Prod.mk.injEq, true_and] at hd'
  subst hd'
  obtain ⟨A1, B1, j1, j2, j3⟩ := segRel_unitary _ _ _ hrel prims hp
  have hA : A1 = A0 := by
    have : denOps c.N ops = some A1 := by simp [denOps, hp, j1]
    rw [h4] at this; cases this; rfl
  subst hA
  exact ⟨lines, programOf c, iops, B0, B1, h1, h2, hi, h5, j2, PhaseEqN.trans (PhaseEqN.symm j3) h6⟩

end QipVerif.Qasm.Export
