import QipVerif.Lemmas.SimBorn
import Mathlib.Analysis.SpecialFunctions.Pow.Real
import Mathlib.LinearAlgebra.Matrix.ConjTranspose
import Mathlib.Data.Matrix.Mul
/-!
# The ideal backend on `ℂ`-vectors with `measurement_statistics`' normalisation and the tolerance pruning, and the
# unnormalised branch vector `ψ_r`

`idealBackend N tol U`: gate `code qs` acts by the matrix `U code qs`; a measurement of qubit `t` with outcome `o`
has probability `p = ‖P_o ψ‖²` (the state held by the simulator is normalised), is pruned (`(0, None)`) when
`p ≤ tol`, and otherwise collapses to `P_o ψ / √p`.

`specRun`: the same operations applied WITHOUT any normalisation: gates where the condition holds, one projector
per measurement.  `branch_inv`: along every record the simulator's accumulated probability is `‖ψ_r‖²` and its state
is `ψ_r / ‖ψ_r‖`.
-/
namespace QipVerif.Sim
open Finset Matrix

variable {N : ℕ}

/-- projector with natural-number arguments (identity for a qubit outside the register: never asked) -/
noncomputable def projN (t o : ℕ) (ψ : Vec N) : Vec N :=
  if h : t < N then projV ⟨t, h⟩ (outcome o) ψ else ψ

/-- scaling by a real number -/
noncomputable def scaleV (c : ℝ) (ψ : Vec N) : Vec N := fun x => (c : ℂ) * ψ x

theorem normSqV_scale (c : ℝ) (ψ : Vec N) : normSqV (scaleV c ψ) = c ^ 2 * normSqV ψ := by
  unfold normSqV scaleV
  rw [Finset.mul_sum]
  apply Finset.sum_congr rfl
  intro x _
  rw [Complex.normSq_mul, Complex.normSq_ofReal]
  ring

theorem projN_scale (t o : ℕ) (c : ℝ) (ψ : Vec N) : projN t o (scaleV c ψ) = scaleV c (projN t o ψ) := by
  unfold projN
  by_cases h : t < N
  · simp only [h, ↓reduceDIte]
    funext x
    unfold projV scaleV
    by_cases hx : x ⟨t, h⟩ = outcome o <;> simp [hx]
  · simp [h]

theorem projN_zero (t o : ℕ) : projN t o (0 : Vec N) = 0 := by
  unfold projN
  by_cases h : t < N
  · simp only [h, ↓reduceDIte]; funext x; unfold projV; simp
  · simp [h]

theorem normSqV_zero : normSqV (0 : Vec N) = 0 := by simp [normSqV]

theorem normSqV_nonneg' (ψ : Vec N) : 0 ≤ normSqV ψ :=
  Finset.sum_nonneg (fun x _ => Complex.normSq_nonneg _)

theorem eq_zero_of_normSqV (ψ : Vec N) (h : normSqV ψ = 0) : ψ = 0 := by
  funext x
  have := (Finset.sum_eq_zero_iff_of_nonneg (fun y _ => Complex.normSq_nonneg (ψ y))).mp h x (Finset.mem_univ x)
  exact Complex.normSq_eq_zero.mp this

theorem born_splitN (t : ℕ) (ht : t < N) (ψ : Vec N) :
    normSqV (projN t 0 ψ) + normSqV (projN t 1 ψ) = normSqV ψ := by
  unfold projN
  simp only [ht, ↓reduceDIte]
  exact born_split ⟨t, ht⟩ ψ

theorem mulVec_scale (M : Matrix (Basis N) (Basis N) ℂ) (c : ℝ) (ψ : Vec N) :
    M.mulVec (scaleV c ψ) = scaleV c (M.mulVec ψ) := by
  have : scaleV c ψ = (c : ℂ) • ψ := by funext x; simp [scaleV]
  rw [this, Matrix.mulVec_smul]
  funext x; simp [scaleV]

/-- a unitary matrix preserves `‖·‖²` -/
theorem unitary_isometry (M : Matrix (Basis N) (Basis N) ℂ) (h : Mᴴ * M = 1) (ψ : Vec N) :
    normSqV (M.mulVec ψ) = normSqV ψ := by
  have key : ∀ v : Vec N, (normSqV v : ℂ) = star v ⬝ᵥ v := by
    intro v
    unfold normSqV dotProduct
    push_cast
    apply Finset.sum_congr rfl
    intro x _
    rw [Complex.normSq_eq_conj_mul_self]
    rfl
  have h1 : star (M.mulVec ψ) ⬝ᵥ M.mulVec ψ = star ψ ⬝ᵥ ψ := by
    rw [Matrix.star_mulVec, Matrix.dotProduct_mulVec, Matrix.vecMul_vecMul, h, Matrix.vecMul_one]
  have := (key (M.mulVec ψ)).trans (h1.trans (key ψ).symm)
  exact_mod_cast this

/-! ## The backend -/

/-- the ideal backend: Born probabilities of the normalised state, pruning at `tol = atol²`, collapsed state
normalised as `measurement_statistics` does -/
noncomputable def idealBackend (N : ℕ) (tol : ℝ) (U : ℕ → List ℕ → Matrix (Basis N) (Basis N) ℂ) : Backend (Vec N) ℝ where
  gate := fun code qs ψ => (U code qs).mulVec ψ
  dephase := fun _ ψ => ψ
  meas := fun t ψ o =>
    if normSqV (projN t o ψ) ≤ tol then (0, none)
    else (normSqV (projN t o ψ), some (scaleV (Real.sqrt (normSqV (projN t o ψ)))⁻¹ (projN t o ψ)))

/-! ## The unnormalised branch vector -/

structure SpecSt (N : ℕ) where
  bits : Option (List Int)
  v : Vec N
  rest : List Int

/-- one operation on the unnormalised vector: the gate where its condition holds, the projector of the recorded
outcome for a measurement -/
noncomputable def specStep (U : ℕ → List ℕ → Matrix (Basis N) (Basis N) ℂ) (s : SpecSt N) : Op → SpecSt N
  | .gate g => if firesB g s.bits then { s with v := (U g.code g.qubits).mulVec s.v } else s
  | .meas t store =>
    match s.rest with
    | i :: rest => { bits := writeBit s.bits store i, v := projN t i.toNat s.v, rest := rest }
    | [] => s

noncomputable def specRun (U : ℕ → List ℕ → Matrix (Basis N) (Basis N) ℂ) (s : SpecSt N) (ops : List Op) : SpecSt N :=
  ops.foldl (specStep U) s

/-- the pruning threshold does not cut a branch of non-zero probability: at every measurement along the record the
conditional probability `‖P ψ_r‖²/‖ψ_r‖²` is `0` or larger than `tol` -/
def NoTiny (tol : ℝ) (U : ℕ → List ℕ → Matrix (Basis N) (Basis N) ℂ) : SpecSt N → List Op → Prop
  | _, [] => True
  | s, .gate g :: ops => NoTiny tol U (specStep U s (.gate g)) ops
  | s, .meas t store :: ops =>
    (match s.rest with
     | i :: _ => normSqV s.v = 0 ∨ normSqV (projN t i.toNat s.v) = 0 ∨
                 tol < normSqV (projN t i.toNat s.v) / normSqV s.v
     | [] => True) ∧ NoTiny tol U (specStep U s (.meas t store)) ops

/-- the relation between the simulator's branch state and the unnormalised vector -/
def BInv (b : Br (Vec N) ℝ) (s : SpecSt N) : Prop :=
  b.prob = normSqV s.v ∧
  ((∃ φ, b.st = some φ ∧ 0 < normSqV s.v ∧ φ = scaleV (Real.sqrt (normSqV s.v))⁻¹ s.v ∧
      b.bits = s.bits ∧ b.rest = s.rest) ∨
   (b.st = none ∧ s.v = 0))

theorem binv_step (tol : ℝ) (htol : 0 ≤ tol) (U : ℕ → List ℕ → Matrix (Basis N) (Basis N) ℂ)
    (hU : ∀ code qs ψ, normSqV ((U code qs).mulVec ψ) = normSqV ψ) (b : Br (Vec N) ℝ) (s : SpecSt N) (op : Op)
    (h : BInv b s) (hbin : ∀ i ∈ s.rest, i = 0 ∨ i = 1)
    (hnt : match op with
      | .gate _ => True
      | .meas t _ => match s.rest with
        | i :: _ => normSqV s.v = 0 ∨ normSqV (projN t i.toNat s.v) = 0 ∨
                    tol < normSqV (projN t i.toNat s.v) / normSqV s.v
        | [] => True) :
    BInv (brStep (idealBackend N tol U) b op) (specStep U s op) := by
  obtain ⟨hp, hcase⟩ := h
  rcases hcase with ⟨φ, hst, hpos, hφ, hbits, hrest⟩ | ⟨hst, hv⟩
  · -- alive
    cases op with
    | gate g =>
      simp only [brStep, specStep, hst, hbits]
      by_cases hf : firesB g s.bits = true
      · simp only [hf, ↓reduceIte]
        refine ⟨by rw [hU]; exact hp, Or.inl ⟨_, rfl, by rw [hU]; exact hpos, ?_, rfl, hrest⟩⟩
        simp only [idealBackend]
        rw [hφ, mulVec_scale, hU]
      · simp only [hf, Bool.false_eq_true, ↓reduceIte]
        exact ⟨hp, Or.inl ⟨φ, hst, hpos, hφ, hbits, hrest⟩⟩
    | meas t store =>
      cases hr : s.rest with
      | nil =>
        simp only [brStep, specStep, hst, hrest, hr]
        exact ⟨hp, Or.inl ⟨φ, hst, hpos, hφ, hbits, by rw [hrest, hr]⟩⟩
      | cons i rest =>
        rw [hr] at hnt
        simp only at hnt
        simp only [brStep, specStep, hst, hrest, hr, hbits]
        set n0 := normSqV s.v with hn0
        set c := Real.sqrt n0 with hc
        have hcpos : 0 < c := Real.sqrt_pos.mpr hpos
        have hpφ : projN t i.toNat φ = scaleV c⁻¹ (projN t i.toNat s.v) := by rw [hφ, projN_scale]
        have hnφ : normSqV (projN t i.toNat φ) = normSqV (projN t i.toNat s.v) / n0 := by
          rw [hpφ, normSqV_scale, inv_pow, Real.sq_sqrt (le_of_lt hpos)]
          field_simp
        simp only [idealBackend]
        by_cases hle : normSqV (projN t i.toNat φ) ≤ tol
        · -- pruned: by the threshold hypothesis the probability is exactly 0
          simp only [hle, ↓reduceIte]
          have hz : normSqV (projN t i.toNat s.v) = 0 := by
            rcases hnt with h0 | h0 | h0
            · exact absurd h0 (ne_of_gt hpos)
            · exact h0
            · rw [← hnφ] at h0; exact absurd hle (not_le.mpr h0)
          have hv0 := eq_zero_of_normSqV _ hz
          exact ⟨by rw [hz, mul_zero], Or.inr ⟨rfl, hv0⟩⟩
        · simp only [hle, ↓reduceIte]
          have hgt : tol < normSqV (projN t i.toNat φ) := not_le.mp hle
          have hppos : 0 < normSqV (projN t i.toNat s.v) := by
            have : 0 < normSqV (projN t i.toNat s.v) / n0 := by rw [← hnφ]; exact lt_of_le_of_lt htol hgt
            exact (div_pos_iff_of_pos_right hpos).mp this
          refine ⟨?_, Or.inl ⟨_, rfl, hppos, ?_, rfl, rfl⟩⟩
          · rw [hp, hnφ]; field_simp
          · show scaleV (Real.sqrt (normSqV (projN t i.toNat φ)))⁻¹ (projN t i.toNat φ)
              = scaleV (Real.sqrt (normSqV (projN t i.toNat s.v)))⁻¹ (projN t i.toNat s.v)
            rw [hnφ, hpφ]
            funext x
            unfold scaleV
            rw [← mul_assoc]
            congr 1
            rw [← Complex.ofReal_mul]
            congr 1
            rw [Real.sqrt_div (le_of_lt hppos), ← hc]
            field_simp
  · -- pruned earlier: nothing changes on the simulator's side, the vector stays 0
    have hb : brStep (idealBackend N tol U) b op = b := by
      cases op <;> simp [brStep, hst]
    rw [hb]
    refine ⟨?_, Or.inr ⟨hst, ?_⟩⟩
    · rw [hp, hv]
      cases op with
      | gate g =>
        simp only [specStep]
        split
        · simp only; rw [hv, Matrix.mulVec_zero]
        · rw [hv]
      | meas t store =>
        simp only [specStep]
        split
        · simp only; rw [hv, projN_zero]
        · rw [hv]
    · cases op with
      | gate g =>
        simp only [specStep]
        split
        · simp only; rw [hv, Matrix.mulVec_zero]
        · exact hv
      | meas t store =>
        simp only [specStep]
        split
        · simp only; rw [hv, projN_zero]
        · exact hv

/-- **Along a whole run** the simulator's branch state and the unnormalised vector stay related. -/
theorem binv_run (tol : ℝ) (htol : 0 ≤ tol) (U : ℕ → List ℕ → Matrix (Basis N) (Basis N) ℂ)
    (hU : ∀ code qs ψ, normSqV ((U code qs).mulVec ψ) = normSqV ψ) :
    ∀ (ops : List Op) (b : Br (Vec N) ℝ) (s : SpecSt N), BInv b s → (∀ i ∈ s.rest, i = 0 ∨ i = 1) →
      NoTiny tol U s ops → BInv (brRun (idealBackend N tol U) b ops) (specRun U s ops) := by
  intro ops
  induction ops with
  | nil => intro b s h _ _; exact h
  | cons op ops ih =>
    intro b s h hbin hnt
    have hbin' : ∀ i ∈ (specStep U s op).rest, i = 0 ∨ i = 1 := by
      cases op with
      | gate g => simp only [specStep]; split <;> exact hbin
      | meas t store =>
        simp only [specStep]
        cases hr : s.rest with
        | nil => simp only; intro j hj; exact hbin j hj
        | cons i rest => simp only; intro j hj; exact hbin j (by rw [hr]; exact List.mem_cons_of_mem _ hj)
    simp only [brRun, specRun, List.foldl_cons]
    cases op with
    | gate g =>
      exact ih _ _ (binv_step tol htol U hU b s (.gate g) h hbin trivial) hbin' hnt
    | meas t store =>
      exact ih _ _ (binv_step tol htol U hU b s (.meas t store) h hbin hnt.1) hbin' hnt.2

theorem specStep_gate_rest (U : ℕ → List ℕ → Matrix (Basis N) (Basis N) ℂ) (s : SpecSt N) (g : Gate) (r : List Int) :
    specStep U { s with rest := r } (.gate g) = { specStep U s (.gate g) with rest := r } := by
  simp only [specStep]
  split <;> rfl

theorem specStep_gate_norm (U : ℕ → List ℕ → Matrix (Basis N) (Basis N) ℂ)
    (hU : ∀ code qs ψ, normSqV ((U code qs).mulVec ψ) = normSqV ψ) (s : SpecSt N) (g : Gate) :
    normSqV (specStep U s (.gate g)).v = normSqV s.v := by
  simp only [specStep]
  split
  · exact hU _ _ _
  · rfl

/-- **`Σ_r ‖ψ_r‖² = ‖ψ‖²`**: the squared norms of the unnormalised branch vectors of all `2^m` records add up to the
squared norm of the initial vector — by `born_split` at every measurement and unitarity at every gate. -/
theorem spec_norms_sum (U : ℕ → List ℕ → Matrix (Basis N) (Basis N) ℂ)
    (hU : ∀ code qs ψ, normSqV ((U code qs).mulVec ψ) = normSqV ψ) :
    ∀ (ops : List Op) (s : SpecSt N), (∀ t store, Op.meas t store ∈ ops → t < N) →
      ((records (numMeasOps ops)).map (fun r => normSqV (specRun U { s with rest := r } ops).v)).sum = normSqV s.v := by
  intro ops
  induction ops with
  | nil => intro s _; simp [numMeasOps, records, specRun]
  | cons op ops ih =>
    intro s ht
    have ht' : ∀ t store, Op.meas t store ∈ ops → t < N := fun t st h => ht t st (List.mem_cons_of_mem _ h)
    cases op with
    | gate g =>
      rw [numMeasOps_gate]
      have : ∀ r, specRun U { s with rest := r } (Op.gate g :: ops) =
          specRun U { specStep U s (.gate g) with rest := r } ops := by
        intro r; simp only [specRun, List.foldl_cons]; rw [specStep_gate_rest]
      simp only [this]
      rw [ih (specStep U s (.gate g)) ht', specStep_gate_norm U hU]
    | meas t store =>
      rw [numMeasOps_meas]
      have htN : t < N := ht t store (List.mem_cons_self ..)
      have hstep : ∀ (i : Int) (r : List Int), specRun U { s with rest := i :: r } (Op.meas t store :: ops) =
          specRun U { ({ bits := writeBit s.bits store i, v := projN t i.toNat s.v, rest := [] } : SpecSt N)
                      with rest := r } ops := by
        intro i r; simp [specRun, specStep]
      simp only [records, List.map_append, List.map_map, List.sum_append, Function.comp_def, hstep]
      have e0 := ih ({ bits := writeBit s.bits store 0, v := projN t (Int.toNat 0) s.v, rest := [] } : SpecSt N) ht'
      have e1 := ih ({ bits := writeBit s.bits store 1, v := projN t (Int.toNat 1) s.v, rest := [] } : SpecSt N) ht'
      simp only at e0 e1
      rw [e0, e1]
      exact born_splitN t htN s.v

end QipVerif.Sim
