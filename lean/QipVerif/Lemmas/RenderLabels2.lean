import QipVerif.Lemmas.RenderLabels
/-! C20: which boxes each circuit element writes on a wire (`opLabels`), and the invariant
"the middle row of wire q reads as the labels of the elements so far". -/
namespace QipVerif.Render
variable {v : Variant}

/-- the label of the element as the renderer prints it -/
def opText : Op → Str
  | .meas _ _ => ['M']
  | .gate name argLabel _ _ => gateText name argLabel
  | .glob name argLabel => gateText name argLabel
  | .measNS _ => ['M']

/-- the boxed labels a gate with a target list contributes to wire `q` -/
def gateLabels (name : Str) (argLabel : Option Str) (targets : List Nat) (controls : Option (List Nat))
    (q : Nat) : List Str :=
  if targets.length = 1 ∧ controls = none then (if targets = [q] then [gateText name argLabel] else [])
  else if name = swapName then []
  else if q = lmin targets then [gateText name argLabel]
  else if q = lmax targets then [rep (gateText name argLabel).length ' ']
  else []

/-- **Specification**: the boxed labels the element contributes to wire `q` (of `N` qubits).
A plain one-qubit gate / a measurement: its label on its target.  A SWAP: none (it has no box).
Any other gate: its label on the lowest target wire, and — the box being closed there — a blank
label of the same length on the highest target wire (if different).  A gate on the whole
register (drawn by the repaired tree only): as a gate whose targets are all the qubits. -/
def opLabels (N : Nat) (op : Op) (q : Nat) : List Str :=
  match op with
  | .meas targets _ => (targets.filter fun t => t = q).map fun _ => ['M']
  | .gate name argLabel targets controls => gateLabels name argLabel targets controls q
  | .glob name argLabel => gateLabels name argLabel (List.range N) none q
  | .measNS targets => (targets.filter fun t => t = q).map fun _ => ['M']

/-- label with its `ceil(gate_pad)` blanks on both sides -/
def padded (p : Nat) (t : Str) : Str := rep p ' ' ++ t ++ rep p ' '

theorem strip_padded (p : Nat) (t : Str) : strip p (padded p t) = t := by
  unfold strip padded
  rw [List.append_assoc, List.drop_left' (by simp)]
  have : (rep p ' ' ++ (t ++ rep p ' ')).length - 2 * p = t.length := by simp; omega
  rw [this, List.take_left' rfl]

theorem noGlyph_padded {p : Nat} {t : Str} (h : noGlyph t = true) : noGlyph (padded p t) = true :=
  noGlyph_append (noGlyph_append (noGlyph_rep _ _ (by decide) (by decide)) h) (noGlyph_rep _ _ (by decide) (by decide))

theorem flatMap_filter_nil {α β : Type} (l : List α) (P : α → Bool) (f : α → List β) (h : ∀ a ∈ l, f a = []) :
    (l.filter P).flatMap f = [] := by
  rw [List.flatMap_eq_nil_iff]
  intro a ha
  exact h a (List.mem_filter.mp ha).1

/-! ### pieces without boxes -/

theorem bar3 (h : Nat) (a b : Char) (ha1 : a ≠ '┤') (ha2 : a ≠ '├') (hb1 : b ≠ '┤') (hb2 : b ≠ '├') (k : Nat) :
    scan none (rep h a ++ b :: rep k a) = ([], none) :=
  scan_noGlyph_none _ (noGlyph_append (noGlyph_rep _ _ ha1 ha2) (noGlyph_cons hb1 hb2 (noGlyph_rep _ _ ha1 ha2)))

theorem updCbridge_scan (N t0 store : Nat) (wl : List Nat) (width : Nat) :
    ∀ a ∈ updCbridge N t0 store wl width, scan none a.2.mid = ([], none) := by
  intro a ha
  obtain ⟨w, _, h⟩ := List.mem_filterMap.mp ha
  split at h
  · cases h
  · split at h
    · cases h; exact bar3 _ _ _ (by decide) (by decide) (by decide) (by decide) _
    · cases h
      simp only []
      split <;> exact bar3 _ _ _ (by decide) (by decide) (by decide) (by decide) _

theorem updQbridge_scan (v : Variant) (ts cs wl : List Nat) (width : Nat) (isTop : Bool) :
    ∀ a ∈ updQbridge v ts cs wl width isTop, scan none a.2.mid = ([], none) := by
  intro a ha
  obtain ⟨w, _, h⟩ := List.mem_filterMap.mp ha
  split at h
  · cases h
  · split at h
    · split at h <;> cases h <;> exact bar3 _ _ _ (by decide) (by decide) (by decide) (by decide) _
    · cases h; exact bar3 _ _ _ (by decide) (by decide) (by decide) (by decide) _

theorem updSwap_scan (p : Nat) (wl : List Nat) : ∀ a ∈ updSwap p wl, scan none a.2.mid = ([], none) := by
  intro a ha
  obtain ⟨w, _, rfl⟩ := List.mem_map.mp ha
  split
  · exact bar3 _ _ _ (by decide) (by decide) (by decide) (by decide) _
  · split <;> exact bar3 _ _ _ (by decide) (by decide) (by decide) (by decide) _

/-! ### boxes -/

theorem drawSingleq_scan (p : Nat) (t : Str) (h : noGlyph t = true) :
    scan none (drawSingleq p t).mid = ([padded p t], none) := scan_box _ (noGlyph_padded h)

theorem drawMeas_mid (p N t0 store : Nat) : (drawMeas p N t0 store).mid = (drawSingleq p ['M']).mid := by
  unfold drawMeas; split <;> rfl

theorem noGlyph_setChar {s : Str} (i : Nat) {c : Char} (h1 : c ≠ '┤') (h2 : c ≠ '├') (hs : noGlyph s = true) :
    noGlyph (setChar s i c) = true := by
  unfold setChar
  have hsub : ∀ x ∈ s, x ≠ '┤' ∧ x ≠ '├' := noGlyph_iff.mp hs
  refine noGlyph_append (noGlyph_iff.mpr fun x hx => hsub x (List.mem_of_mem_take hx))
    (noGlyph_cons h1 h2 (noGlyph_iff.mpr fun x hx => hsub x (List.mem_of_mem_drop hx)))

theorem drawMultiq_mids (v : Variant) (p : Nat) (text : Str) (ts : List Nat) (cs : Option (List Nat)) :
    (drawMultiq v p text ts cs).midLabel = '─' :: '┤' :: (padded p text ++ ['├', '─']) ∧
    (drawMultiq v p text ts cs).midConnect = '─' :: '┤' :: (padded p (rep text.length ' ') ++ ['├', '─']) ∧
    (drawMultiq v p text ts cs).midFrame = ' ' :: '│' :: (padded p (rep text.length ' ') ++ ['│', ' ']) := by
  unfold drawMultiq padded; split <;> exact ⟨rfl, rfl, rfl⟩

theorem zip_range_range' (a n : Nat) :
    List.zip (List.range n) (List.range' a n) = (List.range n).map fun i => (i, a + i) := by
  apply List.ext_getElem
  · simp
  · intro i h1 h2
    simp

theorem filter_range_eq (a n q : Nat) :
    (List.range n).filter (fun i => decide (a + i = q)) = if a ≤ q ∧ q - a < n then [q - a] else [] := by
  induction n with
  | zero => simp
  | succ n ih =>
    rw [List.range_succ, List.filter_append, ih]
    by_cases h1 : a ≤ q ∧ q - a < n
    · have h2 : a ≤ q ∧ q - a < n + 1 := ⟨h1.1, by omega⟩
      have h3 : ¬ a + n = q := by omega
      simp [h1, h2, h3]
    · by_cases h3 : a + n = q
      · have h2 : a ≤ q ∧ q - a < n + 1 := by omega
        have : n = q - a := by omega
        simp [h2, this]
      · have h2 : ¬ (a ≤ q ∧ q - a < n + 1) := by omega
        simp [h1, h2, h3]

/-- the boxes the target pass of a multi-qubit gate writes on wire `q` -/
theorem updTargetMultiq_boxes (v : Variant) (p : Nat) (text : Str) (ts : List Nat) (cs : Option (List Nat))
    (hne : ts ≠ []) (ht : noGlyph text = true) (q : Nat) :
    (∀ a ∈ updTargetMultiq v ts (ctrlList cs) (pyRange (lmin ts) (lmax ts + 1)) (drawMultiq v p text ts cs),
      (scan none a.2.mid).2 = none) ∧
    ((updTargetMultiq v ts (ctrlList cs) (pyRange (lmin ts) (lmax ts + 1)) (drawMultiq v p text ts cs)).filter
      fun a => a.1 = q).flatMap (fun a => (scan none a.2.mid).1) =
      (if q = lmin ts then [padded p text] else if q = lmax ts then [padded p (rep text.length ' ')] else []) := by
  obtain ⟨m1, m2, m3⟩ := drawMultiq_mids v p text ts cs
  have hblank : noGlyph (rep text.length ' ') = true := noGlyph_rep _ _ (by decide) (by decide)
  have s1 : scan none (drawMultiq v p text ts cs).midLabel = ([padded p text], none) := by
    rw [m1]; exact scan_box _ (noGlyph_padded ht)
  have s2 : scan none (drawMultiq v p text ts cs).midConnect = ([padded p (rep text.length ' ')], none) := by
    rw [m2]; exact scan_box _ (noGlyph_padded hblank)
  have hfr : noGlyph (drawMultiq v p text ts cs).midFrame = true := by
    rw [m3]
    exact noGlyph_cons (by decide) (by decide) (noGlyph_cons (by decide) (by decide)
      (noGlyph_append (noGlyph_padded hblank) (by decide)))
  have s3 : scan none (drawMultiq v p text ts cs).midFrame = ([], none) := scan_noGlyph_none _ hfr
  have s4 : ∀ k, scan none (setChar (drawMultiq v p text ts cs).midFrame k '█') = ([], none) :=
    fun k => scan_noGlyph_none _ (noGlyph_setChar k (by decide) (by decide) hfr)
  -- the middle piece of every wire of the box
  have hseg : ∀ n i w, scan none (targetSeg v ts (ctrlList cs) n (drawMultiq v p text ts cs) i w).mid =
      (if ts.length = 1 then [padded p text]
       else if i = 0 ∧ w ∈ ts then [padded p text]
       else if i = n - 1 ∧ w ∈ ts then [padded p (rep text.length ' ')] else [], none) := by
    intro n i w
    unfold targetSeg
    split
    · exact s1
    · split
      · exact s1
      · split
        · exact s2
        · simp only []
          split
          · exact s4 _
          · exact s3
  have hmm : lmin ts ≤ lmax ts := lmin_le (lmax_mem hne)
  have hlen : (pyRange (lmin ts) (lmax ts + 1)).length = lmax ts + 1 - lmin ts := by simp [pyRange]
  constructor
  · intro a ha
    obtain ⟨x, _, rfl⟩ := List.mem_map.mp ha
    simp only [hseg]
  · unfold updTargetMultiq
    rw [hlen]
    unfold pyRange
    rw [zip_range_range', List.map_map, List.filter_map, List.flatMap_map]
    have hf : (List.range (lmax ts + 1 - lmin ts)).filter
        ((fun a : Nat × Seg => decide (a.1 = q)) ∘ ((fun x : Nat × Nat =>
          (x.2, targetSeg v ts (ctrlList cs) (lmax ts + 1 - lmin ts) (drawMultiq v p text ts cs) x.1 x.2)) ∘
          fun i => (i, lmin ts + i)))
        = (List.range (lmax ts + 1 - lmin ts)).filter (fun i => decide (lmin ts + i = q)) := by
      apply List.filter_congr
      intro i _
      rfl
    rw [hf, filter_range_eq]
    by_cases hin : lmin ts ≤ q ∧ q - lmin ts < lmax ts + 1 - lmin ts
    · rw [if_pos hin]
      simp only [List.flatMap_cons, List.flatMap_nil, List.append_nil, Function.comp, hseg]
      have hq : lmin ts + (q - lmin ts) = q := by omega
      by_cases hone : ts.length = 1
      · rw [if_pos hone]
        obtain ⟨t, rfl⟩ : ∃ t, ts = [t] := by
          match ts, hone with
          | [t], _ => exact ⟨t, rfl⟩
        have : q = lmin [t] := by simp only [lmin, lmax, List.foldl_nil] at hin ⊢; omega
        simp only [this, if_true]
      · rw [if_neg hone]
        by_cases h0 : q = lmin ts
        · have hm : lmin ts + (q - lmin ts) ∈ ts := by rw [hq, h0]; exact lmin_mem hne
          rw [if_pos ⟨by omega, hm⟩, if_pos h0]
        · rw [if_neg (by intro h; exact h0 (by omega)), if_neg h0]
          by_cases h1 : q = lmax ts
          · have hm : lmin ts + (q - lmin ts) ∈ ts := by rw [hq, h1]; exact lmax_mem hne
            rw [if_pos ⟨by omega, hm⟩, if_pos h1]
          · rw [if_neg (by intro h; exact h1 (by omega)), if_neg h1]
    · rw [if_neg hin]
      have h0 : ¬ q = lmin ts := by intro h; exact hin (by omega)
      have h1 : ¬ q = lmax ts := by intro h; exact hin (by omega)
      simp [h0, h1]

theorem updSingleq_boxes (wl : List Nat) (g : Seg) (l : List Str) (hg : scan none g.mid = (l, none)) (q : Nat) :
    ((updSingleq wl g).filter fun a => a.1 = q).flatMap (fun a => (scan none a.2.mid).1) =
      (wl.filter fun t => t = q).flatMap fun _ => l := by
  induction wl with
  | nil => rfl
  | cons w wl ih =>
    simp only [updSingleq, List.map_cons] at ih ⊢
    by_cases h : w = q
    · rw [List.filter_cons_of_pos (by simpa using h), List.filter_cons_of_pos (by simpa using h)]
      simp only [List.flatMap_cons, ih, hg]
    · rw [List.filter_cons_of_neg (by simpa using h), List.filter_cons_of_neg (by simpa using h)]
      exact ih

/-- the boxes of the iteration of a gate with a target list -/
theorem planGate_boxes {p : Nat} {name : Str} {argLabel : Option Str} {targets : List Nat}
    {controls : Option (List Nat)} {pl : Plan} (h : planGate v p name argLabel targets controls = .ok pl)
    (ht : noGlyph (gateText name argLabel) = true) (q : Nat) :
    (∀ a ∈ pl.acts, (scan none a.2.mid).2 = none) ∧
    (pl.acts.filter fun a => a.1 = q).flatMap (fun a => (scan none a.2.mid).1) =
      (gateLabels name argLabel targets controls q).map (padded p) := by
  simp only [planGate] at h
  split at h
  · -- single
    rename_i h1
    cases h
    have hg := drawSingleq_scan p _ ht
    obtain ⟨t, rfl⟩ : ∃ t, targets = [t] := by
      match targets, h1.1 with
      | [t], _ => exact ⟨t, rfl⟩
    constructor
    · intro a ha
      obtain ⟨w, _, rfl⟩ := List.mem_map.mp ha
      simp only [hg]
    · rw [updSingleq_boxes _ _ _ hg]
      simp only [gateLabels, h1, and_self, if_true]
      by_cases htq : t = q
      · subst htq; simp
      · have : ¬ [t] = [q] := by simpa using htq
        simp [htq, this]
  · rename_i h1
    split at h
    · -- swap
      rename_i h2
      split at h
      · cases h
      · cases h
        have hs := updSwap_scan p (pyRange (lmin targets) (lmax targets + 1))
        constructor
        · intro a ha; rw [hs a ha]
        · rw [flatMap_filter_nil _ _ _ (fun a ha => by rw [hs a ha])]
          simp [gateLabels, h1, h2]
    · rename_i h2
      split at h
      · cases h
      · rename_i hne
        have hne' : targets ≠ [] := by intro h'; simp [h'] at hne
        obtain ⟨b1, b2⟩ := updTargetMultiq_boxes v p (gateText name argLabel) targets controls hne' ht q
        have hspec : (gateLabels name argLabel targets controls q).map (padded p) =
            (if q = lmin targets then [padded p (gateText name argLabel)]
             else if q = lmax targets then [padded p (rep (gateText name argLabel).length ' ')] else []) := by
          simp only [gateLabels, h1, h2, if_false]
          split
          · rfl
          · split <;> rfl
        rw [hspec]
        split at h
        · cases h
          have hq1 := fun it => updQbridge_scan v targets (ctrlList controls)
            (pyRange (lmin targets) (lmax (ctrlList controls) + 1))
            (drawMultiq v p (gateText name argLabel) targets controls).top.length it
          have hq2 := fun it => updQbridge_scan v targets (ctrlList controls)
            (pyRange (lmin (ctrlList controls)) (lmax targets + 1))
            (drawMultiq v p (gateText name argLabel) targets controls).top.length it
          constructor
          · intro a ha
            rcases List.mem_append.mp ha with ha | ha
            · rcases List.mem_append.mp ha with ha | ha
              · exact b1 a ha
              · split at ha
                · rw [hq1 _ a ha]
                · cases ha
            · split at ha
              · rw [hq2 _ a ha]
              · cases ha
          · simp only [List.filter_append, List.flatMap_append]
            rw [b2]
            have e1 : ∀ (l : List (Nat × Seg)), (∀ a ∈ l, scan none a.2.mid = ([], none)) →
                (l.filter fun a => a.1 = q).flatMap (fun a => (scan none a.2.mid).1) = [] :=
              fun l hl => flatMap_filter_nil _ _ _ (fun a ha => by rw [hl a ha])
            rw [e1, e1, List.append_nil, List.append_nil]
            · split
              · exact hq2 _
              · intro a ha; cases ha
            · split
              · exact hq1 _
              · intro a ha; cases ha
        · cases h
          exact ⟨b1, b2⟩

/-- **the boxes of one iteration**: every appended middle piece is closed, and the boxes
written on wire `q` are the (padded) labels of the specification `opLabels` -/
theorem plan_boxes {p N C : Nat} {op : Op} {pl : Plan} (h : plan v p N C op = .ok pl)
    (ht : noGlyph (opText op) = true) (q : Nat) :
    (∀ a ∈ pl.acts, (scan none a.2.mid).2 = none) ∧
    (pl.acts.filter fun a => a.1 = q).flatMap (fun a => (scan none a.2.mid).1) = (opLabels N op q).map (padded p) := by
  cases op with
  | meas targets store =>
    simp only [plan] at h
    split at h
    · cases h
    · rename_i t0 rest
      cases h
      have hg : scan none (drawMeas p N t0 store).mid = ([padded p ['M']], none) := by
        rw [drawMeas_mid]; exact drawSingleq_scan p _ (by decide)
      have hcb := updCbridge_scan N t0 store (pyRange 0 (t0 + 1) ++ pyRange (store + N) (N + C))
        (drawMeas p N t0 store).top.length
      constructor
      · intro a ha
        rcases List.mem_append.mp ha with ha | ha
        · obtain ⟨w, _, rfl⟩ := List.mem_map.mp ha
          simp only [hg]
        · rw [hcb a ha]
      · simp only [List.filter_append, List.flatMap_append]
        have e : ((updCbridge N t0 store (pyRange 0 (t0 + 1) ++ pyRange (store + N) (N + C))
            (drawMeas p N t0 store).top.length).filter fun a => a.1 = q).flatMap
            (fun a => (scan none a.2.mid).1) = [] :=
          flatMap_filter_nil _ _ _ (fun a ha => by rw [hcb a ha])
        rw [e, List.append_nil, updSingleq_boxes _ _ _ hg]
        simp only [opLabels, List.map_map]
        generalize (List.filter (fun t => decide (t = q)) (t0 :: rest)) = l
        induction l with
        | nil => rfl
        | cons x l ih => simp only [List.flatMap_cons, List.map_cons, ih]; rfl
  | gate name argLabel targets controls => exact planGate_boxes h ht q
  | glob name argLabel =>
    simp only [plan] at h
    split at h
    · exact planGate_boxes h ht q
    · cases h
  | measNS targets =>
    simp only [plan] at h
    split at h
    · split at h
      · cases h
      · cases h
        have hg : scan none (drawSingleq p ['M']).mid = ([padded p ['M']], none) := drawSingleq_scan p _ (by decide)
        constructor
        · intro a ha
          obtain ⟨w, _, rfl⟩ := List.mem_map.mp ha
          simp only [hg]
        · rw [updSingleq_boxes _ _ _ hg]
          simp only [opLabels, List.map_map]
          generalize (List.filter (fun t => decide (t = q)) targets) = l
          induction l with
          | nil => rfl
          | cons x l ih => simp only [List.flatMap_cons, List.map_cons, ih]; rfl
    · split at h <;> cases h

end QipVerif.Render
