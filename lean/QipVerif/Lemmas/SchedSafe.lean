import QipVerif.Lemmas.SchedFam
import QipVerif.Lemmas.SchedC
import QipVerif.Lemmas.SchedGate
import Mathlib.Algebra.Group.Opposite
import Mathlib.Algebra.BigOperators.Group.List.Lemmas
/-!
# C05 over ℂ without a matrix hypothesis: `safeComm`

A circuit is a list of IR gates (`QipVerif.Gate`: name, ordered targets, ordered controls, angle).
`insOf` is what the scheduler sees of a gate (`Instruction`: name, *sorted* targets, *sorted*
controls); `semD N ρ g` is the operator of the gate on the `N`-qubit register (`Lemmas/Sem.lean`).

`safeComm N gs` (decidable): every gate is well-formed on the register and has complex semantics,
and every pair `i < j` that shares a qubit and that the commutation rule declares commuting belongs
to a proved family (`safePair`, `Lemmas/SchedFam.lean`).

`schedule_den_safe`: for such a circuit, every method, permutation setting and oracle, the scheduled
circuit has the same denotation `denG` as the original one.
-/
namespace QipVerif
open Matrix Sched

/-- ascending insertion sort (structural, kernel-evaluable): `list.sort()` on qubit indices -/
def insertNat (x : ℕ) : List ℕ → List ℕ
  | [] => [x]
  | y :: ys => if x ≤ y then x :: y :: ys else y :: insertNat x ys

def isort : List ℕ → List ℕ
  | [] => []
  | x :: xs => insertNat x (isort xs)

theorem mem_insertNat (x q : ℕ) (l : List ℕ) : q ∈ insertNat x l ↔ q = x ∨ q ∈ l := by
  induction l with
  | nil => simp [insertNat]
  | cons y ys ih =>
    simp only [insertNat]
    split
    · simp
    · simp only [List.mem_cons, ih]
      tauto

theorem mem_isort (q : ℕ) (l : List ℕ) : q ∈ isort l ↔ q ∈ l := by
  induction l with
  | nil => simp [isort]
  | cons x xs ih => simp [isort, mem_insertNat, ih]

/-- the scheduler's view of a gate (`Instruction.__init__` sorts targets and controls); `w` says which
names the module lists as self-commuting (`fun _ => true` when it has no list) -/
def insOf (w : String → Bool) (g : Gate) : Sched.Ins :=
  ⟨g.name.toString, isort g.targets, isort g.controls, 1, w g.name.toString⟩

theorem mem_used_insOf (w : String → Bool) (g : Gate) (q : ℕ) : q ∈ (insOf w g).used ↔ q ∈ g.qubits := by
  rw [mem_used]
  simp only [insOf, mem_isort, Gate.qubits, List.mem_append]
  exact Or.comm

/-- number of qubits of the names that have complex semantics -/
def arityOf (n : GName) : Option ℕ :=
  if oneQ n then some 1 else if ctlQ n || symQ n then some 2 else
  match n with
  | .TOFFOLI | .FREDKIN => some 3
  | .GLOBALPHASE => some 0
  | _ => none

theorem compactC_arity (n : GName) (m : ℕ) (h : arityOf n = some m) (θ : ℝ) :
    ∃ U, compactC n θ = some ⟨m, U⟩ := by
  unfold arityOf at h
  split at h
  · rename_i h1; cases h; exact ⟨_, compactC_one n h1 θ⟩
  · split at h
    · rename_i _ h2
      cases h
      rcases Bool.or_eq_true _ _ |>.mp h2 with h3 | h3
      · exact ⟨_, compactC_ctl n h3 θ⟩
      · exact compactC_sym_arity n h3 θ
    · cases n <;> simp at h <;> subst h <;> exact ⟨_, rfl⟩

/-- the gate is well-formed on an `N`-qubit register: known name, right number of distinct in-range qubits -/
def wfG (N : ℕ) (g : Gate) : Bool :=
  match arityOf g.name with
  | some m => g.qubits.length == m && decide g.qubits.Nodup && g.qubits.all (fun q => decide (q < N))
  | none => false

variable {N : ℕ} (ρ : ℕ → ℝ) (w : String → Bool)

theorem wfG_sem (g : Gate) (h : wfG N g = true) :
    ∃ A, semD N ρ g = some A ∧ SupportedOn A (usedSet N (insOf w g)) := by
  unfold wfG at h
  cases ha : arityOf g.name with
  | none => rw [ha] at h; cases h
  | some m =>
    rw [ha] at h
    simp only [Bool.and_eq_true, beq_iff_eq, decide_eq_true_eq, List.all_eq_true] at h
    obtain ⟨⟨hm, hn⟩, hr⟩ := h
    obtain ⟨U, hU⟩ := compactC_arity g.name m ha (g.arg.eval ρ)
    refine ⟨_, semD_of N ρ g m U hU hm hn hr, SupportedOn.embed _ _ ?_⟩
    rintro _ ⟨i, rfl⟩
    show ((tgL N g.qubits m hm hn hr).f i).val ∈ (insOf w g).used
    rw [mem_used_insOf]
    exact List.getElem_mem _

def dfltGate : Gate := ⟨.IDLE, [], [], {}⟩

/-- **the decidable side condition** -/
def safeComm (w : String → Bool) (N : ℕ) (gs : List Gate) : Bool :=
  gs.all (wfG N) &&
  (List.range gs.length).all fun j => (List.range j).all fun i =>
    !(share (insOf w (gs.getD i dfltGate)) (insOf w (gs.getD j dfltGate)) &&
      commRules (insOf w (gs.getD j dfltGate)) (insOf w (gs.getD i dfltGate))) ||
    safePair (gs.getD i dfltGate) (gs.getD j dfltGate)

theorem getIns_map_insOf (gs : List Gate) {i : ℕ} (hi : i < gs.length) :
    getIns (gs.map (insOf w)) i = insOf w (gs.getD i dfltGate) := by
  simp [getIns, List.getD_eq_getElem?_getD, hi]

theorem getD_mem (gs : List Gate) {i : ℕ} (hi : i < gs.length) : gs.getD i dfltGate ∈ gs := by
  simp [List.getD_eq_getElem?_getD, hi]

theorem map_getD_range_gates (gs : List Gate) : (List.range gs.length).map (fun i => gs.getD i dfltGate) = gs := by
  apply List.ext_getElem
  · simp
  · intro i h1 h2
    simp [List.getD_eq_getElem?_getD, h2]

/-- `denG` of a list of gates that all have an operator: the product in matrix order -/
theorem denG_eq_prod (l : List Gate) (h : ∀ x ∈ l, ∃ A, semD N ρ x = some A) :
    denG N ρ l = some ((l.map (fun x => (semD N ρ x).getD 1)).reverse.prod) := by
  induction l with
  | nil => simp [denG_nil]
  | cons g gs ih =>
    obtain ⟨A, hA⟩ := h g List.mem_cons_self
    have := ih (fun x hx => h x (List.mem_cons_of_mem _ hx))
    rw [denG_cons_some N ρ g gs A _ hA this]
    simp [hA]

/-- reversed-product form of `cyclesGen_prod` -/
theorem cyclesGen_prod_rev {M : Type*} [Monoid M] (alap allowPerm : Bool) (ns : List Ins) (g : ℕ → M)
    (O2 : ℕ → List ℕ → List ℕ) (hO : ∀ r l, (O2 r l).Perm l)
    (H1 : ∀ i j, i < ns.length → j < ns.length → shareIdx ns i j = false → Commute (g i) (g j))
    (H2 : ∀ i j, i < j → j < ns.length → shareIdx ns i j = true → commIdx allowPerm ns j i = true →
      Commute (g i) (g j)) :
    ((cyclesGen alap allowPerm ns O2).flatten.map g).reverse.prod = ((List.range ns.length).map g).reverse.prod := by
  have h := cyclesGen_prod alap allowPerm ns (fun i => MulOpposite.op (g i)) O2 hO
    (fun i j hi hj hs => (H1 i j hi hj hs).op) (fun i j hij hj hs hc => (H2 i j hij hj hs hc).op)
  have key : ∀ l : List ℕ, (l.map (fun i => MulOpposite.op (g i))).prod = MulOpposite.op ((l.map g).reverse.prod) := by
    intro l
    rw [MulOpposite.op_list_prod, List.map_reverse, List.reverse_reverse, List.map_map]
    rfl
  rw [key, key] at h
  exact MulOpposite.op_injective h

/-- **The scheduled circuit denotes the same operator** — no matrix hypothesis. -/
theorem schedule_den_safe (alap allowPerm : Bool) (gs : List Gate) (O2 : ℕ → List ℕ → List ℕ)
    (hO : ∀ r l, (O2 r l).Perm l) (hs : safeComm w N gs = true) :
    denG N ρ (((cyclesGen alap allowPerm (gs.map (insOf w)) O2).flatten).map (fun i => gs.getD i dfltGate)) =
      denG N ρ gs := by
  simp only [safeComm, Bool.and_eq_true, List.all_eq_true, List.mem_range, Bool.or_eq_true,
    Bool.not_eq_true'] at hs
  obtain ⟨hwf, hpairs⟩ := hs
  have hlen : (gs.map (insOf w)).length = gs.length := by simp
  have hsem : ∀ x ∈ gs, ∃ A, semD N ρ x = some A := fun x hx =>
    let ⟨A, hA, _⟩ := wfG_sem ρ w x (hwf x hx); ⟨A, hA⟩
  -- the interpretation by position
  let g : ℕ → Matrix (St N) (St N) ℂ := fun i => (semD N ρ (gs.getD i dfltGate)).getD 1
  have H1 : ∀ i j, i < (gs.map (insOf w)).length → j < (gs.map (insOf w)).length →
      shareIdx (gs.map (insOf w)) i j = false → Commute (g i) (g j) := by
    intro i j hi hj hsh
    rw [hlen] at hi hj
    obtain ⟨A, hA, sA⟩ := wfG_sem ρ w _ (hwf _ (getD_mem gs hi))
    obtain ⟨B, hB, sB⟩ := wfG_sem ρ w _ (hwf _ (getD_mem gs hj))
    simp only [g, hA, hB, Option.getD_some]
    rw [shareIdx, getIns_map_insOf w gs hi, getIns_map_insOf w gs hj] at hsh
    exact commute_of_share_false sA sB hsh
  have H2 : ∀ i j, i < j → j < (gs.map (insOf w)).length → shareIdx (gs.map (insOf w)) i j = true →
      commIdx allowPerm (gs.map (insOf w)) j i = true → Commute (g i) (g j) := by
    intro i j hij hj hsh hc
    rw [hlen] at hj
    have hi : i < gs.length := by omega
    obtain ⟨A, hA, _⟩ := wfG_sem ρ w _ (hwf _ (getD_mem gs hi))
    obtain ⟨B, hB, _⟩ := wfG_sem ρ w _ (hwf _ (getD_mem gs hj))
    simp only [g, hA, hB, Option.getD_some]
    rw [shareIdx, getIns_map_insOf w gs hi, getIns_map_insOf w gs hj] at hsh
    simp only [commIdx, Bool.and_eq_true] at hc
    have hc' := hc.2
    rw [getIns_map_insOf w gs hi, getIns_map_insOf w gs hj] at hc'
    rcases hpairs j hj i hij with h1 | h1
    · rw [hsh, hc'] at h1; cases h1
    · exact safePair_commute ρ _ _ A B hA hB h1
  have hprod := cyclesGen_prod_rev alap allowPerm (gs.map (insOf w)) g O2 hO H1 H2
  -- both sides as products
  have hperm := cyclesGen_perm alap allowPerm (gs.map (insOf w)) O2 hO
  have hmem : ∀ x ∈ ((cyclesGen alap allowPerm (gs.map (insOf w)) O2).flatten).map (fun i => gs.getD i dfltGate),
      ∃ A, semD N ρ x = some A := by
    intro x hx
    obtain ⟨i, hi, rfl⟩ := List.mem_map.mp hx
    have : i < gs.length := by
      have := List.mem_range.mp (hperm.mem_iff.mp hi)
      rwa [hlen] at this
    exact hsem _ (getD_mem gs this)
  rw [denG_eq_prod ρ _ hmem, denG_eq_prod ρ gs hsem, List.map_map]
  congr 1
  have e1 : ((fun x => (semD N ρ x).getD 1) ∘ fun i => gs.getD i dfltGate) = g := rfl
  rw [e1, hprod, hlen]
  congr 2
  conv_rhs => rw [← map_getD_range_gates gs, List.map_map]
  rfl

end QipVerif
