import QipVerif.Lemmas.NoiseValid
/-! Lindblad generators and operator-sum maps acting on one tensor factor of a joint system, for
arbitrary (also entangled) joint matrices (C15: several subsystems). -/
namespace QipVerif.Noise
open Matrix Kronecker ComplexOrder

section Lift
set_option linter.unusedSectionVars false
variable {m n : Type} [Fintype m] [DecidableEq m] [Fintype n] [DecidableEq n]

theorem kron_one_mul (A : Matrix m m ℂ) (ρ : Matrix (m × n) (m × n) ℂ) :
    (A ⊗ₖ (1 : Matrix n n ℂ)) * ρ = liftL (fun R => A * R) ρ := by
  ext ⟨i, k⟩ ⟨j, l⟩
  simp [liftL, blockL, Matrix.mul_apply, Fintype.sum_prod_type, Matrix.one_apply]

theorem mul_kron_one (A : Matrix m m ℂ) (ρ : Matrix (m × n) (m × n) ℂ) :
    ρ * (A ⊗ₖ (1 : Matrix n n ℂ)) = liftL (fun R => R * A) ρ := by
  ext ⟨i, k⟩ ⟨j, l⟩
  simp [liftL, blockL, Matrix.mul_apply, Fintype.sum_prod_type, Matrix.one_apply]

theorem one_kron_mul (B : Matrix n n ℂ) (ρ : Matrix (m × n) (m × n) ℂ) :
    ((1 : Matrix m m ℂ) ⊗ₖ B) * ρ = liftR (fun R => B * R) ρ := by
  ext ⟨i, k⟩ ⟨j, l⟩
  simp [liftR, blockR, Matrix.mul_apply, Fintype.sum_prod_type, Matrix.one_apply]

theorem mul_one_kron (B : Matrix n n ℂ) (ρ : Matrix (m × n) (m × n) ℂ) :
    ρ * ((1 : Matrix m m ℂ) ⊗ₖ B) = liftR (fun R => R * B) ρ := by
  ext ⟨i, k⟩ ⟨j, l⟩
  simp [liftR, blockR, Matrix.mul_apply, Fintype.sum_prod_type, Matrix.one_apply]

/-- the dissipator of `A ⊗ 1` is the lift of the dissipator of `A`, on every joint matrix -/
theorem dissipator_kron_one (A : Matrix m m ℂ) (ρ : Matrix (m × n) (m × n) ℂ) :
    dissipator (A ⊗ₖ (1 : Matrix n n ℂ)) ρ = liftL (dissipator A) ρ := by
  have h : (A ⊗ₖ (1 : Matrix n n ℂ))ᴴ * (A ⊗ₖ (1 : Matrix n n ℂ)) = (Aᴴ * A) ⊗ₖ (1 : Matrix n n ℂ) := by
    rw [conjTranspose_kronecker, conjTranspose_one, ← mul_kronecker_mul, Matrix.one_mul]
  unfold dissipator
  rw [h, kron_one_conj, kron_one_mul, mul_kron_one]
  ext a b
  simp [liftL]

theorem dissipator_one_kron (B : Matrix n n ℂ) (ρ : Matrix (m × n) (m × n) ℂ) :
    dissipator ((1 : Matrix m m ℂ) ⊗ₖ B) ρ = liftR (dissipator B) ρ := by
  have h : ((1 : Matrix m m ℂ) ⊗ₖ B)ᴴ * ((1 : Matrix m m ℂ) ⊗ₖ B) = (1 : Matrix m m ℂ) ⊗ₖ (Bᴴ * B) := by
    rw [conjTranspose_kronecker, conjTranspose_one, ← mul_kronecker_mul, Matrix.one_mul]
  unfold dissipator
  rw [h, one_kron_conj, one_kron_mul, mul_one_kron]
  ext a b
  simp [liftR]

/-- Hamiltonian-free generator of a list of (rate, operator) -/
theorem generator_zero_eq (ops : List (ℝ × Matrix m m ℂ)) (ρ : Matrix m m ℂ) :
    generator 0 ops ρ = (ops.map fun o => ((o.1 : ℂ)) • dissipator o.2 ρ).sum := by
  simp [generator]

theorem generator_zero_append (o1 o2 : List (ℝ × Matrix m m ℂ)) (ρ : Matrix m m ℂ) :
    generator 0 (o1 ++ o2) ρ = generator 0 o1 ρ + generator 0 o2 ρ := by
  simp [generator_zero_eq]

/-- operators placed on the first factor: the generator is the lift of the local generator -/
theorem generator_map_left (ops : List (ℝ × Matrix m m ℂ)) (ρ : Matrix (m × n) (m × n) ℂ) :
    generator 0 (ops.map fun o => (o.1, o.2 ⊗ₖ (1 : Matrix n n ℂ))) ρ = liftL (generator 0 ops) ρ := by
  induction ops with
  | nil => ext a b; simp [generator, liftL]
  | cons o os ih =>
    have hc : ∀ (x : ℝ × Matrix m m ℂ) (l : List (ℝ × Matrix m m ℂ)) (R : Matrix m m ℂ),
        generator 0 (x :: l) R = (x.1 : ℂ) • dissipator x.2 R + generator 0 l R := by
      intro x l R; simp [generator_zero_eq]
    rw [List.map_cons, generator_zero_eq, List.map_cons, List.sum_cons, ← generator_zero_eq, ih,
      dissipator_kron_one]
    ext a b
    simp [liftL, hc]

theorem generator_map_right (ops : List (ℝ × Matrix n n ℂ)) (ρ : Matrix (m × n) (m × n) ℂ) :
    generator 0 (ops.map fun o => (o.1, (1 : Matrix m m ℂ) ⊗ₖ o.2)) ρ = liftR (generator 0 ops) ρ := by
  induction ops with
  | nil => ext a b; simp [generator, liftR]
  | cons o os ih =>
    have hc : ∀ (x : ℝ × Matrix n n ℂ) (l : List (ℝ × Matrix n n ℂ)) (R : Matrix n n ℂ),
        generator 0 (x :: l) R = (x.1 : ℂ) • dissipator x.2 R + generator 0 l R := by
      intro x l R; simp [generator_zero_eq]
    rw [List.map_cons, generator_zero_eq, List.map_cons, List.sum_cons, ← generator_zero_eq, ih,
      dissipator_one_kron]
    ext a b
    simp [liftR, hc]

/-- a trace-preserving map on one factor preserves the trace of every joint matrix -/
theorem trace_liftL (Φ : Matrix m m ℂ → Matrix m m ℂ) (hΦ : ∀ R, (Φ R).trace = R.trace)
    (ρ : Matrix (m × n) (m × n) ℂ) : (liftL Φ ρ).trace = ρ.trace := by
  have h : ∀ σ : Matrix (m × n) (m × n) ℂ, σ.trace = ∑ k, (blockL σ k k).trace := by
    intro σ
    simp only [Matrix.trace, Matrix.diag_apply, Fintype.sum_prod_type, blockL]
    exact Finset.sum_comm
  rw [h, h]
  exact Finset.sum_congr rfl fun k _ => by rw [blockL_liftL, hΦ]

theorem trace_liftR (Φ : Matrix n n ℂ → Matrix n n ℂ) (hΦ : ∀ R, (Φ R).trace = R.trace)
    (ρ : Matrix (m × n) (m × n) ℂ) : (liftR Φ ρ).trace = ρ.trace := by
  have h : ∀ σ : Matrix (m × n) (m × n) ℂ, σ.trace = ∑ i, (blockR σ i i).trace := by
    intro σ
    simp only [Matrix.trace, Matrix.diag_apply, Fintype.sum_prod_type, blockR]
  rw [h, h]
  exact Finset.sum_congr rfl fun k _ => by rw [blockR_liftR, hΦ]

end Lift

/-! ### Completely positive maps in operator-sum form -/

/-- `Φ` has an operator-sum form with non-negative weights (hence is completely positive) -/
def IsKraus {n : Type} [Fintype n] (Φ : Matrix n n ℂ → Matrix n n ℂ) : Prop :=
  ∃ (ι : Type) (_ : Fintype ι) (c : ι → ℝ) (K : ι → Matrix n n ℂ),
    (∀ k, 0 ≤ c k) ∧ ∀ R, Φ R = krausMap c K R

section IsKraus
set_option linter.unusedSectionVars false
variable {m n : Type} [Fintype m] [DecidableEq m] [Fintype n] [DecidableEq n]

theorem IsKraus.posSemidef {Φ : Matrix n n ℂ → Matrix n n ℂ} (h : IsKraus Φ) {R : Matrix n n ℂ}
    (hR : R.PosSemidef) : (Φ R).PosSemidef := by
  obtain ⟨ι, _, c, K, hc, hΦ⟩ := h
  rw [hΦ]; exact krausMap_posSemidef c K hc hR

theorem IsKraus.add {Φ : Matrix n n ℂ → Matrix n n ℂ} (h : IsKraus Φ) (R S : Matrix n n ℂ) :
    Φ (R + S) = Φ R + Φ S := by
  obtain ⟨ι, _, c, K, _, hΦ⟩ := h
  simp only [hΦ, krausMap, Matrix.mul_add, Matrix.add_mul, smul_add, Finset.sum_add_distrib]

theorem IsKraus.smul {Φ : Matrix n n ℂ → Matrix n n ℂ} (h : IsKraus Φ) (z : ℂ) (R : Matrix n n ℂ) :
    Φ (z • R) = z • Φ R := by
  obtain ⟨ι, _, c, K, _, hΦ⟩ := h
  simp only [hΦ, krausMap, Matrix.mul_smul, Matrix.smul_mul, Finset.smul_sum]
  exact Finset.sum_congr rfl fun k _ => smul_comm _ _ _

theorem IsKraus.id : IsKraus (fun R : Matrix n n ℂ => R) :=
  ⟨Unit, inferInstance, fun _ => 1, fun _ => 1, fun _ => zero_le_one, fun R => by simp [krausMap]⟩

theorem IsKraus.liftL {Φ : Matrix m m ℂ → Matrix m m ℂ} (h : IsKraus Φ) :
    IsKraus (liftL (n := n) Φ) := by
  obtain ⟨ι, _, c, K, hc, hΦ⟩ := h
  refine ⟨ι, inferInstance, c, fun k => K k ⊗ₖ (1 : Matrix n n ℂ), hc, fun ρ => ?_⟩
  rw [← liftL_krausMap]
  ext a b
  simp [Noise.liftL, hΦ]

theorem IsKraus.liftR {Φ : Matrix n n ℂ → Matrix n n ℂ} (h : IsKraus Φ) :
    IsKraus (liftR (m := m) Φ) := by
  obtain ⟨ι, _, c, K, hc, hΦ⟩ := h
  refine ⟨ι, inferInstance, c, fun k => (1 : Matrix m m ℂ) ⊗ₖ K k, hc, fun ρ => ?_⟩
  rw [← liftR_krausMap]
  ext a b
  simp [Noise.liftR, hΦ]

theorem IsKraus.comp {Φ Ψ : Matrix n n ℂ → Matrix n n ℂ} (hΦ : IsKraus Φ) (hΨ : IsKraus Ψ) :
    IsKraus (fun R => Φ (Ψ R)) := by
  obtain ⟨ι, _, c, K, hc, hΦ⟩ := hΦ
  obtain ⟨κ, _, d, J, hd, hΨ⟩ := hΨ
  refine ⟨ι × κ, inferInstance, fun p => c p.1 * d p.2, fun p => K p.1 * J p.2,
    fun p => mul_nonneg (hc _) (hd _), fun R => ?_⟩
  simp only [hΦ, hΨ, krausMap, Fintype.sum_prod_type, Matrix.mul_sum, Matrix.sum_mul,
    Matrix.mul_smul, Matrix.smul_mul, Finset.smul_sum, conjTranspose_mul, Matrix.mul_assoc, mul_smul]

/-- the explicit qubit solution at time `t ≥ 0` in the physical regime is of operator-sum form -/
theorem relaxSol2_isKraus (γ Γ t : ℝ) (hγ : 0 ≤ γ) (hΓ : γ ≤ 2 * Γ) (ht : 0 ≤ t) :
    IsKraus (fun R => relaxSol2 γ Γ R t) :=
  ⟨Fin 3, inferInstance, _, _,
    kr2c_nonneg γ Γ t (mul_nonneg hγ ht) (mul_nonneg (by linarith) ht), relaxSol2_kraus γ Γ t⟩

end IsKraus

end QipVerif.Noise
