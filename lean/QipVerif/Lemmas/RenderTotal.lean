import QipVerif.Lemmas.RenderLinks3
/-! C20: **totality** — exactly which inputs the text renderer draws.

The loop of `layout` raises iff some element has no target, mentions a wire index that does not
exist (`≥ N + C`; classical wire indices are accepted for qubits), is of a kind the tree at hand
does not draw (`Variant.supports`), or `align_layer` is set on a register without qubits;
`_add_wire_labels` raises iff there is no label at all or there are more labels than wires.
Whether an iteration raises does not depend on the state the previous iterations left. -/
namespace QipVerif.Render
variable {v : Variant}

/-- the wire indices the iteration of an element touches (a gate named `SWAP` never looks at its
controls; a gate on the whole register has no index of its own) -/
def opWires : Op → List Nat
  | .meas ts _ => ts
  | .gate name _ ts cs => if name = swapName then ts else ts ++ ctrlList cs
  | .glob _ _ => []
  | .measNS ts => ts

/-- the element has a target to draw its box on -/
def hasTargets (N : Nat) : Op → Bool
  | .meas ts _ => !ts.isEmpty
  | .gate _ _ ts _ => !ts.isEmpty
  | .glob _ _ => decide (1 ≤ N)
  | .measNS ts => !ts.isEmpty

/-- **the elements the renderer draws** (decidable, independent of the rest of the circuit) -/
def opDraws (v : Variant) (align : Bool) (N C : Nat) (op : Op) : Bool :=
  v.supports op && hasTargets N op && (opWires op).all (fun w => decide (w < N + C)) &&
    !(align && decide (N = 0))

/-- `_add_wire_labels` succeeds: at least one label, at most one per wire -/
def labelsDraw (sty : Style) (N C : Nat) : Bool :=
  !(wireLabels sty N C).isEmpty && decide ((wireLabels sty N C).length ≤ N + C)

/-- **the circuits the renderer draws** -/
def drawable (v : Variant) (sty : Style) (c : Circ) : Bool :=
  labelsDraw sty c.N c.C && c.ops.all (opDraws v sty.align c.N c.C)

/-! ## the loop over the labels -/

theorem addLabelsFrom_ok_iff (m i : Nat) (ls : List Str) (st : St) :
    (∃ st', addLabelsFrom m i ls st = .ok st') ↔ (ls = [] ∨ i + ls.length ≤ st.length) := by
  induction ls generalizing i st with
  | nil => exact ⟨fun _ => Or.inl rfl, fun _ => ⟨st, rfl⟩⟩
  | cons l ls ih =>
    unfold addLabelsFrom
    by_cases hi : i < st.length
    · rw [if_pos hi, ih]
      simp only [List.length_modify, List.length_cons, reduceCtorEq, false_or]
      constructor
      · rintro (rfl | h)
        · simp; omega
        · omega
      · intro h; right; omega
    · rw [if_neg hi]
      simp only [List.length_cons, reduceCtorEq, false_or]
      constructor
      · rintro ⟨_, h⟩; cases h
      · intro h; omega

theorem addWireLabels_ok_iff (sty : Style) (N C : Nat) :
    (∃ st0, addWireLabels sty N C (initSt N C) = .ok st0) ↔ labelsDraw sty N C = true := by
  unfold addWireLabels labelsDraw
  simp only []
  cases hl : wireLabels sty N C with
  | nil => simp
  | cons a l =>
    simp only [List.isEmpty_cons, Bool.false_eq_true, if_false, Bool.not_false, Bool.true_and, decide_eq_true_eq]
    rw [addLabelsFrom_ok_iff, initSt_length]
    simp

/-! ## the wires of one iteration -/

theorem all_lt_iff_lmax {l : List Nat} (hne : l ≠ []) (M : Nat) : (∀ w ∈ l, w < M) ↔ lmax l < M :=
  ⟨fun h => h _ (lmax_mem hne), fun h _ hw => Nat.lt_of_le_of_lt (le_lmax hw) h⟩

theorem range_lt_iff {a b : Nat} (hab : a ≤ b) (M : Nat) : (∀ w ∈ pyRange a (b + 1), w < M) ↔ b < M :=
  ⟨fun h => h b (mem_pyRange.mpr ⟨hab, by omega⟩), fun h w hw => by have := mem_pyRange.mp hw; omega⟩

theorem planGate_isOk_iff (p : Nat) (name : Str) (lab : Option Str) (ts : List Nat) (cs : Option (List Nat)) :
    (∃ pl, planGate v p name lab ts cs = .ok pl) ↔ ts ≠ [] := by
  simp only [planGate]
  split
  · rename_i h1
    refine ⟨fun _ h => ?_, fun _ => ⟨_, rfl⟩⟩
    rw [h] at h1; simp at h1
  · split
    · cases ts with
      | nil => simp
      | cons a l => simp
    · cases ts with
      | nil => simp
      | cons a l =>
        simp only [List.isEmpty_cons, Bool.false_eq_true, if_false, ne_eq, reduceCtorEq, not_false_eq_true, iff_true]
        split <;> exact ⟨_, rfl⟩

/-- the wires a successful plan of a gate touches all exist iff the gate's indices do -/
theorem planGate_bound {p : Nat} {name : Str} {lab : Option Str} {ts : List Nat} {cs : Option (List Nat)} {pl : Plan}
    (h : planGate v p name lab ts cs = .ok pl) (M : Nat) :
    ((∀ w ∈ pl.wl, w < M) ∧ (∀ a ∈ pl.acts, a.1 < M)) ↔
      ∀ w ∈ (if name = swapName then ts else ts ++ ctrlList cs), w < M := by
  have hne : ts ≠ [] := (planGate_isOk_iff p name lab ts cs).mp ⟨pl, h⟩
  have hmm : lmin ts ≤ lmax ts := lmin_le (lmax_mem hne)
  simp only [planGate] at h
  split at h
  · -- single
    rename_i h1
    cases h
    have hcs : ctrlList cs = [] := by rw [h1.2]; rfl
    simp only [hcs, List.append_nil, ite_self, updSingleq, List.mem_map]
    constructor
    · exact fun h => h.1
    · intro h
      refine ⟨h, ?_⟩
      rintro a ⟨w, hw, rfl⟩
      exact h w hw
  · split at h
    · -- swap
      rename_i h2
      rw [if_pos h2]
      split at h
      · cases h
      · cases h
        simp only []
        have hsub : ∀ a ∈ updSwap p (pyRange (lmin ts) (lmax ts + 1)), a.1 ∈ pyRange (lmin ts) (lmax ts + 1) := by
          intro a ha
          have : a.1 ∈ (updSwap p (pyRange (lmin ts) (lmax ts + 1))).map (·.1) := List.mem_map.mpr ⟨a, ha, rfl⟩
          rwa [updSwap_fst] at this
        rw [range_lt_iff hmm, all_lt_iff_lmax hne]
        constructor
        · exact fun h => h.1
        · intro h
          exact ⟨h, fun a ha => by have := mem_pyRange.mp (hsub a ha); omega⟩
    · -- box
      rename_i h2
      rw [if_neg h2]
      split at h
      · cases h
      · have hmne : ts ++ ctrlList cs ≠ [] := by simp [hne]
        have hlo : lmin (ts ++ ctrlList cs) ≤ lmin ts := lmin_le (List.mem_append_left _ (lmin_mem hne))
        have hhi : lmax ts ≤ lmax (ts ++ ctrlList cs) := le_lmax (List.mem_append_left _ (lmax_mem hne))
        have hmm' : lmin (ts ++ ctrlList cs) ≤ lmax (ts ++ ctrlList cs) := lmin_le (lmax_mem hmne)
        have ha0 : ∀ a ∈ updTargetMultiq v ts (ctrlList cs) (pyRange (lmin ts) (lmax ts + 1))
            (drawMultiq v p (gateText name lab) ts cs), a.1 ≤ lmax (ts ++ ctrlList cs) := by
          intro a ha
          have : a.1 ∈ (updTargetMultiq v ts (ctrlList cs) (pyRange (lmin ts) (lmax ts + 1))
            (drawMultiq v p (gateText name lab) ts cs)).map (·.1) := List.mem_map.mpr ⟨a, ha, rfl⟩
          rw [updTargetMultiq_fst] at this
          have := mem_pyRange.mp this
          omega
        rw [all_lt_iff_lmax hmne]
        split at h
        · -- with controls
          rename_i htr
          have hcne : ctrlList cs ≠ [] := by
            unfold truthy at htr
            cases cs with
            | none => cases htr
            | some l => intro hl; simp [ctrlList] at hl; subst hl; simp at htr
          have hchi : lmax (ctrlList cs) ≤ lmax (ts ++ ctrlList cs) :=
            le_lmax (List.mem_append_right _ (lmax_mem hcne))
          cases h
          simp only []
          rw [range_lt_iff hmm']
          constructor
          · exact fun h => h.1
          · intro hM
            refine ⟨hM, fun a ha => ?_⟩
            rcases List.mem_append.mp ha with ha | ha
            · rcases List.mem_append.mp ha with ha | ha
              · have := ha0 a ha; omega
              · split at ha
                · have := mem_pyRange.mp (updQbridge_fst.2 a ha).1; omega
                · cases ha
            · split at ha
              · have := mem_pyRange.mp (updQbridge_fst.2 a ha).1; omega
              · cases ha
        · cases h
          simp only []
          rw [range_lt_iff hmm']
          constructor
          · exact fun h => h.1
          · intro hM
            exact ⟨hM, fun a ha => by have := ha0 a ha; omega⟩

/-- **one iteration**: the plan exists iff the tree draws this kind of element and it has a target … -/
theorem plan_isOk_iff (p N C : Nat) (op : Op) :
    (∃ pl, plan v p N C op = .ok pl) ↔ (v.supports op = true ∧ hasTargets N op = true) := by
  cases op with
  | meas ts s =>
    cases ts with
    | nil => simp [plan, hasTargets]
    | cons t0 rest => simp [plan, hasTargets, Variant.supports]
  | gate name lab ts cs =>
    simp only [plan, planGate_isOk_iff, hasTargets, Variant.supports, true_and]
    cases ts <;> simp
  | glob name lab =>
    simp only [plan, Variant.supports, hasTargets, decide_eq_true_eq]
    cases hg : v.globalBox with
    | false => simp
    | true =>
      simp only [if_true, planGate_isOk_iff, true_and]
      cases N with
      | zero => simp
      | succ n => simp [List.range_succ]
  | measNS ts =>
    simp only [plan, Variant.supports, hasTargets]
    cases hm : v.measBox with
    | false => cases ts <;> simp
    | true => cases ts <;> simp

/-- … and the wires it touches all exist iff the indices the element mentions do -/
theorem plan_bound {p N C : Nat} {op : Op} {pl : Plan} (h : plan v p N C op = .ok pl) (hM : N ≤ M) (hNC : M = N + C) :
    ((∀ w ∈ pl.wl, w < M) ∧ (∀ a ∈ pl.acts, a.1 < M)) ↔ ∀ w ∈ opWires op, w < M := by
  cases op with
  | meas ts s =>
    simp only [plan] at h
    split at h
    · cases h
    · rename_i t0 rest
      cases h
      simp only [opWires]
      have hcb := @updCbridge_fst N t0 s (pyRange 0 (t0 + 1) ++ pyRange (s + N) (N + C))
        (drawMeas p N t0 s).top.length
      constructor
      · rintro ⟨_, h2⟩ w hw
        exact h2 (w, drawMeas p N t0 s) (List.mem_append_left _ (List.mem_map.mpr ⟨w, hw, rfl⟩))
      · intro hts
        have ht0 : t0 < M := hts t0 (List.mem_cons_self ..)
        have hwl : ∀ w ∈ pyRange 0 (t0 + 1) ++ pyRange (s + N) (N + C), w < M := by
          intro w hw
          rcases List.mem_append.mp hw with hw | hw <;> have := mem_pyRange.mp hw <;> omega
        refine ⟨hwl, fun a ha => ?_⟩
        rcases List.mem_append.mp ha with ha | ha
        · obtain ⟨w, hw, rfl⟩ := List.mem_map.mp ha
          exact hts w hw
        · exact hwl _ (hcb.2 a ha).1
  | gate name lab ts cs => exact planGate_bound h M
  | glob name lab =>
    simp only [plan] at h
    split at h
    · have := planGate_bound h M
      rw [this]
      simp only [opWires, ctrlList, Option.getD_none, List.append_nil, ite_self, List.mem_range]
      constructor
      · intro _ w hw; cases hw
      · intro _ _ hw; omega
    · cases h
  | measNS ts =>
    simp only [plan] at h
    split at h
    · split at h
      · cases h
      · cases h
        simp only [opWires, updSingleq, List.mem_map]
        constructor
        · exact fun h => h.1
        · intro h
          refine ⟨h, ?_⟩
          rintro a ⟨w, hw, rfl⟩
          exact h w hw
    · split at h <;> cases h

/-- **one iteration succeeds iff the element is drawable** — whatever the state -/
theorem step_isOk_iff (sty : Style) (N C : Nat) (st : St) (op : Op) :
    (∃ st', step v sty N C st op = .ok st') ↔ opDraws v sty.align N C op = true := by
  simp only [opDraws, Bool.and_eq_true, List.all_eq_true, decide_eq_true_eq, Bool.not_eq_true',
    Bool.and_eq_false_imp, decide_eq_false_iff_not]
  constructor
  · rintro ⟨st', h⟩
    obtain ⟨pl, hpl, h1, h2, h3, _⟩ := step_ok h
    have hp := (plan_isOk_iff sty.pad N C op).mp ⟨pl, hpl⟩
    refine ⟨⟨⟨hp.1, hp.2⟩, (plan_bound hpl (Nat.le_add_right N C) rfl).mp ⟨h1, h2⟩⟩, fun ha hn => h3 ⟨ha, hn⟩⟩
  · rintro ⟨⟨⟨hs, ht⟩, hw⟩, hal⟩
    obtain ⟨pl, hpl⟩ := (plan_isOk_iff (v := v) sty.pad N C op).mpr ⟨hs, ht⟩
    obtain ⟨h1, h2⟩ := (plan_bound hpl (Nat.le_add_right N C) rfl).mpr hw
    unfold step
    rw [hpl]
    have e1 : pl.wl.all (fun x => decide (x < N + C)) = true :=
      List.all_eq_true.mpr fun w hw => by simpa using h1 w hw
    have e3 : pl.acts.all (fun x => decide (x.1 < N + C)) = true :=
      List.all_eq_true.mpr fun a ha => by simpa using h2 a ha
    simp only [e1, e3, Bool.not_true, Bool.false_eq_true, if_false]
    rw [if_neg (fun h => hal h.1 h.2)]
    exact ⟨_, rfl⟩

theorem steps_isOk_iff (sty : Style) (N C : Nat) (st : St) (ops : List Op) :
    (∃ st', steps v sty N C st ops = .ok st') ↔ ops.all (opDraws v sty.align N C) = true := by
  induction ops generalizing st with
  | nil => exact ⟨fun _ => rfl, fun _ => ⟨st, rfl⟩⟩
  | cons op ops ih =>
    rw [List.all_cons, Bool.and_eq_true, ← step_isOk_iff sty N C st op]
    constructor
    · rintro ⟨st', h⟩
      unfold steps at h
      split at h
      · cases h
      · rename_i st1 h1
        exact ⟨⟨st1, h1⟩, (ih st1).mp ⟨st', h⟩⟩
    · rintro ⟨⟨st1, h1⟩, hrest⟩
      obtain ⟨st', h'⟩ := (ih st1).mpr hrest
      exact ⟨st', by unfold steps; rw [h1]; exact h'⟩

/-- **totality**: the drawing succeeds iff the circuit is `drawable` -/
theorem render_isOk_iff (v : Variant) (sty : Style) (c : Circ) :
    (∃ rows, render v sty c = .ok rows) ↔ drawable v sty c = true := by
  unfold drawable
  rw [Bool.and_eq_true, ← addWireLabels_ok_iff]
  constructor
  · rintro ⟨rows, h⟩
    obtain ⟨st, hst, _⟩ := render_ok h
    obtain ⟨st0, st1, h0, h1, _⟩ := layoutSt_ok hst
    exact ⟨⟨st0, h0⟩, (steps_isOk_iff sty c.N c.C st0 c.ops).mp ⟨st1, h1⟩⟩
  · rintro ⟨⟨st0, h0⟩, hops⟩
    obtain ⟨st1, h1⟩ := (steps_isOk_iff (v := v) sty c.N c.C st0 c.ops).mpr hops
    exact ⟨printRows c.N c.C (finalPad sty c.N st1), by simp only [render, layoutSt, h0, h1]⟩

/-- a valid circuit is drawable on a tree that has the box-span repair and draws its kinds of elements -/
theorem drawable_of_valid {v : Variant} (hv : v.spanFix = true) {sty : Style} {c : Circ}
    (hg : ∀ op ∈ c.ops, v.supports op = true) (h : circValid sty c = true) : drawable v sty c = true := by
  have hc := circOk_of_valid hv hg h
  simp only [circOk, Bool.and_eq_true, List.all_eq_true] at hc
  obtain ⟨st0, h0⟩ := labels_succeed hc.1
  obtain ⟨st1, h1⟩ := steps_succeeds (sty := sty) (C := c.C) st0 hc.2 (styleOk_N hc.1)
  exact (render_isOk_iff v sty c).mp ⟨printRows c.N c.C (finalPad sty c.N st1), by simp only [render, layoutSt, h0, h1]⟩

/-! ## the box of a measurement whose result is not stored -/

/-- the plain box `M`: the letter in the middle column, unbroken frames above and below it -/
theorem drawSingleq_M_glyphs (p : Nat) :
    (drawSingleq p ['M']).mid[(drawSingleq p ['M']).top.length / 2]? = some 'M' ∧
    (drawSingleq p ['M']).top[(drawSingleq p ['M']).top.length / 2]? = some '─' ∧
    (drawSingleq p ['M']).bot[(drawSingleq p ['M']).top.length / 2]? = some '─' := by
  have hs := drawSingleq_w p ['M']
  simp only [List.length_cons, List.length_nil] at hs
  rw [hs.top]
  have hhalf : (p * 2 + 0 + 1 + 4) / 2 = p + 1 + 1 := by omega
  rw [hhalf]
  simp only [drawSingleq]
  refine ⟨?_, ?_, ?_⟩
  · show ('─' :: '┤' :: (rep p ' ' ++ ['M'] ++ rep p ' ' ++ ['├', '─']))[p + 1 + 1]? = some 'M'
    rw [List.getElem?_cons_succ, List.getElem?_cons_succ, List.append_assoc, List.append_assoc]
    exact mid3 ..
  · rw [List.getElem?_cons_succ, List.getElem?_cons_succ, List.getElem?_append_left (by simp [rep]; omega)]
    simp only [rep, List.length_cons, List.length_nil]
    rw [List.getElem?_replicate, if_pos (by omega)]
  · rw [List.getElem?_cons_succ, List.getElem?_cons_succ, List.getElem?_append_left (by simp [rep]; omega)]
    simp only [rep, List.length_cons, List.length_nil]
    rw [List.getElem?_replicate, if_pos (by omega)]

end QipVerif.Render
