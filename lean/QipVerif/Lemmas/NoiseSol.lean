import QipVerif.Lemmas.NoiseGen
import Mathlib.Analysis.SpecialFunctions.ExpDeriv
import Mathlib.Analysis.Calculus.MeanValue
/-! The explicit solution of the idle master equation of one qubit under T1/T2 relaxation (C15):
it solves `dρ/dt = 𝓛ρ` entrywise (`HasDerivAt`), and it is the only solution on `[0, ∞)`. -/
namespace QipVerif.Noise
open Matrix

/-- `ρ : ℝ → Matrix` solves `dρ/dt = L ρ` (every entry is differentiable at every real `t`, with
the corresponding entry of `L (ρ t)` as derivative) -/
def Solves {n : Type} (L : Matrix n n ℂ → Matrix n n ℂ) (ρ : ℝ → Matrix n n ℂ) : Prop :=
  ∀ t i j, HasDerivAt (fun s => ρ s i j) (L (ρ t) i j) t

/-- one-sided version on `[0, ∞)` — what an initial-value solver produces -/
def SolvesOnNonneg {n : Type} (L : Matrix n n ℂ → Matrix n n ℂ) (ρ : ℝ → Matrix n n ℂ) : Prop :=
  ∀ t, 0 ≤ t → ∀ i j, HasDerivWithinAt (fun s => ρ s i j) (L (ρ t) i j) (Set.Ici 0) t

theorem Solves.onNonneg {n : Type} {L : Matrix n n ℂ → Matrix n n ℂ} {ρ : ℝ → Matrix n n ℂ}
    (h : Solves L ρ) : SolvesOnNonneg L ρ := fun t _ i j => (h t i j).hasDerivWithinAt

/-- `e^{−k t}` as a complex number -/
noncomputable def dec (k t : ℝ) : ℂ := ((Real.exp (-(k * t)) : ℝ) : ℂ)

theorem dec_zero (k : ℝ) : dec k 0 = 1 := by simp [dec]

theorem hasDerivAt_dec (k t : ℝ) : HasDerivAt (fun s : ℝ => dec k s) (-(k : ℂ) * dec k t) t := by
  have h : HasDerivAt (fun s : ℝ => Real.exp (-(k * s))) (Real.exp (-(k * t)) * (-(k * 1))) t :=
    (((hasDerivAt_id t).const_mul k).neg).exp
  have h2 := h.ofReal_comp
  unfold dec
  convert h2 using 1
  push_cast; ring

/-- the explicit solution: populations relax with rate `γ` towards `|0⟩⟨0|`, coherences decay with
rate `Γ` -/
noncomputable def relaxSol2 (γ Γ : ℝ) (ρ0 : Matrix (Fin 2) (Fin 2) ℂ) (t : ℝ) :
    Matrix (Fin 2) (Fin 2) ℂ :=
  !![ρ0 0 0 + (1 - dec γ t) * ρ0 1 1, dec Γ t * ρ0 0 1;
     dec Γ t * ρ0 1 0, dec γ t * ρ0 1 1]

theorem relaxSol2_zero (γ Γ : ℝ) (ρ0 : Matrix (Fin 2) (Fin 2) ℂ) : relaxSol2 γ Γ ρ0 0 = ρ0 := by
  ext i j; fin_cases i <;> fin_cases j <;> simp [relaxSol2, dec_zero]

theorem relaxSol2_apply (γ Γ : ℝ) (ρ0 : Matrix (Fin 2) (Fin 2) ℂ) (t : ℝ) :
    relaxSol2 γ Γ ρ0 t 0 0 = ρ0 0 0 + (1 - dec γ t) * ρ0 1 1 ∧
    relaxSol2 γ Γ ρ0 t 1 1 = dec γ t * ρ0 1 1 ∧
    relaxSol2 γ Γ ρ0 t 0 1 = dec Γ t * ρ0 0 1 ∧
    relaxSol2 γ Γ ρ0 t 1 0 = dec Γ t * ρ0 1 0 := ⟨rfl, rfl, rfl, rfl⟩

/-- **the explicit solution solves the master equation** of `relaxGen2 γ1 γφ` with coherence rate
`γ1/2 + γφ/2`, for every initial matrix (Hermitian or not) -/
theorem relaxSol2_solves (γ1 γφ : ℝ) (ρ0 : Matrix (Fin 2) (Fin 2) ℂ) :
    Solves (relaxGen2 γ1 γφ) (relaxSol2 γ1 (γ1 / 2 + γφ / 2) ρ0) := by
  intro t
  obtain ⟨e00, e11, e01, e10⟩ := relaxGen2_apply γ1 γφ (relaxSol2 γ1 (γ1 / 2 + γφ / 2) ρ0 t)
  have d1 := hasDerivAt_dec γ1 t
  have d2 := hasDerivAt_dec (γ1 / 2 + γφ / 2) t
  have s := fun u => relaxSol2_apply γ1 (γ1 / 2 + γφ / 2) ρ0 u
  have h00 : HasDerivAt (fun s => relaxSol2 γ1 (γ1 / 2 + γφ / 2) ρ0 s 0 0)
      (relaxGen2 γ1 γφ (relaxSol2 γ1 (γ1 / 2 + γφ / 2) ρ0 t) 0 0) t := by
    rw [e00, (s t).2.1]
    simp only [fun u => (s u).1]
    refine ((((hasDerivAt_const t (1 : ℂ)).sub d1).mul_const (ρ0 1 1)).const_add (ρ0 0 0)).congr_deriv ?_
    ring
  have h01 : HasDerivAt (fun s => relaxSol2 γ1 (γ1 / 2 + γφ / 2) ρ0 s 0 1)
      (relaxGen2 γ1 γφ (relaxSol2 γ1 (γ1 / 2 + γφ / 2) ρ0 t) 0 1) t := by
    rw [e01, (s t).2.2.1]
    simp only [fun u => (s u).2.2.1]
    refine (d2.mul_const (ρ0 0 1)).congr_deriv ?_
    push_cast; ring
  have h10 : HasDerivAt (fun s => relaxSol2 γ1 (γ1 / 2 + γφ / 2) ρ0 s 1 0)
      (relaxGen2 γ1 γφ (relaxSol2 γ1 (γ1 / 2 + γφ / 2) ρ0 t) 1 0) t := by
    rw [e10, (s t).2.2.2]
    simp only [fun u => (s u).2.2.2]
    refine (d2.mul_const (ρ0 1 0)).congr_deriv ?_
    push_cast; ring
  have h11 : HasDerivAt (fun s => relaxSol2 γ1 (γ1 / 2 + γφ / 2) ρ0 s 1 1)
      (relaxGen2 γ1 γφ (relaxSol2 γ1 (γ1 / 2 + γφ / 2) ρ0 t) 1 1) t := by
    rw [e11, (s t).2.1]
    simp only [fun u => (s u).2.1]
    refine (d1.mul_const (ρ0 1 1)).congr_deriv ?_
    ring
  intro i j
  fin_cases i <;> fin_cases j
  · exact h00
  · exact h01
  · exact h10
  · exact h11

/-! ### Uniqueness on `[0, ∞)` (scalar linear ODEs, integrating factor) -/

/-- `y' = −k y + f` on `[0, ∞)` has at most one solution with a given `y 0`: the difference `w` of two
solutions satisfies `w' = −k w`, hence `w e^{kt}` is constant. -/
theorem scalar_decay_unique (k : ℝ) (w : ℝ → ℂ)
    (hw : ∀ t, 0 ≤ t → HasDerivWithinAt w (-(k : ℂ) * w t) (Set.Ici 0) t) (h0 : w 0 = 0) :
    ∀ t, 0 ≤ t → w t = 0 := by
  intro T hT
  -- g s = w s * e^{k s}
  let g : ℝ → ℂ := fun s => w s * dec (-k) s
  have hg : ∀ t, 0 ≤ t → HasDerivWithinAt g 0 (Set.Ici 0) t := by
    intro t ht
    have h1 := (hw t ht).mul ((hasDerivAt_dec (-k) t).hasDerivWithinAt (s := Set.Ici 0))
    refine h1.congr_deriv ?_
    push_cast; ring
  have hcont : ContinuousOn g (Set.Icc 0 T) := fun t ht =>
    ((hg t ht.1).continuousWithinAt).mono Set.Icc_subset_Ici_self
  have hder : ∀ x ∈ Set.Ico (0 : ℝ) T, HasDerivWithinAt g 0 (Set.Ici x) x := fun x hx =>
    (hg x hx.1).mono (Set.Ici_subset_Ici.mpr hx.1)
  have hconst := constant_of_has_deriv_right_zero hcont hder T ⟨hT, le_refl T⟩
  have hg0 : g 0 = 0 := by simp [g, h0]
  have : w T * dec (-k) T = 0 := by rw [← hg0]; exact hconst
  rcases mul_eq_zero.mp this with h | h
  · exact h
  · exfalso
    have : Real.exp (-(-k * T)) ≠ 0 := Real.exp_ne_zero _
    unfold dec at h
    exact this (by exact_mod_cast h)

/-- **Uniqueness.** Every `ρ(t)` that solves the qubit master equation on `[0, ∞)` (one-sided
derivative at `0`) with `ρ(0) = ρ₀` is the explicit solution, for all `t ≥ 0`. -/
theorem relaxSol2_unique (γ1 γφ : ℝ) (ρ0 : Matrix (Fin 2) (Fin 2) ℂ) (ρ : ℝ → Matrix (Fin 2) (Fin 2) ℂ)
    (hρ : SolvesOnNonneg (relaxGen2 γ1 γφ) ρ) (h0 : ρ 0 = ρ0) :
    ∀ t, 0 ≤ t → ρ t = relaxSol2 γ1 (γ1 / 2 + γφ / 2) ρ0 t := by
  set σ := relaxSol2 γ1 (γ1 / 2 + γφ / 2) ρ0 with hσdef
  have hσ : SolvesOnNonneg (relaxGen2 γ1 γφ) σ := (relaxSol2_solves γ1 γφ ρ0).onNonneg
  have hσ0 : σ 0 = ρ0 := relaxSol2_zero _ _ _
  -- differences of entries
  have key : ∀ (i j : Fin 2) (k : ℝ),
      (∀ t, relaxGen2 γ1 γφ (ρ t) i j - relaxGen2 γ1 γφ (σ t) i j = -(k : ℂ) * (ρ t i j - σ t i j)) →
      ∀ t, 0 ≤ t → ρ t i j = σ t i j := by
    intro i j k hk t ht
    have := scalar_decay_unique k (fun s => ρ s i j - σ s i j)
      (fun s hs => by
        have := (hρ s hs i j).sub (hσ s hs i j)
        rw [hk s] at this
        exact this)
      (by simp [h0, hσ0]) t ht
    exact sub_eq_zero.mp this
  have g := fun t => relaxGen2_apply γ1 γφ (ρ t)
  have g' := fun t => relaxGen2_apply γ1 γφ (σ t)
  have h11 := key 1 1 γ1 (fun t => by rw [(g t).2.1, (g' t).2.1]; ring)
  have h01 := key 0 1 (γ1 / 2 + γφ / 2) (fun t => by rw [(g t).2.2.1, (g' t).2.2.1]; push_cast; ring)
  have h10 := key 1 0 (γ1 / 2 + γφ / 2) (fun t => by rw [(g t).2.2.2, (g' t).2.2.2]; push_cast; ring)
  -- the 00 entry: ρ00 + ρ11 is constant for both
  have h00 : ∀ t, 0 ≤ t → ρ t 0 0 = σ t 0 0 := by
    intro t ht
    have := scalar_decay_unique 0 (fun s => (ρ s 0 0 + ρ s 1 1) - (σ s 0 0 + σ s 1 1))
      (fun s hs => by
        have := ((hρ s hs 0 0).add (hρ s hs 1 1)).sub ((hσ s hs 0 0).add (hσ s hs 1 1))
        refine this.congr_deriv ?_
        rw [(g s).1, (g s).2.1, (g' s).1, (g' s).2.1]; push_cast; ring)
      (by simp [h0, hσ0]) t ht
    have h1 := h11 t ht
    have : ρ t 0 0 + ρ t 1 1 = σ t 0 0 + σ t 1 1 := sub_eq_zero.mp this
    rw [h1] at this
    exact add_right_cancel this
  intro t ht
  ext i j
  fin_cases i <;> fin_cases j
  · exact h00 t ht
  · exact h01 t ht
  · exact h10 t ht
  · exact h11 t ht

end QipVerif.Noise
