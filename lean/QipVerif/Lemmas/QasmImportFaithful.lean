import QipVerif.Lemmas.QasmImportRej
import QipVerif.Lemmas.QasmCondBits
/-!
# The importer model refines the standard's static semantics on the class W₀ (C04)

W₀: `OPENQASM 2.0; include "qelib1.inc";`, then register declarations (quantum registers
non-empty), then operations — `U`, `CX`, calls of `qelib1.inc` gates, `measure`, `barrier`,
`if(c==k)` on a gate — with any mix of indexed and whole-register arguments; no user gate
definitions.  For such a program that the standard accepts (`flatten p = ok`), the importer
model returns exactly the library gates `gatesOf` of the flat operations, in order.
-/
namespace QipVerif.Qasm.Import
open QipVerif.Qasm

/-! ## the class -/

def isDecl : Stmt → Bool
  | .qreg _ k => Gen.emptyRegOk || decide (0 < k)
  | .creg .. => true
  | _ => false

def isOp : Stmt → Bool
  | .qop (.U ..) | .qop (.CX ..) | .qop (.call ..) | .qop (.measure ..) => true
  | .ifc _ _ (.U ..) | .ifc _ _ (.CX ..) | .ifc _ _ (.call ..) => true
  | .barrier _ => true
  | _ => false

def notBarrier : Stmt → Bool
  | .barrier _ => false
  | _ => true

/-- the statements `_initialize_pass` leaves for the second pass (repaired variant: barriers, too) -/
def keepStmt : Stmt → Bool
  | .barrier _ => Gen.barrierChecked
  | _ => true

/-- parameter expressions of a statement -/
def paramsOf : Stmt → List Expr
  | .qop (.U a b c _) | .ifc _ _ (.U a b c _) => [a, b, c]
  | .qop (.call _ ps _) | .ifc _ _ (.call _ ps _) => ps
  | _ => []

/-- classical controls / value of the library gates for a condition of the standard -/
def ccOf (c : Option Cond) : Option (List Nat) := c.map (·.bits)
/-- the value passed on: `k` itself (original code) or `k` bit-reversed (repaired variant, `condValue`) -/
def cvOf (c : Option Cond) : Option Nat := c.map (fun c => condValue c.bits.length c.k)

/-- repaired variant: a condition whose value does not fit the register — the operation adds nothing -/
def condUnsat : Option Cond → Bool
  | some c => condSkipped c.bits.length c.k
  | none => false

/-- **the library gates the importer must add for one flat operation of the standard** -/
def gatesOf : FlatOp → List IOp
  | .U c a b l q => if condUnsat c then [] else [.gate ⟨cs!"QASMU", [q], none, .many [a, b, l], ccOf c, cvOf c⟩]
  | .CX c a b => if condUnsat c then [] else [.gate ⟨cs!"CNOT", [b], some [a], .none, ccOf c, cvOf c⟩]
  | .call c n ps t =>
    if condUnsat c then [] else
    match addPredefined n t ps (ccOf c) (cvOf c) with
    | .ok gs => gs.map IOp.gate
    | .error _ => []
  | .measure _ q b => [.meas q b]
  | .barrier _ => []

/-! ## registers -/

/-- the importer's register maps agree with the environment of the standard -/
structure Rel (st : Init) (env : Env) : Prop where
  q : ∀ r, regFind st.qregs r = env.qregs.find? r
  c : ∀ r, regFind st.cregs r = env.cregs.find? r
  nq : st.nq = env.qregs.total
  nc : st.nc = env.cregs.total
  pos : Gen.emptyRegOk = false → ∀ r s n, env.qregs.find? r = some (s, n) → 0 < n

theorem regs_find_add (rs : Regs) (n r : Str) (k : Nat) (hnew : rs.find? n = none) :
    (rs.add n k).find? r = if n == r then some (rs.total, k) else rs.find? r := by
  simp only [Regs.find?, Regs.add, List.find?_append, List.find?_cons, List.find?_nil]
  by_cases h : (n == r) = true
  · have : n = r := by simpa using h
    subst this
    simp only [Regs.find?] at hnew
    cases hf : List.find? (fun e => e.1 == n) rs.regs with
    | none => simp
    | some e => simp [hf] at hnew
  · simp only [h]
    cases List.find? (fun e => e.1 == r) rs.regs <;> simp

theorem regFind_cons (m : RegMap) (n r : Str) (s k : Nat) :
    regFind ((n, s, k) :: m) r = if n == r then some (s, k) else regFind m r := by
  simp only [regFind, List.find?_cons]
  by_cases h : (n == r) = true <;> simp [h]

/-! ## expressions -/

theorem hasPow_of_supported (e : Expr) (h : e.supported = true) : hasPow e = false := by
  induction e with
  | pow a b => simp [Expr.supported] at h
  | fn f e => simp [Expr.supported] at h
  | neg e ih => simpa [hasPow] using ih (by simpa [Expr.supported] using h)
  | add a b iha ihb | sub a b iha ihb | mul a b iha ihb | div a b iha ihb =>
    simp only [Expr.supported, Bool.and_eq_true] at h
    simp [hasPow, iha h.1, ihb h.2]
  | _ => rfl

theorem hasName_of_closed (e : Expr) (hs : e.supported = true) (h : e.closedIn [] = true) : hasName e = false := by
  induction e with
  | id s => simp [Expr.closedIn] at h
  | pow a b => simp [Expr.supported] at hs
  | fn f e => simp [Expr.supported] at hs
  | neg e ih =>
    simpa [hasName] using ih (by simpa [Expr.supported] using hs) (by simpa [Expr.closedIn] using h)
  | add a b iha ihb | sub a b iha ihb | mul a b iha ihb | div a b iha ihb =>
    simp only [Expr.supported, Bool.and_eq_true] at hs
    simp only [Expr.closedIn, Bool.and_eq_true] at h
    simp [hasName, iha hs.1 h.1, ihb hs.2 h.2]
  | _ => rfl

theorem evalParams_ok (ps : List Expr) (hs : ps.all Expr.supported = true)
    (hc : ps.all (Expr.closedIn []) = true) (hz : ∀ e ∈ ps, divZero e = false) : evalParams ps = .ok ps := by
  induction ps with
  | nil => rfl
  | cons e es ih =>
    simp only [List.all_cons, Bool.and_eq_true] at hs hc
    have h1 := hasPow_of_supported e hs.1
    have h2 := hasName_of_closed e hs.1 hc.1
    have h3 := hz e (by simp)
    simp [evalParams, evalParam, h1, h2, h3, ih hs.2 hc.2 (fun x hx => hz x (by simp [hx]))]

/-! ## arguments: resolution and broadcast -/

theorem resolveQ_of_spec {st : Init} {env : Env} (hr : Rel st env) (a : Arg) (x : Nat ⊕ List Nat)
    (h : resolveArg env.qregs a = .ok x) : resolveQ st a = .ok x := by
  cases a with
  | whole r =>
    simp only [resolveArg, resolveQ, hr.q r] at h ⊢
    cases hf : env.qregs.find? r with
    | none => simp [hf] at h
    | some v => obtain ⟨s, n⟩ := v; simpa [hf] using h
  | idx r i =>
    simp only [resolveArg, resolveQ, hr.q r] at h ⊢
    cases hf : env.qregs.find? r with
    | none => simp [hf] at h
    | some v =>
      obtain ⟨s, n⟩ := v
      simp only [hf] at h ⊢
      by_cases hi : i < n <;> simp [hi] at h ⊢
      exact h

theorem resolveArg_inr_pos {env : Env} (hpos : ∀ r s n, env.qregs.find? r = some (s, n) → 0 < n) (a : Arg)
    (l : List Nat) (h : resolveArg env.qregs a = .ok (.inr l)) : 0 < l.length := by
  cases a with
  | whole r =>
    simp only [resolveArg] at h
    cases hf : env.qregs.find? r with
    | none => simp [hf] at h
    | some v =>
      obtain ⟨s, n⟩ := v
      simp only [hf, Except.ok.injEq, Sum.inr.injEq] at h
      subst h
      simpa using hpos r s n hf
  | idx r i =>
    simp only [resolveArg] at h
    cases hf : env.qregs.find? r with
    | none => simp [hf] at h
    | some v =>
      obtain ⟨s, n⟩ := v
      simp only [hf] at h
      by_cases hi : i < n <;> simp [hi] at h

theorem resolveArgs_cons_inv {rs : Regs} {a : Arg} {as : List Arg} {ys : List (Nat ⊕ List Nat)}
    (h : resolveArgs rs (a :: as) = .ok ys) :
    ∃ x xs, resolveArg rs a = .ok x ∧ resolveArgs rs as = .ok xs ∧ ys = x :: xs := by
  simp only [resolveArgs, bind, Except.bind] at h
  cases h1 : resolveArg rs a with
  | error e => simp [h1] at h
  | ok x =>
    cases h2 : resolveArgs rs as with
    | error e => simp [h1, h2] at h
    | ok xs =>
      simp only [h1, h2, Except.ok.injEq] at h
      exact ⟨x, xs, rfl, rfl, h.symm⟩

theorem resolveArgs_inr_pos {env : Env} (hpos : ∀ r s n, env.qregs.find? r = some (s, n) → 0 < n) :
    ∀ (qs : List Arg) (xs : List (Nat ⊕ List Nat)), resolveArgs env.qregs qs = .ok xs →
      ∀ l, Sum.inr l ∈ xs → 0 < l.length := by
  intro qs
  induction qs with
  | nil => intro xs h l hl; simp [resolveArgs] at h; subst h; cases hl
  | cons a as ih =>
    intro ys h l hl
    obtain ⟨x, xs, h1, h2, rfl⟩ := resolveArgs_cons_inv h
    rcases List.mem_cons.mp hl with rfl | hl
    · exact resolveArg_inr_pos hpos a l h1
    · exact ih xs h2 l hl

theorem exAfter_some (m : Nat) (h : Gen.emptyRegOk = true ∨ 0 < m) : exAfter m = some m := by
  unfold exAfter
  rcases h with h | h
  · simp [h]
  · have : (m != 0) = true := by simpa using (by omega : m ≠ 0)
    simp [this]

/-- the importer's loop over the arguments, for arguments the standard resolves and whose
whole registers all have `m` elements -/
theorem resolveQs_of_spec {st : Init} {env : Env} (hr : Rel st env) (m : Nat) (hm : exAfter m = some m) :
    ∀ (qs : List Arg) (xs : List (Nat ⊕ List Nat)), resolveArgs env.qregs qs = .ok xs →
      (∀ l, Sum.inr l ∈ xs → l.length = m) → ∀ ex, (ex = none ∨ ex = some m) →
      ∃ ex', resolveQs st true qs ex = .ok (xs, ex') ∧
        ((∃ l, Sum.inr l ∈ xs) → ex' = some m) ∧ ((¬ ∃ l, Sum.inr l ∈ xs) → ex' = ex) := by
  intro qs
  induction qs with
  | nil =>
    intro xs h _ ex _
    simp only [resolveArgs, Except.ok.injEq] at h
    subst h
    refine ⟨ex, rfl, ?_, ?_⟩
    · intro hh; obtain ⟨l, hl⟩ := hh; cases hl
    · intro _; rfl
  | cons a as ih =>
    intro ys h hmm ex hex
    obtain ⟨x, xs, h1, h2, rfl⟩ := resolveArgs_cons_inv h
    have hq := resolveQ_of_spec hr a x h1
    have hm' : ∀ l, Sum.inr l ∈ xs → l.length = m := fun l hl => hmm l (by simp [hl])
    cases x with
    | inl q =>
      obtain ⟨ex', he, h3, h4⟩ := ih xs h2 hm' ex hex
      refine ⟨ex', by simp [resolveQs, hq, he], ?_, ?_⟩
      · rintro ⟨l, hl⟩
        simp only [List.mem_cons, reduceCtorEq, false_or] at hl
        exact h3 ⟨l, hl⟩
      · intro hno
        exact h4 (fun ⟨l, hl⟩ => hno ⟨l, by simp [hl]⟩)
    | inr l =>
      have hl : l.length = m := hmm l (by simp)
      obtain ⟨ex', he, h3, h4⟩ := ih xs h2 hm' (exAfter l.length) (Or.inr (by rw [hl, hm]))
      have hchk : ¬ ((true && sizeClash ex l.length) = true) := by
        rcases hex with rfl | rfl
        · simp [sizeClash]
        · simp [sizeClash, hl]
      refine ⟨ex', by simp only [resolveQs, hq]; rw [if_neg hchk]; simp [he], ?_, ?_⟩
      · intro _
        by_cases hx : ∃ l', Sum.inr l' ∈ xs
        · exact h3 hx
        · rw [h4 hx, hl, hm]
      · intro hno
        exact absurd ⟨l, by simp⟩ hno

/-- the operands of a barrier (repaired variant: `_regs_processor(…, "barrier")`, no size test) -/
theorem resolveQs_nochk {st : Init} {env : Env} (hr : Rel st env) :
    ∀ (qs : List Arg) (xs : List (Nat ⊕ List Nat)), resolveArgs env.qregs qs = .ok xs →
      ∀ ex, ∃ ex', resolveQs st false qs ex = .ok (xs, ex') := by
  intro qs
  induction qs with
  | nil =>
    intro xs h ex
    simp only [resolveArgs, Except.ok.injEq] at h
    subst h
    exact ⟨ex, rfl⟩
  | cons a as ih =>
    intro ys h ex
    obtain ⟨x, xs, h1, h2, rfl⟩ := resolveArgs_cons_inv h
    have hq := resolveQ_of_spec hr a x h1
    cases x with
    | inl q =>
      obtain ⟨ex', he⟩ := ih xs h2 ex
      exact ⟨ex', by simp [resolveQs, hq, he]⟩
    | inr l =>
      obtain ⟨ex', he⟩ := ih xs h2 (exAfter l.length)
      exact ⟨ex', by simp [resolveQs, hq, he]⟩

theorem broadcastSize_some {xs : List (Nat ⊕ List Nat)} {m : Nat} (h : broadcastSize xs = .ok (some m)) :
    (∀ l, Sum.inr l ∈ xs → l.length = m) ∧ (∃ l, Sum.inr l ∈ xs) := by
  induction xs generalizing m with
  | nil => simp [broadcastSize] at h
  | cons x xs ih =>
    cases x with
    | inl q =>
      simp only [broadcastSize] at h
      obtain ⟨h1, l, hl⟩ := ih h
      exact ⟨fun l' hl' => h1 l' (by simpa using hl'), l, by simp [hl]⟩
    | inr l =>
      simp only [broadcastSize, bind, Except.bind] at h
      cases hb : broadcastSize xs with
      | error e => simp [hb] at h
      | ok r =>
        cases r with
        | none =>
          simp only [hb, Except.ok.injEq, Option.some.injEq] at h
          refine ⟨fun l' hl' => ?_, l, by simp⟩
          rcases List.mem_cons.mp hl' with heq | hmem
          · cases heq; exact h
          · exfalso
            -- no whole register in the tail
            clear ih h hl'
            induction xs with
            | nil => cases hmem
            | cons y ys ihy =>
              cases y with
              | inl q =>
                simp only [broadcastSize] at hb
                exact ihy hb (by simpa using hmem)
              | inr l2 =>
                simp only [broadcastSize, bind, Except.bind] at hb
                cases hb2 : broadcastSize ys with
                | error e => simp [hb2] at hb
                | ok r2 =>
                  cases r2 with
                  | none => simp [hb2] at hb
                  | some m2 =>
                    simp only [hb2] at hb
                    by_cases hmm : m2 = l2.length <;> simp [hmm] at hb
        | some m' =>
          simp only [hb] at h
          by_cases hmm : m' = l.length
          · simp only [hmm, if_true, Except.ok.injEq, Option.some.injEq] at h
            obtain ⟨h1, _⟩ := ih hb
            refine ⟨fun l' hl' => ?_, l, by simp⟩
            rcases List.mem_cons.mp hl' with heq | hmem
            · cases heq; exact h
            · rw [h1 l' hmem, hmm, h]
          · simp [hmm] at h

theorem broadcastSize_none {xs : List (Nat ⊕ List Nat)} (h : broadcastSize xs = .ok none) :
    ∀ l, Sum.inr l ∉ xs := by
  induction xs with
  | nil => intro l hl; cases hl
  | cons x xs ih =>
    cases x with
    | inl q =>
      simp only [broadcastSize] at h
      intro l hl
      exact ih h l (by simpa using hl)
    | inr l =>
      simp only [broadcastSize, bind, Except.bind] at h
      cases hb : broadcastSize xs with
      | error e => simp [hb] at h
      | ok r =>
        cases r with
        | none => simp [hb] at h
        | some m' =>
          simp only [hb] at h
          by_cases hmm : m' = l.length <;> simp [hmm] at h

theorem tupleAt_eq (xs : List (Nat ⊕ List Nat)) (j : Nat) : tupleAt xs j = xs.map (pick j) := by
  simp only [tupleAt]
  apply List.map_congr_left
  intro x _
  cases x <;> rfl

theorem zipLen_eq (xs : List (Nat ⊕ List Nat)) (m : Nat) (h : ∀ l, Sum.inr l ∈ xs → l.length = m) :
    zipLen xs m = m := by
  unfold zipLen
  suffices ∀ acc, acc = m → xs.foldl (fun a x => match x with | .inl _ => min a m | .inr l => min a l.length) acc = m from
    this m rfl
  induction xs with
  | nil => intro acc h; simpa using h
  | cons x xs ih =>
    intro acc hacc
    simp only [List.foldl_cons]
    apply ih (fun l hl => h l (by simp [hl]))
    cases x with
    | inl q => simp [hacc]
    | inr l => simp [hacc, h l (by simp)]

theorem firstDup_of_nodup (t : List Nat) (h : t.Nodup) : firstDup t = false := by
  induction t with
  | nil => rfl
  | cons x xs ih =>
    have := List.nodup_cons.mp h
    simp [firstDup, this.1, ih this.2]

/-- **argument tuples**: what the standard prescribes is what `_regs_processor` returns, and no
tuple repeats a qubit -/
theorem regSet_of_spec {st : Init} {env : Env} (hr : Rel st env) (qs : List Arg)
    (xs : List (Nat ⊕ List Nat)) (ts : List (List Nat))
    (h1 : resolveArgs env.qregs qs = .ok xs) (h2 : broadcast xs = .ok ts) :
    regSet st qs = .ok ts ∧ ∀ t ∈ ts, firstDup t = false := by
  simp only [broadcast, bind, Except.bind, pure, Except.pure] at h2
  cases hb : broadcastSize xs with
  | error e => simp [hb] at h2
  | ok r =>
    simp only [hb] at h2
    cases r with
    | none =>
      simp only at h2
      by_cases hn : ([xs.map (pick 0)].all fun t => decide t.Nodup) = true
      · simp only [hn, if_true, Except.ok.injEq] at h2
        subst h2
        have hno := broadcastSize_none hb
        obtain ⟨ex', he, _, h4⟩ := resolveQs_of_spec hr 1 (exAfter_some 1 (Or.inr (by omega))) qs xs h1
          (fun l hl => absurd hl (hno l)) none (Or.inl rfl)
        have hex : ex' = none := h4 (fun ⟨l, hl⟩ => hno l hl)
        subst hex
        have hany : xs.any isWhole = false := by
          rw [List.any_eq_false]
          intro x hx
          cases x with
          | inl q => simp [isWhole]
          | inr l => exact absurd hx (hno l)
        refine ⟨?_, ?_⟩
        · simp only [regSet, he, hany, Bool.false_eq_true, if_false, Except.ok.injEq,
            List.cons.injEq, and_true]
          apply List.map_congr_left
          intro x hx
          cases x with
          | inl q => rfl
          | inr l => exact absurd hx (hno l)
        · intro t ht
          simp only [List.mem_singleton] at ht
          subst ht
          simp only [List.all_cons, List.all_nil, Bool.and_true, decide_eq_true_eq] at hn
          exact firstDup_of_nodup _ hn
      · simp [hn] at h2
    | some m =>
      simp only at h2
      by_cases hn : (((List.range m).map fun j => xs.map (pick j)).all fun t => decide t.Nodup) = true
      · simp only [hn, if_true, Except.ok.injEq] at h2
        subst h2
        obtain ⟨hall, l0, hl0⟩ := broadcastSize_some hb
        have hpos : Gen.emptyRegOk = true ∨ 0 < m := by
          cases hflag : Gen.emptyRegOk with
          | true => exact Or.inl rfl
          | false =>
            right
            rw [← hall l0 hl0]
            exact resolveArgs_inr_pos (hr.pos hflag) qs xs h1 l0 hl0
        obtain ⟨ex', he, h3, _⟩ := resolveQs_of_spec hr m (exAfter_some m hpos) qs xs h1 hall none (Or.inl rfl)
        have hex : ex' = some m := h3 ⟨l0, hl0⟩
        subst hex
        refine ⟨?_, ?_⟩
        · simp only [regSet, he, zipLen_eq xs m hall, Except.ok.injEq]
          apply List.map_congr_left
          intro j _
          exact tupleAt_eq xs j
        · intro t ht
          have := List.all_eq_true.mp hn t ht
          exact firstDup_of_nodup _ (by simpa using this)
      · simp [hn] at h2

/-! ## one call of a built-in / `qelib1.inc` gate -/

def selOk (n : Nat) : Sel → Bool
  | .one i => decide (i < n)
  | .many is => is.all (fun i => decide (i < n))
  | _ => true

def qelibEntryOk (d : GateDef) : Bool :=
  predefined d.name && (sigOf d.name == some (d.params.length, d.qargs.length)) &&
  (d.name != cs!"CX") && (d.name != cs!"U") &&
  (match Gen.shortcutRows.find? (fun r => r.1 == d.name) with
   | none => true
   | some (_, _, tsel, csel, _) => selOk d.qargs.length tsel && selOk d.qargs.length csel)

/-- every `qelib1.inc` gate is predefined in the importer with the same signature, and the
qubit selectors of its row stay within its arity -/
theorem qelib_ok : qelib1.all qelibEntryOk = true := by decide

theorem builtin_ok : predefined cs!"U" = true ∧ predefined cs!"CX" = true ∧
    sigOf cs!"U" = some (3, 1) ∧ sigOf cs!"CX" = some (0, 2) := by decide

theorem selTargets_ok (regs : List Nat) (s : Sel) (h : selOk regs.length s = true) :
    ∃ l, selTargets regs s = .ok l := by
  cases s with
  | none => exact ⟨_, rfl⟩
  | all => exact ⟨_, rfl⟩
  | pre k => exact ⟨_, rfl⟩
  | one i =>
    have hi : i < regs.length := by simpa [selOk] using h
    exact ⟨[regs[i]], by simp [selTargets, hi]⟩
  | many is =>
    simp only [selOk, List.all_eq_true, decide_eq_true_eq] at h
    induction is with
    | nil => exact ⟨[], rfl⟩
    | cons i r ih =>
      obtain ⟨l, hl⟩ := ih (fun j hj => h j (by simp [hj]))
      have hi : i < regs.length := h i (by simp)
      simp only [selTargets] at hl ⊢
      exact ⟨regs[i] :: l, by simp [List.foldr_cons, hl, hi]⟩

theorem addPredefined_ok (d : GateDef) (hd : d ∈ qelib1) (regs : List Nat) (args : List Expr)
    (cc : Option (List Nat)) (cv : Option Nat) (hr : regs.length = d.qargs.length)
    (ha : args.length = d.params.length) (hcv : cvBad cc cv = false) :
    ∃ gs, addPredefined d.name regs args cc cv = .ok gs := by
  have hk := List.all_eq_true.mp qelib_ok d hd
  simp only [qelibEntryOk, Bool.and_eq_true, beq_iff_eq, bne_iff_ne, ne_eq] at hk
  obtain ⟨⟨⟨⟨_, hsig⟩, hcx⟩, hu⟩, hsel⟩ := hk
  have hcx' : (d.name == cs!"CX") = false := by simpa using hcx
  have hu' : (d.name == cs!"U") = false := by simpa using hu
  simp only [addPredefined, hsig, ha, hr, and_self, if_true, hcx', hu', Bool.false_eq_true, if_false]
  cases hf : Gen.shortcutRows.find? (fun r => r.1 == d.name) with
  | none => exact ⟨[], rfl⟩
  | some row =>
    obtain ⟨q, lib, tsel, csel, pa⟩ := row
    simp only [hf, Bool.and_eq_true] at hsel
    obtain ⟨ts, hts⟩ := selTargets_ok regs tsel (by rw [hr]; exact hsel.1)
    obtain ⟨cs', hcs⟩ := selTargets_ok regs csel (by rw [hr]; exact hsel.2)
    simp only [hts, hcs, hcv, Bool.false_eq_true, if_false]
    exact ⟨_, rfl⟩

/-- the loop of `_gate_add` over the argument tuples -/
theorem loop_eq (name : Str) (cc : Option (List Nat)) (cv : Option Nat) (vals : List Expr)
    (ts : List (List Nat)) (hd : ∀ t ∈ ts, firstDup t = false)
    (hok : ∀ t ∈ ts, ∃ gs, addPredefined name t vals cc cv = .ok gs) :
    gateAdd.loop name cc cv vals ts =
      .ok (ts.flatMap fun t => match addPredefined name t vals cc cv with
        | .ok gs => gs.map IOp.gate
        | .error _ => []) := by
  induction ts with
  | nil => rfl
  | cons t ts ih =>
    obtain ⟨gs, hgs⟩ := hok t (by simp)
    have := ih (fun u hu => hd u (by simp [hu])) (fun u hu => hok u (by simp [hu]))
    simp [gateAdd.loop, hd t (by simp), hgs, this]

theorem sig_qelib {env : Env} (hg : env.gates = qelib1.reverse) {name : Str} {sg : Sig}
    (h : env.sig? name = some sg) : ∃ d ∈ qelib1, d.name = name ∧ sg = d.sig := by
  simp only [Env.sig?, hg] at h
  cases hf : qelib1.reverse.find? (fun d => d.name == name) with
  | none => simp [hf] at h
  | some d =>
    simp only [hf, Option.map_some, Option.some.injEq] at h
    have h1 := List.mem_of_find?_eq_some hf
    have h2 : d.name = name := by simpa using List.find?_some hf
    exact ⟨d, by simpa using h1, h2, h.symm⟩

/-- conditions: the importer's classical controls / value are the standard's bits / value -/
theorem cond_rel {st : Init} {env : Env} (hr : Rel st env) (c : Str) (k : Nat) (cond : Option Cond)
    (h : condOf env (some (c, k)) = .ok cond) :
    ∃ s0 n, regFind st.cregs c = some (s0, n) ∧ ccOf cond = some ((List.range n).map (s0 + ·)) ∧
      cvOf cond = some (condValue n k) := by
  simp only [condOf] at h
  cases hf : env.cregs.find? c with
  | none => simp [hf] at h
  | some v =>
    obtain ⟨s0, n⟩ := v
    simp only [hf, Except.ok.injEq] at h
    subst h
    exact ⟨s0, n, by rw [hr.c c, hf], rfl, by simp [cvOf]⟩

theorem resolveArgs_length {rs : Regs} : ∀ (qs : List Arg) (xs : List (Nat ⊕ List Nat)),
    resolveArgs rs qs = .ok xs → xs.length = qs.length := by
  intro qs
  induction qs with
  | nil => intro xs h; simp [resolveArgs] at h; subst h; rfl
  | cons a as ih =>
    intro ys h
    obtain ⟨x, xs', _, h2, rfl⟩ := resolveArgs_cons_inv h
    simp [ih xs' h2]

theorem broadcast_length {xs : List (Nat ⊕ List Nat)} {ts : List (List Nat)} (h : broadcast xs = .ok ts) :
    ∀ t ∈ ts, t.length = xs.length := by
  intro t ht
  simp only [broadcast, bind, Except.bind, pure, Except.pure] at h
  cases hb : broadcastSize xs with
  | error e => simp [hb] at h
  | ok r =>
    simp only [hb] at h
    cases r with
    | none =>
      simp only at h
      split at h
      · simp only [Except.ok.injEq] at h; subst h
        simp only [List.mem_singleton] at ht; subst ht; simp
      · cases h
    | some m =>
      simp only at h
      split at h
      · simp only [Except.ok.injEq] at h; subst h
        obtain ⟨j, _, rfl⟩ := List.mem_map.mp ht
        simp
      · cases h

/-- what the standard checks for a call -/
theorem flatten_call_inv {env : Env} {cnd : Option (Str × Nat)} {name : Str} {ps : List Expr} {qs : List Arg}
    {fl : List FlatOp} (h : flattenQOp env cnd (.call name ps qs) = .ok fl) :
    ∃ cond sg xs ts, condOf env cnd = .ok cond ∧ env.sig? name = some sg ∧ sg.np = ps.length ∧
      sg.nq = qs.length ∧ ps.all Expr.supported = true ∧ ps.all (Expr.closedIn []) = true ∧
      resolveArgs env.qregs qs = .ok xs ∧ broadcast xs = .ok ts ∧ fl = ts.map (FlatOp.call cond name ps) := by
  simp only [flattenQOp, bind, Except.bind] at h
  cases hc : condOf env cnd with
  | error e => simp [hc] at h
  | ok cond =>
    simp only [hc] at h
    cases hsig : env.sig? name with
    | none => simp [hsig] at h
    | some sg =>
      simp only [hsig] at h
      split at h
      · cases h
      · rename_i har
        split at h
        · cases h
        · rename_i hsup
          split at h
          · cases h
          · rename_i hcl
            cases hra : resolveArgs env.qregs qs with
            | error e => simp [hra] at h
            | ok xs =>
              simp only [hra] at h
              cases hbc : broadcast xs with
              | error e => simp [hbc] at h
              | ok ts =>
                simp only [hbc, Except.ok.injEq] at h
                refine ⟨cond, sg, xs, ts, rfl, rfl, ?_, ?_, ?_, ?_, rfl, hbc, h.symm⟩
                · simp only [Bool.or_eq_true, bne_iff_ne, ne_eq, decide_eq_true_eq] at har
                  omega
                · simp only [Bool.or_eq_true, bne_iff_ne, ne_eq, decide_eq_true_eq] at har
                  omega
                · simpa using hsup
                · simpa using hcl

theorem gateAdd_predef (st : Init) (known : List (Str × List IGate)) (name : Str) (ps : List Expr)
    (qs : List Arg) (cc : Option (List Nat)) (cv : Option Nat) (ts : List (List Nat))
    (hrs : regSet st qs = .ok ts) (hdup : ∀ t ∈ ts, firstDup t = false) (hpre : predefined name = true)
    (hev : evalParams ps = .ok ps)
    (har : sigOk name ps.length qs.length = true)
    (hok : ∀ t ∈ ts, ∃ gs, addPredefined name t ps cc cv = .ok gs) :
    gateAdd st known name ps qs cc cv =
      .ok (ts.flatMap (fun t => match addPredefined name t ps cc cv with
        | .ok gs => gs.map IOp.gate
        | .error _ => []), known) := by
  simp only [gateAdd, hrs, hpre, if_true, hev, har, Bool.not_true, Bool.and_false, Bool.false_eq_true, if_false,
    loop_eq name cc cv ps ts hdup hok, Except.map]

/-- a call of a `qelib1.inc` gate -/
theorem gateAdd_call {st : Init} {env : Env} (hr : Rel st env) (known : List (Str × List IGate))
    (cnd : Option (Str × Nat)) (name : Str) (ps : List Expr) (qs : List Arg) (fl : List FlatOp)
    (hqel : ∀ sg, env.sig? name = some sg → ∃ d ∈ qelib1, d.name = name ∧ sg = d.sig)
    (h : flattenQOp env cnd (.call name ps qs) = .ok fl) (hz : ∀ e ∈ ps, divZero e = false)
    (hcv : ∀ cond, condOf env cnd = .ok cond → condUnsat cond = false ∧ cvBad (ccOf cond) (cvOf cond) = false) :
    ∃ cond, condOf env cnd = .ok cond ∧ predefined name = true ∧
      gateAdd st known name ps qs (ccOf cond) (cvOf cond) = .ok (fl.flatMap gatesOf, known) := by
  obtain ⟨cond, sg, xs, ts, hcond, hsig, hnp, hnq, hsup, hcl, hra, hbc, rfl⟩ := flatten_call_inv h
  obtain ⟨d, hd, hdn, hsg⟩ := hqel sg hsig
  subst hdn
  obtain ⟨hrs, hdup⟩ := regSet_of_spec hr qs xs ts hra hbc
  have hk := List.all_eq_true.mp qelib_ok d hd
  simp only [qelibEntryOk, Bool.and_eq_true] at hk
  have hpre : predefined d.name = true := hk.1.1.1.1
  have hev := evalParams_ok ps hsup hcl hz
  have hok : ∀ t ∈ ts, ∃ gs, addPredefined d.name t ps (ccOf cond) (cvOf cond) = .ok gs := by
    intro t ht
    apply addPredefined_ok d hd t ps _ _ ?_ ?_ (hcv cond hcond).2
    · rw [broadcast_length hbc t ht, resolveArgs_length qs xs hra, ← hnq, hsg]; rfl
    · rw [← hnp, hsg]; rfl
  have hsig' : sigOf d.name = some (d.params.length, d.qargs.length) := by simpa using hk.1.1.1.2
  have har : sigOk d.name ps.length qs.length = true := by
    unfold sigOk
    rw [hsig']
    have h1 : ps.length = d.params.length := by rw [← hnp, hsg]; rfl
    have h2 : qs.length = d.qargs.length := by rw [← hnq, hsg]; rfl
    simp [h1, h2]
  refine ⟨cond, hcond, hpre, ?_⟩
  rw [gateAdd_predef st known d.name ps qs _ _ ts hrs hdup hpre hev har hok]
  simp only [List.flatMap_map, gatesOf, (hcv cond hcond).1, Bool.false_eq_true, if_false]

/-! ## the built-ins `U` and `CX` -/

theorem addPredefined_U (q : Nat) (a b l : Expr) (cc : Option (List Nat)) (cv : Option Nat)
    (hcv : cvBad cc cv = false) :
    addPredefined cs!"U" [q] [a, b, l] cc cv = .ok [⟨cs!"QASMU", [q], none, .many [a, b, l], cc, cv⟩] := by
  have := builtin_ok.2.2.1
  simp [addPredefined, this, hcv]

theorem addPredefined_CX (c t : Nat) (cc : Option (List Nat)) (cv : Option Nat) (hcv : cvBad cc cv = false) :
    addPredefined cs!"CX" [c, t] [] cc cv = .ok [⟨cs!"CNOT", [t], some [c], .none, cc, cv⟩] := by
  have := builtin_ok.2.2.2
  simp [addPredefined, this, hcv]

theorem flatMap_congr' {α β} {l : List α} {f g : α → List β} (h : ∀ x ∈ l, f x = g x) :
    l.flatMap f = l.flatMap g := by
  induction l with
  | nil => rfl
  | cons a as ih =>
    simp only [List.flatMap_cons, h a (by simp), ih (fun x hx => h x (by simp [hx]))]

theorem length_one {t : List Nat} (h : t.length = 1) : t = [t.getD 0 0] := by
  match t, h with
  | [x], _ => rfl

theorem length_two {t : List Nat} (h : t.length = 2) : t = [t.getD 0 0, t.getD 1 0] := by
  match t, h with
  | [x, y], _ => rfl

theorem flatten_U_inv {env : Env} {cnd : Option (Str × Nat)} {a b l : Expr} {q : Arg} {fl : List FlatOp}
    (h : flattenQOp env cnd (.U a b l q) = .ok fl) :
    ∃ cond xs ts, condOf env cnd = .ok cond ∧ [a, b, l].all Expr.supported = true ∧
      [a, b, l].all (Expr.closedIn []) = true ∧ resolveArgs env.qregs [q] = .ok xs ∧ broadcast xs = .ok ts ∧
      fl = ts.map (fun t => FlatOp.U cond a b l (t.getD 0 0)) := by
  simp only [flattenQOp, bind, Except.bind] at h
  cases hc : condOf env cnd with
  | error e => simp [hc] at h
  | ok cond =>
    simp only [hc] at h
    split at h
    · cases h
    · rename_i hsup
      split at h
      · cases h
      · rename_i hcl
        cases hra : resolveArgs env.qregs [q] with
        | error e => simp [hra] at h
        | ok xs =>
          simp only [hra] at h
          cases hbc : broadcast xs with
          | error e => simp [hbc] at h
          | ok ts =>
            simp only [hbc, Except.ok.injEq] at h
            refine ⟨cond, xs, ts, rfl, ?_, ?_, rfl, hbc, h.symm⟩
            · simpa [Bool.and_assoc] using hsup
            · simpa [Bool.and_assoc] using hcl

theorem gateAdd_U {st : Init} {env : Env} (hr : Rel st env) (known : List (Str × List IGate))
    (cnd : Option (Str × Nat)) (a b l : Expr) (q : Arg) (fl : List FlatOp)
    (h : flattenQOp env cnd (.U a b l q) = .ok fl) (hz : ∀ e ∈ [a, b, l], divZero e = false)
    (hcv : ∀ cond, condOf env cnd = .ok cond → condUnsat cond = false ∧ cvBad (ccOf cond) (cvOf cond) = false) :
    ∃ cond, condOf env cnd = .ok cond ∧
      gateAdd st known cs!"U" [a, b, l] [q] (ccOf cond) (cvOf cond) = .ok (fl.flatMap gatesOf, known) := by
  obtain ⟨cond, xs, ts, hcond, hsup, hcl, hra, hbc, rfl⟩ := flatten_U_inv h
  obtain ⟨hrs, hdup⟩ := regSet_of_spec hr [q] xs ts hra hbc
  have hev := evalParams_ok [a, b, l] hsup hcl hz
  have hlen : ∀ t ∈ ts, t.length = 1 := fun t ht => by
    rw [broadcast_length hbc t ht, resolveArgs_length [q] xs hra]; rfl
  have hone : ∀ t ∈ ts, addPredefined cs!"U" t [a, b, l] (ccOf cond) (cvOf cond) =
      .ok [⟨cs!"QASMU", [t.getD 0 0], none, .many [a, b, l], ccOf cond, cvOf cond⟩] := fun t ht => by
    obtain ⟨x, hx⟩ : ∃ x, t = [x] := ⟨_, length_one (hlen t ht)⟩
    subst hx
    simpa using addPredefined_U x a b l (ccOf cond) (cvOf cond) (hcv cond hcond).2
  refine ⟨cond, hcond, ?_⟩
  rw [gateAdd_predef st known cs!"U" [a, b, l] [q] _ _ ts hrs hdup builtin_ok.1 hev
    (by unfold sigOk; rw [builtin_ok.2.2.1]; rfl) (fun t ht => ⟨_, hone t ht⟩)]
  congr 1
  simp only [List.flatMap_map, Prod.mk.injEq, and_true]
  apply flatMap_congr'
  intro t ht
  simp [hone t ht, gatesOf, (hcv cond hcond).1]

theorem flatten_CX_inv {env : Env} {cnd : Option (Str × Nat)} {a b : Arg} {fl : List FlatOp}
    (h : flattenQOp env cnd (.CX a b) = .ok fl) :
    ∃ cond xs ts, condOf env cnd = .ok cond ∧ resolveArgs env.qregs [a, b] = .ok xs ∧ broadcast xs = .ok ts ∧
      fl = ts.map (fun t => FlatOp.CX cond (t.getD 0 0) (t.getD 1 0)) := by
  simp only [flattenQOp, bind, Except.bind] at h
  cases hc : condOf env cnd with
  | error e => simp [hc] at h
  | ok cond =>
    simp only [hc] at h
    cases hra : resolveArgs env.qregs [a, b] with
    | error e => simp [hra] at h
    | ok xs =>
      simp only [hra] at h
      cases hbc : broadcast xs with
      | error e => simp [hbc] at h
      | ok ts =>
        simp only [hbc, Except.ok.injEq] at h
        exact ⟨cond, xs, ts, rfl, rfl, hbc, h.symm⟩

theorem gateAdd_CX {st : Init} {env : Env} (hr : Rel st env) (known : List (Str × List IGate))
    (cnd : Option (Str × Nat)) (a b : Arg) (fl : List FlatOp)
    (h : flattenQOp env cnd (.CX a b) = .ok fl)
    (hcv : ∀ cond, condOf env cnd = .ok cond → condUnsat cond = false ∧ cvBad (ccOf cond) (cvOf cond) = false) :
    ∃ cond, condOf env cnd = .ok cond ∧
      gateAdd st known cs!"CX" [] [a, b] (ccOf cond) (cvOf cond) = .ok (fl.flatMap gatesOf, known) := by
  obtain ⟨cond, xs, ts, hcond, hra, hbc, rfl⟩ := flatten_CX_inv h
  obtain ⟨hrs, hdup⟩ := regSet_of_spec hr [a, b] xs ts hra hbc
  have hlen : ∀ t ∈ ts, t.length = 2 := fun t ht => by
    rw [broadcast_length hbc t ht, resolveArgs_length [a, b] xs hra]; rfl
  have hone : ∀ t ∈ ts, addPredefined cs!"CX" t [] (ccOf cond) (cvOf cond) =
      .ok [⟨cs!"CNOT", [t.getD 1 0], some [t.getD 0 0], .none, ccOf cond, cvOf cond⟩] := fun t ht => by
    obtain ⟨x, y, hx⟩ : ∃ x y, t = [x, y] := ⟨_, _, length_two (hlen t ht)⟩
    subst hx
    simpa using addPredefined_CX x y (ccOf cond) (cvOf cond) (hcv cond hcond).2
  refine ⟨cond, hcond, ?_⟩
  rw [gateAdd_predef st known cs!"CX" [] [a, b] _ _ ts hrs hdup builtin_ok.2.1 rfl
    (by unfold sigOk; rw [builtin_ok.2.2.2]; rfl) (fun t ht => ⟨_, hone t ht⟩)]
  congr 1
  simp only [List.flatMap_map, Prod.mk.injEq, and_true]
  apply flatMap_congr'
  intro t ht
  simp [hone t ht, gatesOf, (hcv cond hcond).1]

/-! ## measurements -/

theorem measure_of_spec {st : Init} {env : Env} (hr : Rel st env) (q c : Arg) (fl : List FlatOp)
    (h : flattenQOp env none (.measure q c) = .ok fl) : measure st q c = .ok (fl.flatMap gatesOf) := by
  simp only [flattenQOp, condOf, bind, Except.bind] at h
  cases hx : resolveArg env.qregs q with
  | error e => simp [hx] at h
  | ok x =>
    simp only [hx] at h
    cases hy : resolveArg env.cregs c with
    | error e => simp [hy] at h
    | ok y =>
      simp only [hy] at h
      cases q with
      | idx qr qi =>
        simp only [resolveArg] at hx
        cases hf : env.qregs.find? qr with
        | none => simp [hf] at hx
        | some v =>
          obtain ⟨qs, qn⟩ := v
          simp only [hf] at hx
          by_cases hi : qi < qn
          · simp only [hi, if_true, Except.ok.injEq] at hx
            subst hx
            cases c with
            | idx cr ci =>
              simp only [resolveArg] at hy
              cases hg : env.cregs.find? cr with
              | none => simp [hg] at hy
              | some w =>
                obtain ⟨cs', cn⟩ := w
                simp only [hg] at hy
                by_cases hj : ci < cn
                · simp only [hj, if_true, Except.ok.injEq] at hy
                  subst hy
                  simp only [Except.ok.injEq] at h
                  subst h
                  simp [measure, hr.q qr, hr.c cr, hf, hg, hi, hj, gatesOf]
                · simp [hj] at hy
            | whole cr =>
              simp only [resolveArg] at hy
              cases hg : env.cregs.find? cr with
              | none => simp [hg] at hy
              | some w =>
                obtain ⟨cs', cn⟩ := w
                simp only [hg, Except.ok.injEq] at hy
                subst hy
                simp at h
          · simp [hi] at hx
      | whole qr =>
        simp only [resolveArg] at hx
        cases hf : env.qregs.find? qr with
        | none => simp [hf] at hx
        | some v =>
          obtain ⟨qs, qn⟩ := v
          simp only [hf, Except.ok.injEq] at hx
          subst hx
          cases c with
          | idx cr ci =>
            simp only [resolveArg] at hy
            cases hg : env.cregs.find? cr with
            | none => simp [hg] at hy
            | some w =>
              obtain ⟨cs', cn⟩ := w
              simp only [hg] at hy
              by_cases hj : ci < cn
              · simp only [hj, if_true, Except.ok.injEq] at hy
                subst hy
                simp at h
              · simp [hj] at hy
          | whole cr =>
            simp only [resolveArg] at hy
            cases hg : env.cregs.find? cr with
            | none => simp [hg] at hy
            | some w =>
              obtain ⟨cs', cn⟩ := w
              simp only [hg, Except.ok.injEq] at hy
              subst hy
              simp only [List.length_map, List.length_range] at h
              by_cases hn : qn = cn
              · subst hn
                simp only [if_true, Except.ok.injEq] at h
                subst h
                simp only [measure, hr.q qr, hr.c cr, hf, hg, if_true, Except.ok.injEq]
                rw [List.zip_map']
                simp only [List.map_map, List.flatMap_map, gatesOf]
                generalize List.range qn = l
                induction l with
                | nil => rfl
                | cons a as ih => simp [ih]
              · simp [hn] at h

/-! ## one statement -/

/-- condition values that fit their register (what `Gate.__init__` insists on); the repaired importer
(`Gen.ifSkipsUnsat`: such a statement adds nothing) needs no restriction -/
def ifRangeOk (env : Env) : Stmt → Prop
  | .ifc c k _ => Gen.ifSkipsUnsat = true ∨ ∀ s0 n, env.cregs.find? c = some (s0, n) → k < 2 ^ n
  | _ => True

theorem cvBad_none : ∀ cond, condOf env none = .ok cond →
    condUnsat cond = false ∧ cvBad (ccOf cond) (cvOf cond) = false := by
  intro cond h
  simp only [condOf, Except.ok.injEq] at h
  subst h
  simp [cvBad, ccOf, cvOf, condUnsat]

theorem condValue_lt (n k : Nat) (h : k < 2 ^ n) : condValue n k < 2 ^ n := by
  unfold condValue
  split
  · exact QipVerif.C04.pyRevBits_lt n k h
  · exact h

/-- a condition that is not skipped has a value that fits the register -/
theorem cond_fits {env : Env} {c : Str} {k s0 n : Nat} (hf : env.cregs.find? c = some (s0, n))
    (hk : ifRangeOk env (.ifc c k op)) (hs : condSkipped n k = false) : k < 2 ^ n := by
  rcases hk with hk | hk
  · simp only [condSkipped, hk, Bool.true_and, decide_eq_false_iff_not] at hs
    omega
  · exact hk s0 n hf

theorem cvBad_some {env : Env} {c : Str} {k s0 n : Nat} (hf : env.cregs.find? c = some (s0, n))
    (hlt : k < 2 ^ n) (hs : condSkipped n k = false) :
    ∀ cond, condOf env (some (c, k)) = .ok cond →
      condUnsat cond = false ∧ cvBad (ccOf cond) (cvOf cond) = false := by
  intro cond h
  simp only [condOf, hf, Except.ok.injEq] at h
  subst h
  have := condValue_lt n k hlt
  refine ⟨by simpa [condUnsat] using hs, ?_⟩
  simp only [cvBad, ccOf, cvOf, Option.map_some, List.length_map, List.length_range, Bool.and_eq_false_iff,
    decide_eq_false_iff_not]
  right; omega

/-- a gate operation (what `if` may condition in the class) -/
def isGateOp : QOp → Bool
  | .U .. | .CX .. | .call .. => true
  | _ => false

/-- **one gate operation** under a condition the importer does not skip -/
theorem qopAdd_gate {st : Init} {env : Env} (hr : Rel st env) (hg : env.gates = qelib1.reverse)
    (known : List (Str × List IGate))
    (cnd : Option (Str × Nat)) (viaIf : Bool) (op : QOp) (hop : isGateOp op = true) (fl : List FlatOp)
    (h : flattenQOp env cnd op = .ok fl)
    (hz : ∀ e ∈ paramsOf (.qop op), divZero e = false)
    (hcv : ∀ cond, condOf env cnd = .ok cond → condUnsat cond = false ∧ cvBad (ccOf cond) (cvOf cond) = false) :
    ∃ cond, condOf env cnd = .ok cond ∧
      qopAdd st known (ccOf cond) (cvOf cond) viaIf op = .ok (fl.flatMap gatesOf, known) := by
  cases op with
  | U a b l q =>
    obtain ⟨cond, hc, hg⟩ := gateAdd_U hr known cnd a b l q fl h hz hcv
    exact ⟨cond, hc, by simpa [qopAdd] using hg⟩
  | CX a b =>
    obtain ⟨cond, hc, hg⟩ := gateAdd_CX hr known cnd a b fl h hcv
    exact ⟨cond, hc, by simpa [qopAdd] using hg⟩
  | call n ps qs =>
    obtain ⟨cond, hc, hpre, hga⟩ := gateAdd_call hr known cnd n ps qs fl (fun sg hs => sig_qelib hg hs) h hz hcv
    have : isGateName st.defs n = true := by simp [isGateName, hpre]
    exact ⟨cond, hc, by simpa [qopAdd, this] using hga⟩
  | measure q c => simp [isGateOp] at hop
  | reset q => simp [isGateOp] at hop

theorem flatMap_nil_of {α β} {l : List α} {f : α → List β} (h : ∀ x ∈ l, f x = []) : l.flatMap f = [] := by
  induction l with
  | nil => rfl
  | cons a as ih => simp [h a (by simp), ih (fun x hx => h x (by simp [hx]))]

/-- the flat operations of a conditioned gate operation: the same statement without the condition is
accepted as well, and under a condition the repaired importer skips none of them yields a gate -/
theorem flattenQOp_skipped {env : Env} {c : Str} {k : Nat} (op : QOp) (hop : isGateOp op = true)
    (fl : List FlatOp) (h : flattenQOp env (some (c, k)) op = .ok fl) :
    (∃ fl0, flattenQOp env none op = .ok fl0) ∧
      ∀ cond, condOf env (some (c, k)) = .ok cond → condUnsat cond = true → fl.flatMap gatesOf = [] := by
  cases op with
  | U a b l q =>
    obtain ⟨cond, xs, ts, hcond, hsup, hcl, hra, hbc, rfl⟩ := flatten_U_inv h
    refine ⟨⟨ts.map (fun t => FlatOp.U none a b l (t.getD 0 0)), ?_⟩, ?_⟩
    · obtain ⟨s1, s2, s3⟩ : a.supported = true ∧ b.supported = true ∧ l.supported = true := by simpa using hsup
      obtain ⟨c1, c2, c3⟩ : a.closedIn [] = true ∧ b.closedIn [] = true ∧ l.closedIn [] = true := by
        simpa using hcl
      simp [flattenQOp, condOf, bind, Except.bind, s1, s2, s3, c1, c2, c3, hra, hbc]
    · intro cond' hc' hun
      rw [hcond] at hc'; cases hc'
      exact flatMap_nil_of (fun f hf => by
        obtain ⟨t, _, rfl⟩ := List.mem_map.mp hf
        simp [gatesOf, hun])
  | CX a b =>
    obtain ⟨cond, xs, ts, hcond, hra, hbc, rfl⟩ := flatten_CX_inv h
    refine ⟨⟨ts.map (fun t => FlatOp.CX none (t.getD 0 0) (t.getD 1 0)), ?_⟩, ?_⟩
    · simp [flattenQOp, condOf, bind, Except.bind, hra, hbc]
    · intro cond' hc' hun
      rw [hcond] at hc'; cases hc'
      exact flatMap_nil_of (fun f hf => by
        obtain ⟨t, _, rfl⟩ := List.mem_map.mp hf
        simp [gatesOf, hun])
  | call n ps qs =>
    obtain ⟨cond, sg, xs, ts, hcond, hsig, hnp, hnq, hsup, hcl, hra, hbc, rfl⟩ := flatten_call_inv h
    refine ⟨⟨ts.map (FlatOp.call none n ps), ?_⟩, ?_⟩
    · simp [flattenQOp, condOf, bind, Except.bind, hsig, hnp, hnq, hsup, hcl, hra, hbc]
    · intro cond' hc' hun
      rw [hcond] at hc'; cases hc'
      exact flatMap_nil_of (fun f hf => by
        obtain ⟨t, _, rfl⟩ := List.mem_map.mp hf
        simp [gatesOf, hun])
  | measure q c => simp [isGateOp] at hop
  | reset q => simp [isGateOp] at hop

theorem flattenStmt_op {st : Init} {env env' : Env} (hr : Rel st env) (hgt : env.gates = qelib1.reverse)
    (known : List (Str × List IGate))
    (s : Stmt) (hop : isOp s = true) (hnb : notBarrier s = true) (fl : List FlatOp)
    (h : flattenStmt env s = .ok (env', fl)) (hz : ∀ e ∈ paramsOf s, divZero e = false)
    (hk : ifRangeOk env s) :
    env' = env ∧ stepStmt st known s = .ok (fl.flatMap gatesOf, known) := by
  cases s with
  | qop op =>
    simp only [flattenStmt, bind, Except.bind] at h
    cases hq : flattenQOp env none op with
    | error e => simp [hq] at h
    | ok fl' =>
      simp only [hq, Except.ok.injEq, Prod.mk.injEq] at h
      obtain ⟨rfl, rfl⟩ := h
      refine ⟨rfl, ?_⟩
      by_cases hg : isGateOp op = true
      · obtain ⟨cond, hc, hadd⟩ := qopAdd_gate hr hgt known none false op hg fl' hq
          (by cases op <;> simpa [paramsOf] using hz) cvBad_none
        simp only [condOf, Except.ok.injEq] at hc
        subst hc
        simpa [stepStmt, ccOf, cvOf] using hadd
      · cases op with
        | measure q c =>
          have := measure_of_spec hr q c fl' hq
          simp [stepStmt, qopAdd, this, Except.map]
        | reset q => simp [isOp] at hop
        | _ => simp [isGateOp] at hg
  | ifc c k op =>
    simp only [flattenStmt, bind, Except.bind] at h
    cases hq : flattenQOp env (some (c, k)) op with
    | error e => simp [hq] at h
    | ok fl' =>
      simp only [hq, Except.ok.injEq, Prod.mk.injEq] at h
      obtain ⟨rfl, rfl⟩ := h
      refine ⟨rfl, ?_⟩
      have hg : isGateOp op = true := by cases op <;> simp_all [isOp, isGateOp]
      -- the classical register of the condition
      obtain ⟨s0, n, hfe⟩ : ∃ s0 n, env.cregs.find? c = some (s0, n) := by
        cases hfe : env.cregs.find? c with
        | some v => exact ⟨v.1, v.2, rfl⟩
        | none =>
          exfalso
          cases op <;> simp_all [flattenQOp, condOf, bind, Except.bind, isGateOp]
      have hf : regFind st.cregs c = some (s0, n) := by rw [hr.c c, hfe]
      have hzz : ∀ e ∈ paramsOf (.qop op), divZero e = false := by
        cases op <;> simpa [paramsOf] using hz
      by_cases hs : condSkipped n k = true
      · -- repaired variant, value out of range: the operation is checked, nothing is added
        obtain ⟨⟨fl0, h0⟩, hnil⟩ := flattenQOp_skipped op hg fl' hq
        obtain ⟨cond0, hc0, hadd⟩ := qopAdd_gate hr hgt known none true op hg fl0 h0 hzz cvBad_none
        simp only [condOf, Except.ok.injEq] at hc0
        subst hc0
        have hemp : fl'.flatMap gatesOf = [] := by
          apply hnil (some ⟨(List.range n).map (s0 + ·), k⟩) (by simp [condOf, hfe])
          simpa [condUnsat] using hs
        simp only [ccOf, cvOf, Option.map_none] at hadd
        simp [stepStmt, hf, hs, hadd, hemp, Except.map]
      · have hs' : condSkipped n k = false := by simpa using hs
        have hlt := cond_fits hfe hk hs'
        obtain ⟨cond, hc, hadd⟩ := qopAdd_gate hr hgt known (some (c, k)) true op hg fl' hq hzz
          (cvBad_some hfe hlt hs')
        simp only [condOf, hfe, Except.ok.injEq] at hc
        subst hc
        simpa [stepStmt, hf, hs', ccOf, cvOf] using hadd
  | barrier qs => simp [notBarrier] at hnb
  | _ => simp [isOp] at hop

/-! ## the operations of a program -/

theorem flattenFrom_cons_inv {env env2 : Env} {s : Stmt} {ss : List Stmt} {ops : List FlatOp}
    (h : flattenFrom env (s :: ss) = .ok (env2, ops)) :
    ∃ env1 o1 o2, flattenStmt env s = .ok (env1, o1) ∧ flattenFrom env1 ss = .ok (env2, o2) ∧ ops = o1 ++ o2 := by
  simp only [flattenFrom, bind, Except.bind] at h
  cases h1 : flattenStmt env s with
  | error e => simp [h1] at h
  | ok r =>
    obtain ⟨env1, o1⟩ := r
    simp only [h1] at h
    cases h2 : flattenFrom env1 ss with
    | error e => simp [h2] at h
    | ok r2 =>
      obtain ⟨env2', o2⟩ := r2
      simp only [h2, Except.ok.injEq, Prod.mk.injEq] at h
      obtain ⟨rfl, rfl⟩ := h
      exact ⟨env1, o1, o2, rfl, h2, rfl⟩

theorem flattenFrom_append_inv {env env2 : Env} {a b : List Stmt} {ops : List FlatOp}
    (h : flattenFrom env (a ++ b) = .ok (env2, ops)) :
    ∃ env1 o1 o2, flattenFrom env a = .ok (env1, o1) ∧ flattenFrom env1 b = .ok (env2, o2) ∧ ops = o1 ++ o2 := by
  induction a generalizing env ops with
  | nil => exact ⟨env, [], ops, rfl, by simpa using h, rfl⟩
  | cons s ss ih =>
    obtain ⟨e1, p1, p2, h1, h2, rfl⟩ := flattenFrom_cons_inv (by simpa using h)
    obtain ⟨e2, q1, q2, h3, h4, rfl⟩ := ih h2
    exact ⟨e2, p1 ++ q1, q2, by simp [flattenFrom, bind, Except.bind, h1, h3], h4, by simp⟩

/-- operations leave the environment of the standard unchanged -/
theorem flattenFrom_ops_env : ∀ (ops : List Stmt) (env env' : Env) (fl : List FlatOp), ops.all isOp = true →
    flattenFrom env ops = .ok (env', fl) → env' = env := by
  intro ops
  induction ops with
  | nil =>
    intro env env' fl _ h
    simp only [flattenFrom, Except.ok.injEq, Prod.mk.injEq] at h
    exact h.1.symm
  | cons s ss ih =>
    intro env env' fl hall h
    simp only [List.all_cons, Bool.and_eq_true] at hall
    obtain ⟨e1, o1, o2, h1, h2, rfl⟩ := flattenFrom_cons_inv h
    have he1 : e1 = env := by
      cases s with
      | qop op =>
        simp only [flattenStmt, bind, Except.bind] at h1
        cases hq : flattenQOp env none op with
        | error e => simp [hq] at h1
        | ok r => simp only [hq, Except.ok.injEq, Prod.mk.injEq] at h1; exact h1.1.symm
      | ifc c k op =>
        simp only [flattenStmt, bind, Except.bind] at h1
        cases hq : flattenQOp env (some (c, k)) op with
        | error e => simp [hq] at h1
        | ok r => simp only [hq, Except.ok.injEq, Prod.mk.injEq] at h1; exact h1.1.symm
      | barrier qs =>
        simp only [flattenStmt, bind, Except.bind] at h1
        cases hra : resolveArgs env.qregs qs with
        | error e => simp [hra] at h1
        | ok xs => simp only [hra, Except.ok.injEq, Prod.mk.injEq] at h1; exact h1.1.symm
      | _ => simp [isOp] at hall
    subst he1
    exact ih e1 env' o2 hall.2 h2

/-- the operations: the importer's second pass adds the gates of the flat operations, in order -/
theorem finalPass_ops {st : Init} {env : Env} (hr : Rel st env) (hgt : env.gates = qelib1.reverse)
    (known : List (Str × List IGate)) :
    ∀ (ops : List Stmt) (env' : Env) (fl : List FlatOp), ops.all isOp = true →
      (∀ s ∈ ops, ∀ e ∈ paramsOf s, divZero e = false) → (∀ s ∈ ops, ifRangeOk env s) →
      flattenFrom env ops = .ok (env', fl) →
      env' = env ∧ finalPass st (ops.filter keepStmt) known = .ok (fl.flatMap gatesOf) := by
  intro ops
  induction ops with
  | nil =>
    intro env' fl _ _ _ h
    simp only [flattenFrom, Except.ok.injEq, Prod.mk.injEq] at h
    obtain ⟨rfl, rfl⟩ := h
    exact ⟨rfl, rfl⟩
  | cons s ss ih =>
    intro env' fl hall hz hkk h
    simp only [List.all_cons, Bool.and_eq_true] at hall
    obtain ⟨e1, o1, o2, h1, h2, rfl⟩ := flattenFrom_cons_inv h
    by_cases hb : notBarrier s = true
    · obtain ⟨he, hstep⟩ := flattenStmt_op hr hgt known s hall.1 hb o1 h1 (hz s (by simp)) (hkk s (by simp))
      subst he
      obtain ⟨he2, hfin⟩ := ih env' o2 hall.2 (fun t ht => hz t (by simp [ht])) (fun t ht => hkk t (by simp [ht])) h2
      refine ⟨he2, ?_⟩
      have hkeep : keepStmt s = true := by cases s <;> simp_all [keepStmt, notBarrier]
      simp only [List.filter_cons, hkeep, if_true]
      rw [finalPass_cons, hstep]
      simp [hfin]
    · -- a barrier: no flat gate, not passed to the second pass
      cases s with
      | barrier qs =>
        simp only [flattenStmt, bind, Except.bind] at h1
        cases hra : resolveArgs env.qregs qs with
        | error e => simp [hra] at h1
        | ok xs =>
          simp only [hra, Except.ok.injEq, Prod.mk.injEq] at h1
          obtain ⟨rfl, rfl⟩ := h1
          obtain ⟨he2, hfin⟩ := ih env' o2 hall.2 (fun t ht => hz t (by simp [ht]))
            (fun t ht => hkk t (by simp [ht])) h2
          refine ⟨he2, ?_⟩
          cases hflag : Gen.barrierChecked with
          | false => simp [List.filter_cons, keepStmt, hflag, hfin, gatesOf]
          | true =>
            -- repaired variant: the barrier reaches the second pass, which resolves its operands
            obtain ⟨ex', hres⟩ := resolveQs_nochk hr qs xs hra none
            simp only [List.filter_cons, keepStmt, hflag, if_true]
            rw [finalPass_cons]
            simp [stepStmt, hflag, barrierCheck, hres, Except.map, hfin, gatesOf]
      | _ => simp [notBarrier] at hb

/-! ## the first pass -/

theorem initPass_ops (ops : List Stmt) (st : Init) (hall : ops.all isOp = true) :
    initPass ops st = .ok { st with rest := st.rest.reverse ++ ops.filter keepStmt } := by
  induction ops generalizing st with
  | nil => simp [initPass]
  | cons s ss ih =>
    simp only [List.all_cons, Bool.and_eq_true] at hall
    cases s with
    | barrier qs =>
      cases hflag : Gen.barrierChecked with
      | false =>
        simp only [initPass, List.filter_cons, keepStmt, hflag, Bool.false_eq_true, if_false]
        exact ih st hall.2
      | true =>
        simp only [initPass, List.filter_cons, keepStmt, hflag, if_true]
        rw [ih _ hall.2]
        simp
    | qop op =>
      cases op with
      | reset q => simp [isOp] at hall
      | _ =>
        simp only [initPass, List.filter_cons, keepStmt, if_true]
        rw [ih _ hall.2]
        simp
    | ifc c k op =>
      simp only [initPass, List.filter_cons, keepStmt, if_true]
      rw [ih _ hall.2]
      simp
    | _ => simp [isOp] at hall

/-- declarations: both sides register the same names at the same offsets -/
theorem decls_rel : ∀ (decls : List Stmt) (st : Init) (env env' : Env) (fl : List FlatOp),
    decls.all isDecl = true → Rel st env → flattenFrom env decls = .ok (env', fl) →
    ∃ st', (∀ tail, initPass (decls ++ tail) st = initPass tail st') ∧ Rel st' env' ∧ fl = [] ∧
      st'.rest = st.rest ∧ st'.defs = st.defs ∧ env'.gates = env.gates := by
  intro decls
  induction decls with
  | nil =>
    intro st env env' fl _ hr h
    simp only [flattenFrom, Except.ok.injEq, Prod.mk.injEq] at h
    obtain ⟨rfl, rfl⟩ := h
    exact ⟨st, fun _ => rfl, hr, rfl, rfl, rfl, rfl⟩
  | cons d ds ih =>
    intro st env env' fl hall hr h
    simp only [List.all_cons, Bool.and_eq_true] at hall
    obtain ⟨e1, o1, o2, h1, h2, rfl⟩ := flattenFrom_cons_inv h
    cases d with
    | qreg n k =>
      have hk : Gen.emptyRegOk = true ∨ 0 < k := by simpa [isDecl] using hall.1
      simp only [flattenStmt] at h1
      split at h1
      · cases h1
      · rename_i hnew
        simp only [Except.ok.injEq, Prod.mk.injEq] at h1
        obtain ⟨rfl, rfl⟩ := h1
        have hq : env.qregs.find? n = none := by
          cases hf : env.qregs.find? n <;> simp_all
        have hr' : Rel { st with qregs := (n, st.nq, k) :: st.qregs, nq := st.nq + k }
            { env with qregs := env.qregs.add n k } := by
          refine ⟨fun r => ?_, hr.c, ?_, hr.nc, ?_⟩
          · rw [regFind_cons, regs_find_add _ _ _ _ hq, hr.q r, hr.nq]
          · simp [Regs.add, hr.nq]
          · intro hflag r s m hfind
            rw [regs_find_add _ _ _ _ hq] at hfind
            by_cases he : (n == r) = true
            · simp only [he, if_true, Option.some.injEq, Prod.mk.injEq] at hfind
              rcases hk with hk | hk
              · rw [hflag] at hk; cases hk
              · omega
            · simp only [he] at hfind
              exact hr.pos hflag r s m hfind
        obtain ⟨st', hi, hrel, hfl, hrest, hdefs, hgates⟩ := ih _ _ env' o2 hall.2 hr' h2
        have hnd : regDeclared st n = false := by
          simp only [regDeclared, hr.q n, hr.c n]
          simpa using hnew
        exact ⟨st', fun tail => by simpa [initPass, hnd] using hi tail, hrel, by simp [hfl], hrest, hdefs, hgates⟩
    | creg n k =>
      simp only [flattenStmt] at h1
      split at h1
      · cases h1
      · rename_i hnew
        simp only [Except.ok.injEq, Prod.mk.injEq] at h1
        obtain ⟨rfl, rfl⟩ := h1
        have hq : env.cregs.find? n = none := by
          cases hf : env.cregs.find? n <;> simp_all
        have hr' : Rel { st with cregs := (n, st.nc, k) :: st.cregs, nc := st.nc + k }
            { env with cregs := env.cregs.add n k } := by
          refine ⟨hr.q, fun r => ?_, hr.nq, ?_, hr.pos⟩
          · rw [regFind_cons, regs_find_add _ _ _ _ hq, hr.c r, hr.nc]
          · simp [Regs.add, hr.nc]
        obtain ⟨st', hi, hrel, hfl, hrest, hdefs, hgates⟩ := ih _ _ env' o2 hall.2 hr' h2
        have hnd : regDeclared st n = false := by
          simp only [regDeclared, hr.q n, hr.c n]
          simpa using hnew
        exact ⟨st', fun tail => by simpa [initPass, hnd] using hi tail, hrel, by simp [hfl], hrest, hdefs, hgates⟩
    | _ => simp [isDecl] at hall

/-- **the class W₀** -/
structure W0 (p : Program) : Prop where
  shape : ∃ decls ops, p = .version :: .incl cs!"qelib1.inc" :: (decls ++ ops) ∧
    decls.all isDecl = true ∧ ops.all isOp = true
  noZeroDiv : ∀ s ∈ p, ∀ e ∈ paramsOf s, divZero e = false

/-- **refinement**: for a program of W₀ accepted by the standard, the importer model returns the
library gates of the standard's flat operations, in order, on registers of the same sizes -/
theorem import_refines (p : Program) (hw : W0 p) (env : Env) (fl : List FlatOp)
    (h : flatten p = .ok (env, fl)) (hk : ∀ s ∈ p, ifRangeOk env s) :
    importProgram p = .ok (env.qregs.total, env.cregs.total, fl.flatMap gatesOf) := by
  obtain ⟨decls, ops, rfl, hd, ho⟩ := hw.shape
  have hz := hw.noZeroDiv
  -- the standard: header, then declarations, then operations
  obtain ⟨e0, o0, o1, h0, h1, rfl⟩ := flattenFrom_cons_inv (by simpa [flatten] using h)
  simp only [flattenStmt, Except.ok.injEq, Prod.mk.injEq] at h0
  obtain ⟨rfl, rfl⟩ := h0
  obtain ⟨e1, o2, o3, h2, h3, rfl⟩ := flattenFrom_cons_inv h1
  have hinc : flattenStmt ({} : Env) (.incl cs!"qelib1.inc") =
      .ok ({ ({} : Env) with gates := qelib1.reverse }, []) := rfl
  rw [hinc] at h2
  simp only [Except.ok.injEq, Prod.mk.injEq] at h2
  obtain ⟨rfl, rfl⟩ := h2
  obtain ⟨e2, o4, o5, h4, h5, rfl⟩ := flattenFrom_append_inv h3
  have hr0 : Rel ({} : Init) { ({} : Env) with gates := qelib1.reverse } :=
    ⟨fun _ => rfl, fun _ => rfl, rfl, rfl, fun _ r s n hh => by simp [Regs.find?] at hh⟩
  obtain ⟨st', hi, hrel, hfl, hrest, _, hgates⟩ := decls_rel decls {} _ e2 o4 hd hr0 h4
  subst hfl
  have hzo : ∀ s ∈ ops, ∀ e ∈ paramsOf s, divZero e = false := fun s hs => hz s (by simp [hs])
  have hinit : initPass (.incl cs!"qelib1.inc" :: (decls ++ ops)) {} =
      .ok { st' with rest := ops.filter keepStmt } := by
    have : st'.rest = [] := hrest
    simp only [initPass]
    rw [hi ops, initPass_ops ops st' ho, this]
    simp
  have hrel' : Rel { st' with rest := ops.filter keepStmt } e2 :=
    ⟨hrel.q, hrel.c, hrel.nq, hrel.nc, hrel.pos⟩
  have hee : env = e2 := flattenFrom_ops_env ops e2 env o5 ho h5
  subst hee
  obtain ⟨he, hfin⟩ := finalPass_ops hrel' hgates initialKnown ops env o5 ho hzo
    (fun s hs => hk s (by simp [hs])) h5
  simp only [importProgram, hinit]
  rw [hfin]
  simp [hrel.nq, hrel.nc]

end QipVerif.Qasm.Import
