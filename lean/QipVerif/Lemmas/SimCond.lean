import QipVerif.Model.Sim
/-!
# The classical-condition test (`_decimal_to_binary`, `_check_classical_control_value`)

`checkCCV cs v bits` compares `bits[cs i]` with the `i`-th of the `k = |cs|` binary digits of `v`,
most significant first.  For `v < 2^k` and bits in `{0,1}` this is the integer comparison
`Σ bits[cs i]·2^(k-1-i) = v`.
-/
namespace QipVerif.Sim
open QipVerif.Heap

/-- value of a digit list, most significant first: `Σ dᵢ·2^(k-1-i)` -/
def valMSB (l : List Nat) : Nat := l.foldl (fun acc b => 2 * acc + b) 0

/-- value of a digit list, least significant first -/
def valLE : List Nat → Nat
  | [] => 0
  | b :: bs => b + 2 * valLE bs

theorem foldl_val (l : List Nat) (a : Nat) :
    l.foldl (fun acc b => 2 * acc + b) a = a * 2 ^ l.length + l.foldl (fun acc b => 2 * acc + b) 0 := by
  induction l generalizing a with
  | nil => simp
  | cons b bs ih =>
    simp only [List.foldl_cons, List.length_cons]
    rw [ih (2 * a + b), ih (2 * 0 + b)]
    rw [Nat.pow_succ]
    simp only [Nat.mul_zero, Nat.zero_add]
    rw [Nat.add_mul, Nat.add_assoc]
    congr 1
    ac_rfl

theorem valMSB_cons (b : Nat) (bs : List Nat) : valMSB (b :: bs) = b * 2 ^ bs.length + valMSB bs := by
  unfold valMSB
  simp only [List.foldl_cons, Nat.mul_zero, Nat.zero_add]
  exact foldl_val bs b

theorem valMSB_append_single (l : List Nat) (b : Nat) : valMSB (l ++ [b]) = 2 * valMSB l + b := by
  unfold valMSB; simp [List.foldl_append]

theorem valMSB_reverse (l : List Nat) : valMSB l.reverse = valLE l := by
  induction l with
  | nil => rfl
  | cons b bs ih => rw [List.reverse_cons, valMSB_append_single, ih]; simp [valLE]; omega

theorem valMSB_replicate_zero (n : Nat) (l : List Nat) : valMSB (List.replicate n 0 ++ l) = valMSB l := by
  induction n with
  | zero => simp
  | succ n ih => rw [List.replicate_succ, List.cons_append, valMSB_cons, ih]; simp

theorem valLE_bitsLE (fuel n : Nat) (h : n ≤ fuel) : valLE (bitsLE fuel n) = n := by
  induction fuel generalizing n with
  | zero => have : n = 0 := by omega
            subst this; rfl
  | succ f ih =>
    unfold bitsLE
    by_cases hn : n = 0
    · simp [hn, valLE]
    · simp only [hn, ↓reduceIte, valLE]
      rw [ih (n / 2) (by omega)]
      omega

theorem bitsLE_le_one (fuel n : Nat) : ∀ d ∈ bitsLE fuel n, d ≤ 1 := by
  induction fuel generalizing n with
  | zero => intro d hd; simp [bitsLE] at hd
  | succ f ih =>
    intro d hd
    unfold bitsLE at hd
    by_cases hn : n = 0
    · simp [hn] at hd
    · simp only [hn, ↓reduceIte, List.mem_cons] at hd
      rcases hd with rfl | hd
      · omega
      · exact ih _ d hd

theorem bitsLE_length (fuel n k : Nat) (h : n < 2 ^ k) : (bitsLE fuel n).length ≤ k := by
  induction fuel generalizing n k with
  | zero => simp [bitsLE]
  | succ f ih =>
    unfold bitsLE
    by_cases hn : n = 0
    · simp [hn]
    · simp only [hn, ↓reduceIte, List.length_cons]
      cases k with
      | zero => simp at h; omega
      | succ k =>
        have : n / 2 < 2 ^ k := by rw [Nat.pow_succ] at h; omega
        have := ih (n / 2) k this
        omega

theorem valMSB_binDigits (n : Nat) : valMSB (binDigits n) = n := by
  unfold binDigits
  by_cases hn : n = 0
  · simp [hn, valMSB]
  · simp only [hn, ↓reduceIte]
    rw [valMSB_reverse, valLE_bitsLE n n (Nat.le_refl n)]

theorem binDigits_le_one (n : Nat) : ∀ d ∈ binDigits n, d ≤ 1 := by
  unfold binDigits
  by_cases hn : n = 0
  · simp [hn]
  · simp only [hn, ↓reduceIte, List.mem_reverse]
    exact bitsLE_le_one n n

theorem binDigits_length (n k : Nat) (h : n < 2 ^ k) (hk : 0 < k) : (binDigits n).length ≤ k := by
  unfold binDigits
  by_cases hn : n = 0
  · simp [hn]; omega
  · simp only [hn, ↓reduceIte, List.length_reverse]
    exact bitsLE_length n n k h

/-- the digit list that `_decimal_to_binary(v, k)` returns for `0 ≤ v` -/
def d2b (v k : Nat) : List Nat := List.replicate (k - (binDigits v).length) 0 ++ binDigits v

theorem decimalToBinary_ofNat (v k : Nat) : decimalToBinary (v : Int) k = .ok (d2b v k) := by
  unfold decimalToBinary d2b
  have : ¬ ((v : Int) < 0) := by omega
  simp [this]

theorem d2b_val (v k : Nat) : valMSB (d2b v k) = v := by
  unfold d2b; rw [valMSB_replicate_zero, valMSB_binDigits]

theorem d2b_le_one (v k : Nat) : ∀ d ∈ d2b v k, d ≤ 1 := by
  intro d hd
  unfold d2b at hd
  rcases List.mem_append.mp hd with h | h
  · have := (List.mem_replicate.mp h).2; omega
  · exact binDigits_le_one v d h

theorem d2b_length (v k : Nat) (h : v < 2 ^ k) (hk : 0 < k) : (d2b v k).length = k := by
  unfold d2b
  have := binDigits_length v k h hk
  simp only [List.length_append, List.length_replicate]
  omega

/-- two digit lists over `{0,1}` of the same length with the same value are equal -/
theorem valMSB_inj : ∀ (a b : List Nat), a.length = b.length → (∀ d ∈ a, d ≤ 1) → (∀ d ∈ b, d ≤ 1) →
    valMSB a = valMSB b → a = b
  | [], [], _, _, _, _ => rfl
  | [], _ :: _, h, _, _, _ => by simp at h
  | _ :: _, [], h, _, _, _ => by simp at h
  | x :: xs, y :: ys, hl, ha, hb, hv => by
    have hl' : xs.length = ys.length := by simpa using hl
    rw [valMSB_cons, valMSB_cons, hl'] at hv
    have hx : x ≤ 1 := ha x (List.mem_cons_self ..)
    have hy : y ≤ 1 := hb y (List.mem_cons_self ..)
    have bound : ∀ l : List Nat, (∀ d ∈ l, d ≤ 1) → valMSB l < 2 ^ l.length := by
      intro l
      induction l with
      | nil => intro _; simp [valMSB]
      | cons z zs ih =>
        intro hz
        rw [valMSB_cons, List.length_cons, Nat.pow_succ]
        have h1 := ih (fun d hd => hz d (List.mem_cons_of_mem _ hd))
        have h2 : z ≤ 1 := hz z (List.mem_cons_self ..)
        have : z * 2 ^ zs.length ≤ 1 * 2 ^ zs.length := Nat.mul_le_mul_right _ h2
        omega
    have bx := bound xs (fun d hd => ha d (List.mem_cons_of_mem _ hd))
    have by_ := bound ys (fun d hd => hb d (List.mem_cons_of_mem _ hd))
    rw [hl'] at bx
    have hxy : x = y := by
      rcases Nat.lt_or_ge x y with h | h
      · have hx0 : x = 0 := by omega
        have hy1 : y = 1 := by omega
        subst hx0 hy1; simp at hv; omega
      · rcases Nat.lt_or_ge y x with h' | h'
        · have hy0 : y = 0 := by omega
          have hx1 : x = 1 := by omega
          subst hy0 hx1; simp at hv; omega
        · omega
    subst hxy
    have : valMSB xs = valMSB ys := by omega
    rw [valMSB_inj xs ys hl' (fun d hd => ha d (List.mem_cons_of_mem _ hd))
      (fun d hd => hb d (List.mem_cons_of_mem _ hd)) this]

/-- the loop over in-range, non-negative control indices compares the bits read with the digits -/
theorem matchLoop_eq (bits : List Int) : ∀ (cs : List Nat) (conds : List Nat), cs.length ≤ conds.length →
    (∀ c ∈ cs, c < bits.length) →
    matchLoop bits (cs.map Int.ofNat) conds =
      .ok (decide (cs.map (fun c => bits.getD c 0) = (conds.take cs.length).map Int.ofNat))
  | [], conds, _, _ => by simp [matchLoop]
  | c :: cs, [], h, _ => by simp at h
  | c :: cs, d :: ds, h, hr => by
    have hc : c < bits.length := hr c (List.mem_cons_self ..)
    have hget : pyGet bits (Int.ofNat c) = some (bits.getD c 0) := by
      unfold pyGet pyIdx
      simp [hc, List.getD_eq_getElem?_getD]
    simp only [List.map_cons, matchLoop, hget]
    rw [matchLoop_eq bits cs ds (by simpa using h) (fun x hx => hr x (List.mem_cons_of_mem _ hx))]
    simp only [List.length_cons, List.take_succ_cons, List.map_cons, List.cons.injEq, Int.ofNat_eq_natCast]
    congr 1
    by_cases h1 : bits.getD c 0 = (d : Int) <;> simp

/-- **The condition test is the integer comparison, first listed bit most significant.** -/
theorem checkCCV_spec (cs : List Nat) (v : Nat) (bits : List Int)
    (hv : v < 2 ^ cs.length) (hr : ∀ c ∈ cs, c < bits.length)
    (hb : ∀ c ∈ cs, bits.getD c 0 = 0 ∨ bits.getD c 0 = 1) :
    checkCCV (cs.map Int.ofNat) (v : Int) (some bits)
      = .ok (decide (valMSB (cs.map fun c => (bits.getD c 0).toNat) = v)) := by
  unfold checkCCV
  rw [List.length_map, decimalToBinary_ofNat]
  simp only
  by_cases hk : cs.length = 0
  · have hcs : cs = [] := List.length_eq_zero_iff.mp hk
    subst hcs
    have : v = 0 := by simpa using hv
    subst this
    simp [matchLoop, valMSB]
  · have hk' : 0 < cs.length := Nat.pos_of_ne_zero hk
    have hlen := d2b_length v cs.length hv hk'
    rw [matchLoop_eq bits cs (d2b v cs.length) (by omega) hr]
    have htake : (d2b v cs.length).take cs.length = d2b v cs.length := by
      rw [List.take_of_length_le (by omega)]
    rw [htake]
    congr 1
    apply decide_eq_decide.mpr
    constructor
    · intro h
      have : cs.map (fun c => (bits.getD c 0).toNat) = d2b v cs.length := by
        have := congrArg (List.map Int.toNat) h
        simpa [List.map_map, Function.comp_def] using this
      rw [this, d2b_val]
    · intro h
      have hreads : ∀ d ∈ cs.map (fun c => (bits.getD c 0).toNat), d ≤ 1 := by
        intro d hd
        obtain ⟨c, hc, rfl⟩ := List.mem_map.mp hd
        rcases hb c hc with h0 | h1
        · rw [h0]; decide
        · rw [h1]; decide
      have heq := valMSB_inj _ _ (by simp [hlen]) hreads (d2b_le_one v cs.length) (h.trans (d2b_val v cs.length).symm)
      rw [← heq, List.map_map]
      apply List.map_congr_left
      intro c hc
      show bits.getD c 0 = Int.ofNat ((bits.getD c 0).toNat)
      rcases hb c hc with h0 | h1
      · rw [h0]; rfl
      · rw [h1]; rfl

end QipVerif.Sim
