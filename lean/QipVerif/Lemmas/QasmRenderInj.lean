import QipVerif.Lemmas.QasmRenderInjParse
import QipVerif.Model.QasmImport
/-!
# The cache keys of user-gate calls are injective (C04: discharges the hypothesis `KeyInj` of `W1`)

The importer caches the expansion of a user gate under the text `name(arg tokens)`; in the model the key is
`customName name ps` with `argToken e = strip (padBrackets e.render)`.

* `render_inj` (`QasmRenderInjParse.lean`): on `ExprWf` (`QasmRenderInjLex.lean`: literals that are one numeric
  token, identifiers that are `id`s, `pi`, unary minus, `+ - * / ^`, the six unary functions — any nesting)
  `Expr.render` is injective — proved as "strict parser ∘ strict lexer ∘ render = id".
* `argToken_inj`, `customName_inj`: hence so are the argument tokens and the keys of calls whose names contain
  no `(` and whose parameters are well-formed.  (`keyInj_of_wf : … → KeyInj C` is in `QasmRenderInjKey.lean`,
  which imports `QasmImportW1`; this file does not, so that `QasmImportW1` may import it.)
* The shapes outside `ExprWf` are exactly those on which rendering is NOT injective; witnesses below
  (`render_collision_*`, by `decide`).
-/
namespace QipVerif.Qasm.Import
open QipVerif.Qasm

/-! ## blanks -/

/-- the text without its blanks -/
def unblank (s : Str) : Str := s.filter (· != ' ')

theorem unblank_padBrackets (s : Str) : unblank (padBrackets s) = unblank s := by
  induction s with
  | nil => rfl
  | cons c cs ih =>
    simp only [padBrackets]
    split
    · rename_i h
      have hc : (c != ' ') = true := by
        simp only [Bool.or_eq_true, beq_iff_eq] at h
        rcases h with ((rfl | rfl) | rfl) | rfl <;> decide
      have ih' : List.filter (fun x => x != ' ') (padBrackets cs) = List.filter (fun x => x != ' ') cs := ih
      simp [unblank, hc, ih']
    · have ih' : List.filter (fun x => x != ' ') (padBrackets cs) = List.filter (fun x => x != ' ') cs := ih
      simp [unblank, List.filter_cons, ih']

theorem unblank_stripL (s : Str) : unblank (stripL s) = unblank s := by
  induction s with
  | nil => rfl
  | cons c cs ih =>
    by_cases hc : c = ' '
    · subst hc
      rw [stripL, ih]
      simp [unblank]
    · have : stripL (c :: cs) = c :: cs := by
        unfold stripL
        split
        · rename_i heq; cases heq; exact absurd rfl hc
        · rfl
      rw [this]

theorem unblank_reverse (s : Str) : unblank s.reverse = (unblank s).reverse := by
  simp [unblank, List.filter_reverse]

theorem unblank_strip (s : Str) : unblank (strip s) = unblank s := by
  simp [strip, unblank_reverse, unblank_stripL]

theorem unblank_self {s : Str} (h : ∀ c ∈ s, c ≠ ' ') : unblank s = s := by
  apply List.filter_eq_self.mpr
  intro c hc
  simpa using h c hc

theorem exprChar_ne {c : Char} (h : exprChar c = true) : c ≠ ' ' ∧ c ≠ ',' := by
  constructor <;> (rintro rfl; exact absurd h (by decide))

/-- the argument token without its blanks is the rendered expression -/
theorem unblank_argToken (e : Expr) (h : ExprWf e = true) : unblank (argToken e) = e.render := by
  rw [argToken, unblank_strip, unblank_padBrackets]
  exact unblank_self (fun c hc => (exprChar_ne (List.all_eq_true.mp (render_chars e h) c hc)).1)

/-- **the argument tokens of well-formed expressions are injective** -/
theorem argToken_inj {e e' : Expr} (h : ExprWf e = true) (h' : ExprWf e' = true)
    (ht : argToken e = argToken e') : e = e' := by
  apply render_inj h h'
  rw [← unblank_argToken e h, ← unblank_argToken e' h', ht]

/-- no comma inside an argument token (functions have one argument) -/
theorem argToken_no_comma (e : Expr) (h : ExprWf e = true) : ∀ c ∈ argToken e, c ≠ ',' := by
  rintro c hc rfl
  have : ',' ∈ unblank (argToken e) := List.mem_filter.mpr ⟨hc, by decide⟩
  rw [unblank_argToken e h] at this
  exact (exprChar_ne (List.all_eq_true.mp (render_chars e h) _ this)).2 rfl

/-! ## joined texts -/

/-- splitting at the first occurrence of a character -/
theorem append_char_inj (x : Char) : ∀ (a a' b b' : Str), (∀ c ∈ a, c ≠ x) → (∀ c ∈ a', c ≠ x) →
    a ++ x :: b = a' ++ x :: b' → a = a' ∧ b = b' := by
  intro a
  induction a with
  | nil =>
    intro a' b b' _ h' h
    cases a' with
    | nil => simpa using h
    | cons y ys =>
      simp only [List.nil_append, List.cons_append, List.cons.injEq] at h
      exact absurd h.1.symm (h' y (by simp))
  | cons y ys ih =>
    intro a' b b' hx h' h
    cases a' with
    | nil =>
      simp only [List.nil_append, List.cons_append, List.cons.injEq] at h
      exact absurd h.1 (hx y (by simp))
    | cons z zs =>
      simp only [List.cons_append, List.cons.injEq] at h
      obtain ⟨rfl, h2⟩ := h
      obtain ⟨rfl, rfl⟩ := ih zs b b' (fun c hc => hx c (by simp [hc])) (fun c hc => h' c (by simp [hc])) h2
      exact ⟨rfl, rfl⟩

/-- non-empty lists of comma-free texts joined by commas -/
theorem intercal_comma_inj : ∀ (l l' : List Str), l ≠ [] → l' ≠ [] → (∀ s ∈ l, ∀ c ∈ s, c ≠ ',') →
    (∀ s ∈ l', ∀ c ∈ s, c ≠ ',') → intercal [','] l = intercal [','] l' → l = l' := by
  intro l
  induction l with
  | nil => intro _ h; exact absurd rfl h
  | cons x r ih =>
    intro l' _ hl' hx hx' h
    match l', hl' with
    | x' :: r', _ =>
      cases r with
      | nil =>
        cases r' with
        | nil => simpa [intercal] using h
        | cons y' r'' =>
          exfalso
          simp only [intercal] at h
          exact hx x (by simp) ',' (by rw [h]; simp) rfl
      | cons y r2 =>
        cases r' with
        | nil =>
          exfalso
          simp only [intercal] at h
          exact hx' x' (by simp) ',' (by rw [← h]; simp) rfl
        | cons y' r'' =>
          simp only [intercal, List.append_assoc, List.singleton_append] at h
          obtain ⟨rfl, h2⟩ := append_char_inj ',' x x' _ _ (hx x (by simp)) (hx' x' (by simp)) h
          have := ih (y' :: r'') (by simp) (by simp) (fun s hs => hx s (by simp [hs]))
            (fun s hs => hx' s (by simp [hs])) h2
          rw [this]

theorem map_argToken_inj : ∀ (ps ps' : List Expr), (∀ e ∈ ps, ExprWf e = true) → (∀ e ∈ ps', ExprWf e = true) →
    ps.map argToken = ps'.map argToken → ps = ps' := by
  intro ps
  induction ps with
  | nil => intro ps' _ _ h; cases ps' with
    | nil => rfl
    | cons _ _ => simp at h
  | cons e r ih =>
    intro ps' hw hw' h
    cases ps' with
    | nil => simp at h
    | cons e' r' =>
      simp only [List.map_cons, List.cons.injEq] at h
      rw [argToken_inj (hw e (by simp)) (hw' e' (by simp)) h.1,
        ih r' (fun x hx => hw x (by simp [hx])) (fun x hx => hw' x (by simp [hx])) h.2]

/-! ## the keys -/

/-- **the cache key determines the call**: names without `(`, well-formed parameter expressions -/
theorem customName_inj (n n' : Str) (ps ps' : List Expr) (hn : ∀ c ∈ n, c ≠ '(') (hn' : ∀ c ∈ n', c ≠ '(')
    (hw : ∀ e ∈ ps, ExprWf e = true) (hw' : ∀ e ∈ ps', ExprWf e = true)
    (h : customName n ps = customName n' ps') : n = n' ∧ ps = ps' := by
  cases ps with
  | nil =>
    cases ps' with
    | nil => simpa [customName] using h
    | cons e' r' =>
      exfalso
      simp only [customName, List.isEmpty_nil, if_true, List.isEmpty_cons, Bool.false_eq_true, if_false] at h
      exact hn '(' (by rw [h]; simp) rfl
  | cons e r =>
    cases ps' with
    | nil =>
      exfalso
      simp only [customName, List.isEmpty_nil, if_true, List.isEmpty_cons, Bool.false_eq_true, if_false] at h
      exact hn' '(' (by rw [← h]; simp) rfl
    | cons e' r' =>
      simp only [customName, List.isEmpty_cons, Bool.false_eq_true, if_false, List.append_assoc,
        List.cons_append] at h
      obtain ⟨rfl, h2⟩ := append_char_inj '(' n n' _ _ hn hn' h
      have h3 : intercal [','] ((e :: r).map argToken) = intercal [','] ((e' :: r').map argToken) :=
        List.append_cancel_right h2
      have h4 := intercal_comma_inj _ _ (by simp) (by simp)
        (fun s hs => by
          obtain ⟨x, hx, rfl⟩ := List.mem_map.mp hs
          exact argToken_no_comma x (hw x hx))
        (fun s hs => by
          obtain ⟨x, hx, rfl⟩ := List.mem_map.mp hs
          exact argToken_no_comma x (hw' x hx)) h3
      exact ⟨rfl, map_argToken_inj _ _ hw hw' h4⟩

/-- an identifier of the standard contains no `(` -/
theorem isIdent_no_paren {n : Str} (h : isIdent n = true) : ∀ c ∈ n, c ≠ '(' := by
  simp only [isIdent, Bool.and_eq_true] at h
  intro c hc
  have := List.all_eq_true.mp (word_chars h.1) c hc
  rintro rfl
  cases n with
  | nil => cases hc
  | cons a as =>
    have hw := h.1
    simp only [isWordStr, Bool.and_eq_true] at hw
    rcases List.mem_cons.mp hc with rfl | hc
    · exact absurd hw.1 (by decide)
    · exact absurd (List.all_eq_true.mp hw.2 _ hc) (by decide)

/-! ## non-vacuity, and the excluded shapes -/

/-- `-(a+2.5)/(pi*3e0)…`: unary minus over a parenthesised sum, a division, nested products, `--`, `^`, a function -/
def exA : Expr :=
  .sub (.div (.neg (.add (.id cs!"a") (.lit cs!"2.5"))) (.mul .pi (.lit cs!"3")))
    (.neg (.neg (.pow (.id cs!"x_1") (.fn cs!"sin" (.div (.lit cs!".5e-3") (.lit cs!"10"))))))
/-- the same text except for one pair of parentheses -/
def exB : Expr :=
  .sub (.div (.neg (.add (.id cs!"a") (.lit cs!"2.5"))) (.mul .pi (.lit cs!"3")))
    (.neg (.neg (.pow (.id cs!"x_1") (.fn cs!"sin" (.lit cs!".5e-3")))))

example : exA.render = cs!"-(a+2.5)/(pi*3)---x_1^sin(.5e-3/10)" := by decide
example : ExprWf exA = true ∧ ExprWf exB = true := by decide
example : lexLine exA.render = some (toks exA) := lexLine_render exA (by decide)
example : exA.render ≠ exB.render := fun h => absurd (render_inj (by decide) (by decide) h) (by decide)
example : argToken exA = cs!"- ( a+2.5 ) / ( pi*3 ) ---x_1^sin ( .5e-3/10 )" := by decide
example : customName cs!"g" [exA, .pi] ≠ customName cs!"g" [exB, .pi] := fun h =>
  absurd (customName_inj _ _ _ _ (by decide) (by decide) (by decide) (by decide) h).2 (by decide)
/-- left- and right-nested sums / differences have different texts -/
example : (Expr.sub (.id cs!"a") (.sub (.id cs!"b") (.id cs!"c"))).render = cs!"a-(b-c)" ∧
    (Expr.sub (.sub (.id cs!"a") (.id cs!"b")) (.id cs!"c")).render = cs!"a-b-c" ∧
    (Expr.sub (.id cs!"a") (.neg (.id cs!"b"))).render = cs!"a--b" ∧
    (Expr.pow (.neg (.id cs!"a")) (.neg (.id cs!"b"))).render = cs!"(-a)^(-b)" := by decide

/-- outside the class, 1: a "literal" that is not one numeric token -/
theorem render_collision_lit :
    (Expr.lit cs!"-1").render = (Expr.neg (.lit cs!"1")).render ∧ Expr.lit cs!"-1" ≠ .neg (.lit cs!"1") ∧
      ExprWf (.lit cs!"-1") = false ∧ ExprWf (.neg (.lit cs!"1")) = true := by decide

/-- outside the class, 2: an "identifier" that is a keyword -/
theorem render_collision_kw :
    (Expr.id cs!"pi").render = Expr.pi.render ∧ Expr.id cs!"pi" ≠ .pi ∧ ExprWf (.id cs!"pi") = false := by decide

/-- outside the class, 3: an "identifier" that is not a word -/
theorem render_collision_id :
    (Expr.id cs!"a+b").render = (Expr.add (.id cs!"a") (.id cs!"b")).render ∧
      Expr.id cs!"a+b" ≠ .add (.id cs!"a") (.id cs!"b") ∧ ExprWf (.id cs!"a+b") = false := by decide

/-- outside the class, 4: a "function" that is none of the six -/
theorem render_collision_fn :
    (Expr.fn cs!"-" (.add (.id cs!"a") (.id cs!"b"))).render = (Expr.neg (.add (.id cs!"a") (.id cs!"b"))).render ∧
      Expr.fn cs!"-" (.add (.id cs!"a") (.id cs!"b")) ≠ .neg (.add (.id cs!"a") (.id cs!"b")) ∧
      ExprWf (.fn cs!"-" (.add (.id cs!"a") (.id cs!"b"))) = false := by decide

/-- a name with `(` collides with a call with parameters -/
theorem customName_collision_name :
    customName cs!"g(pi)" [] = customName cs!"g" [.pi] := by decide

end QipVerif.Qasm.Import
