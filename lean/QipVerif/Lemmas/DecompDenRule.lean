import QipVerif.Lemmas.DecompDenEC
/-!
# C03 — lifting a kernel-checked rule to every register, placement and valuation

`rule_lift`: if a template `body` is exactly sound on the canonical placement `g₀` of its gate
(`ruleSoundE m body g₀ = true`, decided by the kernel in `Gen/Rule_*.lean`) and passes the decidable
side check `ruleSide` (its gates are fixed-angle library gates, selectors cover the whole gate …),
then for EVERY register size `N`, EVERY well placed gate `g` with the name of `g₀` and EVERY
valuation, the instantiated body denotes exactly the operator of `g`.
-/
namespace QipVerif
open Matrix

theorem semD_congr (N : ℕ) (ρ : ℕ → ℝ) (g g' : Gate)
    (h1 : compactC g.name (g.arg.eval ρ) = compactC g'.name (g'.arg.eval ρ)) (h2 : g.qubits = g'.qubits) :
    semD N ρ g = semD N ρ g' := by
  cases h : semD N ρ g with
  | none =>
    cases h' : semD N ρ g' with
    | none => rfl
    | some M' =>
      obtain ⟨m, U, hm, hn, hr, hc, rfl⟩ := semD_inv N ρ g' _ h'
      rw [semD_of N ρ g m U (h1.trans hc) (h2 ▸ hm) (h2 ▸ hn) (h2 ▸ hr)] at h
      cases h
  | some M =>
    obtain ⟨m, U, hm, hn, hr, hc, rfl⟩ := semD_inv N ρ g _ h
    rw [semD_of N ρ g' m U (h1.symm.trans hc) (h2 ▸ hm) (h2 ▸ hn) (h2 ▸ hr)]
    congr 2
    apply Tg.ext'
    intro i
    apply Fin.ext
    simp only [tgL, h2]

/-- names whose matrix does not depend on the angle argument -/
def fixedNm (n : GName) : Bool :=
  !([GName.RX, .RY, .RZ, .PHASEGATE, .GLOBALPHASE, .CRX, .CRY, .CRZ, .CPHASE].contains n)

theorem compactC_fixed (n : GName) (h : fixedNm n = true) (θ θ' : ℝ) : compactC n θ = compactC n θ' := by
  cases n <;> first | rfl | (simp [fixedNm] at h)

namespace Decomp

/-! ## instantiation commutes with renaming -/

theorem mapM_map_opt {α β : Type} (h : α → Option β) (f : β → β) (l : List α) :
    l.mapM (fun a => (h a).map f) = (l.mapM h).map (List.map f) := by
  induction l with
  | nil => simp
  | cons a as ih =>
    rw [List.mapM_cons, List.mapM_cons, ih]
    cases h a with
    | none => simp
    | some b =>
      cases as.mapM h with
      | none => simp
      | some bs => simp

theorem mapM_congr_mem {α β : Type} (f h : α → Option β) (l : List α) (hfh : ∀ a ∈ l, f a = h a) :
    l.mapM f = l.mapM h := by
  induction l with
  | nil => simp
  | cons a as ih =>
    rw [List.mapM_cons, List.mapM_cons, hfh a List.mem_cons_self,
      ih (fun x hx => hfh x (List.mem_cons_of_mem _ hx))]

theorem Sel_get_map (f : Nat → Nat) (n n' : GName) (ts cs : List Nat) (a a' : Ang) (s : Sel) :
    Sel.get ⟨n, ts.map f, cs.map f, a⟩ s = (Sel.get ⟨n', ts, cs, a'⟩ s).map f := by
  cases s <;> simp [Sel.get]

theorem TAng_inst_cn0 (t : TAng) (h : t.cn = 0) (a a' : Ang) : t.inst a = t.inst a' := by
  simp [TAng.inst, h]

theorem TGate_inst_map (f : Nat → Nat) (n n' : GName) (ts cs : List Nat) (a a' : Ang) (t : TGate)
    (hcn : t.arg.cn = 0) :
    TGate.inst ⟨n, ts.map f, cs.map f, a⟩ t = (TGate.inst ⟨n', ts, cs, a'⟩ t).map (Gate.rename f) := by
  unfold TGate.inst
  have e1 : ∀ l : List Sel, l.mapM (Sel.get ⟨n, ts.map f, cs.map f, a⟩)
      = (l.mapM (Sel.get ⟨n', ts, cs, a'⟩)).map (List.map f) := by
    intro l
    rw [← mapM_map_opt]
    exact mapM_congr_mem _ _ l (fun s _ => Sel_get_map f n n' ts cs a a' s)
  rw [e1, e1]
  cases List.mapM (Sel.get ⟨n', ts, cs, a'⟩) t.targets with
  | none => simp
  | some ts' =>
    cases List.mapM (Sel.get ⟨n', ts, cs, a'⟩) t.controls with
    | none => simp
    | some cs' =>
      simp only [Option.map_some, Gate.rename]
      rw [TAng_inst_cn0 t.arg hcn a a']

theorem instBody_map (f : Nat → Nat) (n n' : GName) (ts cs : List Nat) (a a' : Ang) (body : List TGate)
    (hcn : body.all (fun t => t.arg.cn == 0) = true) :
    instBody ⟨n, ts.map f, cs.map f, a⟩ body
      = (instBody ⟨n', ts, cs, a'⟩ body).map (List.map (Gate.rename f)) := by
  unfold instBody
  rw [← mapM_map_opt]
  apply mapM_congr_mem
  intro t ht
  have := List.all_eq_true.mp hcn t ht
  exact TGate_inst_map f n n' ts cs a a' t (by simpa using this)

/-! ## the selectors used by a body determine the shape of the gate -/

def usesSel (body : List TGate) (s : Sel) : Bool :=
  body.any (fun t => t.targets.contains s || t.controls.contains s)

theorem mapM_some_of_mem {α β : Type} (f : α → Option β) : ∀ (l : List α) (r : List β), l.mapM f = some r →
    ∀ a ∈ l, ∃ b, f a = some b := by
  intro l
  induction l with
  | nil => intro r _ a ha; cases ha
  | cons x xs ih =>
    intro r h a ha
    rw [List.mapM_cons] at h
    cases h1 : f x with
    | none => simp [h1] at h
    | some b' =>
      cases h2 : xs.mapM f with
      | none => simp [h1, h2] at h
      | some r' =>
        rcases List.mem_cons.mp ha with rfl | ha'
        · exact ⟨b', h1⟩
        · exact ih r' h2 a ha'

theorem usesSel_get (g : Gate) (body : List TGate) (out : List Gate) (hi : instBody g body = some out)
    (s : Sel) (hs : usesSel body s = true) : ∃ v, Sel.get g s = some v := by
  unfold usesSel at hs
  rw [List.any_eq_true] at hs
  obtain ⟨t, ht, hts⟩ := hs
  obtain ⟨g', hg'⟩ := mapM_some_of_mem _ body out hi t ht
  unfold TGate.inst at hg'
  split at hg'
  · rename_i ts cs h1 h2
    simp only [Bool.or_eq_true, List.contains_iff_mem] at hts
    rcases hts with h | h
    · exact mapM_some_of_mem _ _ _ h1 s h
    · exact mapM_some_of_mem _ _ _ h2 s h
  · cases hg'

theorem shape_of_inst (g : Gate) (body : List TGate) (out : List Gate) (hi : instBody g body = some out)
    (c t : ℕ) (hlen : g.qubits.length = c + t)
    (ht : t = 0 ∨ usesSel body (.t (t - 1)) = true) (hc : c = 0 ∨ usesSel body (.c (c - 1)) = true) :
    g.controls.length = c ∧ g.targets.length = t := by
  have h1 : t ≤ g.targets.length := by
    rcases ht with h | h
    · omega
    · obtain ⟨v, hv⟩ := usesSel_get g body out hi _ h
      simp only [Sel.get] at hv
      have := (List.getElem?_eq_some_iff.mp hv).1
      omega
  have h2 : c ≤ g.controls.length := by
    rcases hc with h | h
    · omega
    · obtain ⟨v, hv⟩ := usesSel_get g body out hi _ h
      simp only [Sel.get] at hv
      have := (List.getElem?_eq_some_iff.mp hv).1
      omega
  simp only [Gate.qubits, List.length_append] at hlen
  omega

/-! ## the lifting theorem -/

/-- decidable side conditions of `rule_lift` on a table entry -/
def ruleSide (m : ℕ) (body : List TGate) (g₀ : Gate) : Bool :=
  body.all ecOKT && ecOK g₀ && (g₀.qubits == List.range m) && fixedNm g₀.name &&
  body.all (fun t => t.arg.cn == 0) &&
  (g₀.targets.length == 0 || usesSel body (.t (g₀.targets.length - 1))) &&
  (g₀.controls.length == 0 || usesSel body (.c (g₀.controls.length - 1)))

theorem rule_lift (m : ℕ) (body : List TGate) (g₀ : Gate)
    (hs : ruleSoundE m body g₀ = true) (hside : ruleSide m body g₀ = true)
    (N : ℕ) (ρ : ℕ → ℝ) (g : Gate) (hname : g.name = g₀.name)
    (M : Matrix (St N) (St N) ℂ) (hM : semD N ρ g = some M)
    (out : List Gate) (hi : instBody g body = some out) : denG N ρ out = some M := by
  simp only [ruleSide, Bool.and_eq_true, Bool.or_eq_true, beq_iff_eq] at hside
  obtain ⟨⟨⟨⟨⟨⟨hb, hg⟩, hcanon⟩, hfix⟩, hcn⟩, hut⟩, huc⟩ := hside
  obtain ⟨gs₀, A, hi₀, hden₀, hsem₀⟩ := rule_canon m body g₀ ρ hs hb hg
  obtain ⟨m', U, hm, hn, hr, hc, _⟩ := semD_inv N ρ g M hM
  obtain ⟨m₀, U₀, hm₀, _, _, hc₀, _⟩ := semD_inv m ρ g₀ A hsem₀
  have hm₀' : m₀ = m := by rw [← hm₀, hcanon, List.length_range]
  have hcc : compactC g.name (g.arg.eval ρ) = compactC g₀.name (g₀.arg.eval ρ) := by
    rw [hname]; exact compactC_fixed _ hfix _ _
  have hmm : m' = m := by
    rw [hcc, hc₀] at hc
    cases hc
    exact hm₀'
  subst hmm
  have hlen0 : g₀.controls.length + g₀.targets.length = m' := by
    have := congrArg List.length hcanon
    simpa [Gate.qubits] using this
  obtain ⟨hcl, htl⟩ := shape_of_inst g body out hi g₀.controls.length g₀.targets.length
    (by rw [hm, hlen0]) hut huc
  -- the renaming
  let f : Nat → Nat := fun i => g.qubits.getD i 0
  let q : Tg m' N := tgL N g.qubits m' hm hn hr
  have hf : ∀ i : Fin m', f i.val = (q.f i).val := by
    intro i
    have : i.val < g.qubits.length := by rw [hm]; exact i.isLt
    simp [f, q, tgL, List.getD_eq_getElem?_getD, List.getElem?_eq_getElem this]
  have hq : g.qubits = g₀.qubits.map f := by
    rw [hcanon]
    apply List.ext_getElem
    · simp [hm]
    · intro i h1 h2
      simp [f, List.getD_eq_getElem?_getD, List.getElem?_eq_getElem h1]
  have hsplit : g.controls = g₀.controls.map f ∧ g.targets = g₀.targets.map f := by
    simp only [Gate.qubits, List.map_append] at hq
    exact List.append_inj hq (by simp [hcl])
  have hgeq : g = ⟨g.name, g₀.targets.map f, g₀.controls.map f, g.arg⟩ := by
    rw [← hsplit.1, ← hsplit.2]
  have hout : out = gs₀.map (Gate.rename f) := by
    have h0 : g₀ = ⟨g₀.name, g₀.targets, g₀.controls, g₀.arg⟩ := by cases g₀; rfl
    rw [hgeq, instBody_map f g.name g₀.name g₀.targets g₀.controls g.arg g₀.arg body hcn, ← h0, hi₀] at hi
    simpa using hi.symm
  rw [hout, denG_rename ρ q f hf gs₀ A hden₀]
  have h2 := semD_rename ρ q f hf g₀ A hsem₀
  have h3 : semD N ρ g = semD N ρ (g₀.rename f) :=
    semD_congr N ρ g (g₀.rename f) hcc (by rw [Gate.rename_qubits]; exact hq)
  rw [← h2, ← h3, hM]

end Decomp
end QipVerif
