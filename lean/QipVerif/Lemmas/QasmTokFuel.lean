import QipVerif.Lemmas.QasmTokRe
/-!
# The recursion bound of `tokenizeLine` is never reached (C04 tokenizer)

`_tokenize_line` calls itself on `"{} ({}) {}".format(g2, g3, g4)` resp. on `g2`, both strictly shorter than
the command.  `tokenizeLineF_fuel`: any fuel above the length of the command gives the same result as
`tokenizeLine`, and that result is never `Err.fuel` — the model is the unbounded recursion of the code.
-/
namespace QipVerif.Qasm.Tok
open QipVerif.Qasm

/-! ## what a successful match has consumed -/

theorem lit_some {α} {c : Char} {k : Str → Option α} {s : Str} {r : α} (h : lit c k s = some r) :
    ∃ t, s = c :: t ∧ k t = some r := by
  cases s with
  | nil => simp [lit] at h
  | cons d t =>
    simp only [lit] at h
    split at h
    · rename_i hd; simp only [beq_iff_eq] at hd; subst hd; exact ⟨t, rfl, h⟩
    · cases h

theorem wsStar_some {α} {k : Str → Option α} {s : Str} {r : α} (h : wsStar k s = some r) :
    ∃ w t, s = w ++ t ∧ k t = some r := by
  induction s with
  | nil => exact ⟨[], [], rfl, h⟩
  | cons c cs ih =>
    simp only [wsStar] at h
    split at h
    · split at h
      · rename_i r' hr
        obtain ⟨w, t, e, hk⟩ := ih (by rw [hr]; exact congrArg some (Option.some.inj h))
        exact ⟨c :: w, t, by rw [e]; rfl, hk⟩
      · exact ⟨[], c :: cs, rfl, h⟩
    · exact ⟨[], c :: cs, rfl, h⟩

theorem wsPlus_some {α} {k : Str → Option α} {s : Str} {r : α} (h : wsPlus k s = some r) :
    ∃ w t, s = w ++ t ∧ w ≠ [] ∧ k t = some r := by
  cases s with
  | nil => simp [wsPlus] at h
  | cons c cs =>
    simp only [wsPlus] at h
    split at h
    · obtain ⟨w, t, e, hk⟩ := wsStar_some h
      exact ⟨c :: w, t, by rw [e]; rfl, by simp, hk⟩
    · cases h

theorem dotLazy_some {α} {k : Str → Option α} {s : Str} {g : Str} {r : α} (h : dotLazy k s = some (g, r)) :
    ∃ t, s = g ++ t ∧ k t = some r := by
  induction s generalizing g with
  | nil =>
    simp only [dotLazy, Option.map_eq_some_iff, Prod.mk.injEq] at h
    obtain ⟨a, ha, rfl, rfl⟩ := h
    exact ⟨[], rfl, ha⟩
  | cons c cs ih =>
    simp only [dotLazy] at h
    split at h
    · rename_i r' hr
      simp only [Option.some.injEq, Prod.mk.injEq] at h
      obtain ⟨rfl, rfl⟩ := h
      exact ⟨c :: cs, rfl, hr⟩
    · split at h
      · cases h
      · simp only [Option.map_eq_some_iff, Prod.mk.injEq] at h
        obtain ⟨⟨g', r'⟩, hg, rfl, rfl⟩ := h
        obtain ⟨t, e, hk⟩ := ih hg
        exact ⟨t, by rw [e]; rfl, hk⟩

theorem dotGreedy_some {α} {k : Str → Option α} {s : Str} {g : Str} {r : α} (h : dotGreedy k s = some (g, r)) :
    ∃ t, s = g ++ t ∧ k t = some r := by
  induction s generalizing g with
  | nil =>
    simp only [dotGreedy, Option.map_eq_some_iff, Prod.mk.injEq] at h
    obtain ⟨a, ha, rfl, rfl⟩ := h
    exact ⟨[], rfl, ha⟩
  | cons c cs ih =>
    simp only [dotGreedy] at h
    split at h
    · simp only [Option.map_eq_some_iff, Prod.mk.injEq] at h
      obtain ⟨a, ha, rfl, rfl⟩ := h
      exact ⟨c :: cs, rfl, ha⟩
    · split at h
      · rename_i gr hgr
        simp only [Option.some.injEq, Prod.mk.injEq] at h
        obtain ⟨rfl, rfl⟩ := h
        obtain ⟨t, e, hk⟩ := ih (g := gr.1) (by rw [hgr])
        exact ⟨t, by rw [e]; rfl, hk⟩
      · simp only [Option.map_eq_some_iff, Prod.mk.injEq] at h
        obtain ⟨a, ha, rfl, rfl⟩ := h
        exact ⟨c :: cs, rfl, ha⟩

/-- the recursive call of the first `if` pattern is on a shorter text -/
theorem reIfArgs_shorter {s g1 g2 g3 g4 : Str} (h : reIfArgs s = some (g1, g2, g3, g4)) :
    (g2 ++ cs!" (" ++ g3 ++ cs!") " ++ g4).length < s.length := by
  unfold reIfArgs at h
  simp only [Option.map_eq_some_iff, Prod.mk.injEq] at h
  obtain ⟨⟨r1, r2, r3, r4, u⟩, hm, rfl, rfl, rfl, rfl⟩ := h
  obtain ⟨w0, t0, e0, h0⟩ := wsStar_some hm
  obtain ⟨t1, e1, h1⟩ := lit_some h0
  obtain ⟨t2, e2, h2⟩ := lit_some h1
  obtain ⟨w3, t3, e3, h3⟩ := wsStar_some h2
  obtain ⟨t4, e4, h4⟩ := lit_some h3
  obtain ⟨t5, e5, h5⟩ := dotLazy_some h4
  obtain ⟨t6, e6, h6⟩ := lit_some h5
  obtain ⟨w7, t7, e7, h7⟩ := wsStar_some h6
  obtain ⟨t8, e8, h8⟩ := dotLazy_some h7
  obtain ⟨w9, t9, e9, _, h9⟩ := wsPlus_some h8
  obtain ⟨t10, e10, h10⟩ := lit_some h9
  obtain ⟨t11, e11, h11⟩ := dotGreedy_some h10
  obtain ⟨t12, e12, h12⟩ := lit_some h11
  obtain ⟨t13, e13, _⟩ := dotGreedy_some h12
  subst e0 e1 e2 e3 e4 e5 e6 e7 e8 e9 e10 e11 e12 e13
  simp only [List.length_append, List.length_cons, List.length_nil]
  omega

theorem reIfPlain_shorter {s g1 g2 : Str} (h : reIfPlain s = some (g1, g2)) : g2.length < s.length := by
  unfold reIfPlain at h
  simp only [Option.map_eq_some_iff, Prod.mk.injEq] at h
  obtain ⟨⟨r1, r2, u⟩, hm, rfl, rfl⟩ := h
  obtain ⟨w0, t0, e0, h0⟩ := wsStar_some hm
  obtain ⟨t1, e1, h1⟩ := lit_some h0
  obtain ⟨t2, e2, h2⟩ := lit_some h1
  obtain ⟨w3, t3, e3, h3⟩ := wsStar_some h2
  obtain ⟨t4, e4, h4⟩ := lit_some h3
  obtain ⟨t5, e5, h5⟩ := dotGreedy_some h4
  obtain ⟨t6, e6, h6⟩ := lit_some h5
  obtain ⟨t7, e7, _⟩ := dotGreedy_some h6
  subst e0 e1 e2 e3 e4 e5 e6 e7
  simp only [List.length_append, List.length_cons]
  omega

/-- with enough fuel the result does not depend on it and is not the fuel error -/
theorem tokenizeLineF_enough (n : Nat) : ∀ (cmd : Str) (f1 f2 : Nat), cmd.length < n →
    cmd.length < f1 → cmd.length < f2 →
    tokenizeLineF f1 cmd = tokenizeLineF f2 cmd ∧ tokenizeLineF f1 cmd ≠ .error .fuel := by
  induction n with
  | zero => intro cmd f1 f2 h; omega
  | succ n ih =>
    intro cmd f1 f2 hn h1 h2
    obtain ⟨f1', rfl⟩ : ∃ k, f1 = k + 1 := ⟨f1 - 1, by omega⟩
    obtain ⟨f2', rfl⟩ : ∃ k, f2 = k + 1 := ⟨f2 - 1, by omega⟩
    simp only [tokenizeLineF]
    split
    · exact ⟨rfl, by simp⟩
    · split
      · cases hA : reIfArgs cmd with
        | some g =>
          obtain ⟨g1, g2, g3, g4⟩ := g
          have hs := reIfArgs_shorter hA
          obtain ⟨e, ne⟩ := ih (g2 ++ cs!" (" ++ g3 ++ cs!") " ++ g4) f1' f2' (by omega) (by omega) (by omega)
          simp only []
          rw [← e]
          refine ⟨rfl, ?_⟩
          cases hr : tokenizeLineF f1' (g2 ++ cs!" (" ++ g3 ++ cs!") " ++ g4) with
          | ok ts => simp
          | error er =>
            simp only [ne_eq, Except.error.injEq]
            intro h; subst h; exact ne hr
        | none =>
          cases hB : reIfPlain cmd with
          | some g =>
            obtain ⟨g1, g2⟩ := g
            have hs := reIfPlain_shorter hB
            obtain ⟨e, ne⟩ := ih g2 f1' f2' (by omega) (by omega) (by omega)
            simp only []
            rw [← e]
            refine ⟨rfl, ?_⟩
            cases hr : tokenizeLineF f1' g2 with
            | ok ts => simp
            | error er =>
              simp only [ne_eq, Except.error.injEq]
              intro h; subst h; exact ne hr
          | none => exact ⟨rfl, by simp⟩
      · split
        · exact ⟨rfl, by simp⟩
        · exact ⟨rfl, by simp⟩

/-- **any fuel above the length of the command gives `tokenizeLine`** -/
theorem tokenizeLineF_fuel (cmd : Str) (f : Nat) (h : cmd.length < f) :
    tokenizeLineF f cmd = tokenizeLine cmd :=
  (tokenizeLineF_enough (cmd.length + 1) cmd f (cmd.length + 1) (by omega) h (by omega)).1

/-- **`tokenizeLine` never reports an exhausted recursion bound** -/
theorem tokenizeLine_fuel (cmd : Str) : tokenizeLine cmd ≠ .error .fuel :=
  (tokenizeLineF_enough (cmd.length + 1) cmd (cmd.length + 1) (cmd.length + 1) (by omega) (by omega)
    (by omega)).2

end QipVerif.Qasm.Tok
