import QipVerif.Lemmas.RouteCircuit
import Mathlib.Algebra.Group.Defs
/-!
# C07: the routed circuit has the same product (over an arbitrary monoid)

`den interp gs` is the product of the interpretations of the gates in matrix order (later gates
on the left).  The only facts about gate matrices that are used are collected in the hypothesis
structure `SwapLaws`; its instantiation for `Circuit.den` over ℂ (`embed_perm`) is supplied
centrally.
-/
namespace QipVerif.Route

variable {M : Type} [Monoid M]

/-- product of a circuit, later gates multiply from the left (`U = U_n ⋯ U_1`) -/
def den (interp : Gate → M) : List Gate → M
  | [] => 1
  | g :: gs => den interp gs * interp g

theorem den_append (interp : Gate → M) (l₁ l₂ : List Gate) :
    den interp (l₁ ++ l₂) = den interp l₂ * den interp l₁ := by
  induction l₁ with
  | nil => simp [den]
  | cons g l ih => simp [den, ih, mul_assoc]

/-- a gate on exactly two distinct qubits of the register -/
def TwoQ (N : Nat) (g : Gate) : Prop := ∃ x y, g.qubits = [x, y] ∧ x ≠ y ∧ x < N ∧ y < N

/-- **The one hypothesis about gate matrices.**  For every SWAP on two distinct qubits of the
register: it is an involution, and conjugating a two-qubit gate by it relabels the gate's qubits
by the transposition.  `exch_symm`: the exchange-type gates (SWAP, ISWAP, √ISWAP, √SWAP, BERKELEY,
SWAPα) do not distinguish their two targets — needed because the router always lists the routed
gate's targets in ascending (forward path) resp. ring (backward path) order. -/
structure SwapLaws (N : Nat) (interp : Gate → M) : Prop where
  swap_sq : ∀ i j, i < N → j < N → i ≠ j → interp (swapG i j) * interp (swapG i j) = 1
  swap_conj : ∀ i j, i < N → j < N → i ≠ j → ∀ g, TwoQ N g →
    interp (swapG i j) * interp g * interp (swapG i j) = interp (g.relabel (swapAt i j))
  exch_symm : ∀ nm x y a k, nm.isSwp = true → x < N → y < N → x ≠ y →
    interp ⟨nm, [], [x, y], a, k⟩ = interp ⟨nm, [], [y, x], a, k⟩

theorem relabel_qubits (f : Nat → Nat) (g : Gate) : (g.relabel f).qubits = g.qubits.map f := by
  simp [Gate.relabel, Gate.qubits]

theorem relabel_relabel (f h : Nat → Nat) (g : Gate) : (g.relabel f).relabel h = g.relabel (h ∘ f) := by
  simp [Gate.relabel]

theorem relabel_id' (f : Nat → Nat) (hf : ∀ x, f x = x) (g : Gate) : g.relabel f = g := by
  have : f = id := funext hf
  cases g; simp [Gate.relabel, this]

theorem TwoQ.relabel_swapAt {N : Nat} {g : Gate} (h : TwoQ N g) {i j : Nat} (hi : i < N) (hj : j < N) :
    TwoQ N (g.relabel (swapAt i j)) := by
  obtain ⟨x, y, hq, hxy, hx, hy⟩ := h
  exact ⟨swapAt i j x, swapAt i j y, by rw [relabel_qubits, hq]; rfl,
    fun h => hxy (swapAt_inj h), swapAt_lt hi hj hx, swapAt_lt hi hj hy⟩

/-- swap-in, the gate on the tracked qubits, mirrored swap-out: the product is the gate itself -/
theorem den_conj {N : Nat} {interp : Gate → M} (laws : SwapLaws N interp) (S : List (Nat × Nat))
    (hS : ∀ p ∈ S, p.1 < N ∧ p.2 < N ∧ p.1 ≠ p.2) (g : Gate) (hg : TwoQ N g) :
    den interp (swaps S ++ g.relabel (track S) :: swaps S.reverse) = interp g := by
  induction S generalizing g with
  | nil => simp [swaps, den, relabel_id' (track []) (fun _ => rfl)]
  | cons p S ih =>
    obtain ⟨hi, hj, hij⟩ := hS p (List.mem_cons_self ..)
    have hg' := hg.relabel_swapAt hi hj
    have hrel : g.relabel (track (p :: S)) = (g.relabel (swapAt p.1 p.2)).relabel (track S) := by
      rw [relabel_relabel]; rfl
    have hlist : swaps (p :: S) ++ g.relabel (track (p :: S)) :: swaps (p :: S).reverse =
        swapG p.1 p.2 :: ((swaps S ++ (g.relabel (swapAt p.1 p.2)).relabel (track S) :: swaps S.reverse)
          ++ [swapG p.1 p.2]) := by
      rw [hrel]; simp [swaps]
    rw [hlist]
    simp only [den, den_append, ih (fun q hq => hS q (List.mem_cons_of_mem _ hq)) _ hg', one_mul]
    rw [laws.swap_conj _ _ hi hj hij _ hg', relabel_relabel]
    exact congrArg interp (relabel_id' _ (fun x => swapAt_swapAt ..) g)

/-- A handled gate the routed version of which is meant to be the same operation when the router
drops classical conditions (`Variant.fixed`): nothing but name, qubits and (for SWAPα) the argument. -/
def Plain (g : Gate) : Prop := g.extra = 0 ∧ (g.name.isCtl = true → g.arg = 0)

/-- CNOT / CSIGN carry no `arg_value` (the router rebuilds them from name and qubits) -/
def PlainArg (g : Gate) : Prop := g.name.isCtl = true → g.arg = 0

/-- **One handled gate**: the product of the routed gates is the gate.  Every `setup`; when the
router drops classical conditions (`cc = false`) the gate must not carry one. -/
theorem routeGateV_den {N : Nat} {interp : Gate → M} (laws : SwapLaws N interp) (cc rz : Bool) (setup : Setup)
    (g : Gate) (hw : WellFormedV rz N g) (hh : HandledV rz g)
    (hp : PlainArg g) (hx : cc = false → g.extra = 0) (out : List Gate)
    (ho : routeGateV (.rep cc rz) N setup g = .ok out) :
    den interp out = interp g := by
  have hcond : (Variant.rep cc rz).cond g = g.extra := by
    cases cc
    · rw [hx rfl]; rfl
    · rfl
  rcases hh with (hnm | hnm) | ⟨hrz, hnm⟩
  · obtain ⟨c, t, hC, hT, hct, hc, ht⟩ := hw.1.1 hnm
    obtain ⟨out', S, h1, h2⟩ := routeCtl_specV cc rz N setup g c t hnm hC hT hct hc ht
    rw [routeGateV_ctl hnm hC hT, h1] at ho
    cases ho
    have hG : (⟨g.name, [track S c], [track S t], 0, (Variant.rep cc rz).cond g⟩ : Gate) = g.relabel (track S) := by
      simp [Gate.relabel, hC, hT, hcond, hp hnm]
    rw [h2.out_eq, hG]
    exact den_conj laws S (fun p hp => ⟨(h2.swaps_ok p hp).1, (h2.swaps_ok p hp).2.1, (h2.swaps_ok p hp).2.2.1⟩)
      g ⟨c, t, by simp [Gate.qubits, hC, hT], hct, hc, ht⟩
  · obtain ⟨t0, t1, hC, hT, h01, h0, h1⟩ := hw.1.2 hnm
    obtain ⟨S, p, q, h2, h3⟩ := routeSwp_specV cc rz N setup g t0 t1 h01 h0 h1
    rw [routeGateV_swp hnm hT] at ho
    cases ho
    have hg : g = ⟨g.name, [], [t0, t1], g.arg, g.extra⟩ := by
      obtain ⟨n, cs, ts, a, x⟩ := g
      simp only at hC hT ⊢
      rw [hC, hT]
    have hSok := fun p hp => (⟨(h2.swaps_ok p hp).1, (h2.swaps_ok p hp).2.1, (h2.swaps_ok p hp).2.2.1⟩ :
      p.1 < N ∧ p.2 < N ∧ p.1 ≠ p.2)
    rw [h2.out_eq, hcond]
    rcases h3 with ⟨rfl, rfl⟩ | ⟨-, rfl, rfl⟩
    · have hG : (⟨g.name, [], [track S t0, track S t1], g.arg, g.extra⟩ : Gate) = g.relabel (track S) := by
        simp [Gate.relabel, hC, hT]
      rw [hG]
      exact den_conj laws S hSok g ⟨t0, t1, by simp [Gate.qubits, hC, hT], h01, h0, h1⟩
    · have hG : (⟨g.name, [], [track S t1, track S t0], g.arg, g.extra⟩ : Gate) =
          (⟨g.name, [], [t1, t0], g.arg, g.extra⟩ : Gate).relabel (track S) := rfl
      rw [hG, den_conj laws S hSok _ ⟨t1, t0, rfl, h01.symm, h1, h0⟩]
      exact (laws.exch_symm g.name t0 t1 g.arg g.extra hnm h0 h1 h01).symm.trans (congrArg interp hg.symm)
  · -- an ordered two-target gate (RZX): the routed gate lists the images of its targets in their order
    subst hrz
    obtain ⟨t0, t1, hC, hT, h01, h0, h1⟩ := hw.2 rfl hnm
    obtain ⟨S, p, q, h2, h3⟩ := routeSwp_specV cc true N setup g t0 t1 h01 h0 h1
    rw [routeGateV_ord hnm hT] at ho
    cases ho
    have hSok := fun p hp => (⟨(h2.swaps_ok p hp).1, (h2.swaps_ok p hp).2.1, (h2.swaps_ok p hp).2.2.1⟩ :
      p.1 < N ∧ p.2 < N ∧ p.1 ≠ p.2)
    rw [h2.out_eq, hcond]
    rcases h3 with ⟨rfl, rfl⟩ | ⟨hf, -, -⟩
    · have hG : (⟨g.name, [], [track S t0, track S t1], g.arg, g.extra⟩ : Gate) = g.relabel (track S) := by
        simp [Gate.relabel, hC, hT]
      rw [hG]
      exact den_conj laws S hSok g ⟨t0, t1, by simp [Gate.qubits, hC, hT], h01, h0, h1⟩
    · simp [hnm] at hf

/-- the instance for `routeGate` (`Variant.fixed`) and the two documented setups -/
theorem routeGate_den {N : Nat} {interp : Gate → M} (laws : SwapLaws N interp) (setup : Setup)
    (_hs : setup = .linear ∨ setup = .circular) (g : Gate) (hw : WellFormed N g) (hh : Handled g)
    (hp : Plain g) (out : List Gate) (ho : routeGate N setup g = .ok out) :
    den interp out = interp g :=
  routeGateV_den laws false false setup g ((wellFormedV_false N g).mpr hw) ((handledV_false g).mpr hh) hp.2
    (fun _ => hp.1) out ho

/-- **A whole circuit** -/
theorem toChainV_den {N : Nat} {interp : Gate → M} (laws : SwapLaws N interp) (cc rz : Bool) (setup : Setup)
    (gs : List Gate) (hw : ∀ g ∈ gs, WellFormedV rz N g)
    (hp : ∀ g ∈ gs, HandledV rz g → PlainArg g) (hx : cc = false → ∀ g ∈ gs, HandledV rz g → g.extra = 0)
    (out : List Gate) (ho : toChainV (.rep cc rz) N setup gs = .ok out) :
    den interp out = den interp gs := by
  induction gs generalizing out with
  | nil =>
    have : out = [] := toChainV_nil ho
    rw [this]
  | cons g gs ih =>
    obtain ⟨a, b, ha, hb, rfl⟩ := (toChainV_cons ..).mp ho
    have hb' := ih (fun g hg => hw g (List.mem_cons_of_mem _ hg))
      (fun g hg => hp g (List.mem_cons_of_mem _ hg))
      (fun h g hg => hx h g (List.mem_cons_of_mem _ hg)) b hb
    rw [den_append, hb', den]
    congr 1
    by_cases hh : HandledV rz g
    · exact routeGateV_den laws cc rz setup g (hw g (List.mem_cons_self ..)) hh (hp g (List.mem_cons_self ..) hh)
        (fun h => hx h g (List.mem_cons_self ..) hh) a ha
    · rw [routeGateV_other hh] at ha; cases ha
      simp [den]

/-! ## classical conditions

`extra` labels the classical condition of a gate (`0` = none).  Under a valuation `fire` of the
conditions (which of them hold for the current classical bits) a conditioned gate is its operator
or the identity.  The laws carry over, so with `fixes/C07-5.patch` the routed circuit is the same
operator **for every classical state**. -/

/-- the operator of a gate when the conditions `fire` hold -/
def condInterp (fire : Nat → Bool) (interp : Gate → M) (g : Gate) : M :=
  if g.extra = 0 ∨ fire g.extra = true then interp g else 1

theorem SwapLaws.cond {N : Nat} {interp : Gate → M} (laws : SwapLaws N interp) (fire : Nat → Bool) :
    SwapLaws N (condInterp fire interp) where
  swap_sq := by
    intro i j hi hj hij
    have : condInterp fire interp (swapG i j) = interp (swapG i j) := by simp [condInterp, swapG]
    rw [this]; exact laws.swap_sq i j hi hj hij
  swap_conj := by
    intro i j hi hj hij g hg
    have hs : condInterp fire interp (swapG i j) = interp (swapG i j) := by simp [condInterp, swapG]
    have he : (g.relabel (swapAt i j)).extra = g.extra := rfl
    rw [hs]
    unfold condInterp
    rw [he]
    split
    · exact laws.swap_conj i j hi hj hij g hg
    · rw [mul_one]; exact laws.swap_sq i j hi hj hij
  exch_symm := by
    intro nm x y a k hnm hx hy hxy
    unfold condInterp
    simp only
    split
    · exact laws.exch_symm nm x y a k hnm hx hy hxy
    · rfl

end QipVerif.Route
