import QipVerif.Lemmas.RouteCircuit
import Mathlib.Algebra.Group.Defs
/-!
# C07: the routed circuit has the same product (over an arbitrary monoid)

`den interp gs` is the product of the interpretations of the gates in matrix order (later gates
on the left).  The only facts about gate matrices that are used are collected in the hypothesis
structure `SwapLaws`; its instantiation for `Circuit.den` over ℂ (`embed_perm`) is supplied
centrally.
-/
namespace QipVerif.Route

variable {M : Type} [Monoid M]

/-- product of a circuit, later gates multiply from the left (`U = U_n ⋯ U_1`) -/
def den (interp : Gate → M) : List Gate → M
  | [] => 1
  | g :: gs => den interp gs * interp g

theorem den_append (interp : Gate → M) (l₁ l₂ : List Gate) :
    den interp (l₁ ++ l₂) = den interp l₂ * den interp l₁ := by
  induction l₁ with
  | nil => simp [den]
  | cons g l ih => simp [den, ih, mul_assoc]

/-- a gate on exactly two distinct qubits of the register -/
def TwoQ (N : Nat) (g : Gate) : Prop := ∃ x y, g.qubits = [x, y] ∧ x ≠ y ∧ x < N ∧ y < N

/-- **The one hypothesis about gate matrices.**  For every SWAP on two distinct qubits of the
register: it is an involution, and conjugating a two-qubit gate by it relabels the gate's qubits
by the transposition.  `exch_symm`: the exchange-type gates (SWAP, ISWAP, √ISWAP, √SWAP, BERKELEY,
SWAPα) do not distinguish their two targets — needed because the router always lists the routed
gate's targets in ascending (forward path) resp. ring (backward path) order. -/
structure SwapLaws (N : Nat) (interp : Gate → M) : Prop where
  swap_sq : ∀ i j, i < N → j < N → i ≠ j → interp (swapG i j) * interp (swapG i j) = 1
  swap_conj : ∀ i j, i < N → j < N → i ≠ j → ∀ g, TwoQ N g →
    interp (swapG i j) * interp g * interp (swapG i j) = interp (g.relabel (swapAt i j))
  exch_symm : ∀ nm x y a, nm.isSwp = true → x < N → y < N → x ≠ y →
    interp ⟨nm, [], [x, y], a, 0⟩ = interp ⟨nm, [], [y, x], a, 0⟩

theorem relabel_qubits (f : Nat → Nat) (g : Gate) : (g.relabel f).qubits = g.qubits.map f := by
  simp [Gate.relabel, Gate.qubits]

theorem relabel_relabel (f h : Nat → Nat) (g : Gate) : (g.relabel f).relabel h = g.relabel (h ∘ f) := by
  simp [Gate.relabel]

theorem relabel_id' (f : Nat → Nat) (hf : ∀ x, f x = x) (g : Gate) : g.relabel f = g := by
  have : f = id := funext hf
  cases g; simp [Gate.relabel, this]

theorem TwoQ.relabel_swapAt {N : Nat} {g : Gate} (h : TwoQ N g) {i j : Nat} (hi : i < N) (hj : j < N) :
    TwoQ N (g.relabel (swapAt i j)) := by
  obtain ⟨x, y, hq, hxy, hx, hy⟩ := h
  exact ⟨swapAt i j x, swapAt i j y, by rw [relabel_qubits, hq]; rfl,
    fun h => hxy (swapAt_inj h), swapAt_lt hi hj hx, swapAt_lt hi hj hy⟩

/-- swap-in, the gate on the tracked qubits, mirrored swap-out: the product is the gate itself -/
theorem den_conj {N : Nat} {interp : Gate → M} (laws : SwapLaws N interp) (S : List (Nat × Nat))
    (hS : ∀ p ∈ S, p.1 < N ∧ p.2 < N ∧ p.1 ≠ p.2) (g : Gate) (hg : TwoQ N g) :
    den interp (swaps S ++ g.relabel (track S) :: swaps S.reverse) = interp g := by
  induction S generalizing g with
  | nil => simp [swaps, den, relabel_id' (track []) (fun _ => rfl)]
  | cons p S ih =>
    obtain ⟨hi, hj, hij⟩ := hS p (List.mem_cons_self ..)
    have hg' := hg.relabel_swapAt hi hj
    have hrel : g.relabel (track (p :: S)) = (g.relabel (swapAt p.1 p.2)).relabel (track S) := by
      rw [relabel_relabel]; rfl
    have hlist : swaps (p :: S) ++ g.relabel (track (p :: S)) :: swaps (p :: S).reverse =
        swapG p.1 p.2 :: ((swaps S ++ (g.relabel (swapAt p.1 p.2)).relabel (track S) :: swaps S.reverse)
          ++ [swapG p.1 p.2]) := by
      rw [hrel]; simp [swaps]
    rw [hlist]
    simp only [den, den_append, ih (fun q hq => hS q (List.mem_cons_of_mem _ hq)) _ hg', one_mul]
    rw [laws.swap_conj _ _ hi hj hij _ hg', relabel_relabel]
    exact congrArg interp (relabel_id' _ (fun x => swapAt_swapAt ..) g)

/-- A handled gate the routed version of which is meant to be the same operation: nothing but
name, qubits and (for SWAPα) the argument — the router does not copy anything else. -/
def Plain (g : Gate) : Prop := g.extra = 0 ∧ (g.name.isCtl = true → g.arg = 0)

/-- **One handled gate**: the product of the routed gates is the gate. -/
theorem routeGate_den {N : Nat} {interp : Gate → M} (laws : SwapLaws N interp) (setup : Setup)
    (hs : setup = .linear ∨ setup = .circular) (g : Gate) (hw : WellFormed N g) (hh : Handled g)
    (hp : Plain g) (out : List Gate) (ho : routeGate N setup g = .ok out) :
    den interp out = interp g := by
  rcases hh with hnm | hnm
  · obtain ⟨c, t, hC, hT, hct, hc, ht⟩ := hw.1 hnm
    obtain ⟨out', S, h1, h2⟩ := routeCtl_spec N setup hs g c t hnm hC hT hct hc ht
    rw [routeGate_ctl hnm hC hT, h1] at ho
    cases ho
    have hG : (⟨g.name, [track S c], [track S t], 0, 0⟩ : Gate) = g.relabel (track S) := by
      simp [Gate.relabel, hC, hT, hp.1, hp.2 hnm]
    rw [h2.out_eq, hG]
    exact den_conj laws S (fun p hp => ⟨(h2.swaps_ok p hp).1, (h2.swaps_ok p hp).2.1, (h2.swaps_ok p hp).2.2.1⟩)
      g ⟨c, t, by simp [Gate.qubits, hC, hT], hct, hc, ht⟩
  · obtain ⟨t0, t1, hC, hT, h01, h0, h1⟩ := hw.2 hnm
    obtain ⟨S, p, q, h2, h3⟩ := routeSwp_spec N setup hs g t0 t1 h01 h0 h1
    rw [routeGate_swp hnm hT] at ho
    cases ho
    have hg : g = ⟨g.name, [], [t0, t1], g.arg, 0⟩ := by
      obtain ⟨n, cs, ts, a, x⟩ := g
      have hx : x = 0 := hp.1
      simp only at hC hT ⊢
      rw [hC, hT, hx]
    have hSok := fun p hp => (⟨(h2.swaps_ok p hp).1, (h2.swaps_ok p hp).2.1, (h2.swaps_ok p hp).2.2.1⟩ :
      p.1 < N ∧ p.2 < N ∧ p.1 ≠ p.2)
    rw [h2.out_eq]
    rcases h3 with ⟨rfl, rfl⟩ | ⟨rfl, rfl⟩
    · have hG : (⟨g.name, [], [track S t0, track S t1], g.arg, 0⟩ : Gate) = g.relabel (track S) := by
        simp [Gate.relabel, hC, hT, hp.1]
      rw [hG]
      exact den_conj laws S hSok g ⟨t0, t1, by simp [Gate.qubits, hC, hT], h01, h0, h1⟩
    · have hG : (⟨g.name, [], [track S t1, track S t0], g.arg, 0⟩ : Gate) =
          (⟨g.name, [], [t1, t0], g.arg, 0⟩ : Gate).relabel (track S) := rfl
      rw [hG, den_conj laws S hSok _ ⟨t1, t0, rfl, h01.symm, h1, h0⟩, hg]
      exact (laws.exch_symm g.name t0 t1 g.arg hnm h0 h1 h01).symm

end QipVerif.Route
