import QipVerif.Lemmas.EmbedAlg
/-!
# Denotation of placed gates on `(ℂ²)^{⊗k}` and the localisation lemma

A placed gate is an operator `U` on `m` qubits together with an injective placement of its
qubits into a `k`-qubit register; its denotation is `place.embed U` (C08's specification).
`denP` multiplies a gate list in circuit order (first gate applied first).
**Localisation**: relabelling every gate of a list along an injective map `q` of registers
relabels the denotation: `denP (gs.map (relabel q)) = q.embed (denP gs)`.  Hence an identity
between gate lists proved on the small register of a rewrite rule holds on every register
and every placement.
-/
namespace QipVerif
open Matrix

structure PGate (k : ℕ) where
  m : ℕ
  place : Tg m k
  U : Matrix (St m) (St m) ℂ

namespace PGate
variable {k N : ℕ}

noncomputable def den (g : PGate k) : Matrix (St k) (St k) ℂ := g.place.embed g.U

def relabel (q : Tg k N) (g : PGate k) : PGate N := ⟨g.m, q.comp g.place, g.U⟩

theorem den_relabel (q : Tg k N) (g : PGate k) : (g.relabel q).den = q.embed g.den := by
  simp only [den, relabel]
  rw [Tg.embed_comp]

end PGate

/-- product of a gate list in circuit order: later gates multiply on the left -/
noncomputable def denP {k : ℕ} : List (PGate k) → Matrix (St k) (St k) ℂ
  | [] => 1
  | g :: gs => denP gs * g.den

theorem denP_append {k : ℕ} (a b : List (PGate k)) : denP (a ++ b) = denP b * denP a := by
  induction a with
  | nil => simp [denP]
  | cons g gs ih => simp only [List.cons_append, denP, ih, Matrix.mul_assoc]

/-- **Localisation lemma.** -/
theorem denP_relabel {k N : ℕ} (q : Tg k N) (gs : List (PGate k)) :
    denP (gs.map (PGate.relabel q)) = q.embed (denP gs) := by
  induction gs with
  | nil => simp [denP, Tg.embed_one]
  | cons g gs ih =>
    simp only [List.map_cons, denP, ih, PGate.den_relabel, Tg.embed_mul]

/-- a rewrite that is sound on the small register is sound on every register and placement -/
theorem rewrite_localises {k N : ℕ} (q : Tg k N) (lhs rhs : List (PGate k)) (h : denP lhs = denP rhs) :
    denP (lhs.map (PGate.relabel q)) = denP (rhs.map (PGate.relabel q)) := by
  rw [denP_relabel, denP_relabel, h]

/-- replacing a sub-list by one with the same denotation preserves the denotation of the circuit -/
theorem denP_congr_mid {k : ℕ} (pre mid mid' post : List (PGate k)) (h : denP mid = denP mid') :
    denP (pre ++ mid ++ post) = denP (pre ++ mid' ++ post) := by
  simp only [denP_append, h]

end QipVerif
