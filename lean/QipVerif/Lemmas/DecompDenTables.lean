import QipVerif.Gen.DecompRulesAll
import QipVerif.Lemmas.DecompDenRule
/-!
# C03 — every fixed-angle entry of the regenerated rule tables, lifted to all registers

The entries are referred to only through `Gen.gateRule` / `Gen.basisRule`, the generated
definitions `Gen.gate_*` / `Gen.basis_*_*` and the generated kernel-checked theorems `Gen.sound_*`:
after a regeneration this file still compiles exactly when every rule is still sound (and still
passes the decidable shape check `ruleSide`).
-/
namespace QipVerif.Decomp
open QipVerif QipVerif.Gen Matrix

/-- every fixed-angle `_gate_<NAME>` template denotes the operator of the gate it rewrites -/
theorem gateRule_lift (n : GName) (body : List TGate) (h : gateRule n = .templ body)
    (hn : n ≠ .PHASEGATE) (hn' : n ≠ .GLOBALPHASE)
    (N : ℕ) (ρ : ℕ → ℝ) (g : Gate) (hname : g.name = n)
    (M : Matrix (St N) (St N) ℂ) (hM : semD N ρ g = some M)
    (out : List Gate) (hi : instBody g body = some out) : denG N ρ out = some M := by
  cases n <;> simp only [gateRule, reduceCtorEq] at h
  case PHASEGATE => exact absurd rfl hn
  case GLOBALPHASE => exact absurd rfl hn'
  case SNOT => cases h; exact rule_lift 1 gate_SNOT _ sound_gate_SNOT (by decide) N ρ g hname M hM out hi
  case SQRTNOT => cases h; exact rule_lift 1 gate_SQRTNOT _ sound_gate_SQRTNOT (by decide) N ρ g hname M hM out hi
  case CSIGN => cases h; exact rule_lift 2 gate_CSIGN _ sound_gate_CSIGN (by decide) N ρ g hname M hM out hi
  case SWAP => cases h; exact rule_lift 2 gate_SWAP _ sound_gate_SWAP (by decide) N ρ g hname M hM out hi
  case ISWAP => cases h; exact rule_lift 2 gate_ISWAP _ sound_gate_ISWAP (by decide) N ρ g hname M hM out hi
  case FREDKIN => cases h; exact rule_lift 3 gate_FREDKIN _ sound_gate_FREDKIN (by decide) N ρ g hname M hM out hi
  case TOFFOLI => cases h; exact rule_lift 3 gate_TOFFOLI _ sound_gate_TOFFOLI (by decide) N ρ g hname M hM out hi

/-- every `_basis_<Y>` template denotes the operator of the gate it rewrites -/
theorem basisRule_lift (y n : GName) (body : List TGate) (h : basisRule y n = some body)
    (N : ℕ) (ρ : ℕ → ℝ) (g : Gate) (hname : g.name = n)
    (M : Matrix (St N) (St N) ℂ) (hM : semD N ρ g = some M)
    (out : List Gate) (hi : instBody g body = some out) : denG N ρ out = some M := by
  cases y <;> cases n <;> simp only [basisRule, reduceCtorEq] at h
  case CSIGN.CNOT =>
    cases h; exact rule_lift 2 basis_CSIGN_CNOT _ sound_basis_CSIGN_CNOT (by decide) N ρ g hname M hM out hi
  case ISWAP.CNOT =>
    cases h; exact rule_lift 2 basis_ISWAP_CNOT _ sound_basis_ISWAP_CNOT (by decide) N ρ g hname M hM out hi
  case ISWAP.SWAP =>
    cases h; exact rule_lift 2 basis_ISWAP_SWAP _ sound_basis_ISWAP_SWAP (by decide) N ρ g hname M hM out hi
  case SQRTSWAP.CNOT =>
    cases h; exact rule_lift 2 basis_SQRTSWAP_CNOT _ sound_basis_SQRTSWAP_CNOT (by decide) N ρ g hname M hM out hi
  case SQRTISWAP.CNOT =>
    cases h; exact rule_lift 2 basis_SQRTISWAP_CNOT _ sound_basis_SQRTISWAP_CNOT (by decide) N ρ g hname M hM out hi

end QipVerif.Decomp
