import QipVerif.Lemmas.SchedFixed
import QipVerif.Lemmas.GateDoc
/-!
# C05 for the repaired rule, every gate the scheduler can be given (`schedule_den_full`)

`schedule_den_fixed` (`Lemmas/SchedFixed.lean`) covers circuits of IR gates with complex semantics in
`compactC`.  Here the circuit is a list of scheduler instructions `ns` together with one operator per
position, `g : ℕ → Matrix (St N) (St N) ℂ`, and every position is one of (`GateOK`):

1. **library gate**: an IR gate `γ` (well-formed `wfG`, canonical shape `shapeOK`) with `semD N ρ γ = some (g i)`
   whose sorted targets / controls are those of the instruction and whose name is the instruction's name or
   the instruction's name is another spelling of it in the library (`aliasOf`: `H` = `SNOT`, `CX` = `CNOT`,
   `iSWAP` = `ISWAP`);
2. **SWAPALPHA** (`SWAPALPHA` / `SWAPalpha`, any real `α`) on two targets, operator `Gen.G.swapalpha_ α`
   (generated from the library source) embedded on the two targets;
3. **anything else** (`QASMU`, `R`, `MS`, `RZX`, user-defined gates, …): *any* operator supported on the used
   qubits, provided the instruction is not flagged self-commuting (`sc = false`) and its name is none of the five
   names the cross-name rule tests for (`CNOT X RX Z RZ`).  The rule never declares such an instruction commuting
   with anything (`commRules_opaque`).

`schedule_den_full`: if in addition no `FREDKIN` instruction is flagged self-commuting, the product of the
operators in the scheduled order equals the product in the original order — both methods, both permutation
settings, every oracle.  No commutation hypothesis is left: every pair the rule can declare commuting commutes.
-/
namespace QipVerif
open Matrix Sched

/-! ## `mat2` is multiplicative -/

theorem idx2_mk (a b : Fin 2) : idx2 ![a, b] = ⟨2 * a.val + b.val, by omega⟩ := by
  fin_cases a <;> fin_cases b <;> rfl

/-- two-qubit basis states ≃ flat indices -/
def idx2Equiv : St 2 ≃ Fin 4 where
  toFun := idx2
  invFun k := ![⟨k.val / 2, by omega⟩, ⟨k.val % 2, by omega⟩]
  left_inv x := by
    rw [St2_eta x, idx2_mk]
    generalize x 0 = a, x 1 = b
    fin_cases a <;> fin_cases b <;> rfl
  right_inv k := by
    rw [idx2_mk]
    fin_cases k <;> rfl

theorem mat2_mul (A B : Matrix (Fin 4) (Fin 4) ℂ) : mat2 (A * B) = mat2 A * mat2 B := by
  ext x y
  simp only [mat2, Matrix.mul_apply]
  exact (Fintype.sum_equiv idx2Equiv _ _ (fun z => rfl)).symm

theorem swapalpha_commute (α β : ℝ) : Commute (mat2 (Gen.G.swapalpha_ α)) (mat2 (Gen.G.swapalpha_ β)) := by
  unfold Commute SemiconjBy
  rw [← mat2_mul, ← mat2_mul, GateDoc.swapalpha_mul, GateDoc.swapalpha_mul, add_comm]

/-! ## names -/

/-- other spellings of library gates (`GATE_CLASS_MAP`): the class `H` is `SNOT`, `CX` is the controlled `X`,
`iSWAP` is `ISWAP` (validated on the real library by the C05 harness) -/
def aliasOf (s : String) : Option GName :=
  if s = "H" then some .SNOT else if s = "CX" then some .CNOT else if s = "iSWAP" then some .ISWAP else none

/-- the names the cross-name part of `commutation_rules` tests for -/
def crossNames : List String := ["CNOT", "X", "RX", "Z", "RZ"]

def swapAlphaNames : List String := ["SWAPALPHA", "SWAPalpha"]

theorem aliasOf_cases {s : String} {n : GName} (h : aliasOf s = some n) :
    (s = "H" ∧ n = .SNOT) ∨ (s = "CX" ∧ n = .CNOT) ∨ (s = "iSWAP" ∧ n = .ISWAP) := by
  unfold aliasOf at h
  split at h
  · rename_i hs; cases h; exact Or.inl ⟨hs, rfl⟩
  · split at h
    · rename_i hs; cases h; exact Or.inr (Or.inl ⟨hs, rfl⟩)
    · split at h
      · rename_i hs; cases h; exact Or.inr (Or.inr ⟨hs, rfl⟩)
      · cases h

/-- the printed name of a name with complex semantics is no alias, no SWAPALPHA spelling -/
theorem toString_plain {n : GName} (h : (arityOf n).isSome = true) :
    aliasOf n.toString = none ∧ n.toString ∉ swapAlphaNames := by
  cases n <;> simp [arityOf, oneQ, ctlQ, symQ] at h <;> exact ⟨by decide, by decide⟩

theorem aliasOf_cross {s : String} (h : s ∈ crossNames) : aliasOf s = none := by
  simp only [crossNames, List.mem_cons, List.not_mem_nil, or_false] at h
  rcases h with rfl | rfl | rfl | rfl | rfl <;> decide

theorem aliasOf_swapAlpha {s : String} (h : s ∈ swapAlphaNames) : aliasOf s = none := by
  simp only [swapAlphaNames, List.mem_cons, List.not_mem_nil, or_false] at h
  rcases h with rfl | rfl <;> decide

theorem swapAlpha_not_cross {s : String} (h : s ∈ swapAlphaNames) : s ∉ crossNames := by
  simp only [swapAlphaNames, List.mem_cons, List.not_mem_nil, or_false] at h
  rcases h with rfl | rfl <;> decide

/-! ## what `commutation_rules` can answer `true` for -/

theorem commRules_true_cases {a b : Ins} (h : commRules a b = true) :
    (a.name = b.name ∧ a.sc = true ∧ b.sc = true ∧
      ((a.controls ≠ [] ∧ a.controls = b.controls) ∨ a.targets = b.targets)) ∨
    (a.name ∈ crossNames ∧ b.name ∈ crossNames) := by
  rcases (commRules_true_iff a b).mp h with h | ⟨h1, h2 | h2, _⟩ | ⟨h1, h2 | h2, _⟩ | ⟨h1, h2 | h2, _⟩ | ⟨h1, h2 | h2, _⟩
  · exact Or.inl h
  all_goals (right; rw [h1, h2]; exact ⟨by decide, by decide⟩)

/-- an instruction that is not flagged self-commuting and whose name the cross-name rule does not test for is
never declared commuting with anything -/
theorem commRules_opaque {a : Ins} (hs : a.sc = false) (hn : a.name ∉ crossNames) (b : Ins) :
    commRules a b = false ∧ commRules b a = false := by
  constructor
  · cases h : commRules a b with
    | false => rfl
    | true =>
      rcases commRules_true_cases h with ⟨_, h1, _⟩ | ⟨h1, _⟩
      · rw [hs] at h1; cases h1
      · exact absurd h1 hn
  · cases h : commRules b a with
    | false => rfl
    | true =>
      rcases commRules_true_cases h with ⟨_, _, h1, _⟩ | ⟨_, h1⟩
      · rw [hs] at h1; cases h1
      · exact absurd h1 hn

/-! ## the three kinds of positions -/

variable {N : ℕ} (ρ : ℕ → ℝ)

/-- position kind 1: a library gate `γ` behind the instruction `a` -/
def LibOK (N : ℕ) (ρ : ℕ → ℝ) (a : Ins) (A : Matrix (St N) (St N) ℂ) (γ : Gate) : Prop :=
  wfG N γ = true ∧ shapeOK γ = true ∧ semD N ρ γ = some A ∧
    a.targets = isort γ.targets ∧ a.controls = isort γ.controls ∧
    (a.name = γ.name.toString ∨ aliasOf a.name = some γ.name)

/-- position kind 2: SWAPALPHA with parameter `α` on the targets `i`, `j` -/
def SwapAlphaOK (N : ℕ) (a : Ins) (A : Matrix (St N) (St N) ℂ) (i j : Fin N) (h : i ≠ j) (α : ℝ) : Prop :=
  a.name ∈ swapAlphaNames ∧ a.targets = isort [i.val, j.val] ∧ a.controls = [] ∧
    A = (Tg.pair i j h).embed (mat2 (Gen.G.swapalpha_ α))

/-- position kind 3: any operator on the used qubits, for a name the rule never declares commuting -/
def OpaqueOK (N : ℕ) (a : Ins) (A : Matrix (St N) (St N) ℂ) : Prop :=
  a.sc = false ∧ a.name ∉ crossNames ∧ SupportedOn A (usedSet N a)

/-- what is assumed about one position of the circuit -/
def GateOK (N : ℕ) (ρ : ℕ → ℝ) (a : Ins) (A : Matrix (St N) (St N) ℂ) : Prop :=
  (∃ γ, LibOK N ρ a A γ) ∨ (∃ i j h α, SwapAlphaOK N a A i j h α) ∨ OpaqueOK N a A

/-! ### support (`H1`) -/

theorem used_congr {a b : Ins} (ht : a.targets = b.targets) (hc : a.controls = b.controls) : a.used = b.used := by
  simp only [Ins.used, ht, hc]

theorem LibOK.supported {a : Ins} {A : Matrix (St N) (St N) ℂ} {γ : Gate} (h : LibOK N ρ a A γ) :
    SupportedOn A (usedSet N a) := by
  obtain ⟨hwf, _, hsem, ht, hc, _⟩ := h
  obtain ⟨A', hA', hs⟩ := wfG_sem ρ (fun _ => true) γ hwf
  rw [hsem] at hA'
  cases hA'
  have : usedSet N (insOf (fun _ => true) γ) = usedSet N a := by
    unfold usedSet
    rw [used_congr (a := insOf (fun _ => true) γ) (b := a) ht.symm hc.symm]
  rwa [this] at hs

theorem SwapAlphaOK.supported {a : Ins} {A : Matrix (St N) (St N) ℂ} {i j : Fin N} {h : i ≠ j} {α : ℝ}
    (hk : SwapAlphaOK N a A i j h α) : SupportedOn A (usedSet N a) := by
  obtain ⟨_, ht, _, rfl⟩ := hk
  apply SupportedOn.embed
  intro l hl
  rw [Tg.mem_range_pair] at hl
  show l.val ∈ a.used
  rw [mem_used, ht, mem_isort]
  left
  rcases hl with rfl | rfl <;> simp

theorem GateOK.supported {a : Ins} {A : Matrix (St N) (St N) ℂ} (h : GateOK N ρ a A) :
    SupportedOn A (usedSet N a) := by
  rcases h with ⟨γ, h⟩ | ⟨i, j, hij, α, h⟩ | h
  · exact h.supported ρ
  · exact h.supported
  · exact h.2.2

/-! ### pairs of library gates (`H2`) -/

/-- the set of names used to transport a declared pair to `safePair_of_declared` -/
def wNoF (s : String) : Bool := s != "FREDKIN"

theorem wNoF_fredkin : wNoF "FREDKIN" = false := by decide

/-- the name behind a library position is not `FREDKIN` when the instruction is flagged self-commuting and
`FREDKIN` instructions are not -/
theorem LibOK.not_fredkin {a : Ins} {A : Matrix (St N) (St N) ℂ} {γ : Gate} (h : LibOK N ρ a A γ)
    (hF : a.name = "FREDKIN" → a.sc = false) (hs : a.sc = true) : wNoF γ.name.toString = true := by
  obtain ⟨hwf, _, _, _, _, hl⟩ := h
  by_cases hn : γ.name.toString = "FREDKIN"
  · exfalso
    have hγ : γ.name = .FREDKIN := toString_inj (wfG_arity hwf) rfl hn
    rcases hl with hl | hl
    · rw [hF (hl.trans hn)] at hs; cases hs
    · rw [hγ] at hl
      rcases aliasOf_cases hl with ⟨_, h⟩ | ⟨_, h⟩ | ⟨_, h⟩ <;> cases h
  · simp [wNoF, hn]

/-- a cross-rule name behind a library position is the name of the gate -/
theorem LibOK.name_cross {a : Ins} {A : Matrix (St N) (St N) ℂ} {γ : Gate} (h : LibOK N ρ a A γ)
    (hc : a.name ∈ crossNames) : γ.name.toString = a.name := by
  rcases h.2.2.2.2.2 with hl | hl
  · exact hl.symm
  · rw [aliasOf_cross hc] at hl; cases hl

/-- two library positions with the same instruction name carry the same gate name -/
theorem LibOK.same_name {a b : Ins} {A B : Matrix (St N) (St N) ℂ} {γ δ : Gate} (ha : LibOK N ρ a A γ)
    (hb : LibOK N ρ b B δ) (hn : a.name = b.name) : γ.name = δ.name := by
  have aγ := wfG_arity ha.1
  have aδ := wfG_arity hb.1
  rcases ha.2.2.2.2.2 with la | la <;> rcases hb.2.2.2.2.2 with lb | lb
  · exact toString_inj aγ aδ (la.symm.trans (hn.trans lb))
  · rw [← hn, la, (toString_plain aγ).1] at lb; cases lb
  · rw [hn, lb, (toString_plain aδ).1] at la; cases la
  · rw [hn, lb] at la; exact (Option.some.inj la).symm

theorem share_congr {a a' b b' : Ins} (hta : a.targets = a'.targets) (hca : a.controls = a'.controls)
    (htb : b.targets = b'.targets) (hcb : b.controls = b'.controls) : share a b = share a' b' := by
  simp only [share, used_congr hta hca, used_congr htb hcb]

/-- **two library positions the rule declares commuting commute** -/
theorem lib_pair_commute {a b : Ins} {A B : Matrix (St N) (St N) ℂ} {γ δ : Gate} (ha : LibOK N ρ a A γ)
    (hb : LibOK N ρ b B δ) (hFa : a.name = "FREDKIN" → a.sc = false) (hFb : b.name = "FREDKIN" → b.sc = false)
    (hsh : share a b = true) (hc : commRules a b = true) : Commute A B := by
  have hta : (insOf wNoF γ).targets = a.targets := ha.2.2.2.1.symm
  have hca : (insOf wNoF γ).controls = a.controls := ha.2.2.2.2.1.symm
  have htb : (insOf wNoF δ).targets = b.targets := hb.2.2.2.1.symm
  have hcb : (insOf wNoF δ).controls = b.controls := hb.2.2.2.2.1.symm
  have hsh' : share (insOf wNoF γ) (insOf wNoF δ) = true := by rw [share_congr hta hca htb hcb]; exact hsh
  have hc' : commRules (insOf wNoF δ) (insOf wNoF γ) = true := by
    rw [commRules_symm, commRules_true_iff, hta, hca, htb, hcb]
    rcases (commRules_true_iff a b).mp hc with ⟨hn, sa, sb, hrel⟩ | ⟨h1, h2, h3⟩ | ⟨h1, h2, h3⟩ | ⟨h1, h2, h3⟩ | ⟨h1, h2, h3⟩
    · left
      refine ⟨?_, ha.not_fredkin ρ hFa sa, hb.not_fredkin ρ hFb sb, hrel⟩
      show γ.name.toString = δ.name.toString
      rw [ha.same_name ρ hb hn]
    · right; left
      have e1 := ha.name_cross ρ (by rw [h1]; decide)
      have e2 := hb.name_cross ρ (by rcases h2 with h | h <;> rw [h] <;> decide)
      exact ⟨e1.trans h1, by rcases h2 with h | h; exact Or.inl (e2.trans h); exact Or.inr (e2.trans h), h3⟩
    · right; right; left
      have e1 := ha.name_cross ρ (by rw [h1]; decide)
      have e2 := hb.name_cross ρ (by rcases h2 with h | h <;> rw [h] <;> decide)
      exact ⟨e1.trans h1, by rcases h2 with h | h; exact Or.inl (e2.trans h); exact Or.inr (e2.trans h), h3⟩
    · right; right; right; left
      have e1 := hb.name_cross ρ (by rw [h1]; decide)
      have e2 := ha.name_cross ρ (by rcases h2 with h | h <;> rw [h] <;> decide)
      exact ⟨e1.trans h1, by rcases h2 with h | h; exact Or.inl (e2.trans h); exact Or.inr (e2.trans h), h3⟩
    · right; right; right; right
      have e1 := hb.name_cross ρ (by rw [h1]; decide)
      have e2 := ha.name_cross ρ (by rcases h2 with h | h <;> rw [h] <;> decide)
      exact ⟨e1.trans h1, by rcases h2 with h | h; exact Or.inl (e2.trans h); exact Or.inr (e2.trans h), h3⟩
  exact safePair_commute ρ γ δ A B ha.2.2.1 hb.2.2.1
    (safePair_of_declared wNoF wNoF_fredkin γ δ ha.1 hb.1 ha.2.1 hb.2.1 hsh' hc')

/-! ### pairs of SWAPALPHA gates -/

theorem swapalpha_pair_commute {a b : Ins} {A B : Matrix (St N) (St N) ℂ} {i j k l : Fin N} {hij : i ≠ j} {hkl : k ≠ l}
    {α β : ℝ} (ha : SwapAlphaOK N a A i j hij α) (hb : SwapAlphaOK N b B k l hkl β) (hc : commRules a b = true) :
    Commute A B := by
  obtain ⟨hna, hta, hca, rfl⟩ := ha
  obtain ⟨hnb, htb, hcb, rfl⟩ := hb
  have ht : a.targets = b.targets := by
    rcases commRules_true_cases hc with ⟨_, _, _, ⟨h1, _⟩ | h1⟩ | ⟨h1, _⟩
    · exact absurd hca h1
    · exact h1
    · exact absurd h1 (swapAlpha_not_cross hna)
  rw [hta, htb] at ht
  have same : ∀ (h' : i ≠ j), Commute ((Tg.pair i j hij).embed (mat2 (Gen.G.swapalpha_ α)))
      ((Tg.pair i j h').embed (mat2 (Gen.G.swapalpha_ β))) := by
    intro h'
    unfold Commute SemiconjBy
    rw [← Tg.embed_mul, ← Tg.embed_mul, (swapalpha_commute α β).eq]
  rcases isort_two_eq ht with h | h
  · simp only [List.cons.injEq, and_true] at h
    obtain ⟨rfl, rfl⟩ : k = i ∧ l = j := ⟨Fin.ext h.1, Fin.ext h.2⟩
    exact same hkl
  · simp only [List.cons.injEq, and_true] at h
    obtain ⟨rfl, rfl⟩ : k = j ∧ l = i := ⟨Fin.ext h.1, Fin.ext h.2⟩
    rw [embed_exchange_symm _ (exch_swapalpha β) k l hkl]
    exact same hkl.symm

/-! ### every declared pair commutes -/

/-- **`H2` without hypothesis**: two positions that share a qubit and that `commutation_rules` declares commuting
carry commuting operators. -/
theorem gateOK_pair_commute {a b : Ins} {A B : Matrix (St N) (St N) ℂ} (ha : GateOK N ρ a A) (hb : GateOK N ρ b B)
    (hFa : a.name = "FREDKIN" → a.sc = false) (hFb : b.name = "FREDKIN" → b.sc = false)
    (hsh : share a b = true) (hc : commRules a b = true) : Commute A B := by
  rcases ha with ⟨γ, ha⟩ | ⟨i, j, hij, α, ha⟩ | ha
  · rcases hb with ⟨δ, hb⟩ | ⟨k, l, hkl, β, hb⟩ | hb
    · exact lib_pair_commute ρ ha hb hFa hFb hsh hc
    · exfalso
      rcases commRules_true_cases hc with ⟨hn, _⟩ | ⟨_, h1⟩
      · have hna : a.name ∈ swapAlphaNames := hn ▸ hb.1
        rcases ha.2.2.2.2.2 with hl | hl
        · exact (toString_plain (wfG_arity ha.1)).2 (hl ▸ hna)
        · rw [aliasOf_swapAlpha hna] at hl; cases hl
      · exact swapAlpha_not_cross hb.1 h1
    · rw [(commRules_opaque hb.1 hb.2.1 a).2] at hc; cases hc
  · rcases hb with ⟨δ, hb⟩ | ⟨k, l, hkl, β, hb⟩ | hb
    · exfalso
      rcases commRules_true_cases hc with ⟨hn, _⟩ | ⟨h1, _⟩
      · have hnb : b.name ∈ swapAlphaNames := hn ▸ ha.1
        rcases hb.2.2.2.2.2 with hl | hl
        · exact (toString_plain (wfG_arity hb.1)).2 (hl ▸ hnb)
        · rw [aliasOf_swapAlpha hnb] at hl; cases hl
      · exact swapAlpha_not_cross ha.1 h1
    · exact swapalpha_pair_commute ha hb hc
    · rw [(commRules_opaque hb.1 hb.2.1 a).2] at hc; cases hc
  · rw [(commRules_opaque ha.1 ha.2.1 b).1] at hc; cases hc

/-- **schedule_den_full.**  Every position is a library gate, a SWAPALPHA gate or an arbitrary operator under a name
the rule never declares commuting; no `FREDKIN` instruction is flagged self-commuting.  Then the scheduled product
equals the original product (matrix order: first gate = rightmost factor). -/
theorem schedule_den_full (alap allowPerm : Bool) (ns : List Ins) (g : ℕ → Matrix (St N) (St N) ℂ)
    (O2 : ℕ → List ℕ → List ℕ) (hO : ∀ r l, (O2 r l).Perm l)
    (hF : ∀ a ∈ ns, a.name = "FREDKIN" → a.sc = false)
    (hok : ∀ i, i < ns.length → GateOK N ρ (getIns ns i) (g i)) :
    ((cyclesGen alap allowPerm ns O2).flatten.map g).reverse.prod = ((List.range ns.length).map g).reverse.prod := by
  have hmem : ∀ i, i < ns.length → getIns ns i ∈ ns := by
    intro i hi
    simp [getIns, List.getD_eq_getElem?_getD, hi]
  apply cyclesGen_prod_rev alap allowPerm ns g O2 hO
  · intro i j hi hj hs
    exact commute_of_share_false ((hok i hi).supported ρ) ((hok j hj).supported ρ) hs
  · intro i j hij hj hs hc
    have hi : i < ns.length := by omega
    simp only [commIdx, Bool.and_eq_true] at hc
    have hc' : commRules (getIns ns i) (getIns ns j) = true := by rw [commRules_symm]; exact hc.2
    exact gateOK_pair_commute ρ (hok i hi) (hok j hj) (hF _ (hmem i hi)) (hF _ (hmem j hj)) hs hc'

/-- the same in circuit order (first gate = leftmost factor) -/
theorem schedule_den_full_fwd (alap allowPerm : Bool) (ns : List Ins) (g : ℕ → Matrix (St N) (St N) ℂ)
    (O2 : ℕ → List ℕ → List ℕ) (hO : ∀ r l, (O2 r l).Perm l)
    (hF : ∀ a ∈ ns, a.name = "FREDKIN" → a.sc = false)
    (hok : ∀ i, i < ns.length → GateOK N ρ (getIns ns i) (g i)) :
    ((cyclesGen alap allowPerm ns O2).flatten.map g).prod = ((List.range ns.length).map g).prod := by
  have hmem : ∀ i, i < ns.length → getIns ns i ∈ ns := by
    intro i hi
    simp [getIns, List.getD_eq_getElem?_getD, hi]
  apply cyclesGen_prod alap allowPerm ns g O2 hO
  · intro i j hi hj hs
    exact commute_of_share_false ((hok i hi).supported ρ) ((hok j hj).supported ρ) hs
  · intro i j hij hj hs hc
    have hi : i < ns.length := by omega
    simp only [commIdx, Bool.and_eq_true] at hc
    have hc' : commRules (getIns ns i) (getIns ns j) = true := by rw [commRules_symm]; exact hc.2
    exact gateOK_pair_commute ρ (hok i hi) (hok j hj) (hF _ (hmem i hi)) (hF _ (hmem j hj)) hs hc'

end QipVerif
