import QipVerif.Lemmas.QasmCustom
import QipVerif.Lemmas.QasmImportTop
/-!
# User gate definitions: `_custom_gate` against the standard's `expandCall` (C04)

For every list of user gate definitions the standard accepts after `include "qelib1.inc"`
(`DefsOk`: new names, formal names distinct, bodies well formed over the earlier gates — any nesting
depth below the importer's recursion budget), every call `name(ps) regs` on distinct qubits of a
`K`-qubit register: the temporary circuit `_custom_gate` builds (recursively inlining nested user
gates, replacing `qelib1.inc` gates by library gates) has, under `denX`, the unitary of the
standard's expansion to `U`/`CX`, up to one phase.  Induction on the list of definitions.
-/
namespace QipVerif.Qasm.Import
open QipVerif QipVerif.Qasm QipVerif.Qasm.Export Matrix

/-! ## the class -/

def noBarrier : GOp → Bool
  | .barrier _ => false
  | _ => true

/-- the definition as `_initialize_pass` stores it: barriers dropped -/
def storeDef (d : GateDef) : GateDef := { d with body := d.body.filter noBarrier }

def gopDivOk (g : GOp) : Bool := (gopParams g).all divSafe

/-- **user definitions (newest first) as the standard accepts them** after `include "qelib1.inc"`:
the name is new (and not the keyword `U`/`CX`), formal names are distinct, the body is well formed over
the gates declared before (`gopsOk`: declared gates, right arities, supported closed expressions, formal
qubits only, no repeated qubit); plus: no divisor is a literal zero or a bare formal parameter -/
def DefsOk : List GateDef → Prop
  | [] => True
  | d :: rest =>
    (rest ++ qelib1.reverse).find? (fun x => x.name == d.name) = none ∧ predefined d.name = false ∧
    d.params.Nodup ∧ d.qargs.Nodup ∧ gopsOk (rest ++ qelib1.reverse) d.params d.qargs d.body = .ok () ∧
    d.body.all gopDivOk = true ∧ DefsOk rest

theorem defsOk_suffix : ∀ (P S : List GateDef), DefsOk (P ++ S) → DefsOk S := by
  intro P
  induction P with
  | nil => intro S h; exact h
  | cons p P ih => intro S h; exact ih S h.2.2.2.2.2.2

/-- names in front differ from the names behind -/
theorem defsOk_names : ∀ (P S : List GateDef), DefsOk (P ++ S) → ∀ p ∈ P, ∀ s ∈ S, (p.name == s.name) = false := by
  intro P
  induction P with
  | nil => intro S _ p hp; cases hp
  | cons p0 P ih =>
    intro S h p hp s hs
    rcases List.mem_cons.mp hp with rfl | hp'
    · have h1 := h.1
      rw [List.find?_eq_none] at h1
      have := h1 s (by simp [hs])
      have h2 : (s.name == p.name) = false := by simpa using this
      cases hb : (p.name == s.name) with
      | false => rfl
      | true =>
        have e : p.name = s.name := by simpa using hb
        rw [e] at h2
        simp at h2
    · exact ih S h.2.2.2.2.2.2 p hp' s hs

theorem find_skip_front (P S : List GateDef) (name : Str) (d : GateDef)
    (hS : S.find? (fun x => x.name == name) = some d)
    (hne : ∀ p ∈ P, ∀ s ∈ S, (p.name == s.name) = false) :
    (P ++ S).find? (fun x => x.name == name) = some d := by
  rw [List.find?_append]
  have : P.find? (fun x => x.name == name) = none := by
    rw [List.find?_eq_none]
    intro p hp
    have hd := List.mem_of_find?_eq_some hS
    have hn : d.name = name := by simpa using List.find?_some hS
    have := hne p hp d hd
    rw [hn] at this
    simp [this]
  rw [this]
  simpa using hS

theorem find_storeDef (L : List GateDef) (name : Str) :
    (L.map storeDef).find? (fun x => x.name == name) = (L.find? (fun x => x.name == name)).map storeDef := by
  induction L with
  | nil => rfl
  | cons d L ih =>
    simp only [List.map_cons, List.find?_cons]
    have : (storeDef d).name = d.name := rfl
    rw [this]
    cases (d.name == name) with
    | true => rfl
    | false => exact ih

/-! ## inversion of the standard's checks -/

theorem gopsOk_mem {gates : List GateDef} {params qargs : List Str} : ∀ {body : List GOp},
    gopsOk gates params qargs body = .ok () → ∀ g ∈ body, gopOk gates params qargs g = .ok () := by
  intro body
  induction body with
  | nil => intro _ g hg; cases hg
  | cons g0 gs ih =>
    intro h g hg
    simp only [gopsOk, bind, Except.bind] at h
    cases h0 : gopOk gates params qargs g0 with
    | error e => simp [h0] at h
    | ok u =>
      simp only [h0] at h
      rcases List.mem_cons.mp hg with rfl | hg'
      · exact h0
      · exact ih h g hg'

theorem gopOk_U {gates : List GateDef} {params qargs : List Str} {a b l : Expr} {x : Str}
    (h : gopOk gates params qargs (.U a b l x) = .ok ()) :
    [a, b, l].all Expr.supported = true ∧ [a, b, l].all (Expr.closedIn params) = true ∧ x ∈ qargs := by
  simp only [gopOk] at h
  split at h
  · cases h
  · rename_i h1
    split at h
    · cases h
    · rename_i h2
      split at h
      · rename_i h3
        refine ⟨by simpa [Bool.and_assoc] using h1, by simpa [Bool.and_assoc] using h2, by simpa using h3⟩
      · cases h

theorem gopOk_CX {gates : List GateDef} {params qargs : List Str} {a b : Str}
    (h : gopOk gates params qargs (.CX a b) = .ok ()) : a ∈ qargs ∧ b ∈ qargs ∧ a ≠ b := by
  simp only [gopOk] at h
  split at h
  · cases h
  · rename_i h1
    split at h
    · cases h
    · rename_i h2
      simp only [Bool.not_eq_true, Bool.not_eq_false', Bool.and_eq_true, List.contains_eq_mem,
        decide_eq_true_eq] at h1
      exact ⟨h1.1, h1.2, by simpa using h2⟩

theorem gopOk_call {gates : List GateDef} {params qargs : List Str} {n : Str} {ps : List Expr} {qs : List Str}
    (h : gopOk gates params qargs (.call n ps qs) = .ok ()) :
    ∃ d, gates.find? (fun x => x.name == n) = some d ∧ ps.length = d.params.length ∧
      qs.length = d.qargs.length ∧ ps.all Expr.supported = true ∧ ps.all (Expr.closedIn params) = true ∧
      (∀ x ∈ qs, x ∈ qargs) ∧ qs.Nodup := by
  simp only [gopOk] at h
  cases hf : gates.find? (fun d => d.name == n) with
  | none => simp [hf] at h
  | some d =>
    simp only [hf] at h
    split at h
    · cases h
    · rename_i h1
      split at h
      · cases h
      · rename_i h2
        split at h
        · cases h
        · rename_i h3
          split at h
          · cases h
          · rename_i h4
            split at h
            · rename_i h5
              simp only [Bool.or_eq_true, bne_iff_ne, ne_eq, decide_eq_true_eq, not_or, not_not] at h1
              refine ⟨d, rfl, h1.1.symm, h1.2.symm, by simpa using h2, by simpa using h3, ?_, h5⟩
              intro x hx
              have := h4
              simp only [Bool.not_eq_true, Bool.not_eq_false', List.all_eq_true, List.contains_eq_mem,
                decide_eq_true_eq] at this
              exact this x hx
            · cases h

/-! ## one call, one body statement, a body -/

/-- the statement proved for a call of a gate: the importer's expansion and the standard's agree on the unitary -/
def CallOk (D G : List GateDef) (fuel : Nat) (name : Str) (d : GateDef) : Prop :=
  ∀ (K : ℕ) (ps : List Expr) (regs : List Nat), ArgsOk ps → ps.length = d.params.length →
    regs.length = d.qargs.length → regs.Nodup → (∀ q ∈ regs, q < K) →
    ∃ inner prims A B, customGate D fuel name ps (regs.map Sum.inl) = .ok inner ∧
      expandCall G name ps regs = .ok prims ∧ denPrims K ρ0 prims = some A ∧
      denX K (inner.map xOfI) = some B ∧ PhaseEqN A B

theorem cvBad_nn : cvBad none none = false := by simp [cvBad]

theorem qelib_predefined {n : Str} {d : GateDef} (h : qelib1.reverse.find? (fun x => x.name == n) = some d) :
    predefined n = true := by
  have hmem : d ∈ qelib1 := by simpa using List.mem_of_find?_eq_some h
  have hname : d.name = n := by simpa using List.find?_some h
  have hk := List.all_eq_true.mp qelib_ok d hmem
  simp only [qelibEntryOk, Bool.and_eq_true] at hk
  rw [← hname]
  exact hk.1.1.1.1

/-- a body statement of a definition whose earlier user gates satisfy `CallOk` -/
theorem op_den (D rest : List GateDef) (fuel : Nat)
    (hrest : ∀ name d, rest.find? (fun x => x.name == name) = some d →
      predefined name = false ∧ CallOk D (rest ++ qelib1.reverse) fuel name d)
    (params qargs : List Str) (K : ℕ) (ps : List Expr) (regs : List Nat) (hps : ArgsOk ps)
    (hpl : params.length = ps.length) (hrl : regs.length = qargs.length) (hn : regs.Nodup)
    (hr : ∀ q ∈ regs, q < K) (g : GOp) (hg : gopOk (rest ++ qelib1.reverse) params qargs g = .ok ())
    (hdiv : gopDivOk g = true) (hnb : noBarrier g = true) :
    ∃ inner prims A B, oneI D fuel (params.zip ps) (qargs.zip (regs.map Sum.inl)) g = .ok inner ∧
      expandG (rest ++ qelib1.reverse) (params.zip ps) (lookupQ (qargs.zip regs)) g = .ok prims ∧
      denPrims K ρ0 prims = some A ∧ denX K (inner.map xOfI) = some B ∧ PhaseEqN A B := by
  have hcr : ∀ l : List Nat, l.Nodup → (Gen.customChecksRepeat && bregDup (l.map Sum.inl)) = false := by
    intro l hl; rw [bregDup_inl l hl]; simp
  cases g with
  | barrier qs => simp [noBarrier] at hnb
  | U a b l x =>
    obtain ⟨hsup, hcl, hx⟩ := gopOk_U hg
    have hargs := argsOk_subst params ps hpl hps [a, b, l] hsup hcl (by
      intro e he
      simp only [gopDivOk, gopParams] at hdiv
      exact List.all_eq_true.mp hdiv e he)
    have hq := qB_eq qargs regs hrl x hx
    have hrx : lookupQ (qargs.zip regs) x < K := hr _ (lookupQ_mem qargs regs hrl x hx)
    obtain ⟨A, B, h1, h2, h3⟩ := flat_import_U K none (a.subst (params.zip ps)) (b.subst (params.zip ps))
      (l.subst (params.zip ps)) _ hrx
    refine ⟨[⟨cs!"QASMU", [lookupQ (qargs.zip regs) x], none,
      .many [a.subst (params.zip ps), b.subst (params.zip ps), l.subst (params.zip ps)], none, none⟩],
      _, A, B, ?_, rfl, h1, h2, h3⟩
    have hev : evalParams [a.subst (params.zip ps), b.subst (params.zip ps), l.subst (params.zip ps)] =
        .ok [a.subst (params.zip ps), b.subst (params.zip ps), l.subst (params.zip ps)] := hargs.eval
    have hd1 := hcr [lookupQ (qargs.zip regs) x] (by simp)
    simp only [oneI, hev, leafI, hq]
    simp only [List.map_cons, List.map_nil] at hd1
    rw [hd1]
    simp only [Bool.false_eq_true, if_false, builtin_ok.1, if_true]
    have hb := bregsResolved_inl [lookupQ (qargs.zip regs) x]
    simp only [List.map_cons, List.map_nil] at hb
    rw [hb]
    simp only []
    rw [addPredefined_U _ _ _ _ none none cvBad_nn]
  | CX a b =>
    obtain ⟨ha, hb, hab⟩ := gopOk_CX hg
    have hqa := qB_eq qargs regs hrl a ha
    have hqb := qB_eq qargs regs hrl b hb
    have hra : lookupQ (qargs.zip regs) a < K := hr _ (lookupQ_mem qargs regs hrl a ha)
    have hrb : lookupQ (qargs.zip regs) b < K := hr _ (lookupQ_mem qargs regs hrl b hb)
    have hne : lookupQ (qargs.zip regs) a ≠ lookupQ (qargs.zip regs) b := fun h =>
      hab (lookupQ_inj qargs regs hrl hn a ha b hb h)
    obtain ⟨A, B, h1, h2, h3⟩ := flat_import_CX K none _ _ hra hrb hne
    refine ⟨[⟨cs!"CNOT", [lookupQ (qargs.zip regs) b], some [lookupQ (qargs.zip regs) a], .none, none, none⟩],
      _, A, B, ?_, rfl, h1, h2, h3⟩
    have hd1 := hcr [lookupQ (qargs.zip regs) a, lookupQ (qargs.zip regs) b] (by simpa using hne)
    simp only [oneI, leafI, hqa, hqb]
    simp only [List.map_cons, List.map_nil] at hd1
    rw [hd1]
    simp only [Bool.false_eq_true, if_false, builtin_ok.2.1, if_true]
    have hbr := bregsResolved_inl [lookupQ (qargs.zip regs) a, lookupQ (qargs.zip regs) b]
    simp only [List.map_cons, List.map_nil] at hbr
    rw [hbr]
    simp only []
    rw [addPredefined_CX _ _ none none cvBad_nn]
  | call n es qs =>
    obtain ⟨dd, hfind, hel, hql, hsup, hcl, hsub, hqn⟩ := gopOk_call hg
    have hargs := argsOk_subst params ps hpl hps es hsup hcl (by
      intro e he
      simp only [gopDivOk, gopParams] at hdiv
      exact List.all_eq_true.mp hdiv e he)
    have hev := hargs.eval
    have hmq := map_qB qargs regs hrl qs hsub
    have htn : (qs.map (lookupQ (qargs.zip regs))).Nodup := lookupQ_map_nodup qargs regs hrl hn qs hsub hqn
    have htr : ∀ q ∈ qs.map (lookupQ (qargs.zip regs)), q < K := by
      intro q hq
      obtain ⟨x, hx, rfl⟩ := List.mem_map.mp hq
      exact hr _ (lookupQ_mem qargs regs hrl x (hsub x hx))
    have htl : (qs.map (lookupQ (qargs.zip regs))).length = dd.qargs.length := by simpa using hql
    have hpl' : (es.map (Expr.subst (params.zip ps))).length = dd.params.length := by simpa using hel
    rw [List.find?_append] at hfind
    cases hfr : rest.find? (fun x => x.name == n) with
    | some d' =>
      -- an earlier user gate
      rw [hfr] at hfind
      simp only [Option.some_or, Option.some.injEq] at hfind
      subst hfind
      obtain ⟨hpre, hcall⟩ := hrest n d' hfr
      obtain ⟨inner, prims, A, B, k1, k2, k3, k4, k5⟩ := hcall K _ _ hargs hpl' htl htn htr
      refine ⟨inner, prims, A, B, ?_, k2, k3, k4, k5⟩
      simp only [oneI, hev, leafI, hmq, hcr _ htn, hpre]
      simpa using k1
    | none =>
      -- a `qelib1.inc` gate
      rw [hfr] at hfind
      simp only [Option.none_or] at hfind
      have hpre := qelib_predefined hfind
      have hskip : expandCall (rest ++ qelib1.reverse) n (es.map (Expr.subst (params.zip ps)))
          (qs.map (lookupQ (qargs.zip regs))) =
          expandCall qelib1.reverse n (es.map (Expr.subst (params.zip ps))) (qs.map (lookupQ (qargs.zip regs))) := by
        apply expandCall_skip
        intro x hx
        have := List.find?_eq_none.mp hfr x hx
        simpa using this
      have hleaf : oneI D fuel (params.zip ps) (qargs.zip (regs.map Sum.inl)) (.call n es qs) =
          addPredefined n (qs.map (lookupQ (qargs.zip regs))) (es.map (Expr.subst (params.zip ps))) none none := by
        simp only [oneI, hev, leafI, hmq, hcr _ htn, hpre, bregsResolved_inl]
        simp
      by_cases hid : n = cs!"id"
      · subst hid
        obtain ⟨prims, A, h1, h2, h3, h4⟩ := flat_import_id K none _ _ dd hfind htl hpl' htn htr
        refine ⟨[], prims, A, 1, ?_, ?_, h3, denX_nil K, h4⟩
        · rw [hleaf]; exact h2
        · simp only [expandG]; rw [hskip]; exact h1
      · obtain ⟨prims, g, A, B, h1, h2, _, _, h3, h4, h5⟩ :=
          flat_import_call K none n _ _ (import_sound_of_find hfind hid) dd hfind htl hpl' htn htr cvBad_nn
        refine ⟨[g], prims, A, B, ?_, ?_, h3, h4, h5⟩
        · rw [hleaf]; exact h2
        · simp only [expandG]; rw [hskip]; exact h1

/-- a body -/
theorem body_den (D rest : List GateDef) (fuel : Nat)
    (hrest : ∀ name d, rest.find? (fun x => x.name == name) = some d →
      predefined name = false ∧ CallOk D (rest ++ qelib1.reverse) fuel name d)
    (params qargs : List Str) (K : ℕ) (ps : List Expr) (regs : List Nat) (hps : ArgsOk ps)
    (hpl : params.length = ps.length) (hrl : regs.length = qargs.length) (hn : regs.Nodup)
    (hr : ∀ q ∈ regs, q < K) : ∀ body : List GOp,
    (∀ g ∈ body, gopOk (rest ++ qelib1.reverse) params qargs g = .ok () ∧ gopDivOk g = true) →
    ∃ inner prims A B,
      bodyI D fuel (params.zip ps) (qargs.zip (regs.map Sum.inl)) (body.filter noBarrier) = .ok inner ∧
      expandBody (rest ++ qelib1.reverse) (params.zip ps) (lookupQ (qargs.zip regs)) body = .ok prims ∧
      denPrims K ρ0 prims = some A ∧ denX K (inner.map xOfI) = some B ∧ PhaseEqN A B := by
  intro body
  induction body with
  | nil => intro _; exact ⟨[], [], 1, 1, rfl, rfl, denPrims_nil _ _, denX_nil _, PhaseEqN.refl _⟩
  | cons g gs ih =>
    intro hall
    obtain ⟨i2, p2, A2, B2, k1, k2, k3, k4, k5⟩ := ih (fun x hx => hall x (by simp [hx]))
    by_cases hnb : noBarrier g = true
    · obtain ⟨i1, p1, A1, B1, h1, h2, h3, h4, h5⟩ := op_den D rest fuel hrest params qargs K ps regs hps hpl hrl hn hr g
        (hall g (by simp)).1 (hall g (by simp)).2 hnb
      refine ⟨i1 ++ i2, p1 ++ p2, A2 * A1, B2 * B1, ?_, ?_, denPrims_append _ _ _ _ _ _ h3 k3, ?_, PhaseEqN.mul k5 h5⟩
      · simp only [List.filter_cons, hnb, if_true, bodyI, h1, k1]
      · simp only [expandBody, h2, k2]
      · rw [List.map_append]; exact denX_append K _ _ _ _ h4 k4
    · cases g with
      | barrier qs =>
        refine ⟨i2, p2, A2, B2, ?_, ?_, k3, k4, k5⟩
        · simpa [List.filter_cons, noBarrier] using k1
        · simp only [expandBody, expandG, k2, List.nil_append]
      | _ => simp [noBarrier] at hnb

/-! ## all definitions -/

theorem custom_den_aux (U : List GateDef) (hU : DefsOk U) :
    ∀ (S P : List GateDef), U = P ++ S → ∀ (fuel : Nat), S.length ≤ fuel →
      ∀ (name : Str) (d : GateDef), S.find? (fun x => x.name == name) = some d →
        CallOk (U.map storeDef) (S ++ qelib1.reverse) fuel name d := by
  intro S
  induction S with
  | nil => intro P _ fuel _ name d h; cases h
  | cons d0 rest ih =>
    intro P hP fuel hfuel name d hfind
    have hS : DefsOk (d0 :: rest) := defsOk_suffix P _ (hP ▸ hU)
    obtain ⟨hnew, hpre0, hpn, hqn, hbody, hdivs, hrestOk⟩ := hS
    have hP' : U = (P ++ [d0]) ++ rest := by simp [hP]
    by_cases hname : (d0.name == name) = true
    · -- the gate defined here
      have hd : d = d0 := by
        simp only [List.find?_cons, hname] at hfind
        exact (Option.some.inj hfind).symm
      subst hd
      obtain ⟨f, rfl⟩ : ∃ f, fuel = f + 1 := ⟨fuel - 1, by simp at hfuel; omega⟩
      have hf : rest.length ≤ f := by simp at hfuel; omega
      have hrest : ∀ nm dd, rest.find? (fun x => x.name == nm) = some dd →
          predefined nm = false ∧ CallOk (U.map storeDef) (rest ++ qelib1.reverse) f nm dd := by
        intro nm dd hdd
        refine ⟨?_, ih (P ++ [d]) hP' f hf nm dd hdd⟩
        have hmem := List.mem_of_find?_eq_some hdd
        have hnm : dd.name = nm := by simpa using List.find?_some hdd
        obtain ⟨pre, suf, hsplit⟩ := List.append_of_mem hmem
        have := defsOk_suffix pre (dd :: suf) (hsplit ▸ hrestOk)
        rw [← hnm]
        exact this.2.1
      intro K ps regs hps hpl hrl hn hr
      obtain ⟨inner, prims, A, B, h1, h2, h3, h4, h5⟩ := body_den (U.map storeDef) rest f hrest d.params d.qargs K ps
        regs hps hpl.symm hrl hn hr d.body (fun g hg =>
          ⟨gopsOk_mem hbody g hg, List.all_eq_true.mp hdivs g hg⟩)
      refine ⟨inner, prims, A, B, ?_, ?_, h3, h4, h5⟩
      · have hfindU : U.find? (fun x => x.name == name) = some d := by
          rw [hP]
          exact find_skip_front P (d :: rest) name d hfind (defsOk_names P _ (hP ▸ hU))
        rw [customGate_succ, find_storeDef, hfindU]
        simp only [Option.map_some]
        have hlen : ps.length = (storeDef d).params.length ∧ (regs.map (Sum.inl : Nat → BReg)).length = (storeDef d).qargs.length :=
          ⟨hpl, by rw [List.length_map]; exact hrl⟩
        rw [if_neg (not_not.mpr hlen), hps.eval]
        exact h1
      · rw [List.cons_append, expandCall_cons, hname]
        simp only [if_true]
        have : (d.params.length ≠ ps.length || d.qargs.length ≠ regs.length) = false := by
          simp [hpl, hrl]
        rw [this]
        exact h2
    · -- an earlier gate
      have hname' : (d0.name == name) = false := by simpa using hname
      have hfind' : rest.find? (fun x => x.name == name) = some d := by
        simpa [List.find?_cons, hname'] using hfind
      have hc := ih (P ++ [d0]) hP' fuel (by simp at hfuel; omega) name d hfind'
      intro K ps regs hps hpl hrl hn hr
      obtain ⟨inner, prims, A, B, h1, h2, h3, h4, h5⟩ := hc K ps regs hps hpl hrl hn hr
      refine ⟨inner, prims, A, B, h1, ?_, h3, h4, h5⟩
      rw [List.cons_append, expandCall_cons, hname']
      simpa using h2

/-- **User gates: `_custom_gate` has the standard's unitary.**  `U`: user definitions, newest first, accepted by
the standard after `include "qelib1.inc"` (`DefsOk`), at most 64 of them (the importer model's recursion budget;
Python's own limit is its recursion depth).  For every defined gate `d`, evaluable actual parameters `ps` and
pairwise distinct qubits `regs` of a `K`-qubit register: the importer's expansion succeeds, the standard's
expansion succeeds, and the two denote the same operator on the register up to one phase. -/
theorem custom_den (U : List GateDef) (hU : DefsOk U) (hlen : U.length ≤ 64) (name : Str) (d : GateDef)
    (hd : U.find? (fun x => x.name == name) = some d) :
    CallOk (U.map storeDef) (U ++ qelib1.reverse) 64 name d :=
  custom_den_aux U hU U [] rfl 64 hlen name d hd

/-! ## placing the user gate on the register -/

theorem gopOk_wf {gates : List GateDef} {params qargs : List Str} {g : GOp}
    (h : gopOk gates params qargs g = .ok ()) : gopQOk qargs g = true ∧ gopPOk params g = true := by
  cases g with
  | U a b l x =>
    obtain ⟨_, hcl, hx⟩ := gopOk_U h
    exact ⟨by simpa [gopQOk] using hx, by simpa [gopPOk, Bool.and_assoc] using hcl⟩
  | CX a b =>
    obtain ⟨ha, hb, _⟩ := gopOk_CX h
    exact ⟨by simp [gopQOk, ha, hb], rfl⟩
  | call n ps qs =>
    obtain ⟨_, _, _, _, _, hcl, hsub, _⟩ := gopOk_call h
    exact ⟨by simpa [gopQOk] using hsub, by simpa [gopPOk] using hcl⟩
  | barrier qs => exact ⟨rfl, rfl⟩

theorem defsOk_wf : ∀ U : List GateDef, DefsOk U → (U ++ qelib1.reverse).all defWf = true := by
  intro U
  induction U with
  | nil => intro _; exact qelib_wf
  | cons d rest ih =>
    intro h
    obtain ⟨_, _, hpn, hqn, hbody, _, hrest⟩ := h
    simp only [List.cons_append, List.all_cons, Bool.and_eq_true]
    refine ⟨?_, ih hrest⟩
    simp only [defWf, Bool.and_eq_true, decide_eq_true_eq, List.all_eq_true]
    exact ⟨⟨⟨fun g hg => (gopOk_wf (gopsOk_mem hbody g hg)).1, fun g hg => (gopOk_wf (gopsOk_mem hbody g hg)).2⟩,
      hpn⟩, hqn⟩

/-- **A user gate applied to qubits of the register.**  The importer expands the gate once on its local
qubits `0 … k−1` (`inner`) and applies the resulting unitary to the qubits `t`; the standard expands the
call on `t`.  Both are the same operator on the `N`-qubit register up to one phase. -/
theorem custom_place (U : List GateDef) (hU : DefsOk U) (hlen : U.length ≤ 64) (name : Str) (d : GateDef)
    (hd : U.find? (fun x => x.name == name) = some d) (N : ℕ) (ps : List Expr) (t : List ℕ) (hps : ArgsOk ps)
    (hpl : ps.length = d.params.length) (htl : t.length = d.qargs.length) (hn : t.Nodup)
    (hr : ∀ q ∈ t, q < N) :
    ∃ inner prims M A,
      customGate (U.map storeDef) 64 name ps ((List.range t.length).map Sum.inl) = .ok inner ∧
      denX d.qargs.length (inner.map xOfI) = some M ∧
      expandCall (U ++ qelib1.reverse) name ps t = .ok prims ∧ denPrims N ρ0 prims = some A ∧
      PhaseEqN A ((tgL N t d.qargs.length htl hn hr).embed M) := by
  obtain ⟨inner, prims0, A0, M, h1, h2, h3, h4, h5⟩ := custom_den U hU hlen name d hd d.qargs.length ps
    (List.range d.qargs.length) hps hpl (by simp) List.nodup_range (by simp)
  have hwf := defsOk_wf U hU
  have hnat := expandCall_mapQ (fun i => t.getD i 0) (U ++ qelib1.reverse) hwf name ps (List.range d.qargs.length)
  rw [← htl, range_map_getD t, htl, h2] at hnat
  refine ⟨inner, _, M, _, by rw [htl]; exact h1, h4, hnat, ?_, PhaseEqN.embed _ h5⟩
  apply denPrims_relabel (tgL N t d.qargs.length htl hn hr) (fun i => t.getD i 0)
  · intro i
    have hi : i.val < t.length := by rw [htl]; exact i.isLt
    simp [tgL, List.getD_eq_getElem?_getD, List.getElem?_eq_getElem hi]
  · exact h3

end QipVerif.Qasm.Import
