import QipVerif.Model.GateCtor
import QipVerif.Lemmas.GateCtrl
/-! Constructor arguments of the gate classes (C09): facts about `GateCtor.construct` / `GateCtor.compact` for an ARBITRARY
class description and guard policy; `Props/C09.lean` instantiates them on the regenerated table `Gen.G.ctorTable`. -/
namespace QipVerif.GateCtor
open QipVerif.Ctrl

theorem twoQubitsCheck_ok {cs ts : Option (List Int)} (h : twoQubitsCheck cs ts = .ok ()) :
    ((cs.getD []) ++ (ts.getD [])).length = 2 ∧ ts ≠ none := by
  unfold twoQubitsCheck at h
  match cs, ts, h with
  | some c, some t, h =>
    by_cases hl : (c ++ t).length = 2
    · exact ⟨by simpa using hl, by simp⟩
    · dsimp only at h; rw [if_neg hl] at h; cases h
  | none, some t, h =>
    by_cases hl : t.length = 2
    · exact ⟨by simpa using hl, by simp⟩
    · dsimp only at h; rw [if_neg hl] at h; cases h

theorem singleCheck_ok {cs ts : Option (List Int)} (h : singleCheck cs ts = .ok ()) :
    (∃ t, ts = some [t]) ∧ (cs = none ∨ cs = some []) := by
  unfold singleCheck at h
  match ts, cs, h with
  | some [t], none, _ => exact ⟨⟨t, rfl⟩, Or.inl rfl⟩
  | some [t], some [], _ => exact ⟨⟨t, rfl⟩, Or.inr rfl⟩

theorem targetGate_ok {e : ClassInfo} {r : Req} {ts : Option (List Int)} {cs : List Int} {cv : Option Int} {o : Obj}
    (h : targetGate e r ts cs cv = .ok o) : o = ⟨ts, some cs, cv⟩ ∧ (∃ t, ts = some [t]) := by
  unfold targetGate at h
  split at h
  · exact absurd h (by simp)
  · match ts, h with
    | some [t], h =>
      simp only [Except.ok.injEq] at h
      exact ⟨h.symm, ⟨t, rfl⟩⟩

theorem wrapTarget_ok {e : ClassInfo} {r : Req} {ts : Option (List Int)} {cv : Option Int} {q : QArg} {o : Obj}
    (h : wrapTarget e r ts cv q = .ok o) : ∃ cs, q.norm = some cs ∧ o = ⟨ts, some cs, cv⟩ ∧ ∃ t, ts = some [t] := by
  match q, h with
  | .none, h =>
    simp only [wrapTarget] at h
    split at h <;> exact absurd h (by simp)
  | .scalar c, h => exact ⟨[c], rfl, targetGate_ok h⟩
  | .list cs, h => exact ⟨cs, rfl, targetGate_ok h⟩

/-- the control value that reaches the object of a class of the ControlledGate hierarchy -/
def cvOf (P : Policy) (e : ClassInfo) (r : Req) : Option Int :=
  let cvIn := if e.fwdCV then r.cv.toOpt else none
  if e.oneCtrl then some (cvIn.getD P.dflt) else cvIn

theorem cvGuard_ok {P : Policy} {e : ClassInfo} {r : Req} {cv : Option Int} (h : cvGuard P e r = .ok cv) :
    cv = cvOf P e r ∧
    (e.oneCtrl = true → ∀ v, (if e.fwdCV then r.cv.toOpt else none) = some v → v ∈ P.accepted) := by
  unfold cvGuard at h
  unfold cvOf
  by_cases ho : e.oneCtrl = true
  · simp only [ho, if_true] at h ⊢
    cases hx : (if e.fwdCV = true then r.cv.toOpt else none) with
    | none =>
      rw [hx] at h
      simp only [Except.ok.injEq] at h
      exact ⟨by rw [← h]; rfl, fun _ v hv => by simp at hv⟩
    | some v =>
      rw [hx] at h
      by_cases hacc : P.accepted.contains v = true
      · dsimp only at h
        rw [if_pos hacc] at h
        simp only [Except.ok.injEq] at h
        refine ⟨by rw [← h]; rfl, fun _ w hw => ?_⟩
        cases hw
        simpa using hacc
      · dsimp only at h; rw [if_neg hacc] at h; cases h
  · simp only [ho] at h ⊢
    simp only [Bool.false_eq_true, if_false, Except.ok.injEq] at h
    exact ⟨by simpa using h.symm, fun h' => absurd h' (by simp)⟩

/-- **Anatomy of an accepted request to a class of the ControlledGate hierarchy**: one target; the controls as listed
(a bare integer = one control); the carried control value is the given one (if the chain hands it on), else the default of
the `_OneControlledGate` guard, and a given value passed the guard; with the TwoQubitGate guard exactly one control -/
theorem construct_controlled {P : Policy} {e : ClassInfo} {r : Req} {o : Obj} (hc : e.controlled = true)
    (h : construct P e r = .ok o) :
    (∃ t, o.targets = some [t] ∧ r.targets.norm = some [t]) ∧
    (∃ cs, o.controls = some cs ∧ r.controls.norm = some cs ∧ (e.arity = .two → cs.length = 1)) ∧
    o.cv = cvOf P e r ∧
    (e.oneCtrl = true → ∀ v, (if e.fwdCV then r.cv.toOpt else none) = some v → v ∈ P.accepted) := by
  unfold construct at h
  split at h
  · exact absurd h (by simp)
  · try simp only [hc, if_true] at h
    unfold constructControlled at h
    cases h1 : cvGuard P e r with
    | error x => rw [h1] at h; exact absurd h (by simp)
    | ok cv =>
      rw [h1] at h
      simp only at h
      obtain ⟨hcv, hacc⟩ := cvGuard_ok h1
      cases h2 : arityGuard e r.controls.norm r.targets.norm with
      | error x => rw [h2] at h; exact absurd h (by simp)
      | ok u =>
        rw [h2] at h
        simp only at h
        obtain ⟨cs, hn, ho, t, hts⟩ := wrapTarget_ok h
        subst ho
        refine ⟨⟨t, hts, hts⟩, ⟨cs, rfl, hn, ?_⟩, hcv, hacc⟩
        intro ha
        unfold arityGuard at h2
        rw [ha] at h2
        have := (twoQubitsCheck_ok h2).1
        rw [hn, hts] at this
        simpa using this

/-- a class of the ControlledGate hierarchy whose matrix ignores control_value (`hardSound`): only objects that carry the
hard-coded value on exactly one control exist, and a given value that reaches the guard is that value -/
theorem construct_hard {P : Policy} {e : ClassInfo} {r : Req} {o : Obj} (hs : e.hardSound P = true)
    (hc : e.controlled = true) (hu : e.usesCV = false) (h : construct P e r = .ok o) :
    hardOf e.spec = some (1, P.dflt) ∧ o.cv = some P.dflt ∧ (∃ c, o.controls = some [c]) ∧
    (∀ v, r.cv = .int v → e.fwdCV = true → v = P.dflt) := by
  unfold ClassInfo.hardSound at hs
  simp only [hc, hu, Bool.not_true, Bool.false_or, Bool.and_eq_true, beq_iff_eq, List.all_eq_true] at hs
  obtain ⟨⟨⟨ho, ha⟩, hh⟩, hall⟩ := hs
  obtain ⟨_, ⟨cs, hcs, _, hlen⟩, hcv, hacc⟩ := construct_controlled hc h
  have key : ∀ v, (if e.fwdCV then r.cv.toOpt else none) = some v → v = P.dflt :=
    fun v hv => hall v (hacc ho v hv)
  refine ⟨hh, ?_, ?_, ?_⟩
  · rw [hcv]; unfold cvOf; simp only [ho, if_true]
    cases hx : (if e.fwdCV = true then r.cv.toOpt else none) with
    | none => rfl
    | some v => rw [key v hx]; rfl
  · have := hlen ha
    match cs, this with
    | [c], _ => exact ⟨c, hcs⟩
  · intro v hv hf
    apply key
    simp [hf, hv, VArg.toOpt]

/-- a class OUTSIDE the ControlledGate hierarchy stores control_value; the guards of its arity class hold for the object;
without the fixed-control-value guard it accepts or refuses a request regardless of control_value -/
theorem construct_plain {P : Policy} {e : ClassInfo} {r : Req} {o : Obj} (hc : e.controlled = false)
    (h : construct P e r = .ok o) :
    o.targets = r.targets.norm ∧ o.controls = r.controls.norm ∧ o.cv = r.cv.toOpt ∧
    (e.arity = .single → (∃ t, o.targets = some [t]) ∧ (o.controls = none ∨ o.controls = some [])) ∧
    (e.arity = .two → ((o.controls.getD []) ++ (o.targets.getD [])).length = 2) ∧
    ((e.fixedGuard && !e.generic) = false → e.cvRequired = false →
      ∀ v, construct P e { r with cv := v } = .ok { o with cv := v.toOpt }) := by
  unfold construct at h ⊢
  split at h
  · exact absurd h (by simp)
  · rename_i hmiss
    simp only [hc, Bool.false_eq_true, if_false] at h ⊢
    unfold constructPlain at h ⊢
    cases hg : arityGuard e r.controls.norm r.targets.norm with
    | error x => rw [hg] at h; exact absurd h (by simp)
    | ok u =>
      rw [hg] at h
      simp only at h
      cases hf : (if (e.fixedGuard && !e.generic) = true then fixedCheck r.controls.norm r.cv.toOpt else Except.ok ()) with
      | error x => rw [hf] at h; exact absurd h (by simp)
      | ok u' =>
        rw [hf] at h
        simp only [Except.ok.injEq] at h
        subst h
        refine ⟨rfl, rfl, rfl, ?_, ?_, ?_⟩
        · intro ha; unfold arityGuard at hg; rw [ha] at hg; exact singleCheck_ok hg
        · intro ha; unfold arityGuard at hg; rw [ha] at hg; exact (twoQubitsCheck_ok hg).1
        · intro hfg hq v
          have hm : missing e { r with cv := v } = false := by
            unfold missing at hmiss ⊢
            simp only [hc, hq] at hmiss ⊢
            simpa using hmiss
          simp only [hm, hg, hfg]
          simp

/-- `QubitCircuit.add_gate` by name passes every absent argument as None: whatever the class path serves, the circuit
path serves with the same object -/
theorem construct_viaCircuit {P : Policy} {e : ClassInfo} {r : Req} {o : Obj} (h : construct P e r = .ok o) :
    construct P e r.viaCircuit = .ok o := by
  unfold construct at h ⊢
  split at h
  · exact absurd h (by simp)
  · rename_i hmiss
    have hm : missing e r.viaCircuit = false := by
      unfold missing Req.viaCircuit
      cases r.targets <;> cases r.controls <;> cases r.arg <;> cases r.cv <;> simp [QArg.isAbsent]
    have hmiss' : missing e r = false := by simpa using hmiss
    unfold missing at hmiss'
    simp only [Bool.or_eq_false_iff, Bool.and_eq_false_iff] at hmiss'
    obtain ⟨⟨⟨m1, m2⟩, m3⟩, m4⟩ := hmiss'
    have e1 : r.viaCircuit.targets.norm = r.targets.norm := by
      unfold Req.viaCircuit; cases r.targets <;> rfl
    have e2 : r.viaCircuit.controls.norm = r.controls.norm := by
      unfold Req.viaCircuit; cases r.controls <;> rfl
    have e3 : r.viaCircuit.cv.toOpt = r.cv.toOpt := by
      unfold Req.viaCircuit; cases r.cv <;> rfl
    simp only [hm, Bool.false_eq_true, if_false]
    by_cases hc : e.controlled = true
    · simp only [hc, if_true] at h ⊢
      unfold constructControlled at h ⊢
      have e4 : cvGuard P e r.viaCircuit = cvGuard P e r := by unfold cvGuard; rw [e3]
      rw [e4, e1, e2]
      cases h1 : cvGuard P e r with
      | error x => rw [h1] at h; exact absurd h (by simp)
      | ok cv =>
        rw [h1] at h
        simp only at h ⊢
        cases h2 : arityGuard e r.controls.norm r.targets.norm with
        | error x => rw [h2] at h; exact absurd h (by simp)
        | ok u =>
          rw [h2] at h
          simp only at h ⊢
          -- controls is not absent (required), arg_value is not absent if the target gate requires it
          have hca : r.controls.isAbsent = false := by simpa [hc] using m2
          have hctl : r.viaCircuit.controls = r.controls := by
            unfold Req.viaCircuit; cases hcc : r.controls <;> simp_all [QArg.isAbsent]
          rw [hctl]
          have htg : ∀ cs, targetGate e r r.targets.norm cs cv = .ok o →
              targetGate e r.viaCircuit r.targets.norm cs cv = .ok o := by
            intro cs ht
            unfold targetGate at ht ⊢
            split at ht
            · exact absurd ht (by simp)
            · rename_i hreq
              have : (e.tgArgRequired && r.viaCircuit.arg == AArg.absent) = false := by
                unfold Req.viaCircuit; cases r.arg <;> simp
              simp only [this, Bool.false_eq_true, if_false]
              exact ht
          cases hcc : r.controls with
          | absent => rw [hcc] at hca; simp [QArg.isAbsent] at hca
          | none =>
            rw [hcc] at h
            simp only [wrapTarget] at h
            split at h <;> exact absurd h (by simp)
          | scalar q => rw [hcc] at h; exact htg _ h
          | list qs => rw [hcc] at h; exact htg _ h
    · have hc' : e.controlled = false := by simpa using hc
      simp only [hc', Bool.false_eq_true, if_false] at h ⊢
      unfold constructPlain at h ⊢
      rw [e1, e2, e3]
      exact h

/-! ## The matrix of an accepted object -/

theorem range_snoc_nodup (m : ℕ) : (List.range m ++ [m]).Nodup := by
  rw [← List.range_succ]; exact List.nodup_range

theorem range_snoc_lt (m : ℕ) : ∀ q ∈ List.range m ++ [m], q < m + 1 := by
  intro q hq
  rw [← List.range_succ] at hq
  exact List.mem_range.mp hq

/-- `ControlledGate.get_compact_qobj` of an object with `m` listed controls and control value `v < 2^m`: the block
specification on `m + 1` qubits — controls `0..m-1` (first listed = most significant), target `m` -/
theorem compact_block (ct : Which) (e : ClassInfo) (r : Req) (o : Obj) (cs : List Int) (v : ℕ)
    (hu : e.usesCV = true) (hg : (e.generic && e.fixedGuard) = false) (ha : argCheck e.argSpec r.arg = .ok ())
    (hc : o.controls = some cs) (hcv : o.cv = some (v : Int)) (hv : v < 2 ^ cs.length) :
    ∃ res, compact ct e r o = .ok (.block res) ∧ res.K = cs.length + 1 ∧
      ∀ x y, Bits (cs.length + 1) x → Bits (cs.length + 1) y →
        res.entry x y = Ctrl.specEntry (cs.length + 1) (List.range cs.length) cs.length v x y := by
  have hb := build_spec (List.range cs.length) cs.length (cs.length + 1) v none (by simp)
    (range_snoc_nodup _) (by simpa using range_snoc_lt cs.length) (by simpa using hv)
  try simp only [List.length_range] at hb
  obtain ⟨res, h1, h2, h3⟩ := hb
  refine ⟨res, ?_, h2, h3⟩
  unfold compact
  simp only [hg, Bool.false_eq_true, if_false, ha, hu, if_true, hcv, hc, Option.getD_some]
  rw [controlledGate_lists, h1]

/-- the carried control value when the constructor chain hands a given one on -/
theorem construct_cv_of_fwd {P : Policy} {e : ClassInfo} {r : Req} {o : Obj} (hf : e.fwdCV = true)
    (h : construct P e r = .ok o) :
    o.cv = if e.controlled && e.oneCtrl then some (r.cv.toOpt.getD P.dflt) else r.cv.toOpt := by
  by_cases hc : e.controlled = true
  · have := (construct_controlled hc h).2.2.1
    rw [this]; unfold cvOf
    by_cases ho : e.oneCtrl = true <;> simp [hc, ho, hf]
  · have hc' : e.controlled = false := by simpa using hc
    have := (construct_plain (P := P) hc' h).2.2.1
    rw [this]; simp [hc']

theorem fixedCheck_ok {cs : Option (List Int)} {cv : Option Int} (h : fixedCheck cs cv = .ok ()) :
    cv = none ∨ ∃ l, cs = some l ∧ l ≠ [] ∧ cv = some (((2 ^ l.length : ℕ) : Int) - 1) := by
  unfold fixedCheck at h
  match cv, h with
  | none, _ => exact Or.inl rfl
  | some v, h =>
    dsimp only at h
    split at h
    · cases h
    · rename_i hne
      split at h
      · rename_i hv
        match cs, hne with
        | some l, hne =>
          refine Or.inr ⟨l, rfl, ?_, by rw [hv]; rfl⟩
          intro hl; subst hl; simp at hne
        | none, hne => simp at hne
      · cases h

/-- a class outside the ControlledGate hierarchy that calls `_check_fixed_control_value()` in its constructor: a given
control value is "all listed controls 1" on a non-empty list of controls -/
theorem construct_fixed {P : Policy} {e : ClassInfo} {r : Req} {o : Obj} (hc : e.controlled = false)
    (hg : e.generic = false) (hf : e.fixedGuard = true) (h : construct P e r = .ok o) :
    o.cv = none ∨ ∃ l, o.controls = some l ∧ l ≠ [] ∧ o.cv = some (((2 ^ l.length : ℕ) : Int) - 1) := by
  unfold construct at h
  split at h
  · exact absurd h (by simp)
  · simp only [hc, Bool.false_eq_true, if_false] at h
    unfold constructPlain at h
    cases hgd : arityGuard e r.controls.norm r.targets.norm with
    | error x => rw [hgd] at h; exact absurd h (by simp)
    | ok u =>
      rw [hgd] at h
      simp only [hf, hg, Bool.not_false, Bool.and_self, if_true] at h
      cases hfc : fixedCheck r.controls.norm r.cv.toOpt with
      | error x => rw [hfc] at h; exact absurd h (by simp)
      | ok u' =>
        rw [hfc] at h
        simp only [Except.ok.injEq] at h
        subst h
        exact fixedCheck_ok hfc

/-- the generic `Gate(name)` with the guard at the head of `get_compact_qobj`: the matrix is only returned under the
same condition; and no class outside the ControlledGate hierarchy reads control_value (`plain`) -/
theorem compact_fixed_generic {ct : Which} {e : ClassInfo} {r : Req} {o : Obj} {c : Compact} (hg : e.generic = true)
    (hf : e.fixedGuard = true) (h : compact ct e r o = .ok c) :
    o.cv = none ∨ ∃ l, o.controls = some l ∧ l ≠ [] ∧ o.cv = some (((2 ^ l.length : ℕ) : Int) - 1) := by
  unfold compact at h
  simp only [hg, hf, Bool.and_self, if_true] at h
  cases hfc : fixedCheck o.controls o.cv with
  | error x => rw [hfc] at h; exact absurd h (by simp)
  | ok u => exact fixedCheck_ok hfc

theorem compact_plain {ct : Which} {e : ClassInfo} {r : Req} {o : Obj} {c : Compact} (hu : e.usesCV = false)
    (h : compact ct e r o = .ok c) : c = .plain := by
  unfold compact at h
  split at h
  · exact absurd h (by simp)
  · split at h
    · exact absurd h (by simp)
    · simp only [hu, Bool.false_eq_true, if_false, Except.ok.injEq] at h
      exact h.symm

/-! ## Expansion of a controlled object on a register -/

/-- the compact matrix of `ControlledGate.get_compact_qobj`: the call `controlled_gate(U, range(m), [m], value)` takes the
shortcut `controls + targets == range(N)` and returns the block matrix itself -/
theorem build_identity (m v : ℕ) (hv : v < 2 ^ m) :
    build ((List.range m).map Int.ofNat) [Int.ofNat m] none (v : Int) = .ok ⟨m + 1, blockDigits m v⟩ := by
  unfold build
  have hc : (List.range m).map Int.ofNat ++ [Int.ofNat m] = (List.range (m + 1)).map Int.ofNat := by
    simp [List.range_succ]
  simp only [List.length_map, List.length_range, Option.getD_none, pyIndex_nat _ _ hv, hc, if_true]

/-- **`get_qobj` of a controlled object reads the control value in LISTED order**: for an object of a class that reads
control_value, with stored controls `cs` (duplicate-free with the target `t`, all < N) and value `v < 2^m`, the compact
matrix expanded on `N` qubits with targets = controls + targets is the specification `Ctrl.specEntry N cs t v` — `U` on
`t` exactly when the qubits `cs`, first listed most significant, hold `v` -/
theorem expanded_spec (ct : Which) (e : ClassInfo) (r : Req) (o : Obj) (cs : List ℕ) (t N v : ℕ)
    (hu : e.usesCV = true) (hg : (e.generic && e.fixedGuard) = false) (ha : argCheck e.argSpec r.arg = .ok ())
    (hc : o.controls = some (cs.map Int.ofNat)) (ht : o.targets = some [Int.ofNat t]) (hcv : o.cv = some (v : Int))
    (hn : (cs ++ [t]).Nodup) (hr : ∀ q ∈ cs ++ [t], q < N) (hv : v < 2 ^ cs.length) :
    ∃ res R, compact ct e r o = .ok (.block res) ∧ expanded N o res = .ok R ∧ R.K = N ∧
      ∀ x y, Bits N x → Bits N y → R.entry x y = Ctrl.specEntry N cs t v x y := by
  have hcomp : compact ct e r o = .ok (.block ⟨cs.length + 1, blockDigits cs.length v⟩) := by
    unfold compact
    simp only [hg, Bool.false_eq_true, if_false, ha, hu, if_true, hcv, hc, Option.getD_some, List.length_map]
    rw [controlledGate_lists, build_identity _ _ hv]
  have hcat : cs.map Int.ofNat ++ [Int.ofNat t] = (cs ++ [t]).map Int.ofNat := by simp
  have hval : QipVerif.Embed.validate (List.replicate N 2) ((cs ++ [t]).map Int.ofNat)
      (List.replicate (cs.length + 1) 2) = .ok (cs ++ [t]) := by
    rw [QipVerif.C08.validate_ok_iff]
    refine ⟨rfl, hn, by simpa using hr, ?_⟩
    rw [List.eq_replicate_iff]
    refine ⟨by simp, ?_⟩
    intro b hb
    obtain ⟨q, hq, rfl⟩ := List.mem_map.mp hb
    have := hr q hq
    simp [List.getD_eq_getElem?_getD, this]
  have hexp : ∃ R, expanded N o ⟨cs.length + 1, blockDigits cs.length v⟩ = .ok R ∧ R.K = N ∧
      ∀ x y, Bits N x → Bits N y → R.entry x y = Ctrl.specEntry N cs t v x y := by
    unfold expanded
    simp only [hc, ht, Option.getD_some, hcat, hval]
    refine ⟨_, rfl, rfl, ?_⟩
    intro x y hx hy
    have h := placed_eq_spec N cs t v x y hx.2 hy.2
    rw [← h]
    simp only [placed, QipVerif.C08.expand_eq_spec N (cs ++ [t]) x y hn hr]
    cases QipVerif.Embed.specEntry N (cs ++ [t]) x y with
    | none => rfl
    | some p => rfl
  obtain ⟨R, h1, h2, h3⟩ := hexp
  exact ⟨_, R, hcomp, h1, h2, h3⟩

end QipVerif.GateCtor
