import QipVerif.Lemmas.SimStat
/-!
# Purity, repeatability, fresh-object equivalence and absence of aliasing (C16), for ALL inputs

No well-formedness of the circuit is assumed here: exceptions are ordinary outcomes.
-/
namespace QipVerif.Sim
open QipVerif.Heap
variable {Q P : Type}

/-! ## `run_statistics` as a function of argument values -/

/-- what `run_statistics` accumulates — `(state, probability, VALUE of the record's bit list)` — and the random
stream left over, or the exception that ends it; a function of the argument values only -/
def coreStatV [One P] [Mul P] (B : Backend Q P) (cfg : Cfg) (mode : Mode) (c : Circuit)
    (bits0 : Option (List Int)) (st : Q) :
    List (List Int) → List Int → Except Err (List (Option Q × P × Option (List Int))) × List Int
  | [], rng => (.ok [], rng)
  | r :: rs, rng =>
    match (coreRun B cfg mode c bits0 st (some r) rng).res with
    | .error e => (.error e, (coreRun B cfg mode c bits0 st (some r) rng).rng)
    | .ok (q, p) =>
      match coreStatV B cfg mode c bits0 st rs (coreRun B cfg mode c bits0 st (some r) rng).rng with
      | (.ok vs, rng') => (.ok ((q, p, (coreRun B cfg mode c bits0 st (some r) rng).bits) :: vs), rng')
      | (.error e, rng') => (.error e, rng')

theorem coreStatV_length [One P] [Mul P] (B : Backend Q P) (cfg : Cfg) (mode : Mode) (c : Circuit)
    (bits0 : Option (List Int)) (st : Q) :
    ∀ (recs : List (List Int)) (rng : List Int) (vs : List (Option Q × P × Option (List Int))),
      (coreStatV B cfg mode c bits0 st recs rng).1 = .ok vs → vs.length = recs.length := by
  intro recs
  induction recs with
  | nil => intro rng vs h; simp [coreStatV] at h; subst h; rfl
  | cons r rs ih =>
    intro rng vs h
    unfold coreStatV at h
    split at h
    · simp at h
    · rename_i q p hres
      cases hcs : coreStatV B cfg mode c bits0 st rs (coreRun B cfg mode c bits0 st (some r) rng).rng with
      | mk a rng' =>
        rw [hcs] at h
        cases a with
        | error e => simp at h
        | ok vs' =>
          simp only [Except.ok.injEq] at h
          subst h
          have := ih _ vs' (by rw [hcs])
          simp [this]

/-- the simulator's own list, if it has one, lies in the part of the heap allocated since `base` -/
def SimOwn (base : Nat) (w : World Q P) : Prop :=
  ∀ (s : SimState Q P) (r : Nat), w.sim = some s → s.cbits = some r → base ≤ r ∧ r < w.heap.size

/-- **The loop of `run_statistics` for all inputs** (lists of its own): the heap only grows, the returned entries
read through the final heap are `coreStatV`, references handed out are new and pairwise different. -/
theorem statLoop_all [One P] [Mul P] (B : Backend Q P) (cfg : Cfg) (mode : Mode) (c : Circuit) (st : Q)
    (cb : Option Ref) (hf : Fresh cfg cb) :
    ∀ (recs : List (List Int)) (w : World Q P) (acc : List (Option Q × P × Option Ref)) (base : Nat),
      CbOk w cb → base ≤ w.heap.size →
      ∃ (w' : World Q P) (extra : List (List Int)),
        (statLoop B cfg mode c st cb recs w acc).1 = w' ∧
        w'.heap.cells = w.heap.cells ++ extra ∧ (SimOwn base w → SimOwn base w') ∧ w'.comp = w.comp ∧
        w'.proc = w.proc ∧
        w'.rng = (coreStatV B cfg mode c (initBits c (cb.map w.heap.get)) st recs w.rng).2 ∧
        (match (coreStatV B cfg mode c (initBits c (cb.map w.heap.get)) st recs w.rng).1 with
         | .error e => (statLoop B cfg mode c st cb recs w acc).2 = .error e
         | .ok vs =>
           ∃ new : List (Option Q × P × Option Ref),
             (statLoop B cfg mode c st cb recs w acc).2 = .ok (acc ++ new) ∧
             new.map (derefEntry w'.heap) = vs ∧
             (∀ e ∈ new, ∀ r : Nat, e.2.2 = some r → w.heap.size ≤ r ∧ r < w'.heap.size) ∧
             (new.filterMap (·.2.2)).Nodup) := by
  intro recs
  induction recs with
  | nil =>
    intro w acc base _ _
    exact ⟨w, [], rfl, by simp, id, rfl, rfl, rfl, [], by simp [statLoop], rfl, by simp, by simp⟩
  | cons r rs ih =>
    intro w acc base hcb hbase
    unfold statLoop coreStatV
    rw [run_fresh B cfg mode c w st cb (some r) hf]
    dsimp only
    generalize hb0 : initBits c (cb.map w.heap.get) = bits0
    generalize hro : coreRun B cfg mode c bits0 st (some r) w.rng = ro
    generalize hw1 : ({ w with heap := ⟨w.heap.cells ++ ro.bits.toList⟩,
                               sim := some { cbits := ro.bits.map (fun _ => w.heap.size), f := ro.f },
                               rng := ro.rng, log := w.log ++ ro.evs } : World Q P) = w1
    have hw1heap : w1.heap.cells = w.heap.cells ++ ro.bits.toList := by rw [← hw1]
    have hw1sim : w1.sim = some { cbits := ro.bits.map (fun _ => w.heap.size), f := ro.f } := by rw [← hw1]
    have hw1rng : w1.rng = ro.rng := by rw [← hw1]
    have hw1comp : w1.comp = w.comp ∧ w1.proc = w.proc := by rw [← hw1]; exact ⟨rfl, rfl⟩
    have hsize1 : w1.heap.size = w.heap.size + ro.bits.toList.length := by simp [Heap.size, hw1heap]
    have hown1 : SimOwn base w1 := by
      intro s x hs hx
      rw [hw1sim] at hs
      cases hs
      cases hrb : ro.bits with
      | none => simp [hrb] at hx
      | some l =>
        simp only [hrb, Option.map_some, Option.some.injEq] at hx
        have hx' : w.heap.size = (x : Nat) := hx
        rw [hsize1, hrb]; simp only [Option.toList_some, List.length_cons, List.length_nil]
        omega
    cases hres : ro.res with
    | error e =>
      simp only [mkResult, hres]
      exact ⟨w1, ro.bits.toList, rfl, hw1heap, fun _ => hown1, hw1comp.1, hw1comp.2, hw1rng, by trivial⟩
    | ok qp =>
      obtain ⟨q, p⟩ := qp
      simp only [mkResult, hres, hw1sim]
      have hcb1 : CbOk w1 cb := fun x hx => by
        have h1 : (x : Nat) < w.heap.size := hcb x hx
        show (x : Nat) < w1.heap.size
        omega
      have hsame : initBits c (cb.map w1.heap.get) = bits0 := by
        rw [← hb0]
        cases cb with
        | none => rfl
        | some x =>
          simp only [Option.map_some]
          rw [heap_get_prefix w.heap w1.heap _ hw1heap x (hcb x rfl)]
      obtain ⟨w', extra, hw', hheap, hown', hcomp, hproc, hrng, hout⟩ :=
        ih w1 (acc ++ [(q, p, ro.bits.map (fun _ => w.heap.size))]) base hcb1 (by omega)
      rw [hsame, hw1rng] at hrng hout
      refine ⟨w', ro.bits.toList ++ extra, hw', by rw [hheap, hw1heap, List.append_assoc], fun _ => hown' hown1,
        by rw [hcomp]; exact hw1comp.1, by rw [hproc]; exact hw1comp.2, ?_, ?_⟩
      · rw [hrng]
        cases (coreStatV B cfg mode c bits0 st rs ro.rng) with
        | mk a b => cases a <;> rfl
      · cases hcs : coreStatV B cfg mode c bits0 st rs ro.rng with
        | mk a rng' =>
          rw [hcs] at hout
          cases a with
          | error e => simpa using hout
          | ok vs =>
            simp only at hout ⊢
            obtain ⟨new, hnew, hvals, hrefs, hnodup⟩ := hout
            refine ⟨(q, p, ro.bits.map (fun _ => w.heap.size)) :: new, by rw [hnew]; simp, ?_, ?_, ?_⟩
            · simp only [List.map_cons, hvals, List.cons.injEq, and_true]
              unfold derefEntry
              simp only [Prod.mk.injEq, true_and]
              cases hrb : ro.bits with
              | none => rfl
              | some l =>
                simp only [Option.map_some, Option.some.injEq]
                have : w'.heap.cells = w.heap.cells ++ ([l] ++ extra) := by
                  rw [hheap, hw1heap, hrb]; simp
                simp [Heap.get, Heap.size, this, List.getD_eq_getElem?_getD]
            · intro e he x hx
              rcases List.mem_cons.mp he with rfl | he
              · cases hrb : ro.bits with
                | none => simp [hrb] at hx
                | some l =>
                  simp only [hrb, Option.map_some, Option.some.injEq] at hx
                  have h1 : w'.heap.size = w1.heap.size + extra.length := by simp [Heap.size, hheap]
                  rw [hsize1, hrb] at h1
                  simp only [Option.toList_some, List.length_cons, List.length_nil] at h1
                  have hx' : w.heap.size = (x : Nat) := hx
                  show w.heap.size ≤ (x : Nat) ∧ (x : Nat) < w'.heap.size
                  omega
              · obtain ⟨h1, h2⟩ := hrefs e he x hx
                have h1' : w1.heap.size ≤ (x : Nat) := h1
                exact ⟨show w.heap.size ≤ (x : Nat) by omega, h2⟩
            · simp only [List.filterMap_cons]
              cases hrb : ro.bits with
              | none => simpa using hnodup
              | some l =>
                simp only [Option.map_some, List.nodup_cons]
                refine ⟨?_, hnodup⟩
                intro hmem
                obtain ⟨e, he, hex⟩ := List.mem_filterMap.mp hmem
                have h1 : w1.heap.size ≤ w.heap.size := (hrefs e he w.heap.size hex).1
                rw [hsize1, hrb] at h1
                simp only [Option.toList_some, List.length_cons, List.length_nil] at h1
                omega

/-! ## Histories -/

/-- the list a call passes in, if any -/
def Call.cb : Call Q → Option Ref
  | .run _ cb _ => cb
  | .stat _ cb => cb
  | .init _ cb _ => cb
  | _ => none

/-- every list passed to a call of the history exists when the call is made (Python has no dangling references) -/
def HistOk [One P] [Mul P] (B : Backend Q P) (cfg : Cfg) (mode : Mode) (c : Circuit) (phases : List Int) :
    World Q P → List (Call Q) → Prop
  | _, [] => True
  | w, call :: rest => CbOk w call.cb ∧ HistOk B cfg mode c phases (exec B cfg mode c phases w call).1 rest

/-- the caller's cells `cells0` are an unchanged prefix of the heap and the simulator's list is not one of them -/
structure Inv (cells0 : List (List Int)) (w : World Q P) : Prop where
  pre : ∃ extra, w.heap.cells = cells0 ++ extra
  own : SimOwn cells0.length w

theorem Inv.size_ge {cells0 : List (List Int)} {w : World Q P} (h : Inv cells0 w) : cells0.length ≤ w.heap.size := by
  obtain ⟨extra, he⟩ := h.pre
  simp [Heap.size, he]

theorem put_prefix (cells0 extra : List (List Int)) (r : Nat) (l : List Int) (hr : cells0.length ≤ r) :
    ∃ extra', (cells0 ++ extra).set r l = cells0 ++ extra' := by
  refine ⟨extra.set (r - cells0.length) l, ?_⟩
  rw [List.set_append_right _ _ hr]

/-- **Every public call keeps the caller's cells unchanged** (repaired `initialize`). -/
theorem exec_inv [One P] [Mul P] (B : Backend Q P) (cfg : Cfg) (hcopy : cfg.copyCbits = true) (mode : Mode)
    (c : Circuit) (phases : List Int) (cells0 : List (List Int)) (w : World Q P) (call : Call Q)
    (hinv : Inv cells0 w) (hcb : CbOk w call.cb) : Inv cells0 (exec B cfg mode c phases w call).1 := by
  obtain ⟨extra, hpre⟩ := hinv.pre
  have hsize := hinv.size_ge
  cases call with
  | run st cb mr =>
    simp only [exec]
    rw [run_fresh B cfg mode c w st cb mr (Or.inl hcopy)]
    dsimp only
    generalize coreRun B cfg mode c (initBits c (cb.map w.heap.get)) st mr w.rng = ro
    refine ⟨⟨extra ++ ro.bits.toList, by simp [hpre]⟩, ?_⟩
    intro s r hs hr
    cases hs
    cases hrb : ro.bits with
    | none => simp [hrb] at hr
    | some l =>
      simp only [hrb, Option.map_some, Option.some.injEq] at hr
      have hr' : w.heap.size = r := hr
      simp only [Heap.size, hrb, Option.toList_some, List.length_append, List.length_cons, List.length_nil] at *
      omega
  | stat st cb =>
    simp only [exec]
    obtain ⟨w', extra', hw', hheap, hown, _, _, _, _⟩ :=
      statLoop_all B cfg mode c st cb (Or.inl hcopy) (records c.numMeas) w [] cells0.length hcb hsize
    have : (runStatistics B cfg mode c w st cb).1 = w' := by
      unfold runStatistics
      rw [← hw']
      cases h : statLoop B cfg mode c st cb (records c.numMeas) w [] with
      | mk a b => cases b <;> rfl
    rw [this]
    exact ⟨⟨extra ++ extra', by rw [hheap, hpre, List.append_assoc]⟩, hown hinv.own⟩
  | init st cb mr =>
    simp only [exec]
    rw [initRun_fresh cfg c w st cb mr (Or.inl hcopy)]
    cases hb : initBits c (cb.map w.heap.get) with
    | none =>
      refine ⟨⟨extra, hpre⟩, ?_⟩
      intro s r hs hr; cases hs; simp at hr
    | some l =>
      refine ⟨⟨extra ++ [l], by simp [Heap.alloc, hpre]⟩, ?_⟩
      intro s r hs hr
      cases hs
      simp only [Option.map_some, Option.some.injEq] at hr
      have hr' : w.heap.size = r := hr
      simp only [Heap.size, Heap.alloc, List.length_append, List.length_cons, List.length_nil] at *
      omega
  | step =>
    simp only [exec, step]
    cases hs : w.sim with
    | none => simpa [hs] using hinv
    | some s =>
      simp only
      generalize coreStep B cfg mode c (toCore w.heap s) w.rng = o
      unfold applyOut
      refine ⟨?_, ?_⟩
      · simp only
        cases href : s.cbits with
        | none => exact ⟨extra, by simp [writeBack, hpre]⟩
        | some r =>
          cases hb : o.core.bits with
          | none => exact ⟨extra, by simp [writeBack, hpre]⟩
          | some l =>
            have hr := (hinv.own s r hs href).1
            obtain ⟨extra', he⟩ := put_prefix cells0 extra r l hr
            exact ⟨extra', by simp [writeBack, Heap.put, hpre, he]⟩
      · intro s' r hs' hr
        simp only at hs'
        cases hs'
        simp only at hr
        have := hinv.own s r hs hr
        refine ⟨this.1, ?_⟩
        have hsz : (writeBack w.heap s.cbits o.core.bits).size = w.heap.size := by
          unfold writeBack
          cases s.cbits <;> cases o.core.bits <;> simp [Heap.size_put]
        simp only [hsz]; exact this.2
  | getState =>
    simp only [exec]
    cases hs : w.sim with
    | none => simpa [hs] using hinv
    | some s =>
      simp only
      cases hg : getter cfg s.f with
      | mk f e =>
        cases e with
        | none =>
          refine ⟨⟨extra, hpre⟩, ?_⟩
          intro s' r hs' hr; cases hs'; exact hinv.own s r hs hr
        | some e =>
          refine ⟨⟨extra, hpre⟩, ?_⟩
          intro s' r hs' hr; cases hs'; exact hinv.own s r hs hr
  | query => simpa [exec] using hinv
  | compile circ args =>
    simp only [exec]
    exact ⟨⟨extra, hpre⟩, fun s r hs hr => hinv.own s r hs hr⟩
  | load circ user =>
    simp only [exec, loadCircuit]
    exact ⟨⟨extra, hpre⟩, fun s r hs hr => hinv.own s r hs hr⟩

/-- **args_unchanged**: after any history of public calls the caller's cells hold their initial values. -/
theorem execAll_inv [One P] [Mul P] (B : Backend Q P) (cfg : Cfg) (hcopy : cfg.copyCbits = true) (mode : Mode)
    (c : Circuit) (phases : List Int) (cells0 : List (List Int)) :
    ∀ (calls : List (Call Q)) (w : World Q P), Inv cells0 w → HistOk B cfg mode c phases w calls →
      Inv cells0 (execAll B cfg mode c phases w calls) := by
  intro calls
  induction calls with
  | nil => intro w h _; exact h
  | cons call rest ih =>
    intro w hinv hok
    simp only [execAll, List.foldl_cons]
    exact ih _ (exec_inv B cfg hcopy mode c phases cells0 w call hinv hok.1) hok.2

theorem inv_get {cells0 : List (List Int)} {w : World Q P} (h : Inv cells0 w) (r : Nat) (hr : r < cells0.length) :
    w.heap.get r = cells0.getD r [] := by
  obtain ⟨extra, he⟩ := h.pre
  simp only [Heap.get, he, List.getD_eq_getElem?_getD]
  rw [List.getElem?_append_left hr]

/-! ## Returned values -/

/-- what a call returns, with every list reference replaced by the list's contents -/
inductive RetV (Q P : Type)
  | result (r : Except Err (List (Option Q) × List P × Option (List (Option (List Int)))))
  | unit (e : Option Err)
  | state (s : Except Err (Option Q))
  | program (tok : Nat × List (Nat × Int))
  | nothing

def Ret.val (h : Heap) : Ret Q P → RetV Q P
  | .result (.ok r) => .result (.ok (r.states, r.probs, r.cbits.map (fun l => l.map (fun x => x.map h.get))))
  | .result (.error e) => .result (.error e)
  | .unit e => .unit e
  | .state s => .state s
  | .program t => .program t
  | .nothing => .nothing

def truthyBits : Option (List Int) → Bool
  | some l => truthy l
  | none => false

/-- the value `run` returns, as a function of the argument VALUES and the random stream -/
def runV [One P] [Mul P] (B : Backend Q P) (cfg : Cfg) (mode : Mode) (c : Circuit) (bits0 : Option (List Int))
    (st : Q) (mr : Option (List Int)) (rng : List Int) : RetV Q P :=
  match (coreRun B cfg mode c bits0 st mr rng).res with
  | .error e => .result (.error e)
  | .ok (q, p) =>
    .result (.ok ([q], [p], if truthyBits (coreRun B cfg mode c bits0 st mr rng).bits
                            then some [(coreRun B cfg mode c bits0 st mr rng).bits] else none))

/-- the value `run_statistics` returns, as a function of the argument VALUES and the random stream -/
def statV [One P] [Mul P] (B : Backend Q P) (cfg : Cfg) (mode : Mode) (c : Circuit) (bits0 : Option (List Int))
    (st : Q) (rng : List Int) : RetV Q P :=
  match (coreStatV B cfg mode c bits0 st (records c.numMeas) rng).1 with
  | .error e => .result (.error e)
  | .ok vs =>
    .result (.ok ((vs.filter (fun x => x.1.isSome)).map (·.1), (vs.filter (fun x => x.1.isSome)).map (·.2.1),
                  some ((vs.filter (fun x => x.1.isSome)).map (·.2.2))))

/-- **`run` returns a function of the argument values** (whatever the simulator did before). -/
theorem run_value [One P] [Mul P] (B : Backend Q P) (cfg : Cfg) (mode : Mode) (c : Circuit) (phases : List Int)
    (w : World Q P) (st : Q) (cb : Option Ref) (mr : Option (List Int)) (hf : Fresh cfg cb) :
    (exec B cfg mode c phases w (.run st cb mr)).2.val (exec B cfg mode c phases w (.run st cb mr)).1.heap =
      runV B cfg mode c (initBits c (cb.map w.heap.get)) st mr w.rng := by
  simp only [exec]
  rw [run_fresh B cfg mode c w st cb mr hf]
  dsimp only
  unfold runV mkResult
  generalize coreRun B cfg mode c (initBits c (cb.map w.heap.get)) st mr w.rng = ro
  cases hres : ro.res with
  | error e => rfl
  | ok qp =>
    obtain ⟨q, p⟩ := qp
    simp only [Ret.val]
    cases hrb : ro.bits with
    | none => simp [truthyBits]
    | some l =>
      simp only [truthyBits, Option.map_some, Option.toList_some]
      by_cases ht : truthy l = true
      · simp [ht, Heap.get, Heap.size, List.getD_eq_getElem?_getD]
      · simp [ht]

theorem derefEntry_filter (h : Heap) (new : List (Option Q × P × Option Ref)) :
    (new.filter (fun x => x.1.isSome)).map (derefEntry h) = (new.map (derefEntry h)).filter (fun x => x.1.isSome) := by
  induction new with
  | nil => rfl
  | cons a l ih =>
    by_cases ha : a.1.isSome
    · simp [ha, derefEntry, ih]
    · simp [ha, derefEntry, ih]

/-- **`run_statistics` returns a function of the argument values.** -/
theorem stat_value [One P] [Mul P] (B : Backend Q P) (cfg : Cfg) (mode : Mode) (c : Circuit) (phases : List Int)
    (w : World Q P) (st : Q) (cb : Option Ref) (hf : Fresh cfg cb) (hcb : CbOk w cb) :
    (exec B cfg mode c phases w (.stat st cb)).2.val (exec B cfg mode c phases w (.stat st cb)).1.heap =
      statV B cfg mode c (initBits c (cb.map w.heap.get)) st w.rng := by
  obtain ⟨w', extra, hw', _, _, _, _, _, hout⟩ :=
    statLoop_all B cfg mode c st cb hf (records c.numMeas) w [] 0 hcb (Nat.zero_le _)
  simp only [exec]
  unfold statV runStatistics
  cases hsl : statLoop B cfg mode c st cb (records c.numMeas) w [] with
  | mk wf out =>
    rw [hsl] at hw' hout
    simp only at hw' hout
    subst hw'
    cases hcs : (coreStatV B cfg mode c (initBits c (cb.map w.heap.get)) st (records c.numMeas) w.rng).1 with
    | error e =>
      rw [hcs] at hout
      simp only at hout
      subst hout
      rfl
    | ok vs =>
      rw [hcs] at hout
      obtain ⟨new, hnew, hvals, _, _⟩ := hout
      simp only [List.nil_append] at hnew
      subst hnew
      simp only [Ret.val]
      have hne : new.isEmpty = false := by
        have hl : new.length = (records c.numMeas).length := by
          have h1 := congrArg List.length hvals
          rw [List.length_map] at h1
          rw [h1]
          exact coreStatV_length B cfg mode c _ st _ _ vs hcs
        cases new with
        | nil => simp at hl; exact absurd (List.length_eq_zero_iff.mp hl.symm) (records_ne_nil _)
        | cons _ _ => rfl
      simp only [hne, Bool.false_eq_true, ↓reduceIte, Option.map_some]
      rw [← hvals, ← derefEntry_filter]
      simp [List.map_map, derefEntry, Function.comp_def]

/-! ## Deterministic calls do not read the random generator -/

/-- the call never draws from `np.random`: density-matrix mode, or prescribed outcomes, or no measurement -/
def Det (mode : Mode) (c : Circuit) (mr : Option (List Int)) : Prop :=
  mode = .dm ∨ mresTruthy mr = true ∨ c.numMeas = 0

theorem numMeas_pos_of_meas (c : Circuit) (i : Nat) (t : Nat) (s : Option Int) (h : c.ops[i]? = some (.meas t s)) :
    c.numMeas ≠ 0 := by
  intro h0
  have hmem : Op.meas t s ∈ c.ops := List.mem_of_getElem? h
  have : Op.meas t s ∈ c.ops.filter Op.isMeas := List.mem_filter.mpr ⟨hmem, rfl⟩
  unfold Circuit.numMeas at h0
  rw [List.length_eq_zero_iff.mp h0] at this
  cases this

theorem getter_mres (cfg : Cfg) (f : Fields Q P) : (getter cfg f).1.mres = f.mres := by
  unfold getter
  cases f.st with
  | none => rfl
  | some q =>
    simp only
    cases f.form with
    | qobj => rfl
    | matrix => rfl
    | garbage => rfl
    | tensor => simp only; split <;> rfl

/-- with prescribed outcomes the measurement does not look at the random stream -/
theorem measureSv_det [Mul P] (B : Backend Q P) (cfg : Cfg) (c : Circuit) (k : Core Q P) (rng rng' : List Int)
    (idx t : Nat) (store : Option Int) (ht : mresTruthy k.f.mres = true) :
    measureSv B cfg c k rng idx t store = { measureSv B cfg c k rng' idx t store with rng := rng } := by
  have hp : ∀ (f : Fields Q P) (r : List Int), mresTruthy f.mres = true →
      pickOutcome f r = (match (f.mres.getD [])[f.mind]? with
        | none => .error .index
        | some i => .ok (i, { f with mind := f.mind + 1 }, r)) := by
    intro f r h; unfold pickOutcome; rw [h]; rfl
  have hgm := getter_mres cfg k.f
  unfold measureSv
  cases hg : getter cfg k.f with
  | mk f e =>
    rw [hg] at hgm
    simp only at hgm
    have hft : mresTruthy f.mres = true := by rw [hgm]; exact ht
    cases e with
    | some e => rfl
    | none =>
      simp only
      cases f.st with
      | none => rfl
      | some q =>
        simp only
        by_cases htn : t ≥ c.nq
        · simp only [htn, ↓reduceIte]
        · simp only [htn, ↓reduceIte, hp f rng hft, hp f rng' hft]
          cases (f.mres.getD [])[f.mind]? with
          | none => rfl
          | some i =>
            simp only
            cases pyIdx 2 i with
            | none => rfl
            | some o =>
              simp only
              cases store with
              | none => rfl
              | some sidx =>
                simp only
                cases k.bits with
                | none => rfl
                | some l =>
                  simp only
                  cases pySet l sidx i <;> rfl

theorem measureSv_mres [Mul P] (B : Backend Q P) (cfg : Cfg) (c : Circuit) (k : Core Q P) (rng : List Int)
    (idx t : Nat) (store : Option Int) : (measureSv B cfg c k rng idx t store).core.f.mres = k.f.mres := by
  have hgm := getter_mres cfg k.f
  have hpm : ∀ (f : Fields Q P) (r : List Int) (i : Int) (f' : Fields Q P) (r' : List Int),
      pickOutcome f r = .ok (i, f', r') → f'.mres = f.mres := by
    intro f r i f' r' h
    unfold pickOutcome at h
    split at h
    · split at h
      · cases h
      · cases h; rfl
    · split at h <;> (cases h; rfl)
  unfold measureSv
  cases hg : getter cfg k.f with
  | mk f e =>
    rw [hg] at hgm
    simp only at hgm
    cases e with
    | some e => exact hgm
    | none =>
      simp only
      cases f.st with
      | none => exact hgm
      | some q =>
        simp only
        by_cases htn : t ≥ c.nq
        · simp only [htn, ↓reduceIte]; exact hgm
        · simp only [htn, ↓reduceIte]
          cases hpk : pickOutcome f rng with
          | error e => exact hgm
          | ok x =>
            obtain ⟨i, f1, rng1⟩ := x
            have h1 := hpm f rng i f1 rng1 hpk
            simp only
            cases pyIdx 2 i with
            | none => exact h1.trans hgm
            | some o =>
              simp only
              cases store with
              | none => exact h1.trans hgm
              | some sidx =>
                simp only
                cases k.bits with
                | none => exact h1.trans hgm
                | some l =>
                  simp only
                  cases pySet l sidx i <;> exact h1.trans hgm

theorem coreStep_mres [Mul P] (B : Backend Q P) (cfg : Cfg) (mode : Mode) (c : Circuit) (k : Core Q P)
    (rng : List Int) : (coreStep B cfg mode c k rng).core.f.mres = k.f.mres := by
  unfold coreStep
  cases hop : c.ops[k.f.opIndex]? with
  | none => rfl
  | some op =>
    cases op with
    | gate g =>
      simp only
      by_cases hr : refuses cfg g k.f.mixed = true
      · simp only [hr, ↓reduceIte]
      · simp only [hr, Bool.false_eq_true, ↓reduceIte]
        cases fires g k.bits with
        | error e => rfl
        | ok bv =>
          cases bv with
          | false => rfl
          | true =>
            simp only
            cases k.f.st with
            | none => rfl
            | some q => simp only; split <;> rfl
    | meas t store =>
      simp only
      cases mode with
      | dm =>
        simp only
        cases k.f.st with
        | none => rfl
        | some q => simp only; split <;> rfl
      | sv => exact measureSv_mres B cfg c _ rng _ t store

/-- one step of a deterministic call: same result whatever the random stream, which is left untouched -/
theorem coreStep_det [Mul P] (B : Backend Q P) (cfg : Cfg) (mode : Mode) (c : Circuit) (k : Core Q P)
    (rng rng' : List Int) (hd : Det mode c k.f.mres) :
    coreStep B cfg mode c k rng = { coreStep B cfg mode c k rng' with rng := rng } := by
  unfold coreStep
  cases hop : c.ops[k.f.opIndex]? with
  | none => rfl
  | some op =>
    cases op with
    | gate g =>
      simp only
      by_cases hr : refuses cfg g k.f.mixed = true
      · simp only [hr, ↓reduceIte]
      · simp only [hr, Bool.false_eq_true, ↓reduceIte]
        cases fires g k.bits with
        | error e => rfl
        | ok bv =>
          cases bv with
          | false => rfl
          | true =>
            simp only
            cases k.f.st with
            | none => rfl
            | some q => simp only; split <;> rfl
    | meas t store =>
      simp only
      cases mode with
      | dm =>
        simp only
        cases k.f.st with
        | none => rfl
        | some q => simp only; split <;> rfl
      | sv =>
        have htruthy : mresTruthy k.f.mres = true := by
          rcases hd with h | h | h
          · cases h
          · exact h
          · exact absurd h (numMeas_pos_of_meas c _ t store hop)
        exact measureSv_det B cfg c _ rng rng' _ t store htruthy

theorem coreRunLoop_det [Mul P] (B : Backend Q P) (cfg : Cfg) (mode : Mode) (c : Circuit) :
    ∀ (n : Nat) (k : Core Q P) (rng rng' : List Int), Det mode c k.f.mres →
      coreRunLoop B cfg mode c n k rng = { coreRunLoop B cfg mode c n k rng' with rng := rng } := by
  intro n
  induction n with
  | zero => intro k rng rng' _; rfl
  | succ n ih =>
    intro k rng rng' hd
    have hs := coreStep_det B cfg mode c k rng rng' hd
    have hm := coreStep_mres B cfg mode c k rng'
    unfold coreRunLoop
    simp only
    rw [hs]
    generalize coreStep B cfg mode c k rng' = o at hm ⊢
    cases herr : o.err with
    | some e => simp only [herr]
    | none =>
      by_cases hst : o.core.f.st.isNone
      · simp only [herr, hst, ↓reduceIte]
      · simp only [herr, hst, Bool.false_eq_true, ↓reduceIte]
        rw [ih o.core rng o.rng (by rw [hm]; exact hd)]

/-- **A deterministic `run` does not depend on the random generator and leaves it untouched.** -/
theorem coreRun_det [One P] [Mul P] (B : Backend Q P) (cfg : Cfg) (mode : Mode) (c : Circuit)
    (bits0 : Option (List Int)) (st : Q) (mr : Option (List Int)) (rng rng' : List Int) (hd : Det mode c mr) :
    (coreRun B cfg mode c bits0 st mr rng).res = (coreRun B cfg mode c bits0 st mr rng').res ∧
    (coreRun B cfg mode c bits0 st mr rng).bits = (coreRun B cfg mode c bits0 st mr rng').bits ∧
    (coreRun B cfg mode c bits0 st mr rng).rng = rng := by
  have h := coreRunLoop_det B cfg mode c c.ops.length ⟨bits0, fields0 st mr⟩ rng rng' hd
  unfold coreRun
  simp only
  rw [h]
  generalize coreRunLoop B cfg mode c c.ops.length ⟨bits0, fields0 st mr⟩ rng' = o
  cases herr : o.err with
  | some e => simp only [herr]; exact ⟨trivial, trivial, trivial⟩
  | none =>
    simp only [herr]
    cases hg : getter cfg o.core.f with
    | mk f e => cases e <;> simp only <;> exact ⟨trivial, trivial, trivial⟩

theorem records_det (mode : Mode) (c : Circuit) : ∀ r ∈ records c.numMeas, Det mode c (some r) := by
  intro r hr
  by_cases h0 : c.numMeas = 0
  · exact Or.inr (Or.inr h0)
  · right; left
    have := (records_isRecord c r hr).1
    cases r with
    | nil => simp at this; exact absurd this.symm h0
    | cons i r => rfl

/-- **`run_statistics` never reads the random generator.** -/
theorem coreStatV_det [One P] [Mul P] (B : Backend Q P) (cfg : Cfg) (mode : Mode) (c : Circuit)
    (bits0 : Option (List Int)) (st : Q) :
    ∀ (recs : List (List Int)) (rng rng' : List Int), (∀ r ∈ recs, Det mode c (some r)) →
      (coreStatV B cfg mode c bits0 st recs rng).1 = (coreStatV B cfg mode c bits0 st recs rng').1 ∧
      (coreStatV B cfg mode c bits0 st recs rng).2 = rng := by
  intro recs
  induction recs with
  | nil => intro rng rng' _; exact ⟨rfl, rfl⟩
  | cons r rs ih =>
    intro rng rng' hd
    obtain ⟨h1, h2, h3⟩ := coreRun_det B cfg mode c bits0 st (some r) rng rng' (hd r (List.mem_cons_self ..))
    obtain ⟨_, _, h3'⟩ := coreRun_det B cfg mode c bits0 st (some r) rng' rng (hd r (List.mem_cons_self ..))
    unfold coreStatV
    rw [← h1, ← h2, h3, h3']
    cases (coreRun B cfg mode c bits0 st (some r) rng).res with
    | error e => exact ⟨rfl, rfl⟩
    | ok qp =>
      obtain ⟨q, p⟩ := qp
      simp only
      obtain ⟨i1, i2⟩ := ih rng rng' (fun x hx => hd x (List.mem_cons_of_mem _ hx))
      obtain ⟨_, i2'⟩ := ih rng' rng (fun x hx => hd x (List.mem_cons_of_mem _ hx))
      cases hcs : coreStatV B cfg mode c bits0 st rs rng with
      | mk a b =>
        cases hcs' : coreStatV B cfg mode c bits0 st rs rng' with
        | mk a' b' =>
          rw [hcs, hcs'] at i1
          rw [hcs] at i2
          simp only at i1 i2
          subst i1 i2
          cases a <;> exact ⟨rfl, rfl⟩

theorem runV_det [One P] [Mul P] (B : Backend Q P) (cfg : Cfg) (mode : Mode) (c : Circuit)
    (bits0 : Option (List Int)) (st : Q) (mr : Option (List Int)) (rng rng' : List Int) (hd : Det mode c mr) :
    runV B cfg mode c bits0 st mr rng = runV B cfg mode c bits0 st mr rng' := by
  obtain ⟨h1, h2, _⟩ := coreRun_det B cfg mode c bits0 st mr rng rng' hd
  unfold runV
  rw [h1, h2]

theorem statV_det [One P] [Mul P] (B : Backend Q P) (cfg : Cfg) (mode : Mode) (c : Circuit)
    (bits0 : Option (List Int)) (st : Q) (rng rng' : List Int) :
    statV B cfg mode c bits0 st rng = statV B cfg mode c bits0 st rng' := by
  unfold statV
  rw [(coreStatV_det B cfg mode c bits0 st (records c.numMeas) rng rng' (records_det mode c)).1]

/-- the calls whose result does not depend on the random generator: `run_statistics`, and `run` in density-matrix
mode, with prescribed outcomes, or on a circuit without measurement -/
def CallDet (mode : Mode) (c : Circuit) : Call Q → Prop
  | .run _ _ mr => Det mode c mr
  | .stat _ _ => True
  | _ => False

/-! ## No aliasing between results -/

/-- the list objects a returned result refers to -/
def Ret.refs : Ret Q P → List Nat
  | .result (.ok r) => (r.cbits.getD []).filterMap id
  | _ => []

/-- all list objects referred to by the results of a history, in order -/
def traceRefs [One P] [Mul P] (B : Backend Q P) (cfg : Cfg) (mode : Mode) (c : Circuit) (phases : List Int) :
    World Q P → List (Call Q) → List Nat
  | _, [] => []
  | w, call :: rest =>
    (exec B cfg mode c phases w call).2.refs ++ traceRefs B cfg mode c phases (exec B cfg mode c phases w call).1 rest

theorem filterMap_filter_sublist {α β : Type} (l : List α) (p : α → Bool) (f : α → Option β) :
    ((l.filter p).filterMap f).Sublist (l.filterMap f) :=
  List.Sublist.filterMap f List.filter_sublist

/-- every call: the heap does not shrink; the lists its result refers to were allocated by this call and are
pairwise different -/
theorem exec_refs [One P] [Mul P] (B : Backend Q P) (cfg : Cfg) (hcopy : cfg.copyCbits = true) (mode : Mode)
    (c : Circuit) (phases : List Int) (w : World Q P) (call : Call Q) (hcb : CbOk w call.cb) :
    w.heap.size ≤ (exec B cfg mode c phases w call).1.heap.size ∧
    (∀ r ∈ (exec B cfg mode c phases w call).2.refs,
        w.heap.size ≤ r ∧ r < (exec B cfg mode c phases w call).1.heap.size) ∧
    (exec B cfg mode c phases w call).2.refs.Nodup := by
  cases call with
  | run st cb mr =>
    simp only [exec]
    rw [run_fresh B cfg mode c w st cb mr (Or.inl hcopy)]
    dsimp only
    generalize coreRun B cfg mode c (initBits c (cb.map w.heap.get)) st mr w.rng = ro
    refine ⟨by simp [Heap.size], ?_, ?_⟩
    · intro r hr
      unfold mkResult Ret.refs at hr
      cases hres : ro.res with
      | error e => simp [hres] at hr
      | ok qp =>
        cases hrb : ro.bits with
        | none => simp [hres, hrb] at hr
        | some l =>
          by_cases ht : truthy l = true
          · simp [hres, hrb, ht] at hr
            subst hr
            simp [Heap.size]
          · simp [hres, hrb, ht] at hr
    · unfold mkResult Ret.refs
      cases hres : ro.res with
      | error e => simp
      | ok qp =>
        cases hrb : ro.bits with
        | none => simp
        | some l => by_cases ht : truthy l = true <;> simp [ht]
  | stat st cb =>
    simp only [exec]
    obtain ⟨w', extra, hw', hheap, _, _, _, _, hout⟩ :=
      statLoop_all B cfg mode c st cb (Or.inl hcopy) (records c.numMeas) w [] 0 hcb (Nat.zero_le _)
    unfold runStatistics
    cases hsl : statLoop B cfg mode c st cb (records c.numMeas) w [] with
    | mk wf out =>
      rw [hsl] at hw' hout
      simp only at hw' hout
      subst hw'
      have hsz : w.heap.size ≤ wf.heap.size := by simp [Heap.size, hheap]
      cases hcs : (coreStatV B cfg mode c (initBits c (cb.map w.heap.get)) st (records c.numMeas) w.rng).1 with
      | error e =>
        rw [hcs] at hout
        simp only at hout
        subst hout
        exact ⟨hsz, by simp [Ret.refs], by simp [Ret.refs]⟩
      | ok vs =>
        rw [hcs] at hout
        obtain ⟨new, hnew, _, hrefs, hnodup⟩ := hout
        simp only [List.nil_append] at hnew
        subst hnew
        simp only
        refine ⟨hsz, ?_, ?_⟩
        · intro r hr
          unfold Ret.refs at hr
          simp only at hr
          split at hr
          · simp at hr
          · simp only [Option.getD_some, List.filterMap_map] at hr
            obtain ⟨e, he, hex⟩ := List.mem_filterMap.mp hr
            exact hrefs e (List.mem_filter.mp he).1 r (by simpa using hex)
        · unfold Ret.refs
          simp only
          split
          · simp
          · simp only [Option.getD_some, List.filterMap_map]
            have : ((new.filter (fun x => x.1.isSome)).filterMap (id ∘ fun x => x.2.2)).Sublist
                (new.filterMap (·.2.2)) := by
              have := filterMap_filter_sublist new (fun x => x.1.isSome) (·.2.2)
              simpa [Function.comp_def] using this
            exact hnodup.sublist this
  | init st cb mr =>
    simp only [exec]
    rw [initRun_fresh cfg c w st cb mr (Or.inl hcopy)]
    refine ⟨?_, by simp [Ret.refs], by simp [Ret.refs]⟩
    cases initBits c (cb.map w.heap.get) <;> simp [Heap.size, Heap.alloc]
  | step =>
    simp only [exec, step]
    cases hs : w.sim with
    | none => exact ⟨Nat.le_refl _, by simp [Ret.refs], by simp [Ret.refs]⟩
    | some s =>
      simp only
      refine ⟨?_, by simp [Ret.refs], by simp [Ret.refs]⟩
      generalize coreStep B cfg mode c (toCore w.heap s) w.rng = o
      unfold applyOut writeBack
      cases s.cbits with
      | none => exact Nat.le_refl _
      | some r =>
        cases o.core.bits with
        | none => exact Nat.le_refl _
        | some l => simp [Heap.size_put]
  | getState =>
    simp only [exec]
    cases hs : w.sim with
    | none => exact ⟨Nat.le_refl _, by simp [Ret.refs], by simp [Ret.refs]⟩
    | some s =>
      simp only
      cases hg : getter cfg s.f with
      | mk f e => cases e <;> exact ⟨Nat.le_refl _, by simp [Ret.refs], by simp [Ret.refs]⟩
  | query => exact ⟨Nat.le_refl _, by simp [exec, Ret.refs], by simp [exec, Ret.refs]⟩
  | compile circ args => exact ⟨Nat.le_refl _, by simp [exec, Ret.refs], by simp [exec, Ret.refs]⟩
  | load circ user => exact ⟨Nat.le_refl _, by simp [exec, Ret.refs, loadCircuit], by simp [exec, Ret.refs]⟩

/-- **no_alias**: the list objects referred to by the results of a history are pairwise different and none of them
existed before the history (in particular none is a caller's list). -/
theorem traceRefs_fresh [One P] [Mul P] (B : Backend Q P) (cfg : Cfg) (hcopy : cfg.copyCbits = true) (mode : Mode)
    (c : Circuit) (phases : List Int) :
    ∀ (calls : List (Call Q)) (w : World Q P), HistOk B cfg mode c phases w calls →
      (traceRefs B cfg mode c phases w calls).Nodup ∧
      ∀ r ∈ traceRefs B cfg mode c phases w calls, w.heap.size ≤ r := by
  intro calls
  induction calls with
  | nil => intro w _; simp [traceRefs]
  | cons call rest ih =>
    intro w hok
    obtain ⟨hsz, hrange, hnd⟩ := exec_refs B cfg hcopy mode c phases w call hok.1
    obtain ⟨ihnd, ihge⟩ := ih _ hok.2
    simp only [traceRefs]
    refine ⟨?_, ?_⟩
    · rw [List.nodup_append]
      refine ⟨hnd, ihnd, ?_⟩
      intro a ha b hb hab
      have h1 := (hrange a ha).2
      have h2 := ihge b hb
      omega
    · intro r hr
      rcases List.mem_append.mp hr with h | h
      · exact (hrange r h).1
      · have := ihge r h; omega

/-! ## Compiler and processor -/

/-- **A processor that has loaded circuits before holds, after `load_circuit`, exactly what a fresh one would**:
the program of this circuit under the compiler's configuration, and (repaired `compile`) this circuit's phase. -/
theorem load_fresh (cfg : Cfg) (hreset : cfg.resetPhase = true) (phases : List Int) (w : World Q P) (circ : Nat)
    (user : Bool) :
    (loadCircuit cfg phases w circ user).1.proc =
      { pulses := some (circ, if user then w.comp.args else []), phase := phases.getD circ 0 } ∧
    (loadCircuit cfg phases w circ user).2 = (circ, if user then w.comp.args else []) ∧
    (loadCircuit cfg phases w circ user).1.comp.args = w.comp.args ∧
    (loadCircuit cfg phases w circ user).1.heap = w.heap ∧ (loadCircuit cfg phases w circ user).1.sim = w.sim := by
  unfold loadCircuit compile
  cases user <;> simp [hreset, defaultCompiler]

end QipVerif.Sim
