import QipVerif.Model.QasmExport

/-! What the exporter reads of `control_value` (C10).

`Gate._to_qasm` chooses the QASM gate by the NAME of the gate object alone.  `control_value` is either never read
(`Gen.exportChecksCv = false`) or read only to refuse the gate when it is not "all control qubits 1"
(`Gen.exportChecksCv = true`).  Nothing else of the object (its class, `target_gate`) is part of the model's `Gate`. -/

namespace QipVerif.Qasm.Export

/-- the gate object without its `control_value` -/
def Gate.dropCv (g : Gate) : Gate := { g with cv := none }

def Op.dropCv : Op → Op
  | .gate g => .gate g.dropCv
  | .meas ts st => .meas ts st

def Circuit.dropCv (c : Circuit) : Circuit := ⟨c.N, c.numCbits, c.ops.map Op.dropCv⟩

theorem cvOk_out (g : Gate) : cvOk g.out = cvOk g := rfl

theorem dropCv_out (g : Gate) : g.dropCv.out = g.out.dropCv := rfl

theorem cvOk_dropCv (g : Gate) : cvOk g.dropCv = true := rfl

/-- the exported line of a gate does not depend on `control_value`, unless the gate is refused for it -/
theorem gateLine_dropCv (m : List (Str × Str)) (g : Gate)
    (h : cvOk g = true ∨ Gen.exportChecksCv = false) : gateLine m g.dropCv = gateLine m g := by
  have hc : (Gen.exportChecksCv && !cvOk g) = false := by
    rcases h with h | h <;> simp [h]
  have hd : (Gen.exportChecksCv && !cvOk g.dropCv) = false := by simp [cvOk_dropCv]
  unfold gateLine
  rw [hc, hd]
  rfl

theorem defsLoop_dropCv (ops : List Op) (m : List (Str × Str)) :
    defsLoop (ops.map Op.dropCv) m = defsLoop ops m := by
  induction ops generalizing m with
  | nil => rfl
  | cons op ops ih =>
    cases op with
    | meas ts st => simpa [Op.dropCv, defsLoop] using ih m
    | gate g =>
      simp only [List.map_cons, Op.dropCv, defsLoop]
      have hn : g.dropCv.name = g.name := rfl
      rw [hn]
      split
      · exact ih m
      · cases qasmDefns m g.name with
        | error e => rfl
        | ok r => simp only [ih]

theorem opsLoop_dropCv (ops : List Op) (m : List (Str × Str))
    (h : (∀ g, Op.gate g ∈ ops → cvOk g = true) ∨ Gen.exportChecksCv = false) :
    opsLoop m (ops.map Op.dropCv) = opsLoop m ops := by
  induction ops with
  | nil => rfl
  | cons op ops ih =>
    have ht : (∀ g, Op.gate g ∈ ops → cvOk g = true) ∨ Gen.exportChecksCv = false := by
      rcases h with h | h
      · exact Or.inl fun g hg => h g (List.mem_cons_of_mem _ hg)
      · exact Or.inr h
    have h1 : opLine m op.dropCv = opLine m op := by
      cases op with
      | meas ts st => rfl
      | gate g =>
        refine gateLine_dropCv m g ?_
        rcases h with h | h
        · exact Or.inl (h g (by simp))
        · exact Or.inr h
    simp only [List.map_cons, opsLoop, h1, ih ht]

theorem exportCore_dropCv (c : Circuit)
    (h : (∀ g, Op.gate g ∈ c.ops → cvOk g = true) ∨ Gen.exportChecksCv = false) :
    exportCore c.dropCv = exportCore c := by
  unfold exportCore
  have e1 : c.dropCv.ops = c.ops.map Op.dropCv := rfl
  have e2 : declLines c.dropCv = declLines c := rfl
  rw [e1, e2, defsLoop_dropCv]
  cases defsLoop c.ops Gen.gateNameToQasm with
  | error e => rfl
  | ok r =>
    obtain ⟨m, defs⟩ := r
    simp only [opsLoop_dropCv _ m h]

theorem dropCv_out_circuit (c : Circuit) : c.dropCv.out = c.out.dropCv := by
  simp only [Circuit.dropCv, Circuit.out, List.map_map]
  congr 1
  apply List.map_congr_left
  intro op _
  cases op <;> rfl

/-- a gate with another `control_value` than "all control qubits 1" makes the second loop raise, on a tree whose
`Gate._to_qasm` has that test -/
theorem opsLoop_refuses_cv (hfix : Gen.exportChecksCv = true) (ops : List Op) (m : List (Str × Str)) (g : Gate)
    (hg : Op.gate g ∈ ops) (hcv : cvOk g = false) : ∃ e, opsLoop m ops = .error e := by
  induction ops with
  | nil => cases hg
  | cons op ops ih =>
    rcases List.mem_cons.mp hg with hh | hh
    · subst hh
      have : gateLine m g = .error .notImpl := by
        unfold gateLine
        cases lookup m g.name with
        | none => rfl
        | some q => simp [hfix, hcv]
      exact ⟨.notImpl, by simp [opsLoop, opLine, this]⟩
    · obtain ⟨e, he⟩ := ih hh
      simp only [opsLoop]
      cases opLine m op with
      | error e' => exact ⟨e', rfl⟩
      | ok l => exact ⟨e, by simp [he]⟩

end QipVerif.Qasm.Export
