import QipVerif.Lemmas.ZyzCphase
import QipVerif.Model.Qft

/-!
# C17 — the hand-written CNOT expansion of `Model/Qft.lean` is the regenerated template

`Qft.cphaseToCnot c t k` (exact dyadic angles, used by the driver) read as gates on the
(control, target) pair equals `Zyz.cphaseToCnot (π/2^k)`, the instantiation of the REGENERATED
`cphaseTemplate` with the angles the ZYZ_PauliX model extracts from `diag(1, e^{iπ/2^k})`; hence it
multiplies to `e^{iλ/2}·CPHASE(λ)`, `λ = π/2^k`.
-/
namespace QipVerif.Zyz
open Matrix Complex
open QipVerif.Gen.Zyz

/-- value of the exact angle `num·π/2^exp` -/
noncomputable def angVal (a : Qft.Ang) : ℝ := (a.num : ℝ) * Real.pi / (2 : ℝ) ^ a.exp

/-- a model gate of the circuit read on the pair (control `c`, target `t`) -/
noncomputable def toP2 (c t : Nat) (g : Qft.Gate) : Option P2 :=
  match g.kind, g.targets, g.controls, g.ang with
  | .RZ, [q], [], some a =>
    if q = t then some (.one .RZ (angVal a) .targets)
    else if q = c then some (.one .RZ (angVal a) .controls) else none
  | .CNOT, [q], [p], none => if q = t ∧ p = c then some .cnot else none
  | .GLOBALPHASE, _, [], some a => some (.phase (angVal a))
  | _, _, _, _ => none

theorem pi_div_pow_range (k : Nat) : -Real.pi < Real.pi / 2 ^ k ∧ Real.pi / 2 ^ k ≤ Real.pi := by
  have hpi := Real.pi_pos
  have h2 : (1 : ℝ) ≤ 2 ^ k := one_le_pow₀ (by norm_num)
  constructor
  · have : 0 < Real.pi / 2 ^ k := by positivity
    linarith
  · exact div_le_self hpi.le h2

theorem model_expansion_eq_template (c t k : Nat) (h : c ≠ t) :
    (Qft.cphaseToCnot c t k).mapM (toP2 c t) = cphaseToCnot (Real.pi / 2 ^ k) := by
  obtain ⟨h1, h2⟩ := pi_div_pow_range k
  rw [cphaseToCnot_eq h1 h2]
  have hne : (2 : ℝ) ^ k ≠ 0 := by positivity
  simp [Qft.cphaseToCnot, toP2, angVal, h, pow_succ]
  refine ⟨?_, ?_, ?_, ?_⟩ <;> first | (field_simp; ring) | field_simp

/-- the CNOT expansion used by `qft_gate_sequence(to_cnot=True)` for the pair `(i, j)`, `k = i − j`,
multiplies to `e^{iλ/2}·CPHASE(λ)` with `λ = π/2^k` -/
theorem model_expansion_exact (c t k : Nat) (h : c ≠ t) :
    ∃ l, (Qft.cphaseToCnot c t k).mapM (toP2 c t) = some l ∧
      circDen2 l = cexp (I * ((Real.pi / 2 ^ k / 2 : ℝ) : ℂ)) • cphaseMat (Real.pi / 2 ^ k) := by
  obtain ⟨h1, h2⟩ := pi_div_pow_range k
  refine ⟨_, ?_, cnot_expansion_identity (Real.pi / 2 ^ k)⟩
  rw [model_expansion_eq_template c t k h, cphaseToCnot_eq h1 h2]

end QipVerif.Zyz
