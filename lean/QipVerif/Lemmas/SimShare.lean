import QipVerif.Model.SimObj
import QipVerif.Lemmas.SimLift
/-!
# What a transformation's result shares with its argument (gate objects, targets/controls lists), and noise objects
-/
namespace QipVerif.Sim
open QipVerif.Heap

/-- the store only grew: old gate objects and old lists are an unchanged prefix -/
def Ext (w w' : OWorld) : Prop :=
  (∃ gs, w'.gates = w.gates ++ gs) ∧ (∃ ls, w'.lists.cells = w.lists.cells ++ ls)

theorem Ext.refl (w : OWorld) : Ext w w := ⟨⟨[], by simp⟩, ⟨[], by simp⟩⟩

theorem Ext.trans {a b c : OWorld} (h1 : Ext a b) (h2 : Ext b c) : Ext a c := by
  obtain ⟨⟨g1, hg1⟩, ⟨l1, hl1⟩⟩ := h1
  obtain ⟨⟨g2, hg2⟩, ⟨l2, hl2⟩⟩ := h2
  exact ⟨⟨g1 ++ g2, by rw [hg2, hg1, List.append_assoc]⟩, ⟨l1 ++ l2, by rw [hl2, hl1, List.append_assoc]⟩⟩

theorem Ext.gates_le {a b : OWorld} (h : Ext a b) : a.gates.length ≤ b.gates.length := by
  obtain ⟨⟨g, hg⟩, _⟩ := h; simp [hg]

theorem Ext.lists_le {a b : OWorld} (h : Ext a b) : a.lists.size ≤ b.lists.size := by
  obtain ⟨_, ⟨l, hl⟩⟩ := h; simp [Heap.size, hl]

theorem Ext.gate? {a b : OWorld} (h : Ext a b) (r : Nat) (hr : r < a.gates.length) : b.gate? r = a.gate? r := by
  obtain ⟨⟨g, hg⟩, _⟩ := h
  simp only [OWorld.gate?, hg]
  rw [List.getElem?_append_left hr]

theorem Ext.get {a b : OWorld} (h : Ext a b) (r : Nat) (hr : r < a.lists.size) : b.lists.get r = a.lists.get r := by
  obtain ⟨_, ⟨l, hl⟩⟩ := h
  exact heap_get_prefix' a.lists b.lists l hl r hr
where
  heap_get_prefix' (h h' : Heap) (extra : List (List Int)) (hh : h'.cells = h.cells ++ extra) (r : Nat)
      (hr : r < h.size) : h'.get r = h.get r := by
    simp only [Heap.get, Heap.size, List.getD_eq_getElem?_getD] at *
    rw [hh, List.getElem?_append_left hr]

/-- a gate object created after `w`: a new object whose lists are new too -/
def NewGate (w w' : OWorld) (r : Nat) : Prop :=
  w.gates.length ≤ r ∧ ∃ g, w'.gate? r = some g ∧ w.lists.size ≤ g.targets ∧ ∀ c, g.controls = some c → w.lists.size ≤ c

theorem allocGate_spec (w : OWorld) (name : Nat) (ts : List Int) (cs : Option (List Int)) :
    Ext w (allocGate w name ts cs).1 ∧ (allocGate w name ts cs).2 = w.gates.length ∧
    NewGate w (allocGate w name ts cs).1 (allocGate w name ts cs).2 := by
  unfold allocGate
  cases cs with
  | none =>
    refine ⟨⟨⟨_, rfl⟩, ⟨[ts], by simp [Heap.alloc]⟩⟩, rfl, Nat.le_refl _, ⟨⟨name, w.lists.size, none⟩, ?_, Nat.le_refl _, ?_⟩⟩
    · simp [OWorld.gate?, Heap.alloc, Heap.size]
    · intro c hc; cases hc
  | some cs =>
    refine ⟨⟨⟨_, rfl⟩, ⟨[ts, cs], by simp [Heap.alloc]⟩⟩, rfl, Nat.le_refl _,
      ⟨⟨name, w.lists.size, some (w.lists.size + 1)⟩, ?_, Nat.le_refl _, ?_⟩⟩
    · simp [OWorld.gate?, Heap.alloc, Heap.size]
    · intro c hc; cases hc; exact Nat.le_succ _

theorem NewGate.mono {a b c : OWorld} {r : Nat} (hab : Ext a b) (h : NewGate b c r) : NewGate a c r := by
  obtain ⟨h1, g, hg, h2, h3⟩ := h
  exact ⟨Nat.le_trans hab.gates_le h1, g, hg, Nat.le_trans hab.lists_le h2, fun x hx => Nat.le_trans hab.lists_le (h3 x hx)⟩

theorem NewGate.ext {a b c : OWorld} {r : Nat} (hbc : Ext b c) (h : NewGate a b r) : NewGate a c r := by
  obtain ⟨h1, g, hg, h2, h3⟩ := h
  have hr : r < b.gates.length := by
    unfold OWorld.gate? at hg
    exact (List.getElem?_eq_some_iff.mp hg).1
  exact ⟨h1, g, by rw [hbc.gate? r hr]; exact hg, h2, h3⟩

theorem copyGate_spec (w : OWorld) (r : Ref) :
    Ext w (copyGate w r).1 ∧ ∀ r', (copyGate w r).2 = some r' → NewGate w (copyGate w r).1 r' := by
  unfold copyGate
  cases hg : w.gate? r with
  | none => exact ⟨Ext.refl w, fun r' h => by cases h⟩
  | some g =>
    obtain ⟨h1, h2, h3⟩ := allocGate_spec w g.name (w.lists.get g.targets) (g.controls.map w.lists.get)
    refine ⟨h1, fun r' h => ?_⟩
    simp only [Option.some.injEq] at h
    subst h
    exact h3

/-- **the final `deepcopy`: every gate of the result is a new object with new lists, nothing old is touched** -/
theorem copyAll_spec : ∀ (c : Circ) (w : OWorld),
    Ext w (copyAll w c).1 ∧ ∀ r ∈ (copyAll w c).2, NewGate w (copyAll w c).1 r := by
  intro c
  induction c with
  | nil => intro w; exact ⟨Ext.refl w, fun r hr => by cases hr⟩
  | cons r rs ih =>
    intro w
    obtain ⟨h1, h2⟩ := copyGate_spec w r
    obtain ⟨i1, i2⟩ := ih (copyGate w r).1
    refine ⟨h1.trans i1, ?_⟩
    intro x hx
    simp only [copyAll, List.mem_append, Option.mem_toList] at hx
    rcases hx with hx | hx
    · exact (h2 x hx).ext i1
    · exact (i2 x hx).mono h1

theorem emit_ext (arg : Circ) (w : OWorld) (it : Item) : Ext w (emit arg w it).1 := by
  cases it with
  | keep i => exact Ext.refl w
  | relist i name =>
    simp only [emit]
    split
    · exact ⟨⟨_, rfl⟩, ⟨[], by simp⟩⟩
    · exact Ext.refl w
  | fresh name ts cs => exact (allocGate_spec w name ts cs).1

theorem emitAll_ext (arg : Circ) : ∀ (plan : List Item) (w : OWorld), Ext w (emitAll arg w plan).1 := by
  intro plan
  induction plan with
  | nil => intro w; exact Ext.refl w
  | cons it its ih => intro w; exact (emit_ext arg w it).trans (ih _)

/-- a circuit whose gate objects and lists all exist -/
def WFCirc (w : OWorld) (c : Circ) : Prop :=
  ∀ r ∈ c, ∃ g, w.gate? r = some g ∧ g.targets < w.lists.size ∧ ∀ x, g.controls = some x → x < w.lists.size

theorem circVal_ext {w w' : OWorld} (h : Ext w w') (c : Circ) (hwf : WFCirc w c) : circVal w' c = circVal w c := by
  unfold circVal
  apply List.map_congr_left
  intro r hr
  obtain ⟨g, hg, ht, hc⟩ := hwf r hr
  have hrl : r < w.gates.length := by
    unfold OWorld.gate? at hg; exact (List.getElem?_eq_some_iff.mp hg).1
  unfold gateVal
  rw [h.gate? r hrl, hg]
  simp only [Option.map_some, Option.some.injEq, Prod.mk.injEq, true_and]
  refine ⟨h.get _ ht, ?_⟩
  cases hcc : g.controls with
  | none => rfl
  | some x => simp only [Option.map_some, Option.some.injEq]; exact h.get _ (hc x hcc)

/-- a mutation that only touches objects created after `w` leaves every circuit of `w` as it was -/
theorem circVal_mutate_new (w w' : OWorld) (h : Ext w w') (c : Circ) (hwf : WFCirc w c) (m : Mut)
    (hm : match m with
      | .setList r _ => w.lists.size ≤ r
      | .setGate r _ => w.gates.length ≤ r) :
    circVal (mutate w' m) c = circVal w c := by
  rw [← circVal_ext h c hwf]
  unfold circVal
  apply List.map_congr_left
  intro r hr
  obtain ⟨g, hg, ht, hc⟩ := hwf r hr
  have hrl : r < w.gates.length := by
    unfold OWorld.gate? at hg; exact (List.getElem?_eq_some_iff.mp hg).1
  have hg' : w'.gate? r = some g := by rw [h.gate? r hrl]; exact hg
  cases m with
  | setList x v =>
    simp only at hm
    unfold gateVal mutate
    simp only [OWorld.gate?] at hg' ⊢
    rw [hg']
    simp only [Option.map_some, Option.some.injEq, Prod.mk.injEq, true_and]
    have hne : ∀ y : Nat, y < w.lists.size → y ≠ x := by
      intro y hy heq
      have hx : w.lists.size ≤ (x : Nat) := hm
      omega
    refine ⟨Heap.get_put_other _ _ _ _ (hne _ ht), ?_⟩
    cases hcc : g.controls with
    | none => rfl
    | some y =>
      simp only [Option.map_some, Option.some.injEq]
      exact Heap.get_put_other _ _ _ _ (hne _ (hc y hcc))
  | setGate x gnew =>
    simp only at hm
    unfold gateVal mutate
    simp only [OWorld.gate?] at hg' ⊢
    have hne : (x : Nat) ≠ r := by
      have hx : w.gates.length ≤ (x : Nat) := hm
      have hr' : (r : Nat) < w.gates.length := hrl
      intro heq
      rw [heq] at hx
      exact Nat.not_lt.mpr hx hr'
    rw [List.getElem?_set_ne hne, hg']

/-- **A transformation that ends with the deep copy returns a circuit that shares nothing with its argument**: the
argument's value is unchanged by the transformation, every gate object of the result and every list it refers to
was created by the transformation, and therefore no in-place change made through the result (of a targets/controls
list, or of a gate object) can change the argument — or any other circuit that existed before. -/
theorem transform_copy_independent (w : OWorld) (arg : Circ) (plan : List Item) (old : Circ) (hwf : WFCirc w old) :
    circVal (transform true w arg plan).1 old = circVal w old ∧
    (∀ r ∈ (transform true w arg plan).2, NewGate w (transform true w arg plan).1 r) ∧
    (∀ m : Mut, m.touches (transform true w arg plan).1 (transform true w arg plan).2 = true →
      circVal (mutate (transform true w arg plan).1 m) old = circVal w old) := by
  have hext1 := emitAll_ext arg plan w
  obtain ⟨hext2, hnew⟩ := copyAll_spec (emitAll arg w plan).2 (emitAll arg w plan).1
  have hext : Ext w (transform true w arg plan).1 := by
    unfold transform; simp only [↓reduceIte]; exact hext1.trans hext2
  have hnew' : ∀ r ∈ (transform true w arg plan).2, NewGate w (transform true w arg plan).1 r := by
    unfold transform; simp only [↓reduceIte]
    intro r hr; exact (hnew r hr).mono hext1
  refine ⟨circVal_ext hext old hwf, hnew', ?_⟩
  intro m hm
  apply circVal_mutate_new w _ hext old hwf
  cases m with
  | setList x v =>
    simp only [Mut.touches, reachLists, List.contains_eq_mem, List.mem_flatMap, decide_eq_true_eq] at hm
    obtain ⟨r, hr, hx⟩ := hm
    obtain ⟨_, g, hg, h2, h3⟩ := hnew' r hr
    rw [hg] at hx
    simp only [List.mem_cons, Option.mem_toList] at hx
    rcases hx with rfl | hx
    · exact h2
    · exact h3 x hx
  | setGate x gnew =>
    simp only [Mut.touches, reachGates, List.contains_eq_mem, decide_eq_true_eq] at hm
    exact (hnew' x hm).1

/-! ## Noise objects -/

theorem relaxUse_local (cfg : Cfg) (h : cfg.noiseLocal = true) (o : RelaxObj) (N : Nat) : (relaxUse cfg o N).1 = o := by
  unfold relaxUse
  cases tToList o.t1 N with
  | error e => rfl
  | ok l1 =>
    simp only [h, ↓reduceIte]
    cases tToList o.t2 N <;> rfl

theorem relaxUses_local (cfg : Cfg) (h : cfg.noiseLocal = true) : ∀ (ns : List Nat) (o : RelaxObj), relaxUses cfg o ns = o := by
  intro ns
  induction ns with
  | nil => intro o; rfl
  | cons n ns ih => intro o; simp only [relaxUses, relaxUse_local cfg h, ih]

theorem decoUse_local (cfg : Cfg) (h : cfg.noiseLocal = true) (o : DecoObj) : (decoUse cfg o).1 = o := by
  unfold decoUse; split
  · simp
  · rfl

/-- the coefficient used does not depend on whether the object was used before (also without the fix:
`None ↦ True` is idempotent) -/
theorem decoUse_idem (cfg : Cfg) (o : DecoObj) : (decoUse cfg (decoUse cfg o).1).2 = (decoUse cfg o).2 := by
  cases o with | mk coeff tl =>
  cases coeff <;> cases tl <;> by_cases hl : cfg.noiseLocal <;> simp [decoUse, hl]

end QipVerif.Sim
