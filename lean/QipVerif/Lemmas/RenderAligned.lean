import QipVerif.Lemmas.RenderSeg
/-! C20: state shape (`N + C` wires), the length invariant `len top[w] = len mid[w] = len bot[w]`,
the printed rows, and the label prefix of every middle row. -/
namespace QipVerif.Render
variable {v : Variant}

/-- the three rows of a wire have one length -/
def WAligned (w : Wire) : Prop := w.top.length = w.mid.length ∧ w.bot.length = w.mid.length

/-- **the length invariant**: on every wire the three rows have one length -/
def Aligned (st : St) : Prop := ∀ w ∈ st, WAligned w

theorem padWire_aligned (q : Bool) (x : Int) (w : Wire) (h : WAligned w) : WAligned (padWire q x w) := by
  unfold WAligned padWire repI at *
  simp only [List.length_append, List.length_replicate]
  omega

theorem manageWire_strs (width layer : Nat) (x : Int) (w : Wire) :
    (manageWire width layer x w).top = w.top ∧ (manageWire width layer x w).mid = w.mid ∧
    (manageWire width layer x w).bot = w.bot := by
  unfold manageWire
  split
  · split <;> simp
  · simp

theorem manageWire_aligned (width layer : Nat) (x : Int) (w : Wire) (h : WAligned w) :
    WAligned (manageWire width layer x w) := by
  obtain ⟨h1, h2, h3⟩ := manageWire_strs width layer x w
  unfold WAligned at *
  rw [h1, h2, h3]; exact h

theorem appendSeg_aligned (g : Seg) (hg : SegOk g) (w : Wire) (h : WAligned w) : WAligned (appendSeg g w) := by
  unfold WAligned SegOk appendSeg at *
  simp only [List.length_append]
  omega

theorem labelWire_aligned (m : Nat) (l : Str) (w : Wire) : WAligned (labelWire m l w) := by
  simp [WAligned, labelWire]

theorem modAll_forall (P : Wire → Prop) (l : List (Nat × (Wire → Wire)))
    (h : ∀ a ∈ l, ∀ w, P w → P (a.2 w)) (st : St) (hst : ∀ w ∈ st, P w) : ∀ w ∈ modAll l st, P w := by
  intro w hw
  obtain ⟨i, hi⟩ := List.mem_iff_getElem?.mp hw
  rw [modAll_getElem?] at hi
  cases hs : st[i]? with
  | none => rw [hs] at hi; cases hi
  | some w0 =>
    rw [hs] at hi
    cases hi
    exact compAt_pred P i l h w0 (hst w0 (List.mem_of_getElem? hs))

/-! ## one iteration -/

theorem place_length (align : Bool) (N : Nat) (pl : Plan) (st : St) : (place align N pl st).length = st.length := by
  simp only [place, applyActs_eq, manageLayers_eq, adjustPad_eq, modAll_length]

theorem place_aligned (align : Bool) (N : Nat) (pl : Plan) (st : St) (hacts : ∀ a ∈ pl.acts, SegOk a.2)
    (h : Aligned st) : Aligned (place align N pl st) := by
  simp only [place, applyActs_eq, manageLayers_eq, adjustPad_eq]
  apply modAll_forall WAligned
  · intro a ha w hw
    obtain ⟨b, hb, rfl⟩ := List.mem_map.mp ha
    exact appendSeg_aligned _ (hacts b hb) w hw
  apply modAll_forall WAligned
  · intro a ha w hw
    obtain ⟨b, _, rfl⟩ := List.mem_map.mp ha
    exact manageWire_aligned _ _ _ w hw
  apply modAll_forall WAligned
  · intro a ha w hw
    obtain ⟨b, _, rfl⟩ := List.mem_map.mp ha
    exact padWire_aligned _ _ w hw
  exact h

/-- what a successful iteration is -/
theorem step_ok {sty : Style} {N C : Nat} {st st' : St} {op : Op} (h : step v sty N C st op = .ok st') :
    ∃ pl, plan v sty.pad N C op = .ok pl ∧ (∀ w ∈ pl.wl, w < N + C) ∧ (∀ a ∈ pl.acts, a.1 < N + C) ∧
      ¬ (sty.align = true ∧ N = 0) ∧ st' = place sty.align N pl st := by
  unfold step at h
  split at h
  · cases h
  · rename_i pl hpl
    split at h
    · cases h
    · rename_i h1
      split at h
      · cases h
      · rename_i h2
        split at h
        · cases h
        · rename_i h3
          cases h
          refine ⟨pl, hpl, ?_, ?_, h2, rfl⟩
          · intro w hw
            have h1' : pl.wl.all (fun x => decide (x < N + C)) = true := by simpa using h1
            simpa using List.all_eq_true.mp h1' w hw
          · intro a ha
            have h3' : pl.acts.all (fun x => decide (x.1 < N + C)) = true := by simpa using h3
            simpa using List.all_eq_true.mp h3' a ha

theorem step_length {sty : Style} {N C : Nat} {st st' : St} {op : Op} (h : step v sty N C st op = .ok st') :
    st'.length = st.length := by
  obtain ⟨pl, _, _, _, _, rfl⟩ := step_ok h
  exact place_length ..

theorem step_aligned {sty : Style} {N C : Nat} {st st' : St} {op : Op} (h : step v sty N C st op = .ok st')
    (ha : Aligned st) : Aligned st' := by
  obtain ⟨pl, hpl, _, _, _, rfl⟩ := step_ok h
  exact place_aligned _ _ _ _ (plan_acts_segOk hpl) ha

/-- induction principle for the main loop -/
theorem steps_induct (P : St → Prop) {sty : Style} {N C : Nat}
    (hstep : ∀ st st' op, P st → step v sty N C st op = .ok st' → P st')
    {ops : List Op} {st st' : St} (h : steps v sty N C st ops = .ok st') (h0 : P st) : P st' := by
  induction ops generalizing st with
  | nil => cases h; exact h0
  | cons op ops ih =>
    unfold steps at h
    split at h
    · cases h
    · rename_i st1 h1
      exact ih h (hstep _ _ _ h0 h1)

/-! ## wire labels -/

theorem initSt_length (N C : Nat) : (initSt N C).length = N + C := by simp [initSt]

theorem initSt_get (N C i : Nat) (h : i < N + C) : (initSt N C)[i]? = some (initWire N i) := by
  simp [initSt, h]

theorem initSt_aligned (N C : Nat) : Aligned (initSt N C) := by
  intro w hw
  obtain ⟨i, _, rfl⟩ := List.mem_map.mp hw
  unfold initWire WAligned
  split <;> simp

theorem addLabelsFrom_length {m i : Nat} {ls : List Str} {st st' : St}
    (h : addLabelsFrom m i ls st = .ok st') : st'.length = st.length := by
  induction ls generalizing i st with
  | nil => cases h; rfl
  | cons l ls ih =>
    unfold addLabelsFrom at h
    split at h
    · rw [ih h]; simp
    · cases h

theorem addLabelsFrom_aligned {m i : Nat} {ls : List Str} {st st' : St}
    (h : addLabelsFrom m i ls st = .ok st') (ha : Aligned st) : Aligned st' := by
  induction ls generalizing i st with
  | nil => cases h; exact ha
  | cons l ls ih =>
    unfold addLabelsFrom at h
    split at h
    · apply ih h
      have : st.modify i (labelWire m l) = modAll [(i, labelWire m l)] st := rfl
      rw [this]
      apply modAll_forall WAligned _ _ st ha
      intro a ha' w _
      simp only [List.mem_singleton] at ha'
      subst ha'
      exact labelWire_aligned ..
    · cases h

/-- wires outside `i .. i + len(labels)` are untouched, wire `i + k` receives label `k` -/
theorem addLabelsFrom_get {m i : Nat} {ls : List Str} {st st' : St}
    (h : addLabelsFrom m i ls st = .ok st') (j : Nat) :
    st'[j]? = if i ≤ j then
        match ls[j - i]? with
        | some l => (st[j]?).map (labelWire m l)
        | none => st[j]?
      else st[j]? := by
  induction ls generalizing i st with
  | nil => cases h; simp
  | cons l ls ih =>
    unfold addLabelsFrom at h
    split at h
    · rw [ih h, List.getElem?_modify]
      by_cases h1 : i + 1 ≤ j
      · have h2 : i ≤ j := by omega
        have h3 : j - i = (j - (i + 1)) + 1 := by omega
        have h4 : ¬ i = j := by omega
        simp only [h1, h2, if_true, h3, List.getElem?_cons_succ, h4, if_false]
        cases st[j]? <;> simp
      · by_cases h2 : i = j
        · subst h2
          simp only [h1, if_false, Nat.le_refl, if_true, Nat.sub_self, List.getElem?_cons_zero]
          cases st[i]? <;> simp
        · have h3 : ¬ i ≤ j := by omega
          simp only [h1, h3, if_false, h2]
          cases st[j]? <;> simp
    · cases h

theorem addLabelsFrom_ok (m i : Nat) (ls : List Str) (st : St) (h : i + ls.length ≤ st.length) :
    ∃ st', addLabelsFrom m i ls st = .ok st' := by
  induction ls generalizing i st with
  | nil => exact ⟨st, rfl⟩
  | cons l ls ih =>
    unfold addLabelsFrom
    simp only [List.length_cons] at h
    rw [if_pos (by omega)]
    apply ih
    simp; omega

/-- what a successful `_add_wire_labels` is -/
theorem addWireLabels_ok {sty : Style} {N C : Nat} {st st' : St} (h : addWireLabels sty N C st = .ok st') :
    addLabelsFrom (lmax ((wireLabels sty N C).map List.length)) 0 (wireLabels sty N C) st = .ok st' := by
  unfold addWireLabels at h
  simp only [] at h
  split at h
  · cases h
  · exact h

/-! ## final padding and printing -/

theorem finalPad_length (sty : Style) (N : Nat) (st : St) : (finalPad sty N st).length = st.length := by
  simp only [finalPad, adjustPad_eq, modAll_length]

theorem finalPad_aligned (sty : Style) (N : Nat) (st : St) (h : Aligned st) : Aligned (finalPad sty N st) := by
  simp only [finalPad, adjustPad_eq]
  apply modAll_forall WAligned _ _ st h
  intro a ha w hw
  obtain ⟨b, _, rfl⟩ := List.mem_map.mp ha
  exact padWire_aligned _ _ w hw

/-- what a successful `layout` is -/
theorem layoutSt_ok {sty : Style} {c : Circ} {st : St} (h : layoutSt v sty c = .ok st) :
    ∃ st0 st1, addWireLabels sty c.N c.C (initSt c.N c.C) = .ok st0 ∧ steps v sty c.N c.C st0 c.ops = .ok st1 ∧
      st = finalPad sty c.N st1 := by
  unfold layoutSt at h
  split at h
  · cases h
  · rename_i st0 h0
    split at h
    · cases h
    · rename_i st1 h1
      cases h
      exact ⟨st0, st1, h0, h1, rfl⟩

theorem render_ok {sty : Style} {c : Circ} {rows : List Str} (h : render v sty c = .ok rows) :
    ∃ st, layoutSt v sty c = .ok st ∧ rows = printRows c.N c.C st := by
  unfold render at h
  split at h
  · cases h
  · rename_i st hst
    cases h
    exact ⟨st, hst, rfl⟩

theorem layoutSt_length {sty : Style} {c : Circ} {st : St} (h : layoutSt v sty c = .ok st) :
    st.length = c.N + c.C := by
  obtain ⟨st0, st1, h0, h1, rfl⟩ := layoutSt_ok h
  rw [finalPad_length]
  rw [steps_induct (fun s => s.length = st0.length) (fun _ _ _ hs hst => (step_length hst).trans hs) h1 rfl,
    addLabelsFrom_length (addWireLabels_ok h0), initSt_length]

theorem layoutSt_aligned {sty : Style} {c : Circ} {st : St} (h : layoutSt v sty c = .ok st) : Aligned st := by
  obtain ⟨st0, st1, h0, h1, rfl⟩ := layoutSt_ok h
  apply finalPad_aligned
  apply steps_induct Aligned (fun _ _ _ hs hst => step_aligned hst hs) h1
  exact addLabelsFrom_aligned (addWireLabels_ok h0) (initSt_aligned _ _)

theorem wireRows_of_get {st : St} {i : Nat} {w : Wire} (h : st[i]? = some w) :
    wireRows st i = [w.top, w.mid, w.bot] := by simp [wireRows, h]

theorem flatMap_wireRows_length (st : St) (l : List Nat) (h : ∀ i ∈ l, i < st.length) :
    (l.flatMap (wireRows st)).length = 3 * l.length := by
  induction l with
  | nil => rfl
  | cons a l ih =>
    have ha : a < st.length := h a (List.mem_cons_self ..)
    have : wireRows st a = [st[a].top, st[a].mid, st[a].bot] := wireRows_of_get (List.getElem?_eq_getElem ha)
    simp only [List.flatMap_cons, List.length_append, this, List.length_cons, List.length_nil,
      ih (fun i hi => h i (List.mem_cons_of_mem _ hi))]
    omega

theorem flatMap_wireRows_get (st : St) (l : List Nat) (h : ∀ i ∈ l, i < st.length) (j k : Nat)
    (hk : k < 3) : (l.flatMap (wireRows st))[3 * j + k]? = (l[j]?).bind fun i => (wireRows st i)[k]? := by
  induction l generalizing j with
  | nil => simp
  | cons a l ih =>
    have ha : a < st.length := h a (List.mem_cons_self ..)
    have hl : (wireRows st a).length = 3 := by
      rw [wireRows_of_get (List.getElem?_eq_getElem ha)]; rfl
    rw [List.flatMap_cons]
    cases j with
    | zero =>
      rw [List.getElem?_append_left (by omega)]
      simp
    | succ j =>
      rw [List.getElem?_append_right (by omega), hl]
      have : 3 * (j + 1) + k - 3 = 3 * j + k := by omega
      rw [this, ih (fun i hi => h i (List.mem_cons_of_mem _ hi))]
      simp

theorem printOrder_length (N C : Nat) : (printOrder N C).length = N + C := by simp [printOrder]

theorem mem_printOrder {N C i : Nat} (h : i ∈ printOrder N C) : i < N + C := by
  simp only [printOrder, List.mem_append, List.mem_reverse, List.mem_range, List.mem_map] at h
  rcases h with h | ⟨a, ha, rfl⟩ <;> omega

/-- the wire drawn at position `j` of the picture (0 = top): qubits from the highest index down,
then the classical wires from the highest index down -/
def wireAtRow (N C j : Nat) : Nat := if j < N then N - 1 - j else N + (N + C - 1 - j)

theorem printOrder_get (N C j : Nat) (h : j < N + C) : (printOrder N C)[j]? = some (wireAtRow N C j) := by
  unfold printOrder wireAtRow
  by_cases hj : j < N
  · rw [List.getElem?_append_left (by simpa using hj), if_pos hj, List.getElem?_reverse (by simpa using hj)]
    simp only [List.length_range]
    rw [List.getElem?_range (by omega)]
  · rw [List.getElem?_append_right (by simpa using hj), if_neg hj]
    simp only [List.length_reverse, List.length_range]
    rw [List.getElem?_reverse (by simp; omega)]
    simp only [List.length_map, List.length_range]
    rw [List.getElem?_map, List.getElem?_range (by omega)]
    simp; omega

end QipVerif.Render
