import QipVerif.Model.Sched
import Mathlib.Data.List.Nodup
/-!
# `commutation_rules`, `used_qubits`, `qubit_constraint`: elementary facts

* `commRules_eq`, `commRules_true_iff`  the rule in closed form: exactly five families of pairs are declared commuting;
* `commRules_symm`                      the rule is symmetric;
* `commAbs`, `commRules_abs`, `commAbs_true_iff`  the same as a finite decidable table over the abstraction the rule depends on
                                        (name class x name class x six Boolean relations);
* `used_nodup`, `share_iff`, `share_symm`, `used_lt_numQubits`.
-/
namespace QipVerif.Sched

theorem nodup_eraseDups : ∀ (l : List Nat), l.eraseDups.Nodup
  | [] => by simp
  | a :: as => by
    rw [List.eraseDups_cons, List.nodup_cons]
    refine ⟨?_, nodup_eraseDups _⟩
    rw [List.mem_eraseDups, List.mem_filter]
    simp
termination_by l => l.length
decreasing_by
  simp only [List.length_cons]
  exact Nat.lt_succ_of_le (List.length_filter_le _ _)

def CX (x y : Ins) : Bool :=
  x.name == "CNOT" && (((y.name == "X" || y.name == "RX") && x.targets == y.targets) ||
    ((y.name == "Z" || y.name == "RZ") && x.controls == y.targets))

theorem chain_eq_CX (x y : Ins) :
    (if x.name == "CNOT" && (y.name == "X" || y.name == "RX") then x.targets == y.targets
     else if x.name == "CNOT" && (y.name == "Z" || y.name == "RZ") then x.controls == y.targets
     else false) = CX x y := by
  unfold CX
  by_cases h1 : x.name = "CNOT" <;> by_cases h2 : y.name = "X" <;> by_cases h3 : y.name = "RX" <;>
    by_cases h4 : y.name = "Z" <;> by_cases h5 : y.name = "RZ" <;> simp_all

theorem CX_false_of_lt {x y : Ins} (h : y.name < x.name) : CX x y = false := by
  unfold CX
  by_cases h1 : x.name = "CNOT"
  · rw [h1] at h
    by_cases h2 : y.name = "X"
    · rw [h2] at h; exact absurd h (by decide)
    by_cases h3 : y.name = "RX"
    · rw [h3] at h; exact absurd h (by decide)
    by_cases h4 : y.name = "Z"
    · rw [h4] at h; exact absurd h (by decide)
    by_cases h5 : y.name = "RZ"
    · rw [h5] at h; exact absurd h (by decide)
    simp [h2, h3, h4, h5]
  · simp [h1]

theorem CX_false_of_not_lt {x y : Ins} (h : ¬ x.name < y.name) : CX x y = false := by
  unfold CX
  by_cases h1 : x.name = "CNOT"
  · rw [h1] at h
    by_cases h2 : y.name = "X"
    · rw [h2] at h; exact absurd (by decide) h
    by_cases h3 : y.name = "RX"
    · rw [h3] at h; exact absurd (by decide) h
    by_cases h4 : y.name = "Z"
    · rw [h4] at h; exact absurd (by decide) h
    by_cases h5 : y.name = "RZ"
    · rw [h5] at h; exact absurd (by decide) h
    simp [h2, h3, h4, h5]
  · simp [h1]

/-- `commutation_rules` in closed form -/
theorem commRules_eq (a b : Ins) : commRules a b =
    if a.name = b.name then
      (a.sc && b.sc) && ((!a.controls.isEmpty && a.controls == b.controls) || a.targets == b.targets)
    else (CX a b || CX b a) := by
  unfold commRules
  by_cases hn : a.name = b.name
  · simp only [hn, bne_self_eq_false, Bool.false_eq_true, if_false, if_true]
    by_cases hs : (a.sc && b.sc) = true
    · simp only [hs, Bool.not_true, Bool.false_eq_true, if_false, Bool.true_and]
      by_cases hc : (!a.controls.isEmpty && a.controls == b.controls) = true
      · simp [hc]
      · simp only [hc, if_false, Bool.not_eq_true] at *
        simp [hc]
    · have hs' : (a.sc && b.sc) = false := by simpa using hs
      simp [hs']
  · have hne : (a.name != b.name) = true := by simpa using hn
    simp only [hne, if_true, hn, if_false]
    by_cases hlt : b.name < a.name
    · simp only [hlt, if_true]
      rw [chain_eq_CX, CX_false_of_lt hlt, Bool.false_or]
    · simp only [hlt, if_false]
      rw [chain_eq_CX, CX_false_of_not_lt hlt, Bool.or_false]

theorem commRules_symm (a b : Ins) : commRules a b = commRules b a := by
  rw [commRules_eq, commRules_eq]
  by_cases hn : a.name = b.name
  · simp only [hn, if_true]
    rw [show (b.targets == a.targets) = (a.targets == b.targets) from BEq.comm,
      show (b.controls == a.controls) = (a.controls == b.controls) from BEq.comm,
      show (b.sc && a.sc) = (a.sc && b.sc) from Bool.and_comm _ _]
    by_cases hc : a.controls = b.controls
    · rw [hc]
    · rw [show (a.controls == b.controls) = false from by simpa using hc]
      simp
  · have : ¬ b.name = a.name := fun h => hn h.symm
    simp only [hn, this, if_false, Bool.or_comm]

/-- **the pairs `commutation_rules` declares commuting** (given that they share a qubit the
scheduler asks nothing else): same name (of a family the module lists as self-commuting, when it has
such a list) with equal non-empty controls or equal targets; `CNOT` with `X`/`RX` on the `CNOT`'s
target; `CNOT` with `Z`/`RZ` on the `CNOT`'s control. -/
theorem commRules_true_iff (a b : Ins) : commRules a b = true ↔
    (a.name = b.name ∧ a.sc = true ∧ b.sc = true ∧
      ((a.controls ≠ [] ∧ a.controls = b.controls) ∨ a.targets = b.targets)) ∨
    (a.name = "CNOT" ∧ (b.name = "X" ∨ b.name = "RX") ∧ a.targets = b.targets) ∨
    (a.name = "CNOT" ∧ (b.name = "Z" ∨ b.name = "RZ") ∧ a.controls = b.targets) ∨
    (b.name = "CNOT" ∧ (a.name = "X" ∨ a.name = "RX") ∧ b.targets = a.targets) ∨
    (b.name = "CNOT" ∧ (a.name = "Z" ∨ a.name = "RZ") ∧ b.controls = a.targets) := by
  have hCX : ∀ x y : Ins, CX x y = true ↔
      (x.name = "CNOT" ∧ (y.name = "X" ∨ y.name = "RX") ∧ x.targets = y.targets) ∨
      (x.name = "CNOT" ∧ (y.name = "Z" ∨ y.name = "RZ") ∧ x.controls = y.targets) := by
    intro x y
    simp only [CX, Bool.and_eq_true, Bool.or_eq_true, beq_iff_eq]
    tauto
  rw [commRules_eq]
  by_cases hn : a.name = b.name
  · simp only [hn, if_true, Bool.or_eq_true, Bool.and_eq_true, Bool.not_eq_true', beq_iff_eq,
      List.isEmpty_eq_false_iff, true_and]
    constructor
    · intro h; exact Or.inl ⟨h.1.1, h.1.2, h.2⟩
    · rintro (h | ⟨h1, h2 | h2, _⟩ | ⟨h1, h2 | h2, _⟩ | ⟨h1, h2 | h2, _⟩ | ⟨h1, h2 | h2, _⟩)
      · exact ⟨⟨h.1, h.2.1⟩, h.2.2⟩
      all_goals (rw [h1] at h2; exact absurd h2 (by decide))
  · simp only [hn, if_false, Bool.or_eq_true, hCX, false_and, false_or]
    tauto

/-! ### the rule as a finite table -/

inductive NameCls | cnot | x | rx | z | rz | other
deriving DecidableEq, Repr


/-- the only thing the rule asks about a name, besides equality with the other name -/
def nameCls (s : String) : NameCls :=
  if s = "CNOT" then .cnot else if s = "X" then .x else if s = "RX" then .rx
  else if s = "Z" then .z else if s = "RZ" then .rz else .other

theorem nameCls_cases (s : String) :
    (s = "CNOT" ∧ nameCls s = .cnot) ∨ (s = "X" ∧ nameCls s = .x) ∨ (s = "RX" ∧ nameCls s = .rx) ∨
    (s = "Z" ∧ nameCls s = .z) ∨ (s = "RZ" ∧ nameCls s = .rz) ∨
    (s ≠ "CNOT" ∧ s ≠ "X" ∧ s ≠ "RX" ∧ s ≠ "Z" ∧ s ≠ "RZ" ∧ nameCls s = .other) := by
  unfold nameCls
  by_cases h1 : s = "CNOT"
  · subst h1; simp
  by_cases h2 : s = "X"
  · subst h2; simp
  by_cases h3 : s = "RX"
  · subst h3; simp
  by_cases h4 : s = "Z"
  · subst h4; simp
  by_cases h5 : s = "RZ"
  · subst h5; simp
  simp [h1, h2, h3, h4, h5]

/-- `commutation_rules` on the abstraction: classes of the two names, `sameName`,
`a.controls` non-empty, `a.controls = b.controls`, `a.targets = b.targets`,
`a.controls = b.targets`, `b.controls = a.targets`; `sc`: both names are listed as self-commuting -/
def commAbs (ca cb : NameCls) (same sc cne ceq teq act bct : Bool) : Bool :=
  if same then sc && ((cne && ceq) || teq)
  else match ca, cb with
    | .cnot, .x | .cnot, .rx | .x, .cnot | .rx, .cnot => teq
    | .cnot, .z | .cnot, .rz => act
    | .z, .cnot | .rz, .cnot => bct
    | _, _ => false

theorem commRules_abs (a b : Ins) : commRules a b =
    commAbs (nameCls a.name) (nameCls b.name) (a.name == b.name) (a.sc && b.sc) (!a.controls.isEmpty)
      (a.controls == b.controls) (a.targets == b.targets) (a.controls == b.targets) (b.controls == a.targets) := by
  rw [commRules_eq]
  by_cases hn : a.name = b.name
  · simp [hn, commAbs]
  · have hne : (a.name == b.name) = false := by simpa using hn
    simp only [hn, if_false, commAbs, hne, Bool.false_eq_true]
    have hbt : (b.targets == a.targets) = (a.targets == b.targets) := BEq.comm
    rcases nameCls_cases a.name with ⟨ha, ca⟩ | ⟨ha, ca⟩ | ⟨ha, ca⟩ | ⟨ha, ca⟩ | ⟨ha, ca⟩ | ⟨a1, a2, a3, a4, a5, ca⟩ <;>
    rcases nameCls_cases b.name with ⟨hb, cb⟩ | ⟨hb, cb⟩ | ⟨hb, cb⟩ | ⟨hb, cb⟩ | ⟨hb, cb⟩ | ⟨b1, b2, b3, b4, b5, cb⟩ <;>
    rw [ca, cb] <;> simp_all [CX]

set_option synthInstance.maxSize 2000 in
/-- the table: which abstract situations are answered `true` -/
theorem commAbs_true_iff : ∀ (ca cb : NameCls) (same sc cne ceq teq act bct : Bool),
    commAbs ca cb same sc cne ceq teq act bct = true ↔
      (same = true ∧ sc = true ∧ ((cne = true ∧ ceq = true) ∨ teq = true)) ∨
      (same = false ∧ (
        ((ca = .cnot ∧ (cb = .x ∨ cb = .rx)) ∧ teq = true) ∨ ((cb = .cnot ∧ (ca = .x ∨ ca = .rx)) ∧ teq = true) ∨
        ((ca = .cnot ∧ (cb = .z ∨ cb = .rz)) ∧ act = true) ∨ ((cb = .cnot ∧ (ca = .z ∨ ca = .rz)) ∧ bct = true))) := by
  intro ca cb
  cases ca <;> cases cb <;> decide

/-! ### used qubits -/

theorem used_nodup (i : Ins) : i.used.Nodup := nodup_eraseDups _

theorem mem_used {i : Ins} {q : Nat} : q ∈ i.used ↔ q ∈ i.targets ∨ q ∈ i.controls := by
  simp [Ins.used, List.mem_eraseDups]

theorem share_iff {a b : Ins} : share a b = true ↔ ∃ q, q ∈ a.used ∧ q ∈ b.used := by
  simp [share, List.any_eq_true]

theorem share_symm (a b : Ins) : share a b = share b a := by
  rw [Bool.eq_iff_iff, share_iff, share_iff]
  constructor <;> rintro ⟨q, h1, h2⟩ <;> exact ⟨q, h2, h1⟩

theorem le_foldl_max (l : List Nat) (a : Nat) : a ≤ l.foldl max a ∧ ∀ x ∈ l, x ≤ l.foldl max a := by
  induction l generalizing a with
  | nil => simp
  | cons y l ih =>
    simp only [List.foldl_cons, List.mem_cons]
    obtain ⟨h1, h2⟩ := ih (max a y)
    refine ⟨by omega, ?_⟩
    rintro x (rfl | hx)
    · omega
    · exact h2 x hx

theorem used_lt_numQubits {ns : List Ins} {i : Nat} (hi : i < ns.length) {q : Nat} (hq : q ∈ (getIns ns i).used) :
    q < numQubits ns := by
  unfold numQubits
  have : q ∈ ns.flatMap Ins.used := by
    rw [List.mem_flatMap]
    refine ⟨ns[i], List.getElem_mem hi, ?_⟩
    simpa [getIns, List.getD_eq_getElem?_getD, hi] using hq
  have := (le_foldl_max (ns.flatMap Ins.used) 0).2 q this
  omega

end QipVerif.Sched
