import QipVerif.Lemmas.EmbedFlatPerm
import QipVerif.Lemmas.EmbedCount
import Mathlib.Data.List.Nodup
/-!
# The flat-index model of `expand_operator` equals the digit-tuple model (C08)

Assembly for the concrete `order = new_order`, `structure = oper.dims[0] + [dims[i] for i in rest_pos]`.
-/
namespace QipVerif.EmbedFlat
open QipVerif.Embed

/-- `new_order` is a permutation of `0..N-1`. -/
theorem newOrder_perm (N : Nat) (targets : List Nat) (hn : targets.Nodup) (hr : ∀ t ∈ targets, t < N) :
    (newOrder N targets).Perm (List.range N) := by
  have hlen := newOrder_length N targets
  have hil := invOrder_length N targets hn hr
  have : newOrder N targets = (List.range N).map (fun p => (invOrder N targets).idxOf p) := by
    apply List.ext_getElem?
    intro p
    by_cases hp : p < N
    · rw [newOrder_get' N targets hn p hp]; simp [hp]
    · rw [List.getElem?_eq_none (by omega), List.getElem?_eq_none (by simp; omega)]
  rw [this]
  have hnd : ((List.range N).map (fun p => (invOrder N targets).idxOf p)).Nodup := by
    rw [List.nodup_map_iff_inj_on List.nodup_range]
    intro a ha b hb hab
    have ha' := (mem_invOrder hr).mpr (List.mem_range.mp ha)
    have hb' := (mem_invOrder hr).mpr (List.mem_range.mp hb)
    have e1 : (invOrder N targets)[(invOrder N targets).idxOf a]'(List.idxOf_lt_length_of_mem ha') = a :=
      List.getElem_idxOf _
    have e2 : (invOrder N targets)[(invOrder N targets).idxOf b]'(List.idxOf_lt_length_of_mem hb') = b :=
      List.getElem_idxOf _
    simp only [hab] at e1
    exact e1.symm.trans e2
  refine (List.perm_ext_iff_of_nodup hnd List.nodup_range).mpr (fun v => ?_)
  rw [List.mem_map, List.mem_range]
  constructor
  · rintro ⟨p, hp, rfl⟩
    have := List.idxOf_lt_length_of_mem ((mem_invOrder hr).mpr (List.mem_range.mp hp))
    omega
  · intro hv
    have hvl : v < (invOrder N targets).length := by omega
    refine ⟨(invOrder N targets)[v], ?_, (invOrder_nodup N targets hn).idxOf_getElem v hvl⟩
    exact List.mem_range.mpr ((mem_invOrder hr).mp (List.getElem_mem hvl))

/-! ### the checks of `_Indexer.__init__` pass for a permutation -/

theorem newDimsLoop_ok (dimsA : List Nat) (hpos : ∀ d ∈ dimsA, 0 < d) (os seen : List Nat)
    (hlt : ∀ o ∈ os, o < dimsA.length) (hnd : os.Nodup) (hs : ∀ o ∈ os, o ∉ seen) :
    newDimsLoop dimsA os seen = .ok (os.map (fun o => dimsA.getD o 0)) := by
  induction os generalizing seen with
  | nil => rfl
  | cons o os ih =>
    have ho : o < dimsA.length := hlt o (by simp)
    have h1 : ¬ dimsA.length ≤ o := by omega
    have h2 : seen.contains o = false := by
      have := hs o (by simp); simpa using this
    have h3 : ¬ dimsA.getD o 0 = 0 := by
      have : dimsA.getD o 0 = dimsA[o] := by simp [List.getD_eq_getElem?_getD, ho]
      rw [this]; exact Nat.pos_iff_ne_zero.mp (hpos _ (List.getElem_mem ho))
    have hnd' := List.nodup_cons.mp hnd
    rw [newDimsLoop, if_neg h1, h2, if_neg (by simp), if_neg h3,
      ih (o :: seen) (fun a ha => hlt a (by simp [ha])) hnd'.2 (fun a ha => by
        intro hm
        rcases List.mem_cons.mp hm with rfl | hm
        · exact hnd'.1 ha
        · exact hs a (by simp [ha]) hm)]
    rfl

theorem newDims_ok (dimsA order : List Nat) (hperm : order.Perm (List.range dimsA.length))
    (hpos : ∀ d ∈ dimsA, 0 < d) : newDims dimsA order = .ok (ndOf dimsA order) := by
  unfold newDims
  rw [if_neg (by rw [perm_len hperm]; simp)]
  exact newDimsLoop_ok dimsA hpos order [] (fun o ho => perm_lt hperm ho)
    (hperm.symm.nodup List.nodup_range) (fun _ _ => by simp)

/-! ### the concrete structure -/

theorem structureOf_eq (dims targets : List Nat) :
    structureOf dims targets = (invOrder dims.length targets).map (fun p => dims.getD p 0) := by
  simp [structureOf, invOrder]

section
variable (dims targets : List Nat) (hpos : ∀ d ∈ dims, 0 < d) (hn : targets.Nodup)
  (hr : ∀ t ∈ targets, t < dims.length)
include hn hr

theorem structureOf_length : (structureOf dims targets).length = dims.length := by
  rw [structureOf_eq, List.length_map, invOrder_length _ _ hn hr]

theorem structureOf_getD (j : Nat) (hj : j < dims.length) :
    (structureOf dims targets).getD j 0 =
      dims.getD ((invOrder dims.length targets)[j]'(by rw [invOrder_length _ _ hn hr]; exact hj)) 0 := by
  have hl := invOrder_length _ _ hn hr
  simp [structureOf_eq, List.getD_eq_getElem?_getD, hl, hj]

theorem newOrder_perm_structure :
    (newOrder dims.length targets).Perm (List.range (structureOf dims targets).length) := by
  rw [structureOf_length dims targets hn hr]; exact newOrder_perm _ _ hn hr

/-- `new_structure = [structure[x] for x in new_order]` is the register's dimension vector -/
theorem ndOf_structure : ndOf (structureOf dims targets) (newOrder dims.length targets) = dims := by
  have hl := invOrder_length _ _ hn hr
  apply List.ext_getElem
  · simp [ndOf, newOrder_length]
  · intro p h1 h2
    have hp : p < dims.length := h2
    have hpl : p < (newOrder dims.length targets).length := by rw [newOrder_length]; exact hp
    have hg := newOrder_get' dims.length targets hn p hp
    rw [List.getElem?_eq_getElem hpl] at hg
    have hg' := Option.some.inj hg
    have hm : p ∈ invOrder dims.length targets := (mem_invOrder hr).mpr hp
    have hidx : (invOrder dims.length targets).idxOf p < dims.length := by
      have := List.idxOf_lt_length_of_mem hm
      omega
    simp only [ndOf, List.getElem_map, hg']
    rw [structureOf_getD dims targets hn hr _ hidx]
    simp [List.getElem_idxOf, List.getD_eq_getElem?_getD, hp]

omit hn in
include hpos in
theorem structureOf_pos : ∀ d ∈ structureOf dims targets, 0 < d := by
  intro d hd
  rw [structureOf_eq] at hd
  obtain ⟨p, hp, rfl⟩ := List.mem_map.mp hd
  have hpN := (mem_invOrder hr).mp hp
  simp only [List.getD_eq_getElem?_getD, List.getElem?_eq_getElem hpN, Option.getD_some]
  exact hpos _ (List.getElem_mem hpN)

include hpos in
/-- QuTiP accepts the permutation and the result has the register's `dims` -/
theorem flatDims_ok : flatDims dims targets = .ok dims := by
  unfold flatDims
  rw [newDims_ok _ _ (newOrder_perm_structure dims targets hn hr) (structureOf_pos dims targets hpos hr),
    ndOf_structure dims targets hn hr]

include hpos in
/-- the row of `tensor([oper] + id_list)` that `permute` places at row `X` -/
theorem flatPerm_idxOf (X : Nat) (hX : X < prodL dims) :
    (flatPerm dims targets).idxOf X =
      undigits (structureOf dims targets)
        ((invOrder dims.length targets).map (fun p => (digits dims X).getD p 0)) := by
  have h := indexAll_idxOf (newOrder_perm_structure dims targets hn hr)
    (structureOf_pos dims targets hpos hr) X (by rw [ndOf_structure dims targets hn hr]; exact hX)
  have e : flatPerm dims targets = indexAll (structureOf dims targets) (newOrder dims.length targets)
      (ndOf (structureOf dims targets) (newOrder dims.length targets)) := rfl
  rw [e, h, ndOf_structure dims targets hn hr, unpermute_eq _ _ hn hr]

include hpos in
/-- **Flat-index model = digit-tuple model.** -/
theorem flatEntry_eq_digits (X Y : Nat) (hX : X < prodL dims) (hY : Y < prodL dims) :
    flatEntry dims targets X Y =
      (expandEntry dims.length targets (digits dims X) (digits dims Y)).map
        (fun p => (undigits (targets.map (fun t => dims.getD t 0)) p.1,
                   undigits (targets.map (fun t => dims.getD t 0)) p.2)) := by
  have hvalid : ∀ Z, ValidDigits (restDims dims targets)
      ((restPos dims.length targets).map (fun p => (digits dims Z).getD p 0)) := by
    intro Z
    refine ⟨by simp [restDims], fun i h1 h2 => ?_⟩
    have hi : i < (restPos dims.length targets).length := by simpa using h1
    have hp := (mem_restPos.mp (List.getElem_mem hi)).1
    have a := digits_getD dims Z _ hp
    have b := digitAt_lt dims Z _ hp hpos
    simp only [restDims, List.getElem_map]
    omega
  unfold flatEntry flatEntryP permuteEntries
  rw [flatPerm_idxOf dims targets hpos hn hr X hX, flatPerm_idxOf dims targets hpos hn hr Y hY]
  have hS : structureOf dims targets = targets.map (fun t => dims.getD t 0) ++ restDims dims targets := rfl
  rw [hS]
  simp only [invOrder, List.map_append]
  rw [tensorIds_undigits operEntry _ _ _ (by simp) (by simp) _ _ _ (hvalid X) (hvalid Y)]
  unfold expandEntry
  simp only [unpermute_eq dims.length targets hn hr, invOrder, List.map_append]
  have hk : ∀ z : List Nat, (targets.map (fun p => z.getD p 0)).length = targets.length := by simp
  rw [List.drop_left' (hk _), List.drop_left' (hk _), List.take_left' (hk _), List.take_left' (hk _)]
  by_cases hc : (restPos dims.length targets).map (fun p => (digits dims X).getD p 0)
      = (restPos dims.length targets).map (fun p => (digits dims Y).getD p 0)
  · rw [if_pos hc, if_pos hc]; rfl
  · rw [if_neg hc, if_neg hc]; rfl

end

/-! ### the specification on flat indices -/

theorem all_congr' {α : Type} (l : List α) (f g : α → Bool) (h : ∀ x ∈ l, f x = g x) : l.all f = l.all g := by
  induction l with
  | nil => rfl
  | cons a as ih =>
    simp only [List.all_cons, h a (by simp), ih (fun x hx => h x (by simp [hx]))]

/-- the digit-tuple specification read at the digits of flat indices is the flat specification -/
theorem specEntry_digits (dims targets : List Nat) (hr : ∀ t ∈ targets, t < dims.length) (X Y : Nat) :
    (specEntry dims.length targets (digits dims X) (digits dims Y)).map
        (fun p => (undigits (targets.map (fun t => dims.getD t 0)) p.1,
                   undigits (targets.map (fun t => dims.getD t 0)) p.2))
      = specFlat dims targets X Y := by
  unfold specEntry specFlat
  have hall : (List.range dims.length).all
        (fun i => targets.contains i || (digits dims X).getD i 0 == (digits dims Y).getD i 0)
      = (List.range dims.length).all
        (fun i => targets.contains i || digitAt dims X i == digitAt dims Y i) := by
    apply all_congr'
    intro i hi
    have hi' := List.mem_range.mp hi
    rw [digits_getD dims X i hi', digits_getD dims Y i hi']
  have hmap : ∀ Z, targets.map (fun t => (digits dims Z).getD t 0) = targets.map (digitAt dims Z) := by
    intro Z
    apply List.map_congr_left
    intro t ht
    exact digits_getD dims Z t (hr t ht)
  simp only [hall, hmap]
  split <;> rfl

/-- the delta condition of `specFlat` as a proposition -/
theorem specFlat_cond_iff (dims targets : List Nat) (X Y : Nat) :
    ((List.range dims.length).all
        (fun i => targets.contains i || digitAt dims X i == digitAt dims Y i) = true)
      ↔ (∀ i, i < dims.length → i ∉ targets → digitAt dims X i = digitAt dims Y i) := by
  simp only [List.all_eq_true, List.mem_range, Bool.or_eq_true, List.contains_eq_mem, decide_eq_true_eq,
    beq_iff_eq]
  constructor
  · intro h i hi hni
    rcases h i hi with h' | h'
    · exact absurd h' hni
    · exact h'
  · intro h i hi
    by_cases hm : i ∈ targets
    · exact Or.inl hm
    · exact Or.inr (h i hi hm)

theorem undigits_targets_lt (dims targets : List Nat) (hpos : ∀ d ∈ dims, 0 < d)
    (hr : ∀ t ∈ targets, t < dims.length) (Z : Nat) :
    undigits (targets.map (fun t => dims.getD t 0)) (targets.map (digitAt dims Z))
      < prodL (targets.map (fun t => dims.getD t 0)) := by
  refine (digits_undigits _ _ (by simp) ?_).1
  intro i h1 h2
  have hi : i < targets.length := by simpa using h1
  have := digitAt_lt dims Z targets[i] (hr _ (List.getElem_mem hi)) hpos
  simpa using this

end QipVerif.EmbedFlat
