import QipVerif.Model.Embed
/-! Mixed-radix index arithmetic: digits/undigits are mutually inverse (used by the matrix bridge). -/
namespace QipVerif.Embed

theorem digits_length (dims : List Nat) (idx : Nat) : (digits dims idx).length = dims.length := by
  induction dims generalizing idx with
  | nil => rfl
  | cons d ds ih => simp [digits, ih]

theorem prodL_pos (dims : List Nat) (h : ∀ d ∈ dims, 0 < d) : 0 < prodL dims := by
  induction dims with
  | nil => simp [prodL]
  | cons d ds ih =>
    simp only [prodL]
    exact Nat.mul_pos (h d (by simp)) (ih (fun x hx => h x (by simp [hx])))

/-- R1 -/
theorem undigits_digits (dims : List Nat) (idx : Nat) (h : idx < prodL dims) :
    undigits dims (digits dims idx) = idx := by
  induction dims generalizing idx with
  | nil => simp [prodL] at h; simp [digits, undigits, h]
  | cons d ds ih =>
    simp only [digits, undigits]
    simp only [prodL] at h
    by_cases hw : prodL ds = 0
    · simp [hw] at h
    · have hwpos : 0 < prodL ds := Nat.pos_of_ne_zero hw
      have h1 : idx / prodL ds < d := by
        apply Nat.div_lt_of_lt_mul; rw [Nat.mul_comm]; exact h
      rw [Nat.mod_eq_of_lt h1, ih _ (Nat.mod_lt _ hwpos)]
      rw [Nat.mul_comm]; exact Nat.div_add_mod idx (prodL ds)

/-- R2 -/
theorem digits_undigits (dims v : List Nat) (hl : v.length = dims.length)
    (hv : ∀ i (h1 : i < v.length) (h2 : i < dims.length), v[i] < dims[i]) :
    undigits dims v < prodL dims ∧ digits dims (undigits dims v) = v := by
  induction dims generalizing v with
  | nil =>
    have : v = [] := List.length_eq_zero_iff.mp (by simpa using hl)
    subst this; simp [undigits, prodL, digits]
  | cons d ds ih =>
    match v, hl with
    | a :: vs, hl =>
      have hl' : vs.length = ds.length := by simpa using hl
      have ha : a < d := hv 0 (by simp) (by simp)
      obtain ⟨h1, h2⟩ := ih vs hl' (fun i h1 h2 => by
        have := hv (i + 1) (by simp; omega) (by simp; omega)
        simpa using this)
      simp only [undigits, prodL, digits]
      have hwpos : 0 < prodL ds := by omega
      refine ⟨?_, ?_⟩
      · calc a * prodL ds + undigits ds vs < a * prodL ds + prodL ds := by omega
          _ = (a + 1) * prodL ds := by rw [Nat.add_mul]; omega
          _ ≤ d * prodL ds := Nat.mul_le_mul_right _ ha
      · have e1 : (a * prodL ds + undigits ds vs) / prodL ds = a := by
          rw [Nat.add_comm, Nat.add_mul_div_right _ _ hwpos, Nat.div_eq_of_lt h1]; omega
        have e2 : (a * prodL ds + undigits ds vs) % prodL ds = undigits ds vs := by
          rw [Nat.add_comm, Nat.add_mul_mod_self_right, Nat.mod_eq_of_lt h1]
        rw [e1, e2, Nat.mod_eq_of_lt ha, h2]

theorem prodL_replicate (k d : Nat) : prodL (List.replicate k d) = d ^ k := by
  induction k with
  | zero => rfl
  | succ k ih => simp [List.replicate_succ, prodL, ih, Nat.pow_succ, Nat.mul_comm]

end QipVerif.Embed
