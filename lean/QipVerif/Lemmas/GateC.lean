import QipVerif.Gen.GateDefs
import Mathlib.Tactic.Ring
import Mathlib.Tactic.FinCases
import Mathlib.Tactic.LinearCombination
open QipVerif.Gen Complex

namespace QipVerif.GateC

/-- r = √2/2 as a complex number -/
noncomputable def r2 : ℂ := ((Real.sqrt 2 : ℝ) : ℂ) / 2
theorem r2_sq : r2 * r2 = 1 / 2 := by
  unfold r2
  have : ((Real.sqrt 2 : ℝ) : ℂ) * ((Real.sqrt 2 : ℝ) : ℂ) = 2 := by
    rw [← Complex.ofReal_mul, Real.mul_self_sqrt (by norm_num)]; norm_num
  linear_combination (1/4 : ℂ) * this

theorem r2_pow2 : r2 ^ 2 = 1 / 2 := by rw [pow_two]; exact r2_sq
theorem r2_pow3 : r2 ^ 3 = r2 / 2 := by rw [pow_succ, r2_pow2]; ring
theorem r2_pow4 : r2 ^ 4 = 1 / 4 := by rw [show r2 ^ 4 = (r2 ^ 2) ^ 2 by ring, r2_pow2]; norm_num
theorem I_pow3 : Complex.I ^ 3 = -Complex.I := by rw [pow_succ, Complex.I_sq]; ring
theorem I_pow4 : Complex.I ^ 4 = 1 := by rw [show Complex.I ^ 4 = (Complex.I ^ 2) ^ 2 by ring, Complex.I_sq]; norm_num

/-- normalise a polynomial identity modulo I² = −1 and r2² = 1/2 -/
macro "cring" : tactic => `(tactic| (
  ring_nf
  try simp only [Complex.I_sq, I_pow3, I_pow4, r2_pow2, r2_pow3, r2_pow4]
  try ring_nf))

theorem cos_pi4 : Complex.cos ((Real.pi : ℂ) / 4) = r2 := by
  have := Real.cos_pi_div_four
  rw [show ((Real.pi : ℂ) / 4) = ((Real.pi / 4 : ℝ) : ℂ) by push_cast; ring, ← Complex.ofReal_cos, this]
  unfold r2; push_cast; ring
theorem sin_pi4 : Complex.sin ((Real.pi : ℂ) / 4) = r2 := by
  have := Real.sin_pi_div_four
  rw [show ((Real.pi : ℂ) / 4) = ((Real.pi / 4 : ℝ) : ℂ) by push_cast; ring, ← Complex.ofReal_sin, this]
  unfold r2; push_cast; ring

/-- abbreviations: half-angle cosine and sine as complex numbers -/
noncomputable def hc (θ : ℝ) : ℂ := Complex.cos ((θ : ℂ) / 2)
noncomputable def hs (θ : ℝ) : ℂ := Complex.sin ((θ : ℂ) / 2)
theorem hc_sq_add_hs_sq (θ : ℝ) : hc θ * hc θ + hs θ * hs θ = 1 := by
  have := Complex.cos_sq_add_sin_sq ((θ : ℂ) / 2)
  unfold hc hs; linear_combination this

theorem rx_eq (θ : ℝ) : G.rx_ θ = !![hc θ, -I * hs θ; -I * hs θ, hc θ] := rfl
theorem ry_eq (θ : ℝ) : G.ry_ θ = !![hc θ, -hs θ; hs θ, hc θ] := rfl
theorem rz_eq (θ : ℝ) : G.rz_ θ = !![hc θ - I * hs θ, 0; 0, hc θ + I * hs θ] := by
  have e1 : Complex.exp (-Complex.I * (θ : ℂ) / 2) = hc θ - I * hs θ := by
    rw [show -Complex.I * (θ : ℂ) / 2 = (-((θ : ℂ) / 2)) * Complex.I by ring, Complex.exp_mul_I]
    simp [hc, hs, Complex.cos_neg, Complex.sin_neg]; ring
  have e2 : Complex.exp (Complex.I * (θ : ℂ) / 2) = hc θ + I * hs θ := by
    rw [show Complex.I * (θ : ℂ) / 2 = (((θ : ℂ) / 2)) * Complex.I by ring, Complex.exp_mul_I]
    simp [hc, hs]; ring
  unfold G.rz_
  rw [e1, e2]
theorem hc_half_pi : hc (Real.pi / 2) = r2 := by
  unfold hc; rw [show (((Real.pi / 2 : ℝ) : ℂ) / 2) = (Real.pi : ℂ) / 4 by push_cast; ring, cos_pi4]
theorem hs_half_pi : hs (Real.pi / 2) = r2 := by
  unfold hs; rw [show (((Real.pi / 2 : ℝ) : ℂ) / 2) = (Real.pi : ℂ) / 4 by push_cast; ring, sin_pi4]
theorem hc_neg (θ : ℝ) : hc (-θ) = hc θ := by
  unfold hc; rw [show (((-θ : ℝ) : ℂ) / 2) = -((θ : ℂ) / 2) by push_cast; ring, Complex.cos_neg]
theorem hs_neg (θ : ℝ) : hs (-θ) = -hs θ := by
  unfold hs; rw [show (((-θ : ℝ) : ℂ) / 2) = -((θ : ℂ) / 2) by push_cast; ring, Complex.sin_neg]

/-- elimination of RX: circuit [RY(−π/2), RZ(θ), RY(π/2)] has the unitary of RX(θ) -/
theorem elim_RX (θ : ℝ) : G.ry_ (Real.pi / 2) * G.rz_ θ * G.ry_ (-(Real.pi / 2)) = G.rx_ θ := by
  rw [ry_eq, ry_eq, rz_eq, rx_eq, hc_neg, hs_neg, hc_half_pi, hs_half_pi]
  have h := r2_sq
  ext i j
  fin_cases i <;> fin_cases j <;> simp [Matrix.mul_apply, Fin.sum_univ_two]
  · linear_combination (2 * hc θ) * h
  · linear_combination (-2 * I * hs θ) * h
  · linear_combination (-2 * I * hs θ) * h
  · linear_combination (2 * hc θ) * h

theorem hc_pi : hc Real.pi = 0 := by
  unfold hc; rw [show ((Real.pi : ℂ) / 2) = ((Real.pi / 2 : ℝ) : ℂ) by push_cast; ring, ← Complex.ofReal_cos, Real.cos_pi_div_two]; simp
theorem hs_pi : hs Real.pi = 1 := by
  unfold hs; rw [show ((Real.pi : ℂ) / 2) = ((Real.pi / 2 : ℝ) : ℂ) by push_cast; ring, ← Complex.ofReal_sin, Real.sin_pi_div_two]; simp

/-- the scalar of a GLOBALPHASE(θ) marker (`globalphase`: e^{iθ}·1) -/
noncomputable def phase (θ : ℝ) : ℂ := Complex.exp (Complex.I * (θ : ℂ))
theorem phase_half (θ : ℝ) : phase (θ / 2) = hc θ + I * hs θ := by
  unfold phase hc hs
  rw [show Complex.I * ((θ / 2 : ℝ) : ℂ) = ((θ : ℂ) / 2) * Complex.I by push_cast; ring, Complex.exp_mul_I]; ring
theorem phase_eq_sq (θ : ℝ) : phase θ = (hc θ + I * hs θ) * (hc θ + I * hs θ) := by
  rw [← phase_half]; unfold phase; rw [← Complex.exp_add]; congr 1; push_cast; ring
theorem phase_half_pi : phase (Real.pi / 2) = I := by
  rw [phase_half, hc_pi, hs_pi]; ring

/-- elimination of RY: [RZ(−π/2), RX(θ), RZ(π/2)] = RY(θ) -/
theorem elim_RY (θ : ℝ) : G.rz_ (Real.pi / 2) * G.rx_ θ * G.rz_ (-(Real.pi / 2)) = G.ry_ θ := by
  rw [rz_eq, rz_eq, rx_eq, ry_eq, hc_neg, hs_neg, hc_half_pi, hs_half_pi]
  have h := r2_sq
  ext i j
  fin_cases i <;> fin_cases j <;> simp [Matrix.mul_apply, Fin.sum_univ_two]
  all_goals cring

/-- elimination of RZ: [RX(−π/2), RY(θ), RX(π/2)] = RZ(θ) -/
theorem elim_RZ (θ : ℝ) : G.rx_ (Real.pi / 2) * G.ry_ θ * G.rx_ (-(Real.pi / 2)) = G.rz_ θ := by
  rw [rx_eq, rx_eq, ry_eq, rz_eq, hc_neg, hs_neg, hc_half_pi, hs_half_pi]
  have h := r2_sq
  ext i j
  fin_cases i <;> fin_cases j <;> simp [Matrix.mul_apply, Fin.sum_univ_two]
  all_goals cring

/-- `_gate_PHASEGATE`: [GLOBALPHASE(θ/2), RZ(θ)] = PHASEGATE(θ) -/
theorem rule_PHASEGATE (θ : ℝ) : phase (θ / 2) • G.rz_ θ = G.phasegate_ θ := by
  have h := hc_sq_add_hs_sq θ
  have h2 : Complex.exp (Complex.I * (θ : ℂ)) = (hc θ + I * hs θ) * (hc θ + I * hs θ) := phase_eq_sq θ
  rw [rz_eq, phase_half]
  unfold G.phasegate_
  rw [h2]
  ext i j
  fin_cases i <;> fin_cases j <;> simp
  · have hI : I * I = -1 := Complex.I_mul_I
    linear_combination h - (hs θ * hs θ) * hI

/-- Pauli substitution of `resolve_gates`: X = e^{iπ/2}·RX(π) (likewise Y, Z) -/
theorem pauli_X : phase (Real.pi / 2) • G.rx_ Real.pi = G.x_gate_ := by
  rw [phase_half_pi, rx_eq, hc_pi, hs_pi]
  have hI : I * I = -1 := Complex.I_mul_I
  ext i j
  fin_cases i <;> fin_cases j <;> simp [G.x_gate_]
theorem pauli_Y : phase (Real.pi / 2) • G.ry_ Real.pi = G.y_gate_ := by
  rw [phase_half_pi, ry_eq, hc_pi, hs_pi]
  ext i j
  fin_cases i <;> fin_cases j <;> simp [G.y_gate_]
theorem pauli_Z : phase (Real.pi / 2) • G.rz_ Real.pi = G.z_gate_ := by
  rw [phase_half_pi, rz_eq, hc_pi, hs_pi]
  ext i j
  fin_cases i <;> fin_cases j <;> simp [G.z_gate_]
end QipVerif.GateC
