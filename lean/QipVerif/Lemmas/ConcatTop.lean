import QipVerif.Lemmas.ConcatDiscrete
/-! One compiled channel (loop + final padding) and the whole `_concatenate_pulses` (C12). -/
namespace QipVerif.Concat
open QipVerif.Grid (stepAt stepAt_lt_head stepAt_ge_all mem_le_last)

/-- the padding points appended to a channel that ends at `l` -/
def padPts (τ : Rat) (pm : Mode) (final ms l : Rat) : List Rat :=
  if final - l > ms * τ then idlePure pm final l ms else []

theorem padPts_pairwise (τ : Rat) (hτ : 0 < τ) (pm : Mode) (final ms l : Rat) (hms : 0 < ms) :
    (l :: padPts τ pm final ms l).Pairwise (· < ·) := by
  unfold padPts
  have : 0 < ms * τ := Rat.mul_pos hms hτ
  by_cases h : final - l > ms * τ
  · rw [if_pos h]
    obtain ⟨p, hp, hpw, _⟩ := idle_ok pm final l ms hms (by grind)
    simpa [idlePure, hp] using hpw
  · rw [if_neg h]; simp

theorem padChan_eq (τ : Rat) (hτ : 0 < τ) (pm : Mode) (final ms : Rat) (hms : 0 < ms) (ts cs : List Rat) (l : Rat)
    (hl : l ≤ final) :
    padChan τ pm final ms (ts, cs, l) =
      .ok (ts ++ padPts τ pm final ms l, cs ++ (padPts τ pm final ms l).map (fun _ => (0 : Rat))) := by
  unfold padChan padPts
  have : 0 < ms * τ := Rat.mul_pos hms hτ
  simp only
  rw [absR_nonneg_eq (by grind)]
  by_cases h : final - l > ms * τ
  · rw [if_pos h, if_pos h]
    obtain ⟨p, hp, _, _⟩ := idle_ok pm final l ms hms (by grind)
    simp [idlePure, hp]
  · rw [if_neg h, if_neg h]; simp

/-- **One channel, closed form.** Under `Valid` (which contains `Sep`) the compiled channel is: the
first-pulse chunk, the tolerance-free lists, the padding. -/
theorem compiledChannel_eq (byTol : Bool) (τ : Rat) (hτ : 0 < τ) (pm : Mode) (final ms : Rat) (hms : 0 < ms)
    (instrs : List (Rat × Wave)) (hv : Valid byTol τ true 0 instrs) (hfin : endOf 0 instrs ≤ final) :
    compiledChannel byTol τ pm final ms instrs =
      .ok ((headChunk true instrs).1 ++ (pureLoop 0 instrs).1 ++ padPts τ pm final ms (endOf 0 instrs),
           (headChunk true instrs).2 ++ (pureLoop 0 instrs).2 ++
             (padPts τ pm final ms (endOf 0 instrs)).map (fun _ => (0 : Rat))) := by
  unfold compiledChannel
  rw [chanLoop_refines byTol τ hτ instrs true 0 Rat.le_refl (fun _ => rfl) hv]
  simp only
  exact padChan_eq τ hτ pm final ms hms _ _ _ hfin

theorem headChunk_fst (w : Wave) (s : Rat) (rest : List (Rat × Wave)) : (headChunk true ((s, w) :: rest)).1 = [0] := rfl

/-- grid of a compiled channel: starts at 0, strictly increasing -/
theorem grid_ok (τ : Rat) (hτ : 0 < τ) (pm : Mode) (final ms : Rat) (hms : 0 < ms)
    (s : Rat) (w : Wave) (rest : List (Rat × Wave)) (hc : Chain 0 ((s, w) :: rest)) :
    ((0 : Rat) :: ((pureLoop 0 ((s, w) :: rest)).1 ++ padPts τ pm final ms (endOf 0 ((s, w) :: rest)))).Pairwise (· < ·) := by
  obtain ⟨h1, _, h3, _⟩ := pureLoop_struct _ 0 hc
  exact pairwise_join h1 h3 (padPts_pairwise τ hτ pm final ms _ hms)

/-- zero padding does not change the step function -/
theorem stepAt_pad (a : Rat) (A B cA : List Rat) (t : Rat) (hlen : cA.length = A.length)
    (hp : (a :: (A ++ B)).Pairwise (· < ·)) :
    stepAt (a :: (A ++ B)) (cA ++ B.map (fun _ => (0 : Rat))) t = stepAt (a :: A) cA t := by
  have hne : (a :: A) ≠ [] := by simp
  have hm := List.getLast?_eq_some_getLast hne
  rw [stepAt_split a A B cA _ _ t hlen hp hm]
  by_cases h : t < (a :: A).getLast hne
  · rw [if_pos h]
  · rw [if_neg h, stepAt_zeros _ _ _ (by simp)]
    symm
    apply stepAt_ge_all
    intro p hpm
    have hpa : (a :: A).Pairwise (· < ·) := List.Pairwise.sublist (by simp) hp
    have := mem_le_last hpa hm p hpm
    grind

/-! ### the whole `_concatenate_pulses` -/

theorem mapMExcept_ok' {α β ε : Type} (f : α → Except ε β) (g : α → β) (l : List α)
    (h : ∀ a ∈ l, f a = .ok (g a)) : mapMExcept f l = .ok (l.map g) := by
  induction l with
  | nil => rfl
  | cons a l ih =>
    simp only [mapMExcept, h a (by simp), ih (fun b hb => h b (by simp [hb])), List.map_cons]

theorem maxList_spec (l : List Rat) (hne : l ≠ []) : ∃ m, maxList l = some m ∧ ∀ x ∈ l, x ≤ m := by
  induction l with
  | nil => exact absurd rfl hne
  | cons a l ih =>
    cases l with
    | nil => exact ⟨a, rfl, by simp⟩
    | cons b l =>
      obtain ⟨m, hm, hle⟩ := ih (by simp)
      refine ⟨if a < m then m else a, by simp only [maxList] at hm ⊢; rw [hm], ?_⟩
      intro x hx
      rcases List.mem_cons.mp hx with rfl | hx
      · split <;> grind
      · have := hle x hx; split <;> grind

theorem minStep_spec (ps : List Proc) (hne : ps ≠ []) (hpos : ∀ p ∈ ps, 0 < p.step) :
    ∃ m, minStep ps = some m ∧ 0 < m := by
  induction ps with
  | nil => exact absurd rfl hne
  | cons p ps ih =>
    cases ps with
    | nil => exact ⟨p.step, rfl, hpos p (by simp)⟩
    | cons q ps =>
      obtain ⟨m, hm, hmp⟩ := ih (by simp) (fun x hx => hpos x (by simp [hx]))
      refine ⟨if m < p.step then m else p.step, by simp only [minStep] at hm ⊢; rw [hm], ?_⟩
      have := hpos p (by simp)
      split <;> assumption

theorem chain_all_ok {instrs : List (Rat × Wave)} : ∀ {last : Rat}, Chain last instrs → ∀ sw ∈ instrs, WaveOK sw.2 := by
  induction instrs with
  | nil => intro _ _ sw h; simp at h
  | cons a rest ih =>
    intro last hc sw h
    obtain ⟨s, w⟩ := a
    rcases List.mem_cons.mp h with rfl | h
    · exact hc.1
    · exact ih hc.2.2 sw h

/-- **`_concatenate_pulses` is, channel by channel, `compiledChannel`** with one common final time that is at
least every channel's end, one common positive `min_step_size` and one (stale) padding mode. -/
theorem concatenate_channels (byTol : Bool) (τ : Rat) (hτ : 0 < τ) (chans : List (List (Rat × Wave)))
    (hne : chans ≠ []) (hch : ∀ ch ∈ chans, ch ≠ [] ∧ Valid byTol τ true 0 ch) :
    ∃ (pm : Mode) (final ms : Rat) (outs : List (List Rat × List Rat)),
      0 < ms ∧ (∀ ch ∈ chans, endOf 0 ch ≤ final) ∧
      concatenate byTol τ chans = .ok outs ∧
      mapMExcept (compiledChannel byTol τ pm final ms) chans = .ok outs := by
  let g : List (Rat × Wave) → List Rat × List Rat × Rat := fun ch =>
    ((headChunk true ch).1 ++ (pureLoop 0 ch).1, (headChunk true ch).2 ++ (pureLoop 0 ch).2, endOf 0 ch)
  have hloop : mapMExcept (chanLoop byTol τ true 0) chans = .ok (chans.map g) :=
    mapMExcept_ok' _ g chans (fun ch hc =>
      chanLoop_refines byTol τ hτ ch true 0 Rat.le_refl (fun _ => rfl) (hch ch hc).2)
  have hany : chans.any (·.isEmpty) = false := by
    rw [List.any_eq_false]; intro ch hc
    have := (hch ch hc).1
    cases ch <;> simp_all
  obtain ⟨final, hfinal, hfle⟩ := maxList_spec ((chans.map g).map (·.2.2)) (by simpa using hne)
  -- procs
  have hprocs_ne : procs chans ≠ [] := by
    obtain ⟨ch, rest⟩ : ∃ ch rest, chans = ch :: rest := by
      cases chans with
      | nil => exact absurd rfl hne
      | cons a b => exact ⟨a, b, rfl⟩
    obtain ⟨rest, rfl⟩ := rest
    obtain ⟨hcne, hcv⟩ := hch ch (by simp)
    cases ch with
    | nil => exact absurd rfl hcne
    | cons sw r =>
      obtain ⟨p, hpp, _⟩ := procPulse_ok sw.2 (Valid.chain hcv).1
      simp [procs, hpp]
  have hprocs_pos : ∀ p ∈ procs chans, 0 < p.step := by
    intro p hp
    simp only [procs, List.mem_filterMap, List.mem_flatten] at hp
    obtain ⟨sw, ⟨ch, hch', hsw⟩, hp⟩ := hp
    have hw := chain_all_ok (Valid.chain (hch ch hch').2) sw hsw
    obtain ⟨p', hpp, hpo⟩ := procPulse_ok sw.2 hw
    rw [hpp] at hp
    cases hp
    exact hpo.step_pos
  obtain ⟨ms, hms, hmspos⟩ := minStep_spec (procs chans) hprocs_ne hprocs_pos
  obtain ⟨lastp, hlastp⟩ : ∃ lp, (procs chans).getLast? = some lp :=
    ⟨_, List.getLast?_eq_some_getLast hprocs_ne⟩
  have hends : ∀ ch ∈ chans, endOf 0 ch ≤ final := by
    intro ch hc
    apply hfle
    simp only [List.map_map, List.mem_map, Function.comp]
    exact ⟨ch, hc, rfl⟩
  let out : List (Rat × Wave) → List Rat × List Rat := fun ch =>
    ((headChunk true ch).1 ++ (pureLoop 0 ch).1 ++ padPts τ lastp.mode final ms (endOf 0 ch),
     (headChunk true ch).2 ++ (pureLoop 0 ch).2 ++ (padPts τ lastp.mode final ms (endOf 0 ch)).map (fun _ => (0 : Rat)))
  refine ⟨lastp.mode, final, ms, chans.map out, hmspos, hends, ?_, ?_⟩
  · unfold concatenate
    rw [hloop]
    simp only [hany, Bool.false_eq_true, if_false, hfinal, hms, hlastp]
    have := mapMExcept_ok' (padChan τ lastp.mode final ms) (fun r : List Rat × List Rat × Rat =>
        (r.1 ++ padPts τ lastp.mode final ms r.2.2, r.2.1 ++ (padPts τ lastp.mode final ms r.2.2).map (fun _ => (0 : Rat))))
      (chans.map g) (by
        intro r hr
        obtain ⟨ch, hc, rfl⟩ := List.mem_map.mp hr
        exact padChan_eq τ hτ lastp.mode final ms hmspos _ _ _ (hends ch hc))
    rw [this, List.map_map]
    rfl
  · exact mapMExcept_ok' _ out chans (fun ch hc =>
      compiledChannel_eq byTol τ hτ lastp.mode final ms hmspos ch (hch ch hc).2 (hends ch hc))

theorem concatenateZ_channels (byTol : Bool) (τ : Rat) (hτ : 0 < τ) (chans : List (List (Rat × Wave)))
    (hne : chans ≠ []) (hch : ∀ ch ∈ chans, ch ≠ [] ∧ Valid byTol τ true 0 ch) :
    ∃ (_pm : Mode) (final ms : Rat) (outs : List (List Rat × List Rat)),
      0 < ms ∧ (∀ ch ∈ chans, endOf 0 ch ≤ final) ∧
      concatenate byTol τ chans = .ok outs ∧ concatenateZ byTol τ chans = .ok (outs.map some) := by
  let g : List (Rat × Wave) → List Rat × List Rat × Rat := fun ch =>
    ((headChunk true ch).1 ++ (pureLoop 0 ch).1, (headChunk true ch).2 ++ (pureLoop 0 ch).2, endOf 0 ch)
  have hloop : mapMExcept (chanLoop byTol τ true 0) chans = .ok (chans.map g) :=
    mapMExcept_ok' _ g chans (fun ch hc =>
      chanLoop_refines byTol τ hτ ch true 0 Rat.le_refl (fun _ => rfl) (hch ch hc).2)
  have hany : chans.any (·.isEmpty) = false := by
    rw [List.any_eq_false]; intro ch hc
    have := (hch ch hc).1
    cases ch <;> simp_all
  obtain ⟨final, hfinal, hfle⟩ := maxList_spec ((chans.map g).map (·.2.2)) (by simpa using hne)
  -- procs
  have hprocs_ne : procs chans ≠ [] := by
    obtain ⟨ch, rest⟩ : ∃ ch rest, chans = ch :: rest := by
      cases chans with
      | nil => exact absurd rfl hne
      | cons a b => exact ⟨a, b, rfl⟩
    obtain ⟨rest, rfl⟩ := rest
    obtain ⟨hcne, hcv⟩ := hch ch (by simp)
    cases ch with
    | nil => exact absurd rfl hcne
    | cons sw r =>
      obtain ⟨p, hpp, _⟩ := procPulse_ok sw.2 (Valid.chain hcv).1
      simp [procs, hpp]
  have hprocs_pos : ∀ p ∈ procs chans, 0 < p.step := by
    intro p hp
    simp only [procs, List.mem_filterMap, List.mem_flatten] at hp
    obtain ⟨sw, ⟨ch, hch', hsw⟩, hp⟩ := hp
    have hw := chain_all_ok (Valid.chain (hch ch hch').2) sw hsw
    obtain ⟨p', hpp, hpo⟩ := procPulse_ok sw.2 hw
    rw [hpp] at hp
    cases hp
    exact hpo.step_pos
  obtain ⟨ms, hms, hmspos⟩ := minStep_spec (procs chans) hprocs_ne hprocs_pos
  obtain ⟨lastp, hlastp⟩ : ∃ lp, (procs chans).getLast? = some lp :=
    ⟨_, List.getLast?_eq_some_getLast hprocs_ne⟩
  have hends : ∀ ch ∈ chans, endOf 0 ch ≤ final := by
    intro ch hc
    apply hfle
    simp only [List.map_map, List.mem_map, Function.comp]
    exact ⟨ch, hc, rfl⟩
  let out : List (Rat × Wave) → List Rat × List Rat := fun ch =>
    ((headChunk true ch).1 ++ (pureLoop 0 ch).1 ++ padPts τ lastp.mode final ms (endOf 0 ch),
     (headChunk true ch).2 ++ (pureLoop 0 ch).2 ++ (padPts τ lastp.mode final ms (endOf 0 ch)).map (fun _ => (0 : Rat)))
  have hnonempty : ∀ r ∈ chans.map g, r.1.isEmpty = false := by
    intro r hr
    obtain ⟨ch, hc, rfl⟩ := List.mem_map.mp hr
    have := (hch ch hc).1
    cases ch with
    | nil => exact absurd rfl this
    | cons sw rest => obtain ⟨s', w'⟩ := sw; simp [g, headChunk, zeroChunk]
  have hfilter : (chans.map g).filter (fun r => !r.1.isEmpty) = chans.map g := by
    rw [List.filter_eq_self]; intro r hr; simp [hnonempty r hr]
  refine ⟨lastp.mode, final, ms, chans.map out, hmspos, hends, ?_, ?_⟩
  · unfold concatenate
    rw [hloop]
    simp only [hany, Bool.false_eq_true, if_false, hfinal, hms, hlastp]
    have := mapMExcept_ok' (padChan τ lastp.mode final ms) (fun r : List Rat × List Rat × Rat =>
        (r.1 ++ padPts τ lastp.mode final ms r.2.2, r.2.1 ++ (padPts τ lastp.mode final ms r.2.2).map (fun _ => (0 : Rat))))
      (chans.map g) (by
        intro r hr
        obtain ⟨ch, hc, rfl⟩ := List.mem_map.mp hr
        exact padChan_eq τ hτ lastp.mode final ms hmspos _ _ _ (hends ch hc))
    rw [this, List.map_map]
    rfl
  · unfold concatenateZ
    rw [hloop]
    simp only [hfilter, hfinal, Option.getD_some, hms, hlastp]
    have := mapMExcept_ok' (padChanO τ lastp.mode final ms)
      (fun r : List Rat × List Rat × Rat =>
        some (r.1 ++ padPts τ lastp.mode final ms r.2.2, r.2.1 ++ (padPts τ lastp.mode final ms r.2.2).map (fun _ => (0 : Rat))))
      (chans.map g) (by
        intro r hr
        obtain ⟨ch, hc, rfl⟩ := List.mem_map.mp hr
        have h1 := hnonempty (g ch) hr
        unfold padChanO
        simp only [h1, Bool.false_eq_true, if_false]
        rw [padChan_eq τ hτ lastp.mode final ms hmspos _ _ _ (hends ch hc)])
    rw [this, List.map_map, List.map_map]
    rfl

theorem concatenateZ_nil (byTol : Bool) (τ : Rat) : concatenateZ byTol τ [] = .ok [] := by
  simp [concatenateZ, mapMExcept, procs, minStep]

theorem concatenate_nil (byTol : Bool) (τ : Rat) : concatenate byTol τ [] = .error .empty := by
  simp [concatenate, mapMExcept, maxList]

end QipVerif.Concat
