import QipVerif.Model.DecomposeF
/-!
# C03 — the field model refines the model of `resolve_gates` (for arbitrary tables)

`FGate.g` forgets label, classical condition and origin.  Stage by stage, the field model
(`Model/DecomposeF.lean`) computes what `Model/Decompose.lean` computes: `resolveF_erase`.
Hence every theorem about `Decomp.resolve` (output alphabet, refusal, same unitary) is a theorem
about the gate objects `resolveF` describes.
-/
namespace QipVerif.Decomp
open QipVerif

/-- forget the extra fields -/
def erase (fs : List FGate) : List Gate := fs.map (·.g)

@[simp] theorem erase_nil : erase [] = [] := rfl
@[simp] theorem erase_cons (f : FGate) (fs : List FGate) : erase (f :: fs) = f.g :: erase fs := rfl
@[simp] theorem erase_append (a b : List FGate) : erase (a ++ b) = erase a ++ erase b := by
  simp [erase]

theorem zipIdx_map_fst {α : Type} (l : List α) (k : Nat) : (l.zipIdx k).map (·.1) = l := by
  induction l generalizing k with
  | nil => rfl
  | cons a as ih => simp [List.zipIdx_cons, ih]

theorem withLabs_erase (kc : Bool) (f : FGate) (labs : List TLab) (gs : List Gate) :
    erase (withLabs kc f labs gs) = gs := by
  simp only [erase, withLabs, List.map_map]
  have : ((fun x : FGate => x.g) ∘ fun p : Gate × Nat => built kc f p.1 ((labs.getD p.2 .none).inst f.lab))
      = fun p => p.1 := rfl
  rw [this]
  exact zipIdx_map_fst gs 0

theorem instBodyF_erase (kc : Bool) (f : FGate) (body : List TGate) (labs : List TLab) :
    (instBodyF kc f body labs).map erase = instBody f.g body := by
  unfold instBodyF
  cases h : instBody f.g body with
  | none => rfl
  | some gs => simp [withLabs_erase]

theorem pauliSubF_erase (kc : Bool) (f : FGate) :
    erase (pauliSubF kc f).1 = (pauliSub f.g).1 ∧ (pauliSubF kc f).2.g = (pauliSub f.g).2 := by
  unfold pauliSubF
  split
  · refine ⟨?_, rfl⟩
    simp [erase, built, List.map_map, Function.comp_def]
  · rename_i h
    have h' : ¬ f.g.name = .X ∧ ¬ f.g.name = .Y ∧ ¬ f.g.name = .Z := by
      refine ⟨fun e => h (Or.inl e), fun e => h (Or.inr (Or.inl e)), fun e => h (Or.inr (Or.inr e))⟩
    simp [pauliSub, h'.1, h'.2.1, h'.2.2]

/-- `Except.map` on lists of field gates -/
def eraseE (r : Except Err (List FGate)) : Except Err (List Gate) :=
  match r with
  | .ok out => .ok (erase out)
  | .error e => .error e

theorem dispatchF_erase (T : Tables) (L : LabTables) (kc : Bool) (b2 : List GName) (inB : GName → Bool)
    (f : FGate) : eraseE (dispatchF T L kc b2 inB f) = dispatch T b2 inB f.g := by
  unfold dispatchF dispatch
  split
  · rfl
  · split
    · rfl
    · cases hr : T.gateRule f.g.name with
      | ignored => rfl
      | notImplemented => rfl
      | missing => simp only; split <;> rfl
      | templ body =>
        simp only
        have he := instBodyF_erase kc f body (L.gateLab f.g.name)
        cases h1 : instBodyF kc f body (L.gateLab f.g.name) with
        | none => rw [h1] at he; simp only [Option.map_none] at he; rw [← he]; rfl
        | some gs => rw [h1] at he; simp only [Option.map_some] at he; rw [← he]; rfl

/-- erasure of a pair of lists -/
def eraseP (r : Except Err (List FGate × List FGate)) : Except Err (List Gate × List Gate) :=
  match r with
  | .ok (p, q) => .ok (erase p, erase q)
  | .error e => .error e

theorem resolveOneF_erase (T : Tables) (L : LabTables) (kc : Bool) (b2 : List GName) (inB : GName → Bool)
    (f : FGate) : eraseP (resolveOneF T L kc b2 inB f) = resolveOne T b2 inB f.g := by
  unfold resolveOneF resolveOne
  have hd := dispatchF_erase T L kc b2 inB (pauliSubF kc f).2
  rw [(pauliSubF_erase kc f).2] at hd
  cases h : dispatchF T L kc b2 inB (pauliSubF kc f).2 with
  | error e => rw [h] at hd; simp only [eraseE] at hd; rw [← hd]; rfl
  | ok out =>
    rw [h] at hd; simp only [eraseE] at hd; rw [← hd]
    simp only [eraseP, (pauliSubF_erase kc f).1]

theorem resolveAllF_erase (T : Tables) (L : LabTables) (kc : Bool) (b2 : List GName) (inB : GName → Bool)
    (fs : List FGate) : eraseP (resolveAllF T L kc b2 inB fs) = resolveAll T b2 inB (erase fs) := by
  induction fs with
  | nil => rfl
  | cons f fs ih =>
    simp only [erase_cons, resolveAllF, resolveAll]
    have h1 := resolveOneF_erase T L kc b2 inB f
    cases ho : resolveOneF T L kc b2 inB f with
    | error e => rw [ho] at h1; simp only [eraseP] at h1; rw [← h1]; rfl
    | ok pr =>
      obtain ⟨p, r⟩ := pr
      rw [ho] at h1; simp only [eraseP] at h1; rw [← h1]
      simp only
      cases ha : resolveAllF T L kc b2 inB fs with
      | error e => rw [ha] at ih; simp only [eraseP] at ih; rw [← ih]; rfl
      | ok prs =>
        obtain ⟨ps, rs⟩ := prs
        rw [ha] at ih; simp only [eraseP] at ih; rw [← ih]
        simp [eraseP]

theorem basisPassF_erase (T : Tables) (L : LabTables) (kc : Bool) (y : GName) (fs : List FGate) :
    eraseE (basisPassF T L kc y fs) = basisPass T y (erase fs) := by
  induction fs with
  | nil => rfl
  | cons f fs ih =>
    simp only [erase_cons, basisPassF, basisPass]
    cases ha : basisPassF T L kc y fs with
    | error e => rw [ha] at ih; simp only [eraseE] at ih; rw [← ih]; rfl
    | ok rest =>
      rw [ha] at ih; simp only [eraseE] at ih; rw [← ih]
      simp only
      cases hb : T.basisRule y f.g.name with
      | none => rfl
      | some body =>
        simp only
        have he := instBodyF_erase kc f body (L.basisLab y f.g.name)
        cases h1 : instBodyF kc f body (L.basisLab y f.g.name) with
        | none => rw [h1] at he; simp only [Option.map_none] at he; rw [← he]; rfl
        | some gs => rw [h1] at he; simp only [Option.map_some] at he; rw [← he]; simp [eraseE]

theorem elim1qF_erase (kc : Bool) (b1 : List GName) (f : FGate) :
    erase (elim1qF kc b1 f) = elim1q b1 f.g := by
  unfold elim1qF
  split
  · simp only [erase, List.map_map]
    have : ((fun x : FGate => x.g) ∘ fun p : Gate × Nat =>
        built kc f p.1 (if p.2 = 0 then .frac (-1) 2 else if p.2 = 1 then f.lab else .frac 1 2))
        = fun p => p.1 := rfl
    rw [this]
    exact zipIdx_map_fst _ 0
  · rename_i h
    have h1 : ¬ (f.g.name = .RX ∧ (!b1.contains .RX) = true) := fun e => h (Or.inl e)
    have h2 : ¬ (f.g.name = .RY ∧ (!b1.contains .RY) = true) := fun e => h (Or.inr (Or.inl e))
    have h3 : ¬ (f.g.name = .RZ ∧ (!b1.contains .RZ) = true) := fun e => h (Or.inr (Or.inr e))
    simp only [elim1q, if_neg h1, if_neg h2, if_neg h3, erase, List.map_cons, List.map_nil]

theorem elimAllF_erase (kc : Bool) (b1 : List GName) (fs : List FGate) :
    erase (fs.flatMap (elim1qF kc b1)) = (erase fs).flatMap (elim1q b1) := by
  induction fs with
  | nil => rfl
  | cons f fs ih => simp only [List.flatMap_cons, erase_append, erase_cons, ih, elim1qF_erase]

/-- **The field model refines the model of `resolve_gates`.** -/
theorem resolveF_erase (T : Tables) (L : LabTables) (v : FVariant) (b : BasisSpec) (fs : List FGate) :
    eraseE (resolveF T L v b fs) = resolve T v.keepMarkers (normBasis v.exactStr b) (erase fs) := by
  unfold resolveF resolve
  cases hs : splitBasis (normBasis v.exactStr b) with
  | error e => rfl
  | ok r =>
    obtain ⟨b1, b2, inB⟩ := r
    simp only
    have h1 := resolveAllF_erase T L v.keepCond b2 inB fs
    cases ha : resolveAllF T L v.keepCond b2 inB fs with
    | error e => rw [ha] at h1; simp only [eraseP] at h1; rw [← h1]; rfl
    | ok pr =>
      obtain ⟨markers, temp⟩ := pr
      rw [ha] at h1; simp only [eraseP] at h1; rw [← h1]
      simp only
      cases hf : List.find? b2.contains [GName.CSIGN, .ISWAP, .SQRTSWAP, .SQRTISWAP] with
      | none =>
        simp only
        by_cases hk : v.keepMarkers = true
        · simp only [hk, if_true, eraseE]
          split <;> simp [elimAllF_erase]
        · simp only [hk, eraseE]
          split <;> simp [elimAllF_erase]
      | some y =>
        simp only
        have h2 := basisPassF_erase T L v.keepCond y temp
        cases hb : basisPassF T L v.keepCond y temp with
        | error e => rw [hb] at h2; simp only [eraseE] at h2; rw [← h2]; rfl
        | ok out =>
          rw [hb] at h2; simp only [eraseE] at h2; rw [← h2]
          simp only [eraseE]
          split <;> simp [elimAllF_erase]

/-! ## alias names -/

def isOther : GName → Bool
  | .other _ => true
  | _ => false

theorem canonName_idem (al : List (String × GName)) (h : al.all (fun p => !isOther p.2) = true) (n : GName) :
    canonName al (canonName al n) = canonName al n := by
  cases n with
  | other s =>
    simp only [canonName]
    cases hl : al.lookup s with
    | none => simp only [canonName, hl]
    | some m =>
      simp only
      have hm : (s, m) ∈ al := by
        clear h
        induction al with
        | nil => simp at hl
        | cons p ps ih =>
          obtain ⟨k, w⟩ := p
          simp only [List.lookup_cons] at hl
          by_cases hk : s = k
          · subst hk; simp at hl; subst hl; exact List.mem_cons_self
          · have : (s == k) = false := by simpa using hk
            rw [this] at hl
            exact List.mem_cons_of_mem _ (ih hl)
      have := List.all_eq_true.mp h (s, m) hm
      cases m <;> first | rfl | (simp [isOther] at this)
  | _ => rfl

theorem canonItem_idem (al : List (String × GName)) (h : al.all (fun p => !isOther p.2) = true) (it : CircItem) :
    (it.canon al).canon al = it.canon al := by
  cases it with
  | meas => rfl
  | gate g l c => simp only [CircItem.canon, canonName_idem al h]

/-- reading alias names is idempotent: a circuit and the same circuit with every alias spelled canonically
resolve to the same result -/
theorem resolveCA_canon (T : Tables) (L : LabTables) (al : List (String × GName))
    (h : al.all (fun p => !isOther p.2) = true) (v : FVariant) (b : BasisSpec) (items : List CircItem) :
    resolveCA T L al v b (items.map (CircItem.canon al)) = resolveCA T L al v b items := by
  unfold resolveCA
  rw [List.map_map]
  congr 1
  apply List.map_congr_left
  intro it _
  exact canonItem_idem al h it

/-! ## histories on one live circuit object -/

theorem runHistory_append_resolve (T : Tables) (L : LabTables) (al : List (String × GName)) (v : FVariant)
    (ops : List HOp) : ∀ (items : List CircItem) (b : BasisSpec),
    runHistory T L al v items (ops ++ [.resolve b]) =
      runHistory T L al v items ops ++ [resolveCA T L al v b (ops.foldl applyHOp items)] := by
  induction ops with
  | nil => intro items b; rfl
  | cons op ops ih =>
    intro items b
    cases op with
    | resolve b' =>
      simp only [List.cons_append, runHistory, List.foldl_cons, applyHOp]
      rw [ih]
    | setTargets i ts => simp only [List.cons_append, runHistory, List.foldl_cons]; rw [ih]
    | setControls i cs => simp only [List.cons_append, runHistory, List.foldl_cons]; rw [ih]
    | setArg i a => simp only [List.cons_append, runHistory, List.foldl_cons]; rw [ih]
    | setCond i c => simp only [List.cons_append, runHistory, List.foldl_cons]; rw [ih]
    | append it => simp only [List.cons_append, runHistory, List.foldl_cons]; rw [ih]
    | remove i => simp only [List.cons_append, runHistory, List.foldl_cons]; rw [ih]

/-! ## spelling of the basis -/

theorem normBasis_valid (y : GName) (hy : basis2qValid.contains y = true) :
    normBasis true (.str y) = .list [y] := by
  show (if (true && basis2qValid.contains y) = true then BasisSpec.list [y] else BasisSpec.str y) = _
  rw [hy]; rfl

theorem normBasis_invalid (x : Bool) (y : GName) (hy : basis2qValid.contains y = false) :
    normBasis x (.str y) = .str y := by
  show (if (x && basis2qValid.contains y) = true then BasisSpec.list [y] else BasisSpec.str y) = _
  rw [hy]; simp

theorem normBasis_list (x : Bool) (bs : List GName) : normBasis x (.list bs) = .list bs := rfl

theorem splitBasis_invalid (y : GName) (hy : basis2qValid.contains y = false) :
    splitBasis (.str y) = .error .invalid2q := by
  show (if basis2qValid.contains y = true then _ else _) = _
  rw [hy]; rfl

end QipVerif.Decomp
