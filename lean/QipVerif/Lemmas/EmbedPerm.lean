import QipVerif.Lemmas.EmbedAlg
import Mathlib.Algebra.Group.End
import Mathlib.Algebra.BigOperators.Fin
import Mathlib.Data.Fintype.BigOperators
/-!
# Embedded operators: commutation on disjoint qubits, relabelling by permutations, SWAP

Facts about `Tg.embed` over ℂ that the "same unitary" theorems of the routing (C07) and scheduling
(C05) developments need as hypotheses:

* `Tg.embed_comm_of_disjoint` — operators placed on disjoint sets of qubits commute;
* `permOp σ` — the permutation matrix that **moves the content of qubit `i` to qubit `σ i`**
  (`permOp σ x y = if x ∘ σ = y then 1 else 0`, i.e. `permOp σ |y⟩ = |y ∘ σ⁻¹⟩`).  It is a monoid
  homomorphism `Perm (Fin N) → Matrix` (`permOp_mul`, `permOp_one`), and conjugation by it relabels a
  placed operator: `permOp σ * t.embed U * permOp σ⁻¹ = (t.map σ).embed U` with `(t.map σ).f = σ ∘ t.f`;
* `SWAP2` on qubits `i ≠ j` is `permOp (Equiv.swap i j)`; hence `embed_swap_sq`, `embed_swap_conj`;
* `embed_exchange_symm` — a two-qubit operator invariant under conjugation by `SWAP2` does not
  distinguish the order of its two qubits.
-/
namespace QipVerif
open Matrix
variable {N k a b : ℕ}

namespace Tg

/-- entries of a product of two operators embedded on disjoint sets of qubits -/
theorem embed_mul_embed_apply (s : Tg a N) (t : Tg b N)
    (hd : Disjoint (Set.range s.f) (Set.range t.f))
    (U : Matrix (St a) (St a) ℂ) (V : Matrix (St b) (St b) ℂ) (x y : St N) :
    (s.embed U * t.embed V) x y =
      U (x ∘ s.f) (y ∘ s.f) * V (x ∘ t.f) (y ∘ t.f) *
        (if ∀ i, i ∉ Set.range s.f → i ∉ Set.range t.f → x i = y i then 1 else 0) := by
  classical
  have hst : ∀ i, i ∈ Set.range s.f → i ∉ Set.range t.f := fun i h1 h2 =>
    Set.disjoint_left.mp hd h1 h2
  rw [Matrix.mul_apply]
  -- the only intermediate basis state that contributes
  let z : St N := fun i => if i ∈ Set.range s.f then y i else x i
  have hzs : z ∘ s.f = y ∘ s.f := by
    funext i; simp [z]
  have hzt : z ∘ t.f = x ∘ t.f := by
    funext j
    have : t.f j ∉ Set.range s.f := fun h => hst _ h ⟨j, rfl⟩
    simp only [z, Function.comp, if_neg this]
  rw [Finset.sum_eq_single z]
  · simp only [embed_apply, hzs, hzt]
    have c1 : ∀ i, i ∉ Set.range s.f → x i = z i := by
      intro i hi; simp only [z, if_neg hi]
    have c2 : (∀ i, i ∉ Set.range t.f → z i = y i) ↔
        (∀ i, i ∉ Set.range s.f → i ∉ Set.range t.f → x i = y i) := by
      constructor
      · intro h i h1 h2
        have := h i h2
        simpa only [z, if_neg h1] using this
      · intro h i h2
        by_cases h1 : i ∈ Set.range s.f
        · simp only [z, if_pos h1]
        · simp only [z, if_neg h1]; exact h i h1 h2
    rw [if_pos c1]
    by_cases hc : ∀ i, i ∉ Set.range s.f → i ∉ Set.range t.f → x i = y i
    · rw [if_pos hc, if_pos (c2.mpr hc)]; ring
    · rw [if_neg hc, if_neg (fun h => hc (c2.mp h))]; ring
  · intro w _ hw
    simp only [embed_apply]
    by_cases h1 : ∀ i, i ∉ Set.range s.f → x i = w i
    · by_cases h2 : ∀ i, i ∉ Set.range t.f → w i = y i
      · exfalso
        apply hw
        funext i
        by_cases hi : i ∈ Set.range s.f
        · simp only [z, if_pos hi]; exact h2 i (hst i hi)
        · simp only [z, if_neg hi]; exact (h1 i hi).symm
      · rw [if_neg h2]; ring
    · rw [if_neg h1]; ring
  · intro h; exact absurd (Finset.mem_univ z) h

/-- **Operators on disjoint sets of qubits commute.** -/
theorem embed_comm_of_disjoint (s : Tg a N) (t : Tg b N)
    (hd : Disjoint (Set.range s.f) (Set.range t.f))
    (U : Matrix (St a) (St a) ℂ) (V : Matrix (St b) (St b) ℂ) :
    s.embed U * t.embed V = t.embed V * s.embed U := by
  ext x y
  rw [embed_mul_embed_apply s t hd, embed_mul_embed_apply t s hd.symm]
  have : (∀ i, i ∉ Set.range s.f → i ∉ Set.range t.f → x i = y i) ↔
      (∀ i, i ∉ Set.range t.f → i ∉ Set.range s.f → x i = y i) :=
    ⟨fun h i h1 h2 => h i h2 h1, fun h i h1 h2 => h i h2 h1⟩
  simp only [this]
  ring

theorem commute_embed_of_disjoint (s : Tg a N) (t : Tg b N)
    (hd : Disjoint (Set.range s.f) (Set.range t.f))
    (U : Matrix (St a) (St a) ℂ) (V : Matrix (St b) (St b) ℂ) :
    Commute (s.embed U) (t.embed V) := embed_comm_of_disjoint s t hd U V

end Tg

/-! ## Relabelling qubits by a permutation -/

/-- the placement `σ ∘ t.f`: qubit `q` of the register is renamed `σ q` -/
def Tg.map (t : Tg k N) (σ : Equiv.Perm (Fin N)) : Tg k N := ⟨σ ∘ t.f, σ.injective.comp t.inj⟩

@[simp] theorem Tg.map_f (t : Tg k N) (σ : Equiv.Perm (Fin N)) : (t.map σ).f = σ ∘ t.f := rfl

/-- The permutation matrix that moves the content of qubit `i` to qubit `σ i`:
`permOp σ x y = 1` iff `x (σ i) = y i` for all `i`, i.e. `permOp σ |y⟩ = |y ∘ σ⁻¹⟩`. -/
noncomputable def permOp (σ : Equiv.Perm (Fin N)) : Matrix (St N) (St N) ℂ :=
  fun x y => if x ∘ σ = y then 1 else 0

theorem permOp_mul_apply (σ : Equiv.Perm (Fin N)) (A : Matrix (St N) (St N) ℂ) (x y : St N) :
    (permOp σ * A) x y = A (x ∘ σ) y := by
  rw [Matrix.mul_apply, Finset.sum_eq_single (x ∘ σ)]
  · simp [permOp]
  · intro w _ hw
    simp [permOp, Ne.symm hw]
  · intro h; exact absurd (Finset.mem_univ _) h

theorem mul_permOp_apply (σ : Equiv.Perm (Fin N)) (A : Matrix (St N) (St N) ℂ) (x y : St N) :
    (A * permOp σ) x y = A x (y ∘ ⇑σ⁻¹) := by
  have key : ∀ w : St N, w ∘ σ = y ↔ w = y ∘ ⇑σ⁻¹ := by
    intro w
    constructor
    · rintro rfl; funext i; simp
    · rintro rfl; funext i; simp
  rw [Matrix.mul_apply, Finset.sum_eq_single (y ∘ ⇑σ⁻¹)]
  · have : (y ∘ ⇑σ⁻¹) ∘ σ = y := (key _).mpr rfl
    simp only [permOp, if_pos this, mul_one]
  · intro w _ hw
    have : ¬ w ∘ σ = y := fun h => hw ((key w).mp h)
    simp [permOp, this]
  · intro h; exact absurd (Finset.mem_univ _) h

/-- conjugation by `permOp σ`, entrywise -/
theorem permOp_conj_apply (σ : Equiv.Perm (Fin N)) (A : Matrix (St N) (St N) ℂ) (x y : St N) :
    (permOp σ * A * permOp σ⁻¹) x y = A (x ∘ σ) (y ∘ σ) := by
  rw [mul_permOp_apply, permOp_mul_apply, inv_inv]

theorem permOp_one : permOp (1 : Equiv.Perm (Fin N)) = 1 := by
  ext x y
  simp [permOp, Matrix.one_apply]

/-- `permOp` is multiplicative: first `τ`, then `σ` moves `i ↦ σ (τ i)` -/
theorem permOp_mul (σ τ : Equiv.Perm (Fin N)) : permOp (σ * τ) = permOp σ * permOp τ := by
  ext x y
  rw [permOp_mul_apply]
  rfl

theorem permOp_mul_inv (σ : Equiv.Perm (Fin N)) : permOp σ * permOp σ⁻¹ = 1 := by
  rw [← permOp_mul, mul_inv_cancel, permOp_one]

theorem permOp_inv_mul (σ : Equiv.Perm (Fin N)) : permOp σ⁻¹ * permOp σ = 1 := by
  rw [← permOp_mul, inv_mul_cancel, permOp_one]

/-- **Conjugation by a qubit permutation relabels a placed operator.** -/
theorem Tg.permOp_conj_embed (t : Tg k N) (σ : Equiv.Perm (Fin N)) (U : Matrix (St k) (St k) ℂ) :
    permOp σ * t.embed U * permOp σ⁻¹ = (t.map σ).embed U := by
  ext x y
  rw [permOp_conj_apply, Tg.embed_apply, Tg.embed_apply]
  have hc : (∀ i, i ∉ Set.range t.f → (x ∘ σ) i = (y ∘ σ) i) ↔
      (∀ i, i ∉ Set.range (t.map σ).f → x i = y i) := by
    constructor
    · intro h i hi
      have := h (σ⁻¹ i) (by
        rintro ⟨l, hl⟩
        exact hi ⟨l, by simp [hl]⟩)
      simpa using this
    · intro h i hi
      exact h (σ i) (by
        rintro ⟨l, hl⟩
        exact hi ⟨l, σ.injective hl⟩)
  have hf : ∀ z : St N, (z ∘ σ) ∘ t.f = z ∘ (t.map σ).f := fun z => rfl
  rw [hf x, hf y]
  congr 1
  by_cases h : ∀ i, i ∉ Set.range t.f → (x ∘ σ) i = (y ∘ σ) i
  · rw [if_pos h, if_pos (hc.mp h)]
  · rw [if_neg h, if_neg (fun h' => h (hc.mpr h'))]

/-! ## SWAP -/

/-- the placement of a two-qubit operator on the ordered pair of distinct qubits `(i, j)` -/
def Tg.pair (i j : Fin N) (h : i ≠ j) : Tg 2 N where
  f := ![i, j]
  inj := by
    intro p q hpq
    fin_cases p <;> fin_cases q <;> simp_all

@[simp] theorem Tg.pair_f (i j : Fin N) (h : i ≠ j) : (Tg.pair i j h).f = ![i, j] := rfl

theorem Tg.mem_range_pair (i j : Fin N) (h : i ≠ j) (l : Fin N) :
    l ∈ Set.range (Tg.pair i j h).f ↔ l = i ∨ l = j := by
  constructor
  · rintro ⟨p, rfl⟩
    fin_cases p <;> simp
  · rintro (rfl | rfl)
    · exact ⟨0, rfl⟩
    · exact ⟨1, rfl⟩

theorem Tg.pair_map (i j : Fin N) (h : i ≠ j) (σ : Equiv.Perm (Fin N)) :
    (Tg.pair i j h).map σ = Tg.pair (σ i) (σ j) (fun e => h (σ.injective e)) := by
  have : (σ ∘ ![i, j] : Fin 2 → Fin N) = ![σ i, σ j] := by
    funext p; fin_cases p <;> rfl
  simp only [Tg.map, Tg.pair, this]

/-- the swap of two qubits as a matrix on `St 2` -/
noncomputable def SWAP2 : Matrix (St 2) (St 2) ℂ :=
  fun x y => if x 0 = y 1 ∧ x 1 = y 0 then 1 else 0

/-- **SWAP on qubits `i ≠ j` is the permutation matrix of the transposition `(i j)`.** -/
theorem embed_swap_eq_permOp (i j : Fin N) (h : i ≠ j) :
    (Tg.pair i j h).embed SWAP2 = permOp (Equiv.swap i j) := by
  ext x y
  rw [Tg.embed_apply]
  simp only [SWAP2, permOp]
  have hc : (((x ∘ (Tg.pair i j h).f) 0 = (y ∘ (Tg.pair i j h).f) 1 ∧
        (x ∘ (Tg.pair i j h).f) 1 = (y ∘ (Tg.pair i j h).f) 0) ∧
        ∀ l, l ∉ Set.range (Tg.pair i j h).f → x l = y l) ↔ (x ∘ Equiv.swap i j = y) := by
    show ((x i = y j ∧ x j = y i) ∧ ∀ l, l ∉ Set.range (Tg.pair i j h).f → x l = y l) ↔ _
    constructor
    · rintro ⟨⟨h1, h2⟩, h3⟩
      funext l
      by_cases hi : l = i
      · subst hi; simpa using h2
      · by_cases hj : l = j
        · subst hj; simpa using h1
        · simp only [Function.comp, Equiv.swap_apply_of_ne_of_ne hi hj]
          exact h3 l (fun hm => by
            rcases (Tg.mem_range_pair i j h l).mp hm with e | e
            · exact hi e
            · exact hj e)
    · rintro rfl
      refine ⟨⟨by simp, by simp⟩, ?_⟩
      intro l hl
      have hi : l ≠ i := fun e => hl ((Tg.mem_range_pair i j h l).mpr (Or.inl e))
      have hj : l ≠ j := fun e => hl ((Tg.mem_range_pair i j h l).mpr (Or.inr e))
      simp [Equiv.swap_apply_of_ne_of_ne hi hj]
  by_cases hh : (x ∘ Equiv.swap i j = y)
  · rw [if_pos hh, if_pos (hc.mpr hh).1, if_pos (hc.mpr hh).2]; simp
  · rw [if_neg hh]
    by_cases h1 : ((x ∘ (Tg.pair i j h).f) 0 = (y ∘ (Tg.pair i j h).f) 1 ∧
        (x ∘ (Tg.pair i j h).f) 1 = (y ∘ (Tg.pair i j h).f) 0)
    · have h2 : ¬ ∀ l, l ∉ Set.range (Tg.pair i j h).f → x l = y l := fun h2 => hh (hc.mp ⟨h1, h2⟩)
      rw [if_neg h2]; simp
    · rw [if_neg h1]; simp

/-- `SWAP(i,j)² = 1` -/
theorem embed_swap_sq (i j : Fin N) (h : i ≠ j) :
    (Tg.pair i j h).embed SWAP2 * (Tg.pair i j h).embed SWAP2 = 1 := by
  rw [embed_swap_eq_permOp, ← permOp_mul, Equiv.swap_mul_self, permOp_one]

/-- `SWAP(i,j) · (U on t) · SWAP(i,j) = U on (i j)∘t` -/
theorem embed_swap_conj (i j : Fin N) (h : i ≠ j) (t : Tg k N) (U : Matrix (St k) (St k) ℂ) :
    (Tg.pair i j h).embed SWAP2 * t.embed U * (Tg.pair i j h).embed SWAP2 =
      (t.map (Equiv.swap i j)).embed U := by
  rw [embed_swap_eq_permOp]
  have := t.permOp_conj_embed (Equiv.swap i j) U
  rwa [Equiv.swap_inv] at this

/-- on the two-qubit register itself `SWAP2` is the transposition of the two qubits -/
theorem SWAP2_eq_permOp : SWAP2 = permOp (Equiv.swap (0 : Fin 2) 1) := by
  ext x y
  simp only [SWAP2, permOp]
  have : (x 0 = y 1 ∧ x 1 = y 0) ↔ x ∘ Equiv.swap (0 : Fin 2) 1 = y := by
    constructor
    · rintro ⟨h1, h2⟩
      funext l
      fin_cases l
      · simpa using h2
      · simpa using h1
    · rintro rfl
      simp
  by_cases hh : x ∘ Equiv.swap (0 : Fin 2) 1 = y
  · rw [if_pos hh, if_pos (this.mpr hh)]
  · rw [if_neg hh, if_neg (fun h => hh (this.mp h))]

theorem SWAP2_conj_apply (U : Matrix (St 2) (St 2) ℂ) (x y : St 2) :
    (SWAP2 * U * SWAP2) x y = U (x ∘ Equiv.swap (0 : Fin 2) 1) (y ∘ Equiv.swap (0 : Fin 2) 1) := by
  have := permOp_conj_apply (Equiv.swap (0 : Fin 2) 1) U x y
  rwa [Equiv.swap_inv, ← SWAP2_eq_permOp] at this

theorem SWAP2_mul_self : SWAP2 * SWAP2 = 1 := by
  rw [SWAP2_eq_permOp, ← permOp_mul, Equiv.swap_mul_self, permOp_one]

/-- **Exchange symmetry.** A two-qubit operator that is invariant under conjugation by SWAP acts
the same whichever of its two qubits is listed first. -/
theorem embed_exchange_symm (U : Matrix (St 2) (St 2) ℂ) (hU : SWAP2 * U * SWAP2 = U)
    (i j : Fin N) (h : i ≠ j) :
    (Tg.pair i j h).embed U = (Tg.pair j i h.symm).embed U := by
  ext x y
  rw [Tg.embed_apply, Tg.embed_apply]
  have e : ∀ z : St N, (z ∘ (Tg.pair j i h.symm).f) ∘ Equiv.swap (0 : Fin 2) 1 = z ∘ (Tg.pair i j h).f := by
    intro z; funext l
    fin_cases l <;> simp
  have hr : ∀ l, l ∉ Set.range (Tg.pair j i h.symm).f ↔ l ∉ Set.range (Tg.pair i j h).f := by
    intro l
    rw [Tg.mem_range_pair, Tg.mem_range_pair, or_comm]
  conv_rhs => rw [← hU, SWAP2_conj_apply, e x, e y]
  simp only [hr]

end QipVerif
