import QipVerif.Lemmas.CqedDisp
import QipVerif.Lemmas.CqedReal
/-!
# C18: the cavity-mediated exchange gate — exchange pulse + Z corrections + global phase

In the ideal dispersive model (`dispH`, uniform pair) the exchange pulse of duration `T` gives, with
`ψ = π·T·J` (`J = g²/d` the effective coupling) and when the detuning phase `2·d·T` is an integer:
`diag(1, e^{iψ}(cos ψ + i sin ψ X), e^{2iψ})`.  The two `RZ(κ)` corrections and the global phase `κ` multiply the
one-excitation block by `e^{iκ}` and `|11⟩` by `e^{2iκ}`.  The calibration theorems evaluate this for the areas and
correction angles of the generated tables.
-/
namespace QipVerif.DevExp
open Matrix Complex QipVerif.Gen QipVerif.GateKron QipVerif.DevReal

/-- what the exchange pulse does in the ideal dispersive model at resonance, as a function of `ψ = π T J` -/
noncomputable def exchU (ψ : ℝ) : M4 :=
  !![1, 0, 0, 0;
     0, e ψ * Complex.cos (ψ : ℂ), e ψ * (Complex.I * Complex.sin (ψ : ℂ)), 0;
     0, e ψ * (Complex.I * Complex.sin (ψ : ℂ)), e ψ * Complex.cos (ψ : ℂ), 0;
     0, 0, 0, e (2 * ψ)]

/-- the propagator of the exchange pulse: uniform pair, duration `T`, prefactor `2π`, resonance `2 d T ∈ ℤ` -/
theorem prop_exchange (d g T : ℝ) (hd : d ≠ 0) (k : ℤ) (hres : 2 * d * T = k) :
    prop (((2 * Real.pi * T : ℝ) : ℂ) • dispH d d g g) = exchU (Real.pi * (T * (g * g / d))) := by
  rw [prop_dispH_uniform d g _ hd]
  have hs : 2 * Real.pi * T * (g * g / (2 * d)) = Real.pi * (T * (g * g / d)) := by field_simp
  have h00 : e (-(2 * (2 * Real.pi * T * d))) = 1 := by
    have : -(2 * (2 * Real.pi * T * d)) = 0 + ((-k : ℤ) : ℝ) * (2 * Real.pi) := by
      push_cast; rw [← hres]; ring
    rw [this, e_add_int_two_pi, e_zero]
  have h11 : e (2 * (2 * Real.pi * T * d)) = 1 := by
    have : 2 * (2 * Real.pi * T * d) = 0 + ((k : ℤ) : ℝ) * (2 * Real.pi) := by
      rw [← hres]; ring
    rw [this, e_add_int_two_pi, e_zero]
  rw [h00, h11, hs, one_mul]
  rfl

theorem rz_diag (κ : ℝ) : G.rz_ κ = !![e (-(κ / 2)), 0; 0, e (κ / 2)] := by
  rw [GateC.rz_eq, e_neg_eq, e_eq]
  unfold GateC.hc GateC.hs
  rw [half_cast]

/-- the corrections of `_swap_compiler`: `RZ(κ)` on both qubits and the global phase `κ` -/
noncomputable def corrU (κ : ℝ) : M4 := e κ • kron2 (G.rz_ κ) (G.rz_ κ)

theorem corrU_eq (κ : ℝ) : corrU κ = !![1, 0, 0, 0; 0, e κ, 0, 0; 0, 0, e κ, 0; 0, 0, 0, e (2 * κ)] := by
  unfold corrU
  rw [kron2_eq, rz_diag]
  have h0 : e κ * (e (-(κ / 2)) * e (-(κ / 2))) = 1 := by
    rw [← e_add, ← e_add, show κ + (-(κ / 2) + -(κ / 2)) = 0 by ring, e_zero]
  have h1 : e κ * (e (-(κ / 2)) * e (κ / 2)) = e κ := by
    rw [← e_add, show -(κ / 2) + κ / 2 = 0 by ring, e_zero, mul_one]
  have h1' : e κ * (e (κ / 2) * e (-(κ / 2))) = e κ := by
    rw [← e_add, show κ / 2 + -(κ / 2) = 0 by ring, e_zero, mul_one]
  have h3 : e κ * (e (κ / 2) * e (κ / 2)) = e (2 * κ) := by
    rw [← e_add, ← e_add]; congr 1; ring
  ext i j
  fin_cases i <;> fin_cases j <;> simp [h0, h1, h1', h3]

/-- exchange pulse followed by the corrections -/
theorem corr_mul_exch (κ ψ : ℝ) :
    corrU κ * exchU ψ =
      !![1, 0, 0, 0;
         0, e (ψ + κ) * Complex.cos (ψ : ℂ), e (ψ + κ) * (Complex.I * Complex.sin (ψ : ℂ)), 0;
         0, e (ψ + κ) * (Complex.I * Complex.sin (ψ : ℂ)), e (ψ + κ) * Complex.cos (ψ : ℂ), 0;
         0, 0, 0, e (2 * (ψ + κ))] := by
  rw [corrU_eq, exchU]
  have h1 : e (ψ + κ) = e κ * e ψ := by rw [add_comm, e_add]
  have h2 : e (2 * (ψ + κ)) = e (2 * κ) * e (2 * ψ) := by rw [← e_add]; congr 1; ring
  rw [h1, h2]
  ext i j
  fin_cases i <;> fin_cases j <;> simp [Matrix.mul_apply, Fin.sum_univ_four] <;> ring

/-- the corrections commute with the exchange pulse: the order in which the scheduler places them is immaterial -/
theorem corr_exch_commute (κ ψ : ℝ) : corrU κ * exchU ψ = exchU ψ * corrU κ := by
  rw [corrU_eq, exchU]
  ext i j
  fin_cases i <;> fin_cases j <;> simp [Matrix.mul_apply, Fin.sum_univ_four] <;> ring

/-! ## special values -/

theorem e_pi : e Real.pi = -1 := by unfold e; rw [mul_comm]; exact Complex.exp_pi_mul_I
theorem e_neg_pi : e (-Real.pi) = -1 := by
  rw [e_neg_eq]; simp
theorem e_two_pi : e (2 * Real.pi) = 1 := by
  rw [show 2 * Real.pi = Real.pi + Real.pi by ring, e_add, e_pi]; ring
theorem e_neg_two_pi : e (-(2 * Real.pi)) = 1 := by
  rw [show -(2 * Real.pi) = -Real.pi + -Real.pi by ring, e_add, e_neg_pi]; ring
theorem e_half_pi : e (Real.pi / 2) = Complex.I := by
  rw [e_eq, show ((Real.pi / 2 : ℝ) : ℂ) = (Real.pi : ℂ) / 2 by push_cast; ring, Complex.cos_pi_div_two, Complex.sin_pi_div_two]; ring
theorem cos_half_pi : Complex.cos ((Real.pi / 2 : ℝ) : ℂ) = 0 := by
  rw [show ((Real.pi / 2 : ℝ) : ℂ) = (Real.pi : ℂ) / 2 by push_cast; ring, Complex.cos_pi_div_two]
theorem sin_half_pi : Complex.sin ((Real.pi / 2 : ℝ) : ℂ) = 1 := by
  rw [show ((Real.pi / 2 : ℝ) : ℂ) = (Real.pi : ℂ) / 2 by push_cast; ring, Complex.sin_pi_div_two]
theorem cos_quarter_pi : Complex.cos ((Real.pi / 4 : ℝ) : ℂ) = GateC.r2 := by
  rw [show ((Real.pi / 4 : ℝ) : ℂ) = (Real.pi : ℂ) / 4 by push_cast; ring, GateC.cos_pi4]
theorem sin_quarter_pi : Complex.sin ((Real.pi / 4 : ℝ) : ℂ) = GateC.r2 := by
  rw [show ((Real.pi / 4 : ℝ) : ℂ) = (Real.pi : ℂ) / 4 by push_cast; ring, GateC.sin_pi4]
theorem cos_neg_cast (x : ℝ) : Complex.cos ((-x : ℝ) : ℂ) = Complex.cos (x : ℂ) := by push_cast; exact Complex.cos_neg _
theorem sin_neg_cast (x : ℝ) : Complex.sin ((-x : ℝ) : ℂ) = -Complex.sin (x : ℂ) := by push_cast; exact Complex.sin_neg _

/-- ISWAP: `ψ = ±π/2` (either direction of the exchange) with `κ = −π/2` -/
theorem total_iswap_pos : corrU (-(Real.pi / 2)) * exchU (Real.pi / 2) = G.iswap_ := by
  rw [corr_mul_exch, show Real.pi / 2 + -(Real.pi / 2) = 0 by ring, mul_zero, e_zero, cos_half_pi, sin_half_pi]
  ext i j
  fin_cases i <;> fin_cases j <;> simp [G.iswap_]

theorem total_iswap_neg : corrU (-(Real.pi / 2)) * exchU (-(Real.pi / 2)) = G.iswap_ := by
  rw [corr_mul_exch, show -(Real.pi / 2) + -(Real.pi / 2) = -Real.pi by ring, show 2 * -Real.pi = -(2 * Real.pi) by ring,
    e_neg_pi, e_neg_two_pi, cos_neg_cast, sin_neg_cast, cos_half_pi, sin_half_pi]
  ext i j
  fin_cases i <;> fin_cases j <;> simp [G.iswap_]

theorem r2_eq_inv_sqrt2 : GateC.r2 = 1 / ((Real.sqrt 2 : ℝ) : ℂ) := by
  have hs : ((Real.sqrt 2 : ℝ) : ℂ) ≠ 0 := by
    have : (Real.sqrt 2 : ℝ) ≠ 0 := by positivity
    exact_mod_cast this
  have h2 : ((Real.sqrt 2 : ℝ) : ℂ) * ((Real.sqrt 2 : ℝ) : ℂ) = 2 := by
    rw [← Complex.ofReal_mul, Real.mul_self_sqrt (by norm_num)]; norm_num
  unfold GateC.r2
  field_simp
  linear_combination h2

/-- SQRTISWAP: forward exchange `ψ = π/4` with `κ = −π/4` -/
theorem total_sqrtiswap_pos : corrU (-(Real.pi / 4)) * exchU (Real.pi / 4) = G.sqrtiswap_ := by
  rw [corr_mul_exch, show Real.pi / 4 + -(Real.pi / 4) = 0 by ring, mul_zero, e_zero, cos_quarter_pi, sin_quarter_pi,
    r2_eq_inv_sqrt2]
  ext i j
  fin_cases i <;> fin_cases j <;> simp [G.sqrtiswap_] <;> ring

/-- SQRTISWAP with a backward exchange run for three quarters of a period: `ψ = −3π/4`, `κ = −π/4` -/
theorem total_sqrtiswap_flipped : corrU (-(Real.pi / 4)) * exchU (-(3 * Real.pi / 4)) = G.sqrtiswap_ := by
  have hc : Complex.cos ((-(3 * Real.pi / 4) : ℝ) : ℂ) = -GateC.r2 := by
    rw [cos_neg_cast, show ((3 * Real.pi / 4 : ℝ) : ℂ) = (Real.pi : ℂ) - ((Real.pi / 4 : ℝ) : ℂ) by push_cast; ring,
      Complex.cos_pi_sub, cos_quarter_pi]
  have hs : Complex.sin ((-(3 * Real.pi / 4) : ℝ) : ℂ) = -GateC.r2 := by
    rw [sin_neg_cast, show ((3 * Real.pi / 4 : ℝ) : ℂ) = (Real.pi : ℂ) - ((Real.pi / 4 : ℝ) : ℂ) by push_cast; ring,
      Complex.sin_pi_sub, sin_quarter_pi]
  rw [corr_mul_exch, show -(3 * Real.pi / 4) + -(Real.pi / 4) = -Real.pi by ring, show 2 * -Real.pi = -(2 * Real.pi) by ring,
    e_neg_pi, e_neg_two_pi, hc, hs, r2_eq_inv_sqrt2]
  ext i j
  fin_cases i <;> fin_cases j <;> simp [G.sqrtiswap_] <;> ring

/-- SQRTISWAP with a backward exchange of a quarter period (`ψ = −π/4`): NOT the gate — the `|11⟩` entry is `−1` -/
theorem total_sqrtiswap_backward_ne : corrU (-(Real.pi / 4)) * exchU (-(Real.pi / 4)) ≠ G.sqrtiswap_ := by
  intro h
  have h33 := congrFun (congrFun h 3) 3
  rw [corr_mul_exch, show -(Real.pi / 4) + -(Real.pi / 4) = -(Real.pi / 2) by ring,
    show 2 * -(Real.pi / 2) = -Real.pi by ring, e_neg_pi] at h33
  simp [G.sqrtiswap_] at h33
  norm_num at h33

/-! ## from the compiled duration to `ψ` -/

theorem swapJ_uniform (d g : ℝ) (hd : d ≠ 0) : CQ.swapJ g g d d = g * g / d := by
  rw [cq_swapJ_eq]; field_simp; ring

theorem J_pos_iff (d g : ℝ) (hg : g ≠ 0) (hd : d ≠ 0) : 0 < g * g / d ↔ 0 < d := by
  have hgg : 0 < g * g := mul_self_pos.mpr hg
  constructor
  · intro h
    by_contra hn
    have : d < 0 := lt_of_le_of_ne (not_lt.mp hn) hd
    have := div_neg_of_pos_of_neg hgg this
    linarith
  · intro h; exact div_pos hgg h

/-- `ψ = π·T·J` for the rectangular exchange pulse of (non-negative) area `A`: `π A` for `J > 0`, `−π A` for `J < 0` -/
theorem psi_pos (J A : ℝ) (hJ : 0 < J) (hA : 0 ≤ A) : Real.pi * (CQ.pulseDur (CQ.rectT0 : ℝ) J A * J) = Real.pi * A := by
  rw [cq_rect_dur, abs_of_pos hJ, abs_of_nonneg hA]
  have : J ≠ 0 := ne_of_gt hJ
  field_simp
theorem psi_neg (J A : ℝ) (hJ : J < 0) (hA : 0 ≤ A) : Real.pi * (CQ.pulseDur (CQ.rectT0 : ℝ) J A * J) = -(Real.pi * A) := by
  rw [cq_rect_dur, abs_of_neg hJ, abs_of_nonneg hA]
  have : J ≠ 0 := ne_of_lt hJ
  field_simp

/-- the propagator of the compiled exchange instruction in the ideal dispersive model: `c` is the common prefactor of
the control Hamiltonians, `T` the compiled duration -/
theorem prop_exchange_compiled (d g c A : ℝ) (hd : d ≠ 0) (hc : c = 2 * Real.pi) (k : ℤ)
    (hres : 2 * d * CQ.pulseDur (CQ.rectT0 : ℝ) (CQ.swapJ g g d d) A = k) :
    prop (((c * CQ.pulseDur (CQ.rectT0 : ℝ) (CQ.swapJ g g d d) A : ℝ) : ℂ) • dispH d d g g)
      = exchU (Real.pi * (CQ.pulseDur (CQ.rectT0 : ℝ) (CQ.swapJ g g d d) A * CQ.swapJ g g d d)) := by
  rw [hc, prop_exchange d g _ hd k hres, swapJ_uniform d g hd]

/-- **ISWAP**, any uniform pair at resonance, either sign of the effective coupling, with or without the reversal -/
theorem iswap_total (d g c : ℝ) (hd : d ≠ 0) (hg : g ≠ 0) (hc : c = 2 * Real.pi) (k : ℤ)
    (hres : 2 * d * CQ.pulseDur (CQ.rectT0 : ℝ) (CQ.swapJ g g d d) (CQ.swapArea (CQ.swapJ g g d d) (CQ.exchArea 0)) = k) :
    corrU (CQ.exchCorr Real.pi 0) *
      prop (((c * CQ.pulseDur (CQ.rectT0 : ℝ) (CQ.swapJ g g d d) (CQ.swapArea (CQ.swapJ g g d d) (CQ.exchArea 0)) : ℝ) : ℂ) • dispH d d g g)
    = G.iswap_ := by
  rw [prop_exchange_compiled d g c _ hd hc k hres, cq_exchCorr_eq.1]
  have hA : CQ.swapArea (CQ.swapJ g g d d) (CQ.exchArea 0 : ℝ) = 1 / 2 := by
    rw [cq_swapArea_eq, cq_exchArea_eq.1]; split <;> norm_num
  rw [hA, swapJ_uniform d g hd]
  rcases lt_or_gt_of_ne hd with h | h
  · have hJ : g * g / d < 0 := div_neg_of_pos_of_neg (mul_self_pos.mpr hg) h
    rw [psi_neg _ _ hJ (by norm_num), show -(Real.pi * (1 / 2)) = -(Real.pi / 2) by ring]
    exact total_iswap_neg
  · have hJ : 0 < g * g / d := div_pos (mul_self_pos.mpr hg) h
    rw [psi_pos _ _ hJ (by norm_num), show Real.pi * (1 / 2) = Real.pi / 2 by ring]
    exact total_iswap_pos

/-- **SQRTISWAP**: correct for a positive effective coupling, and for a negative one exactly when the compiler
reverses the exchange (`swapFlipsNegJ`) -/
theorem sqrtiswap_total (d g c : ℝ) (hd : d ≠ 0) (hg : g ≠ 0) (hc : c = 2 * Real.pi) (k : ℤ)
    (hfix : CQ.swapFlipsNegJ = true ∨ 0 < d)
    (hres : 2 * d * CQ.pulseDur (CQ.rectT0 : ℝ) (CQ.swapJ g g d d) (CQ.swapArea (CQ.swapJ g g d d) (CQ.exchArea 1)) = k) :
    corrU (CQ.exchCorr Real.pi 1) *
      prop (((c * CQ.pulseDur (CQ.rectT0 : ℝ) (CQ.swapJ g g d d) (CQ.swapArea (CQ.swapJ g g d d) (CQ.exchArea 1)) : ℝ) : ℂ) • dispH d d g g)
    = G.sqrtiswap_ := by
  rw [prop_exchange_compiled d g c _ hd hc k hres, cq_exchCorr_eq.2, swapJ_uniform d g hd]
  rcases lt_or_gt_of_ne hd with h | h
  · have hJ : g * g / d < 0 := div_neg_of_pos_of_neg (mul_self_pos.mpr hg) h
    have hf : CQ.swapFlipsNegJ = true := by
      rcases hfix with h' | h'
      · exact h'
      · linarith
    have hA : CQ.swapArea (g * g / d) (CQ.exchArea 1 : ℝ) = 3 / 4 := by
      rw [cq_swapArea_eq, cq_exchArea_eq.2, if_pos ⟨hf, hJ⟩]; norm_num
    rw [hA, psi_neg _ _ hJ (by norm_num), show -(Real.pi * (3 / 4)) = -(3 * Real.pi / 4) by ring]
    exact total_sqrtiswap_flipped
  · have hJ : 0 < g * g / d := div_pos (mul_self_pos.mpr hg) h
    have hA : CQ.swapArea (g * g / d) (CQ.exchArea 1 : ℝ) = 1 / 4 := by
      rw [cq_swapArea_eq, cq_exchArea_eq.2, if_neg (fun h' => by linarith [h'.2])]
    rw [hA, psi_pos _ _ hJ (by norm_num), show Real.pi * (1 / 4) = Real.pi / 4 by ring]
    exact total_sqrtiswap_pos

/-- the shape before fixes/C18-1.patch: for a NEGATIVE effective coupling (the default parameters) the exchange pulse of
area 1/4 with the same corrections is not SQRTISWAP, in the same ideal model, for every uniform pair at resonance -/
theorem sqrtiswap_unreversed_wrong (d g c : ℝ) (hd : d < 0) (hg : g ≠ 0) (hc : c = 2 * Real.pi) (k : ℤ)
    (hres : 2 * d * CQ.pulseDur (CQ.rectT0 : ℝ) (CQ.swapJ g g d d) (1 / 4) = k) :
    corrU (CQ.exchCorr Real.pi 1) *
      prop (((c * CQ.pulseDur (CQ.rectT0 : ℝ) (CQ.swapJ g g d d) (1 / 4) : ℝ) : ℂ) • dispH d d g g) ≠ G.sqrtiswap_ := by
  have hd' : d ≠ 0 := ne_of_lt hd
  rw [prop_exchange_compiled d g c _ hd' hc k hres, cq_exchCorr_eq.2, swapJ_uniform d g hd']
  have hJ : g * g / d < 0 := div_neg_of_pos_of_neg (mul_self_pos.mpr hg) hd
  rw [psi_neg _ _ hJ (by norm_num), show -(Real.pi * (1 / 4)) = -(Real.pi / 4) by ring]
  exact total_sqrtiswap_backward_ne

end QipVerif.DevExp
