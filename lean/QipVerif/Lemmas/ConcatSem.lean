import QipVerif.Lemmas.ConcatLoop
import QipVerif.Lemmas.GridFill
/-! Structure and meaning of the tolerance-free channel lists (`pureLoop`) (C12). -/
namespace QipVerif.Concat
open QipVerif.Grid (stepAt stepAt_lt_head stepAt_ge_all mem_le_last)

/-! ### structure -/

theorem body_pairwise {w : Wave} {p : Proc} (hp : ProcOK w p) (s last : Rat) (hls : last ≤ s) :
    (last :: ((if last < s then idlePure p.mode s last p.step else []) ++ p.gt.map (· + s))).Pairwise (· < ·) := by
  have hex := exec_pairwise hp s
  by_cases hlt : last < s
  · rw [if_pos hlt]
    obtain ⟨l, hl, hpw, hle⟩ := idle_ok p.mode s last p.step hp.step_pos hlt
    have hpure : idlePure p.mode s last p.step = l := by simp [idlePure, hl]
    rw [hpure]
    have hl1 := List.pairwise_cons.mp hpw
    have hex1 := List.pairwise_cons.mp hex
    refine List.pairwise_cons.mpr ⟨?_, List.pairwise_append.mpr ⟨hl1.2, hex1.2, ?_⟩⟩
    · intro x hx
      rcases List.mem_append.mp hx with hx | hx
      · exact hl1.1 x hx
      · have := hex1.1 x hx; grind
    · intro x hx y hy
      have := hle x hx; have := hex1.1 y hy; grind
  · rw [if_neg hlt]
    have : last = s := by grind
    rw [this]; simpa using hex

theorem getLast?_append_ne {A B : List Rat} (h : B ≠ []) : (A ++ B).getLast? = B.getLast? := by
  rw [List.getLast?_append, List.getLast?_eq_some_getLast h]; rfl

theorem pairwise_join {a m : Rat} {A B : List Rat} (h1 : (a :: A).Pairwise (· < ·))
    (hm : (a :: A).getLast? = some m) (h2 : (m :: B).Pairwise (· < ·)) : (a :: (A ++ B)).Pairwise (· < ·) := by
  have hle := mem_le_last h1 hm
  have h2' := List.pairwise_cons.mp h2
  have h1' := List.pairwise_cons.mp h1
  refine List.pairwise_cons.mpr ⟨?_, List.pairwise_append.mpr ⟨h1'.2, h2'.2, ?_⟩⟩
  · intro x hx
    rcases List.mem_append.mp hx with hx | hx
    · exact h1'.1 x hx
    · have := hle a (by simp); have := h2'.1 x hx; grind
  · intro x hx y hy
    have := hle x (by simp [hx]); have := h2'.1 y hy; grind

theorem proc_of_ok {w : Wave} (hw : WaveOK w) : ProcOK w w.proc := by
  obtain ⟨p, hpp, hp⟩ := procPulse_ok w hw
  rw [proc_eq hpp]; exact hp

theorem body_last {w : Wave} (hw : WaveOK w) (s last : Rat) (idl : List Rat) :
    (last :: (idl ++ w.proc.gt.map (· + s))).getLast? = some (s + w.dur) := by
  have hp := proc_of_ok hw
  have hne : w.proc.gt.map (· + s) ≠ [] := by simpa using hp.gt_ne
  have h := exec_last hp s last
  rw [List.getLast?_cons_of_ne_nil (by simp [hp.gt_ne]), getLast?_append_ne hne]
  rw [List.getLast?_eq_some_getLast hne] at h ⊢
  simpa using h

theorem pureLoop_struct (instrs : List (Rat × Wave)) : ∀ last, Chain last instrs →
    (last :: (pureLoop last instrs).1).Pairwise (· < ·) ∧
    (pureLoop last instrs).1.length = (pureLoop last instrs).2.length ∧
    (last :: (pureLoop last instrs).1).getLast? = some (endOf last instrs) ∧
    last ≤ endOf last instrs := by
  induction instrs with
  | nil => intro last _; simp [pureLoop, endOf]
  | cons sw rest ih =>
    intro last hc
    obtain ⟨s, w⟩ := sw
    obtain ⟨hw, hls, hrest⟩ := hc
    have hp := proc_of_ok hw
    obtain ⟨ih1, ih2, ih3, ih4⟩ := ih (s + w.dur) hrest
    have hbody := body_pairwise hp s last hls
    have hbl := body_last hw s last (if last < s then idlePure w.proc.mode s last w.proc.step else [])
    have hdp := dur_pos hp
    simp only [pureLoop, endOf]
    refine ⟨?_, ?_, ?_, by grind⟩
    · have := pairwise_join hbody hbl ih1
      simpa [List.append_assoc] using this
    · simp [hp.len, ih2]
    · rw [← List.append_assoc, ← List.cons_append]
      cases hr : (pureLoop (s + w.dur) rest).1 with
      | nil => rw [hr] at ih3; simp only [List.getLast?_singleton] at ih3; rw [List.append_nil, hbl, ih3]
      | cons b B =>
        rw [hr] at ih3
        rw [getLast?_append_ne (by simp)]
        rw [List.getLast?_cons_of_ne_nil (by simp)] at ih3
        exact ih3

end QipVerif.Concat
