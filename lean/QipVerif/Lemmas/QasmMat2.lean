import QipVerif.Lemmas.QasmMat
/-!
# `ch` and `ccx` of `qelib1.inc` (C04 "shortcut_sound", continued)

* `shortcut_ch`  : the 11-gate body of `ch` equals controlled-`H` up to the phase `e^{-iπ/4}`;
  the two blocks (control 0 / 1) are reduced with `H·Rz(a)·H = RX(a)`,
  `Rz(π/2)·RX(a)·Rz(-π/2) = Ry(a)`, `Ry(π/2)·H = X`, `H·X·H = Z`.
* `shortcut_ccx` : the 15-gate body of `ccx` equals the Toffoli matrix up to `e^{7iπ/8}`.
  Operators on the target are block diagonal in the two controls (`blk3`); the final
  `cx a,b; t a; tdg b; cx a,b` is a conjugation by the row/column permutation `CX 0 1`
  (`cx_blk3_cx`); each of the four blocks is a word in `Rz`, `Xm` between two `H`.
-/
namespace QipVerif.Qasm
open Matrix Complex
set_option linter.unusedSimpArgs false

/-! ## `ch` -/

theorem sqrt2_ne : (Real.sqrt 2 : ℂ) ≠ 0 := by
  intro h0; have := sqrt2_mul_self; rw [h0] at this; norm_num at this

/-- `x` of qelib1 is `u3(π,0,π)`; its matrix is `-i·X` -/
theorem x_core : Umat Real.pi 0 Real.pi = ph (-(Real.pi / 2)) • Xm := by
  ext i j
  fin_cases i <;> fin_cases j <;>
    simp [Umat, Rz_ph, Ry, Xm, Matrix.mul_apply, Fin.sum_univ_two, Rz_zero, ph_zero, ph_neg_pi_div_two,
      ph_pi_div_two, neg_div]

theorem H_Rz_H (a : ℝ) : Hm * (Rz a * Hm) = RXm a := by
  ext i j
  fin_cases i <;> fin_cases j <;>
    simp [Hm, RXm, Rz_ph, ph_eq, neg_div, Matrix.mul_apply, Fin.sum_univ_two] <;> field_simp [sqrt2_ne] <;>
    (try rw [sqrt2_sq]) <;> ring
theorem H_Rz_H' (a : ℝ) (N : M1) : Hm * (Rz a * (Hm * N)) = RXm a * N := by
  rw [← H_Rz_H]; simp only [Matrix.mul_assoc]

theorem Rz_RX_Rz (a : ℝ) : Rz (Real.pi / 2) * (RXm a * Rz (-(Real.pi / 2))) = Ry a := by
  have h1 : ph (-(Real.pi / 2) / 2) * ph (-(Real.pi / 2) / 2) = -I := by
    rw [ph_mul_eq (c := -(Real.pi / 2)) (by ring), ph_neg_pi_div_two]
  have h2 : ph (Real.pi / 2 / 2) * ph (Real.pi / 2 / 2) = I := by
    rw [ph_mul_eq (c := Real.pi / 2) (by ring), ph_pi_div_two]
  have h3 : ph (-(Real.pi / 2) / 2) * ph (Real.pi / 2 / 2) = 1 := by
    rw [ph_mul_eq (c := 0) (by ring), ph_zero]
  ext i j
  fin_cases i <;> fin_cases j <;>
    simp [Ry, RXm, Rz_ph, Matrix.mul_apply, Fin.sum_univ_two]
  · linear_combination (cos (a / 2 : ℂ)) * h3
  · linear_combination (I * sin (a / 2 : ℂ)) * h1 - sin (a / 2 : ℂ) * I_mul_I
  · linear_combination (-(I * sin (a / 2 : ℂ))) * h2 - sin (a / 2 : ℂ) * I_mul_I
  · linear_combination (cos (a / 2 : ℂ)) * h3
theorem Rz_RX_Rz' (a : ℝ) (N : M1) :
    Rz (Real.pi / 2) * (RXm a * (Rz (-(Real.pi / 2)) * N)) = Ry a * N := by
  rw [← Rz_RX_Rz]; simp only [Matrix.mul_assoc]

theorem Ry_H : Ry (Real.pi / 2) * Hm = Xm := by
  rw [Ry_pi_div_two]
  ext i j
  fin_cases i <;> fin_cases j <;>
    simp [Hm, Xm, Matrix.mul_apply, Fin.sum_univ_two] <;> field_simp [sqrt2_ne] <;>
    (try rw [sqrt2_sq]) <;> ring

/-- block of `ch` for control 0 -/
theorem ch_block0 : Xm * (Rz (Real.pi / 2) * (Hm * (Rz (Real.pi / 4) * (Rz (Real.pi / 4) *
    (Hm * (Rz (-(Real.pi / 2)) * Hm)))))) = 1 := by
  rw [Rz_mul', show Real.pi / 4 + Real.pi / 4 = Real.pi / 2 by ring, H_Rz_H', Rz_RX_Rz', Ry_H, Xm_mul_Xm]

theorem Rz_X_Rz' (a : ℝ) (N : M1) : Rz a * (Xm * (Rz a * N)) = Xm * N := by
  rw [X_Rz', Rz_mul', add_neg_cancel, Rz_zero, one_mul]

theorem H_X_H' (N : M1) : Hm * (Xm * (Hm * N)) = Zm * N := by
  rw [← H_X_H]; simp only [Matrix.mul_assoc]

theorem Rz_ZX_Rz : Rz (Real.pi / 2) * (Zm * (Xm * Rz (-(Real.pi / 2)))) = ph (-(Real.pi / 2)) • Xm := by
  have h1 : ph (-(Real.pi / 2) / 2) * ph (-(Real.pi / 2) / 2) = -I := by
    rw [ph_mul_eq (c := -(Real.pi / 2)) (by ring), ph_neg_pi_div_two]
  have h2 : ph (Real.pi / 2 / 2) * ph (Real.pi / 2 / 2) = I := by
    rw [ph_mul_eq (c := Real.pi / 2) (by ring), ph_pi_div_two]
  ext i j
  fin_cases i <;> fin_cases j <;>
    simp [Xm, Zm, Rz_ph, Matrix.mul_apply, Fin.sum_univ_two, ph_neg_pi_div_two, h1, h2]
theorem Rz_ZX_Rz' (N : M1) : Rz (Real.pi / 2) * (Zm * (Xm * (Rz (-(Real.pi / 2)) * N))) =
    ph (-(Real.pi / 2)) • (Xm * N) := by
  rw [← Matrix.smul_mul, ← Rz_ZX_Rz]; simp only [Matrix.mul_assoc]

/-- block of `ch` for control 1 -/
theorem ch_block1 : Xm * (Rz (Real.pi / 2) * (Hm * (Rz (Real.pi / 4) * (Xm * (Rz (Real.pi / 4) *
    (Hm * (Xm * (Rz (-(Real.pi / 2)) * Hm)))))))) = ph (-(Real.pi / 2)) • Hm := by
  rw [Rz_X_Rz', H_X_H', Rz_ZX_Rz', Matrix.mul_smul, X_X']

theorem shortcut_ch : ∃ ps, expandDef qelib1.reverse cs!"ch" = .ok ps ∧
    PhaseEq (den2 (envOf []) ps) (ctrl Hm) := by
  refine ⟨_, expand_ch, -(Real.pi / 4), ?_⟩
  simp only [ps_ch, den2, List.foldl, Prim.mat2, Expr.eval, lit0, lit2, lit4, mul_one]
  rw [← ph, h_core, x_core]
  simp only [Umat_00, neg_div]
  have h0 : on0 (Rz (Real.pi / 2)) = blk (ph (-(Real.pi / 2) / 2) • 1) (ph (Real.pi / 2 / 2) • 1) := by
    rw [Rz_ph, on0_diag]
  rw [h0]
  simp only [on1_eq, ctrl_eq, blk_mul, smul_blk, mul_one, one_mul, Matrix.smul_mul, Matrix.mul_smul,
    smul_smul, ← ph_add, Matrix.mul_assoc]
  rw [ch_block0, ch_block1, smul_smul, ← ph_add]
  congr 2
  · exact ph_congr _ _ (-1) (by push_cast; ring)
  · exact ph_congr _ _ (-1) (by push_cast; ring)

/-! ## `ccx` -/

/-- block diagonal in the first two qubits -/
def blk3 (f : Fin 2 → Fin 2 → M1) : M3 := Matrix.of fun x y =>
  if x.1 = y.1 ∧ x.2.1 = y.2.1 then f x.1 x.2.1 x.2.2 y.2.2 else 0

theorem blk3_mul (f g : Fin 2 → Fin 2 → M1) : blk3 f * blk3 g = blk3 (fun a b => f a b * g a b) := by
  ext ⟨a, b, c⟩ ⟨a', b', c'⟩
  fin_cases a <;> fin_cases b <;> fin_cases a' <;> fin_cases b' <;>
    simp [Matrix.mul_apply, Fintype.sum_prod_type, Fin.sum_univ_two, blk3]

theorem smul_blk3 (k : ℂ) (f : Fin 2 → Fin 2 → M1) : k • blk3 f = blk3 (fun a b => k • f a b) := by
  ext ⟨a, b, c⟩ ⟨a', b', c'⟩
  fin_cases a <;> fin_cases b <;> fin_cases a' <;> fin_cases b' <;> simp [blk3]

theorem on3_2 (A : M1) : on3 2 A = blk3 (fun _ _ => A) := by
  ext ⟨a, b, c⟩ ⟨a', b', c'⟩
  simp [on3, blk3]

theorem cx3_12 : cx3 1 2 = blk3 (fun _ b => if b = 0 then 1 else Xm) := by
  ext ⟨a, b, c⟩ ⟨a', b', c'⟩
  fin_cases a <;> fin_cases b <;> fin_cases a' <;> fin_cases b' <;> fin_cases c <;> fin_cases c' <;>
    simp [cx3, bit3, blk3, Xm]

theorem cx3_02 : cx3 0 2 = blk3 (fun a _ => if a = 0 then 1 else Xm) := by
  ext ⟨a, b, c⟩ ⟨a', b', c'⟩
  fin_cases a <;> fin_cases b <;> fin_cases a' <;> fin_cases b' <;> fin_cases c <;> fin_cases c' <;>
    simp [cx3, bit3, blk3, Xm]

theorem on3_1_diag (p q : ℂ) : on3 1 !![p, 0; 0, q] = blk3 (fun _ b => (if b = 0 then p else q) • 1) := by
  ext ⟨a, b, c⟩ ⟨a', b', c'⟩
  fin_cases a <;> fin_cases b <;> fin_cases a' <;> fin_cases b' <;> fin_cases c <;> fin_cases c' <;>
    simp [on3, blk3]

theorem toffoli_eq : TOFFOLIm = blk3 (fun a b => if a = 1 ∧ b = 1 then Xm else 1) := by
  ext ⟨a, b, c⟩ ⟨a', b', c'⟩
  fin_cases a <;> fin_cases b <;> fin_cases a' <;> fin_cases b' <;> fin_cases c <;> fin_cases c' <;>
    simp [TOFFOLIm, blk3, Xm]


theorem on3_0_diag (u v : ℂ) : on3 0 !![u, 0; 0, v] = blk3 (fun a _ => (if a = 0 then u else v) • 1) := by
  ext ⟨a, b, c⟩ ⟨a', b', c'⟩
  fin_cases a <;> fin_cases b <;> fin_cases a' <;> fin_cases b' <;> fin_cases c <;> fin_cases c' <;>
    simp [on3, blk3]

/-- `CX 0 1` permutes the rows -/
theorem cx3_01_mul (M : M3) : cx3 0 1 * M = Matrix.of fun x y => M (x.1, x.2.1 + x.1, x.2.2) y := by
  ext ⟨a, b, c⟩ z
  fin_cases a <;> fin_cases b <;> fin_cases c <;>
    simp [Matrix.mul_apply, Fintype.sum_prod_type, Fin.sum_univ_two, cx3, bit3]

/-- `CX 0 1` permutes the columns -/
theorem mul_cx3_01 (M : M3) : M * cx3 0 1 = Matrix.of fun x y => M x (y.1, y.2.1 + y.1, y.2.2) := by
  ext z ⟨a, b, c⟩
  fin_cases a <;> fin_cases b <;> fin_cases c <;>
    simp [Matrix.mul_apply, Fintype.sum_prod_type, Fin.sum_univ_two, cx3, bit3]

theorem cx_blk3_cx (g : Fin 2 → Fin 2 → M1) :
    cx3 0 1 * (blk3 g * cx3 0 1) = blk3 (fun a b => g a (b + a)) := by
  rw [mul_cx3_01, cx3_01_mul]
  ext ⟨a, b, c⟩ ⟨a', b', c'⟩
  fin_cases a <;> fin_cases b <;> fin_cases a' <;> fin_cases b' <;> simp [blk3]


theorem cx_blk3_cx' (g : Fin 2 → Fin 2 → M1) (N : M3) :
    cx3 0 1 * (blk3 g * (cx3 0 1 * N)) = blk3 (fun a b => g a (b + a)) * N := by
  rw [← cx_blk3_cx]; simp only [Matrix.mul_assoc]

theorem H_Rz_H_pi : Hm * (Rz Real.pi * Hm) = ph (-(Real.pi / 2)) • Xm := by
  rw [Rz_ph]
  ext i j
  fin_cases i <;> fin_cases j <;>
    simp [Hm, Xm, neg_div, ph_neg_pi_div_two, ph_pi_div_two, Matrix.mul_apply, Fin.sum_univ_two] <;>
    field_simp <;> (try rw [sqrt2_sq]) <;> ring

theorem shortcut_ccx : ∃ ps, expandDef qelib1.reverse cs!"ccx" = .ok ps ∧
    PhaseEq (den3 (envOf []) ps) TOFFOLIm := by
  refine ⟨_, expand_ccx, 7 * Real.pi / 8, ?_⟩
  simp only [ps_ccx, den3, List.foldl, Prim.mat3, Expr.eval, lit0, lit2, lit4, mul_one]
  rw [← ph, h_core]
  simp only [Umat_00, neg_div]
  have h1 (a : ℝ) : on3 1 (Rz a) = blk3 (fun _ b => (if b = 0 then ph (-a / 2) else ph (a / 2)) • 1) := by
    rw [Rz_ph, on3_1_diag]
  have h0 (a : ℝ) : on3 0 (Rz a) = blk3 (fun a' _ => (if a' = 0 then ph (-a / 2) else ph (a / 2)) • 1) := by
    rw [Rz_ph, on3_0_diag]
  simp only [h1, h0, on3_2, cx3_12, cx3_02, blk3_mul, ← Matrix.mul_assoc (blk3 _) (blk3 _), cx_blk3_cx']
  rw [toffoli_eq, smul_blk3]
  congr 1
  funext a b
  fin_cases a <;> fin_cases b <;>
    simp [Matrix.smul_mul, Matrix.mul_smul, smul_smul, Rz_mul, Rz_mul', X_Rz', X_X', ← ph_add]
  · rw [Rz_zero, one_mul, H_H]; congr 1; exact ph_congr _ _ (-1) (by push_cast; ring)
  · rw [Rz_zero, one_mul, H_H]; congr 1; exact ph_congr _ _ (-1) (by push_cast; ring)
  · rw [Rz_zero, one_mul, H_H]; congr 1; exact ph_congr _ _ (-1) (by push_cast; ring)
  · rw [show Real.pi / 4 + (Real.pi / 4 + Real.pi / 4 + Real.pi / 4) = Real.pi by ring, H_Rz_H_pi,
      smul_smul, ← ph_add]
    congr 1; exact ph_congr _ _ (-1) (by push_cast; ring)

end QipVerif.Qasm
