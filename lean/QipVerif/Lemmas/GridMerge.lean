import QipVerif.Lemmas.GridFill
/-! Merged grid (`get_full_tlist`), `fill`, piecewise constancy, label round trip (C14). -/
namespace QipVerif.Grid

/-! ### sortU -/

theorem mem_insertU {x y : Rat} {l : List Rat} : y ∈ insertU x l ↔ y = x ∨ y ∈ l := by
  induction l with
  | nil => simp [insertU]
  | cons a l ih =>
    unfold insertU
    by_cases h1 : x < a
    · simp [h1]
    · by_cases h2 : x = a
      · subst h2; simp [h1]
      · simp only [h1, h2, if_false, List.mem_cons, ih]
        constructor
        · rintro (h | h | h) <;> simp [h]
        · rintro (h | h | h) <;> simp [h]

theorem insertU_pairwise {x : Rat} {l : List Rat} (h : l.Pairwise (· < ·)) : (insertU x l).Pairwise (· < ·) := by
  induction l with
  | nil => simp [insertU]
  | cons a l ih =>
    unfold insertU
    have ha := (List.pairwise_cons.mp h).1
    have hl := (List.pairwise_cons.mp h).2
    by_cases h1 : x < a
    · rw [if_pos h1]
      refine List.pairwise_cons.mpr ⟨?_, h⟩
      intro b hb
      rcases List.mem_cons.mp hb with rfl | hb
      · exact h1
      · have := ha b hb; grind
    · rw [if_neg h1]
      by_cases h2 : x = a
      · rw [if_pos h2]; exact h
      · rw [if_neg h2]
        refine List.pairwise_cons.mpr ⟨?_, ih hl⟩
        intro b hb
        rcases mem_insertU.mp hb with rfl | hb
        · grind
        · exact ha b hb

theorem mem_sortU {y : Rat} {l : List Rat} : y ∈ sortU l ↔ y ∈ l := by
  induction l with
  | nil => simp [sortU]
  | cons a l ih =>
    have : sortU (a :: l) = insertU a (sortU l) := rfl
    rw [this, mem_insertU, ih]; simp

theorem sortU_pairwise (l : List Rat) : (sortU l).Pairwise (· < ·) := by
  induction l with
  | nil => simp [sortU]
  | cons a l ih => exact insertU_pairwise ih

/-! ### keepFrom -/

theorem keepFrom_sublist (tol prev : Rat) (l : List Rat) : (keepFrom tol prev l).Sublist l := by
  induction l generalizing prev with
  | nil => simp [keepFrom]
  | cons b rest ih =>
    unfold keepFrom
    by_cases h : b - prev > tol
    · rw [if_pos h]; exact (ih b).cons_cons b
    · rw [if_neg h]; exact (ih b).cons b

/-- consecutive elements differ by more than `tol` -/
def GapsGt (tol : Rat) : List Rat → Prop
  | a :: b :: l => b - a > tol ∧ GapsGt tol (b :: l)
  | _ => True

theorem keepFrom_gaps (tol : Rat) (prev lo : Rat) (l : List Rat) (hp : (prev :: l).Pairwise (· < ·)) (hlo : lo ≤ prev) :
    GapsGt tol (lo :: keepFrom tol prev l) := by
  induction l generalizing prev lo with
  | nil => simp [keepFrom, GapsGt]
  | cons b rest ih =>
    have hpb : prev < b := (List.pairwise_cons.mp hp).1 b (by simp)
    have hp' : (b :: rest).Pairwise (· < ·) := (List.pairwise_cons.mp hp).2
    unfold keepFrom
    by_cases h : b - prev > tol
    · rw [if_pos h]
      exact ⟨by grind, ih b b hp' Rat.le_refl⟩
    · rw [if_neg h]
      exact ih b lo hp' (by grind)

theorem keepFrom_eq_self (tol prev : Rat) (l : List Rat) (hp : (prev :: l).Pairwise (· < ·))
    (hsep : ∀ x ∈ prev :: l, ∀ y ∈ prev :: l, x < y → y - x > tol) : keepFrom tol prev l = l := by
  induction l generalizing prev with
  | nil => simp [keepFrom]
  | cons b rest ih =>
    have hpb : prev < b := (List.pairwise_cons.mp hp).1 b (by simp)
    have hp' : (b :: rest).Pairwise (· < ·) := (List.pairwise_cons.mp hp).2
    unfold keepFrom
    rw [if_pos (hsep prev (by simp) b (by simp) hpb)]
    congr 1
    exact ih b hp' (fun x hx y hy => hsep x (by simp [hx]) y (by simp [hy]))

/-! ### fullTlist -/

theorem fullTlist_pairwise {tol : Rat} {grids : List (List Rat)} {T : List Rat}
    (h : fullTlist tol grids = some T) : T.Pairwise (· < ·) := by
  unfold fullTlist at h
  split at h
  · cases h
  · have hs := sortU_pairwise grids.flatten
    split at h
    · cases h; simp
    · rename_i a rest heq
      cases h
      rw [heq] at hs
      exact List.Pairwise.sublist ((keepFrom_sublist tol a rest).cons_cons a) hs

theorem fullTlist_gaps {tol : Rat} {grids : List (List Rat)} {T : List Rat}
    (h : fullTlist tol grids = some T) : GapsGt tol T := by
  unfold fullTlist at h
  split at h
  · cases h
  · have hs := sortU_pairwise grids.flatten
    split at h
    · cases h; simp [GapsGt]
    · rename_i a rest heq
      cases h
      rw [heq] at hs
      exact keepFrom_gaps tol a a rest hs Rat.le_refl

theorem fullTlist_subset {tol : Rat} {grids : List (List Rat)} {T : List Rat}
    (h : fullTlist tol grids = some T) : ∀ t ∈ T, ∃ g ∈ grids, t ∈ g := by
  unfold fullTlist at h
  split at h
  · cases h
  · split at h
    · cases h; simp
    · rename_i a rest heq
      cases h
      intro t ht
      have : t ∈ sortU grids.flatten := by
        rw [heq]
        rcases List.mem_cons.mp ht with rfl | ht
        · simp
        · exact List.mem_cons_of_mem _ ((keepFrom_sublist tol a rest).subset ht)
      rw [mem_sortU, List.mem_flatten] at this
      exact this

/-- all pairs of distinct points of all channels differ by more than `tol` -/
def SepAll (tol : Rat) (grids : List (List Rat)) : Prop :=
  ∀ g ∈ grids, ∀ x ∈ g, ∀ g' ∈ grids, ∀ y ∈ g', x < y → y - x > tol

theorem fullTlist_eq_sortU {tol : Rat} {grids : List (List Rat)} (hne : grids ≠ [])
    (hsep : SepAll tol grids) : fullTlist tol grids = some (sortU grids.flatten) := by
  unfold fullTlist
  have : grids.isEmpty = false := by cases grids <;> simp_all
  rw [this]
  simp only [Bool.false_eq_true, if_false]
  have hs := sortU_pairwise grids.flatten
  split
  · rename_i heq; rw [heq]
  · rename_i a rest heq
    rw [heq] at hs ⊢
    congr 2
    apply keepFrom_eq_self tol a rest hs
    intro x hx y hy hxy
    have hx' : x ∈ sortU grids.flatten := heq ▸ hx
    have hy' : y ∈ sortU grids.flatten := heq ▸ hy
    rw [mem_sortU, List.mem_flatten] at hx' hy'
    obtain ⟨g, hg, hxg⟩ := hx'
    obtain ⟨g', hg', hyg⟩ := hy'
    exact hsep g hg x hxg g' hg' y hyg hxy

/-! ### fill -/

theorem fill_eq_code (tol : Rat) (oldT oldC T : List Rat) (htol : 0 ≤ tol)
    (hp : oldT.Pairwise (· < ·)) (hlen : 2 ≤ oldT.length)
    (hC : oldC.length + 1 = oldT.length ∨ oldC.length = oldT.length)
    (hT : T.Pairwise (· < ·)) (hsub : ∀ p ∈ oldT, p ∈ T)
    (hge : ∀ t ∈ T, ∀ first, oldT.head? = some first → first ≤ t)
    (hsep : ∀ t ∈ T, ∀ p ∈ oldT, p = t ∨ p - t > tol ∨ t - p > tol) :
    fill tol oldT oldC T = .ok (T.map (codeAt oldT (padCoeff oldT oldC))) := by
  unfold fill
  cases hTT : T with
  | nil => simp
  | cons t0 ts =>
    simp only
    rw [← hTT]
    have hne : oldT ≠ [] := by intro h; simp [h] at hlen
    have hn : oldT.length - 1 < oldT.length := by omega
    have hh : oldT.head? = some oldT[0] := by rw [List.head?_eq_getElem?, List.getElem?_eq_getElem (by omega)]
    have hl : oldT.getLast? = some oldT[oldT.length - 1] := by
      rw [List.getLast?_eq_getElem?, List.getElem?_eq_getElem hn]
    rw [hh, hl]
    simp only
    have hlenC : (padCoeff oldT oldC).length = oldT.length := by
      unfold padCoeff
      rcases hC with h | h
      · rw [if_pos (by omega)]; simp; omega
      · rw [if_neg (by omega)]; exact h
    exact fillLoop_eq tol oldT _ _ _ htol hp hlenC hh hl T 0 hT (by omega)
      (fun t ht => hge t ht _ hh) (fun j hj _ => hsub _ (List.getElem_mem hj)) (fun h => by omega) hsep

/-- the padded coefficient array ends with 0: either one coefficient per slot, or a full-length
array whose last entry is 0 -/
def LastZero (oldT oldC : List Rat) : Prop :=
  oldC.length + 1 = oldT.length ∨ (oldC.length = oldT.length ∧ oldC.getLast? = some 0)

theorem codeAt_eq_stepAt (oldT oldC : List Rat) (hp : oldT.Pairwise (· < ·)) (hz : LastZero oldT oldC) (t : Rat) :
    codeAt oldT (padCoeff oldT oldC) t = stepAt oldT oldC t := by
  unfold codeAt
  rcases hz with h | ⟨h, hl⟩
  · have hpad : padCoeff oldT oldC = oldC ++ [0] := by unfold padCoeff; rw [if_pos (by omega)]
    rw [hpad]
    split
    · rename_i hlast
      rw [stepAt_ge_all oldT oldC t (mem_le_last hp hlast)]
      simp
    · exact stepAt_append oldT oldC [0] t (by omega)
  · have hpad : padCoeff oldT oldC = oldC := by unfold padCoeff; rw [if_neg (by omega)]
    rw [hpad]
    split
    · rename_i hlast
      rw [stepAt_ge_all oldT oldC t (mem_le_last hp hlast), hl]; rfl
    · rfl

/-- `stepAt` never reads the coefficient of index `len(tlist) - 1` -/
theorem stepAt_normCoeff (tl cs : List Rat) (t : Rat) (hlen : cs.length + 1 = tl.length ∨ cs.length = tl.length) :
    stepAt tl (normCoeff true tl cs) t = stepAt tl cs t := by
  unfold normCoeff
  rcases hlen with h | h
  · have : (cs.length == tl.length) = false := by simp; omega
    simp [this]
  · have : (cs.length == tl.length) = true := by simp [h]
    simp only [Bool.true_and, this, if_true]
    by_cases hnil : cs = []
    · subst hnil
      have : tl = [] := by cases tl <;> simp_all
      subst this; simp [stepAt]
    · have hd : (cs.dropLast).length + 1 = cs.length := by
        have := List.length_dropLast (xs := cs)
        have : 0 < cs.length := List.length_pos_iff.mpr hnil
        omega
      rw [stepAt_append tl cs.dropLast [0] t (by omega)]
      conv => rhs; rw [← List.dropLast_concat_getLast hnil]
      rw [stepAt_append tl cs.dropLast [cs.getLast hnil] t (by omega)]

theorem lastZero_normCoeff (tl cs : List Rat) (hlen : cs.length + 1 = tl.length ∨ cs.length = tl.length) (h2 : 2 ≤ tl.length) :
    LastZero tl (normCoeff true tl cs) := by
  unfold normCoeff
  rcases hlen with h | h
  · have : (cs.length == tl.length) = false := by simp; omega
    simp only [Bool.true_and, this]; exact Or.inl h
  · have : (cs.length == tl.length) = true := by simp [h]
    simp only [Bool.true_and, this, if_true]
    refine Or.inr ⟨?_, by simp⟩
    simp; omega

/-! ### piecewise constancy -/

theorem stepAt_const (tl cs : List Rat) (a b t : Rat) (hno : ∀ p ∈ tl, p ≤ a ∨ b ≤ p) (hat : a ≤ t) (htb : t < b) :
    stepAt tl cs t = stepAt tl cs a := by
  induction tl generalizing cs with
  | nil => simp [stepAt]
  | cons x tl ih =>
    match tl, cs with
    | [], _ => simp [stepAt]
    | y :: tl, [] => simp [stepAt]
    | y :: tl, c :: cs =>
      have hx := hno x (by simp)
      have hy := hno y (by simp)
      have hrec := ih cs (fun p hp => hno p (by simp [hp]))
      simp only [stepAt]
      have : (x ≤ t ∧ t < y) ↔ (x ≤ a ∧ a < y) := by grind
      by_cases h : x ≤ t ∧ t < y
      · rw [if_pos h, if_pos (this.mp h)]
      · rw [if_neg h, if_neg (fun h' => h (this.mpr h'))]; exact hrec

/-- a point of a strictly increasing list is never strictly between two consecutive ones -/
theorem not_between {T : List Rat} (hT : T.Pairwise (· < ·)) (k : Nat) (hk : k + 1 < T.length) :
    ∀ p ∈ T, p ≤ T[k] ∨ T[k + 1] ≤ p := by
  intro p hp
  obtain ⟨j, hj, rfl⟩ := List.getElem_of_mem hp
  rcases Nat.lt_or_ge k j with h | h
  · right; exact le_of_pairwise hT hk hj (by omega)
  · left; exact le_of_pairwise hT hj (by omega) h

/-! ### mapMExcept -/

theorem mapMExcept_ok {α β ε : Type} (f : α → Except ε β) (g : α → β) (l : List α)
    (h : ∀ a ∈ l, f a = .ok (g a)) : mapMExcept f l = .ok (l.map g) := by
  induction l with
  | nil => rfl
  | cons a l ih =>
    simp only [mapMExcept, h a (by simp), ih (fun b hb => h b (by simp [hb])), List.map_cons]

/-! ### labels -/

theorem splitSep_ne_nil {α : Type} [DecidableEq α] (sep : α) (l : List α) : splitSep sep l ≠ [] := by
  induction l with
  | nil => simp [splitSep]
  | cons c cs ih =>
    unfold splitSep
    split
    · exact absurd (by assumption) ih
    · split <;> simp

theorem splitSep_of_not_mem {α : Type} [DecidableEq α] (sep : α) (l : List α) (h : sep ∉ l) : splitSep sep l = [l] := by
  induction l with
  | nil => rfl
  | cons c cs ih =>
    have hc : c ≠ sep := fun e => h (by simp [e])
    have := ih (fun hm => h (by simp [hm]))
    simp [splitSep, this, hc]

theorem splitSep_append {α : Type} [DecidableEq α] (sep : α) (l r : List α) (h : sep ∉ l) :
    splitSep sep (l ++ sep :: r) = l :: splitSep sep r := by
  induction l with
  | nil =>
    simp only [List.nil_append, splitSep]
    split
    · exact absurd (by assumption) (splitSep_ne_nil sep r)
    · rename_i w ws heq; simp [heq]
  | cons c cs ih =>
    have hc : c ≠ sep := fun e => h (by simp [e])
    have := ih (fun hm => h (by simp [hm]))
    simp [splitSep, this, hc]

theorem splitSep_joinSep {α : Type} [DecidableEq α] (sep : α) (ls : List (List α)) (hne : ls ≠ [])
    (h : ∀ l ∈ ls, sep ∉ l) : splitSep sep (joinSep sep ls) = ls := by
  induction ls with
  | nil => exact absurd rfl hne
  | cons l ls ih =>
    cases ls with
    | nil => simpa [joinSep] using splitSep_of_not_mem sep l (h l (by simp))
    | cons l2 ls =>
      have : joinSep sep (l :: l2 :: ls) = l ++ sep :: joinSep sep (l2 :: ls) := rfl
      rw [this, splitSep_append sep l _ (h l (by simp)), ih (by simp) (fun x hx => h x (by simp [hx]))]

end QipVerif.Grid
