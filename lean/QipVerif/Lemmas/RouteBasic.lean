import QipVerif.Model.Route
/-!
# C07 helper definitions: transpositions, permutation tracking, swap ladders, adjacency

Import-free (only core tactics), so everything here can also be evaluated by `decide`.
-/
namespace QipVerif.Route

/-- the transposition `(i j)` on qubit labels -/
def swapAt (i j x : Nat) : Nat := if x = i then j else if x = j then i else x

/-- Where the qubit that starts at position `x` sits after the SWAPs `S` (in circuit order). -/
def track : List (Nat × Nat) → Nat → Nat
  | [], x => x
  | p :: S, x => track S (swapAt p.1 p.2 x)

/-- the SWAP gates on the listed pairs -/
def swaps (S : List (Nat × Nat)) : List Gate := S.map (fun p => swapG p.1 p.2)

/-- all qubits of a gate, controls first (as `Gate.get_all_qubits`) -/
def Gate.qubits (g : Gate) : List Nat := g.controls ++ g.targets

/-- `i`, `j` are neighbours on the chain: consecutive, or the wrap pair `{0, N-1}` of a ring. -/
def Adj (setup : Setup) (N i j : Nat) : Prop :=
  j = i + 1 ∨ i = j + 1 ∨ (setup = .circular ∧ ((i = 0 ∧ j + 1 = N) ∨ (j = 0 ∧ i + 1 = N)))

instance (setup : Setup) (N i j : Nat) : Decidable (Adj setup N i j) := by
  unfold Adj; infer_instance

/-- relabel every qubit of a gate -/
def Gate.relabel (f : Nat → Nat) (g : Gate) : Gate :=
  { g with controls := g.controls.map f, targets := g.targets.map f }

instance : DecidableEq (Except Err (List Gate)) := fun a b =>
  match a, b with
  | .ok x, .ok y => if h : x = y then isTrue (by rw [h]) else isFalse (fun h' => by cases h'; exact h rfl)
  | .error x, .error y => if h : x = y then isTrue (by rw [h]) else isFalse (fun h' => by cases h'; exact h rfl)
  | .ok _, .error _ => isFalse (fun h => by cases h)
  | .error _, .ok _ => isFalse (fun h => by cases h)

/-! ## transpositions and tracking -/

theorem swapAt_swapAt (i j x : Nat) : swapAt i j (swapAt i j x) = x := by
  unfold swapAt; split <;> split <;> (try split) <;> omega

theorem swapAt_left (i j : Nat) : swapAt i j i = j := by simp [swapAt]

theorem swapAt_right (i j : Nat) : swapAt i j j = i := by
  unfold swapAt; split <;> simp_all

theorem swapAt_of_ne {i j x : Nat} (h1 : x ≠ i) (h2 : x ≠ j) : swapAt i j x = x := by
  simp [swapAt, h1, h2]

theorem swapAt_lt {N i j x : Nat} (hi : i < N) (hj : j < N) (hx : x < N) : swapAt i j x < N := by
  unfold swapAt; split <;> (try split) <;> omega

theorem swapAt_inj {i j x y : Nat} (h : swapAt i j x = swapAt i j y) : x = y := by
  have := congrArg (swapAt i j) h
  rwa [swapAt_swapAt, swapAt_swapAt] at this

theorem track_append (S T : List (Nat × Nat)) (x : Nat) : track (S ++ T) x = track T (track S x) := by
  induction S generalizing x with
  | nil => rfl
  | cons p S ih => simp [track, ih]

theorem track_inj {S : List (Nat × Nat)} {x y : Nat} (h : track S x = track S y) : x = y := by
  induction S generalizing x y with
  | nil => exact h
  | cons p S ih => exact swapAt_inj (ih h)

theorem track_lt {N : Nat} {S : List (Nat × Nat)} (hS : ∀ p ∈ S, p.1 < N ∧ p.2 < N) {x : Nat} (hx : x < N) :
    track S x < N := by
  induction S generalizing x with
  | nil => exact hx
  | cons p S ih =>
    have hp := hS p (List.mem_cons_self ..)
    exact ih (fun q hq => hS q (List.mem_cons_of_mem _ hq)) (swapAt_lt hp.1 hp.2 hx)

/-- swap-in followed by the mirrored swap-out is the identity permutation -/
theorem track_palindrome (S : List (Nat × Nat)) (x : Nat) : track (S ++ S.reverse) x = x := by
  induction S generalizing x with
  | nil => rfl
  | cons p S ih =>
    have : (p :: S) ++ (p :: S).reverse = p :: ((S ++ S.reverse) ++ [p]) := by simp
    rw [this]
    simp only [track, track_append, ih, swapAt_swapAt]

/-- Tracking commutes with an injective relabelling of the positions that occur. -/
theorem track_map (φ : Nat → Nat) (D : Nat → Prop)
    (hinj : ∀ x y, D x → D y → φ x = φ y → x = y)
    (S : List (Nat × Nat)) (hS : ∀ p ∈ S, D p.1 ∧ D p.2) (x : Nat) (hx : D x) :
    track (S.map (fun p => (φ p.1, φ p.2))) (φ x) = φ (track S x) ∧ D (track S x) := by
  induction S generalizing x with
  | nil => exact ⟨rfl, hx⟩
  | cons p S ih =>
    have hp := hS p (List.mem_cons_self ..)
    have hsw : swapAt (φ p.1) (φ p.2) (φ x) = φ (swapAt p.1 p.2 x) := by
      unfold swapAt
      by_cases h1 : x = p.1
      · simp [h1]
      · have h1' : φ x ≠ φ p.1 := fun h => h1 (hinj _ _ hx hp.1 h)
        by_cases h2 : x = p.2
        · subst h2
          have h3 : ¬ p.2 = p.1 := h1
          simp [h3, h1']
        · have h2' : φ x ≠ φ p.2 := fun h => h2 (hinj _ _ hx hp.2 h)
          simp [h1, h2, h1', h2']
    have hD : D (swapAt p.1 p.2 x) := by
      unfold swapAt; split
      · exact hp.2
      · split
        · exact hp.1
        · exact hx
    simp only [List.map_cons, track, hsw]
    exact ih (fun q hq => hS q (List.mem_cons_of_mem _ hq)) _ hD

/-! ## the swap ladder `[(s+j, s+j+1), (e-j-1, e-j)]` for levels `j, j+1, …, j+k-1` -/

def ladder (s e : Nat) : Nat → Nat → List (Nat × Nat)
  | _, 0 => []
  | j, k + 1 => (s + j, s + j + 1) :: (e - j - 1, e - j) :: ladder s e (j + 1) k

theorem ladder_snoc (s e j k : Nat) :
    ladder s e j (k + 1) = ladder s e j k ++ [(s + (j + k), s + (j + k) + 1), (e - (j + k) - 1, e - (j + k))] := by
  induction k generalizing j with
  | zero => simp [ladder]
  | succ k ih =>
    rw [ladder, ih (j + 1)]
    have : j + 1 + k = j + (k + 1) := by omega
    simp [ladder, this]

/-- every pair of the ladder is a pair of consecutive positions inside `[s, e]` -/
theorem mem_ladder {s e j k : Nat} (h : j + k ≤ e - s) {p : Nat × Nat} (hp : p ∈ ladder s e j k) :
    s ≤ p.1 ∧ p.2 = p.1 + 1 ∧ p.2 ≤ e := by
  induction k generalizing j with
  | zero => simp [ladder] at hp
  | succ k ih =>
    simp only [ladder, List.mem_cons] at hp
    rcases hp with rfl | rfl | hp
    · simp; omega
    · simp; omega
    · exact ih (by omega) hp

/-- the two tracked qubits move towards each other, one step per level -/
theorem track_ladder {s e j k : Nat} (h : s + 2 * (j + k) + 1 ≤ e) :
    track (ladder s e j k) (s + j) = s + j + k ∧ track (ladder s e j k) (e - j) = e - j - k := by
  induction k generalizing j with
  | zero => simp [ladder, track]
  | succ k ih =>
    have h1 : swapAt (e - j - 1) (e - j) (swapAt (s + j) (s + j + 1) (s + j)) = s + (j + 1) := by
      have a : swapAt (s + j) (s + j + 1) (s + j) = s + j + 1 := swapAt_left ..
      rw [a, swapAt_of_ne (by omega) (by omega)]; omega
    have h2 : swapAt (e - j - 1) (e - j) (swapAt (s + j) (s + j + 1) (e - j)) = e - (j + 1) := by
      have a : swapAt (s + j) (s + j + 1) (e - j) = e - j := swapAt_of_ne (by omega) (by omega)
      rw [a, swapAt_right]; omega
    have := ih (j := j + 1) (by omega)
    simp only [ladder, track, h1, h2]
    constructor
    · rw [this.1]; omega
    · rw [this.2]; omega

theorem swaps_append (S T : List (Nat × Nat)) : swaps (S ++ T) = swaps S ++ swaps T := by
  simp [swaps]

theorem swaps_cons (p : Nat × Nat) (S : List (Nat × Nat)) : swaps (p :: S) = swapG p.1 p.2 :: swaps S := rfl

end QipVerif.Route
