import QipVerif.Model.Vqa
import Mathlib.Algebra.BigOperators.Group.List.Basic
/-! Prefix/suffix products of `get_unitary_products` over an arbitrary monoid (C19). -/
namespace QipVerif.Vqa
variable {M : Type} [Monoid M]

theorem prodsFwd_length (acc : M) (ps : List M) : (prodsFwd (· * ·) acc ps).length = ps.length + 1 := by
  induction ps generalizing acc with
  | nil => rfl
  | cons p ps ih => simp [prodsFwd, ih]

theorem prodsBack_length (acc : M) (ps : List M) : (prodsBack (· * ·) acc ps).length = ps.length + 1 := by
  induction ps generalizing acc with
  | nil => rfl
  | cons p ps ih => simp [prodsBack, ih]

/-- `U_prods[k] = P_{k-1} ⋯ P_0` (times the start value) -/
theorem prodsFwd_getElem? (acc : M) (ps : List M) (k : Nat) (hk : k ≤ ps.length) :
    (prodsFwd (· * ·) acc ps)[k]? = some ((ps.take k).reverse.prod * acc) := by
  induction ps generalizing acc k with
  | nil =>
    have : k = 0 := by simpa using hk
    subst this; simp [prodsFwd]
  | cons p ps ih =>
    cases k with
    | zero => simp [prodsFwd]
    | succ k =>
      have hk' : k ≤ ps.length := by simpa using hk
      simp [prodsFwd, ih _ k hk', List.prod_append, mul_assoc]

/-- `prodsBack acc qs [k] = acc · q_0 ⋯ q_{k-1}` -/
theorem prodsBack_getElem? (acc : M) (qs : List M) (k : Nat) (hk : k ≤ qs.length) :
    (prodsBack (· * ·) acc qs)[k]? = some (acc * (qs.take k).prod) := by
  induction qs generalizing acc k with
  | nil =>
    have : k = 0 := by simpa using hk
    subst this; simp [prodsBack]
  | cons q qs ih =>
    cases k with
    | zero => simp [prodsBack]
    | succ k =>
      have hk' : k ≤ qs.length := by simpa using hk
      simp [prodsBack, ih _ k hk', mul_assoc]

theorem fullProd_aux (acc : M) (ps : List M) :
    ps.foldl (fun acc p => p * acc) acc = ps.reverse.prod * acc := by
  induction ps generalizing acc with
  | nil => simp
  | cons p ps ih => simp [ih, List.prod_append, mul_assoc]

/-- `gate_sequence_product` of the propagators: the last propagator is the leftmost factor -/
theorem fullProd_eq (ps : List M) : fullProd (· * ·) 1 ps = ps.reverse.prod := by
  simp [fullProd, fullProd_aux]

theorem modifyUnitary_eq (ps : List M) (k : Nat) (hk : k < ps.length) (X : M) :
    modifyUnitary (· * ·) 1 ps k X = (ps.drop (k + 1)).reverse.prod * X * (ps.take k).reverse.prod := by
  have h1 : (prodsFwd (· * ·) (1 : M) ps)[k]? = some ((ps.take k).reverse.prod * 1) :=
    prodsFwd_getElem? 1 ps k (by omega)
  have h2 : (prodsBack (· * ·) (1 : M) ps.reverse)[ps.length - 1 - k]? =
      some (1 * (ps.reverse.take (ps.length - 1 - k)).prod) :=
    prodsBack_getElem? 1 ps.reverse _ (by simp; omega)
  have h3 : ps.reverse.take (ps.length - 1 - k) = (ps.drop (k + 1)).reverse := by
    rw [List.take_reverse]; congr 2; omega
  simp only [modifyUnitary, unitaryProducts, prodsFwd_length, Nat.add_sub_cancel,
    List.getD_eq_getElem?_getD, h1, h2, h3, Option.getD_some, mul_one, one_mul]

theorem set_reverse_prod (ps : List M) (k : Nat) (hk : k < ps.length) (X : M) :
    (ps.set k X).reverse.prod = (ps.drop (k + 1)).reverse.prod * X * (ps.take k).reverse.prod := by
  rw [List.set_eq_take_append_cons_drop, if_pos hk]
  simp [List.prod_append, mul_assoc]

end QipVerif.Vqa
