import QipVerif.Lemmas.ZyzQftDft
import QipVerif.Lemmas.MatBridge

/-!
# C17 — `val` (index used by `dftMat`) is the package's flat index of a basis state

`QipVerif.enc` / `stEquiv` (Lemmas/MatBridge.lean) is the big-endian flat index used for every dense
matrix of the package (first qubit most significant).  `val = enc`.
-/
namespace QipVerif.QftDen
open QipVerif QipVerif.Embed

theorem enc_succ {k : ℕ} (x : St (k + 1)) :
    enc x = ((x 0 : Fin 2) : ℕ) * 2 ^ k + enc (fun i : Fin k => x i.succ) := by
  unfold enc bitsL
  rw [List.replicate_succ, List.ofFn_succ]
  simp only [undigits, prodL_replicate]

theorem val_succ {k : ℕ} (x : St (k + 1)) :
    val x = ((x 0 : Fin 2) : ℕ) * 2 ^ k + val (fun i : Fin k => x i.succ) := by
  unfold val
  rw [Fin.sum_univ_succ]
  congr 1
  apply Finset.sum_congr rfl
  intro l _
  congr 2
  simp only [Fin.val_succ]
  omega

theorem val_eq_enc : ∀ {k : ℕ} (x : St k), val x = enc x
  | 0, x => by simp [val, enc, bitsL, undigits]
  | k + 1, x => by rw [val_succ, enc_succ, val_eq_enc]

/-- the row/column index of `dftMat` is the flat index `stEquiv` of the basis state -/
theorem val_eq_stEquiv {k : ℕ} (x : St k) : val x = (stEquiv k x).val := val_eq_enc x

end QipVerif.QftDen
