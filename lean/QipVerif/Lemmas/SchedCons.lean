import QipVerif.Model.SchedCons
import QipVerif.Lemmas.SchedPulseW
import QipVerif.Lemmas.SchedFull
/-!
# Constructor arguments of `Scheduler` (C05, C11): `constraint_functions`, `method`

* `shOf` ("not `apply_constraint`", with `apply_constraint` regenerated from the source): `shOf_false_iff`
  (the conjunction), `shOf_default` (the default list is the relation of all other theorems), `shOf_of_qubit`
  (`qubit_constraint` in the list ⇒ sharing a qubit is forbidden);
* the clauses of C05 / C11 for an arbitrary constraint list, assembled from `SchedGateW` / `SchedPulseW`.
-/
namespace QipVerif.Sched
open Gen.SchedRule

theorem shOf_false_iff (fs : List CFun) (ns : List Ins) (i j : Nat) :
    shOf fs ns i j = false ↔ ∀ f ∈ fs, f.eval ns i j = true := by
  simp [shOf, applyConstraint, List.all_eq_true]

theorem shOf_default (ns : List Ins) : shOf [.qubit] ns = shareIdx ns := by
  funext i j
  simp [shOf, applyConstraint, CFun.eval]

theorem shOf_nil (ns : List Ins) (i j : Nat) : shOf [] ns i j = false := by
  simp [shOf, applyConstraint]

theorem shOf_of_qubit {fs : List CFun} (h : CFun.qubit ∈ fs) (ns : List Ins) (i j : Nat)
    (hs : shareIdx ns i j = true) : shOf fs ns i j = true := by
  cases hsh : shOf fs ns i j with
  | true => rfl
  | false =>
    have := (shOf_false_iff fs ns i j).mp hsh _ h
    simp [CFun.eval, hs] at this

theorem cyclesGenW_default (alap allowPerm : Bool) (ns : List Ins) (O2 : Nat → List Nat → List Nat) :
    cyclesGenW (shOf [.qubit] ns) alap allowPerm ns O2 = cyclesGen alap allowPerm ns O2 := by
  rw [shOf_default]; rfl

theorem startsGenW_default (alap allowPerm fx : Bool) (ns : List Ins) (O2 : Nat → List Nat → List Nat) :
    startsGenW (shOf [.qubit] ns) alap allowPerm fx ns O2 = startsGen alap allowPerm fx ns O2 := by
  rw [shOf_default]; rfl

variable (sh : Nat → Nat → Bool) (alap allowPerm : Bool) (ns : List Ins) (O2 : Nat → List Nat → List Nat)

/-- reversed-product form of `cyclesGenW_prod` -/
theorem cyclesGenW_prod_rev {M : Type*} [Monoid M] (g : ℕ → M) (hO : ∀ r l, (O2 r l).Perm l)
    (H1 : ∀ i j, i < ns.length → j < ns.length → shareIdx ns i j = false → Commute (g i) (g j))
    (H2 : ∀ i j, i < j → j < ns.length → shareIdx ns i j = true → commIdx allowPerm ns j i = true →
      Commute (g i) (g j)) :
    ((cyclesGenW sh alap allowPerm ns O2).flatten.map g).reverse.prod = ((List.range ns.length).map g).reverse.prod := by
  have h := cyclesGenW_prod sh alap allowPerm ns (fun i => MulOpposite.op (g i)) O2 hO
    (fun i j hi hj hs => (H1 i j hi hj hs).op) (fun i j hij hj hs hc => (H2 i j hij hj hs hc).op)
  have key : ∀ l : List ℕ, (l.map (fun i => MulOpposite.op (g i))).prod = MulOpposite.op ((l.map g).reverse.prod) := by
    intro l
    rw [MulOpposite.op_list_prod, List.map_reverse, List.reverse_reverse, List.map_map]
    rfl
  rw [key, key] at h
  exact MulOpposite.op_injective h

end QipVerif.Sched

namespace QipVerif
open Matrix Sched

/-- `schedule_den_full` for an arbitrary relation `sh` ("not `apply_constraint`"): the same-unitary clause does not
depend on the constraint functions -/
theorem schedule_den_full_W {N : ℕ} (ρ : ℕ → ℝ) (sh : ℕ → ℕ → Bool) (alap allowPerm : Bool) (ns : List Ins)
    (g : ℕ → Matrix (St N) (St N) ℂ) (O2 : ℕ → List ℕ → List ℕ) (hO : ∀ r l, (O2 r l).Perm l)
    (hF : ∀ a ∈ ns, a.name = "FREDKIN" → a.sc = false)
    (hok : ∀ i, i < ns.length → GateOK N ρ (getIns ns i) (g i)) :
    ((cyclesGenW sh alap allowPerm ns O2).flatten.map g).reverse.prod = ((List.range ns.length).map g).reverse.prod := by
  have hmem : ∀ i, i < ns.length → getIns ns i ∈ ns := by
    intro i hi
    simp [getIns, List.getD_eq_getElem?_getD, hi]
  apply cyclesGenW_prod_rev sh alap allowPerm ns O2 g hO
  · intro i j hi hj hs
    exact commute_of_share_false ((hok i hi).supported ρ) ((hok j hj).supported ρ) hs
  · intro i j hij hj hs hc
    have hi : i < ns.length := by omega
    simp only [commIdx, Bool.and_eq_true] at hc
    have hc' : commRules (getIns ns i) (getIns ns j) = true := by rw [commRules_symm]; exact hc.2
    exact gateOK_pair_commute ρ (hok i hi) (hok j hj) (hF _ (hmem i hi)) (hF _ (hmem j hj)) hs hc'

end QipVerif
