import QipVerif.Lemmas.SimRun
/-!
# `run` and `run_statistics` of a well-formed circuit in terms of the branch semantics
-/
namespace QipVerif.Sim
open QipVerif.Heap
variable {Q P : Type}

/-- a measurement record for the circuit: one entry in `{0,1}` per measurement -/
def IsRecord (c : Circuit) (r : List Int) : Prop := r.length = c.numMeas ∧ ∀ i ∈ r, i = 0 ∨ i = 1

/-- the branch of record `r` from initial bits `bits0` and state `st` -/
def branch [One P] [Mul P] (B : Backend Q P) (c : Circuit) (bits0 : Option (List Int)) (st : Q) (r : List Int) :
    Br Q P :=
  brRun B { bits := bits0, st := some st, prob := 1, rest := r } c.ops

theorem initBits_ok (c : Circuit) (arg : Option (List Int)) : BitsOk c.ncb (initBits c arg) := by
  unfold initBits
  have zeros : BitsOk c.ncb (if c.ncb > 0 then some (List.replicate c.ncb 0) else none) := by
    by_cases h : c.ncb > 0
    · simp [h, BitsOk]
    · simp only [h, ↓reduceIte, BitsOk]; omega
  cases arg with
  | none => exact zeros
  | some l =>
    simp only
    by_cases h : (truthy l && l.length == c.ncb) = true
    · simp only [h, ↓reduceIte, BitsOk]
      simp only [Bool.and_eq_true, beq_iff_eq, truthy, Bool.not_eq_eq_eq_not, Bool.not_true,
        List.isEmpty_eq_false_iff] at h
      refine ⟨h.2, ?_⟩
      rw [← h.2]; exact List.length_pos_iff.mpr h.1
    · simp only [h, Bool.false_eq_true, ↓reduceIte]; exact zeros

theorem numMeas_eq (c : Circuit) : c.numMeas = numMeasOps c.ops := rfl

/-- a run of a well-formed circuit whose outcomes are the record `r` — prescribed through
`measure_results`, or drawn as a prefix of the random stream — returns the branch of `r` -/
theorem coreRun_eq_branch [One P] [Mul P] (B : Backend Q P) (cfg : Cfg) (c : Circuit) (hc : c.Valid)
    (bits0 : Option (List Int)) (hb : BitsOk c.ncb bits0) (st : Q) (r : List Int) (hr : IsRecord c r)
    (mr : Option (List Int)) (rng : List Int)
    (hsrc : mr = some r ∨ (mresTruthy mr = false ∧ ∃ tail, rng = r ++ tail)) :
    (coreRun B cfg .sv c bits0 st mr rng).res = .ok ((branch B c bits0 st r).st, (branch B c bits0 st r).prob) ∧
    (coreRun B cfg .sv c bits0 st mr rng).bits = (branch B c bits0 st r).bits := by
  have hrel : Rel c.ncb (⟨bits0, fields0 st mr⟩ : Core Q P) rng ⟨bits0, some st, 1, r⟩ := by
    refine ⟨rfl, rfl, rfl, ?_, Or.inl rfl, hb, rfl⟩
    rcases hsrc with h | ⟨h1, h2⟩
    · subst h
      by_cases hne : r = []
      · subst hne; right; exact ⟨rfl, rng, rfl⟩
      · left
        refine ⟨?_, rfl⟩
        simp [mresTruthy, truthy, fields0, hne]
    · right; exact ⟨h1, h2⟩
  have := coreRunLoop_eq_brRun B cfg c hc c.ops ⟨bits0, fields0 st mr⟩ rng ⟨bits0, some st, 1, r⟩
    (by simp [fields0]) hrel (by simp [fields0]) (by rw [← numMeas_eq]; exact hr.1) hr.2
  obtain ⟨he, hbits, hst, hprob, hform, _⟩ := this
  unfold coreRun branch
  simp only [he]
  obtain ⟨f', hg, hg1, hg2, _⟩ := getter_good cfg _ hform
  rw [hg]
  simp only
  exact ⟨by rw [hg1, hg2, hst, hprob], hbits⟩

theorem records_isRecord (c : Circuit) : ∀ r ∈ records c.numMeas, IsRecord c r := by
  have : ∀ m, ∀ r ∈ records m, r.length = m ∧ ∀ i ∈ r, i = 0 ∨ i = 1 := by
    intro m
    induction m with
    | zero => intro r hr; simp [records] at hr; subst hr; simp
    | succ m ih =>
      intro r hr
      simp only [records, List.mem_append, List.mem_map] at hr
      rcases hr with ⟨r', hr', rfl⟩ | ⟨r', hr', rfl⟩
      · obtain ⟨h1, h2⟩ := ih r' hr'
        refine ⟨by simp [h1], ?_⟩
        intro i hi
        rcases List.mem_cons.mp hi with rfl | hi
        · exact Or.inl rfl
        · exact h2 i hi
      · obtain ⟨h1, h2⟩ := ih r' hr'
        refine ⟨by simp [h1], ?_⟩
        intro i hi
        rcases List.mem_cons.mp hi with rfl | hi
        · exact Or.inr rfl
        · exact h2 i hi
  exact this c.numMeas

/-- one accumulated entry of `run_statistics` read through the heap -/
def derefEntry (h : Heap) (e : Option Q × P × Option Ref) : Option Q × P × Option (List Int) :=
  (e.1, e.2.1, e.2.2.map h.get)

/-- what `run_statistics` accumulates for a record -/
def branchEntry [One P] [Mul P] (B : Backend Q P) (c : Circuit) (bits0 : Option (List Int)) (st : Q) (r : List Int) :
    Option Q × P × Option (List Int) :=
  ((branch B c bits0 st r).st, (branch B c bits0 st r).prob, (branch B c bits0 st r).bits)

theorem heap_get_prefix (h h' : Heap) (extra : List (List Int)) (hh : h'.cells = h.cells ++ extra) (r : Ref)
    (hr : r < h.size) : h'.get r = h.get r := by
  simp only [Heap.get, Heap.size, List.getD_eq_getElem?_getD] at *
  rw [hh, List.getElem?_append_left hr]

/-- **The loop of `run_statistics`** on a well-formed circuit with lists of its own: no exception; the heap only
grows; the entries, read through the final heap, are the branches of the records in order; every list
reference handed out is new and no two are the same. -/
theorem statLoop_fresh [One P] [Mul P] (B : Backend Q P) (cfg : Cfg) (c : Circuit) (hc : c.Valid) (st : Q)
    (cb : Option Ref) (hf : Fresh cfg cb) :
    ∀ (recs : List (List Int)) (w : World Q P) (acc : List (Option Q × P × Option Ref)),
      (∀ r ∈ recs, IsRecord c r) → CbOk w cb →
      ∃ w' new extra,
        statLoop B cfg .sv c st cb recs w acc = (w', .ok (acc ++ new)) ∧
        w'.heap.cells = w.heap.cells ++ extra ∧
        new.map (derefEntry w'.heap) = recs.map (branchEntry B c (initBits c (cb.map w.heap.get)) st) ∧
        (∀ e ∈ new, ∀ r : Nat, e.2.2 = some r → w.heap.size ≤ r ∧ r < w'.heap.size) ∧
        (new.filterMap (·.2.2)).Nodup ∧ w'.comp = w.comp ∧ w'.proc = w.proc := by
  intro recs
  induction recs with
  | nil =>
    intro w acc _ _
    exact ⟨w, [], [], by simp [statLoop], by simp, rfl, by simp, by simp, rfl, rfl⟩
  | cons r rs ih =>
    intro w acc hrec hcb
    have hr : IsRecord c r := hrec r (List.mem_cons_self ..)
    unfold statLoop
    rw [run_fresh B cfg .sv c w st cb (some r) hf]
    dsimp only
    generalize hb0 : initBits c (cb.map w.heap.get) = bits0
    have hbok : BitsOk c.ncb bits0 := by rw [← hb0]; exact initBits_ok c _
    obtain ⟨hres, hbits⟩ := coreRun_eq_branch B cfg c hc bits0 hbok st r hr (some r) w.rng (Or.inl rfl)
    generalize hro : coreRun B cfg .sv c bits0 st (some r) w.rng = ro at *
    obtain ⟨cbf, hmk⟩ : ∃ cbf, mkResult ro (ro.bits.map (fun _ => w.heap.size)) =
        .ok { states := [(branch B c bits0 st r).st], probs := [(branch B c bits0 st r).prob], cbits := cbf } := by
      unfold mkResult; rw [hres]; exact ⟨_, rfl⟩
    rw [hmk]
    simp only
    -- the world after this record
    generalize hw1 : ({ w with heap := ⟨w.heap.cells ++ ro.bits.toList⟩,
                               sim := some { cbits := ro.bits.map (fun _ => w.heap.size), f := ro.f },
                               rng := ro.rng, log := w.log ++ ro.evs } : World Q P) = w1
    have hw1heap : w1.heap.cells = w.heap.cells ++ ro.bits.toList := by rw [← hw1]
    have hw1sim : w1.sim = some { cbits := ro.bits.map (fun _ => w.heap.size), f := ro.f } := by rw [← hw1]
    have hw1comp : w1.comp = w.comp ∧ w1.proc = w.proc := by rw [← hw1]; exact ⟨rfl, rfl⟩
    have hsize1 : w.heap.size ≤ w1.heap.size := by simp [Heap.size, hw1heap]
    have hcb1 : CbOk w1 cb := fun x hx => Nat.lt_of_lt_of_le (hcb x hx) hsize1
    have hsame : initBits c (cb.map w1.heap.get) = bits0 := by
      rw [← hb0]
      cases cb with
      | none => rfl
      | some x =>
        simp only [Option.map_some]
        rw [heap_get_prefix w.heap w1.heap _ hw1heap x (hcb x rfl)]
    obtain ⟨w', new, extra, hloop, hheap, hvals, hrefs, hnodup, hcomp, hproc⟩ :=
      ih w1 (acc ++ [((branch B c bits0 st r).st, (branch B c bits0 st r).prob,
                      ro.bits.map (fun _ => w.heap.size))])
        (fun x hx => hrec x (List.mem_cons_of_mem _ hx)) hcb1
    rw [hsame] at hvals
    refine ⟨w', ((branch B c bits0 st r).st, (branch B c bits0 st r).prob, ro.bits.map (fun _ => w.heap.size)) :: new,
      ro.bits.toList ++ extra, ?_, ?_, ?_, ?_, ?_, ?_, ?_⟩
    · rw [hloop]; simp
    · rw [hheap, hw1heap, List.append_assoc]
    · simp only [List.map_cons, hvals, List.cons.injEq, and_true]
      unfold derefEntry branchEntry
      simp only [Prod.mk.injEq, true_and]
      rw [← hbits]
      cases hrb : ro.bits with
      | none => rfl
      | some l =>
        simp only [Option.map_some, Option.some.injEq]
        have : w'.heap.cells = w.heap.cells ++ ([l] ++ extra) := by
          rw [hheap, hw1heap, hrb]; simp
        simp [Heap.get, Heap.size, this, List.getD_eq_getElem?_getD]
    · intro e he x hx
      rcases List.mem_cons.mp he with rfl | he
      · cases hrb : ro.bits with
        | none => simp [hrb] at hx
        | some l =>
          simp only [hrb, Option.map_some, Option.some.injEq] at hx
          have : w'.heap.size = w.heap.size + 1 + extra.length := by
            simp [Heap.size, hheap, hw1heap, hrb]; omega
          subst hx
          refine ⟨Nat.le_refl _, ?_⟩
          rw [this]
          exact Nat.lt_of_lt_of_le (Nat.lt_succ_self _) (Nat.le_add_right _ _)
      · obtain ⟨h1, h2⟩ := hrefs e he x hx
        exact ⟨Nat.le_trans hsize1 h1, h2⟩
    · simp only [List.filterMap_cons]
      cases hrb : ro.bits with
      | none => simpa using hnodup
      | some l =>
        simp only [Option.map_some, List.nodup_cons]
        refine ⟨?_, hnodup⟩
        intro hmem
        obtain ⟨e, he, hex⟩ := List.mem_filterMap.mp hmem
        have := (hrefs e he w.heap.size hex).1
        have : w1.heap.size = w.heap.size + 1 := by simp [Heap.size, hw1heap, hrb]
        omega
    · rw [hcomp]; exact hw1comp.1
    · rw [hproc]; exact hw1comp.2

theorem records_ne_nil (m : Nat) : records m ≠ [] := by
  induction m with
  | zero => simp [records]
  | succ m ih => simp [records, ih]

/-- **`run_statistics`** on a well-formed circuit with lists of its own. `new` is the list of all records'
entries (state, probability, reference of the record's own bit list); the result keeps those whose state is
not `None`. -/
theorem runStatistics_fresh [One P] [Mul P] (B : Backend Q P) (cfg : Cfg) (c : Circuit) (hc : c.Valid) (st : Q)
    (cb : Option Ref) (hf : Fresh cfg cb) (w : World Q P) (hcb : CbOk w cb) :
    ∃ (w' : World Q P) (new : List (Option Q × P × Option Ref)) (extra : List (List Int)),
      runStatistics B cfg .sv c w st cb =
        (w', .ok { states := (new.filter (fun x => x.1.isSome)).map (·.1),
                   probs := (new.filter (fun x => x.1.isSome)).map (·.2.1),
                   cbits := some ((new.filter (fun x => x.1.isSome)).map (·.2.2)) }) ∧
      w'.heap.cells = w.heap.cells ++ extra ∧
      new.map (derefEntry w'.heap) =
        (records c.numMeas).map (branchEntry B c (initBits c (cb.map w.heap.get)) st) ∧
      (∀ e ∈ new, ∀ r : Nat, e.2.2 = some r → w.heap.size ≤ r ∧ r < w'.heap.size) ∧
      (new.filterMap (·.2.2)).Nodup ∧ w'.comp = w.comp ∧ w'.proc = w.proc := by
  obtain ⟨w', new, extra, hloop, h1, h2, h3, h4, h5, h6⟩ :=
    statLoop_fresh B cfg c hc st cb hf (records c.numMeas) w [] (records_isRecord c) hcb
  refine ⟨w', new, extra, ?_, h1, h2, h3, h4, h5, h6⟩
  unfold runStatistics
  rw [hloop]
  simp only [List.nil_append]
  have hne : new ≠ [] := by
    intro h
    have := congrArg List.length h2
    simp [h] at this
    exact records_ne_nil _ (List.length_eq_zero_iff.mp this.symm)
  have : new.isEmpty = false := by
    cases new with
    | nil => exact absurd rfl hne
    | cons _ _ => rfl
  simp [this]

end QipVerif.Sim
