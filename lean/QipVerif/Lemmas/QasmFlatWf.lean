import QipVerif.Lemmas.QasmImportFaithful
/-!
# Well-formedness of the flat operations of an accepted program of W₀ (C04)

What `flatten` guarantees about each flat operation of a program of the class W₀: qubits of the
register, pairwise distinct; a called gate is a `qelib1.inc` gate with the right numbers of
parameters and qubits; condition values fit their register (under `ifRangeOk`); measurements are
unconditioned.  Needed to place the operators of the flat operations on the `N`-qubit register.
-/
namespace QipVerif.Qasm.Import
open QipVerif.Qasm

/-- registers lie inside `0 … total-1` -/
def RegsOk (rs : Regs) : Prop := ∀ e ∈ rs.regs, e.2.1 + e.2.2 ≤ rs.total

theorem regsOk_empty : RegsOk {} := by intro e he; cases he

theorem regsOk_add (rs : Regs) (nm : Str) (k : Nat) (h : RegsOk rs) : RegsOk (rs.add nm k) := by
  intro e he
  simp only [Regs.add, List.mem_append, List.mem_singleton] at he
  rcases he with he | rfl
  · have := h e he
    simp only [Regs.add]; omega
  · simp [Regs.add]

theorem regsOk_find {rs : Regs} (h : RegsOk rs) {r : Str} {s n : Nat} (hf : rs.find? r = some (s, n)) :
    s + n ≤ rs.total := by
  simp only [Regs.find?, Option.map_eq_some_iff] at hf
  obtain ⟨e, he, h2⟩ := hf
  have := h e (List.mem_of_find?_eq_some he)
  rw [h2] at this
  exact this

/-- every index of a resolved argument is a qubit of the register -/
def resBound (N : Nat) : Nat ⊕ List Nat → Prop
  | .inl i => i < N
  | .inr l => ∀ q ∈ l, q < N

theorem resolveArg_bound {rs : Regs} (h : RegsOk rs) (a : Arg) (x : Nat ⊕ List Nat)
    (hx : resolveArg rs a = .ok x) : resBound rs.total x := by
  cases a with
  | whole r =>
    simp only [resolveArg] at hx
    cases hf : rs.find? r with
    | none => simp [hf] at hx
    | some v =>
      obtain ⟨s, n⟩ := v
      simp only [hf, Except.ok.injEq] at hx
      subst hx
      have := regsOk_find h hf
      intro q hq
      simp only [List.mem_map, List.mem_range] at hq
      obtain ⟨j, hj, rfl⟩ := hq
      omega
  | idx r i =>
    simp only [resolveArg] at hx
    cases hf : rs.find? r with
    | none => simp [hf] at hx
    | some v =>
      obtain ⟨s, n⟩ := v
      simp only [hf] at hx
      split at hx
      · rename_i hi
        simp only [Except.ok.injEq] at hx
        subst hx
        have := regsOk_find h hf
        show s + i < rs.total
        omega
      · cases hx

theorem resolveArgs_bound {rs : Regs} (h : RegsOk rs) : ∀ (as : List Arg) (xs : List (Nat ⊕ List Nat)),
    resolveArgs rs as = .ok xs → ∀ x ∈ xs, resBound rs.total x := by
  intro as
  induction as with
  | nil => intro xs hx x hm; simp [resolveArgs] at hx; subst hx; cases hm
  | cons a as ih =>
    intro ys hy x hm
    obtain ⟨x0, xs', h1, h2, rfl⟩ := resolveArgs_cons_inv hy
    rcases List.mem_cons.mp hm with rfl | hm
    · exact resolveArg_bound h a _ h1
    · exact ih xs' h2 x hm

theorem pick_bound {N : Nat} {x : Nat ⊕ List Nat} (hb : resBound N x) (j : Nat)
    (hj : ∀ l, x = .inr l → j < l.length) : pick j x < N := by
  cases x with
  | inl i => exact hb
  | inr l =>
    have hjl := hj l rfl
    simp only [pick, List.getD_eq_getElem?_getD, List.getElem?_eq_getElem hjl, Option.getD_some]
    exact hb _ (List.getElem_mem hjl)

/-- the tuples of a broadcast: pairwise distinct qubits of the register -/
theorem broadcast_wf {N : Nat} {xs : List (Nat ⊕ List Nat)} {ts : List (List Nat)}
    (hb : ∀ x ∈ xs, resBound N x) (h : broadcast xs = .ok ts) :
    ∀ t ∈ ts, t.Nodup ∧ ∀ q ∈ t, q < N := by
  intro t ht
  simp only [broadcast, bind, Except.bind, pure, Except.pure] at h
  cases hs : broadcastSize xs with
  | error e => simp [hs] at h
  | ok r =>
    simp only [hs] at h
    cases r with
    | none =>
      simp only at h
      split at h
      · rename_i hnd
        simp only [Except.ok.injEq] at h; subst h
        simp only [List.mem_singleton] at ht; subst ht
        refine ⟨by simpa using hnd, ?_⟩
        intro q hq
        obtain ⟨x, hx, rfl⟩ := List.mem_map.mp hq
        exact pick_bound (hb x hx) 0 (fun l hl => absurd (hl ▸ hx) (broadcastSize_none hs l))
      · cases h
    | some m =>
      simp only at h
      split at h
      · rename_i hnd
        simp only [Except.ok.injEq] at h; subst h
        obtain ⟨j, hj, rfl⟩ := List.mem_map.mp ht
        have hj' : j < m := by simpa using hj
        refine ⟨?_, ?_⟩
        · have := List.all_eq_true.mp hnd _ ht
          simpa using this
        · intro q hq
          obtain ⟨x, hx, rfl⟩ := List.mem_map.mp hq
          exact pick_bound (hb x hx) j (fun l hl => by
            rw [(broadcastSize_some hs).1 l (hl ▸ hx)]; exact hj')
      · cases h

/-- **what the standard guarantees about one flat operation** on an `N`-qubit register -/
def CondWf (c : Option Cond) : Prop := condUnsat c = true ∨ cvBad (ccOf c) (cvOf c) = false

def FlatWf (N : Nat) : FlatOp → Prop
  | .U c _ _ _ q => q < N ∧ CondWf c
  | .CX c a b => a < N ∧ b < N ∧ a ≠ b ∧ CondWf c
  | .call c n ps t =>
    (∃ d, qelib1.reverse.find? (fun x => x.name == n) = some d ∧ t.length = d.qargs.length ∧
      ps.length = d.params.length) ∧ t.Nodup ∧ (∀ q ∈ t, q < N) ∧ CondWf c
  | .measure c _ _ => c = none
  | .barrier _ => True

theorem flattenQOp_wf {env : Env} (hg : env.gates = qelib1.reverse) (hq : RegsOk env.qregs)
    (cnd : Option (Str × Nat)) (op : QOp) (fl : List FlatOp)
    (hop : isOp (match cnd with | none => Stmt.qop op | some (c, k) => Stmt.ifc c k op) = true)
    (h : flattenQOp env cnd op = .ok fl)
    (hcv : ∀ cond, condOf env cnd = .ok cond → CondWf cond) :
    ∀ f ∈ fl, FlatWf env.qregs.total f := by
  intro f hf
  cases op with
  | U a b l q =>
    obtain ⟨cond, xs, ts, hcond, _, _, hra, hbc, rfl⟩ := flatten_U_inv h
    obtain ⟨t, ht, rfl⟩ := List.mem_map.mp hf
    have hw := broadcast_wf (resolveArgs_bound hq [q] xs hra) hbc t ht
    have hlen : t.length = 1 := by
      rw [broadcast_length hbc t ht, resolveArgs_length [q] xs hra]; rfl
    obtain ⟨x, rfl⟩ : ∃ x, t = [x] := ⟨_, length_one hlen⟩
    exact ⟨hw.2 x (by simp), hcv cond hcond⟩
  | CX a b =>
    obtain ⟨cond, xs, ts, hcond, hra, hbc, rfl⟩ := flatten_CX_inv h
    obtain ⟨t, ht, rfl⟩ := List.mem_map.mp hf
    have hw := broadcast_wf (resolveArgs_bound hq [a, b] xs hra) hbc t ht
    have hlen : t.length = 2 := by
      rw [broadcast_length hbc t ht, resolveArgs_length [a, b] xs hra]; rfl
    obtain ⟨x, y, rfl⟩ : ∃ x y, t = [x, y] := ⟨_, _, length_two hlen⟩
    refine ⟨hw.2 x (by simp), hw.2 y (by simp), ?_, hcv cond hcond⟩
    have := hw.1
    simp only [List.nodup_cons, List.mem_singleton, List.not_mem_nil, not_false_eq_true, List.nodup_nil,
      and_true] at this
    simpa using this
  | call n ps qs =>
    obtain ⟨cond, sg, xs, ts, hcond, hsig, hnp, hnq, _, _, hra, hbc, rfl⟩ := flatten_call_inv h
    obtain ⟨t, ht, rfl⟩ := List.mem_map.mp hf
    have hw := broadcast_wf (resolveArgs_bound hq qs xs hra) hbc t ht
    simp only [Env.sig?, hg] at hsig
    cases hfd : qelib1.reverse.find? (fun d => d.name == n) with
    | none => simp [hfd] at hsig
    | some d =>
      simp only [hfd, Option.map_some, Option.some.injEq] at hsig
      subst hsig
      refine ⟨⟨d, hfd, ?_, ?_⟩, hw.1, hw.2, hcv cond hcond⟩
      · rw [broadcast_length hbc t ht, resolveArgs_length qs xs hra]
        exact hnq.symm
      · exact hnp.symm
  | measure q cb =>
    cases cnd with
    | some ck => simp [isOp] at hop
    | none =>
      simp only [flattenQOp, condOf, bind, Except.bind] at h
      cases hx : resolveArg env.qregs q with
      | error e => simp [hx] at h
      | ok x =>
        cases hy : resolveArg env.cregs cb with
        | error e => simp [hx, hy] at h
        | ok y =>
          simp only [hx, hy] at h
          cases x with
          | inl i =>
            cases y with
            | inl j =>
              simp only [Except.ok.injEq] at h; subst h
              simp only [List.mem_singleton] at hf; subst hf; rfl
            | inr m => cases h
          | inr l =>
            cases y with
            | inl j => cases h
            | inr m =>
              simp only at h
              split at h
              · simp only [Except.ok.injEq] at h; subst h
                obtain ⟨ij, _, rfl⟩ := List.mem_map.mp hf
                rfl
              · cases h
  | reset q => cases cnd <;> simp [isOp] at hop

theorem flattenStmt_wf {env env' : Env} (hg : env.gates = qelib1.reverse) (hq : RegsOk env.qregs)
    (s : Stmt) (hop : isOp s = true) (fl : List FlatOp) (h : flattenStmt env s = .ok (env', fl))
    (hk : ifRangeOk env s) : ∀ f ∈ fl, FlatWf env.qregs.total f := by
  cases s with
  | qop op =>
    simp only [flattenStmt, bind, Except.bind] at h
    cases hqo : flattenQOp env none op with
    | error e => simp [hqo] at h
    | ok fl' =>
      simp only [hqo, Except.ok.injEq, Prod.mk.injEq] at h
      obtain ⟨_, rfl⟩ := h
      exact flattenQOp_wf hg hq none op fl' hop hqo (fun cond hc => Or.inr (cvBad_none cond hc).2)
  | ifc c k op =>
    simp only [flattenStmt, bind, Except.bind] at h
    cases hqo : flattenQOp env (some (c, k)) op with
    | error e => simp [hqo] at h
    | ok fl' =>
      simp only [hqo, Except.ok.injEq, Prod.mk.injEq] at h
      obtain ⟨_, rfl⟩ := h
      refine flattenQOp_wf hg hq (some (c, k)) op fl' hop hqo (fun cond hc => ?_)
      simp only [condOf] at hc
      cases hfe : env.cregs.find? c with
      | none => simp [hfe] at hc
      | some v =>
        obtain ⟨s0, n⟩ := v
        simp only [hfe, Except.ok.injEq] at hc
        subst hc
        by_cases hs : condSkipped n k = true
        · left
          simpa [condUnsat] using hs
        · right
          have hs' : condSkipped n k = false := by simpa using hs
          exact (cvBad_some hfe (cond_fits hfe hk hs') hs' _ (by simp [condOf, hfe])).2
  | barrier qs =>
    simp only [flattenStmt, bind, Except.bind] at h
    cases hra : resolveArgs env.qregs qs with
    | error e => simp [hra] at h
    | ok xs =>
      simp only [hra, Except.ok.injEq, Prod.mk.injEq] at h
      obtain ⟨_, rfl⟩ := h
      intro f hf
      simp only [List.mem_singleton] at hf; subst hf
      trivial
  | _ => simp [isOp] at hop

theorem flattenFrom_wf {env : Env} (hg : env.gates = qelib1.reverse) (hq : RegsOk env.qregs) :
    ∀ (ops : List Stmt) (env' : Env) (fl : List FlatOp), ops.all isOp = true →
      (∀ s ∈ ops, ifRangeOk env s) → flattenFrom env ops = .ok (env', fl) →
      ∀ f ∈ fl, FlatWf env.qregs.total f := by
  intro ops
  induction ops with
  | nil =>
    intro env' fl _ _ h
    simp only [flattenFrom, Except.ok.injEq, Prod.mk.injEq] at h
    obtain ⟨_, rfl⟩ := h
    intro f hf; cases hf
  | cons s ss ih =>
    intro env' fl hall hkk h
    simp only [List.all_cons, Bool.and_eq_true] at hall
    obtain ⟨e1, o1, o2, h1, h2, rfl⟩ := flattenFrom_cons_inv h
    have he1 : e1 = env := flattenFrom_ops_env [s] env e1 o1 (by simp [hall.1]) (by
      simp [flattenFrom, bind, Except.bind, h1])
    subst he1
    intro f hf
    rcases List.mem_append.mp hf with hf | hf
    · exact flattenStmt_wf hg hq s hall.1 o1 h1 (hkk s (by simp)) f hf
    · exact ih env' o2 hall.2 (fun t ht => hkk t (by simp [ht])) h2 f hf

/-- declarations keep the registers inside the total and leave the gates alone -/
theorem decls_regsOk : ∀ (decls : List Stmt) (env env' : Env) (fl : List FlatOp),
    decls.all isDecl = true → RegsOk env.qregs → flattenFrom env decls = .ok (env', fl) →
    RegsOk env'.qregs ∧ env'.gates = env.gates := by
  intro decls
  induction decls with
  | nil =>
    intro env env' fl _ hr h
    simp only [flattenFrom, Except.ok.injEq, Prod.mk.injEq] at h
    obtain ⟨rfl, _⟩ := h
    exact ⟨hr, rfl⟩
  | cons d ds ih =>
    intro env env' fl hall hr h
    simp only [List.all_cons, Bool.and_eq_true] at hall
    obtain ⟨e1, o1, o2, h1, h2, rfl⟩ := flattenFrom_cons_inv h
    cases d with
    | qreg n k =>
      simp only [flattenStmt] at h1
      split at h1
      · cases h1
      · simp only [Except.ok.injEq, Prod.mk.injEq] at h1
        obtain ⟨rfl, _⟩ := h1
        obtain ⟨a, b⟩ := ih { env with qregs := env.qregs.add n k } env' o2 hall.2 (regsOk_add _ _ _ hr) h2
        exact ⟨a, b⟩
    | creg n k =>
      simp only [flattenStmt] at h1
      split at h1
      · cases h1
      · simp only [Except.ok.injEq, Prod.mk.injEq] at h1
        obtain ⟨rfl, _⟩ := h1
        obtain ⟨a, b⟩ := ih { env with cregs := env.cregs.add n k } env' o2 hall.2 hr h2
        exact ⟨a, b⟩
    | _ => simp [isDecl] at hall

/-- **flat operations of an accepted program of W₀ are well formed** -/
theorem flatten_wf (p : Program) (hw : W0 p) (env : Env) (fl : List FlatOp)
    (h : flatten p = .ok (env, fl)) (hk : ∀ s ∈ p, ifRangeOk env s) :
    env.gates = qelib1.reverse ∧ ∀ f ∈ fl, FlatWf env.qregs.total f := by
  obtain ⟨decls, ops, rfl, hd, ho⟩ := hw.shape
  obtain ⟨e0, o0, o1, h0, h1, rfl⟩ := flattenFrom_cons_inv (by simpa [flatten] using h)
  simp only [flattenStmt, Except.ok.injEq, Prod.mk.injEq] at h0
  obtain ⟨rfl, rfl⟩ := h0
  obtain ⟨e1, o2, o3, h2, h3, rfl⟩ := flattenFrom_cons_inv h1
  have hinc : flattenStmt ({} : Env) (.incl cs!"qelib1.inc") =
      .ok ({ ({} : Env) with gates := qelib1.reverse }, []) := rfl
  rw [hinc] at h2
  simp only [Except.ok.injEq, Prod.mk.injEq] at h2
  obtain ⟨rfl, rfl⟩ := h2
  obtain ⟨e2, o4, o5, h4, h5, rfl⟩ := flattenFrom_append_inv h3
  obtain ⟨hrq, hgt⟩ := decls_regsOk decls _ e2 o4 hd regsOk_empty h4
  obtain ⟨_, _, _, hfl, _⟩ := decls_rel decls {} _ e2 o4 hd
    ⟨fun _ => rfl, fun _ => rfl, rfl, rfl, fun _ r s n hh => by simp [Regs.find?] at hh⟩ h4
  subst hfl
  have hee : env = e2 := flattenFrom_ops_env ops e2 env o5 ho h5
  subst hee
  refine ⟨hgt, ?_⟩
  intro f hf
  simp only [List.nil_append] at hf
  exact flattenFrom_wf hgt hrq ops env o5 ho (fun s hs => hk s (by simp [hs])) h5 f hf

end QipVerif.Qasm.Import
