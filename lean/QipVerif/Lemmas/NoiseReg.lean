import QipVerif.Lemmas.NoiseJoint
/-! A register of any number of qubits, each with its own relaxation rates (C15): the explicit joint
solution for every (also entangled) initial matrix, and its validity. -/
namespace QipVerif.Noise
open Matrix Kronecker ComplexOrder

/-- index type of a register with one qubit per list entry: `Fin 2 × (Fin 2 × … × Unit)` -/
def Reg {α : Type} : List α → Type
  | [] => Unit
  | _ :: l => Fin 2 × Reg l

instance Reg.fintype {α : Type} : (l : List α) → Fintype (Reg l)
  | [] => inferInstanceAs (Fintype Unit)
  | _ :: l => have := Reg.fintype l; inferInstanceAs (Fintype (Fin 2 × Reg l))

instance Reg.decEq {α : Type} : (l : List α) → DecidableEq (Reg l)
  | [] => inferInstanceAs (DecidableEq Unit)
  | _ :: l => have := Reg.decEq l; inferInstanceAs (DecidableEq (Fin 2 × Reg l))

/-! ### linearity -/

section Lin
set_option linter.unusedSectionVars false
variable {m n : Type} [Fintype m] [DecidableEq m] [Fintype n] [DecidableEq n]

theorem dissipator_add (L R S : Matrix n n ℂ) : dissipator L (R + S) = dissipator L R + dissipator L S := by
  unfold dissipator
  simp only [Matrix.mul_add, Matrix.add_mul, smul_add]
  abel

theorem dissipator_smul_right (L : Matrix n n ℂ) (z : ℂ) (R : Matrix n n ℂ) :
    dissipator L (z • R) = z • dissipator L R := by
  unfold dissipator
  simp only [Matrix.mul_smul, Matrix.smul_mul, smul_sub, smul_add, smul_comm z (1 / 2 : ℂ)]

theorem generator_isLin (ops : List (ℝ × Matrix n n ℂ)) : IsLin (generator 0 ops) := by
  induction ops with
  | nil => exact ⟨fun R S => by simp [generator], fun z R => by simp [generator]⟩
  | cons o os ih =>
    have hc : ∀ R, generator 0 (o :: os) R = (o.1 : ℂ) • dissipator o.2 R + generator 0 os R := by
      intro R; simp [generator_zero_eq]
    constructor
    · intro R S
      rw [hc, hc, hc, ih.add, dissipator_add, smul_add]; abel
    · intro z R
      rw [hc, hc, ih.smul, dissipator_smul_right, smul_add, smul_comm]

theorem relaxGen2_eq_generator (γ1 γφ : ℝ) :
    relaxGen2 γ1 γφ = generator 0 [(γ1, a2), (γφ, n2)] := by
  funext ρ; simp [relaxGen2, generator]

theorem IsLin.liftL {L : Matrix m m ℂ → Matrix m m ℂ} (h : IsLin L) : IsLin (liftL (n := n) L) := by
  constructor
  · intro R S; ext a b
    have : blockL (R + S) a.2 b.2 = blockL R a.2 b.2 + blockL S a.2 b.2 := rfl
    simp [Noise.liftL, this, h.add]
  · intro z R; ext a b
    have : blockL (z • R) a.2 b.2 = z • blockL R a.2 b.2 := rfl
    simp [Noise.liftL, this, h.smul]

theorem IsLin.liftR {L : Matrix n n ℂ → Matrix n n ℂ} (h : IsLin L) : IsLin (liftR (m := m) L) := by
  constructor
  · intro R S; ext a b
    have : blockR (R + S) a.1 b.1 = blockR R a.1 b.1 + blockR S a.1 b.1 := rfl
    simp [Noise.liftR, this, h.add]
  · intro z R; ext a b
    have : blockR (z • R) a.1 b.1 = z • blockR R a.1 b.1 := rfl
    simp [Noise.liftR, this, h.smul]

theorem IsLin.add' {L M : Matrix n n ℂ → Matrix n n ℂ} (hL : IsLin L) (hM : IsLin M) :
    IsLin (fun ρ => L ρ + M ρ) := by
  constructor
  · intro R S; simp only [hL.add, hM.add]; abel
  · intro z R; simp only [hL.smul, hM.smul, smul_add]

end Lin

/-! ### the register -/

section Register
variable {α : Type} (rate : α → ℝ × ℝ)

/-- joint generator: the relaxation generator of every qubit (squared prefactors `(rate x).1` for
`destroy`, `(rate x).2` for `num`) lifted to its own tensor factor -/
noncomputable def regGen : (l : List α) → Matrix (Reg l) (Reg l) ℂ → Matrix (Reg l) (Reg l) ℂ
  | [] => fun _ => 0
  | x :: l => fun ρ =>
      liftL (m := Fin 2) (n := Reg l) (relaxGen2 (rate x).1 (rate x).2) ρ +
        liftR (m := Fin 2) (n := Reg l) (regGen l) ρ

/-- the collapse operators of the register, each embedded as `1 ⊗ … ⊗ A ⊗ … ⊗ 1` -/
noncomputable def regOps : (l : List α) → List (ℝ × Matrix (Reg l) (Reg l) ℂ)
  | [] => []
  | x :: l => jointOps (m := Fin 2) (n := Reg l) [((rate x).1, a2), ((rate x).2, n2)] (regOps l)

/-- explicit joint solution: the qubit solution on every factor -/
noncomputable def regSol : (l : List α) → ℝ → Matrix (Reg l) (Reg l) ℂ → Matrix (Reg l) (Reg l) ℂ
  | [] => fun _ ρ => ρ
  | x :: l => fun t ρ =>
      jointSol (n := Reg l) (rate x).1 ((rate x).1 / 2 + (rate x).2 / 2) (regSol l) t ρ

theorem regGen_eq_generator (l : List α) (ρ : Matrix (Reg l) (Reg l) ℂ) :
    regGen rate l ρ = generator 0 (regOps rate l) ρ := by
  induction l with
  | nil => simp [regGen, regOps, generator]
  | cons x l ih =>
    exact jointGen_eq_generator (n := Reg l) (rate x).1 (rate x).2 (regGen rate l) (regOps rate l) ih ρ

theorem regGen_isLin (l : List α) : IsLin (regGen rate l) := by
  induction l with
  | nil => exact ⟨fun _ _ => by simp [regGen], fun _ _ => by simp [regGen]⟩
  | cons x l ih =>
    have h1 : IsLin (liftL (m := Fin 2) (n := Reg l) (relaxGen2 (rate x).1 (rate x).2)) := by
      rw [relaxGen2_eq_generator]; exact (generator_isLin _).liftL
    exact h1.add' ih.liftR

/-- **every initial matrix of the register** (entangled or not): the explicit joint solution solves
the joint master equation -/
theorem regSol_solves (l : List α) (ρ0 : Matrix (Reg l) (Reg l) ℂ) :
    Solves (regGen rate l) (fun t => regSol rate l t ρ0) := by
  induction l with
  | nil => intro t i j; exact hasDerivAt_const t _
  | cons x l ih =>
    exact jointSol_solves (n := Reg l) (rate x).1 (rate x).2 (regGen rate l) (regSol rate l)
      (regGen_isLin rate l) ih ρ0

theorem regSol_zero (l : List α) (ρ0 : Matrix (Reg l) (Reg l) ℂ) : regSol rate l 0 ρ0 = ρ0 := by
  induction l with
  | nil => rfl
  | cons x l ih => exact jointSol_zero (n := Reg l) _ _ (regSol rate l) ih ρ0

theorem regSol_trace (l : List α) (t : ℝ) (ρ0 : Matrix (Reg l) (Reg l) ℂ) :
    (regSol rate l t ρ0).trace = ρ0.trace := by
  induction l with
  | nil => rfl
  | cons x l ih => exact jointSol_trace (n := Reg l) _ _ (regSol rate l) t ih ρ0

theorem regSol_smul (l : List α) (t : ℝ) :
    ∀ (z : ℂ) (ρ : Matrix (Reg l) (Reg l) ℂ), regSol rate l t (z • ρ) = z • regSol rate l t ρ := by
  induction l with
  | nil => intro z ρ; rfl
  | cons x l ih => intro z ρ; exact jointSol_smul (n := Reg l) _ _ t (regSol rate l) ih z ρ

/-- **each qubit decays independently**: if the initial matrix is a product between the first qubit
and the rest of the register, it stays such a product, the first qubit following its own explicit
solution and the rest its own joint solution -/
theorem regSol_kron (x : α) (l : List α) (t : ℝ) (ρA : Matrix (Fin 2) (Fin 2) ℂ)
    (ρR : Matrix (Reg l) (Reg l) ℂ) :
    regSol rate (x :: l) t (kroneckerMap (· * ·) ρA ρR) =
      kroneckerMap (· * ·) (relaxSol2 (rate x).1 ((rate x).1 / 2 + (rate x).2 / 2) ρA t)
        (regSol rate l t ρR) :=
  jointSol_kron (n := Reg l) _ _ t (regSol rate l) (regSol_smul rate l t) ρA ρR

/-- physical regime: non-negative squared prefactors at every qubit -/
def RatesOk (l : List α) : Prop := ∀ x ∈ l, 0 ≤ (rate x).1 ∧ 0 ≤ (rate x).2

theorem regSol_isKraus (l : List α) (h : RatesOk rate l) (t : ℝ) (ht : 0 ≤ t) :
    IsKraus (regSol rate l t) := by
  induction l with
  | nil => exact IsKraus.id
  | cons x l ih =>
    obtain ⟨hx1, hx2⟩ := h x (List.mem_cons_self ..)
    have ih' := ih (fun y hy => h y (List.mem_cons_of_mem _ hy))
    exact jointSol_isKraus (n := Reg l) (rate x).1 ((rate x).1 / 2 + (rate x).2 / 2) t hx1
      (by linarith) ht (regSol rate l) ih'

/-- **validity for every joint state**: the explicit joint solution maps density matrices of the
register (product or entangled) to density matrices, for all `t ≥ 0` -/
theorem regSol_density (l : List α) (h : RatesOk rate l) (t : ℝ) (ht : 0 ≤ t)
    {ρ0 : Matrix (Reg l) (Reg l) ℂ} (hρ : IsDensity ρ0) : IsDensity (regSol rate l t ρ0) :=
  ⟨(regSol_isKraus rate l h t ht).posSemidef hρ.1, by rw [regSol_trace]; exact hρ.2⟩

end Register

/-! ### an entangled state of two qubits (non-vacuity of the joint statements) -/

section Bell
variable {α : Type} (x y : α)

/-- amplitudes of `(|00⟩ + |11⟩)/√2`, up to the factor -/
def bellVec : Fin 2 × (Fin 2 × Unit) → ℂ := fun a => if a.1 = a.2.1 then 1 else 0

/-- the Bell state `(|00⟩ + |11⟩)(⟨00| + ⟨11|)/2` of a two-qubit register -/
noncomputable def bellState : Matrix (Reg [x, y]) (Reg [x, y]) ℂ :=
  ((1 / 2 : ℝ) • vecMulVec bellVec (star bellVec) : Matrix (Fin 2 × (Fin 2 × Unit)) (Fin 2 × (Fin 2 × Unit)) ℂ)

theorem bellState_density : IsDensity (bellState x y) := by
  constructor
  · exact (posSemidef_vecMulVec_self_star (R := ℂ) bellVec).smul (show (0 : ℝ) ≤ 1 / 2 by norm_num)
  · show Matrix.trace ((1 / 2 : ℝ) • vecMulVec bellVec (star bellVec) :
      Matrix (Fin 2 × (Fin 2 × Unit)) (Fin 2 × (Fin 2 × Unit)) ℂ) = 1
    simp [Matrix.trace, Fintype.sum_prod_type, vecMulVec_apply, bellVec]

/-- it is not a product state: the entry `⟨00|ρ|11⟩` is `1/2` although `⟨01|ρ|01⟩ = 0` -/
theorem bellState_entries :
    (bellState x y : Matrix (Fin 2 × (Fin 2 × Unit)) (Fin 2 × (Fin 2 × Unit)) ℂ) (0, 0, ()) (1, 1, ()) = 1 / 2 ∧
    (bellState x y : Matrix (Fin 2 × (Fin 2 × Unit)) (Fin 2 × (Fin 2 × Unit)) ℂ) (0, 1, ()) (0, 1, ()) = 0 := by
  constructor
  · show ((1 / 2 : ℝ) • vecMulVec bellVec (star bellVec) :
      Matrix (Fin 2 × (Fin 2 × Unit)) (Fin 2 × (Fin 2 × Unit)) ℂ) (0, 0, ()) (1, 1, ()) = 1 / 2
    simp [Matrix.smul_apply, vecMulVec_apply, bellVec]
  · show ((1 / 2 : ℝ) • vecMulVec bellVec (star bellVec) :
      Matrix (Fin 2 × (Fin 2 × Unit)) (Fin 2 × (Fin 2 × Unit)) ℂ) (0, 1, ()) (0, 1, ()) = 0
    simp [Matrix.smul_apply, vecMulVec_apply, bellVec]

end Bell

/-! ### the register built from the model's operators -/

/-- squared prefactors `(destroy, num)` of an admissible `(t1, t2)` -/
noncomputable def cfgRate (c : Option Frac × Option Frac) : ℝ × ℝ :=
  (popRate c.1, 2 * cohRate c.1 c.2 - popRate c.1)

def okOps : Except Err (List COp) → List COp
  | .ok l => l
  | .error _ => []

/-- the operators the model returns for the qubits `q, q+1, …` with per-qubit times `cfg`, each as a
matrix on its own tensor factor of the register -/
noncomputable def modelRegOps :
    (cfg : List (Option Frac × Option Frac)) → Nat → List (ℝ × Matrix (Reg cfg) (Reg cfg) ℂ)
  | [], _ => []
  | c :: cs, q =>
    jointOps (m := Fin 2) (n := Reg cs)
      ((okOps (qubitOps true 2 q c.1 c.2)).map fun o => (rateReal o, opMat2 o.kind))
      (modelRegOps cs (q + 1))

theorem modelRegOps_generator (cfg : List (Option Frac × Option Frac))
    (h : ∀ c ∈ cfg, Admissible c.1 c.2) (q : Nat) (ρ : Matrix (Reg cfg) (Reg cfg) ℂ) :
    generator 0 (modelRegOps cfg q) ρ = regGen cfgRate cfg ρ := by
  induction cfg generalizing q with
  | nil => simp [modelRegOps, regGen, generator]
  | cons c cs ih =>
    have ih' := fun ρ => ih (fun d hd => h d (List.mem_cons_of_mem _ hd)) (q + 1) ρ
    obtain ⟨ops, hops, hg, _⟩ := qubitOps_gen_all 2 q c.1 c.2 (h c (List.mem_cons_self ..))
    have h1 : generator 0 ((okOps (qubitOps true 2 q c.1 c.2)).map fun o => (rateReal o, opMat2 o.kind)) =
        relaxGen2 (cfgRate c).1 (cfgRate c).2 := by
      funext R; rw [hops]; exact hg R
    have h2 : generator 0 (modelRegOps cs (q + 1)) = regGen cfgRate cs := funext ih'
    have := generator_jointOps (m := Fin 2) (n := Reg cs)
      ((okOps (qubitOps true 2 q c.1 c.2)).map fun o => (rateReal o, opMat2 o.kind))
      (modelRegOps cs (q + 1)) ρ
    rw [h1, h2] at this
    exact this

theorem cfgRate_ok (cfg : List (Option Frac × Option Frac)) (h : ∀ c ∈ cfg, Admissible c.1 c.2) :
    RatesOk cfgRate cfg := fun c hc =>
  ⟨popRate_nonneg (h c hc), by have := popRate_le (h c hc); simp only [cfgRate]; linarith⟩

end QipVerif.Noise
