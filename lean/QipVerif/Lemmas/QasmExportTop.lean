import QipVerif.Lemmas.QasmExportLocal
/-!
# The exported program has the circuit's unitary (C10) — whole circuits

`denOps`: complex denotation of the fully expanded operations of a program (unconditioned
built-ins; barriers skipped).  `export_den_ops`: for every circuit of the exportable class the
standard's expansion of the exported program denotes the circuit's `denX` up to one global phase.
-/
namespace QipVerif.Qasm.Export
open QipVerif QipVerif.Qasm Matrix

/-- the unconditioned built-ins of a fully expanded program (`none`: a measurement or a condition) -/
def opsPrims : List Qasm.Op → Option (List Prim)
  | [] => some []
  | .prim none g :: r => (opsPrims r).map (g :: ·)
  | .barrier _ :: r => opsPrims r
  | _ :: _ => none

/-- unitary of a fully expanded program without measurements and conditions -/
noncomputable def denOps (N : ℕ) (ops : List Qasm.Op) : Option (Matrix (St N) (St N) ℂ) :=
  (opsPrims ops).bind (denPrims N ρ0)

theorem opsPrims_map (ps : List Prim) : opsPrims (ps.map (Qasm.Op.prim none)) = some ps := by
  induction ps with
  | nil => rfl
  | cons p ps ih => simp [opsPrims, ih]

theorem opsPrims_append (a b : List Qasm.Op) (pa pb : List Prim) (ha : opsPrims a = some pa)
    (hb : opsPrims b = some pb) : opsPrims (a ++ b) = some (pa ++ pb) := by
  induction a generalizing pa with
  | nil => simp only [opsPrims, Option.some.injEq] at ha; subst ha; simpa using hb
  | cons o r ih =>
    cases o with
    | prim c g =>
      cases c with
      | none =>
        simp only [opsPrims, Option.map_eq_some_iff] at ha
        obtain ⟨l, hl, rfl⟩ := ha
        simp [opsPrims, ih l hl]
      | some c => simp [opsPrims] at ha
    | barrier qs =>
      simp only [opsPrims] at ha
      simpa [opsPrims] using ih pa ha
    | measure c q b => simp [opsPrims] at ha

/-- the built-in `U` of a `QASMU` gate -/
theorem qasmu_den (N q : ℕ) (hq : q < N) (a b c : Expr) :
    denPrims N ρ0 [Prim.U a b c q] =
      some (PGate.den ⟨1, tgL N [q] 1 rfl (by simp) (by simpa using hq),
        mat1 (Gen.G.qasmu_gate_ (a.eval ρ0) (b.eval ρ0) (c.eval ρ0))⟩) := by
  have hp : primPG N ρ0 (Prim.U a b c q) =
      some ⟨1, tgL N [q] 1 rfl (by simp) (by simpa using hq), U1 (a.eval ρ0) (b.eval ρ0) (c.eval ρ0)⟩ := by
    simp only [primPG]
    rw [dif_pos hq]
  have hU : U1 (a.eval ρ0) (b.eval ρ0) (c.eval ρ0) =
      mat1 (Gen.G.qasmu_gate_ (a.eval ρ0) (b.eval ρ0) (c.eval ρ0)) := by
    rw [← qasmu_eq]; rfl
  simp [denPrims, List.mapM_cons, hp, denP, PGate.den, hU]

/-- a `QASMU` gate of the class -/
theorem flat_den_qasmu (c : Circuit) (g : Gate) (hgood : GoodGate c.N g) (hU : qasmName g.name = cs!"U")
    (hs : shapeOf g.name = some (0, 1, 3)) :
    ∃ prims A G, expandOp (finalEnv c).gates (flatOf g) = .ok (prims.map (Qasm.Op.prim none)) ∧
      denPrims c.N ρ0 prims = some A ∧ semX c.N (xOf g) = some G ∧ PhaseEqN A G.den := by
  have hsh := hgood.shape
  rw [hs] at hsh
  simp only [Option.some.injEq, Prod.mk.injEq] at hsh
  obtain ⟨h0, h1, h3⟩ := hsh
  obtain ⟨t, ts, ht⟩ := targets_ne_nil hgood
  have hc0 : ctrlList g = [] := List.eq_nil_of_length_eq_zero h0.symm
  have hts : ts = [] := by
    simp only [ht, Option.getD_some, List.length_cons] at h1
    exact List.eq_nil_of_length_eq_zero (by omega)
  subst hts
  have hqs : qubitsOf g = [t] := by simp [qubitsOf, ht, hc0]
  have htN : t < c.N := hgood.range t (by rw [hqs]; simp)
  have hname : gnameOf g.name = .QASMU := by
    have hmem := shapeOf_mem hs
    have hall : ∀ e ∈ exportShape, e.2 = (0, 1, 3) → e.1 = cs!"QASMU" := by decide
    have hn : g.name = cs!"QASMU" := hall _ hmem rfl
    rw [hn]; rfl
  match hx : argNums g.arg, h3 with
  | [a, b, c'], _ =>
    have hflat : expandOp (finalEnv c).gates (flatOf g) =
        .ok ([Prim.U (numExpr a) (numExpr b) (numExpr c') t].map (Qasm.Op.prim none)) := by
      simp [flatOf, hU, hx, hqs, expandOp]
    have hden := qasmu_den c.N t htN (numExpr a) (numExpr b) (numExpr c')
    have hcx : compactX (xOf g).name (xOf g).args =
        some ⟨1, mat1 (Gen.G.qasmu_gate_ (numVal a) (numVal b) (numVal c'))⟩ := by
      simp [xOf, hname, hx, compactX]
    have hq1 : (xOf g).qubits = [t] := by simp [xOf, hqs]
    have hsem := semX_of c.N (xOf g) 1 _ hcx (by rw [hq1]; rfl) (by rw [hq1]; simp) (by
      intro q hq; rw [hq1] at hq; simp only [List.mem_singleton] at hq; subst hq; exact htN)
    refine ⟨_, _, _, hflat, hden, hsem, ?_⟩
    have : (⟨1, tgL c.N (xOf g).qubits 1 (by rw [hq1]; rfl) (by rw [hq1]; simp) (by
        intro q hq; rw [hq1] at hq; simp only [List.mem_singleton] at hq; subst hq; exact htN),
        mat1 (Gen.G.qasmu_gate_ (numVal a) (numVal b) (numVal c'))⟩ : PGate c.N).den =
        (⟨1, tgL c.N [t] 1 rfl (by simp) (by simpa using htN),
          mat1 (Gen.G.qasmu_gate_ ((numExpr a).eval ρ0) ((numExpr b).eval ρ0) ((numExpr c').eval ρ0))⟩ : PGate c.N).den := by
      simp only [PGate.den]
      congr 1
      apply Tg.ext'
      intro i
      apply Fin.ext
      simp [tgL, hq1]
    rw [this]
    exact PhaseEqN.refl _

/-- **one gate of the class**: the expansion of its flat operation denotes its `semX` up to a phase -/
theorem flat_den (c : Circuit) (hc : GoodCircuit c) (g : Gate) (hg : Op.gate g ∈ c.ops) (hgood : GoodGate c.N g) :
    ∃ prims A G, expandOp (finalEnv c).gates (flatOf g) = .ok (prims.map (Qasm.Op.prim none)) ∧
      denPrims c.N ρ0 prims = some A ∧ semX c.N (xOf g) = some G ∧ PhaseEqN A G.den := by
  rcases qasmName_facts hgood with ⟨hU, hs⟩ | ⟨hU, _, _⟩
  · exact flat_den_qasmu c g hgood hU hs
  · have hUb : (qasmName g.name == cs!"U") = false := by simpa using hU
    have hne : g.name ≠ cs!"QASMU" := by
      intro hq
      apply hU
      rw [hq]
      decide
    obtain ⟨prims, A, G, h1, h2, h3, h4⟩ := gate_den c hc g hg hgood hU
      (local_sound_table _ (shapeOf_mem hgood.shape) hne)
    refine ⟨prims, A, G, ?_, h2, h3, h4⟩
    simp [flatOf, hUb, expandOp, h1, bind, Except.bind]

/-- **all gates**, by induction: expansion succeeds, both denotations exist, phases multiply -/
theorem flats_den (c : Circuit) (hc : GoodCircuit c) : ∀ ops : List Op, (∀ op ∈ ops, op ∈ c.ops) →
    ∃ prims A B, expandOps (finalEnv c).gates (ops.filterMap flatOfOp) = .ok (prims.map (Qasm.Op.prim none)) ∧
      denPrims c.N ρ0 prims = some A ∧ denX c.N (ops.filterMap xOfOp) = some B ∧ PhaseEqN A B := by
  intro ops
  induction ops with
  | nil =>
    intro _
    exact ⟨[], 1, 1, rfl, denPrims_nil _ _, denX_nil _, PhaseEqN.refl _⟩
  | cons op ops ih =>
    intro hsub
    obtain ⟨g, rfl, hgood⟩ := hc op (hsub op (by simp))
    obtain ⟨p1, A1, G, h1, h2, h3, h4⟩ := flat_den c hc g (hsub _ (by simp)) hgood
    obtain ⟨p2, A2, B2, k1, k2, k3, k4⟩ := ih (fun o ho => hsub o (by simp [ho]))
    refine ⟨p1 ++ p2, A2 * A1, B2 * G.den, ?_, denPrims_append _ _ _ _ _ _ h2 k2, ?_, PhaseEqN.mul k4 h4⟩
    · simp [List.filterMap_cons, flatOfOp, expandOps, h1, k1, bind, Except.bind]
    · simp only [List.filterMap_cons, xOfOp]
      exact denX_cons c.N (xOf g) _ G B2 h3 k3

/-- **Unitary of the exported program.**  For every circuit of the exportable class, the program the
exporter emits — parsed by the strict recogniser and expanded by the standard down to `U`/`CX` over
`qelib1.inc` and the emitted definitions — has, on the `c.N`-qubit register, the unitary `denX` of the
circuit up to ONE global phase. -/
theorem export_den_ops (c : Circuit) (hc : GoodCircuit c) :
    ∃ lines P ops A B, exportCore c = .ok lines ∧ parseLines lines = some P ∧
      denote P = .ok (c.N, (cregsOf c.numCbits).total, ops) ∧
      denOps c.N ops = some A ∧ denX c.N (c.ops.filterMap xOfOp) = some B ∧ PhaseEqN A B := by
  obtain ⟨lines, h1, h2⟩ := export_parse c hc
  have h3 := flatten_programOf c hc
  obtain ⟨prims, A, B, k1, k2, k3, k4⟩ := flats_den c hc c.ops (fun _ h => h)
  refine ⟨lines, programOf c, prims.map (Qasm.Op.prim none), A, B, h1, h2, ?_, ?_, k3, k4⟩
  · simp only [denote, h3, bind, Except.bind, k1]
    rfl
  · simp [denOps, opsPrims_map, k2]

/-! ## in terms of the circuit IR and `denG` -/

/-- the gate as a gate of the circuit IR: its parameter (if any) is the symbol `j` -/
def irGate (g : Gate) (j : ℕ) : QipVerif.Gate :=
  { name := gnameOf g.name, targets := g.targets.getD [], controls := ctrlList g,
    arg := if (argNums g.arg).isEmpty then {} else Ang.symb j }

/-- the circuit in the IR: the gate at position `i` carries the symbol `j + i` -/
def irList : List Op → ℕ → List QipVerif.Gate
  | [], _ => []
  | .gate g :: r, j => irGate g j :: irList r (j + 1)
  | _ :: r, j => irList r (j + 1)

/-- value of the (first) parameter of the operation at position `i` -/
noncomputable def paramAt (ops : List Op) (i : ℕ) : ℝ :=
  match ops[i]? with
  | some (.gate g) => ((argNums g.arg).map numVal).headD 0
  | _ => 0

theorem compactX_table : ∀ e ∈ exportShape, e.1 ≠ cs!"QASMU" → ∀ vals : List ℝ,
    compactX (gnameOf e.1) vals = compactC (gnameOf e.1) (vals.headD 0) := by
  intro e he hne vals
  rw [exportShape, List.mem_append] at he
  rcases he with he | he
  swap
  · rcases (mem_lateShape he).1 with rfl | rfl <;> rfl
  simp only [baseShape, List.mem_cons, List.not_mem_nil, or_false] at he
  rcases he with rfl | rfl | rfl | rfl | rfl | rfl | rfl | rfl | rfl | rfl | rfl | rfl | rfl | rfl | rfl | rfl | rfl | rfl | rfl
  · exact absurd rfl hne
  all_goals rfl

theorem semX_irGate (N : ℕ) (ρ : ℕ → ℝ) (g : Gate) (j : ℕ) (hgood : GoodGate N g) (hne : g.name ≠ cs!"QASMU")
    (hρ : ρ j = ((argNums g.arg).map numVal).headD 0) :
    (semX N (xOf g)).map PGate.den = semD N ρ (irGate g j) := by
  have hc : compactX (gnameOf g.name) ((argNums g.arg).map numVal) =
      compactC (irGate g j).name ((irGate g j).arg.eval ρ) := by
    rw [compactX_table _ (shapeOf_mem hgood.shape) hne]
    congr 1
    simp only [irGate]
    cases hx : argNums g.arg with
    | nil => simp [Ang.eval]
    | cons x xs => simp [Ang.eval, Ang.symb, hρ, hx]
  have hq : (irGate g j).qubits = qubitsOf g := by simp [irGate, QipVerif.Gate.qubits, qubitsOf]
  have hc' : compactX (xOf g).name (xOf g).args =
      compactC (irGate g j).name ((irGate g j).arg.eval ρ) := hc
  cases hcc : compactC (irGate g j).name ((irGate g j).arg.eval ρ) with
  | none =>
    have h1 : semX N (xOf g) = none := by
      unfold semX; rw [hc'.trans hcc]
    rw [h1, semD_eq, hcc]
    rfl
  | some mU =>
    obtain ⟨m, U⟩ := mU
    by_cases hh : (qubitsOf g).length = m ∧ (qubitsOf g).Nodup ∧ ∀ q ∈ qubitsOf g, q < N
    · rw [semX_of N (xOf g) m U (hc'.trans hcc) hh.1 hh.2.1 hh.2.2,
        semD_of N ρ (irGate g j) m U hcc hh.1 hh.2.1 hh.2.2]
      rfl
    · have h1 : semX N (xOf g) = none := by
        unfold semX; rw [hc'.trans hcc]; simp only []
        exact dif_neg hh
      rw [h1, semD_eq, hcc]
      simp only []
      rw [dif_neg (show ¬ ((irGate g j).qubits.length = m ∧ (irGate g j).qubits.Nodup ∧
        ∀ q ∈ (irGate g j).qubits, q < N) from hh)]
      rfl

theorem denX_irList (N : ℕ) (ρ : ℕ → ℝ) : ∀ (ops : List Op) (j : ℕ),
    (∀ op ∈ ops, ∃ g, op = .gate g ∧ GoodGate N g ∧ g.name ≠ cs!"QASMU") →
    (∀ i, i < ops.length → ρ (j + i) = paramAt ops i) →
    denX N (ops.filterMap xOfOp) = denG N ρ (irList ops j) := by
  intro ops
  induction ops with
  | nil => intro j _ _; simp [denX, denG, irList]
  | cons op ops ih =>
    intro j hall hρ
    obtain ⟨g, rfl, hgood, hne⟩ := hall op (by simp)
    have h0 : ρ j = ((argNums g.arg).map numVal).headD 0 := by
      have := hρ 0 (by simp)
      simpa [paramAt] using this
    have hg := semX_irGate N ρ g j hgood hne h0
    have ih' := ih (j + 1) (fun o ho => hall o (by simp [ho])) (fun i hi => by
      have := hρ (i + 1) (by simpa using hi)
      simpa [paramAt, Nat.add_assoc, Nat.add_comm 1 i] using this)
    simp only [List.filterMap_cons, xOfOp, irList]
    rw [denG_cons, ← hg, ← ih']
    simp only [denX, List.mapM_cons]
    cases semX N (xOf g) with
    | none => simp
    | some G =>
      cases (ops.filterMap xOfOp).mapM (semX N) with
      | none => simp
      | some l => simp [denP]

end QipVerif.Qasm.Export
