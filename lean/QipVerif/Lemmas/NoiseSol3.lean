import QipVerif.Lemmas.NoiseValid
/-! The explicit solution of the idle master equation of one three-level subsystem under T1/T2
relaxation with `destroy(3)` (`s = √2`) and `num(3)` (C15). -/
namespace QipVerif.Noise
open Matrix ComplexOrder

/-- the remaining entries of the qutrit generator (lower triangle) -/
theorem relaxGen3_coh' (s γ1 γφ : ℝ) (hs : s * s = 2) (ρ : Matrix (Fin 3) (Fin 3) ℂ) :
    relaxGen3 s γ1 γφ ρ 1 0 = -((γ1 / 2 + γφ / 2) * ρ 1 0) + γ1 * s * ρ 2 1 ∧
    relaxGen3 s γ1 γφ ρ 2 1 = -((3 * γ1 / 2 + γφ / 2) * ρ 2 1) ∧
    relaxGen3 s γ1 γφ ρ 2 0 = -((γ1 + 2 * γφ) * ρ 2 0) := by
  have hs' : (s : ℂ) * (s : ℂ) = 2 := by exact_mod_cast hs
  refine ⟨?_, ?_, ?_⟩
  · expand3
    ring
  · expand3
    linear_combination (-(γ1 / 2) * ρ 2 1 : ℂ) * hs'
  · expand3
    linear_combination (-(γ1 / 2) * ρ 2 0 : ℂ) * hs'

/-- explicit solution for `d = 3`: level 2 decays at `2γ` into level 1, level 1 at `γ` into level 0;
coherence rates `a = γ/2 + φ/2` (0–1, fed by 1–2), `b = 3γ/2 + φ/2` (1–2), `c = γ + 2φ` (0–2) -/
noncomputable def relaxSol3 (s γ φ : ℝ) (ρ0 : Matrix (Fin 3) (Fin 3) ℂ) (t : ℝ) :
    Matrix (Fin 3) (Fin 3) ℂ :=
  !![ρ0 0 0 + ρ0 1 1 + ρ0 2 2 - (ρ0 1 1 + 2 * ρ0 2 2) * dec γ t + ρ0 2 2 * dec (2 * γ) t,
       ρ0 0 1 * dec (γ / 2 + φ / 2) t + s * ρ0 1 2 * (dec (γ / 2 + φ / 2) t - dec (3 * γ / 2 + φ / 2) t),
       ρ0 0 2 * dec (γ + 2 * φ) t;
     ρ0 1 0 * dec (γ / 2 + φ / 2) t + s * ρ0 2 1 * (dec (γ / 2 + φ / 2) t - dec (3 * γ / 2 + φ / 2) t),
       (ρ0 1 1 + 2 * ρ0 2 2) * dec γ t - 2 * ρ0 2 2 * dec (2 * γ) t,
       ρ0 1 2 * dec (3 * γ / 2 + φ / 2) t;
     ρ0 2 0 * dec (γ + 2 * φ) t,
       ρ0 2 1 * dec (3 * γ / 2 + φ / 2) t,
       ρ0 2 2 * dec (2 * γ) t]

theorem relaxSol3_zero (s γ φ : ℝ) (ρ0 : Matrix (Fin 3) (Fin 3) ℂ) : relaxSol3 s γ φ ρ0 0 = ρ0 := by
  ext i j; fin_cases i <;> fin_cases j <;> (simp [relaxSol3, dec_zero]; try ring)

theorem relaxSol3_trace (s γ φ : ℝ) (ρ0 : Matrix (Fin 3) (Fin 3) ℂ) (t : ℝ) :
    (relaxSol3 s γ φ ρ0 t).trace = ρ0.trace := by
  simp [Matrix.trace, Fin.sum_univ_three, relaxSol3]; ring

theorem relaxSol3_hermitian (s γ φ : ℝ) (ρ0 : Matrix (Fin 3) (Fin 3) ℂ) (t : ℝ) (h : ρ0ᴴ = ρ0) :
    (relaxSol3 s γ φ ρ0 t)ᴴ = relaxSol3 s γ φ ρ0 t := by
  have e : ∀ i j, (starRingEnd ℂ) (ρ0 j i) = ρ0 i j := fun i j => congrFun (congrFun h i) j
  have c : ∀ k, (starRingEnd ℂ) (dec k t) = dec k t := fun k => Complex.conj_ofReal _
  ext i j
  fin_cases i <;> fin_cases j <;>
    simp [relaxSol3, conjTranspose_apply, c, e, Complex.conj_ofReal]

/-- **the explicit qutrit solution solves the master equation** of `relaxGen3 s γ φ` (`s·s = 2`),
for every initial 3×3 matrix -/
theorem relaxSol3_solves (s γ φ : ℝ) (hs : s * s = 2) (ρ0 : Matrix (Fin 3) (Fin 3) ℂ) :
    Solves (relaxGen3 s γ φ) (relaxSol3 s γ φ ρ0) := by
  intro t
  obtain ⟨g00, g11, g22⟩ := relaxGen3_pop s γ φ hs (relaxSol3 s γ φ ρ0 t)
  obtain ⟨g01, g12, g02⟩ := relaxGen3_coh s γ φ hs (relaxSol3 s γ φ ρ0 t)
  obtain ⟨g10, g21, g20⟩ := relaxGen3_coh' s γ φ hs (relaxSol3 s γ φ ρ0 t)
  have d1 := hasDerivAt_dec γ t
  have d2 := hasDerivAt_dec (2 * γ) t
  have da := hasDerivAt_dec (γ / 2 + φ / 2) t
  have db := hasDerivAt_dec (3 * γ / 2 + φ / 2) t
  have dc := hasDerivAt_dec (γ + 2 * φ) t
  have hc := fun c : ℂ => hasDerivAt_const t c
  intro i j
  fin_cases i <;> fin_cases j
  · show HasDerivAt (fun u => relaxSol3 s γ φ ρ0 u 0 0) (relaxGen3 s γ φ (relaxSol3 s γ φ ρ0 t) 0 0) t
    rw [g00]
    refine (((hc (ρ0 0 0 + ρ0 1 1 + ρ0 2 2)).sub (d1.const_mul (ρ0 1 1 + 2 * ρ0 2 2))).add
      (d2.const_mul (ρ0 2 2))).congr_deriv ?_
    simp [relaxSol3]; ring
  · show HasDerivAt (fun u => relaxSol3 s γ φ ρ0 u 0 1) (relaxGen3 s γ φ (relaxSol3 s γ φ ρ0 t) 0 1) t
    rw [g01]
    refine ((da.const_mul (ρ0 0 1)).add ((da.sub db).const_mul (s * ρ0 1 2))).congr_deriv ?_
    simp [relaxSol3]; ring
  · show HasDerivAt (fun u => relaxSol3 s γ φ ρ0 u 0 2) (relaxGen3 s γ φ (relaxSol3 s γ φ ρ0 t) 0 2) t
    rw [g02]
    refine (dc.const_mul (ρ0 0 2)).congr_deriv ?_
    simp [relaxSol3]; ring
  · show HasDerivAt (fun u => relaxSol3 s γ φ ρ0 u 1 0) (relaxGen3 s γ φ (relaxSol3 s γ φ ρ0 t) 1 0) t
    rw [g10]
    refine ((da.const_mul (ρ0 1 0)).add ((da.sub db).const_mul (s * ρ0 2 1))).congr_deriv ?_
    simp [relaxSol3]; ring
  · show HasDerivAt (fun u => relaxSol3 s γ φ ρ0 u 1 1) (relaxGen3 s γ φ (relaxSol3 s γ φ ρ0 t) 1 1) t
    rw [g11]
    refine ((d1.const_mul (ρ0 1 1 + 2 * ρ0 2 2)).sub (d2.const_mul (2 * ρ0 2 2))).congr_deriv ?_
    simp [relaxSol3]; ring
  · show HasDerivAt (fun u => relaxSol3 s γ φ ρ0 u 1 2) (relaxGen3 s γ φ (relaxSol3 s γ φ ρ0 t) 1 2) t
    rw [g12]
    refine (db.const_mul (ρ0 1 2)).congr_deriv ?_
    simp [relaxSol3]; ring
  · show HasDerivAt (fun u => relaxSol3 s γ φ ρ0 u 2 0) (relaxGen3 s γ φ (relaxSol3 s γ φ ρ0 t) 2 0) t
    rw [g20]
    refine (dc.const_mul (ρ0 2 0)).congr_deriv ?_
    simp [relaxSol3]; ring
  · show HasDerivAt (fun u => relaxSol3 s γ φ ρ0 u 2 1) (relaxGen3 s γ φ (relaxSol3 s γ φ ρ0 t) 2 1) t
    rw [g21]
    refine (db.const_mul (ρ0 2 1)).congr_deriv ?_
    simp [relaxSol3]; ring
  · show HasDerivAt (fun u => relaxSol3 s γ φ ρ0 u 2 2) (relaxGen3 s γ φ (relaxSol3 s γ φ ρ0 t) 2 2) t
    rw [g22]
    refine (d2.const_mul (ρ0 2 2)).congr_deriv ?_
    simp [relaxSol3]; ring

/-- **Uniqueness for `d = 3`** on `[0, ∞)`: the system is triangular (2–2, the coherences 1–2, 0–2,
then 1–1 and 0–1, finally 0–0), each step a scalar linear equation. -/
theorem relaxSol3_unique (s γ φ : ℝ) (hs : s * s = 2) (ρ0 : Matrix (Fin 3) (Fin 3) ℂ)
    (ρ : ℝ → Matrix (Fin 3) (Fin 3) ℂ) (hρ : SolvesOnNonneg (relaxGen3 s γ φ) ρ) (h0 : ρ 0 = ρ0) :
    ∀ t, 0 ≤ t → ρ t = relaxSol3 s γ φ ρ0 t := by
  set σ := relaxSol3 s γ φ ρ0 with hσdef
  have hσ : SolvesOnNonneg (relaxGen3 s γ φ) σ := (relaxSol3_solves s γ φ hs ρ0).onNonneg
  have hσ0 : σ 0 = ρ0 := relaxSol3_zero _ _ _ _
  have key : ∀ (i j : Fin 3) (k : ℝ),
      (∀ t, 0 ≤ t → relaxGen3 s γ φ (ρ t) i j - relaxGen3 s γ φ (σ t) i j = -(k : ℂ) * (ρ t i j - σ t i j)) →
      ∀ t, 0 ≤ t → ρ t i j = σ t i j := by
    intro i j k hk t ht
    have := scalar_decay_unique k (fun u => ρ u i j - σ u i j)
      (fun u hu => by
        have := (hρ u hu i j).sub (hσ u hu i j)
        rw [hk u hu] at this
        exact this)
      (by simp [h0, hσ0]) t ht
    exact sub_eq_zero.mp this
  have p := fun t => relaxGen3_pop s γ φ hs (ρ t)
  have p' := fun t => relaxGen3_pop s γ φ hs (σ t)
  have c := fun t => relaxGen3_coh s γ φ hs (ρ t)
  have c' := fun t => relaxGen3_coh s γ φ hs (σ t)
  have d := fun t => relaxGen3_coh' s γ φ hs (ρ t)
  have d' := fun t => relaxGen3_coh' s γ φ hs (σ t)
  have h22 := key 2 2 (2 * γ) (fun t _ => by rw [(p t).2.2, (p' t).2.2]; push_cast; ring)
  have h12 := key 1 2 (3 * γ / 2 + φ / 2) (fun t _ => by rw [(c t).2.1, (c' t).2.1]; push_cast; ring)
  have h21 := key 2 1 (3 * γ / 2 + φ / 2) (fun t _ => by rw [(d t).2.1, (d' t).2.1]; push_cast; ring)
  have h02 := key 0 2 (γ + 2 * φ) (fun t _ => by rw [(c t).2.2, (c' t).2.2]; push_cast; ring)
  have h20 := key 2 0 (γ + 2 * φ) (fun t _ => by rw [(d t).2.2, (d' t).2.2]; push_cast; ring)
  have h11 := key 1 1 γ (fun t ht => by rw [(p t).2.1, (p' t).2.1, h22 t ht]; ring)
  have h01 := key 0 1 (γ / 2 + φ / 2) (fun t ht => by rw [(c t).1, (c' t).1, h12 t ht]; push_cast; ring)
  have h10 := key 1 0 (γ / 2 + φ / 2) (fun t ht => by rw [(d t).1, (d' t).1, h21 t ht]; push_cast; ring)
  have h00 := key 0 0 0 (fun t ht => by rw [(p t).1, (p' t).1, h11 t ht]; push_cast; ring)
  intro t ht
  ext i j
  fin_cases i <;> fin_cases j
  · exact h00 t ht
  · exact h01 t ht
  · exact h02 t ht
  · exact h10 t ht
  · exact h11 t ht
  · exact h12 t ht
  · exact h20 t ht
  · exact h21 t ht
  · exact h22 t ht

/-! ### states supported on the two lowest levels behave as a qubit -/

/-- a 2×2 matrix placed on levels 0, 1 of a three-level system -/
def embed23 (σ : Matrix (Fin 2) (Fin 2) ℂ) : Matrix (Fin 3) (Fin 3) ℂ :=
  !![σ 0 0, σ 0 1, 0; σ 1 0, σ 1 1, 0; 0, 0, 0]

/-- the isometry `ℂ² → ℂ³` onto levels 0, 1 -/
def iso23 : Matrix (Fin 3) (Fin 2) ℂ := !![1, 0; 0, 1; 0, 0]

theorem embed23_eq (σ : Matrix (Fin 2) (Fin 2) ℂ) : embed23 σ = iso23 * σ * iso23ᴴ := by
  ext i j
  fin_cases i <;> fin_cases j <;>
  · simp only [Matrix.mul_apply, Fin.sum_univ_two, conjTranspose_apply]
    simp [embed23, iso23]

theorem embed23_density {σ : Matrix (Fin 2) (Fin 2) ℂ} (h : IsDensity σ) : IsDensity (embed23 σ) := by
  constructor
  · rw [embed23_eq]; exact h.1.mul_mul_conjTranspose_same iso23
  · have := h.2
    simp only [Matrix.trace, Fin.sum_univ_two, Fin.sum_univ_three, Matrix.diag_apply] at this ⊢
    simp [embed23, this]

/-- on states supported on levels 0, 1 the qutrit solution is the qubit solution (rates `γ`,
`γ/2 + φ/2`) on those levels -/
theorem relaxSol3_embed (s γ φ : ℝ) (σ : Matrix (Fin 2) (Fin 2) ℂ) (t : ℝ) :
    relaxSol3 s γ φ (embed23 σ) t = embed23 (relaxSol2 γ (γ / 2 + φ / 2) σ t) := by
  ext i j
  fin_cases i <;> fin_cases j <;> simp [relaxSol3, embed23, relaxSol2] <;> ring

end QipVerif.Noise
