import QipVerif.Lemmas.ZyzGates
import Mathlib.LinearAlgebra.UnitaryGroup

/-!
# C17 — parametrisation of U(2) and facts about `Complex.arg` used by the angle extraction

For `U ∈ U(2)` with determinant `d`:  `u₁₁ = d·conj u₀₀`, `u₁₀ = −d·conj u₀₁`,
`|u₀₀|² + |u₀₁|² = 1`, `|d| = 1`.  And `|z|·e^{±i·arg z} = z` resp. `conj z` for **every** `z`
(also `z = 0`, where `arg 0 = 0`), which is what makes the degenerate families (diagonal,
anti-diagonal, scalar, det −1) fall under the same proof.
-/
namespace QipVerif.Zyz
open Matrix Complex

theorem eq_one_of_sq_eq_one {r : ℝ} (h0 : 0 ≤ r) (h : r ^ 2 = 1) : r = 1 := by
  have h2 : (r - 1) * (r + 1) = 0 := by ring_nf; linarith
  rcases mul_eq_zero.mp h2 with h3 | h3 <;> linarith

theorem norm_eq_one_of_mul_conj {z : ℂ} (h : z * (starRingEnd ℂ) z = 1) : ‖z‖ = 1 := by
  rw [Complex.mul_conj, Complex.normSq_eq_norm_sq] at h
  exact eq_one_of_sq_eq_one (norm_nonneg z) (by exact_mod_cast h)

theorem unitary_rows {U : M2} (hU : U ∈ Matrix.unitaryGroup (Fin 2) ℂ) :
    U 0 0 * (starRingEnd ℂ) (U 0 0) + U 0 1 * (starRingEnd ℂ) (U 0 1) = 1 ∧
    U 1 0 * (starRingEnd ℂ) (U 0 0) + U 1 1 * (starRingEnd ℂ) (U 0 1) = 0 := by
  have h := Matrix.mem_unitaryGroup_iff.mp hU
  have h00 := congrFun (congrFun h 0) 0
  have h10 := congrFun (congrFun h 1) 0
  simp [Matrix.mul_apply, Fin.sum_univ_two, Matrix.star_apply] at h00 h10
  exact ⟨h00, h10⟩

/-- `u₁₁ = det U · conj u₀₀` -/
theorem unitary_u11 {U : M2} (hU : U ∈ Matrix.unitaryGroup (Fin 2) ℂ) :
    U 1 1 = U.det * (starRingEnd ℂ) (U 0 0) := by
  obtain ⟨h1, h2⟩ := unitary_rows hU
  rw [Matrix.det_fin_two]
  linear_combination (-(U 1 1)) * h1 + (U 0 1) * h2

/-- `u₁₀ = −det U · conj u₀₁` -/
theorem unitary_u10 {U : M2} (hU : U ∈ Matrix.unitaryGroup (Fin 2) ℂ) :
    U 1 0 = -(U.det * (starRingEnd ℂ) (U 0 1)) := by
  obtain ⟨h1, h2⟩ := unitary_rows hU
  rw [Matrix.det_fin_two]
  linear_combination (-(U 1 0)) * h1 + (U 0 0) * h2

theorem unitary_norm_row {U : M2} (hU : U ∈ Matrix.unitaryGroup (Fin 2) ℂ) :
    ‖U 0 0‖ ^ 2 + ‖U 0 1‖ ^ 2 = 1 := by
  obtain ⟨h1, _⟩ := unitary_rows hU
  rw [Complex.mul_conj, Complex.mul_conj, Complex.normSq_eq_norm_sq, Complex.normSq_eq_norm_sq] at h1
  exact_mod_cast h1

theorem unitary_norm_det {U : M2} (hU : U ∈ Matrix.unitaryGroup (Fin 2) ℂ) : ‖U.det‖ = 1 := by
  have h := (Unitary.mem_iff.mp (Matrix.det_of_mem_unitary hU)).2
  exact norm_eq_one_of_mul_conj h

/-- `|z|·e^{-i·arg z} = conj z`, for every `z` -/
theorem norm_mul_exp_neg_arg (z : ℂ) : (‖z‖ : ℂ) * cexp (-(I * (z.arg : ℂ))) = (starRingEnd ℂ) z := by
  have h := congrArg (starRingEnd ℂ) (Complex.norm_mul_exp_arg_mul_I z)
  rw [map_mul, Complex.conj_ofReal, ← Complex.exp_conj, map_mul, Complex.conj_ofReal, Complex.conj_I] at h
  rw [← h]; congr 2; ring

/-- `|z|·e^{i·arg z} = z`, for every `z` -/
theorem norm_mul_exp_arg (z : ℂ) : (‖z‖ : ℂ) * cexp (I * (z.arg : ℂ)) = z := by
  have h := Complex.norm_mul_exp_arg_mul_I z
  rw [mul_comm I]; exact h

/-- for a unit complex number, `e^{-i·arg(1/n)} = n` -/
theorem exp_neg_arg_inv {n : ℂ} (hn : ‖n‖ = 1) : cexp (I * ((-(1 / n).arg : ℝ) : ℂ)) = n := by
  have hw : ‖1 / n‖ = 1 := by rw [norm_div, norm_one, hn, div_one]
  have h := norm_mul_exp_neg_arg (1 / n)
  rw [hw, Complex.ofReal_one, one_mul] at h
  have hc : (starRingEnd ℂ) (1 / n) = n := by
    have hn0 : n ≠ 0 := by intro h0; rw [h0, norm_zero] at hn; exact zero_ne_one hn
    have : n * (starRingEnd ℂ) n = 1 := by
      rw [Complex.mul_conj, Complex.normSq_eq_norm_sq, hn]; norm_num
    have hcn0 : (starRingEnd ℂ) n ≠ 0 := (map_ne_zero _).mpr hn0
    rw [map_div₀, map_one, div_eq_iff hcn0, this]
  have he : cexp (I * ((-(1 / n).arg : ℝ) : ℂ)) = cexp (-(I * ((1 / n).arg : ℂ))) := by
    congr 1; push_cast; ring
  rw [he, h, hc]

/-- `cos`/`sin` of `arg (x + i y)` on the unit circle -/
theorem cos_sin_arg_unit {x y : ℝ} (h : x ^ 2 + y ^ 2 = 1) :
    Real.cos (Complex.arg ⟨x, y⟩) = x ∧ Real.sin (Complex.arg ⟨x, y⟩) = y := by
  have hn : ‖(⟨x, y⟩ : ℂ)‖ = 1 := by
    apply eq_one_of_sq_eq_one (norm_nonneg _)
    rw [← Complex.normSq_eq_norm_sq, Complex.normSq_mk]; nlinarith
  have h0 : (⟨x, y⟩ : ℂ) ≠ 0 := by intro h0; rw [h0, norm_zero] at hn; exact zero_ne_one hn
  constructor
  · rw [Complex.cos_arg h0, hn, div_one]
  · rw [Complex.sin_arg, hn, div_one]

end QipVerif.Zyz
