import QipVerif.Lemmas.CqedReal
import Mathlib.Analysis.SpecialFunctions.Integrals.Basic
/-!
# C18: the Hann envelope of the superconducting-qubit compiler

`window π u = 1/2 − 1/2 cos(π u)` on `[0, 2]` (the generated formula and `t_max`): its integral is 1, it vanishes at
both ends (so the DRAG quadrature, proportional to its derivative, integrates to 0), and after the scaling of
`generate_pulse_shape` (values × `|Ω|·sign a`, times × `|a|/|Ω|`) the integral of the continuous envelope over the
pulse is the requested area `a`.  These are statements about the CONTINUOUS envelope from which the compiler takes
its 101 samples; the spline through the samples and its numerical quadrature are not modelled.
-/
namespace QipVerif.DevReal
open QipVerif.Dev QipVerif.Gen MeasureTheory intervalIntegral

/-- the window as a function -/
noncomputable def hann (u : ℝ) : ℝ := SCQ.window Real.pi u

theorem hann_eq (u : ℝ) : hann u = 1 / 2 - 1 / 2 * Real.cos (Real.pi * u) := scq_window_eq u

/-- the window vanishes at both ends of `[0, t_max]` -/
theorem hann_ends : hann 0 = 0 ∧ hann (SCQ.windowTmax : ℝ) = 0 := by
  rw [scq_windowTmax_eq, hann_eq, hann_eq]
  constructor
  · simp
  · rw [show Real.pi * 2 = 2 * Real.pi by ring, Real.cos_two_pi]; ring

/-- its maximum, at the middle of the window, is 1: the pulse amplitude is the hardware strength -/
theorem hann_mid : hann 1 = 1 := by
  rw [hann_eq, mul_one, Real.cos_pi]; ring

theorem hann_le_one (u : ℝ) : hann u ≤ 1 := by
  rw [hann_eq]; have := Real.neg_one_le_cos (Real.pi * u); linarith
theorem hann_nonneg (u : ℝ) : 0 ≤ hann u := by
  rw [hann_eq]; have := Real.cos_le_one (Real.pi * u); linarith

/-- **normalisation**: the integral of the window over `[0, t_max]` is 1 -/
theorem hann_integral : ∫ u in (0 : ℝ)..(SCQ.windowTmax : ℝ), hann u = 1 := by
  rw [scq_windowTmax_eq]
  have hpi := Real.pi_ne_zero
  have h : ∀ u, hann u = 1 / 2 - 1 / 2 * Real.cos (Real.pi * u) := hann_eq
  simp_rw [h]
  rw [intervalIntegral.integral_sub (by simp) (by
        apply Continuous.intervalIntegrable; fun_prop),
      intervalIntegral.integral_const, intervalIntegral.integral_const_mul,
      intervalIntegral.integral_comp_mul_left (f := Real.cos) hpi, integral_cos]
  simp [Real.sin_two_pi, show Real.pi * 2 = 2 * Real.pi by ring]

theorem hann_hasDeriv (u : ℝ) : HasDerivAt hann (Real.pi / 2 * Real.sin (Real.pi * u)) u := by
  have h1 : HasDerivAt (fun u : ℝ => Real.pi * u) Real.pi u := by
    simpa using (hasDerivAt_id u).const_mul Real.pi
  have h2 := (h1.cos.const_mul (1 / 2 : ℝ)).const_sub (1 / 2 : ℝ)
  have : hann = fun u => 1 / 2 - 1 / 2 * Real.cos (Real.pi * u) := funext hann_eq
  rw [this]
  have e : Real.pi / 2 * Real.sin (Real.pi * u) = -(1 / 2 * (-Real.sin (Real.pi * u) * Real.pi)) := by ring
  rw [e]
  exact h2

/-- the derivative of the window (the shape of the DRAG quadrature) integrates to 0 over the pulse -/
theorem hann_deriv_integral : ∫ u in (0 : ℝ)..(SCQ.windowTmax : ℝ), Real.pi / 2 * Real.sin (Real.pi * u) = 0 := by
  have h := intervalIntegral.integral_eq_sub_of_hasDerivAt (a := (0 : ℝ)) (b := (SCQ.windowTmax : ℝ))
    (f := hann) (f' := fun u => Real.pi / 2 * Real.sin (Real.pi * u)) (fun u _ => hann_hasDeriv u)
    (by apply Continuous.intervalIntegrable; fun_prop)
  rw [h, hann_ends.1, hann_ends.2, sub_zero]

/-- the continuous envelope of a compiled pulse: `generate_pulse_shape` applied to the window, as a function of the
physical time `t` (`t = pulseDur u Ω a` ⇔ `u = t·|Ω|/|a|`) -/
noncomputable def envelope (Ω a t : ℝ) : ℝ := SCQ.pulseCoeff (hann (t / (|a| / |Ω|))) Ω a

/-- the samples of the compiler lie on the envelope -/
theorem sample_on_envelope (Ω a u : ℝ) (hΩ : Ω ≠ 0) (ha : a ≠ 0) :
    SCQ.pulseCoeff (SCQ.window Real.pi u) Ω a = envelope Ω a (SCQ.pulseDur u Ω a) := by
  unfold envelope hann
  rw [scq_pulseDur_eq]
  have h : |a| / |Ω| ≠ 0 := div_ne_zero (abs_ne_zero.mpr ha) (abs_ne_zero.mpr hΩ)
  rw [mul_div_assoc, div_self h, mul_one]

/-- **area**: the integral of the envelope over the pulse `[0, pulseDur t_max Ω a]` is the requested area `a` -/
theorem envelope_area (Ω a : ℝ) (hΩ : Ω ≠ 0) :
    ∫ t in (0 : ℝ)..(SCQ.pulseDur (SCQ.windowTmax : ℝ) Ω a), envelope Ω a t = a := by
  by_cases ha : a = 0
  · subst ha
    rw [scq_pulseDur_eq]
    simp
  have hs : |a| / |Ω| ≠ 0 := div_ne_zero (abs_ne_zero.mpr ha) (abs_ne_zero.mpr hΩ)
  unfold envelope
  simp_rw [scq_pulseCoeff_eq]
  rw [scq_pulseDur_eq, intervalIntegral.integral_mul_const,
    intervalIntegral.integral_comp_div (f := hann) hs]
  rw [zero_div, mul_div_assoc, div_self hs, mul_one, hann_integral]
  have h1 := abs_mul_sign a
  have hΩ' : |Ω| ≠ 0 := abs_ne_zero.mpr hΩ
  simp only [smul_eq_mul, mul_one]
  field_simp
  linear_combination h1

/-- `rzx_compiler` multiplies the coefficients and the times by the same factor `f`: the area is multiplied by `f²` -/
theorem envelope_rescaled_area (Ω a f : ℝ) (hΩ : Ω ≠ 0) :
    ∫ t in (0 : ℝ)..(SCQ.pulseDur (SCQ.windowTmax : ℝ) Ω a * f), f * envelope Ω a (t / f) = f * f * a := by
  by_cases hf : f = 0
  · subst hf; simp
  rw [intervalIntegral.integral_const_mul, intervalIntegral.integral_comp_div (f := envelope Ω a) hf, zero_div,
    mul_div_assoc, div_self hf, mul_one, envelope_area Ω a hΩ]
  simp only [smul_eq_mul]; ring

/-- total area of the cross-resonance pulse: `θ/π` when the area carries the sign of the angle (or `θ ≥ 0`) -/
theorem rzx_total_area (θ : ℝ) (hs : SCQ.rzxSigned = true ∨ 0 ≤ θ) :
    SCQ.rzxRescale Real.pi θ * SCQ.rzxRescale Real.pi θ * SCQ.rzxArea Real.pi θ = θ / Real.pi := by
  have hpi := Real.pi_ne_zero
  rw [scq_rzxRescale_sq, scq_rzxArea_eq]
  by_cases h : SCQ.rzxSigned = true
  · rw [if_pos h]
    have := abs_mul_sign θ
    field_simp
    linear_combination this
  · rw [if_neg h]
    have h0 : 0 ≤ θ := by rcases hs with h' | h'; exact absurd h' h; exact h'
    rw [abs_of_nonneg h0]
    field_simp

/-- without the sign (the shape before fixes/C18-2.patch) the total area is `|θ|/π` -/
theorem rzx_total_area_unsigned (θ : ℝ) :
    SCQ.rzxRescale Real.pi θ * SCQ.rzxRescale Real.pi θ * (1 / 2) = |θ| / Real.pi := by
  have hpi := Real.pi_ne_zero
  rw [scq_rzxRescale_sq]
  field_simp

end QipVerif.DevReal
